//go:build verif

package verifc06

import (
	"bytes"
	"encoding/json"
	"fmt"
	"os"
	"path/filepath"

	"github.com/cloudflare/circl/internal/verifmc"
	"github.com/cloudflare/circl/internal/verifref/xladder"
)

// Impl is the code under test, wrapped by the in-package harness.
type Impl struct {
	Name   string // "x25519" / "x448"
	P      *Params
	Shared func(k, u []byte) (out []byte, ok bool)
	KeyGen func(k []byte) []byte
	// SharedAlias calls Shared with the aliasing pattern mode (see alias.go) and
	// returns the output, the flag and the operands that are not the output as
	// they are after the call (nil for an operand that is the output).
	SharedAlias func(mode string, k, u []byte) (out []byte, ok bool, kAfter, uAfter []byte)
	// KeyGenAlias calls KeyGen(&x, &x).
	KeyGenAlias func(k []byte) []byte
	Backend     string        // back-end actually selected: "generic", "asm-legacy", "asm-bmi2adx"
	Globals     func() string // digest of the package's tables
}

// ExpectedBackend is the back-end a configuration label is meant to select.
func ExpectedBackend(config string) string {
	switch config {
	case "purego":
		return "generic"
	case "nobmi2", "noadx", "alloff":
		return "asm-legacy"
	}
	return "asm-bmi2adx"
}

// CheckBackend records the back-end in the evidence and marks the unit vacuous
// when a read-out is present and contradicts the back-end the configuration
// stands for. A missing read-out (backend == "": the in-package read-out file was
// not built against this tree) is recorded as "not observed" and is not vacuous.
func CheckBackend(r *verifmc.Run, backend string) {
	if backend == "" {
		r.Set("backend", "not observed")
		r.Set("backend_note", "the in-package read-out of the dispatch switch is not linked in (it did not build against this tree); the configuration label alone says which back-end was meant")
		r.Outcome("backend=not observed")
		return
	}
	r.Set("backend", backend)
	// The evidence file keeps the extra fields of one configuration per unit;
	// merge what the earlier configurations of this run recorded so that the
	// last one lists the back-end selected under every configuration.
	by := map[string]string{r.Config(): backend}
	if out := os.Getenv("VERIF_OUT"); out != "" {
		files, _ := filepath.Glob(filepath.Join(out, fmt.Sprintf("%s.%s.*.json", r.Prop, r.Unit)))
		for _, f := range files {
			var u struct {
				Config string
				Extra  struct{ Backend string }
			}
			if b, err := os.ReadFile(f); err == nil && json.Unmarshal(b, &u) == nil && u.Config != "" && u.Extra.Backend != "" {
				if _, mine := by[u.Config]; !mine {
					by[u.Config] = u.Extra.Backend
				}
			}
		}
	}
	r.Set("backends_by_config", by)
	r.Outcome("backend=" + backend)
	if want := ExpectedBackend(r.Config()); want != backend {
		r.Vacuous(fmt.Sprintf("config %s selected back-end %s, expected %s", r.Config(), backend, want))
	}
}

// memo is the reference oracle with memoisation.
type pair struct {
	k, u Named
	id   string
	want []byte // constructed cases: the prescribed output
}

type pairSet struct {
	unit  string
	seen  map[string]bool
	pairs []pair
}

func (ps *pairSet) product(ks, us []Named) {
	if ps.seen == nil {
		ps.seen = map[string]bool{}
	}
	for _, k := range ks {
		for _, u := range us {
			key := string(k.B) + string(u.B)
			if ps.seen[key] {
				continue
			}
			ps.seen[key] = true
			ps.pairs = append(ps.pairs, pair{k: k, u: u, id: ps.unit + "/k=" + k.Name + "/u=" + u.Name})
		}
	}
}

type finding struct {
	key, what string
}

type result struct {
	out, want []byte
	ok        bool
	panicked  string
	uc        UClass
	kc        string
	find      []finding
	ran       bool
	harness   string
}

func hx(b []byte) string { return verifmc.FullHex(b) }

// evalShared runs one (k,u) pair on the real code and judges it.
func evalShared(im *Impl, m *memo, p *pair) result {
	var res result
	res.ran = true
	res.uc = im.P.ClassifyU(p.u.B)
	res.kc = im.P.ClassifyK(p.k.B)
	k := append([]byte{}, p.k.B...)
	u := append([]byte{}, p.u.B...)
	pan, what := verifmc.Try(func() { res.out, res.ok = im.Shared(k, u) })
	entry := im.Name + ".Shared"
	cls := "u=" + res.uc.String() + ",k=" + res.kc
	res.want = m.X(p.k.B, p.u.B)
	if !xladder.IsZero(res.want) && im.P.InWindow(res.want) {
		cls += ",out=has-noncanonical-alias"
	}
	if pan {
		res.panicked = what
		res.find = append(res.find, finding{"C06|" + entry + "|panic-" + verifmc.PanicClass(what) + "|" + cls, "panic: " + what})
		return res
	}
	if !bytes.Equal(k, p.k.B) || !bytes.Equal(u, p.u.B) {
		res.find = append(res.find, finding{"C06|" + entry + "|input-modified|" + cls, "Shared modified its secret or public argument"})
	}
	if p.want != nil && !bytes.Equal(p.want, res.want) {
		res.harness = fmt.Sprintf("constructed peer %s does not give the prescribed output under the reference: %s want %s", p.id, hx(res.want), hx(p.want))
	}
	if !bytes.Equal(res.out, res.want) {
		res.find = append(res.find, finding{"C06|" + entry + "|value-differs-from-rfc7748|" + cls,
			fmt.Sprintf("Shared(k=%s, u=%s) = %s, RFC 7748 gives %s", hx(p.k.B), hx(p.u.B), hx(res.out), hx(res.want))})
	}
	zero := xladder.IsZero(res.out)
	if zero && res.ok {
		res.find = append(res.find, finding{"C06|" + entry + "|flag-true-but-output-zero|" + cls,
			fmt.Sprintf("Shared(k=%s, u=%s) returned the all-zero value with flag true", hx(p.k.B), hx(p.u.B))})
	}
	if !zero && !res.ok {
		res.find = append(res.find, finding{"C06|" + entry + "|flag-false-but-output-nonzero|" + cls,
			fmt.Sprintf("Shared(k=%s, u=%s) = %s (non-zero) with flag false", hx(p.k.B), hx(p.u.B), hx(res.out))})
	}
	return res
}

// runPairs evaluates all pairs in parallel and reports sequentially in
// enumeration order, so that the recorded violation of every key is the first
// one in that order on every run.
func runPairs(r *verifmc.Run, im *Impl, m *memo, pairs []pair) {
	res := make([]result, len(pairs))
	verifmc.ParallelFor(len(pairs), func(i int) {
		if !r.Want(pairs[i].id) || r.Expired() {
			return
		}
		res[i] = evalShared(im, m, &pairs[i])
	})
	nsample := 0
	for i := range pairs {
		x, p := &res[i], &pairs[i]
		if !x.ran {
			continue
		}
		r.Eval(1)
		r.Distinct(p.k.B, p.u.B)
		r.Count("pairs", 1)
		if x.harness != "" {
			r.Vacuous(x.harness)
		}
		if p.want != nil {
			r.Count("constructed_pairs", 1)
		}
		if x.want != nil && !xladder.IsZero(x.want) && im.P.InWindow(x.want) {
			r.Count("reference_output_has_noncanonical_alias", 1)
		}
		r.Count("u_"+x.uc.Side, 1)
		if x.uc.NonCanonical {
			r.Count("u_noncanonical", 1)
		}
		if x.uc.TopBit {
			r.Count("u_bit255_set", 1)
		}
		if x.uc.LowOrder {
			r.Count("u_low_order", 1)
		}
		if x.kc != "ordinary" {
			r.Count("k_"+x.kc, 1)
		}
		if x.panicked == "" {
			if !x.ok {
				r.Count("flag_false", 1)
			}
			if xladder.IsZero(x.want) {
				r.Count("reference_zero", 1)
				if !x.uc.LowOrder {
					r.Count("reference_zero_with_u_not_low_order", 1)
				}
			}
			r.Outcome(fmt.Sprintf("flag=%v,zero=%v", x.ok, xladder.IsZero(x.out)))
		}
		if nsample < 4 && (i%(len(pairs)/4+1) == 0) {
			nsample++
			r.Sample(map[string]interface{}{"case": p.id, "k": hx(p.k.B), "u": hx(p.u.B), "out": hx(x.out), "flag": x.ok, "u_class": x.uc.String()})
		}
		for _, f := range x.find {
			r.Violation(f.key, p.id, f.what, map[string]string{"k": hx(p.k.B), "u": hx(p.u.B), "backend": im.Backend})
		}
	}
}

func globalsGuard(r *verifmc.Run, im *Impl) func() {
	if im.Globals == nil {
		return func() {}
	}
	before := im.Globals()
	r.Set("package_tables_guarded", before != "")
	return func() {
		if after := im.Globals(); after != before {
			r.Violation("C06|"+im.Name+"|package-table-modified|any", "", "digest of package tables changed during the unit: "+before+" -> "+after, nil)
		}
	}
}

func names(ns []Named, max int) []string {
	var o []string
	for i, n := range ns {
		if i == max {
			o = append(o, fmt.Sprintf("... (%d in total)", len(ns)))
			break
		}
		o = append(o, n.Name)
	}
	return o
}

// RunShared: Shared(k,u) against RFC 7748 and flag <=> zero output, on the union
// of three complete products: core scalars x core peers, small scalars x wide
// peers (single bits, limb-structured), wide scalars (single bits, clamp space,
// limb-structured) x small peers.
func RunShared(r *verifmc.Run, im *Impl) {
	CheckBackend(r, im.Backend)
	defer globalsGuard(r, im)()
	pp := im.P
	th := r.Thorough()
	kCore, kSmall, kBits := pp.ScalarsCore(r.Seed()), pp.ScalarsSmall(), pp.ScalarsBits()
	uCore, uSmall, uBits, uLimbs := pp.PeersCore(r.Seed()), pp.PeersSmall(), pp.PeersBits(), pp.PeersLimbs(th)
	kLimbs := pp.ScalarsLimbs(th)
	ps := pairSet{unit: "shared"}
	var products []string
	prod := func(kn string, ks []Named, un string, us []Named) {
		ps.product(ks, us)
		products = append(products, fmt.Sprintf("%s(%d) x %s(%d)", kn, len(ks), un, len(us)))
	}
	uNC := pp.PeersNonCanonicalBits()
	prod("k_core", kCore, "u_core", uCore)
	var kClamp []Named
	if th {
		prod("k_small", kSmall, "u_bits", uBits)
		prod("k_small", kSmall, "u_noncanonical_bits", uNC)
		// the limb-structured alphabets are large in this tier: two scalars resp. two peers
		prod("k_small[:2]", kSmall[:2], "u_limbs", uLimbs)
		prod("k_bits", kBits, "u_small", uSmall)
		prod("k_limbs", kLimbs, "u_small[:2]", uSmall[:2])
		kClamp = pp.ScalarsClampSpace(true)
		prod("k_clamp_space", kClamp, "u_small[:2]", uSmall[:2])
	} else {
		prod("k_small[:2]", kSmall[:2], "u_bits", uBits)
		prod("k_small[:2]", kSmall[:2], "u_noncanonical_bits", uNC)
		prod("k_small[:2]", kSmall[:2], "u_limbs", uLimbs)
		prod("k_bits", kBits, "u_small[:2]", uSmall[:2])
		prod("k_limbs", kLimbs, "u_small[:3]", uSmall[:3])
	}
	// constructed peers: X(k,u) is a prescribed value with a non-canonical alias
	// (or just below p); every core scalar x every narrow target, two scalars x wide targets
	targets := pp.Targets(th)
	cons := pp.ConstructedPeers(kCore, targets, 2)
	for _, c := range cons {
		key := string(c.K.B) + string(c.U.B)
		if ps.seen[key] {
			continue
		}
		ps.seen[key] = true
		ps.pairs = append(ps.pairs, pair{k: c.K, u: c.U, id: "shared/k=" + c.K.Name + "/u=" + c.U.Name, want: c.Want})
	}
	products = append(products, fmt.Sprintf("constructed: distinct clamped k_core x %d prime-order output targets (u built so that X(k,u) = target): %d pairs", len(targets), len(cons)))
	tn := make([]Named, len(targets))
	for i, t := range targets {
		tn[i] = Named{Name: t.Name + "/" + t.Side}
	}
	r.Set("output_targets", names(tn, 600))
	r.Set("products", products)
	r.Set("alphabet", map[string]interface{}{
		"k_core": names(kCore, 100), "u_core": names(uCore, 400),
		"k_small": names(kSmall, 10), "u_small": names(uSmall, 10),
		"k_bits": len(kBits), "u_bits": len(uBits), "k_limbs": len(kLimbs), "u_limbs": len(uLimbs), "u_noncanonical_bits": len(uNC), "k_clamp_space": len(kClamp),
	})
	peerL, scL := pp.LimbAlphabets(th)
	r.Set("limb_alphabets", map[string]interface{}{"peer": fmt.Sprintf("%x", peerL), "scalar": fmt.Sprintf("%x", scL)})
	r.Rule("distinct (scalar bytes, peer bytes) pairs of the union of the complete products listed under extra.products (core x core, few scalars x wide peer alphabets, wide scalar alphabets x few peers); " +
		"each pair runs the real Shared once and is compared with the RFC 7748 big.Int ladder (value) and with output==0 (flag)")
	m := newMemo(pp.C, r)
	runPairs(r, im, m, ps.pairs)
	runAlias(r, im, m, kCore, uCore, cons)
	runChain(r, im, m, r.Pick(200, 1000))
	m.finish(r)
	if pp.C.Bits == 448 {
		r.NotExhaustive("X448 non-canonical range p..2^448-1 has 2^224+1 values; its two ends (32 each) and all single-bit offsets are enumerated, not the range")
	}
	r.RequireCounter("pairs", 4000)
	r.RequireCounter("flag_false", 50)
	r.RequireCounter("reference_zero", 50)
	r.RequireCounter("constructed_pairs", 300)
	r.RequireCounter("reference_output_has_noncanonical_alias", 20)
	r.RequireCounter("u_noncanonical", 200)
	r.RequireCounter("u_twist", 100)
	r.RequireCounter("u_curve", 100)
	if pp.C.Bits == 255 {
		r.RequireCounter("u_bit255_set", 500)
	}
}

// RunKeyGen: KeyGen(k) == X(k, base) on core, single-bit, limb-structured scalars
// and the complete (first byte, last byte) clamp space; and KeyGen(k) ==
// Shared(k, base) on the real code.
func RunKeyGen(r *verifmc.Run, im *Impl) {
	CheckBackend(r, im.Backend)
	defer globalsGuard(r, im)()
	pp := im.P
	var s set
	fullClamp := r.Thorough() || pp.C.Bits == 255
	kClamp := pp.ScalarsClampSpace(fullClamp)
	for _, l := range [][]Named{pp.ScalarsCore(r.Seed()), pp.ScalarsBits(), pp.ScalarsLimbs(r.Thorough()), kClamp} {
		for _, n := range l {
			s.add(n.Name, n.B)
		}
	}
	ks := s.out
	base := pp.C.LE(pp.C.BaseU)
	m := newMemo(pp.C, r)
	type kres struct {
		ran       bool
		pub, want []byte
		sh        []byte
		shok      bool
		inplace   []byte
		pan       string
	}
	res := make([]kres, len(ks))
	verifmc.ParallelFor(len(ks), func(i int) {
		id := "keygen/k=" + ks[i].Name
		if !r.Want(id) || r.Expired() {
			return
		}
		x := &res[i]
		x.ran = true
		k := append([]byte{}, ks[i].B...)
		pan, what := verifmc.Try(func() {
			x.pub = im.KeyGen(k)
			x.sh, x.shok = im.Shared(k, base)
			if im.KeyGenAlias != nil {
				x.inplace = im.KeyGenAlias(append([]byte{}, ks[i].B...))
			}
		})
		if pan {
			x.pan = what
			return
		}
		x.want = m.X(ks[i].B, base)
	})
	entry := im.Name + ".KeyGen"
	distinctClamped := map[string]bool{}
	for i := range ks {
		x := &res[i]
		if !x.ran {
			continue
		}
		id := "keygen/k=" + ks[i].Name
		kc := pp.ClassifyK(ks[i].B)
		rp := map[string]string{"k": hx(ks[i].B), "backend": im.Backend}
		r.Eval(2)
		r.Distinct(ks[i].B)
		r.Count("scalars", 1)
		distinctClamped[pp.C.DecodeScalar(ks[i].B).Text(62)] = true
		if kc != "ordinary" {
			r.Count("k_"+kc, 1)
		}
		if x.pan != "" {
			r.Violation("C06|"+entry+"|panic-"+verifmc.PanicClass(x.pan)+"|k="+kc, id, "panic: "+x.pan, rp)
			continue
		}
		if i%(len(ks)/4+1) == 0 {
			r.Sample(map[string]interface{}{"case": id, "k": hx(ks[i].B), "public": hx(x.pub)})
		}
		if !bytes.Equal(x.pub, x.want) {
			r.Violation("C06|"+entry+"|value-differs-from-rfc7748|k="+kc, id,
				fmt.Sprintf("KeyGen(k=%s) = %s, RFC 7748 X(k, base) = %s", hx(ks[i].B), hx(x.pub), hx(x.want)), rp)
		}
		if !bytes.Equal(x.pub, x.sh) {
			r.Violation("C06|"+entry+"|differs-from-Shared-with-base-point|k="+kc, id,
				fmt.Sprintf("KeyGen(k=%s) = %s but Shared(k, base) = %s", hx(ks[i].B), hx(x.pub), hx(x.sh)), rp)
		}
		if xladder.IsZero(x.want) {
			r.Count("reference_zero", 1)
		}
		if x.inplace != nil {
			r.Eval(1)
			r.Count("aliased_keygen", 1)
			if !bytes.Equal(x.inplace, x.want) {
				r.Violation("C06|"+entry+"|value-differs-from-rfc7748|alias public=secret,k="+kc, id,
					fmt.Sprintf("KeyGen(&x, &x) with x=%s gives %s, RFC 7748 X(k, base) = %s", hx(ks[i].B), hx(x.inplace), hx(x.want)), rp)
			}
		}
	}
	if im.KeyGenAlias == nil {
		r.Vacuous("harness does not provide KeyGenAlias")
	}
	r.Count("distinct_clamped_scalars", len(distinctClamped))
	m.finish(r)
	r.Set("alphabet", map[string]interface{}{"k_core": names(pp.ScalarsCore(r.Seed()), 100), "k_bits": len(pp.ScalarsBits()),
		"k_limbs": len(pp.ScalarsLimbs(r.Thorough())), "k_clamp_space": len(kClamp), "k_clamp_space_complete": fullClamp})
	if !fullClamp {
		r.NotExhaustive("quick tier, X448: the (first byte, last byte) clamp space is enumerated on the cross (every first byte x 8 last bytes, 9 first bytes x every last byte), all 2^16 in the thorough tier")
	}
	r.Rule("distinct scalar byte strings: core U single-bit U limb-structured U (first byte, last byte) clamp space around a fixed middle (all 2^16, or the declared cross); " +
		"each runs the real KeyGen once (and Shared with the base point once) and is compared with X(k, base) of the RFC 7748 big.Int ladder")
	if fullClamp {
		r.RequireCounter("scalars", 60000)
		want := int64(2048) // 32 x 64 distinct clamped (first, last) bytes
		if pp.C.Bits == 448 {
			want = 8192 // 64 x 128
		}
		r.RequireCounter("distinct_clamped_scalars", want)
	} else {
		r.RequireCounter("scalars", 4000)
	}
}

// RunAgree: both parties derive the same secret, for every ordered pair of core
// scalars: Shared(a, KeyGen(b)) == Shared(b, KeyGen(a)) == X(a, X(b, base)).
func RunAgree(r *verifmc.Run, im *Impl) {
	CheckBackend(r, im.Backend)
	defer globalsGuard(r, im)()
	pp := im.P
	ks := pp.ScalarsCore(r.Seed())
	if r.Thorough() {
		var s set
		for _, l := range [][]Named{ks, pp.ScalarsLimbs(false)} {
			for _, n := range l {
				s.add(n.Name, n.B)
			}
		}
		ks = s.out
	}
	m := newMemo(pp.C, r)
	base := pp.C.LE(pp.C.BaseU)
	pubs := make([][]byte, len(ks))
	verifmc.ParallelFor(len(ks), func(i int) {
		verifmc.Try(func() { pubs[i] = im.KeyGen(append([]byte{}, ks[i].B...)) })
	})
	for i := range pubs {
		if pubs[i] == nil {
			pubs[i] = m.X(ks[i].B, base) // a KeyGen panic is reported by the keygen unit
		}
	}
	n := len(ks)
	type ares struct {
		ran      bool
		s1, s2   []byte
		ok1, ok2 bool
		want     []byte
		pan      string
	}
	res := make([]ares, n*n)
	verifmc.ParallelFor(n*n, func(j int) {
		a, b := j/n, j%n
		if a > b {
			return
		}
		id := "agree/a=" + ks[a].Name + "/b=" + ks[b].Name
		if !r.Want(id) || r.Expired() {
			return
		}
		x := &res[j]
		x.ran = true
		pan, what := verifmc.Try(func() {
			x.s1, x.ok1 = im.Shared(append([]byte{}, ks[a].B...), append([]byte{}, pubs[b]...))
			x.s2, x.ok2 = im.Shared(append([]byte{}, ks[b].B...), append([]byte{}, pubs[a]...))
		})
		if pan {
			x.pan = what
			return
		}
		x.want = m.X(ks[a].B, m.X(ks[b].B, base))
	})
	for j := range res {
		x := &res[j]
		if !x.ran {
			continue
		}
		a, b := j/n, j%n
		id := "agree/a=" + ks[a].Name + "/b=" + ks[b].Name
		rp := map[string]string{"a": hx(ks[a].B), "b": hx(ks[b].B), "backend": im.Backend}
		cls := "a=" + pp.ClassifyK(ks[a].B) + ",b=" + pp.ClassifyK(ks[b].B)
		r.Eval(2)
		r.Distinct(ks[a].B, ks[b].B)
		r.Count("scalar_pairs", 1)
		if x.pan != "" {
			r.Violation("C06|"+im.Name+".Shared|panic-"+verifmc.PanicClass(x.pan)+"|agree,"+cls, id, "panic: "+x.pan, rp)
			continue
		}
		if j%(len(res)/4+1) == 0 {
			r.Sample(map[string]interface{}{"case": id, "a": hx(ks[a].B), "b": hx(ks[b].B), "secret": hx(x.s1)})
		}
		if !bytes.Equal(x.s1, x.s2) {
			r.Violation("C06|"+im.Name+"|parties-disagree|"+cls, id,
				fmt.Sprintf("Shared(a, KeyGen(b)) = %s but Shared(b, KeyGen(a)) = %s", hx(x.s1), hx(x.s2)), rp)
		}
		if !bytes.Equal(x.s1, x.want) {
			r.Violation("C06|"+im.Name+"|agreed-secret-differs-from-rfc7748|"+cls, id,
				fmt.Sprintf("Shared(a, KeyGen(b)) = %s, RFC 7748 gives %s", hx(x.s1), hx(x.want)), rp)
		}
		for _, f := range []struct {
			ok  bool
			out []byte
			who string
		}{{x.ok1, x.s1, "a"}, {x.ok2, x.s2, "b"}} {
			z := xladder.IsZero(f.out)
			if z {
				r.Count("zero_secrets", 1)
			}
			if z == f.ok {
				cl := "flag-true-but-output-zero"
				if !z {
					cl = "flag-false-but-output-nonzero"
				}
				r.Violation("C06|"+im.Name+".Shared|"+cl+"|agree,"+cls, id,
					fmt.Sprintf("party %s: secret %s with flag %v", f.who, hx(f.out), f.ok), rp)
			}
		}
	}
	m.finish(r)
	r.Set("alphabet", map[string]interface{}{"scalars": names(ks, 100)})
	r.Rule("unordered pairs {a,b} (a<=b) of the scalar alphabet; each runs KeyGen for both and Shared in both directions on the real code; compared with each other and with X(a, X(b, base)) of the reference")
	r.RequireCounter("scalar_pairs", 400)
}

// RunModp: the field package's Modp maps every peer value of the alphabets (after
// the mask Shared applies) to the canonical representative of its class, and
// IsZero agrees with "value is 0 mod p".
func RunModp(r *verifmc.Run, pp *Params, name string, modp func(b []byte), isZero func(b []byte) bool) {
	backend := ObservedBackend(name)
	CheckBackend(r, backend)
	var s set
	for _, l := range [][]Named{pp.PeersCore(r.Seed()), pp.PeersBits(), pp.PeersLimbs(true), pp.PeersNonCanonicalBits()} {
		for _, n := range l {
			b := append([]byte{}, n.B...)
			if pp.C.Bits == 255 {
				b[31] &= 0x7f
			}
			s.add(n.Name, b)
		}
	}
	us := s.out
	for i, u := range us {
		id := "modp/u=" + u.Name
		if !r.Want(id) {
			continue
		}
		v := pp.C.DecodeU(u.B)
		nc := v.Cmp(pp.C.P) >= 0
		want := pp.C.LE(v.Mod(v, pp.C.P))
		got := append([]byte{}, u.B...)
		var z bool
		pan, what := verifmc.Try(func() { modp(got); z = isZero(append([]byte{}, u.B...)) })
		r.Eval(2)
		r.Distinct(u.B)
		cl := "canonical"
		if nc {
			cl = "noncanonical"
			r.Count("noncanonical", 1)
		}
		rp := map[string]string{"u": hx(u.B), "backend": backend}
		if pan {
			r.Violation("C06|"+name+".Modp|panic-"+verifmc.PanicClass(what)+"|"+cl, id, "panic: "+what, rp)
			continue
		}
		if !bytes.Equal(got, want) {
			r.Violation("C06|"+name+".Modp|not-canonical-representative|"+cl, id,
				fmt.Sprintf("Modp(%s) = %s, want %s", hx(u.B), hx(got), hx(want)), rp)
		}
		if z != xladder.IsZero(want) {
			r.Violation("C06|"+name+".IsZero|wrong|"+cl, id, fmt.Sprintf("IsZero(%s) = %v", hx(u.B), z), rp)
		}
		if z {
			r.Count("zero_class", 1)
		}
		if i%(len(us)/4+1) == 0 {
			r.Sample(map[string]interface{}{"case": id, "u": hx(u.B), "modp": hx(got)})
		}
	}
	r.Rule("distinct peer byte strings of core U single-bit U limb-structured (thorough alphabet) U non-canonical single-bit offsets, masked as Shared masks them; Modp and IsZero run once each; oracle: big.Int value mod p")
	if pp.C.Bits == 448 {
		r.NotExhaustive("X448 non-canonical range p..2^448-1 has 2^224+1 values; its two ends, all single-bit offsets and the limb-structured members are enumerated")
	}
	r.RequireCounter("noncanonical", 19)
	r.RequireCounter("zero_class", 2)
}
