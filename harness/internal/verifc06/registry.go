//go:build verif

package verifc06

import (
	"sort"
	"sync"
)

// Read-outs of package internals (the assembly dispatch switch, the package
// tables) live in small in-package harness files of their own and register
// themselves here from init(). The units themselves use only the exported API
// (external test packages), so a refactoring that renames an unexported name
// drops only the read-out file: the back-end is then "not observed" and the
// table guard is skipped, while every unit still runs.

var (
	regMu     sync.Mutex
	regBE     = map[string]func() string{}
	regTables = map[string]map[string]func() string{}
)

// RegisterBackend installs the back-end read-out of a package ("x25519", "fp448", ...).
func RegisterBackend(pkg string, f func() string) {
	regMu.Lock()
	regBE[pkg] = f
	regMu.Unlock()
}

// ObservedBackend returns the back-end read in-package, or "" when no read-out is linked in.
func ObservedBackend(pkg string) string {
	regMu.Lock()
	f := regBE[pkg]
	regMu.Unlock()
	if f == nil {
		return ""
	}
	return f()
}

// RegisterTable installs a digest function for one package-level table.
func RegisterTable(pkg, name string, f func() string) {
	regMu.Lock()
	if regTables[pkg] == nil {
		regTables[pkg] = map[string]func() string{}
	}
	regTables[pkg][name] = f
	regMu.Unlock()
}

// TablesDigest returns a function giving "name=digest;..." over the registered tables of pkg.
func TablesDigest(pkg string) func() string {
	return func() string {
		regMu.Lock()
		m := regTables[pkg]
		names := make([]string, 0, len(m))
		for n := range m {
			names = append(names, n)
		}
		regMu.Unlock()
		sort.Strings(names)
		s := ""
		for _, n := range names {
			s += n + "=" + m[n]() + ";"
		}
		return s
	}
}
