//go:build verif

package verifc06

import (
	"bytes"
	"fmt"

	"github.com/cloudflare/circl/internal/verifmc"
	"github.com/cloudflare/circl/internal/verifref/xladder"
)

// Aliasing patterns of the Key arguments. RFC 7748's function is a function of
// the argument *values*; a call whose output buffer is one of its inputs must
// give the value and flag of the call with distinct buffers, and must leave the
// operand that is not the output unchanged.
//
//	out=u      Shared(&u, &k, &u)
//	out=k      Shared(&k, &k, &u)
//	k=u        Shared(&out, &x, &x)   (same object as secret and peer)
//	out=k=u    Shared(&x, &x, &x)
var aliasModes = []string{"out=u", "out=k"}
var aliasDiagModes = []string{"k=u", "out=k=u"}

type aliasRes struct {
	ran          bool
	out          []byte
	ok           bool
	kAfter, uAft []byte
	pan          string
}

// runAlias: every pair of core scalars x core peers under out=u and out=k, and
// every core scalar and core peer value x as both operands under k=u, out=k=u.
func runAlias(r *verifmc.Run, im *Impl, m *memo, ks, us []Named, cons []Constructed) {
	if im.SharedAlias == nil {
		r.Vacuous("harness does not provide SharedAlias")
		return
	}
	type acase struct {
		mode string
		k, u Named
		id   string
	}
	var cases []acase
	for _, mode := range aliasModes {
		for _, k := range ks {
			for _, u := range us {
				cases = append(cases, acase{mode, k, u, "shared-alias/" + mode + "/k=" + k.Name + "/u=" + u.Name})
			}
		}
	}
	for _, mode := range aliasModes {
		for _, c := range cons {
			cases = append(cases, acase{mode, c.K, c.U, "shared-alias/" + mode + "/k=" + c.K.Name + "/u=" + c.U.Name})
		}
	}
	var diag set
	for _, l := range [][]Named{ks, us} {
		for _, n := range l {
			diag.add(n.Name, n.B)
		}
	}
	for _, mode := range aliasDiagModes {
		for _, x := range diag.out {
			cases = append(cases, acase{mode, x, x, "shared-alias/" + mode + "/x=" + x.Name})
		}
	}
	res := make([]aliasRes, len(cases))
	verifmc.ParallelFor(len(cases), func(i int) {
		c := &cases[i]
		if !r.Want(c.id) || r.Expired() {
			return
		}
		x := &res[i]
		x.ran = true
		pan, what := verifmc.Try(func() {
			x.out, x.ok, x.kAfter, x.uAft = im.SharedAlias(c.mode, append([]byte{}, c.k.B...), append([]byte{}, c.u.B...))
		})
		if pan {
			x.pan = what
		}
	})
	entry := im.Name + ".Shared"
	for i := range cases {
		x, c := &res[i], &cases[i]
		if !x.ran {
			continue
		}
		r.Eval(1)
		r.Distinct("alias", c.mode, c.k.B, c.u.B)
		r.Count("aliased_calls", 1)
		r.Count("aliased_"+c.mode, 1)
		cls := "alias " + c.mode + ",u=" + im.P.ClassifyU(c.u.B).String() + ",k=" + im.P.ClassifyK(c.k.B)
		if w := m.X(c.k.B, c.u.B); !xladder.IsZero(w) && im.P.InWindow(w) {
			cls += ",out=has-noncanonical-alias"
			r.Count("aliased_output_has_noncanonical_alias", 1)
		}
		rp := map[string]string{"mode": c.mode, "k": hx(c.k.B), "u": hx(c.u.B), "backend": im.Backend}
		if x.pan != "" {
			r.Violation("C06|"+entry+"|panic-"+verifmc.PanicClass(x.pan)+"|"+cls, c.id, "panic: "+x.pan, rp)
			continue
		}
		want := m.X(c.k.B, c.u.B)
		if !bytes.Equal(x.out, want) {
			r.Violation("C06|"+entry+"|value-differs-from-rfc7748|"+cls, c.id,
				fmt.Sprintf("Shared with aliased buffers (%s), k=%s, u=%s: %s, RFC 7748 (and the call with distinct buffers) gives %s", c.mode, hx(c.k.B), hx(c.u.B), hx(x.out), hx(want)), rp)
		}
		if z := xladder.IsZero(x.out); z == x.ok {
			cl := "flag-true-but-output-zero"
			if !z {
				cl = "flag-false-but-output-nonzero"
			}
			r.Violation("C06|"+entry+"|"+cl+"|"+cls, c.id,
				fmt.Sprintf("Shared with aliased buffers (%s), k=%s, u=%s: output %s with flag %v", c.mode, hx(c.k.B), hx(c.u.B), hx(x.out), x.ok), rp)
		}
		if (x.kAfter != nil && !bytes.Equal(x.kAfter, c.k.B)) || (x.uAft != nil && !bytes.Equal(x.uAft, c.u.B)) {
			r.Violation("C06|"+entry+"|input-modified|"+cls, c.id,
				fmt.Sprintf("Shared with aliased buffers (%s) modified the operand that is not the output", c.mode), rp)
		}
	}
	r.RequireCounter("aliased_out=u", 2000)
	r.RequireCounter("aliased_out=k", 2000)
	r.RequireCounter("aliased_out=k=u", 80)
}

// runChain: the RFC 7748 iteration (k, u) <- (X(k,u), k) from k = u = base point,
// executed in place on the real code (the result overwrites the peer buffer) and
// compared with the reference chain after every step.
func runChain(r *verifmc.Run, im *Impl, m *memo, steps int) {
	if im.SharedAlias == nil || !r.Want("chain") {
		return
	}
	c := im.P.C
	k, u := c.LE(c.BaseU), c.LE(c.BaseU)
	rk, ru := c.LE(c.BaseU), c.LE(c.BaseU)
	for i := 1; i <= steps; i++ {
		if r.Expired() {
			break
		}
		rr := m.X(rk, ru)
		ru, rk = rk, rr
		var out, kAfter []byte
		pan, what := verifmc.Try(func() { out, _, kAfter, _ = im.SharedAlias("out=u", append([]byte{}, k...), append([]byte{}, u...)) })
		r.Eval(1)
		r.Count("chain_steps", 1)
		rp := map[string]string{"step": fmt.Sprint(i), "k": hx(k), "u": hx(u), "backend": im.Backend}
		if pan {
			r.Violation("C06|"+im.Name+".Shared|panic-"+verifmc.PanicClass(what)+"|in-place-iteration", "chain", "panic: "+what, rp)
			return
		}
		if !bytes.Equal(kAfter, k) {
			r.Violation("C06|"+im.Name+".Shared|input-modified|in-place-iteration", "chain", fmt.Sprintf("step %d: secret modified by the in-place call", i), rp)
		}
		u, k = k, out
		if !bytes.Equal(k, rk) {
			r.Violation("C06|"+im.Name+".Shared|in-place-iteration-diverges-from-rfc7748|rfc7748-chain", "chain",
				fmt.Sprintf("in-place RFC 7748 iteration diverges at step %d: got %s, reference %s", i, hx(k), hx(rk)), rp)
			return
		}
	}
	r.Distinct("chain", steps)
	r.Set("in_place_chain_steps", steps)
	r.RequireCounter("chain_steps", int64(steps))
}
