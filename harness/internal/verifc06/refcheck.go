//go:build verif

package verifc06

import (
	"bytes"
	"crypto/ecdh"
	"encoding/hex"
	"encoding/json"
	"fmt"
	"math/big"
	"os"
	"path/filepath"
	"testing"

	"github.com/cloudflare/circl/internal/verifmc"
	"github.com/cloudflare/circl/internal/verifref/xladder"
)

func unhex(t testing.TB, s string) []byte {
	b, err := hex.DecodeString(s)
	if err != nil {
		t.Fatalf("bad hex in fixture: %v", err)
	}
	return b
}

func readJSON(t testing.TB, path string, v interface{}) {
	b, err := os.ReadFile(path)
	if err != nil {
		t.Fatalf("refcheck: cannot read fixture: %v", err)
	}
	if err := json.Unmarshal(b, v); err != nil {
		t.Fatalf("refcheck: %s: %v", path, err)
	}
}

// rawLadder is an unclamped x-only Montgomery ladder (projective result), used
// only to validate the group-order constants of Params.
func (pp *Params) rawLadder(k, u *big.Int) (x, z *big.Int) {
	p := pp.C.P
	a24 := new(big.Int).Add(pp.A, big.NewInt(2))
	a24.Mul(a24, new(big.Int).ModInverse(big.NewInt(4), p)).Mod(a24, p) // (A+2)/4
	mul := func(a, b *big.Int) *big.Int { r := new(big.Int).Mul(a, b); return r.Mod(r, p) }
	add := func(a, b *big.Int) *big.Int { r := new(big.Int).Add(a, b); return r.Mod(r, p) }
	sub := func(a, b *big.Int) *big.Int { r := new(big.Int).Sub(a, b); return r.Mod(r, p) }
	x1 := new(big.Int).Mod(u, p)
	x2, z2 := big.NewInt(1), big.NewInt(0)
	x3, z3 := new(big.Int).Set(x1), big.NewInt(1)
	for t := k.BitLen() - 1; t >= 0; t-- {
		if k.Bit(t) == 1 {
			x2, x3, z2, z3 = x3, x2, z3, z2
		}
		// (x2,z2) = 2*(x2,z2); (x3,z3) = (x2,z2)+(x3,z3)
		A, B := add(x2, z2), sub(x2, z2)
		C, D := add(x3, z3), sub(x3, z3)
		DA, CB := mul(D, A), mul(C, B)
		AA, BB := mul(A, A), mul(B, B)
		E := sub(AA, BB)
		s, d := add(DA, CB), sub(DA, CB)
		x3, z3 = mul(s, s), mul(x1, mul(d, d))
		x2, z2 = mul(AA, BB), mul(E, add(BB, mul(a24, E)))
		if k.Bit(t) == 1 {
			x2, x3, z2, z3 = x3, x2, z3, z2
		}
	}
	return x2, z2
}

// RunRefcheck binds the big.Int ladder and the curve constants to RFC 7748:
// the single-shot vectors, the 1- and 1000-fold iteration, Wycheproof (X25519),
// crypto/ecdh on the whole core alphabet (X25519), and the stated group orders.
// A failure is a broken reference (t.Fatal), never an alarm.
func RunRefcheck(t *testing.T, r *verifmc.Run, pp *Params, testdata string) {
	c := pp.C
	// 1. single-shot vectors
	var kat []struct{ Input, Output, Scalar string }
	readJSON(t, filepath.Join(testdata, "rfc7748_kat_test.json"), &kat)
	for i, v := range kat {
		got := c.X(unhex(t, v.Scalar), unhex(t, v.Input))
		if !bytes.Equal(got, unhex(t, v.Output)) {
			t.Fatalf("refcheck: RFC 7748 vector %d: reference gives %x want %s", i, got, v.Output)
		}
		r.Count("rfc7748_single_shot_vectors", 1)
	}
	if len(kat) < 2 {
		t.Fatalf("refcheck: only %d single-shot vectors", len(kat))
	}
	if r.Config() != "default" {
		// The reference executes no circl code and does not depend on the
		// configuration; the full validation runs under the default configuration.
		r.Set("reduced", "single-shot vectors only; full reference validation runs under configuration default")
		// carry the counters of the full validation of this run into this unit's record
		if out := os.Getenv("VERIF_OUT"); out != "" {
			var u struct {
				Counters map[string]int64
				Extra    map[string]interface{}
			}
			f := filepath.Join(out, fmt.Sprintf("%s.%s.default.json", r.Prop, r.Unit))
			if b, err := os.ReadFile(f); err == nil && json.Unmarshal(b, &u) == nil {
				r.Set("full_validation_under_default", u.Counters)
				if v, ok := u.Extra["iterated_vector_not_run"]; ok {
					r.Set("iterated_vector_not_run", v)
				}
			}
		}
		r.Rule("reference validation only (reduced outside the default configuration)")
		return
	}
	// 2. iterated vectors (1 and 1000; the 10^6 one costs minutes on big.Int and is not run)
	var times []struct {
		Times int
		Key   string
	}
	readJSON(t, filepath.Join(testdata, "rfc7748_times_test.json"), &times)
	k := c.LE(c.BaseU)
	u := c.LE(c.BaseU)
	done := 0
	for _, v := range times {
		if v.Times > 1000 {
			r.Set("iterated_vector_not_run", v.Times)
			continue
		}
		for ; done < v.Times; done++ {
			o := c.X(k, u)
			u, k = k, o
		}
		if !bytes.Equal(k, unhex(t, v.Key)) {
			t.Fatalf("refcheck: RFC 7748 iterated vector (%d): reference gives %x want %s", v.Times, k, v.Key)
		}
		r.Count("rfc7748_iterated_vectors", 1)
	}
	if r.Counter("rfc7748_iterated_vectors") < 2 {
		t.Fatalf("refcheck: iterated vectors 1 and 1000 not both present")
	}
	r.Count("rfc7748_iterations", done)
	// 3. Wycheproof (ships only for X25519)
	wp := filepath.Join(testdata, "wycheproof_kat.json")
	if _, err := os.Stat(wp); err == nil {
		var ws []struct {
			TcID                    int
			Public, Private, Shared string
			Result                  string
		}
		readJSON(t, wp, &ws)
		for _, v := range ws {
			got := c.X(unhex(t, v.Private), unhex(t, v.Public))
			if !bytes.Equal(got, unhex(t, v.Shared)) {
				t.Fatalf("refcheck: Wycheproof tcId %d: reference gives %x want %s", v.TcID, got, v.Shared)
			}
			r.Count("wycheproof_vectors", 1)
			cl := pp.ClassifyU(unhex(t, v.Public))
			if cl.NonCanonical {
				r.Count("wycheproof_noncanonical", 1)
			}
			if cl.LowOrder {
				r.Count("wycheproof_low_order", 1)
			}
			if cl.Side == "twist" {
				r.Count("wycheproof_twist", 1)
			}
		}
		if len(ws) < 50 {
			t.Fatalf("refcheck: only %d Wycheproof vectors", len(ws))
		}
	}
	// 4. crypto/ecdh (an independent implementation) on the whole core alphabet
	kCore, uCore := pp.ScalarsCore(r.Seed()), pp.PeersCore(r.Seed())
	m := newMemo(c, r)
	defer m.finish(r)
	if c.Bits == 255 {
		type row struct{ bad string }
		rows := make([]row, len(kCore)*len(uCore))
		verifmc.ParallelFor(len(rows), func(j int) {
			kk, uu := kCore[j/len(uCore)], uCore[j%len(uCore)]
			want := m.X(kk.B, uu.B)
			priv, err := ecdh.X25519().NewPrivateKey(kk.B)
			if err != nil {
				rows[j].bad = "NewPrivateKey: " + err.Error()
				return
			}
			pub, err := ecdh.X25519().NewPublicKey(uu.B)
			if err != nil {
				rows[j].bad = "NewPublicKey: " + err.Error()
				return
			}
			got, err := priv.ECDH(pub)
			if err != nil {
				if !xladder.IsZero(want) {
					rows[j].bad = "ecdh rejects but reference is non-zero"
				}
				return
			}
			if !bytes.Equal(got, want) {
				rows[j].bad = "ecdh " + hex.EncodeToString(got) + " reference " + hex.EncodeToString(want)
			}
		})
		for j, x := range rows {
			if x.bad != "" {
				t.Fatalf("refcheck: crypto/ecdh vs reference, k=%s u=%s: %s", kCore[j/len(uCore)].Name, uCore[j%len(uCore)].Name, x.bad)
			}
		}
		r.Count("ecdh_cross_checked_pairs", len(rows))
	}
	// 5. curve constants
	if !pp.L.ProbablyPrime(32) || !pp.Lt.ProbablyPrime(32) {
		t.Fatalf("refcheck: subgroup orders not prime")
	}
	tw := new(big.Int).Mul(pp.Lt, big.NewInt(pp.Ht))
	tw.Add(tw, new(big.Int).Mul(pp.L, big.NewInt(pp.H)))
	if tw.Cmp(new(big.Int).Lsh(addi(c.P, 1), 1)) != 0 {
		t.Fatalf("refcheck: #E + #E' != 2(p+1)")
	}
	// the raw ladder agrees with the RFC transcription on clamped scalars
	uSmall := pp.PeersSmall()
	rawBad := make([]bool, len(kCore)*len(uSmall))
	verifmc.ParallelFor(len(rawBad), func(j int) {
		kk, uu := kCore[j/len(uSmall)], uSmall[j%len(uSmall)]
		x, z := pp.rawLadder(c.DecodeScalar(kk.B), c.DecodeU(uu.B))
		var o *big.Int
		if z.Sign() == 0 {
			o = new(big.Int)
		} else {
			o = x.Mul(x, new(big.Int).ModInverse(z, c.P))
			o.Mod(o, c.P)
		}
		rawBad[j] = !bytes.Equal(c.LE(o), m.X(kk.B, uu.B))
	})
	for j, bad := range rawBad {
		if bad {
			t.Fatalf("refcheck: raw ladder and RFC ladder differ on k=%s u=%s", kCore[j/len(uSmall)].Name, uSmall[j%len(uSmall)].Name)
		}
		r.Count("raw_ladder_cross_checked", 1)
	}
	// [h*L]P = O for curve points, [ht*Lt]P = O for twist points, and not for the
	// other side (so the side classification and the orders are the right way round)
	hL := new(big.Int).Mul(pp.L, big.NewInt(pp.H))
	hLt := new(big.Int).Mul(pp.Lt, big.NewInt(pp.Ht))
	nCurve, nTwist := 0, 0
	for v := int64(2); v < 40; v++ {
		u := big.NewInt(v)
		side := pp.Side(u)
		_, z1 := pp.rawLadder(hL, u)
		_, z2 := pp.rawLadder(hLt, u)
		_, z3 := pp.rawLadder(pp.L, u)
		switch side {
		case "curve":
			nCurve++
			if z1.Sign() != 0 || z2.Sign() == 0 {
				t.Fatalf("refcheck: u=%d classified curve but [hL]P!=O or [htLt]P=O", v)
			}
		case "twist":
			nTwist++
			if z2.Sign() != 0 || z1.Sign() == 0 {
				t.Fatalf("refcheck: u=%d classified twist but [htLt]P!=O or [hL]P=O", v)
			}
		}
		_ = z3
	}
	if nCurve < 5 || nTwist < 5 {
		t.Fatalf("refcheck: side classification degenerate (%d curve, %d twist)", nCurve, nTwist)
	}
	// the base point has order exactly L
	if _, z := pp.rawLadder(pp.L, c.BaseU); z.Sign() != 0 {
		t.Fatalf("refcheck: [L]base != O")
	}
	// low-order list: every entry is killed by the cofactor (h on its side), and
	// the reference yields 0 for them under every core scalar and for no other core peer
	for i, l := range pp.LowOrder {
		_, z := pp.rawLadder(big.NewInt(pp.H), l)
		_, zt := pp.rawLadder(big.NewInt(pp.Ht), l)
		if z.Sign() != 0 && zt.Sign() != 0 {
			t.Fatalf("refcheck: low-order entry %d is not of low order", i)
		}
	}
	zeroOrdinary := 0
	isZero := make([]bool, len(kCore)*len(uCore))
	verifmc.ParallelFor(len(isZero), func(j int) {
		isZero[j] = xladder.IsZero(m.X(kCore[j/len(uCore)].B, uCore[j%len(uCore)].B))
	})
	for ki, kk := range kCore {
		kc := pp.ClassifyK(kk.B)
		for ui, uu := range uCore {
			cl := pp.ClassifyU(uu.B)
			z := isZero[ki*len(uCore)+ui]
			switch {
			case cl.LowOrder && !z:
				t.Fatalf("refcheck: reference non-zero for low-order u=%s k=%s", uu.Name, kk.Name)
			case !cl.LowOrder && z && kc == "ordinary":
				t.Fatalf("refcheck: reference zero for u=%s (not in the low-order list) and ordinary k=%s", uu.Name, kk.Name)
			case !cl.LowOrder && z:
				r.Count("zero_because_scalar_is_multiple_of_group_order", 1)
			case z:
				zeroOrdinary++
			}
		}
	}
	r.Count("zero_because_u_low_order", zeroOrdinary)
	r.Set("L", pp.L.String())
	r.Set("Lt", pp.Lt.String())
	r.Rule("reference validation only: RFC 7748 single-shot and iterated (1, 1000) vectors, Wycheproof and crypto/ecdh for X25519, group-order constants; no circl code is executed")
}
