//go:build verif

package verifc06

import (
	"fmt"
	"math/big"

	"github.com/cloudflare/circl/internal/verifmc"
)

// Constructed inputs: peers chosen so that the OUTPUT of X(k,u) is a prescribed
// field element v. Outputs that are small (v + p still fits the byte length:
// v < 2^224+1 for X448, v < 19 for X25519 below bit 255) have a second,
// non-canonical encoding v+p; honest inputs reach them with probability
// ~2^-224, so a missing final reduction is invisible unless u is constructed:
//
//	u = x([s^-1 mod n] P_v),  s = decodeScalar(k), P_v a point of prime order n with x(P_v) = v
//
// then X(k,u) = x([s s^-1] P_v) = v exactly. Only v whose point has prime order
// (n = L on the curve, L' on the twist) are used; that is checked with the
// unclamped ladder, and the identity is asserted with the RFC ladder for every case.

// Target is one prescribed output value.
type Target struct {
	Name string
	V    *big.Int
	Side string // "curve" / "twist"
	Wide bool   // belongs to the wide group (used with few scalars only)
}

// WindowBound: outputs below it have a non-canonical alias v+p of the same byte length.
func (pp *Params) WindowBound() *big.Int {
	if pp.C.Bits == 255 {
		return big.NewInt(19)
	}
	return addi(pow2(224), 1)
}

// InWindow reports whether the encoded output has a non-canonical alias.
func (pp *Params) InWindow(out []byte) bool {
	v := pp.C.DecodeU(out)
	return v.Cmp(pp.WindowBound()) < 0
}

// Targets enumerates the candidate outputs and keeps those whose point has prime order.
func (pp *Params) Targets(thorough bool) []Target {
	p := pp.C.P
	bound := int64(128)
	if thorough {
		bound = 1024
	}
	var cand []Target
	for v := int64(2); v < bound; v++ {
		cand = append(cand, Target{Name: fmt.Sprintf("%d", v), V: big.NewInt(v)})
	}
	for j := int64(1); j < bound/4; j++ { // just below p
		cand = append(cand, Target{Name: fmt.Sprintf("p-1-%d", j), V: addi(p, -1-j)})
	}
	if pp.C.Bits == 448 {
		for d := int64(-8); d <= 8; d++ { // both sides of the window's upper end 2^224
			cand = append(cand, Target{Name: fmt.Sprintf("2^224%+d", d), V: addi(pow2(224), d)})
		}
		for i := 7; i < 224; i++ {
			cand = append(cand, Target{Name: fmt.Sprintf("2^%d", i), V: pow2(i), Wide: true})
			cand = append(cand, Target{Name: fmt.Sprintf("2^%d-1", i), V: addi(pow2(i), -1), Wide: true})
		}
	} else {
		for i := 7; i < 255; i += 8 {
			cand = append(cand, Target{Name: fmt.Sprintf("2^%d", i), V: pow2(i), Wide: true})
		}
	}
	keep := make([]bool, len(cand))
	verifmc.ParallelFor(len(cand), func(i int) {
		t := &cand[i]
		t.Side = pp.Side(t.V)
		n := pp.L
		switch t.Side {
		case "twist":
			n = pp.Lt
		case "both":
			return
		}
		_, z := pp.rawLadder(n, t.V)
		keep[i] = z.Sign() == 0
	})
	var out []Target
	for i, t := range cand {
		if keep[i] {
			out = append(out, t)
		}
	}
	return out
}

// Construct returns the peer u with X(k,u) = t.V, or nil when the clamped scalar
// is a multiple of the subgroup order.
func (pp *Params) Construct(k []byte, t Target) []byte {
	n := pp.L
	if t.Side == "twist" {
		n = pp.Lt
	}
	s := pp.C.DecodeScalar(k)
	inv := new(big.Int).ModInverse(new(big.Int).Mod(s, n), n)
	if inv == nil {
		return nil
	}
	x, z := pp.rawLadder(inv, t.V)
	if z.Sign() == 0 {
		return nil
	}
	u := x.Mul(x, new(big.Int).ModInverse(z, pp.C.P))
	u.Mod(u, pp.C.P)
	return pp.C.LE(u)
}

// ConstructedPeers builds, for every scalar, the peers that hit every narrow
// target, and for the first wideScalars scalars also the wide targets.
// It returns (scalar, peer, expected output) triples.
type Constructed struct {
	K, U Named
	Want []byte
}

func (pp *Params) ConstructedPeers(ks []Named, ts []Target, wideScalars int) []Constructed {
	type job struct {
		k Named
		t Target
	}
	var jobs []job
	seen := map[string]bool{}
	for ki, k := range ks {
		for _, t := range ts {
			if t.Wide && ki >= wideScalars {
				continue
			}
			key := pp.C.DecodeScalar(k.B).Text(62) + "/" + t.Name
			if seen[key] {
				continue // scalars with the same clamped value give the same peer
			}
			seen[key] = true
			jobs = append(jobs, job{k, t})
		}
	}
	us := make([][]byte, len(jobs))
	verifmc.ParallelFor(len(jobs), func(i int) { us[i] = pp.Construct(jobs[i].k.B, jobs[i].t) })
	var out []Constructed
	for i, j := range jobs {
		if us[i] == nil {
			continue
		}
		out = append(out, Constructed{j.k, Named{"into(" + j.t.Name + ")by(" + j.k.Name + ")", us[i]}, pp.C.LE(j.t.V)})
	}
	return out
}
