//go:build verif

package mlsbset_test

// C13 / mLSB-set recoding (fixed-base multiplication of Goldilocks): every odd
// exponent of every small parameter set, executed by Power.Exp in the additive
// group of integers with the table T_v[u] = 2^(e v) (1 + sum u_i 2^(d(i+1)))
// of the paper; the result must be the exponent itself.

import (
	"fmt"
	"testing"

	"github.com/cloudflare/circl/internal/verifmc"
	"github.com/cloudflare/circl/math/mlsbset"
)

// c13Z is the additive group of integers (base element 1), on int64.
type c13Z struct{ p mlsbset.Params }

func (c13Z) Identity() mlsbset.EltG             { return new(int64) }
func (c13Z) NewEltP() mlsbset.EltP              { return new(int64) }
func (c13Z) Sqr(x mlsbset.EltG)                 { a := x.(*int64); *a *= 2 }
func (c13Z) Mul(x mlsbset.EltG, y mlsbset.EltP) { a := x.(*int64); *a += *(y.(*int64)) }
func (z c13Z) ExtendedEltP() mlsbset.EltP       { v := int64(1) << (z.p.W * z.p.D); return &v }
func (z c13Z) Lookup(x mlsbset.EltP, idTable uint, sgn int32, idx int32) {
	v := int64(1)
	for i := uint(0); i+1 < z.p.W; i++ {
		if (idx>>i)&1 == 1 {
			v += int64(1) << (z.p.D * (i + 1))
		}
	}
	v <<= z.p.E * idTable
	if sgn == -1 {
		v = -v
	} else if sgn != 1 {
		panic("sign is neither +1 nor -1")
	}
	if idx < 0 || idx >= 1<<(z.p.W-1) {
		panic("table index out of range")
	}
	*(x.(*int64)) = v
}

func TestVerifC13_mlsbset(t *testing.T) {
	r := verifmc.Start(t, "C13", "mlsbset")
	defer r.Finish()
	maxT := uint(r.Pick(12, 16))
	r.Rule(fmt.Sprintf("complete sweep: every parameter set t in 2..%d, v in 1..3, w in 2..4 and every odd k in [1, 2^t): Encode(k).Exp(Z) = k in the additive group of integers with the paper's table; table index and sign ranges checked inside Lookup; distinct = each (t, v, w, k)", maxT))
	type ps struct{ t, v, w uint }
	var sets []ps
	for t0 := uint(2); t0 <= maxT; t0++ {
		for v := uint(1); v <= 3; v++ {
			for w := uint(2); w <= 4; w++ {
				sets = append(sets, ps{t0, v, w})
			}
		}
	}
	r.Set("parameter_sets", len(sets))
	verifmc.ParallelFor(len(sets), func(i int) {
		s := sets[i]
		m, err := mlsbset.New(s.t, s.v, s.w)
		if err != nil {
			r.Violation("C13|mlsbset.New|rejects-valid", fmt.Sprintf("new/%d/%d/%d", s.t, s.v, s.w), err.Error(), nil)
			return
		}
		g := c13Z{m.GetParams()}
		if m.IsExtended() {
			r.Count("extended_parameter_sets", 1)
		}
		n := 0
		for k := int64(1); k < 1<<s.t; k += 2 {
			kb := []byte{byte(k), byte(k >> 8), byte(k >> 16)}[:(s.t+7)/8]
			id := fmt.Sprintf("exp/%d/%d/%d/%d", s.t, s.v, s.w, k)
			var got int64
			if p, what := verifmc.Try(func() {
				c, err := m.Encode(kb)
				if err != nil {
					panic("Encode: " + err.Error())
				}
				got = *(c.Exp(g).(*int64))
			}); p {
				r.Violation(fmt.Sprintf("C13|mlsbset.Exp|panic:%s|v=%d|w=%d", verifmc.PanicClass(what), s.v, s.w), id, what, nil)
				continue
			}
			n++
			r.Distinct(s.t, s.v, s.w, k)
			if got != k {
				r.Violation(fmt.Sprintf("C13|mlsbset.Exp|wrong-value|v=%d|w=%d|extended=%v", s.v, s.w, m.IsExtended()), id,
					fmt.Sprintf("t=%d v=%d w=%d: Exp(%d) = %d", s.t, s.v, s.w, k, got), nil)
			}
		}
		r.Eval(n)
		r.Transition(n)
		r.Count("exponents", n)
	})
	r.Set("distinct_cases_in_sweep", r.Counter("exponents"))
	r.Sample(map[string]string{"t": "12", "v": "2", "w": "3", "k": "4095"})
	r.RequireCounter("exponents", 1<<(maxT-1))
	r.RequireCounter("extended_parameter_sets", 3)
}
