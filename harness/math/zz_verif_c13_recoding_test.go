//go:build verif

package math_test

// C13 / scalar recodings used by the P-384, Goldilocks and Ed25519
// multiplications: math.OmegaNAF and math.SignedDigit swept completely over a
// small domain against their documented contracts (integer reconstruction,
// digit shape). The oracle is integer arithmetic.

import (
	"fmt"
	"math/big"
	"testing"

	"github.com/cloudflare/circl/internal/verifmc"
	cmath "github.com/cloudflare/circl/math"
)

func TestVerifC13_recoding(t *testing.T) {
	r := verifmc.Start(t, "C13", "recoding")
	defer r.Finish()
	bits := r.Pick(16, 20)
	r.Rule(fmt.Sprintf("complete sweep: OmegaNAF(n, w) for every n in [0, 2^%d) and w in 2..8: sum L[i] 2^i = n, every non-zero digit odd with |d| < 2^(w-1) (so |d|>>1 indexes the consumers' tables of 2^(w-2) odd multiples), at most one non-zero digit in any w consecutive positions; "+
		"SignedDigit(n, w, l) for every odd n in [1, 2^%d), w in 2..8, l in {bitlen(n), bitlen(n)+1, %d, %d}: ceil(l/(w-1))+1 digits, sum L[i] 2^(i(w-1)) = n, every digit odd with |d| < 2^(w-1); plus the widths used by the library (w=5, l=384; w=5 and 7 on 384/448/256-bit boundary values); distinct = each n of the sweep (each executed with 7 widths and, when odd, 4 lengths: see counters) plus each wide (width, value, w)", bits, bits, bits, bits+5))
	r.Set("domain_bits", bits)
	N := 1 << bits
	const chunk = 1 << 10
	verifmc.ParallelFor(N/chunk, func(c int) {
		var evals, odd int
		for n := c * chunk; n < (c+1)*chunk; n++ {
			bn := big.NewInt(int64(n))
			r.Distinct("n", n)
			for w := uint(2); w <= 8; w++ {
				// ---- OmegaNAF
				var L []int32
				if p, what := verifmc.Try(func() { L = cmath.OmegaNAF(bn, w) }); p {
					r.Violation("C13|math.OmegaNAF|panic:"+verifmc.PanicClass(what), fmt.Sprintf("naf/%d/%d", n, w), what, nil)
					continue
				}
				evals++
				var sum int64
				okShape, lastNZ := true, -1000
				for i := len(L) - 1; i >= 0; i-- {
					sum = 2*sum + int64(L[i])
				}
				for i, d := range L {
					if d == 0 {
						continue
					}
					a := d
					if a < 0 {
						a = -a
					}
					if d%2 == 0 || a >= 1<<(w-1) || i-lastNZ < int(w) {
						okShape = false
					}
					lastNZ = i
				}
				if sum != int64(n) {
					r.Violation(fmt.Sprintf("C13|math.OmegaNAF|wrong-value|w=%d", w), fmt.Sprintf("naf/%d/%d", n, w), fmt.Sprintf("OmegaNAF(%d,%d)=%v sums to %d", n, w, L, sum), nil)
				} else if !okShape {
					r.Violation(fmt.Sprintf("C13|math.OmegaNAF|digit-shape|w=%d", w), fmt.Sprintf("naf/%d/%d", n, w), fmt.Sprintf("OmegaNAF(%d,%d)=%v has an even/too large digit or adjacent non-zero digits", n, w, L), nil)
				}
				// ---- SignedDigit (odd n only)
				if n%2 == 0 {
					continue
				}
				odd++
				for _, l := range []uint{uint(bn.BitLen()), uint(bn.BitLen()) + 1, uint(bits), uint(bits) + 5} {
					var S []int32
					if p, what := verifmc.Try(func() { S = cmath.SignedDigit(bn, w, l) }); p {
						r.Violation("C13|math.SignedDigit|panic:"+verifmc.PanicClass(what), fmt.Sprintf("sd/%d/%d/%d", n, w, l), what, nil)
						continue
					}
					evals++
					var sum int64
					shape := uint(len(S)) == (l+w-2)/(w-1)+1
					for i := len(S) - 1; i >= 0; i-- {
						sum = sum<<(w-1) + int64(S[i])
						a := S[i]
						if a < 0 {
							a = -a
						}
						if S[i]%2 == 0 || a >= 1<<(w-1) {
							shape = false
						}
					}
					if sum != int64(n) {
						r.Violation(fmt.Sprintf("C13|math.SignedDigit|wrong-value|w=%d", w), fmt.Sprintf("sd/%d/%d/%d", n, w, l), fmt.Sprintf("SignedDigit(%d,%d,%d)=%v sums to %d", n, w, l, S, sum), nil)
					} else if !shape {
						r.Violation(fmt.Sprintf("C13|math.SignedDigit|digit-shape|w=%d", w), fmt.Sprintf("sd/%d/%d/%d", n, w, l), fmt.Sprintf("SignedDigit(%d,%d,%d)=%v: wrong length or an even/too large digit", n, w, l, S), nil)
					}
				}
			}
		}
		r.Eval(evals)
		r.Count("omeganaf_cases", chunk*7)
		r.Count("signeddigit_cases", odd*4)
	})
	r.Transition(int(r.Counter("omeganaf_cases") + r.Counter("signeddigit_cases")))
	r.State(N)
	r.Set("distinct_cases_in_sweep", r.Counter("omeganaf_cases")+r.Counter("signeddigit_cases"))
	r.Sample(map[string]string{"fn": "OmegaNAF", "n": "0xffff", "w": "5", "digits": fmt.Sprint(cmath.OmegaNAF(big.NewInt(0xffff), 5))})
	r.Sample(map[string]string{"fn": "SignedDigit", "n": "0xffff", "w": "5", "l": "16", "digits": fmt.Sprint(cmath.SignedDigit(big.NewInt(0xffff), 5, 16))})

	// ---- library widths on boundary values (declared sub-alphabet of the full-width domain)
	one := big.NewInt(1)
	for _, width := range []uint{256, 384, 448, 521} {
		top := new(big.Int).Lsh(one, width)
		vals := []*big.Int{big.NewInt(1), big.NewInt(3), new(big.Int).Sub(top, one), new(big.Int).Sub(top, big.NewInt(3)),
			new(big.Int).Add(new(big.Int).Rsh(top, 1), one), new(big.Int).Sub(new(big.Int).Rsh(top, 1), one),
			new(big.Int).SetBytes(verifmc.Shake(fmt.Sprintf("c13/rec/%d", width), int(width/8)))}
		vals[6].SetBit(vals[6], 0, 1)
		for vi, v := range vals {
			if v.BitLen() > int(width) {
				v.SetBit(v, int(width), 0)
			}
			for _, w := range []uint{5, 7} {
				L := cmath.OmegaNAF(v, w)
				sum := new(big.Int)
				for i := len(L) - 1; i >= 0; i-- {
					sum.Lsh(sum, 1).Add(sum, big.NewInt(int64(L[i])))
				}
				S := cmath.SignedDigit(v, w, width)
				sum2 := new(big.Int)
				for i := len(S) - 1; i >= 0; i-- {
					sum2.Lsh(sum2, w-1).Add(sum2, big.NewInt(int64(S[i])))
				}
				r.Eval(2)
				r.Distinct("wide", width, vi, w)
				if sum.Cmp(v) != 0 {
					r.Violation(fmt.Sprintf("C13|math.OmegaNAF|wrong-value|w=%d|wide", w), fmt.Sprintf("nafwide/%d/%d/%d", width, vi, w), "OmegaNAF does not reconstruct "+v.Text(16), nil)
				}
				if sum2.Cmp(v) != 0 {
					r.Violation(fmt.Sprintf("C13|math.SignedDigit|wrong-value|w=%d|wide", w), fmt.Sprintf("sdwide/%d/%d/%d", width, vi, w), "SignedDigit does not reconstruct "+v.Text(16), nil)
				}
			}
		}
	}
	r.RequireCounter("omeganaf_cases", int64(N)*7)
	r.RequireCounter("signeddigit_cases", int64(N/2)*4*7)
}
