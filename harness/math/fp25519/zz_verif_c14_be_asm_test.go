//go:build verif && amd64 && !purego

package fp25519

// Read-out of the switch the assembly itself tests (CHECK_BMI2ADX in fp_amd64.h). Only this file names hasBmi2Adx.
func init() {
	C14ReadBackend = func() string {
		if hasBmi2Adx {
			return "asm-bmi2adx"
		}
		return "asm-legacy"
	}
}
