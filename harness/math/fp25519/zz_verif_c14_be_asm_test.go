//go:build verif && amd64 && !purego

package fp25519

// c14Backend reads the switch the assembly itself tests (CHECK_BMI2ADX in fp_amd64.h).
func c14Backend() string {
	if hasBmi2Adx {
		return "asm-bmi2adx"
	}
	return "asm-legacy"
}
