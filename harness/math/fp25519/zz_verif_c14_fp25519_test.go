//go:build verif

package fp25519_test

// C14 for math/fp25519: the same operand alphabet through every exported operation under each
// build/CPU configuration; the driver diffs the per-case digests. Back-ends: fp_noasm.go (purego),
// fp_amd64.s legacy path and MULX/ADX path (selected by hasBmi2Adx inside the assembly).

import (
	"testing"

	"github.com/cloudflare/circl/internal/verifc14"
	fp "github.com/cloudflare/circl/math/fp25519"
)

func c14Elt(b []byte) *fp.Elt { e := new(fp.Elt); copy(e[:], b); return e }

func c14Junk() *fp.Elt {
	e := new(fp.Elt)
	for i := range e {
		e[i] = byte(0xa5 ^ i)
	}
	return e
}

func c14Field() *verifc14.Field {
	bin := map[string]func(z, x, y *fp.Elt){"Add": fp.Add, "Sub": fp.Sub, "Mul": fp.Mul}
	un := map[string]func(z, x *fp.Elt){"Sqr": fp.Sqr, "Neg": fp.Neg, "Inv": fp.Inv,
		"Modp": func(z, x *fp.Elt) { *z = *x; fp.Modp(z) }}
	return &verifc14.Field{
		Name: "GF(2^255-19)", Size: fp.Size,
		BinOps: []string{"Add", "Sub", "Mul"}, UnOps: []string{"Sqr", "Neg", "Inv", "Modp"}, PredOps: []string{"IsZero"},
		Bin: func(op string, alias int, xb, yb []byte) []byte {
			x, y, z := c14Elt(xb), c14Elt(yb), c14Junk()
			switch alias {
			case 1:
				z = x
			case 2:
				z = y
			}
			bin[op](z, x, y)
			return z[:]
		},
		Un: func(op string, alias int, xb []byte) []byte {
			x, z := c14Elt(xb), c14Junk()
			if alias == 1 {
				z = x
			}
			un[op](z, x)
			return z[:]
		},
		Pred: func(op string, xb []byte) bool { return fp.IsZero(c14Elt(xb)) },
		Canon: func(xb []byte) []byte {
			out := make([]byte, fp.Size)
			if err := fp.ToBytes(out, c14Elt(xb)); err != nil {
				panic(err)
			}
			return out
		},
		AddSub: func(xb, yb []byte) ([]byte, []byte) {
			x, y := c14Elt(xb), c14Elt(yb)
			fp.AddSub(x, y)
			return x[:], y[:]
		},
		Cmov: func(xb, yb []byte, b uint) []byte { x, y := c14Elt(xb), c14Elt(yb); fp.Cmov(x, y, b); return x[:] },
		Cswap: func(xb, yb []byte, b uint) ([]byte, []byte) {
			x, y := c14Elt(xb), c14Elt(yb)
			fp.Cswap(x, y, b)
			return x[:], y[:]
		},
		InvSqrt: func(xb, yb []byte) ([]byte, bool) {
			x, y, z := c14Elt(xb), c14Elt(yb), c14Junk()
			ok := fp.InvSqrt(z, x, y)
			return z[:], ok
		},
	}
}

func TestVerifC14_fp25519(t *testing.T) {
	c := verifc14.Start(t, "fp25519")
	c.BackendOptional("math/fp25519.hasBmi2Adx", fp.C14ReadBackend, verifc14.FpSel)
	m1, b63 := ^uint64(0), uint64(1)<<63
	wide := []uint64{2, 18, 19, 20, 37, 38, 39, 1<<32 - 1, 1 << 32, b63 - 1, b63 + 1, m1 - 38, m1 - 37, m1 - 19, m1 - 18, m1 - 1}
	pp := fp.P()
	twoP := verifc14.AddSmall(make([]byte, fp.Size), -38) // 2p = 2^256-38
	p255 := make([]byte, fp.Size)
	p255[31] = 0x80
	named := map[string][]byte{"p": pp[:], "2p": twoP, "2^255": p255, "2^256-20": verifc14.AddSmall(make([]byte, fp.Size), -20)}
	all := verifc14.FieldAlphabet(4, wide, named, -19, 19, c.R.Pick(8, 64), "fp25519")
	key := verifc14.Thin(all, c.R.Pick(48, 160))
	c.R.Rule("operands: every 32-byte string whose four limbs are in {0,1,2^63,2^64-1}; every string one limb away from 00../FF.. over a 16-value limb list; " +
		"p, 2p, 2^255, 2^256-20 each -19..+19; SHAKE-derived strings. Binary ops on all x all ordered pairs in the thorough tier and all x every-4th in the quick tier (output fresh; also =x and =y for key operands); unary ops fresh and in place; " +
		"AddSub, Cmov, Cswap, InvSqrt on the thinned key alphabet squared. A case = (operation, first operand); its digest covers every second operand, raw output bytes and ToBytes form")
	c.R.NotExhaustive("operands are the declared limb alphabet, not all 2^256 strings")
	second := all
	if !c.R.Thorough() {
		second = verifc14.Thin(all, 120)
	}
	verifc14.RunField(c, c14Field(), all, second, key)
	c.Finish(1000)
}
