//go:build verif && (!amd64 || purego)

package fp25519

func c06Backend() string { return "generic" }
