//go:build verif && (!amd64 || purego)

package fp25519_test

import "github.com/cloudflare/circl/internal/verifc06"

func init() { verifc06.RegisterBackend("fp25519", func() string { return "generic" }) }
