//go:build verif

package fp25519_test

// C12 for GF(2^255-19): every exported operation of math/fp25519 against
// math/big on limb-built operands, including every unreduced value class
// (the element type is a byte array: every 32-byte string is an operand).

import (
	"math/big"
	"testing"

	"github.com/cloudflare/circl/internal/verifmc"
	bf "github.com/cloudflare/circl/internal/verifref/bigfield"
	fp "github.com/cloudflare/circl/math/fp25519"
)

func c12Field25519() *bf.Field {
	return &bf.Field{
		Prop: "C12", Name: "fp25519", P: bf.P25519, Hex: 64,
		New: func() bf.Elem { return new(fp.Elt) },
		Load: func(z bf.Elem, v *big.Int) bool {
			if v.Sign() < 0 || v.BitLen() > 256 {
				return false
			}
			copy(z.(*fp.Elt)[:], bf.LE(v, fp.Size))
			return true
		},
		Copy: func(d, s bf.Elem) { *d.(*fp.Elt) = *s.(*fp.Elt) },
		Raw:  func(x bf.Elem) *big.Int { return bf.FromLE(x.(*fp.Elt)[:]) },
		Same: func(a, b bf.Elem) bool { return *a.(*fp.Elt) == *b.(*fp.Elt) },
		Junk: bf.Pseudo("fp25519-junk", 0, bf.Pow2(256)),
		Par:  verifmc.ParallelFor,
	}
}

const (
	c12m1  = ^uint64(0)
	c12b63 = uint64(1) << 63
)

// c12Alphabet25519 builds the operand alphabet (see DESIGN §2 C12).
func c12Alphabet25519(thorough bool) (all, key []bf.Operand, describe map[string]interface{}) {
	wide := []uint64{0, 1, 2, 18, 19, 20, 37, 38, 39, 1<<32 - 1, 1 << 32, c12b63 - 1, c12b63, c12m1 - 38, c12m1 - 37, c12m1 - 19, c12m1 - 18, c12m1}
	low := []uint64{0, 1, c12b63, c12m1 - 18, c12m1} // 2^64-19
	top := []uint64{0, 1, c12b63 - 1, c12b63, c12m1} // 2^63-1 is the top limb of p
	away := 1
	if thorough {
		low = []uint64{0, 1, c12b63 - 1, c12b63, c12m1 - 37, c12m1 - 18, c12m1}
		top = []uint64{0, 1, c12b63 - 1, c12b63, c12m1 - 18, c12m1}
		away = 2
	}
	core := [][]uint64{low, low, low, top}
	lp := bf.LimbProduct(4, core, bf.Rep(4, wide), away)
	ia := bf.IntAlphabet(bf.P25519, 64, 16, "fp25519")
	// named unreduced neighbours of p, 2p, 2^255, 2^256
	p := bf.P25519
	two := new(big.Int).Lsh(p, 1)
	var sp []bf.Operand
	sp = append(sp, bf.Around(p, -2, 40, "p")...)
	sp = append(sp, bf.Around(two, -2, 40, "2p")...)
	sp = append(sp, bf.Around(bf.Pow2(256), -40, -1, "2^256")...)
	sp = append(sp, bf.Around(bf.Pow2(255), -20, 20, "2^255")...)
	for k := 0; k < 16; k++ {
		sp = append(sp, bf.Operand{V: bf.Pseudo("fp25519-unreduced", k, bf.Pow2(256)), Name: "pseudo256"})
	}
	key = append(key, bf.Around(new(big.Int), 0, 2, "0")...)
	key = append(key, bf.Around(p, -2, 2, "p")...)
	key = append(key, bf.Around(two, -2, 2, "2p")...)
	key = append(key, bf.Around(bf.Pow2(255), -1, 1, "2^255")...)
	key = append(key, bf.Around(bf.Pow2(256), -39, -37, "2^256")...)
	key = append(key, bf.Around(bf.Pow2(256), -20, -18, "2^256")...)
	key = append(key, bf.Around(bf.Pow2(256), -2, -1, "2^256")...)
	nthin := 25
	if thorough {
		nthin = 80
	}
	key = bf.Append(bf.Pow2(256), key, bf.Thin(ia, nthin), bf.Thin(lp, nthin), bf.Thin(sp, nthin))
	all = bf.Append(bf.Pow2(256), lp, ia, sp)
	describe = map[string]interface{}{
		"limbs": 4, "core_limbs_0_2": low, "core_limb_3": top, "wide_limb_values": wide, "edge_limbs_away_from_00_or_FF": away,
		"limb_product_elements": len(lp), "integer_alphabet": len(ia), "named_unreduced_and_pseudo": len(sp), "elements": len(all),
	}
	return all, key, describe
}

func TestVerifC12_fp25519(t *testing.T) {
	r := verifmc.Start(t, "C12", "fp25519")
	defer r.Finish()
	if bad := bf.SelfCheck(); len(bad) != 0 {
		t.Fatalf("reference constants not bound: %v", bad)
	}
	pp := fp.P()
	if bf.FromLE(pp[:]).Cmp(bf.P25519) != 0 {
		t.Fatalf("fp25519.P() is not 2^255-19")
	}
	f := c12Field25519()
	ops, key, desc := c12Alphabet25519(r.Thorough())
	all := f.Prepare("e", ops)
	r.Set("alphabet", desc)
	r.Set("unreduced_elements", all.Unred)
	r.Rule("operands: 32-byte strings built as limb products (per-limb cores, all elements <= k limbs away from 00../FF.. over an 18-value limb list), the integer alphabet around limb boundaries, named neighbours of p, 2p, 2^255, 2^256 and 16+16 pseudo-random values; pair sweeps above 1.5e6 cases are counted by the ordered_pairs counters instead of being hashed into distinct_nontrivial; a distinct case is one (operation, operand tuple); binary ops run on ALL ordered pairs, each with a junk-filled output and the aliasing patterns z=x, z=y, x=y, z=x=y; Distinct registers each ordered pair once (under Mul) and every unary / predicate / special case")
	r.NotExhaustive("operands are the declared limb/integer alphabet, not all 2^256 strings")

	bin := []bf.BinOp{
		{Name: "Add", Do: func(z, x, y bf.Elem) { fp.Add(z.(*fp.Elt), x.(*fp.Elt), y.(*fp.Elt)) }, Ref: bf.RefAdd},
		{Name: "Sub", Do: func(z, x, y bf.Elem) { fp.Sub(z.(*fp.Elt), x.(*fp.Elt), y.(*fp.Elt)) }, Ref: bf.RefSub},
		{Name: "Mul", Do: func(z, x, y bf.Elem) { fp.Mul(z.(*fp.Elt), x.(*fp.Elt), y.(*fp.Elt)) }, Ref: bf.RefMul},
	}
	for _, op := range bin {
		f.CheckBin(r, op, all, all, op.Name == "Mul" && bf.HashPairs(all.Len()*all.Len()))
	}
	r.Count("ordered_pairs", all.Len()*all.Len())

	un := []bf.UnOp{
		{Name: "Neg", Do: func(z, x bf.Elem) { fp.Neg(z.(*fp.Elt), x.(*fp.Elt)) }, Ref: bf.RefNeg},
		{Name: "Sqr", Do: func(z, x bf.Elem) { fp.Sqr(z.(*fp.Elt), x.(*fp.Elt)) }, Ref: bf.RefSqr},
		{Name: "Inv", Do: func(z, x bf.Elem) { fp.Inv(z.(*fp.Elt), x.(*fp.Elt)) }, Ref: bf.RefInv},
		{Name: "Modp", Do: func(z, x bf.Elem) { *z.(*fp.Elt) = *x.(*fp.Elt); fp.Modp(z.(*fp.Elt)) }, Ref: bf.RefId, Canon: true},
		{Name: "ToBytes", Do: func(z, x bf.Elem) {
			if err := fp.ToBytes(z.(*fp.Elt)[:], x.(*fp.Elt)); err != nil {
				panic(err)
			}
		}, Ref: bf.RefId, Canon: true},
		{Name: "SetOne", Do: func(z, x bf.Elem) { fp.SetOne(z.(*fp.Elt)) }, Ref: func(out, x, p *big.Int) bool { out.SetInt64(1); return true }, Canon: true},
	}
	for _, op := range un {
		f.CheckUn(r, op, all, true)
	}
	f.CheckPred(r, bf.Pred{Name: "IsZero", Do: func(x bf.Elem) bool { return fp.IsZero(x.(*fp.Elt)) }, Ref: bf.RefIsZero}, all)
	{
		p := bf.P25519
		b := []bf.Operand{{V: new(big.Int), Name: "0"}, {V: big.NewInt(1), Name: "1"}, {V: new(big.Int).Sub(p, big.NewInt(1)), Name: "p-1"}, {V: bf.Pseudo("fp25519-pred", 0, p), Name: "pseudo0"}, {V: bf.Pseudo("fp25519-pred", 1, p), Name: "pseudo1"}}
		b = append(b, bf.Operand{V: p, Name: "p"}, bf.Operand{V: new(big.Int).Lsh(p, 1), Name: "2p"}, bf.Operand{V: new(big.Int).Add(p, big.NewInt(1)), Name: "p+1"}, bf.Operand{V: new(big.Int).Sub(bf.Pow2(256), big.NewInt(1)), Name: "2^256-1"})
		f.CheckBitFlips(r, bf.BitFlip{Coords: 1, Bits: 256, P: p, Limit: bf.Pow2(256), IsZero: func(x bf.Elem) bool { return fp.IsZero(x.(*fp.Elt)) }}, b)
		r.RequireCounter("fp25519.predicates.one-bit-neighbours", 9*256)
	}
	r.RequireCounter("fp25519.IsZero.true", 3) // 0, p, 2p

	// special shapes (pairs x selector / x alias) on the key sub-alphabet: neighbours of 0, p, 2p, 2^255, 2^256 plus a thinned sample of the rest
	small := f.Prepare("k", key)
	r.Set("special_shape_elements", small.Len())
	f.CheckAddSub(r, func(x, y bf.Elem) { fp.AddSub(x.(*fp.Elt), y.(*fp.Elt)) }, small, small)
	f.CheckCmov(r, "Cmov", func(x, y bf.Elem, b int) { fp.Cmov(x.(*fp.Elt), y.(*fp.Elt), uint(b)) }, []int{0, 1}, small, small)
	f.CheckCswap(r, "Cswap", func(x, y bf.Elem, b int) { fp.Cswap(x.(*fp.Elt), y.(*fp.Elt), uint(b)) }, []int{0, 1}, small, small)
	f.CheckInvSqrt(r, "InvSqrt", func(z, x, y bf.Elem) bool { return fp.InvSqrt(z.(*fp.Elt), x.(*fp.Elt), y.(*fp.Elt)) }, small, small)
	r.RequireCounter("fp25519.InvSqrt.square", 100)
	r.RequireCounter("fp25519.InvSqrt.nonsquare", 100)
	for i := 0; i < 3 && i < all.Len(); i++ {
		k := (i*all.Len())/3 + all.Len()/7
		r.Sample(map[string]string{"element": all.Ops[k].Name, "value": all.Ops[k].V.Text(16)})
	}
}
