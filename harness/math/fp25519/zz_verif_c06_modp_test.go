//go:build verif

package fp25519_test

// C06, mechanism "reduction of the peer value": Modp brings every peer value of
// the C06 alphabets (after the bit-255 mask that Shared applies) to its canonical
// representative. Also reports the field back-end selected in this package.

import (
	"testing"

	"github.com/cloudflare/circl/internal/verifc06"
	"github.com/cloudflare/circl/internal/verifmc"
	"github.com/cloudflare/circl/math/fp25519"
)

func TestVerifC06_modp_fp25519(t *testing.T) {
	t.Parallel()
	r := verifmc.Start(t, "C06", "modp_fp25519")
	defer r.Finish()
	verifc06.RunModp(r, verifc06.P25519, "fp25519", func(b []byte) {
		var e fp25519.Elt
		copy(e[:], b)
		fp25519.Modp(&e)
		copy(b, e[:])
	}, func(b []byte) bool {
		var e fp25519.Elt
		copy(e[:], b)
		return fp25519.IsZero(&e)
	})
}
