//go:build verif && (!amd64 || purego)

package fp25519

// fp_noasm.go is compiled: every operation is the *Generic routine.
func init() { C14ReadBackend = func() string { return "generic" } }
