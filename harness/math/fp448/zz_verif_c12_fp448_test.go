//go:build verif

package fp448_test

// C12 for GF(2^448-2^224-1): every exported operation of math/fp448 against
// math/big on limb-built operands, including every unreduced value class
// (the element type is a byte array: every 56-byte string is an operand).

import (
	"math/big"
	"testing"

	"github.com/cloudflare/circl/internal/verifmc"
	bf "github.com/cloudflare/circl/internal/verifref/bigfield"
	fp "github.com/cloudflare/circl/math/fp448"
)

func c12Field448() *bf.Field {
	return &bf.Field{
		Prop: "C12", Name: "fp448", P: bf.P448, Hex: 112,
		New: func() bf.Elem { return new(fp.Elt) },
		Load: func(z bf.Elem, v *big.Int) bool {
			if v.Sign() < 0 || v.BitLen() > 448 {
				return false
			}
			copy(z.(*fp.Elt)[:], bf.LE(v, fp.Size))
			return true
		},
		Copy: func(d, s bf.Elem) { *d.(*fp.Elt) = *s.(*fp.Elt) },
		Raw:  func(x bf.Elem) *big.Int { return bf.FromLE(x.(*fp.Elt)[:]) },
		Same: func(a, b bf.Elem) bool { return *a.(*fp.Elt) == *b.(*fp.Elt) },
		Junk: bf.Pseudo("fp448-junk", 0, bf.Pow2(448)),
		Par:  verifmc.ParallelFor,
	}
}

const (
	c12m1  = ^uint64(0)
	c12b63 = uint64(1) << 63
	c12mid = uint64(0xfffffffeffffffff) // limb 3 of p
)

// c12Alphabet448: all = operands of the all-pairs sweep, wideSet = larger list for unary ops, key = short list for special shapes.
func c12Alphabet448(thorough bool) (all, wideSet, key []bf.Operand, describe map[string]interface{}) {
	wide := []uint64{0, 1, 2, 1<<32 - 1, 1 << 32, 1<<32 + 1, c12b63 - 1, c12b63, 0xfffffffe00000000, c12mid - 1, c12mid, 0xffffffff00000000, c12m1 - 1, c12m1}
	low := []uint64{0, c12m1}
	mid := []uint64{0, 1 << 32, c12mid, 0xffffffff00000000, c12m1}
	away := 1
	if thorough {
		low = []uint64{0, 1, c12m1}
	}
	core := [][]uint64{low, low, low, mid, low, low, low}
	lp := bf.LimbProduct(7, core, bf.Rep(7, wide), away)
	lp2 := bf.LimbProduct(7, core, bf.Rep(7, wide), 2)
	ia := bf.IntAlphabet(bf.P448, 64, 16, "fp448")
	p := bf.P448
	lim := bf.Pow2(448)
	c := new(big.Int).Add(bf.Pow2(224), big.NewInt(1)) // 2^448 = c mod p
	var sp []bf.Operand
	sp = append(sp, bf.Around(p, -3, 8, "p")...)
	sp = append(sp, bf.Around(lim, -8, -1, "2^448")...)
	sp = append(sp, bf.Around(new(big.Int).Sub(lim, c), -3, 3, "2^448-c")...)
	sp = append(sp, bf.Around(c, -3, 3, "c")...)
	sp = append(sp, bf.Around(new(big.Int).Lsh(c, 1), -3, 3, "2c")...)
	sp = append(sp, bf.Around(bf.Pow2(224), -3, 3, "2^224")...)
	sp = append(sp, bf.Around(bf.Pow2(447), -2, 2, "2^447")...)
	for k := 0; k < 16; k++ {
		sp = append(sp, bf.Operand{V: bf.Pseudo("fp448-unreduced", k, lim), Name: "pseudo448"})
	}
	key = append(key, bf.Around(new(big.Int), 0, 2, "0")...)
	key = append(key, bf.Around(p, -2, 2, "p")...)
	key = append(key, bf.Around(lim, -3, -1, "2^448")...)
	key = append(key, bf.Around(c, -1, 1, "c")...)
	key = append(key, bf.Around(new(big.Int).Sub(lim, c), -1, 1, "2^448-c")...)
	nthin := 20
	if thorough {
		nthin = 60
	}
	key = bf.Append(lim, key, bf.Thin(ia, nthin), bf.Thin(lp, nthin), bf.Thin(sp, nthin))
	all = bf.Append(lim, lp, ia, sp)
	wideSet = bf.Append(lim, lp2, ia, sp)
	describe = map[string]interface{}{
		"limbs": 7, "core_limbs": low, "core_limb_3": mid, "wide_limb_values": wide,
		"all_pairs_elements": len(all), "unary_elements(<=2 limbs away)": len(wideSet), "key_elements": len(key), "integer_alphabet": len(ia), "named_and_pseudo": len(sp),
	}
	return
}

func TestVerifC12_fp448(t *testing.T) {
	r := verifmc.Start(t, "C12", "fp448")
	defer r.Finish()
	if bad := bf.SelfCheck(); len(bad) != 0 {
		t.Fatalf("reference constants not bound: %v", bad)
	}
	pp := fp.P()
	if bf.FromLE(pp[:]).Cmp(bf.P448) != 0 {
		t.Fatalf("fp448.P() is not 2^448-2^224-1")
	}
	f := c12Field448()
	ops, wops, key, desc := c12Alphabet448(r.Thorough())
	all := f.Prepare("e", ops)
	wide := f.Prepare("w", wops)
	small := f.Prepare("k", key)
	r.Set("alphabet", desc)
	r.Set("unreduced_elements", all.Unred)
	r.Rule("operands: 56-byte strings built as limb products (per-limb cores with the 2^224 limb on 5 values; all elements <= 1 limb (pairs) / <= 2 limbs (unary, and paired with the key list) away from 00../FF.. over a 14-value limb list), the integer alphabet around limb boundaries, named neighbours of p, 2^448, c=2^224+1 and 16+16 pseudo-random values; binary ops run on ALL ordered pairs with a junk-filled output and the aliasing patterns z=x, z=y, x=y, z=x=y; Distinct registers each ordered pair once (under Mul) and every unary / predicate / special case")
	r.NotExhaustive("operands are the declared limb/integer alphabet, not all 2^448 strings")

	bin := []bf.BinOp{
		{Name: "Add", Do: func(z, x, y bf.Elem) { fp.Add(z.(*fp.Elt), x.(*fp.Elt), y.(*fp.Elt)) }, Ref: bf.RefAdd},
		{Name: "Sub", Do: func(z, x, y bf.Elem) { fp.Sub(z.(*fp.Elt), x.(*fp.Elt), y.(*fp.Elt)) }, Ref: bf.RefSub},
		{Name: "Mul", Do: func(z, x, y bf.Elem) { fp.Mul(z.(*fp.Elt), x.(*fp.Elt), y.(*fp.Elt)) }, Ref: bf.RefMul},
	}
	for _, op := range bin {
		f.CheckBin(r, op, all, all, op.Name == "Mul" && bf.HashPairs(all.Len()*all.Len()))
		f.CheckBin(r, op, wide, small, false)
		f.CheckBin(r, op, small, wide, false)
	}
	r.Count("ordered_pairs", all.Len()*all.Len()+2*wide.Len()*small.Len())

	un := []bf.UnOp{
		{Name: "Neg", Do: func(z, x bf.Elem) { fp.Neg(z.(*fp.Elt), x.(*fp.Elt)) }, Ref: bf.RefNeg},
		{Name: "Sqr", Do: func(z, x bf.Elem) { fp.Sqr(z.(*fp.Elt), x.(*fp.Elt)) }, Ref: bf.RefSqr},
		{Name: "Modp", Do: func(z, x bf.Elem) { *z.(*fp.Elt) = *x.(*fp.Elt); fp.Modp(z.(*fp.Elt)) }, Ref: bf.RefId, Canon: true},
		{Name: "ToBytes", Do: func(z, x bf.Elem) {
			if err := fp.ToBytes(z.(*fp.Elt)[:], x.(*fp.Elt)); err != nil {
				panic(err)
			}
		}, Ref: bf.RefId, Canon: true},
		{Name: "SetOne", Do: func(z, x bf.Elem) { fp.SetOne(z.(*fp.Elt)) }, Ref: func(out, x, p *big.Int) bool { out.SetInt64(1); return true }, Canon: true},
		{Name: "One", Do: func(z, x bf.Elem) { *z.(*fp.Elt) = fp.One() }, Ref: func(out, x, p *big.Int) bool { out.SetInt64(1); return true }, Canon: true},
	}
	for _, op := range un {
		f.CheckUn(r, op, wide, true)
	}
	f.CheckUn(r, bf.UnOp{Name: "Inv", Do: func(z, x bf.Elem) { fp.Inv(z.(*fp.Elt), x.(*fp.Elt)) }, Ref: bf.RefInv}, all, true)
	f.CheckPred(r, bf.Pred{Name: "IsZero", Do: func(x bf.Elem) bool { return fp.IsZero(x.(*fp.Elt)) }, Ref: bf.RefIsZero}, wide)
	f.CheckPred(r, bf.Pred{Name: "IsOne", Do: func(x bf.Elem) bool { return fp.IsOne(x.(*fp.Elt)) }, Ref: bf.RefIsOne}, wide)
	{
		p := bf.P448
		b := []bf.Operand{{V: new(big.Int), Name: "0"}, {V: big.NewInt(1), Name: "1"}, {V: new(big.Int).Sub(p, big.NewInt(1)), Name: "p-1"}, {V: bf.Pseudo("fp448-pred", 0, p), Name: "pseudo0"}, {V: bf.Pseudo("fp448-pred", 1, p), Name: "pseudo1"}}
		b = append(b, bf.Operand{V: p, Name: "p"}, bf.Operand{V: new(big.Int).Add(p, big.NewInt(1)), Name: "p+1"}, bf.Operand{V: new(big.Int).Sub(bf.Pow2(448), big.NewInt(1)), Name: "2^448-1"})
		f.CheckBitFlips(r, bf.BitFlip{Coords: 1, Bits: 448, P: p, Limit: bf.Pow2(448), IsZero: func(x bf.Elem) bool { return fp.IsZero(x.(*fp.Elt)) }, IsOne: func(x bf.Elem) bool { return fp.IsOne(x.(*fp.Elt)) }}, b)
		r.RequireCounter("fp448.predicates.one-bit-neighbours", 8*448)
	}
	r.RequireCounter("fp448.IsZero.true", 2) // 0, p
	r.RequireCounter("fp448.IsOne.true", 2)  // 1, p+1

	r.Set("special_shape_elements", small.Len())
	f.CheckAddSub(r, func(x, y bf.Elem) { fp.AddSub(x.(*fp.Elt), y.(*fp.Elt)) }, small, small)
	f.CheckCmov(r, "Cmov", func(x, y bf.Elem, b int) { fp.Cmov(x.(*fp.Elt), y.(*fp.Elt), uint(b)) }, []int{0, 1}, small, small)
	f.CheckCswap(r, "Cswap", func(x, y bf.Elem, b int) { fp.Cswap(x.(*fp.Elt), y.(*fp.Elt), uint(b)) }, []int{0, 1}, small, small)
	f.CheckInvSqrt(r, "InvSqrt", func(z, x, y bf.Elem) bool { return fp.InvSqrt(z.(*fp.Elt), x.(*fp.Elt), y.(*fp.Elt)) }, small, small)
	r.RequireCounter("fp448.InvSqrt.square", 100)
	r.RequireCounter("fp448.InvSqrt.nonsquare", 100)
	for i := 0; i < 3 && i < all.Len(); i++ {
		k := (i*all.Len())/3 + all.Len()/7
		r.Sample(map[string]string{"element": all.Ops[k].Name, "value": all.Ops[k].V.Text(16)})
	}
}
