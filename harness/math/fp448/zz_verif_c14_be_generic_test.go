//go:build verif && (!amd64 || purego)

package fp448

// c14Backend: fp_noasm.go is compiled, every operation is the *Generic routine.
func c14Backend() string { return "generic" }
