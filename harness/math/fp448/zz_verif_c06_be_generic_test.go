//go:build verif && (!amd64 || purego)

package fp448_test

import "github.com/cloudflare/circl/internal/verifc06"

func init() { verifc06.RegisterBackend("fp448", func() string { return "generic" }) }
