//go:build verif && (!amd64 || purego)

package fp448

func c06Backend() string { return "generic" }
