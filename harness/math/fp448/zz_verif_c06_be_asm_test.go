//go:build verif && amd64 && !purego

package fp448

// c06Backend reads the switch the assembly itself tests (CHECK_BMI2ADX).
func c06Backend() string {
	if hasBmi2Adx {
		return "asm-bmi2adx"
	}
	return "asm-legacy"
}
