//go:build verif

package fp448_test

// C14 for math/fp448: the same operand alphabet through every exported operation under each
// build/CPU configuration; the driver diffs the per-case digests. Back-ends: fp_noasm.go (purego),
// fp_amd64.s legacy path and MULX/ADX path (selected by hasBmi2Adx inside the assembly).

import (
	"testing"

	"github.com/cloudflare/circl/internal/verifc14"
	fp "github.com/cloudflare/circl/math/fp448"
)

func c14Elt(b []byte) *fp.Elt { e := new(fp.Elt); copy(e[:], b); return e }

func c14Junk() *fp.Elt {
	e := new(fp.Elt)
	for i := range e {
		e[i] = byte(0xa5 ^ i)
	}
	return e
}

func c14Field() *verifc14.Field {
	bin := map[string]func(z, x, y *fp.Elt){"Add": fp.Add, "Sub": fp.Sub, "Mul": fp.Mul}
	un := map[string]func(z, x *fp.Elt){"Sqr": fp.Sqr, "Neg": fp.Neg, "Inv": fp.Inv,
		"Modp": func(z, x *fp.Elt) { *z = *x; fp.Modp(z) }}
	pred := map[string]func(x *fp.Elt) bool{"IsZero": fp.IsZero, "IsOne": fp.IsOne}
	return &verifc14.Field{
		Name: "GF(2^448-2^224-1)", Size: fp.Size,
		BinOps: []string{"Add", "Sub", "Mul"}, UnOps: []string{"Sqr", "Neg", "Inv", "Modp"}, PredOps: []string{"IsZero", "IsOne"},
		Bin: func(op string, alias int, xb, yb []byte) []byte {
			x, y, z := c14Elt(xb), c14Elt(yb), c14Junk()
			switch alias {
			case 1:
				z = x
			case 2:
				z = y
			}
			bin[op](z, x, y)
			return z[:]
		},
		Un: func(op string, alias int, xb []byte) []byte {
			x, z := c14Elt(xb), c14Junk()
			if alias == 1 {
				z = x
			}
			un[op](z, x)
			return z[:]
		},
		Pred: func(op string, xb []byte) bool { return pred[op](c14Elt(xb)) },
		Canon: func(xb []byte) []byte {
			out := make([]byte, fp.Size)
			if err := fp.ToBytes(out, c14Elt(xb)); err != nil {
				panic(err)
			}
			return out
		},
		AddSub: func(xb, yb []byte) ([]byte, []byte) {
			x, y := c14Elt(xb), c14Elt(yb)
			fp.AddSub(x, y)
			return x[:], y[:]
		},
		Cmov: func(xb, yb []byte, b uint) []byte { x, y := c14Elt(xb), c14Elt(yb); fp.Cmov(x, y, b); return x[:] },
		Cswap: func(xb, yb []byte, b uint) ([]byte, []byte) {
			x, y := c14Elt(xb), c14Elt(yb)
			fp.Cswap(x, y, b)
			return x[:], y[:]
		},
		InvSqrt: func(xb, yb []byte) ([]byte, bool) {
			x, y, z := c14Elt(xb), c14Elt(yb), c14Junk()
			ok := fp.InvSqrt(z, x, y)
			return z[:], ok
		},
	}
}

func TestVerifC14_fp448(t *testing.T) {
	c := verifc14.Start(t, "fp448")
	c.BackendOptional("math/fp448.hasBmi2Adx", fp.C14ReadBackend, verifc14.FpSel)
	m1, b63 := ^uint64(0), uint64(1)<<63
	wide := []uint64{1, 2, 1<<32 - 1, 1 << 32, 1<<32 + 1, b63 - 1, b63, b63 + 1, m1 - 1<<32, m1 - 1<<32 + 1, m1 - 1<<32 - 1, m1 - 2, m1 - 1}
	pp := fp.P()
	p224 := make([]byte, fp.Size)
	p224[28] = 1
	p447 := make([]byte, fp.Size)
	p447[55] = 0x80
	p225 := make([]byte, fp.Size)
	p225[28] = 2
	named := map[string][]byte{"p": pp[:], "2^224": p224, "2^225": p225, "2^447": p447,
		"2^448-20": verifc14.AddSmall(make([]byte, fp.Size), -20), "2^448-2^224": verifc14.AddSmall(pp[:], 1)}
	all := verifc14.FieldAlphabet(7, wide, named, -19, 19, c.R.Pick(8, 64), "fp448")
	key := verifc14.Thin(all, c.R.Pick(40, 120))
	c.R.Rule("operands: every 56-byte string whose seven limbs are in {0,2^64-1}; every string one limb away from 00../FF.. over a 13-value limb list; " +
		"p, 2^224, 2^225, 2^447, 2^448-2^224, 2^448-20 each -19..+19; SHAKE-derived strings. Binary ops on all x all ordered pairs in the thorough tier and all x every-4th in the quick tier (output fresh; also =x and =y for key operands); unary ops fresh and in place; " +
		"AddSub, Cmov, Cswap, InvSqrt on the thinned key alphabet squared. A case = (operation, first operand); its digest covers every second operand, raw output bytes and ToBytes form")
	c.R.NotExhaustive("operands are the declared limb alphabet, not all 2^448 strings")
	second := all
	if !c.R.Thorough() {
		second = verifc14.Thin(all, 120)
	}
	verifc14.RunField(c, c14Field(), all, second, key)
	c.Finish(1000)
}
