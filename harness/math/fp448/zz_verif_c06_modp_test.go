//go:build verif

package fp448_test

// C06, mechanism "reduction of the peer value": Modp brings every peer value of
// the C06 alphabets (X448 has no masked bit) to its canonical
// representative. Also reports the field back-end selected in this package.

import (
	"testing"

	"github.com/cloudflare/circl/internal/verifc06"
	"github.com/cloudflare/circl/internal/verifmc"
	"github.com/cloudflare/circl/math/fp448"
)

func TestVerifC06_modp_fp448(t *testing.T) {
	t.Parallel()
	r := verifmc.Start(t, "C06", "modp_fp448")
	defer r.Finish()
	verifc06.RunModp(r, verifc06.P448, "fp448", func(b []byte) {
		var e fp448.Elt
		copy(e[:], b)
		fp448.Modp(&e)
		copy(b, e[:])
	}, func(b []byte) bool {
		var e fp448.Elt
		copy(e[:], b)
		return fp448.IsZero(&e)
	})
}
