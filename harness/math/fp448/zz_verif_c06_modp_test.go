//go:build verif

package fp448

// C06, mechanism "reduction of the peer value": Modp brings every peer value of
// the C06 alphabets (X448 has no masked bit) to its canonical
// representative. Also reports the field back-end selected in this package.

import (
	"testing"

	"github.com/cloudflare/circl/internal/verifc06"
	"github.com/cloudflare/circl/internal/verifmc"
)

func TestVerifC06_modp_fp448(t *testing.T) {
	t.Parallel()
	r := verifmc.Start(t, "C06", "modp_fp448")
	defer r.Finish()
	verifc06.RunModp(r, verifc06.P448, "fp448", c06Backend(), func(b []byte) {
		var e Elt
		copy(e[:], b)
		Modp(&e)
		copy(b, e[:])
	}, func(b []byte) bool {
		var e Elt
		copy(e[:], b)
		return IsZero(&e)
	})
}
