//go:build verif

package circl_test

// C14 — cross-configuration differential, public-API units at the module root:
// kem (every kem.Scheme incl. Kyber, ML-KEM, FrodoKEM, X-Wing, hybrids, DHKEMs), sign (every
// sign.Scheme incl. Ed25519, Ed448, Dilithium, ML-DSA, EdDilithium), hpke (suites x modes).
// Each case digests every byte the operations return; the driver diffs the digests across the
// build/CPU configurations. The dispatch variables of the packages underneath are read by the
// in-package C14 units; here the back-end is derived from golang.org/x/sys/cpu and the build tag,
// the very sources those variables are initialised from.

import (
	"encoding/binary"
	"fmt"
	"testing"

	"github.com/cloudflare/circl/hpke"
	"github.com/cloudflare/circl/internal/verifc14"
	"github.com/cloudflare/circl/internal/verifmc"
	"github.com/cloudflare/circl/kem"
	kemschemes "github.com/cloudflare/circl/kem/schemes"
	"github.com/cloudflare/circl/sign"
	signschemes "github.com/cloudflare/circl/sign/schemes"
)

func c14AllBackends(c *verifc14.T) {
	c.BackendFromFeatures("Kyber/ML-KEM and Dilithium/ML-DSA polynomial arithmetic (cpu.X86.HasAVX2)", verifc14.Avx2Sel)
	c.BackendFromFeatures("4-way Keccak samplers (keccakf1600.IsEnabledX4)", verifc14.X4Sel)
	c.BackendFromFeatures("fp25519/fp448/x25519/x448 (hasBmi2Adx)", verifc14.FpSel)
}

func c14KemSchemes() []kem.Scheme {
	seen := map[string]bool{}
	var out []kem.Scheme
	add := func(s kem.Scheme) {
		if !seen[s.Name()] {
			seen[s.Name()] = true
			out = append(out, s)
		}
	}
	for _, s := range kemschemes.All() {
		add(s)
	}
	for _, id := range []hpke.KEM{hpke.KEM_X25519_KYBER768_DRAFT00, hpke.KEM_XWING} {
		add(id.Scheme())
	}
	return out
}

// c14KyberBoundarySeeds: key-seed counters (seed = LE64(counter) || 0..) found by search with the independent scanner:
// at least one entry of the matrix A needs a fourth 168-byte SHAKE-128 block (the four-way sampler then squeezes on
// for the unfinished lanes only; about 1 polynomial in 100). Re-checked at run time on the rho the build derived.
// Candidates equal to q = 3329 (first rejected value) occur in most matrices and are only counted.
var c14KyberBoundarySeeds = map[string][]uint64{
	"Kyber512": {25, 84, 130}, "Kyber768": {20, 25, 42}, "Kyber1024": {7, 10, 20},
	"ML-KEM-512": {72, 74, 135}, "ML-KEM-768": {16, 29, 33}, "ML-KEM-1024": {0, 6, 42},
}

var c14KyberK = map[string]int{"Kyber512": 2, "Kyber768": 3, "Kyber1024": 4, "ML-KEM-512": 2, "ML-KEM-768": 3, "ML-KEM-1024": 4}

func TestVerifC14_kem(t *testing.T) {
	c := verifc14.Start(t, "kem")
	c14AllBackends(c)
	r := c.R
	all := c14KemSchemes()
	nkey, nenc := r.Pick(3, 5), r.Pick(2, 4)
	var names []string
	for _, s := range all {
		names = append(names, s.Name())
	}
	r.Set("schemes", names)
	r.Rule("every kem.Scheme of kem/schemes.All() plus the two HPKE-only hybrids; key seeds = first 3 (quick) / 5 of SEEDS(SeedSize) (00.., FF.., 00 01 02.., 2 SHAKE) plus thorough: VERIF_SEED seeds; " +
		"encapsulation seeds = first 2 / 4 of SEEDS(EncapsulationSeedSize); a case = (scheme, key seed): public and private key bytes, re-marshalled unmarshalled keys, per encapsulation seed ciphertext, " +
		"shared secret, decapsulated secret, and the decapsulation results of the ciphertext with its first bit, its last bit flipped and of the all-zero ciphertext; " +
		"plus, for Kyber512/768/1024 and ML-KEM-512/768/1024, searched key seeds LE64(counter)||0.. whose matrix has an entry that needs a fourth SHAKE-128 block (rare path of the four-way sampler), 2 per scheme quick / 3 thorough; " +
		"an independent scan of rho confirms each hit and counts the keys whose matrix streams contain a 12-bit candidate equal to q (vacuity floors)")
	r.NotExhaustive("declared seed alphabet")
	type job struct {
		s     kem.Scheme
		ki    int // index into SEEDS, or -1
		bound uint64
	}
	var jobs []job
	nbound := 0
	for _, s := range all {
		ks := verifmc.SeedsN(s.SeedSize(), r.Seed(), nkey)
		if r.Thorough() {
			ks = verifmc.Seeds(s.SeedSize(), r.Seed())
		}
		for ki := range ks {
			jobs = append(jobs, job{s, ki, 0})
		}
		if b, ok := c14KyberBoundarySeeds[s.Name()]; ok {
			for _, ctr := range b[:r.Pick(2, len(b))] {
				jobs = append(jobs, job{s, -1, ctr})
				nbound++
			}
		}
	}
	r.Set("matrix_sampler_boundary_key_seeds", c14KyberBoundarySeeds)
	verifmc.ParallelFor(len(jobs), func(ji int) {
		j := jobs[ji]
		s := j.s
		id := fmt.Sprintf("%s#keyseed%d", s.Name(), j.ki)
		if j.ki < 0 {
			id = fmt.Sprintf("%s#boundaryseed%d", s.Name(), j.bound)
		}
		c.Case(id, func(d *verifc14.D) {
			var seed []byte
			if j.ki >= 0 {
				seed = verifmc.Seeds(s.SeedSize(), r.Seed())[j.ki]
			} else {
				seed = make([]byte, s.SeedSize())
				binary.LittleEndian.PutUint64(seed, j.bound)
			}
			pk, sk := s.DeriveKeyPair(append([]byte{}, seed...))
			pkb, err := pk.MarshalBinary()
			if k, ok := c14KyberK[s.Name()]; ok && err == nil {
				// which rare paths of the matrix sampler does this key reach? rho = last 32 bytes of the public key
				rho := pkb[len(pkb)-32:]
				eq, maxBlocks := 0, 0
				for x := 0; x < k; x++ {
					for y := 0; y < k; y++ {
						_, q, _, bl, _ := verifc14.KyberUniform(rho, uint8(x), uint8(y))
						eq += q
						if bl > maxBlocks {
							maxBlocks = bl
						}
					}
				}
				if eq > 0 {
					r.Count("keys_with_matrix_candidate_eq_q/"+s.Name(), 1)
				}
				if maxBlocks >= 4 {
					r.Count("keys_with_4block_matrix_stream", 1)
					r.Count("keys_with_4block_matrix_stream/"+s.Name(), 1)
				} else if j.ki < 0 {
					r.Count("boundary_seed_without_hit", 1)
				}
			}
			d.Err("pk.marshal", err)
			d.Bytes("pk", pkb)
			skb, err := sk.MarshalBinary()
			d.Err("sk.marshal", err)
			d.Bytes("sk", skb)
			d.Exec(1)
			pk2, err := s.UnmarshalBinaryPublicKey(append([]byte{}, pkb...))
			d.Err("pk.unmarshal", err)
			sk2, err2 := s.UnmarshalBinaryPrivateKey(append([]byte{}, skb...))
			d.Err("sk.unmarshal", err2)
			if err == nil && err2 == nil {
				b, _ := pk2.MarshalBinary()
				d.Bytes("pk.roundtrip", b)
				b, _ = sk2.MarshalBinary()
				d.Bytes("sk.roundtrip", b)
				d.Bool("pk.equal", pk.Equal(pk2))
				d.Bool("sk.equal", sk.Equal(sk2))
			}
			for ei, es := range verifmc.SeedsN(s.EncapsulationSeedSize(), r.Seed(), nenc) {
				ct, ss, err := s.EncapsulateDeterministically(pk, append([]byte{}, es...))
				d.Err(fmt.Sprintf("enc%d", ei), err)
				d.Bytes(fmt.Sprintf("ct%d", ei), ct)
				d.Bytes(fmt.Sprintf("ss%d", ei), ss)
				d.Exec(1)
				if err != nil {
					continue
				}
				alts := [][]byte{ct, verifmc.Flip(ct, 0), verifmc.Flip(ct, len(ct)*8-1), make([]byte, len(ct))}
				for ai, a := range alts {
					got, err := s.Decapsulate(sk, a)
					d.Err(fmt.Sprintf("dec%d.%d", ei, ai), err)
					d.Bytes(fmt.Sprintf("dec%d.%d", ei, ai), got)
					d.Exec(1)
				}
				if sk2 != nil {
					got, err := s.Decapsulate(sk2, ct)
					d.Err(fmt.Sprintf("dec%d.restored", ei), err)
					d.Bytes(fmt.Sprintf("dec%d.restored", ei), got)
					d.Exec(1)
				}
			}
		})
	})
	if !r.Replaying() {
		r.RequireCounter("keys_with_4block_matrix_stream", int64(nbound))
		for name := range c14KyberBoundarySeeds {
			r.RequireCounter("keys_with_4block_matrix_stream/"+name, 2)
			r.RequireCounter("keys_with_matrix_candidate_eq_q/"+name, 1)
		}
		if r.Counter("boundary_seed_without_hit") != 0 {
			r.Vacuous("a searched matrix-sampler boundary seed does not need a fourth SHAKE block")
		}
	}
	c.Finish(len(all)*nkey + nbound)
}

// c14ExpandABoundarySeeds: key-seed counters (seed = LE64(counter) || 0..) found by search with an independent scanner
// (and, for the six Dilithium / ML-DSA schemes, by the C04 reference sampler): the SHAKE-128 streams of ExpandA(rho)
// contain a candidate t == q. The hit is re-checked at run time.
var c14ExpandABoundarySeeds = map[string][]uint64{
	"Dilithium2": {3755, 4187, 4284, 5700}, "Dilithium3": {1361, 2839, 3755, 4187}, "Dilithium5": {1213, 1361, 2405, 2839},
	"ML-DSA-44": {2869, 2878, 5139}, "ML-DSA-65": {1836, 2443, 4095, 5324}, "ML-DSA-87": {52, 345, 1207, 1557},
	"Ed25519-Dilithium2": {917, 1779, 3594, 3663}, "Ed448-Dilithium3": {417, 1000, 2112, 3450},
}

// c14DilithiumDims: (k, l) of the matrix A.
var c14DilithiumDims = map[string][2]int{
	"Dilithium2": {4, 4}, "Dilithium3": {6, 5}, "Dilithium5": {8, 7}, "ML-DSA-44": {4, 4}, "ML-DSA-65": {6, 5}, "ML-DSA-87": {8, 7},
	"Ed25519-Dilithium2": {4, 4}, "Ed448-Dilithium3": {6, 5},
}

func TestVerifC14_sign(t *testing.T) {
	c := verifc14.Start(t, "sign")
	c14AllBackends(c)
	r := c.R
	all := signschemes.All()
	nkey := r.Pick(3, 5)
	msgLens := []int{0, 1, 31, 32, 33, 64, 135, 136, 137, 200, 1000}
	if r.Thorough() {
		for n := 300; n < 340; n++ {
			msgLens = append(msgLens, n)
		}
	}
	var names []string
	for _, s := range all {
		names = append(names, s.Name())
	}
	r.Set("schemes", names)
	r.Set("message_lengths", msgLens)
	r.Rule("every sign.Scheme of sign/schemes.All(); key seeds = first 3 (quick) / all of SEEDS(SeedSize); messages of the listed lengths (byte k a fixed function of k); contexts {none, \"c14\"} where supported; " +
		"a case = (scheme, key seed): key bytes, re-marshalled unmarshalled keys, per message and context the signature bytes, Verify of the signature, of the signature with its first / middle / last bit flipped, " +
		"of the signature on the next message; plus, for the eight Dilithium-family schemes, searched key seeds LE64(counter)||0.. whose matrix expansion ExpandA(rho) contains a 23-bit rejection-sampling candidate exactly equal to q " +
		"(the accept/reject boundary of the scalar and the four-way sampler; about 1 key in 1200), 2 per scheme quick / all listed thorough, 3 message lengths; an independent SHAKE-128 scan of rho confirms each hit (vacuity floor)")
	r.NotExhaustive("declared seed and message alphabets")
	type job struct {
		s     sign.Scheme
		ki    int // index into SEEDS, or -1
		bound uint64
	}
	var jobs []job
	nbound := 0
	for _, s := range all {
		ks := verifmc.SeedsN(s.SeedSize(), r.Seed(), nkey)
		if r.Thorough() {
			ks = verifmc.Seeds(s.SeedSize(), r.Seed())
		}
		for ki := range ks {
			jobs = append(jobs, job{s, ki, 0})
		}
		if b, ok := c14ExpandABoundarySeeds[s.Name()]; ok {
			for _, ctr := range b[:r.Pick(2, len(b))] {
				jobs = append(jobs, job{s, -1, ctr})
				nbound++
			}
		}
	}
	r.Set("expandA_boundary_key_seeds", c14ExpandABoundarySeeds)
	verifmc.ParallelFor(len(jobs), func(ji int) {
		j := jobs[ji]
		s := j.s
		id := fmt.Sprintf("%s#keyseed%d", s.Name(), j.ki)
		lens := msgLens
		if j.ki < 0 {
			id = fmt.Sprintf("%s#boundaryseed%d", s.Name(), j.bound)
			lens = []int{0, 33, 200}
		}
		c.Case(id, func(d *verifc14.D) {
			var seed []byte
			if j.ki >= 0 {
				seed = verifmc.Seeds(s.SeedSize(), r.Seed())[j.ki]
			} else {
				seed = make([]byte, s.SeedSize())
				binary.LittleEndian.PutUint64(seed, j.bound)
			}
			pk, sk := s.DeriveKey(append([]byte{}, seed...))
			pkb, err := pk.MarshalBinary()
			if dim, ok := c14DilithiumDims[s.Name()]; ok && err == nil {
				// does ExpandA(rho) of this key meet a 23-bit candidate equal to q (rejected) or q-1 (largest accepted)? rho = first 32 bytes of the public key
				eq, eqm1 := verifc14.DilithiumExpandAScan(pkb[:32], dim[0], dim[1])
				if eq > 0 {
					r.Count("keys_with_expandA_candidate_eq_q", 1)
					r.Count("keys_with_expandA_candidate_eq_q/"+s.Name(), 1)
				} else if j.ki < 0 {
					r.Count("boundary_seed_without_hit", 1)
				}
				if eqm1 > 0 {
					r.Count("keys_with_expandA_candidate_eq_q-1", 1)
				}
			}
			d.Err("pk.marshal", err)
			d.Bytes("pk", pkb)
			skb, err := sk.MarshalBinary()
			d.Err("sk.marshal", err)
			d.Bytes("sk", skb)
			d.Exec(1)
			pk2, err := s.UnmarshalBinaryPublicKey(append([]byte{}, pkb...))
			d.Err("pk.unmarshal", err)
			sk2, err2 := s.UnmarshalBinaryPrivateKey(append([]byte{}, skb...))
			d.Err("sk.unmarshal", err2)
			if err == nil && err2 == nil {
				b, _ := pk2.MarshalBinary()
				d.Bytes("pk.roundtrip", b)
				b, _ = sk2.MarshalBinary()
				d.Bytes("sk.roundtrip", b)
			}
			ctxs := []*sign.SignatureOpts{nil}
			if s.SupportsContext() {
				ctxs = append(ctxs, &sign.SignatureOpts{Context: "c14"})
			}
			for _, n := range lens {
				msg := verifc14.Msg(n)
				next := verifc14.Msg(n + 1)
				for ci, o := range ctxs {
					sig := s.Sign(sk, msg, o)
					tag := fmt.Sprintf("m%d.c%d", n, ci)
					d.Bytes("sig."+tag, sig)
					d.Bool("ok."+tag, s.Verify(pk, msg, sig, o))
					d.Bool("ok.restored."+tag, pk2 != nil && s.Verify(pk2, msg, sig, o))
					d.Bool("next."+tag, s.Verify(pk, next, sig, o))
					for _, bit := range []int{0, len(sig) * 4, len(sig)*8 - 1} {
						d.Bool(fmt.Sprintf("flip%d.%s", bit, tag), s.Verify(pk, msg, verifmc.Flip(sig, bit), o))
					}
					d.Exec(7)
				}
			}
		})
	})
	if !r.Replaying() {
		// vacuity: every searched seed must really reach the boundary (decided by the independent scanner on the rho this build derived)
		r.RequireCounter("keys_with_expandA_candidate_eq_q", int64(nbound))
		for name := range c14ExpandABoundarySeeds {
			r.RequireCounter("keys_with_expandA_candidate_eq_q/"+name, 2)
		}
		if r.Counter("boundary_seed_without_hit") != 0 {
			r.Vacuous("a searched ExpandA boundary seed does not reach a candidate equal to q")
		}
	}
	c.Finish(len(all)*nkey + nbound)
}

func TestVerifC14_hpke(t *testing.T) {
	c := verifc14.Start(t, "hpke")
	c14AllBackends(c)
	r := c.R
	kems := []hpke.KEM{hpke.KEM_P256_HKDF_SHA256, hpke.KEM_P384_HKDF_SHA384, hpke.KEM_P521_HKDF_SHA512, hpke.KEM_X25519_HKDF_SHA256,
		hpke.KEM_X448_HKDF_SHA512, hpke.KEM_X25519_KYBER768_DRAFT00, hpke.KEM_XWING}
	kdfs := []hpke.KDF{hpke.KDF_HKDF_SHA256, hpke.KDF_HKDF_SHA384, hpke.KDF_HKDF_SHA512}
	aeads := []hpke.AEAD{hpke.AEAD_AES128GCM, hpke.AEAD_AES256GCM, hpke.AEAD_ChaCha20Poly1305}
	r.Rule("every KEM (7) x KDF (3) x AEAD (3) suite x the modes the KEM supports (base, psk; auth, auth_psk for the DHKEMs) x 2 receiver key seeds; fixed SHAKE stream as sender randomness; " +
		"a case = (KEM, KDF, AEAD): enc, three sealed messages (lengths 0, 1, 100; aad lengths 0, 7), the exporter output of both sides, the opened plaintexts and the verdict on a tampered ciphertext")
	r.NotExhaustive("declared seeds and message lengths")
	psk, pskID := verifmc.Shake("c14-hpke-psk", 32), []byte("c14 psk id")
	info := []byte("c14 hpke info")
	type job struct {
		k hpke.KEM
		f hpke.KDF
		a hpke.AEAD
	}
	var jobs []job
	for _, k := range kems {
		for _, f := range kdfs {
			for _, a := range aeads {
				jobs = append(jobs, job{k, f, a})
			}
		}
	}
	verifmc.ParallelFor(len(jobs), func(ji int) {
		j := jobs[ji]
		c.Case(fmt.Sprintf("kem=0x%04x#kdf=%d/aead=%d", uint16(j.k), j.f, j.a), func(d *verifc14.D) {
			suite := hpke.NewSuite(j.k, j.f, j.a)
			sch := j.k.Scheme()
			isAuth := uint16(j.k) < 0x30 // the five DHKEMs; the hybrids carry the AuthScheme methods but document them as unsupported (panic)
			for si := 0; si < 2; si++ {
				seedR := verifmc.Seeds(sch.SeedSize(), 0)[3+si]
				seedS := verifmc.Shake(fmt.Sprintf("c14-hpke-sender-%d", si), sch.SeedSize())
				pkR, skR := sch.DeriveKeyPair(seedR)
				pkS, skS := sch.DeriveKeyPair(seedS)
				modes := []string{"base", "psk"}
				if isAuth {
					modes = append(modes, "auth", "auth_psk")
				}
				for _, mode := range modes {
					tag := fmt.Sprintf("%s.%d", mode, si)
					snd, err := suite.NewSender(pkR, info)
					d.Err("sender."+tag, err)
					rcv, err2 := suite.NewReceiver(skR, info)
					d.Err("receiver."+tag, err2)
					if err != nil || err2 != nil {
						continue
					}
					rnd := verifmc.NewDetReader("c14-hpke-rnd-" + tag)
					var enc []byte
					var sealer hpke.Sealer
					var opener hpke.Opener
					switch mode {
					case "base":
						enc, sealer, err = snd.Setup(rnd)
					case "psk":
						enc, sealer, err = snd.SetupPSK(rnd, psk, pskID)
					case "auth":
						enc, sealer, err = snd.SetupAuth(rnd, skS)
					case "auth_psk":
						enc, sealer, err = snd.SetupAuthPSK(rnd, skS, psk, pskID)
					}
					d.Err("setupS."+tag, err)
					d.Bytes("enc."+tag, enc)
					if err != nil {
						continue
					}
					switch mode {
					case "base":
						opener, err = rcv.Setup(enc)
					case "psk":
						opener, err = rcv.SetupPSK(enc, psk, pskID)
					case "auth":
						opener, err = rcv.SetupAuth(enc, pkS)
					case "auth_psk":
						opener, err = rcv.SetupAuthPSK(enc, psk, pskID, pkS)
					}
					d.Err("setupR."+tag, err)
					d.Exec(2)
					if err != nil {
						continue
					}
					for mi, n := range []int{0, 1, 100} {
						aad := verifc14.Msg(7 * (mi % 2))
						ct, err := sealer.Seal(verifc14.Msg(n), aad)
						d.Err(fmt.Sprintf("seal%d.%s", mi, tag), err)
						d.Bytes(fmt.Sprintf("ct%d.%s", mi, tag), ct)
						if mi == 1 {
							_, err := opener.Open(verifmc.Flip(ct, 3), aad)
							d.Err(fmt.Sprintf("open-tampered.%s", tag), err)
						}
						pt, err := opener.Open(ct, aad)
						d.Err(fmt.Sprintf("open%d.%s", mi, tag), err)
						d.Bytes(fmt.Sprintf("pt%d.%s", mi, tag), pt)
						d.Exec(2)
					}
					d.Bytes("exportS."+tag, sealer.Export([]byte("c14 exporter"), 48))
					d.Bytes("exportR."+tag, opener.Export([]byte("c14 exporter"), 48))
				}
			}
		})
	})
	c.Finish(len(jobs))
}
