//go:build verif && !purego && (amd64 || arm64)

package p384

// C12: montEncode / montDecode and the canonicalising round trip SetBigInt -> montEncode -> montDecode -> BigInt.
// Self-contained apart from the internals-free helpers file; unexported identifiers named here: fp384, montEncode, montDecode, SetBigInt, BigInt.

import (
	"math/big"
	"testing"

	"github.com/cloudflare/circl/internal/verifmc"
	bf "github.com/cloudflare/circl/internal/verifref/bigfield"
)

func TestVerifC12_fp384mont(t *testing.T) {
	r, redOps, unOps := c12Begin(t, "fp384mont")
	defer r.Finish()
	P := bf.P384
	f := bf.ByteField[fp384]("C12", "p384.fp", bf.P384, 48, func(e *fp384) []byte { return e[:] }, 384, bf.Pseudo("fp384-junk", 0, bf.P384), verifmc.ParallelFor)
	red, unred := f.Prepare("e", redOps), f.Prepare("u", unOps)
	enc := bf.UnOp{Name: "montEncode", Do: func(z, x bf.Elem) { montEncode(z.(*fp384), x.(*fp384)) }, Ref: func(out, x, p *big.Int) bool { out.Mul(x, c12R).Mod(out, p); return true }, Canon: true, Soft: true}
	dec := bf.UnOp{Name: "montDecode", Do: func(z, x bf.Elem) { montDecode(z.(*fp384), x.(*fp384)) }, Ref: func(out, x, p *big.Int) bool { out.Mul(x, c12Rinv).Mod(out, p); return true }, Canon: true}
	rt := bf.UnOp{Name: "SetBigInt-encode-decode-BigInt", Do: func(z, x bf.Elem) {
		var a fp384
		a.SetBigInt(x.(*fp384).BigInt())
		montEncode(&a, &a)
		montDecode(&a, &a)
		z.(*fp384).SetBigInt(a.BigInt())
	}, Ref: bf.RefId, Canon: true}
	for _, op := range []bf.UnOp{enc, dec, rt} {
		f.CheckUn(r, op, red, true)
	}
	f.CheckUn(r, enc, unred, true)
	f.CheckUn(r, rt, unred, true)
	f.CheckFromInt(r, "SetBigInt-encode-decode", 384, bf.SignedLadder(P, 384, "p384.fp"), true, func(z bf.Elem, v *big.Int) bool {
		e := z.(*fp384)
		e.SetBigInt(v)
		montEncode(e, e)
		montDecode(e, e)
		return true
	})
	r.RequireCounter("p384.fp.montEncode", 500)
	r.RequireCounter("p384.fp.SetBigInt-encode-decode.from-int", 80)
}
