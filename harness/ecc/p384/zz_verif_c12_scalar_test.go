//go:build verif && !purego && (amd64 || arm64)

package p384

// C12: the scalar paths of ecc/p384: reduceScalar (big-endian bytes -> 48 bytes mod N) and toOdd, against math/big.
// Unexported identifiers named here: curve, reduceScalar, toOdd.

import (
	"math/big"
	"testing"

	bf "github.com/cloudflare/circl/internal/verifref/bigfield"
)

func TestVerifC12_p384scalar(t *testing.T) {
	r, _, _ := c12Begin(t, "p384scalar")
	defer r.Finish()
	N := bf.N384
	c := curve{}
	ns, no := 0, 0
	for i, o := range bf.NonNegative(bf.SignedLadder(N, 384, "p384.scalar")) {
		for _, pad := range []int{0, 3} {
			k := append(make([]byte, pad), o.V.Bytes()...)
			got := c.reduceScalar(k)
			r.Eval(1)
			ns++
			cid := "p384.reduceScalar#int" + big.NewInt(int64(i)).String()
			r.Distinct(cid, pad)
			want := new(big.Int).Mod(o.V, N)
			if len(got) != 48 || new(big.Int).SetBytes(got).Cmp(want) != 0 {
				r.Violation("C12|p384.reduceScalar|wrong-residue|-|integer", cid, "reduceScalar("+o.Name+" = "+o.V.Text(16)+") = "+new(big.Int).SetBytes(got).Text(16)+", want "+want.Text(16), map[string]string{"value": o.V.Text(16)})
				continue
			}
			odd, isEven := c.toOdd(got)
			r.Eval(1)
			no++
			wantOdd := new(big.Int).Set(want)
			wantEven := 1 - int(want.Bit(0))
			if wantEven == 1 {
				wantOdd.Neg(want).Mod(wantOdd, N)
			}
			if isEven != wantEven || new(big.Int).SetBytes(odd).Cmp(wantOdd) != 0 {
				r.Violation("C12|p384.toOdd|wrong-residue|-|integer", "p384.toOdd#int"+big.NewInt(int64(i)).String(), "toOdd("+want.Text(16)+") = ("+new(big.Int).SetBytes(odd).Text(16)+", "+big.NewInt(int64(isEven)).String()+")", map[string]string{"value": want.Text(16)})
			}
		}
	}
	r.Count("p384.reduceScalar.from-int", ns)
	r.Count("p384.toOdd.from-int", no)
	r.RequireCounter("p384.reduceScalar.from-int", 80)
}
