//go:build verif && !purego && (amd64 || arm64)

package p384

// C12, P-384 base field (Montgomery form, R = 2^384; assembly with a BMI2 and a
// legacy multiplication path): glue shared by the per-routine units of this
// directory (operand alphabets, Montgomery reference functions, unit start).
// This file names NO identifier of package p384; the element adapter is
// instantiated inside each unit file with bf.ByteField[fp384].
// (The field code does not exist in purego builds: the package then uses crypto/elliptic.)

import (
	"math/big"
	"testing"

	"github.com/cloudflare/circl/internal/verifmc"
	bf "github.com/cloudflare/circl/internal/verifref/bigfield"
)

// c12Backend is set by an internals-only file when it can read the dispatch flag.
var c12Backend func() string

var (
	c12R    = bf.Pow2(384)
	c12Rinv = new(big.Int).ModInverse(c12R, bf.P384)
)

func c12Mont(out, x, y, p *big.Int) bool { out.Mul(x, y).Mul(out, c12Rinv).Mod(out, p); return true }

const c12Rule = "operands: 48-byte Montgomery residues below p built as limb products (core^6 plus <=k limbs away from 00../FF.. over 12 limb values), the integer alphabet around 64- and 32-bit limb boundaries, R, R^2, 1/R, 24 pseudo-random; ALL ordered pairs for binary operations with junk-filled output and aliasing z=x, z=y, x=y, z=x=y; unreduced values in [p,2^384) only where the API admits them (SetBigInt -> montEncode); integer constructors over the signed boundary ladder; pair sweeps above 1.5e6 cases are counted by the ordered_pairs counters instead of being hashed into distinct_nontrivial; a distinct case is one (operation, operand tuple)"

// c12Begin starts a unit: reduced = residues below p, unreduced = values in [p, 2^384) the API lets in.
func c12Begin(t *testing.T, unit string) (r *verifmc.Run, reduced, unreduced []bf.Operand) {
	r = verifmc.Start(t, "C12", unit)
	if bad := bf.SelfCheck(); len(bad) != 0 {
		t.Fatalf("reference constants not bound: %v", bad)
	}
	if c12Backend != nil {
		r.Set("backend", c12Backend())
	}
	r.Rule(c12Rule)
	r.NotExhaustive("operands are the declared alphabet, not all residues")
	P := bf.P384
	wide := []uint64{0, 1, 2, 1<<32 - 1, 1 << 32, 1<<32 + 1, 1<<63 - 1, 1 << 63, 0xfffffffeffffffff, 0xffffffff00000000, ^uint64(0) - 1, ^uint64(0)}
	core := []uint64{0, 1, ^uint64(0)}
	lp := bf.LimbProduct(6, bf.Rep(6, core), bf.Rep(6, wide), r.Pick(1, 2))
	ia := bf.IntAlphabet(P, 64, 24, "fp384")
	reduced = bf.Append(P, ia, lp)
	var un []bf.Operand
	un = append(un, bf.Around(P, 0, 4, "p")...)
	un = append(un, bf.Around(c12R, -4, -1, "2^384")...)
	un = append(un, bf.Around(new(big.Int).Add(P, bf.Pow2(128)), -2, 2, "p+2^128")...)
	for k := 0; k < 8; k++ {
		un = append(un, bf.Operand{V: new(big.Int).Add(P, bf.Pseudo("fp384-unred", k, new(big.Int).Sub(c12R, P))), Name: "p+pseudo"})
	}
	for _, o := range lp {
		if o.V.Cmp(P) >= 0 {
			un = append(un, o)
		}
	}
	unreduced = bf.Append(c12R, un)
	r.Set("reduced_elements", len(reduced))
	r.Set("unreduced_elements", len(unreduced))
	for i := 0; i < 3; i++ {
		k := i*len(reduced)/3 + 5
		r.Sample(map[string]string{"element": reduced[k].Name, "value": reduced[k].V.Text(16)})
	}
	return
}
