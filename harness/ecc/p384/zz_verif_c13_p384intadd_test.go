//go:build verif && ((!purego && arm64) || (!purego && amd64))

package p384

// C13 / P-384 internal representations (optimised back-end only): jacobianPoint.add
// (Jacobian + Jacobian) with a non-trivial Z on the right operand. Unexported names
// used by this file: affinePoint{isZero, toInt, toJacobian}, newAffinePoint, zeroPoint,
// jacobianPoint{add, mixadd (to build the operand), isZero, toAffine, toProjective},
// projectivePoint.isZero.

import (
	"fmt"
	"testing"

	"github.com/cloudflare/circl/internal/verifmc"
	"github.com/cloudflare/circl/internal/verifref/curvealpha"
	"github.com/cloudflare/circl/internal/verifref/wcurve"
)

func TestVerifC13_p384_internal_add(t *testing.T) {
	r := verifmc.Start(t, "C13", "p384_internal_add")
	defer r.Finish()
	r.Rule("P-384 optimised back-end, PT x PT: jacobianPoint.add(P, R) with R = (Q - G) + G left in Jacobian form (pairs with P = Q != O excluded: documented precondition of add, pinned by the package's own test); " +
		"isZero() of the fresh Jacobian result, of its toProjective() and toAffine() images must agree with the reference and the affine coordinates must be the reference's; distinct = distinct operand names")
	ref := wcurve.P384()
	N := ref.N
	logs := curvealpha.PointLogs(N)
	r.State(len(logs))
	aff := func(P wcurve.Point) *affinePoint {
		if P.Inf {
			return zeroPoint()
		}
		return newAffinePoint(P.X.A, P.Y.A)
	}
	pts := make([]wcurve.Point, len(logs))
	for i, a := range logs {
		pts[i] = ref.BaseMult(a.V)
	}
	bad := func(op, class, id, what string) {
		r.Violation("C13|p384.internal."+op+"|"+curvealpha.CoarseKey(class), id, what, nil)
	}
	count := func(want wcurve.Point) string {
		if want.Inf {
			r.Count("identity_results_queried", 1)
			return "identity"
		}
		r.Count("non_identity_results_queried", 1)
		return "non-identity"
	}
	sameAff := func(A *affinePoint, want wcurve.Point) bool {
		x, y := A.toInt()
		if want.Inf {
			return x.Sign() == 0 && y.Sign() == 0
		}
		return x.Cmp(want.X.A) == 0 && y.Cmp(want.Y.A) == 0
	}
	checkJ := func(op, class, id string, J *jacobianPoint, want wcurve.Point) {
		kind := count(want)
		f := *J
		if v := f.isZero(); v != want.Inf {
			bad(op, "predicate:jacobian.isZero|fresh-result|"+kind+"|"+class, id, fmt.Sprintf("%s: isZero() = %v on %v, the reference says %v", id, v, J.p2Point.String(), want.Inf))
		}
		f2 := *J
		A := f2.toAffine()
		a2 := *A
		if v := a2.isZero(); v != want.Inf {
			bad(op, "predicate:affine.isZero|fresh-result|"+kind+"|"+class, id, fmt.Sprintf("%s: toAffine().isZero() = %v, the reference says %v", id, v, want.Inf))
		}
		if !sameAff(A, want) {
			bad(op, "wrong-result|"+class, id, fmt.Sprintf("%s: got %v want %v", id, A, want))
		}
		f3 := *J
		H := f3.toProjective()
		if v := H.isZero(); v != want.Inf {
			bad(op, "predicate:projective.isZero|fresh-result|"+kind+"|"+class, id, fmt.Sprintf("%s: toProjective().isZero() = %v, the reference says %v", id, v, want.Inf))
		}
	}
	try := func(op, id string, f func()) bool {
		if p, what := verifmc.Try(f); p {
			bad(op, "panic:"+verifmc.PanicClass(what), id, what)
			return false
		}
		return true
	}
	verifmc.ParallelFor(len(pts)*len(pts), func(idx int) {
		i, j := idx/len(pts), idx%len(pts)
		a, b := logs[i], logs[j]
		id := "int/" + a.Name + "/" + b.Name
		if !r.Want(id) {
			return
		}
		class := "P=" + a.Name + "|Q=" + b.Name
		want := ref.Add(pts[i], pts[j])
		if a.V.Cmp(b.V) == 0 && a.V.Sign() != 0 {
			r.Count("excluded_P_eq_Q", 1)
			return
		}
		Rj := aff(ref.Sub(pts[j], ref.G)).toJacobian()
		Rj.mixadd(Rj, aff(ref.G))
		A := aff(pts[i]).toJacobian()
		if try("add", id, func() { A.add(A, Rj) }) {
			checkJ("add", class, id+"/add", A, want)
		}
		r.Eval(1)
		r.Transition(1)
		r.Distinct("intadd", a.Name, b.Name)
	})
	r.Sample(map[string]string{"op": "add", "P": logs[1].Name, "Q": logs[2].Name})
	r.RequireCounter("identity_results_queried", 15)
	r.RequireCounter("non_identity_results_queried", 200)
}
