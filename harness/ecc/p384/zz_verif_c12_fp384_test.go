//go:build verif && !purego && (amd64 || arm64)

package p384

// C12 for the P-384 base field (Montgomery form, R = 2^384, assembly with a
// BMI2 and a legacy multiplication path): fp384{Add,Sub,Neg,Mul,Sqr,Inv,Cmov},
// montEncode/montDecode, SetBigInt/BigInt against math/big.
// (The file does not exist in purego builds: the package then uses crypto/elliptic.)

import (
	"math/big"
	"testing"

	"github.com/cloudflare/circl/internal/verifmc"
	bf "github.com/cloudflare/circl/internal/verifref/bigfield"
)

func c12Field384(name string) *bf.Field {
	return &bf.Field{
		Prop: "C12", Name: name, P: bf.P384, Hex: 96,
		New: func() bf.Elem { return new(fp384) },
		Load: func(z bf.Elem, v *big.Int) bool {
			if v.Sign() < 0 || v.BitLen() > 384 {
				return false
			}
			copy(z.(*fp384)[:], bf.LE(v, sizeFp))
			return true
		},
		Copy: func(d, s bf.Elem) { *d.(*fp384) = *s.(*fp384) },
		Raw:  func(x bf.Elem) *big.Int { return bf.FromLE(x.(*fp384)[:]) },
		Same: func(a, b bf.Elem) bool { return *a.(*fp384) == *b.(*fp384) },
		Junk: bf.Pseudo("fp384-junk", 0, bf.P384),
		Par:  verifmc.ParallelFor,
	}
}

func TestVerifC12_fp384(t *testing.T) {
	r := verifmc.Start(t, "C12", "fp384")
	defer r.Finish()
	if bad := bf.SelfCheck(); len(bad) != 0 {
		t.Fatalf("reference constants not bound: %v", bad)
	}
	if p.BigInt().Cmp(bf.P384) != 0 {
		t.Fatalf("package p differs from the P-384 prime")
	}
	P := bf.P384
	R := bf.Pow2(384)
	Rinv := new(big.Int).ModInverse(R, P)
	r.Set("hasBMI2", hasBMI2Verif())
	f := c12Field384("p384.fp")
	// reduced operands: limb products below p, the integer alphabet (64- and 32-bit boundaries), pseudo-random
	wide := []uint64{0, 1, 2, 1<<32 - 1, 1 << 32, 1<<32 + 1, 1<<63 - 1, 1 << 63, 0xfffffffeffffffff, 0xffffffff00000000, ^uint64(0) - 1, ^uint64(0)}
	core := []uint64{0, 1, ^uint64(0)}
	if r.Thorough() {
		core = []uint64{0, 1, 0xffffffff00000000, ^uint64(0)}
	}
	lp := bf.LimbProduct(6, bf.Rep(6, core), bf.Rep(6, wide), r.Pick(1, 2))
	ia := bf.IntAlphabet(P, 64, 24, "fp384")
	red := f.Prepare("e", bf.Append(P, ia, lp))
	// unreduced operands the API lets in: SetBigInt keeps any non-negative value below 2^384
	var un []bf.Operand
	un = append(un, bf.Around(P, 0, 4, "p")...)
	un = append(un, bf.Around(R, -4, -1, "2^384")...)
	un = append(un, bf.Around(new(big.Int).Add(P, bf.Pow2(128)), -2, 2, "p+2^128")...)
	for k := 0; k < 8; k++ {
		un = append(un, bf.Operand{V: new(big.Int).Add(P, bf.Pseudo("fp384-unred", k, new(big.Int).Sub(R, P))), Name: "p+pseudo"})
	}
	for _, o := range lp {
		if o.V.Cmp(P) >= 0 {
			un = append(un, o)
		}
	}
	unred := f.Prepare("u", bf.Append(R, un))
	r.Set("reduced_elements", red.Len())
	r.Set("unreduced_elements", unred.Len())
	r.Rule("operands: 48-byte Montgomery residues below p built as limb products (core^6 plus <=k limbs away from 00../FF.. over 12 limb values), the integer alphabet around 64- and 32-bit limb boundaries, R, R^2, 1/R, 24 pseudo-random; ALL ordered pairs for Add/Sub/Mul with junk-filled output and aliasing z=x, z=y, x=y, z=x=y; unreduced values in [p,2^384) only where the API admits them (SetBigInt -> montEncode); pair sweeps above 1.5e6 cases are counted by the ordered_pairs counters instead of being hashed into distinct_nontrivial; a distinct case is one (operation, operand tuple)")
	r.NotExhaustive("operands are the declared alphabet, not all residues")

	mont := func(out, x, y, p *big.Int) bool { out.Mul(x, y).Mul(out, Rinv).Mod(out, p); return true }
	bin := []bf.BinOp{
		{Name: "fp384Add", Do: func(z, x, y bf.Elem) { fp384Add(z.(*fp384), x.(*fp384), y.(*fp384)) }, Ref: bf.RefAdd, Canon: true, Soft: true},
		{Name: "fp384Sub", Do: func(z, x, y bf.Elem) { fp384Sub(z.(*fp384), x.(*fp384), y.(*fp384)) }, Ref: bf.RefSub, Canon: true, Soft: true},
		{Name: "fp384Mul", Do: func(z, x, y bf.Elem) { fp384Mul(z.(*fp384), x.(*fp384), y.(*fp384)) }, Ref: mont, Canon: true, Soft: true},
	}
	for _, op := range bin {
		f.CheckBin(r, op, red, red, op.Name == "fp384Mul" && bf.HashPairs(red.Len()*red.Len()))
	}
	r.Count("ordered_pairs", red.Len()*red.Len())
	// Mul with one unreduced factor (what montEncode does with SetBigInt input)
	f.CheckBin(r, bin[2], unred, red, false)
	unops := []bf.UnOp{
		{Name: "fp384Neg", Do: func(z, x bf.Elem) { fp384Neg(z.(*fp384), x.(*fp384)) }, Ref: bf.RefNeg, Canon: true, Soft: true},
		{Name: "fp384Sqr", Do: func(z, x bf.Elem) { fp384Sqr(z.(*fp384), x.(*fp384)) }, Ref: func(out, x, p *big.Int) bool { return mont(out, x, x, p) }, Canon: true, Soft: true},
		{Name: "fp384Inv", Do: func(z, x bf.Elem) { fp384Inv(z.(*fp384), x.(*fp384)) }, Ref: func(out, x, p *big.Int) bool {
			// Montgomery inverse: (x/R)^-1 * R = R^2/x
			if !bf.RefInv(out, x, p) {
				return false
			}
			out.Mul(out, R).Mul(out, R).Mod(out, p)
			return true
		}, Canon: true, Soft: true},
		{Name: "montEncode", Do: func(z, x bf.Elem) { montEncode(z.(*fp384), x.(*fp384)) }, Ref: func(out, x, p *big.Int) bool { out.Mul(x, R).Mod(out, p); return true }, Canon: true, Soft: true},
		{Name: "montDecode", Do: func(z, x bf.Elem) { montDecode(z.(*fp384), x.(*fp384)) }, Ref: func(out, x, p *big.Int) bool { out.Mul(x, Rinv).Mod(out, p); return true }, Canon: true},
		// the canonicalising round trip used by the point code: SetBigInt -> montEncode -> montDecode -> BigInt
		{Name: "SetBigInt-encode-decode-BigInt", Do: func(z, x bf.Elem) {
			var a fp384
			a.SetBigInt(x.(*fp384).BigInt())
			montEncode(&a, &a)
			montDecode(&a, &a)
			z.(*fp384).SetBigInt(a.BigInt())
		}, Ref: bf.RefId, Canon: true},
	}
	for _, op := range unops {
		f.CheckUn(r, op, red, true)
	}
	f.CheckUn(r, unops[3], unred, true)
	f.CheckUn(r, unops[5], unred, true)

	// SetBigInt over the signed boundary ladder (0, +-1, +-(p-1), +-p, +-(p+1), +-(p+9), +-(2p-1), +-2p, +-(2^384-1), +-2^384, +-(2^384+1),
	// +-(k*p+-1), multi-word-longer values), each into a junk-filled receiver, against the Euclidean residue.
	// Values in [p, 2^384) are kept unreduced by design, so only the residue is demanded.
	ladder := bf.SignedLadder(P, 384, "p384.fp")
	f.CheckFromInt(r, "SetBigInt", 384, ladder, false, func(z bf.Elem, v *big.Int) bool { z.(*fp384).SetBigInt(v); return true })
	r.RequireCounter("p384.fp.SetBigInt.from-int", 80)
	// ... and through the Montgomery round trip the point code uses
	f.CheckFromInt(r, "SetBigInt-encode-decode", 384, ladder, true, func(z bf.Elem, v *big.Int) bool {
		e := z.(*fp384)
		e.SetBigInt(v)
		montEncode(e, e)
		montDecode(e, e)
		return true
	})
	// the scalar paths of the package: reduceScalar (big-endian bytes -> 48 bytes mod N) and toOdd
	{
		N := bf.N384
		c := curve{}
		ns, no := 0, 0
		for i, o := range bf.NonNegative(bf.SignedLadder(N, 384, "p384.scalar")) {
			for _, pad := range []int{0, 3} {
				k := append(make([]byte, pad), o.V.Bytes()...)
				got := c.reduceScalar(k)
				r.Eval(1)
				ns++
				cid := "p384.reduceScalar#int" + big.NewInt(int64(i)).String()
				r.Distinct(cid, pad)
				want := new(big.Int).Mod(o.V, N)
				if len(got) != sizeFp || new(big.Int).SetBytes(got).Cmp(want) != 0 {
					r.Violation("C12|p384.reduceScalar|wrong-residue|-|integer", cid, "reduceScalar("+o.Name+" = "+o.V.Text(16)+") = "+new(big.Int).SetBytes(got).Text(16)+", want "+want.Text(16), map[string]string{"value": o.V.Text(16)})
					continue
				}
				odd, isEven := c.toOdd(got)
				r.Eval(1)
				no++
				wantOdd := new(big.Int).Set(want)
				wantEven := 1 - int(want.Bit(0))
				if wantEven == 1 {
					wantOdd.Neg(want).Mod(wantOdd, N)
				}
				if isEven != wantEven || new(big.Int).SetBytes(odd).Cmp(wantOdd) != 0 {
					r.Violation("C12|p384.toOdd|wrong-residue|-|integer", "p384.toOdd#int"+big.NewInt(int64(i)).String(), "toOdd("+want.Text(16)+") = ("+new(big.Int).SetBytes(odd).Text(16)+", "+big.NewInt(int64(isEven)).String()+")", map[string]string{"value": want.Text(16)})
				}
			}
		}
		r.Count("p384.reduceScalar.from-int", ns)
		r.Count("p384.toOdd.from-int", no)
		r.RequireCounter("p384.reduceScalar.from-int", 80)
	}

	small := f.Prepare("k", bf.Thin(red.Ops, r.Pick(40, 120)))
	// the assembly moves for every non-zero selector; the package uses 0 and 1 (and its test -2..2)
	f.CheckCmov(r, "fp384Cmov", func(x, y bf.Elem, b int) { fp384Cmov(x.(*fp384), y.(*fp384), b) }, []int{0, 1}, small, small)
	for i := 0; i < 3; i++ {
		k := i*red.Len()/3 + 5
		r.Sample(map[string]string{"element": red.Ops[k].Name, "value": red.Ops[k].V.Text(16)})
	}
}
