//go:build verif && (purego || (!amd64 && !arm64))

package p384

// p384_generic.go is compiled: P384() wraps crypto/elliptic.P384().
func init() { C14ReadBackend = func() string { return "generic" } }
