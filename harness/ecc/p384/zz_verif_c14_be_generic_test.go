//go:build verif && (purego || (!amd64 && !arm64))

package p384

// c14Backend: p384_generic.go is compiled, P384() wraps crypto/elliptic.P384().
func c14Backend() string { return "generic" }
