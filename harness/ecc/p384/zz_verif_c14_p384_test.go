//go:build verif

package p384_test

// C14 for ecc/p384: the exported Curve API over fixed alphabets of points and scalars under each
// configuration. purego selects the crypto/elliptic wrapper (p384_generic.go), the amd64 build circl's own
// arithmetic with fp384 assembly (MULX or legacy multiplication). Only valid curve points (and the
// point at infinity, which both APIs write as (0,0)) are used as arithmetic inputs: crypto/elliptic
// documents a panic for anything else.

import (
	"crypto/elliptic"
	"fmt"
	"math/big"
	"testing"

	"github.com/cloudflare/circl/ecc/p384"
	"github.com/cloudflare/circl/internal/verifc14"
	"github.com/cloudflare/circl/internal/verifmc"
)

type c14Pt struct {
	name string
	x, y *big.Int
}

func c14Obs(d *verifc14.D, label string, c p384.Curve, x, y *big.Int) {
	if x == nil || y == nil {
		d.Bytes(label, []byte("nil"))
		return
	}
	d.Bytes(label+".x", append([]byte{byte(x.Sign() + 1)}, x.Bytes()...))
	d.Bytes(label+".y", append([]byte{byte(y.Sign() + 1)}, y.Bytes()...))
	d.Bool(label+".inf", c.IsAtInfinity(x, y))
}

type c14Env struct {
	cv               p384.Curve
	P                *big.Int
	scal, key, small []verifc14.Named
	pts              []c14Pt
	rule             string
}

func c14Setup(c *verifc14.T) *c14Env {
	c.BackendOptional("ecc/p384.hasBMI2", p384.C14ReadBackend, verifc14.Bmi2Sel)
	r := c.R
	cv := p384.P384()
	std := elliptic.P384().Params()
	N, P := std.N, std.P

	// scalars (big-endian byte strings, several lengths)
	var scal []verifc14.Named
	seen := map[string]bool{}
	addS := func(name string, b []byte) {
		if !seen[string(b)] {
			seen[string(b)] = true
			scal = append(scal, verifc14.Named{Name: name, V: b})
		}
	}
	be := func(v *big.Int, n int) []byte { return v.FillBytes(make([]byte, n)) }
	addS("empty", []byte{})
	for k := int64(0); k <= 5; k++ {
		addS(fmt.Sprintf("%d", k), []byte{byte(k)})
		addS(fmt.Sprintf("%d/48", k), be(big.NewInt(k), 48))
	}
	for k := int64(-3); k <= 3; k++ {
		addS(fmt.Sprintf("N%+d", k), be(new(big.Int).Add(N, big.NewInt(k)), 48))
		addS(fmt.Sprintf("2N%+d", k), be(new(big.Int).Add(new(big.Int).Lsh(N, 1), big.NewInt(k)), 49))
		addS(fmt.Sprintf("N/2%+d", k), be(new(big.Int).Add(new(big.Int).Rsh(N, 1), big.NewInt(k)), 48))
	}
	for _, n := range []int{47, 48, 49, 56, 64} {
		ff := make([]byte, n)
		for i := range ff {
			ff[i] = 0xff
		}
		addS(fmt.Sprintf("FFx%d", n), ff)
	}
	for i, s := range verifmc.Seeds(48, r.Seed()) {
		addS(fmt.Sprintf("seed%d", i), s)
	}
	for i, s := range verifc14.Pseudo("p384-scalar", r.Pick(6, 48), 48) {
		addS(fmt.Sprintf("pseudo%d", i), s)
	}
	for i, b := range verifc14.LimbProduct(6, []uint64{0, ^uint64(0)}) {
		addS(fmt.Sprintf("limbs%d", i), b)
	}
	for i, b := range verifc14.SingleBits(48) {
		if r.Thorough() || i%8 == 0 || i%8 == 7 || i%64 == 4 {
			addS(fmt.Sprintf("bit%d", i), b)
		}
	}
	key := append(append([]verifc14.Named{}, scal[:20]...), verifc14.Thin(scal[20:], r.Pick(10, 40))...)
	small := append(append([]verifc14.Named{}, scal[1:6]...), scal[13], scal[14], scal[15], scal[len(scal)/2], scal[len(scal)-1])

	// points: infinity, [k]G for k in 1..5, N-1 .. N-2, seeds; their negatives
	pts := []c14Pt{{"inf", new(big.Int), new(big.Int)}}
	for _, k := range []verifc14.Named{scal[3], scal[5], scal[7], scal[9], scal[11], {Name: "N-1", V: be(new(big.Int).Sub(N, big.NewInt(1)), 48)},
		{Name: "N-2", V: be(new(big.Int).Sub(N, big.NewInt(2)), 48)}, {Name: "s0", V: verifmc.Shake("c14-p384-pt0", 48)}, {Name: "s1", V: verifmc.Shake("c14-p384-pt1", 48)}} {
		x, y := std.ScalarBaseMult(k.V) // fixed inputs: computed by the generic big.Int code of the standard library in every configuration
		pts = append(pts, c14Pt{"[" + k.Name + "]G", x, y})
		pts = append(pts, c14Pt{"-[" + k.Name + "]G", x, new(big.Int).Sub(P, y)})
	}
	r.Set("scalars", len(scal))
	r.Set("key_scalars", len(key))
	r.Set("points", len(pts))
	rule := ("scalars: big-endian strings: empty, 0..5 (1 and 48 bytes), N, 2N, N/2 each -3..+3, FF.. of 47/48/49/56/64 bytes, SEEDS(48), SHAKE strings, every 48-byte string with limbs in {0,2^64-1}, " +
		"single-bit scalars; points: infinity, +-[k]G for k in {1..5, N-1, N-2, two SHAKE scalars} (inputs computed by crypto/elliptic's generic CurveParams code). " +
		"")

	r.NotExhaustive("declared alphabets of scalars and points")
	return &c14Env{cv: cv, P: P, scal: scal, key: key, small: small, pts: pts, rule: rule}
}

func c14cp(v *big.Int) *big.Int { return new(big.Int).Set(v) }

// TestVerifC14_p384_scalarmult: ScalarBaseMult of every scalar; ScalarMult of every point by the key scalars.
func TestVerifC14_p384_scalarmult(t *testing.T) {
	c := verifc14.Start(t, "p384_scalarmult")
	e := c14Setup(c)
	c.R.Rule(e.rule + "Cases: ScalarBaseMult per scalar; ScalarMult per point, digest over the key scalars")
	n := len(e.scal)
	verifmc.ParallelFor(n+len(e.pts), func(i int) {
		if i < n {
			k := e.scal[i]
			c.Case("ScalarBaseMult#k="+k.Name, func(d *verifc14.D) {
				x, y := e.cv.ScalarBaseMult(append([]byte{}, k.V...))
				d.Exec(1)
				c14Obs(d, "kG", e.cv, x, y)
				d.Bool("oncurve", e.cv.IsOnCurve(x, y))
			})
			return
		}
		p := e.pts[i-n]
		c.Case("ScalarMult#P="+p.name, func(d *verifc14.D) {
			for _, k := range e.key {
				x, y := e.cv.ScalarMult(c14cp(p.x), c14cp(p.y), append([]byte{}, k.V...))
				d.Exec(1)
				c14Obs(d, k.Name, e.cv, x, y)
			}
		})
	})
	c.Finish(100)
}

// TestVerifC14_p384_combined: CombinedMult(Q, m, n) for every point Q (not the point at infinity:
// Q is documented as a curve point) over a 10x10 grid of scalars.
func TestVerifC14_p384_combined(t *testing.T) {
	c := verifc14.Start(t, "p384_combined")
	e := c14Setup(c)
	c.R.Rule(e.rule + "Cases: CombinedMult per point Q, digest over a 10x10 grid (m, n) of {1..5, N-3, N-2, N-1, two others}")
	verifmc.ParallelFor(len(e.pts), func(i int) {
		p := e.pts[i]
		if p.name == "inf" {
			return
		}
		c.Case("CombinedMult#Q="+p.name, func(d *verifc14.D) {
			for _, m := range e.small {
				for _, n := range e.small {
					x, y := e.cv.CombinedMult(c14cp(p.x), c14cp(p.y), append([]byte{}, m.V...), append([]byte{}, n.V...))
					d.Exec(1)
					c14Obs(d, m.Name+","+n.Name, e.cv, x, y)
				}
			}
		})
	})
	c.Finish(10)
}

// TestVerifC14_p384_add: Add on all ordered pairs of points (P=Q, P=-Q and infinity included) and Double.
func TestVerifC14_p384_add(t *testing.T) {
	c := verifc14.Start(t, "p384_add")
	e := c14Setup(c)
	c.R.Rule(e.rule + "Cases: Add per point, digest over every second point; Double per point")
	verifmc.ParallelFor(len(e.pts), func(i int) {
		p := e.pts[i]
		c.Case("Add#P="+p.name, func(d *verifc14.D) {
			for _, q := range e.pts {
				x, y := e.cv.Add(c14cp(p.x), c14cp(p.y), c14cp(q.x), c14cp(q.y))
				d.Exec(1)
				c14Obs(d, q.name, e.cv, x, y)
			}
		})
		c.Case("Double#P="+p.name, func(d *verifc14.D) {
			x, y := e.cv.Double(c14cp(p.x), c14cp(p.y))
			d.Exec(1)
			c14Obs(d, "2P", e.cv, x, y)
		})
	})
	c.Finish(30)
}

// TestVerifC14_p384_oncurve: IsOnCurve on the points, on off-curve neighbours and on coordinates outside [0, p).
func TestVerifC14_p384_oncurve(t *testing.T) {
	c := verifc14.Start(t, "p384_oncurve")
	e := c14Setup(c)
	c.R.Rule(e.rule + "Cases: IsOnCurve of (x,y), (x+1,y), (x,y+1) per point; IsOnCurve-outofrange of (x+p,y), (x,y-p), (x+2p,y+p) per point")
	verifmc.ParallelFor(len(e.pts), func(i int) {
		p := e.pts[i]
		c.Case("IsOnCurve#P="+p.name, func(d *verifc14.D) {
			d.Exec(3)
			d.Bool("P", e.cv.IsOnCurve(c14cp(p.x), c14cp(p.y)))
			d.Bool("x+1", e.cv.IsOnCurve(new(big.Int).Add(p.x, big.NewInt(1)), c14cp(p.y)))
			d.Bool("y+1", e.cv.IsOnCurve(c14cp(p.x), new(big.Int).Add(p.y, big.NewInt(1))))
		})
		c.Case("IsOnCurve-outofrange#P="+p.name, func(d *verifc14.D) {
			d.Exec(3)
			d.Bool("x+p", e.cv.IsOnCurve(new(big.Int).Add(p.x, e.P), c14cp(p.y)))
			d.Bool("y-p", e.cv.IsOnCurve(c14cp(p.x), new(big.Int).Sub(p.y, e.P)))
			twoP := new(big.Int).Lsh(e.P, 1)
			d.Bool("x+2p,y+p", e.cv.IsOnCurve(new(big.Int).Add(p.x, twoP), new(big.Int).Add(p.y, e.P)))
		})
	})
	c.Finish(30)
}
