//go:build verif && !purego && (amd64 || arm64)

package p384

// C12: fp384Cmov (conditional move, selectors 0 and 1; the assembly moves for every non-zero selector).
// Self-contained apart from the internals-free helpers file; unexported identifiers named here: fp384, fp384Cmov.

import (
	"math/big"
	"testing"

	"github.com/cloudflare/circl/internal/verifmc"
	bf "github.com/cloudflare/circl/internal/verifref/bigfield"
)

func TestVerifC12_fp384cmov(t *testing.T) {
	r, redOps, _ := c12Begin(t, "fp384cmov")
	defer r.Finish()
	f := bf.ByteField[fp384]("C12", "p384.fp", bf.P384, 48, func(e *fp384) []byte { return e[:] }, 384, bf.Pseudo("fp384-junk", 0, bf.P384), verifmc.ParallelFor)
	small := f.Prepare("k", bf.Thin(redOps, r.Pick(40, 120)))
	f.CheckCmov(r, "fp384Cmov", func(x, y bf.Elem, b int) { fp384Cmov(x.(*fp384), y.(*fp384), b) }, []int{0, 1}, small, small)
	for i := 0; i < small.Len(); i++ {
		r.Distinct("cmov", i)
	}
	r.RequireCounter("p384.fp.fp384Cmov", 3000)
	_ = big.NewInt
}
