//go:build verif

package p384

// C14ReadBackend is installed by the read-out file that matches the build (zz_verif_c14_be_*_test.go). It stays
// nil when that file does not build against the tree under test (dispatch variable renamed): the C14 transcript
// units, which live in the external test package and use the exported API only, then record
// "dispatch not observed" and still run. This file names no unexported identifier of the package.
var C14ReadBackend func() string
