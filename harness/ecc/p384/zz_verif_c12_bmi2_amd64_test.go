//go:build verif && !purego && amd64

package p384

func hasBMI2Verif() bool { return hasBMI2 }
