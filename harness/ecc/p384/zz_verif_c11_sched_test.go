//go:build verif

package p384_test

// C11 (schedules): the P-384 curve object (a package-level singleton with precomputed tables)
// used by several goroutines at once.

import (
	"math/big"
	"os"
	"testing"

	"github.com/cloudflare/circl/ecc/p384"
	"github.com/cloudflare/circl/internal/verifmc"
	"github.com/cloudflare/circl/internal/verifmc/sched"
)

func c11P384Scenarios() []sched.Scenario {
	c := p384.P384()
	enc := func(x, y *big.Int) []byte {
		return append(x.FillBytes(make([]byte, 48)), y.FillBytes(make([]byte, 48))...)
	}
	fresh := func() interface{} { return nil }
	comb := func(label string) func(interface{}) interface{} {
		return func(interface{}) interface{} {
			qx, qy := c.ScalarBaseMult(verifmc.Shake("c11-p384-q-"+label, 48))
			// scalars with many negative and positive w-NAF digits
			m := verifmc.Shake("c11-p384-m-"+label, 48)
			n := verifmc.Shake("c11-p384-n-"+label, 48)
			x, y := c.CombinedMult(qx, qy, m, n)
			return enc(x, y)
		}
	}
	base := func(label string) func(interface{}) interface{} {
		return func(interface{}) interface{} {
			x, y := c.ScalarBaseMult(verifmc.Shake("c11-p384-b-"+label, 48))
			return enc(x, y)
		}
	}
	mult := func(label string) func(interface{}) interface{} {
		return func(interface{}) interface{} {
			gx, gy := c.Params().Gx, c.Params().Gy
			x, y := c.ScalarMult(gx, gy, verifmc.Shake("c11-p384-s-"+label, 48))
			return enc(x, y)
		}
	}
	return []sched.Scenario{
		{Cost: 30, Name: "p384/CombinedMult||CombinedMult", Setup: fresh, Threads: []func(interface{}) interface{}{comb("a"), comb("b")}},
		{Cost: 30, Name: "p384/CombinedMult||ScalarBaseMult||ScalarMult", Setup: fresh, Threads: []func(interface{}) interface{}{comb("c"), base("d"), mult("e")}},
	}
}

func TestVerifC11_sched_p384(t *testing.T) {
	if os.Getenv("VERIF_CONFIG") != "sched" {
		t.Skip("runs only under the instrumented configuration")
	}
	r := verifmc.Start(t, "C11", "sched_p384")
	defer r.Finish()
	r.Rule("every explored schedule of 2-3 scalar multiplications on the shared P-384 curve object and its precomputed tables; non-trivial = distinct scenario")
	sched.RunScenarios(r, c11P384Scenarios(), 2)
}

func TestVerifC11_race_p384(t *testing.T) {
	if os.Getenv("VERIF_CONFIG") != "race" {
		t.Skip("runs only under -race")
	}
	r := verifmc.Start(t, "C11", "race_p384")
	defer r.Finish()
	r.Rule("same scenario bodies on free-running goroutines under the race detector")
	sched.FreeRun(r, c11P384Scenarios(), r.Pick(200, 1000))
}
