//go:build verif && amd64 && !purego

package p384

// C12: read-out of the multiplication back-end flag (evidence only). Unexported identifier named here: hasBMI2.
// If it disappears this file drops out and the units report no "backend" entry.

func init() {
	c12Backend = func() string {
		if hasBMI2 {
			return "mulBMI2"
		}
		return "legacy mul"
	}
}
