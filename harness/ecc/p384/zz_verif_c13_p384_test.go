//go:build verif

package p384_test

// C13 / P-384: Add, Double, ScalarMult, ScalarBaseMult, CombinedMult of
// ecc/p384 (optimised back-end, or crypto/elliptic under purego) against the
// affine big.Int model ref/wcurve, with crypto/elliptic (nistec) as a second
// oracle that must agree with the model before a verdict is given.

import (
	"crypto/elliptic"
	"fmt"
	"math/big"
	"testing"

	"github.com/cloudflare/circl/ecc/p384"
	"github.com/cloudflare/circl/internal/verifmc"
	"github.com/cloudflare/circl/internal/verifref/curvealpha"
	"github.com/cloudflare/circl/internal/verifref/wcurve"
)

type c13pt struct {
	name string
	log  *big.Int
	x, y *big.Int // (0,0) = identity, the package's convention
}

func c13xy(P wcurve.Point) (x, y *big.Int) {
	if P.Inf {
		return new(big.Int), new(big.Int)
	}
	return new(big.Int).Set(P.X.A), new(big.Int).Set(P.Y.A)
}

func c13same(P wcurve.Point, x, y *big.Int) bool {
	if x == nil || y == nil {
		return false
	}
	px, py := c13xy(P)
	return px.Cmp(x) == 0 && py.Cmp(y) == 0
}

func c13rel(m, n, N *big.Int) string {
	mm, nn := new(big.Int).Mod(m, N), new(big.Int).Mod(n, N)
	switch {
	case mm.Cmp(nn) == 0:
		return "m=n"
	case new(big.Int).Mod(new(big.Int).Add(mm, nn), N).Sign() == 0:
		return "m=-n"
	}
	return "m,n unrelated"
}

func TestVerifC13_p384(t *testing.T) {
	r := verifmc.Start(t, "C13", "p384")
	defer r.Finish()
	r.Rule("full products over the scalar alphabet SC (curvealpha.Scalars: small values, 2^k+-1, (n+-1)/2, n-3..n+3, multiples of n, maximum, bit patterns, SHAKE values; 48-byte big-endian, plus 64-byte wide values) " +
		"and the point alphabet PT = {O, +-kG small k, [(n+-1)/2]G, +-[s]G}: Add on PT x PT, Double on PT, ScalarMult on SC x PT, ScalarBaseMult on SC, " +
		"CombinedMult on SCc x SCc x Q (quick: core scalars; thorough: SC x SC x PT); IsAtInfinity/IsOnCurve are queried on every freshly returned result and each result is fed back into one more Add (result+G); a case is non-trivial/distinct = distinct (operation, operand names)")
	lib := p384.P384()
	ref := wcurve.P384()
	std := elliptic.P384()
	N := ref.N

	sc := curvealpha.Scalars(N, 384, r.Seed())
	wide := curvealpha.Core(curvealpha.Scalars(N, 512, 0))
	var wideOnly []curvealpha.Scalar
	for _, s := range wide {
		if s.V.BitLen() > 384 {
			wideOnly = append(wideOnly, s)
		}
	}
	logs := curvealpha.PointLogs(N)
	pts := make([]c13pt, len(logs))
	for i, a := range logs {
		x, y := c13xy(ref.BaseMult(a.V))
		pts[i] = c13pt{a.Name, a.V, x, y}
	}
	r.Set("scalars", len(sc))
	r.Set("wide_scalars", len(wideOnly))
	r.Set("points", len(pts))
	r.State(len(pts))
	var scNames []string
	for _, s := range sc {
		scNames = append(scNames, s.Name)
	}
	r.Set("scalar_alphabet", scNames)

	enc := func(s *big.Int, n int) []byte { return s.FillBytes(make([]byte, n)) }
	bad := func(op, class, caseID, what string, payload interface{}) {
		r.Violation("C13|p384."+op+"|"+curvealpha.CoarseKey(class), caseID, what, payload)
	}
	// oracle: model result, cross-checked with nistec where the operation exists there
	type res struct{ x, y *big.Int }
	call := func(op, caseID string, f func() (x, y *big.Int)) (res, bool) {
		var out res
		if p, what := verifmc.Try(func() { out.x, out.y = f() }); p {
			bad(op, "panic:"+verifmc.PanicClass(what), caseID, what, nil)
			return out, false
		}
		return out, true
	}

	// preds queries the package's predicates directly on the freshly returned
	// coordinates and feeds the result back into one more operation.
	G := ref.G
	preds := func(op, id string, got res, want wcurve.Point) {
		kind := "non-identity"
		if want.Inf {
			kind = "identity"
			r.Count("identity_results_queried", 1)
		} else {
			r.Count("non_identity_results_queried", 1)
		}
		if got.x == nil || got.y == nil {
			return
		}
		if v := lib.IsAtInfinity(got.x, got.y); v != want.Inf {
			bad(op, "predicate:IsAtInfinity|fresh-result|"+kind, id, fmt.Sprintf("%s: IsAtInfinity(%x,%x) = %v, the reference says %v", id, got.x, got.y, v, want.Inf), nil)
		}
		if !want.Inf && !lib.IsOnCurve(got.x, got.y) {
			bad(op, "predicate:IsOnCurve|fresh-result|"+kind, id, fmt.Sprintf("%s: IsOnCurve(%x,%x) = false", id, got.x, got.y), nil)
		}
		// the computed value as an operand: result + G
		var nx, ny *big.Int
		if p, what := verifmc.Try(func() { nx, ny = lib.Add(got.x, got.y, G.X.A, G.Y.A) }); p {
			bad(op, "panic:"+verifmc.PanicClass(what)+"|result-as-operand|"+kind, id, what, nil)
		} else if c13same(want, got.x, got.y) && !c13same(ref.Add(want, G), nx, ny) {
			bad(op, "result-as-operand|"+kind, id, fmt.Sprintf("%s: (result)+G = (%x,%x), want %v", id, nx, ny, ref.Add(want, G)), nil)
		}
	}

	// ---- fixed base
	all := append(append([]curvealpha.Scalar{}, sc...), wideOnly...)
	verifmc.ParallelFor(len(all), func(i int) {
		s := all[i]
		id := "base/" + s.Name
		if !r.Want(id) {
			return
		}
		n := 48
		if s.V.BitLen() > 384 {
			n = 64
		}
		kb := enc(s.V, n)
		want := ref.BaseMult(s.V)
		sx, sy := std.ScalarBaseMult(kb)
		if !c13same(want, sx, sy) {
			t.Errorf("oracles disagree on [%s]G", s.Name)
			return
		}
		got, ok := call("ScalarBaseMult", id, func() (x, y *big.Int) { return lib.ScalarBaseMult(kb) })
		if ok {
			preds("ScalarBaseMult", id, got, want)
		}
		r.Eval(1)
		r.Transition(1)
		r.Distinct("base", s.Name)
		if s.V.Cmp(N) >= 0 {
			r.Count("scalar_ge_order", 1)
		}
		if want.Inf {
			r.Count("result_identity", 1)
		}
		if ok && !c13same(want, got.x, got.y) {
			bad("ScalarBaseMult", "wrong-result|k="+s.Name, id, fmt.Sprintf("[%s]G: got (%x,%x) want %v", s.Name, got.x, got.y, want),
				map[string]string{"k": verifmc.FullHex(kb)})
		}
		// minimal-length encoding of the same scalar (leading zero bytes stripped)
		if mb := s.V.Bytes(); len(mb) != n {
			got, ok := call("ScalarBaseMult", id+"/min", func() (x, y *big.Int) { return lib.ScalarBaseMult(mb) })
			if ok {
				preds("ScalarBaseMult", id+"/min", got, want)
			}
			r.Eval(1)
			if ok && !c13same(want, got.x, got.y) {
				bad("ScalarBaseMult", "wrong-result|short-encoding|k="+s.Name, id+"/min", fmt.Sprintf("[%s]G with %d-byte scalar: got (%x,%x) want %v", s.Name, len(mb), got.x, got.y, want),
					map[string]string{"k": verifmc.FullHex(mb)})
			}
		}
	})
	r.Sample(map[string]string{"op": "ScalarBaseMult", "k": sc[len(sc)/2].Name, "k_hex": sc[len(sc)/2].V.Text(16)})

	// ---- variable base: SC x PT
	verifmc.ParallelFor(len(all)*len(pts), func(idx int) {
		s, P := all[idx/len(pts)], pts[idx%len(pts)]
		id := "mult/" + s.Name + "/" + P.name
		if !r.Want(id) {
			return
		}
		n := 48
		if s.V.BitLen() > 384 {
			n = 64
		}
		kb := enc(s.V, n)
		want := ref.BaseMult(new(big.Int).Mul(s.V, P.log))
		sx, sy := std.ScalarMult(P.x, P.y, kb)
		if !c13same(want, sx, sy) {
			t.Errorf("oracles disagree on [%s]%s", s.Name, P.name)
			return
		}
		got, ok := call("ScalarMult", id, func() (x, y *big.Int) { return lib.ScalarMult(P.x, P.y, kb) })
		if ok {
			preds("ScalarMult", id, got, want)
		}
		r.Eval(1)
		r.Transition(1)
		r.Distinct("mult", s.Name, P.name)
		if want.Inf {
			r.Count("result_identity", 1)
		}
		if s.V.Bit(0) == 0 {
			r.Count("even_scalar", 1)
		}
		if ok && !c13same(want, got.x, got.y) {
			bad("ScalarMult", "wrong-result|k="+s.Name+"|P="+P.name, id, fmt.Sprintf("[%s]%s: got (%x,%x) want %v", s.Name, P.name, got.x, got.y, want),
				map[string]string{"k": verifmc.FullHex(kb), "Px": P.x.Text(16), "Py": P.y.Text(16)})
		}
	})
	r.Sample(map[string]string{"op": "ScalarMult", "k": "n-1", "k_hex": new(big.Int).Sub(N, big.NewInt(1)).Text(16), "P": pts[len(pts)-1].name, "Px": pts[len(pts)-1].x.Text(16), "Py": pts[len(pts)-1].y.Text(16)})

	// ---- Add on PT x PT, Double on PT
	verifmc.ParallelFor(len(pts)*len(pts), func(idx int) {
		P, Q := pts[idx/len(pts)], pts[idx%len(pts)]
		id := "add/" + P.name + "/" + Q.name
		if !r.Want(id) {
			return
		}
		sum := new(big.Int).Add(P.log, Q.log)
		want := ref.BaseMult(sum)
		sx, sy := std.Add(P.x, P.y, Q.x, Q.y)
		if !c13same(want, sx, sy) || !ref.Equal(want, ref.Add(ref.BaseMult(P.log), ref.BaseMult(Q.log))) {
			t.Errorf("oracles disagree on %s + %s", P.name, Q.name)
			return
		}
		got, ok := call("Add", id, func() (x, y *big.Int) { return lib.Add(P.x, P.y, Q.x, Q.y) })
		if ok {
			preds("Add", id, got, want)
		}
		r.Eval(1)
		r.Transition(1)
		r.Distinct("add", P.name, Q.name)
		switch {
		case P.log.Sign() == 0 || Q.log.Sign() == 0:
			r.Count("add_with_identity", 1)
		case P.log.Cmp(Q.log) == 0:
			r.Count("add_P_eq_Q", 1)
		case new(big.Int).Mod(sum, N).Sign() == 0:
			r.Count("add_P_eq_negQ", 1)
		}
		if ok && !c13same(want, got.x, got.y) {
			bad("Add", "wrong-result|P="+P.name+"|Q="+Q.name, id, fmt.Sprintf("%s + %s: got (%x,%x) want %v", P.name, Q.name, got.x, got.y, want),
				map[string]string{"Px": P.x.Text(16), "Py": P.y.Text(16), "Qx": Q.x.Text(16), "Qy": Q.y.Text(16)})
		}
		if ok && !want.Inf && !lib.IsOnCurve(got.x, got.y) {
			bad("Add", "off-curve|P="+P.name+"|Q="+Q.name, id, "result is not on the curve", nil)
		}
		if idx%len(pts) == 0 { // once per P: Double
			id := "dbl/" + P.name
			want := ref.BaseMult(new(big.Int).Lsh(P.log, 1))
			got, ok := call("Double", id, func() (x, y *big.Int) { return lib.Double(P.x, P.y) })
			if ok {
				preds("Double", id, got, want)
			}
			r.Eval(1)
			r.Transition(1)
			r.Distinct("dbl", P.name)
			if ok && !c13same(want, got.x, got.y) {
				bad("Double", "wrong-result|P="+P.name, id, fmt.Sprintf("2*%s: got (%x,%x) want %v", P.name, got.x, got.y, want),
					map[string]string{"Px": P.x.Text(16), "Py": P.y.Text(16)})
			}
		}
	})
	r.Sample(map[string]string{"op": "Add", "P": pts[1].name, "Q": pts[1].name})

	// ---- CombinedMult(Q, m, n) = mG + nQ
	ms, qs := curvealpha.Core(sc), []c13pt{}
	if r.Thorough() {
		ms, qs = sc, pts
	} else {
		for i, a := range logs {
			if a.Core {
				qs = append(qs, pts[i])
			}
		}
	}
	ms = append(append([]curvealpha.Scalar{}, ms...), wideOnly[0], wideOnly[len(wideOnly)-1])
	r.Set("combined_scalars", len(ms))
	r.Set("combined_points", len(qs))
	verifmc.ParallelFor(len(ms)*len(ms)*len(qs), func(idx int) {
		Q := qs[idx%len(qs)]
		m, n := ms[idx/len(qs)/len(ms)], ms[idx/len(qs)%len(ms)]
		id := "comb/" + m.Name + "/" + n.Name + "/" + Q.name
		if !r.Want(id) {
			return
		}
		if r.Expired() {
			return
		}
		size := func(v *big.Int) int {
			if v.BitLen() > 384 {
				return 64
			}
			return 48
		}
		mb, nb := enc(m.V, size(m.V)), enc(n.V, size(n.V))
		e := new(big.Int).Mul(n.V, Q.log)
		e.Add(e, m.V)
		want := ref.BaseMult(e)
		got, ok := call("CombinedMult", id, func() (x, y *big.Int) { return lib.CombinedMult(Q.x, Q.y, mb, nb) })
		if ok {
			preds("CombinedMult", id, got, want)
		}
		r.Eval(1)
		r.Transition(1)
		r.Distinct("comb", m.Name, n.Name, Q.name)
		rel := c13rel(m.V, n.V, N)
		if Q.name == "1G" && rel == "m=n" {
			r.Count("comb_Q_eq_G_and_m_eq_n", 1)
		}
		if rel == "m=-n" {
			r.Count("comb_m_eq_neg_n", 1)
		}
		if Q.log.Sign() == 0 {
			r.Count("comb_Q_identity", 1)
		}
		if want.Inf {
			r.Count("result_identity", 1)
		}
		if ok && !c13same(want, got.x, got.y) {
			bad("CombinedMult", "wrong-result|Q="+Q.name+"|"+rel, id,
				fmt.Sprintf("%s*G + %s*%s: got (%x,%x) want %v", m.Name, n.Name, Q.name, got.x, got.y, want),
				map[string]string{"m": verifmc.FullHex(mb), "n": verifmc.FullHex(nb), "Qx": Q.x.Text(16), "Qy": Q.y.Text(16)})
		}
	})
	r.Sample(map[string]string{"op": "CombinedMult", "m": "01", "n": "01", "Q": "1G", "Qx": pts[1].x.Text(16), "Qy": pts[1].y.Text(16)})

	r.RequireCounter("add_P_eq_Q", 5)
	r.RequireCounter("add_P_eq_negQ", 5)
	r.RequireCounter("add_with_identity", 10)
	r.RequireCounter("scalar_ge_order", 5)
	r.RequireCounter("even_scalar", 50)
	r.RequireCounter("result_identity", 10)
	r.RequireCounter("comb_Q_eq_G_and_m_eq_n", 5)
	r.RequireCounter("comb_m_eq_neg_n", 3)
	r.RequireCounter("comb_Q_identity", 10)
	r.RequireCounter("identity_results_queried", 100)
	r.RequireCounter("non_identity_results_queried", 1000)
}
