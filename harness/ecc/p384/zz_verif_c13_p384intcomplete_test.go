//go:build verif && ((!purego && arm64) || (!purego && amd64))

package p384

// C13 / P-384 internal representations (optimised back-end only):
// projectivePoint.completeAdd on homogeneous projective points. Unexported names
// used by this file: affinePoint{toInt, toProjective}, newAffinePoint, zeroPoint,
// projectivePoint{completeAdd, isZero, toAffine}.

import (
	"fmt"
	"testing"

	"github.com/cloudflare/circl/internal/verifmc"
	"github.com/cloudflare/circl/internal/verifref/curvealpha"
	"github.com/cloudflare/circl/internal/verifref/wcurve"
)

func TestVerifC13_p384_internal_complete(t *testing.T) {
	r := verifmc.Start(t, "C13", "p384_internal_complete")
	defer r.Finish()
	r.Rule("P-384 optimised back-end, PT x PT: projectivePoint.completeAdd (complete formula: identity operands, P=Q, P=-Q) and the chain ((P+Q)-Q)-P on projective values; " +
		"isZero() of every fresh result must agree with the reference and the affine coordinates must be the reference's; distinct = distinct operand names")
	ref := wcurve.P384()
	N := ref.N
	logs := curvealpha.PointLogs(N)
	r.State(len(logs))
	aff := func(P wcurve.Point) *affinePoint {
		if P.Inf {
			return zeroPoint()
		}
		return newAffinePoint(P.X.A, P.Y.A)
	}
	pts := make([]wcurve.Point, len(logs))
	for i, a := range logs {
		pts[i] = ref.BaseMult(a.V)
	}
	bad := func(op, class, id, what string) {
		r.Violation("C13|p384.internal."+op+"|"+curvealpha.CoarseKey(class), id, what, nil)
	}
	count := func(want wcurve.Point) string {
		if want.Inf {
			r.Count("identity_results_queried", 1)
			return "identity"
		}
		r.Count("non_identity_results_queried", 1)
		return "non-identity"
	}
	sameAff := func(A *affinePoint, want wcurve.Point) bool {
		x, y := A.toInt()
		if want.Inf {
			return x.Sign() == 0 && y.Sign() == 0
		}
		return x.Cmp(want.X.A) == 0 && y.Cmp(want.Y.A) == 0
	}
	try := func(op, id string, f func()) bool {
		if p, what := verifmc.Try(f); p {
			bad(op, "panic:"+verifmc.PanicClass(what), id, what)
			return false
		}
		return true
	}
	verifmc.ParallelFor(len(pts)*len(pts), func(idx int) {
		i, j := idx/len(pts), idx%len(pts)
		a, b := logs[i], logs[j]
		id := "int/" + a.Name + "/" + b.Name
		if !r.Want(id) {
			return
		}
		class := "P=" + a.Name + "|Q=" + b.Name
		want := ref.Add(pts[i], pts[j])
		checkH := func(cls, cid string, H *projectivePoint, want wcurve.Point) {
			kind := count(want)
			h := *H
			if v := h.isZero(); v != want.Inf {
				bad("completeAdd", "predicate:projective.isZero|fresh-result|"+kind+"|"+cls, cid, fmt.Sprintf("%s: isZero() = %v, the reference says %v", cid, v, want.Inf))
			}
			h2 := *H
			if A := h2.toAffine(); !sameAff(A, want) {
				bad("completeAdd", "wrong-result|"+cls, cid, fmt.Sprintf("%s: got %v want %v", cid, A, want))
			}
		}
		H := aff(pts[i]).toProjective()
		if try("completeAdd", id, func() { H.completeAdd(H, aff(pts[j]).toProjective()) }) {
			checkH(class, id, H, want)
			C := *H
			if try("completeAdd", id+"/chain", func() {
				C.completeAdd(&C, aff(ref.Neg(pts[j])).toProjective())
				C.completeAdd(&C, aff(ref.Neg(pts[i])).toProjective())
			}) {
				checkH("chain-to-identity|"+class, id+"/chain", &C, ref.Infinity())
			}
		}
		r.Eval(3)
		r.Transition(3)
		r.Distinct("intcomplete", a.Name, b.Name)
	})
	r.Sample(map[string]string{"op": "completeAdd", "P": logs[1].Name, "Q": logs[1].Name})
	r.RequireCounter("identity_results_queried", 200)
	r.RequireCounter("non_identity_results_queried", 200)
}
