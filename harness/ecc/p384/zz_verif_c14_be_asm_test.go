//go:build verif && amd64 && !purego

package p384

// c14Backend reads the switch arith_amd64.s tests (fp384Mul: MULX path or legacy path).
func c14Backend() string {
	if hasBMI2 {
		return "asm-bmi2"
	}
	return "asm-legacy"
}
