//go:build verif && amd64 && !purego

package p384

// Read-out of the switch arith_amd64.s tests (fp384Mul: MULX path or legacy path). Only this file names hasBMI2.
func init() {
	C14ReadBackend = func() string {
		if hasBMI2 {
			return "asm-bmi2"
		}
		return "asm-legacy"
	}
}
