//go:build verif && ((!purego && arm64) || (!purego && amd64))

package p384

// C13 / P-384 internal representations (optimised back-end only): jacobianPoint.mixadd
// and double, with the identity predicates jacobianPoint.isZero, projectivePoint.isZero
// and affinePoint.isZero asked directly about the fresh results. Unexported names
// used by this file: affinePoint{isZero, toInt, toJacobian}, newAffinePoint, zeroPoint,
// jacobianPoint{mixadd, double, isZero, toAffine, toProjective}, projectivePoint.isZero.

import (
	"fmt"
	"math/big"
	"testing"

	"github.com/cloudflare/circl/internal/verifmc"
	"github.com/cloudflare/circl/internal/verifref/curvealpha"
	"github.com/cloudflare/circl/internal/verifref/wcurve"
)

func TestVerifC13_p384_internal(t *testing.T) {
	r := verifmc.Start(t, "C13", "p384_internal")
	defer r.Finish()
	r.Rule("P-384 optimised back-end, PT x PT with PT = {O, +-kG, [(n+-1)/2]G, +-[s]G} from the reference's coordinates: jacobianPoint.mixadd (every case: identity operands, P=Q, P=-Q), " +
		"the chain ((P+Q)-Q)-P through non-trivial Z coordinates, double on PT and on its own output; for every fresh result isZero() of the Jacobian value, of its toProjective() and of its toAffine() image must agree with the reference, " +
		"and the affine coordinates must be the reference's; distinct = distinct (operation, operand names)")
	ref := wcurve.P384()
	N := ref.N
	logs := curvealpha.PointLogs(N)
	r.State(len(logs))
	aff := func(P wcurve.Point) *affinePoint {
		if P.Inf {
			return zeroPoint()
		}
		return newAffinePoint(P.X.A, P.Y.A)
	}
	pts := make([]wcurve.Point, len(logs))
	for i, a := range logs {
		pts[i] = ref.BaseMult(a.V)
	}
	bad := func(op, class, id, what string) {
		r.Violation("C13|p384.internal."+op+"|"+curvealpha.CoarseKey(class), id, what, nil)
	}
	count := func(want wcurve.Point) string {
		if want.Inf {
			r.Count("identity_results_queried", 1)
			return "identity"
		}
		r.Count("non_identity_results_queried", 1)
		return "non-identity"
	}
	sameAff := func(A *affinePoint, want wcurve.Point) bool {
		x, y := A.toInt()
		if want.Inf {
			return x.Sign() == 0 && y.Sign() == 0
		}
		return x.Cmp(want.X.A) == 0 && y.Cmp(want.Y.A) == 0
	}
	checkJ := func(op, class, id string, J *jacobianPoint, want wcurve.Point) {
		kind := count(want)
		f := *J
		if v := f.isZero(); v != want.Inf {
			bad(op, "predicate:jacobian.isZero|fresh-result|"+kind+"|"+class, id, fmt.Sprintf("%s: isZero() = %v on %v, the reference says %v", id, v, J.p2Point.String(), want.Inf))
		}
		f2 := *J
		A := f2.toAffine()
		a2 := *A
		if v := a2.isZero(); v != want.Inf {
			bad(op, "predicate:affine.isZero|fresh-result|"+kind+"|"+class, id, fmt.Sprintf("%s: toAffine().isZero() = %v, the reference says %v", id, v, want.Inf))
		}
		if !sameAff(A, want) {
			bad(op, "wrong-result|"+class, id, fmt.Sprintf("%s: got %v want %v", id, A, want))
		}
		f3 := *J
		H := f3.toProjective()
		if v := H.isZero(); v != want.Inf {
			bad(op, "predicate:projective.isZero|fresh-result|"+kind+"|"+class, id, fmt.Sprintf("%s: toProjective().isZero() = %v, the reference says %v", id, v, want.Inf))
		}
	}
	try := func(op, id string, f func()) bool {
		if p, what := verifmc.Try(f); p {
			bad(op, "panic:"+verifmc.PanicClass(what), id, what)
			return false
		}
		return true
	}
	verifmc.ParallelFor(len(pts)*len(pts), func(idx int) {
		i, j := idx/len(pts), idx%len(pts)
		a, b := logs[i], logs[j]
		id := "int/" + a.Name + "/" + b.Name
		if !r.Want(id) {
			return
		}
		class := "P=" + a.Name + "|Q=" + b.Name
		want := ref.Add(pts[i], pts[j])
		M := aff(pts[i]).toJacobian()
		if try("mixadd", id, func() { M.mixadd(M, aff(pts[j])) }) {
			checkJ("mixadd", class, id+"/mixadd", M, want)
			// chain with non-trivial Z: ((P+Q)-Q)-P
			C := *M
			if try("mixadd", id+"/chain", func() {
				C.mixadd(&C, aff(ref.Neg(pts[j])))
				checkJ("mixadd", "chain|"+class, id+"/chain1", &C, pts[i])
				C.mixadd(&C, aff(ref.Neg(pts[i])))
			}) {
				checkJ("mixadd", "chain-to-identity|"+class, id+"/chain2", &C, ref.Infinity())
			}
		}
		r.Eval(3)
		r.Transition(3)
		r.Distinct("int", a.Name, b.Name)
		if j == 0 {
			D := aff(pts[i]).toJacobian()
			if try("double", id, func() {
				D.double()
				checkJ("double", "P="+a.Name, "int/dbl/"+a.Name, D, ref.Double(pts[i]))
				D.double()
			}) {
				checkJ("double", "projective|P="+a.Name, "int/dbl2/"+a.Name, D, ref.BaseMult(new(big.Int).Lsh(a.V, 2)))
			}
			r.Eval(2)
			r.Transition(2)
		}
	})
	r.Sample(map[string]string{"op": "mixadd", "P": logs[1].Name, "Q": logs[1].Name})
	r.RequireCounter("identity_results_queried", 200)
	r.RequireCounter("non_identity_results_queried", 300)
}
