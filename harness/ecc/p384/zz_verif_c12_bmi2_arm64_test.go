//go:build verif && !purego && arm64

package p384

func hasBMI2Verif() bool { return false }
