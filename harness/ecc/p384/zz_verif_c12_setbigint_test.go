//go:build verif && !purego && (amd64 || arm64)

package p384

// C12: fp384.SetBigInt over the signed boundary ladder (0, +-1, +-(p-1), +-p, +-(p+1), +-(p+9), +-(2p-1), +-2p, +-(2^384-1), +-2^384, +-(2^384+1), +-(k*p+-1), longer values), each into a junk-filled receiver, against the Euclidean residue. Values in [p, 2^384) are kept unreduced by design, so only the residue is demanded.
// Self-contained apart from the internals-free helpers file; unexported identifiers named here: fp384, SetBigInt.

import (
	"math/big"
	"testing"

	"github.com/cloudflare/circl/internal/verifmc"
	bf "github.com/cloudflare/circl/internal/verifref/bigfield"
)

func TestVerifC12_fp384setbigint(t *testing.T) {
	r, _, _ := c12Begin(t, "fp384setbigint")
	defer r.Finish()
	f := bf.ByteField[fp384]("C12", "p384.fp", bf.P384, 48, func(e *fp384) []byte { return e[:] }, 384, bf.Pseudo("fp384-junk", 0, bf.P384), verifmc.ParallelFor)
	f.CheckFromInt(r, "SetBigInt", 384, bf.SignedLadder(bf.P384, 384, "p384.fp"), false, func(z bf.Elem, v *big.Int) bool { z.(*fp384).SetBigInt(v); return true })
	r.RequireCounter("p384.fp.SetBigInt.from-int", 80)
}
