//go:build verif && !purego && (amd64 || arm64)

package p384

// C12: the package constants p and r2 (R^2 mod p) against their definitions.
// Unexported identifiers named here: p, r2 (and the BigInt method of their type).

import (
	"math/big"
	"testing"

	bf "github.com/cloudflare/circl/internal/verifref/bigfield"
)

func TestVerifC12_p384consts(t *testing.T) {
	r, _, _ := c12Begin(t, "p384consts")
	defer r.Finish()
	r.Eval(2)
	r.Distinct("p")
	r.Distinct("r2")
	if got := p.BigInt(); got.Cmp(bf.P384) != 0 {
		r.Violation("C12|p384.p|wrong-constant|-|-", "p384.p", "package p = "+got.Text(16), nil)
	}
	want := new(big.Int).Mul(c12R, c12R)
	if got := r2.BigInt(); got.Cmp(want.Mod(want, bf.P384)) != 0 {
		r.Violation("C12|p384.r2|wrong-constant|-|-", "p384.r2", "package r2 = "+got.Text(16)+" is not 2^768 mod p", nil)
	}
}
