//go:build verif && !purego && (amd64 || arm64)

package p384

// C12: fp384Mul / fp384Sqr (Montgomery multiplication, BMI2 and legacy assembly paths) against math/big.
// Self-contained apart from the internals-free helpers file; unexported identifiers named here: fp384, fp384Mul, fp384Sqr.

import (
	"math/big"
	"testing"

	"github.com/cloudflare/circl/internal/verifmc"
	bf "github.com/cloudflare/circl/internal/verifref/bigfield"
)

func TestVerifC12_fp384mul(t *testing.T) {
	r, redOps, unOps := c12Begin(t, "fp384mul")
	defer r.Finish()
	f := bf.ByteField[fp384]("C12", "p384.fp", bf.P384, 48, func(e *fp384) []byte { return e[:] }, 384, bf.Pseudo("fp384-junk", 0, bf.P384), verifmc.ParallelFor)
	red, unred := f.Prepare("e", redOps), f.Prepare("u", unOps)
	mul := bf.BinOp{Name: "fp384Mul", Do: func(z, x, y bf.Elem) { fp384Mul(z.(*fp384), x.(*fp384), y.(*fp384)) }, Ref: c12Mont, Canon: true, Soft: true}
	f.CheckBin(r, mul, red, red, bf.HashPairs(red.Len()*red.Len()))
	r.Count("ordered_pairs", red.Len()*red.Len())
	// Mul with one unreduced factor (what montEncode does with SetBigInt input)
	f.CheckBin(r, mul, unred, red, false)
	f.CheckUn(r, bf.UnOp{Name: "fp384Sqr", Do: func(z, x bf.Elem) { fp384Sqr(z.(*fp384), x.(*fp384)) }, Ref: func(out, x, p *big.Int) bool { return c12Mont(out, x, x, p) }, Canon: true, Soft: true}, red, true)
	r.RequireCounter("p384.fp.fp384Mul", 100000)
}
