//go:build verif && !purego && (amd64 || arm64)

package p384

// C12: fp384Inv (addition chain on the Montgomery multiplication) against math/big.
// Self-contained apart from the internals-free helpers file; unexported identifiers named here: fp384, fp384Inv.

import (
	"math/big"
	"testing"

	"github.com/cloudflare/circl/internal/verifmc"
	bf "github.com/cloudflare/circl/internal/verifref/bigfield"
)

func TestVerifC12_fp384inv(t *testing.T) {
	r, redOps, _ := c12Begin(t, "fp384inv")
	defer r.Finish()
	f := bf.ByteField[fp384]("C12", "p384.fp", bf.P384, 48, func(e *fp384) []byte { return e[:] }, 384, bf.Pseudo("fp384-junk", 0, bf.P384), verifmc.ParallelFor)
	red := f.Prepare("e", redOps)
	f.CheckUn(r, bf.UnOp{Name: "fp384Inv", Do: func(z, x bf.Elem) { fp384Inv(z.(*fp384), x.(*fp384)) }, Ref: func(out, x, p *big.Int) bool {
		// Montgomery inverse: (x/R)^-1 * R = R^2/x
		if !bf.RefInv(out, x, p) {
			return false
		}
		out.Mul(out, c12R).Mul(out, c12R).Mod(out, p)
		return true
	}, Canon: true, Soft: true}, red, true)
	r.RequireCounter("p384.fp.fp384Inv", 500)
}
