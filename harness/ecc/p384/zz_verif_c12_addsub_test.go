//go:build verif && !purego && (amd64 || arm64)

package p384

// C12: fp384Add / fp384Sub / fp384Neg (assembly) against math/big.
// Self-contained apart from the internals-free helpers file; unexported identifiers named here: fp384, fp384Add, fp384Sub, fp384Neg.

import (
	"math/big"
	"testing"

	"github.com/cloudflare/circl/internal/verifmc"
	bf "github.com/cloudflare/circl/internal/verifref/bigfield"
)

func TestVerifC12_fp384(t *testing.T) {
	r, redOps, _ := c12Begin(t, "fp384")
	defer r.Finish()
	f := bf.ByteField[fp384]("C12", "p384.fp", bf.P384, 48, func(e *fp384) []byte { return e[:] }, 384, bf.Pseudo("fp384-junk", 0, bf.P384), verifmc.ParallelFor)
	red := f.Prepare("e", redOps)
	for _, op := range []bf.BinOp{
		{Name: "fp384Add", Do: func(z, x, y bf.Elem) { fp384Add(z.(*fp384), x.(*fp384), y.(*fp384)) }, Ref: bf.RefAdd, Canon: true, Soft: true},
		{Name: "fp384Sub", Do: func(z, x, y bf.Elem) { fp384Sub(z.(*fp384), x.(*fp384), y.(*fp384)) }, Ref: bf.RefSub, Canon: true, Soft: true},
	} {
		f.CheckBin(r, op, red, red, op.Name == "fp384Add" && bf.HashPairs(red.Len()*red.Len()))
	}
	r.Count("ordered_pairs", red.Len()*red.Len())
	f.CheckUn(r, bf.UnOp{Name: "fp384Neg", Do: func(z, x bf.Elem) { fp384Neg(z.(*fp384), x.(*fp384)) }, Ref: bf.RefNeg, Canon: true, Soft: true}, red, true)
	r.RequireCounter("p384.fp.fp384Add", 100000)
	_ = big.NewInt
}
