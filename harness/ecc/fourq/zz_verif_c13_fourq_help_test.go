//go:build verif

package fourq

// Helpers shared by the in-package C13 files of ecc/fourq. This file names NO
// unexported identifier of the package (only Point, Fq, Fp, Size, SizeFp and the
// reference models): coordinates are read as raw bytes and judged with the
// reference's own GF(p^2) arithmetic.

import (
	"fmt"
	"math/big"

	"github.com/cloudflare/circl/internal/verifmc"
	"github.com/cloudflare/circl/internal/verifref/curvealpha"
	"github.com/cloudflare/circl/internal/verifref/ecurve"
	"github.com/cloudflare/circl/internal/verifref/fpx"
)

func c13Fq(a, b *big.Int) (e Fq) {
	copy(e[0][:], fpx.ToLE(a, SizeFp))
	copy(e[1][:], fpx.ToLE(b, SizeFp))
	return
}

func c13Pt(P ecurve.Point) *Point { return &Point{X: c13Fq(P.X.A, P.X.B), Y: c13Fq(P.Y.A, P.Y.B)} }

func c13Key(k *big.Int) *[Size]byte {
	var b [Size]byte
	copy(b[:], fpx.ToLE(k, Size))
	return &b
}

// c13FqElem reads raw bytes as an element of the reference field (reduced mod p).
func c13FqElem(e *Fq) fpx.Elem {
	f := ecurve.FourQ().F
	return f.New(fpx.FromLE(e[0][:]), fpx.FromLE(e[1][:]))
}

type c13NamedPt struct {
	name string
	log  *big.Int // nil for points outside the prime-order subgroup
	p    ecurve.Point
}

// c13Points is PT = {O, +-kG, [(N+-1)/2]G, +-[s]G} plus 3 curve points outside the subgroup.
func c13Points() []c13NamedPt {
	ref := ecurve.FourQ()
	var pts []c13NamedPt
	for _, a := range curvealpha.PointLogs(ref.N) {
		pts = append(pts, c13NamedPt{a.Name, a.V, ref.BaseMult(a.V)})
	}
	n := len(pts)
	for y0 := int64(2); y0 < 64 && len(pts) < n+3; y0++ {
		P, _, ok := ref.LiftY(ref.F.Int2(y0, 1))
		if ok && !ref.IsIdentity(ref.ScalarMult(ref.N, P)) {
			pts = append(pts, c13NamedPt{fmt.Sprintf("NS(y=%d+i)", y0), nil, P})
		}
	}
	return pts
}

// c13R1Preds asks the predicates of the internal projective representation about
// a freshly computed value; fresh returns a new byte-identical copy on every
// call. Provided by zz_verif_c13_fourq_r1_test.go (the only file naming those
// predicates); nil when that file is left out.
var c13R1Preds func(r *verifmc.Run, op, class, id string, fresh func() interface{}, want ecurve.Point, payload interface{})

// c13CheckR1 judges one freshly computed extended projective point given by
// pointers to its coordinates (so that this file need not name the type).
func c13CheckR1(r *verifmc.Run, op, class, id string, fresh func() interface{}, X, Y, Z, Ta, Tb *Fq, want ecurve.Point, payload interface{}) {
	ref := ecurve.FourQ()
	f := ref.F
	bad := func(cls, what string) {
		r.Violation("C13|fourq."+op+"|"+curvealpha.CoarseKey(cls), id, what, payload)
	}
	if c13R1Preds != nil {
		c13R1Preds(r, op, class, id, fresh, want, payload)
	} else {
		r.Count("predicate_queries_unavailable", 1)
	}
	x, y, z, ta, tb := c13FqElem(X), c13FqElem(Y), c13FqElem(Z), c13FqElem(Ta), c13FqElem(Tb)
	if f.IsZero(z) {
		bad("invalid-projective|"+class, id+": z = 0")
		return
	}
	if !f.Equal(f.Mul(f.Mul(ta, tb), z), f.Mul(x, y)) {
		bad("inconsistent-T|"+class, id+": Ta*Tb*Z != X*Y")
	}
	if ax, ay := f.Div(x, z), f.Div(y, z); !f.Equal(ax, want.X) || !f.Equal(ay, want.Y) {
		bad("wrong-result|"+class, fmt.Sprintf("%s: got (%v, %v) want %v", id, ax, ay, want))
	}
}
