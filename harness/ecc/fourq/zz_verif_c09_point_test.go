//go:build verif

package fourq_test

// C09 / FourQ: Point.Unmarshal accepts only canonical 32-byte encodings of
// curve points, Marshal gives the parsed bytes back, and the decoded
// coordinates are the ones the encoding denotes. Oracle: strict decoder of
// ref/c09ref on ref/ecurve (GF((2^127-1)^2), big.Int).

import (
	"math/big"
	"testing"

	"github.com/cloudflare/circl/ecc/fourq"
	"github.com/cloudflare/circl/internal/verifmc"
	"github.com/cloudflare/circl/internal/verifref/c09ref"
	"github.com/cloudflare/circl/internal/verifref/ecurve"
	"github.com/cloudflare/circl/internal/verifref/fpx"
)

// c09FpCanon returns the 16-byte little-endian canonical form of a field element.
func c09FpCanon(e *fourq.Fp) []byte {
	p := ecurve.FourQ().F.P
	return fpx.ToLE(new(big.Int).Mod(fpx.FromLE(e[:]), p), 16)
}

func c09Neutral(P *fourq.Point) []byte {
	var out []byte
	for _, e := range []*fourq.Fp{&P.X[0], &P.X[1], &P.Y[0], &P.Y[1]} {
		out = append(out, c09FpCanon(e)...)
	}
	return out
}

func TestVerifC09_fourq(t *testing.T) {
	r := verifmc.Start(t, "C09", "fourq")
	defer r.Finish()
	r.Rule("32-byte strings: [a]G for a in {0,1,2,3,N-1,(N+1)/2,5 SHAKE values} (reference and library), all 256 single-bit flips of 4 (quick) / 11 (thorough) of them, " +
		"a cyclic part of the 392-torsion alone and added to [s0]G, raw curve points with tiny y, x=0 with the sign bit, y0 or y1 = p (the only out-of-range value) " +
		"on valid bases and as aliases of points with a zero half, bit 127 set, y without x; every curve point with a coordinate in {0,+-1,+-j,+-j*i (j<64), j+k*i (|j|,|k|<=2)} and all 392 small-order points, " +
		"built by the reference and marshalled by the library (must decode again); every case also decoded into an object that already holds the nearest valid value, and before it; distinct = distinct input bytes")
	c := ecurve.FourQ()
	cases := c09ref.FourQCases(c09ref.EdOptions{FlipBases: r.Pick(4, 11), Special: 64})
	// constructed special points (a coordinate 0, +-1, +-i, small, purely real or purely imaginary; all 392
	// small-order points), marshalled by the library from the reference's coordinates
	for _, sp := range c09ref.EdSpecial(c, 64) {
		var P fourq.Point
		copy(P.X[0][:], fpx.ToLE(sp.P.X.A, 16))
		copy(P.X[1][:], fpx.ToLE(sp.P.X.B, 16))
		copy(P.Y[0][:], fpx.ToLE(sp.P.Y.A, 16))
		copy(P.Y[1][:], fpx.ToLE(sp.P.Y.B, 16))
		var enc [32]byte
		P.Marshal(&enc)
		cases = append(cases, c09ref.Case{Name: "speciallib/" + sp.Name, Class: "special-lib", Data: c09ref.Clone(enc[:])})
	}
	for _, s := range c09ref.Scalars(c.N) {
		var k, enc [32]byte
		copy(k[:], fpx.ToLE(s.V, 32))
		var P, Q fourq.Point
		P.ScalarBaseMult(&k)
		P.Marshal(&enc)
		cases = append(cases, c09ref.Case{Name: "lib/a=" + s.Name, Class: "valid-lib", Data: c09ref.Clone(enc[:])})
		in := enc
		if !Q.Unmarshal(&in) || string(c09Neutral(&Q)) != string(c09Neutral(&P)) {
			r.Violation("C09|fourq.Point.Unmarshal|own-encoding-not-equal|valid-lib", "fourq.Point.Unmarshal|lib/a="+s.Name,
				"Unmarshal(Marshal(P)) fails or differs from P", map[string]string{"input": verifmc.FullHex(enc[:])})
		}
		r.Eval(1)
	}
	dec := make([]verifmc.DecCase, len(cases))
	bases := c09ref.Bases(cases)
	for i, cs := range cases {
		dec[i] = verifmc.DecCase{Name: cs.Name, Class: cs.Class, Data: cs.Data, Base: bases[i]}
	}
	observe := func(P *fourq.Point) verifmc.DecResult {
		var out [32]byte
		res := verifmc.DecResult{Accepted: true, Point: c09Neutral(P)}
		if !P.IsOnCurve() {
			res.Note = "accepted-value-fails-IsOnCurve"
		}
		P.Marshal(&out)
		res.Reenc = out[:]
		return res
	}
	r.CheckDecoder(verifmc.DecSpec{Entry: "fourq.Point.Unmarshal", Cases: dec, RefAll: true,
		Seq: func(first, second []byte) verifmc.DecResult {
			var b1, b2 [32]byte
			copy(b1[:], first)
			copy(b2[:], second)
			var P fourq.Point
			P.Unmarshal(&b1)
			if !P.Unmarshal(&b2) {
				return verifmc.DecResult{}
			}
			return observe(&P)
		},
		Ref: func(in []byte) verifmc.DecOracle {
			v := c09ref.FourQVerdict(in)
			return verifmc.DecOracle{Member: v.Member, Reason: v.Reason, Point: v.Point}
		},
		Lib: func(in []byte) verifmc.DecResult {
			var buf [32]byte
			copy(buf[:], in)
			var P fourq.Point
			if !P.Unmarshal(&buf) {
				return verifmc.DecResult{}
			}
			return observe(&P)
		}})
	r.RequireCounter("in:special-lib", 400)
	r.RequireCounter("reused_receiver_cases", 1000)
	r.RequireCounter("in:flip", 4*250)
	r.RequireCounter("in:torsion", 20)
	r.RequireCounter("in:alias", 4)
	r.RequireCounter("in:field-overflow", 4)
	r.RequireCounter("in:valid-lib", 11)
	r.RequireCounter("accepted", 60)
}
