//go:build verif

package fourq_test

// C14 for ecc/fourq: the exported fourq.Point API (Unmarshal, Marshal, IsOnCurve, IsIdentity, Add,
// ScalarMult, ScalarBaseMult) over fixed alphabets of encodings, points and scalars under each
// configuration. Observers: Marshal bytes, the canonical affine coordinates (the exported
// coordinate bytes reduced modulo 2^127-1 by the harness), and the predicates. Back-ends: generic Go (purego), amd64 legacy and BMI2 (MULX) paths.

import (
	"fmt"
	"math/big"
	"testing"

	"github.com/cloudflare/circl/ecc/fourq"
	"github.com/cloudflare/circl/internal/verifc14"
	"github.com/cloudflare/circl/internal/verifmc"
)

func c14Observe(d *verifc14.D, label string, P *fourq.Point) {
	Q := *P // observers reduce in place
	var enc [fourq.Size]byte
	Q.Marshal(&enc)
	d.Bytes(label+".marshal", enc[:])
	// canonical affine coordinates: the four exported 16-byte field elements reduced modulo 2^127-1 here (math/big)
	var xy []byte
	for _, e := range []*fourq.Fp{&P.X[0], &P.X[1], &P.Y[0], &P.Y[1]} {
		xy = append(xy, c14Canon(e)...)
	}
	d.Bytes(label+".xy", xy)
	Q = *P
	d.Bool(label+".oncurve", Q.IsOnCurve())
	Q = *P
	d.Bool(label+".identity", Q.IsIdentity())
}

var c14P127 = new(big.Int).Sub(new(big.Int).Lsh(big.NewInt(1), 127), big.NewInt(1))

// c14Canon: little-endian 16-byte canonical form of a (possibly unreduced) element of GF(2^127-1).
func c14Canon(e *fourq.Fp) []byte {
	be := make([]byte, fourq.SizeFp)
	for i := range be {
		be[i] = e[fourq.SizeFp-1-i]
	}
	v := new(big.Int).SetBytes(be)
	v.Mod(v, c14P127)
	out := v.FillBytes(make([]byte, fourq.SizeFp))
	for i, j := 0, len(out)-1; i < j; i, j = i+1, j-1 {
		out[i], out[j] = out[j], out[i]
	}
	return out
}

type c14Pt struct {
	name string
	P    fourq.Point
}

func c14Arr(b []byte) *[fourq.Size]byte { a := new([fourq.Size]byte); copy(a[:], b); return a }

// c14Alpha holds the alphabets shared by the three FourQ units.
type c14Alpha struct {
	encs, scal, keyScal, three []verifc14.Named
}

func c14Alphabets(r *verifmc.Run) *c14Alpha {
	m1, b63, b62 := ^uint64(0), uint64(1)<<63, uint64(1)<<62
	al := &c14Alpha{}
	// encodings: y = y0 + y1*i as four limbs, the top bit of limb 3 is the sign of x
	seenE := map[string]bool{}
	addE := func(name string, b []byte) {
		if !seenE[string(b)] {
			seenE[string(b)] = true
			al.encs = append(al.encs, verifc14.Named{Name: name, V: b})
		}
	}
	encLimbs := []uint64{0, 1, 2, b62, b63 - 1, b63, m1}
	for i, b := range verifc14.LimbProduct(4, encLimbs) {
		addE(fmt.Sprintf("limbs%d", i), b)
	}
	for i, b := range verifc14.OneLimbAway(4, []uint64{3, 1<<32 - 1, 1 << 32, b62 - 1, b62 + 1, b63 - 2, b63 + 1, m1 - 1}) {
		addE(fmt.Sprintf("away%d", i), b)
	}
	for i, b := range verifc14.Pseudo("fourq-enc", r.Pick(64, 512), fourq.Size) {
		addE(fmt.Sprintf("pseudo%d", i), b)
	}
	// scalars
	order := fourq.Params().N.FillBytes(make([]byte, fourq.Size)) // exported curve parameter
	for i, j := 0, len(order)-1; i < j; i, j = i+1, j-1 {
		order[i], order[j] = order[j], order[i]
	}
	seenS := map[string]bool{}
	addS := func(name string, b []byte) {
		if !seenS[string(b)] {
			seenS[string(b)] = true
			al.scal = append(al.scal, verifc14.Named{Name: name, V: b})
		}
	}
	for k := -3; k <= 3; k++ {
		addS(fmt.Sprintf("N%+d", k), verifc14.AddSmall(order, k))
		addS(fmt.Sprintf("0%+d", k), verifc14.AddSmall(make([]byte, fourq.Size), k))
	}
	for i, s := range verifmc.Seeds(fourq.Size, r.Seed()) {
		addS(fmt.Sprintf("seed%d", i), s)
	}
	for i, b := range verifc14.LimbProduct(4, verifc14.LimbEdge) {
		addS(fmt.Sprintf("limbs%d", i), b)
	}
	for i, b := range verifc14.SingleBits(fourq.Size) {
		addS(fmt.Sprintf("bit%d", i), b)
	}
	for i, b := range verifc14.Pseudo("fourq-scalar", r.Pick(8, 64), fourq.Size) {
		addS(fmt.Sprintf("pseudo%d", i), b)
	}
	al.keyScal = append(append([]verifc14.Named{}, al.scal[:14]...), verifc14.Thin(al.scal[14:], r.Pick(24, 96))...)
	al.three = []verifc14.Named{al.scal[0], al.scal[len(al.scal)-1], al.scal[len(al.scal)/2]}
	r.Set("encodings", len(al.encs))
	r.Set("scalars", len(al.scal))
	r.Set("key_scalars", len(al.keyScal))
	return al
}

const c14Rule = "encodings: every 32-byte string with limbs in {0,1,2,2^62,2^63-1,2^63,2^64-1} (2401), one limb away from 00../FF.. over 8 more limb values, SHAKE strings; " +
	"scalars: 0 and N each -3..+3, SEEDS(32), every string with limbs in {0,1,2^63,2^64-1}, all 256 single-bit scalars, SHAKE strings; "

// TestVerifC14_fourq_unmarshal: Unmarshal of every encoding; for accepted ones re-Marshal, coordinates,
// Add with itself and with G, ScalarMult by three scalars.
func TestVerifC14_fourq_unmarshal(t *testing.T) {
	c := verifc14.Start(t, "fourq_unmarshal")
	c.BackendOptional("ecc/fourq.hasBMI2", fourq.C14ReadBackend, verifc14.Bmi2Sel)
	r := c.R
	al := c14Alphabets(r)
	r.Rule(c14Rule + "a case = Unmarshal of one encoding: ok flag, input buffer afterwards and, when accepted, Marshal, canonical coordinates, predicates of P, P+P, P+G and [k]P for three scalars")
	r.NotExhaustive("declared alphabet of encodings")
	var G fourq.Point
	G.SetGenerator()
	verifmc.ParallelFor(len(al.encs), func(i int) {
		e := al.encs[i]
		c.Case("Unmarshal#"+e.Name, func(d *verifc14.D) {
			in := c14Arr(e.V)
			var P fourq.Point
			ok := P.Unmarshal(in)
			d.Exec(1)
			d.Bool("ok", ok)
			d.Bytes("input-after", in[:])
			if !ok {
				r.Count("unmarshal_rejected", 1)
				return
			}
			r.Count("unmarshal_accepted", 1)
			c14Observe(d, "P", &P)
			var S fourq.Point
			Q, R := P, P
			S.Add(&Q, &R)
			c14Observe(d, "P+P", &S)
			Q, R = P, G
			S.Add(&Q, &R)
			c14Observe(d, "P+G", &S)
			for _, k := range al.three {
				Q = P
				S.ScalarMult(c14Arr(k.V), &Q)
				c14Observe(d, "["+k.Name+"]P", &S)
				d.Exec(1)
			}
			d.Exec(2)
		})
	})
	r.RequireCounter("unmarshal_accepted", 200)
	r.RequireCounter("unmarshal_rejected", 200)
	c.Finish(2000)
}

// TestVerifC14_fourq_basemult: ScalarBaseMult of every scalar.
func TestVerifC14_fourq_basemult(t *testing.T) {
	c := verifc14.Start(t, "fourq_basemult")
	c.BackendOptional("ecc/fourq.hasBMI2", fourq.C14ReadBackend, verifc14.Bmi2Sel)
	r := c.R
	al := c14Alphabets(r)
	r.Rule(c14Rule + "a case = ScalarBaseMult of one scalar: Marshal, canonical coordinates, predicates")
	r.NotExhaustive("declared alphabet of scalars")
	verifmc.ParallelFor(len(al.scal), func(i int) {
		k := al.scal[i]
		c.Case("ScalarBaseMult#k="+k.Name, func(d *verifc14.D) {
			var P fourq.Point
			P.ScalarBaseMult(c14Arr(k.V))
			d.Exec(1)
			c14Observe(d, "kG", &P)
			if P.IsIdentity() {
				r.Count("basemult_identity", 1)
			}
		})
	})
	r.RequireCounter("basemult_identity", 2) // k = 0 and k = N
	c.Finish(400)
}

// TestVerifC14_fourq_arith: ScalarMult key scalars x key points and Add on key points squared. The key
// points are G, the identity, [k]G for 12 key scalars and the points decoded from a fixed sub-list of
// encodings (each included only if this back-end accepts it; the case list is therefore itself an output).
func TestVerifC14_fourq_arith(t *testing.T) {
	c := verifc14.Start(t, "fourq_arith")
	c.BackendOptional("ecc/fourq.hasBMI2", fourq.C14ReadBackend, verifc14.Bmi2Sel)
	r := c.R
	al := c14Alphabets(r)
	r.Rule(c14Rule + "points: G, identity, [k]G for 12 key scalars, every accepted one of a fixed thinned list of encodings; cases: ScalarMult (one point, digest over all key scalars) and Add (one point, digest over all key points)")
	r.NotExhaustive("declared alphabets of scalars and points")
	var G, I fourq.Point
	G.SetGenerator()
	I.SetIdentity()
	pts := []c14Pt{{"G", G}, {"identity", I}}
	for i, k := range al.keyScal[:12] {
		var P fourq.Point
		P.ScalarBaseMult(c14Arr(k.V))
		pts = append(pts, c14Pt{fmt.Sprintf("[%s]G/%d", k.Name, i), P})
	}
	for _, e := range verifc14.Thin(al.encs, r.Pick(120, 600)) {
		var P fourq.Point
		if P.Unmarshal(c14Arr(e.V)) {
			pts = append(pts, c14Pt{"dec(" + e.Name + ")", P})
		}
	}
	r.Set("key_points", len(pts))
	verifmc.ParallelFor(len(pts), func(i int) {
		Pi := pts[i]
		c.Case(fmt.Sprintf("ScalarMult#P=%s", Pi.name), func(d *verifc14.D) {
			for _, k := range al.keyScal {
				var S fourq.Point
				Q := Pi.P
				S.ScalarMult(c14Arr(k.V), &Q)
				d.Exec(1)
				c14Observe(d, k.Name, &S)
			}
		})
		c.Case(fmt.Sprintf("Add#P=%s", Pi.name), func(d *verifc14.D) {
			for _, Qj := range pts {
				var S fourq.Point
				Q, R := Pi.P, Qj.P
				S.Add(&Q, &R)
				d.Exec(1)
				c14Observe(d, Qj.name, &S)
			}
		})
	})
	c.Finish(60)
}
