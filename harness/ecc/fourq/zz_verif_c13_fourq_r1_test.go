//go:build verif

package fourq

// C13 / FourQ internal point arithmetic: pointR1.add (projective table entry),
// mixAdd (affine table entry), double, and the predicates IsIdentity / IsOnCurve
// / isEqual of the projective representation, against ref/ecurve. Unexported
// names used by this file: pointR1{add, mixAdd, double, isEqual, IsIdentity,
// IsOnCurve, SetIdentity}, pointR2{FromR1, pointR3}, Point.toR1. Its init also
// provides c13R1Preds to zz_verif_c13_fourq_r1mult_test.go.

import (
	"fmt"
	"math/big"
	"testing"

	"github.com/cloudflare/circl/internal/verifmc"
	"github.com/cloudflare/circl/internal/verifref/curvealpha"
	"github.com/cloudflare/circl/internal/verifref/ecurve"
)

func c13ToR1(P ecurve.Point) *pointR1 {
	var R pointR1
	c13Pt(P).toR1(&R)
	return &R
}

func init() {
	c13R1Preds = func(r *verifmc.Run, op, class, id string, freshAny func() interface{}, want ecurve.Point, payload interface{}) {
		ref := ecurve.FourQ()
		toR1 := c13ToR1
		fresh := func() *pointR1 { return freshAny().(*pointR1) }
		bad := func(op, class, id, what string, payload interface{}) {
			r.Violation("C13|fourq."+op+"|"+curvealpha.CoarseKey(class), id, what, payload)
		}
		// predsR1 queries every predicate of the package DIRECTLY on byte-identical
		// copies of a freshly computed value (one copy per query, because the
		// predicates reduce their receiver in place), before anything normalises it.
		Tp := ref.BaseMult(big.NewInt(0x51ed27))
		predsR1 := func(op, class, id string, fresh func() *pointR1, want ecurve.Point, payload interface{}) {
			isID := ref.IsIdentity(want)
			kind := "non-identity"
			if isID {
				kind = "identity"
				r.Count("identity_results_queried", 1)
			} else {
				r.Count("non_identity_results_queried", 1)
			}
			fail := func(pred string, got, exp bool) {
				if got != exp {
					bad(op, "predicate:"+pred+"|fresh-result|"+kind+"|"+class, id,
						fmt.Sprintf("%s: %s = %v on the freshly computed result (raw coordinates %v), the reference says %v (result should be %v)", id, pred, got, *fresh(), exp, want), payload)
				}
			}
			fail("IsIdentity", fresh().IsIdentity(), isID)
			fail("IsOnCurve", fresh().IsOnCurve(), true)
			fail("isEqual(expected)", fresh().isEqual(toR1(want)), true)
			fail("expected.isEqual(result)", toR1(want).isEqual(fresh()), true)
			var I pointR1
			I.SetIdentity()
			fail("isEqual(SetIdentity)", fresh().isEqual(&I), isID)
			// an identity produced by arithmetic: T + (-T), left in projective form
			CI := toR1(Tp)
			var nT pointR2
			nT.FromR1(toR1(ref.Neg(Tp)))
			CI.add(&nT)
			fail("isEqual(T+(-T))", fresh().isEqual(CI), isID)
			fail("(T+(-T)).isEqual(result)", CI.isEqual(fresh()), isID)
			// the same point reached by a different route: (want - T) + T
			alt := toR1(ref.Sub(want, Tp))
			var t2 pointR2
			t2.FromR1(toR1(Tp))
			alt.add(&t2)
			fail("isEqual(other-route)", fresh().isEqual(alt), true)
			fail("isEqual(different-point)", fresh().isEqual(toR1(ref.Add(want, ref.G))), false)
			fail("isEqual(-expected)", fresh().isEqual(toR1(ref.Neg(want))), ref.Equal(want, ref.Neg(want)))
		}
		predsR1(op, class, id, fresh, want, payload)
	}
}

func TestVerifC13_fourq_r1(t *testing.T) {
	r := verifmc.Start(t, "C13", "fourq_r1")
	defer r.Finish()
	r.Rule("FourQ internal projective arithmetic on (PT+NS) x (PT+NS): pointR1.add (projective table entry), mixAdd (affine table entry), double on PT+NS and on its own output, the chain ((P+Q)-Q)-P, " +
		"and the exported Point.Add results re-read as pointR1; for every fresh result the predicates IsIdentity / IsOnCurve / isEqual (against the expected point, SetIdentity, a computed identity T+(-T), " +
		"the same point by another route, a different point, the negated point) are queried on byte-identical copies, then coordinates are judged with the reference's field arithmetic; distinct = distinct (operation, operand names)")
	ref := ecurve.FourQ()
	pts := c13Points()
	r.Set("points", len(pts))
	r.State(len(pts))
	try := func(op, id string, f func()) bool {
		if p, what := verifmc.Try(f); p {
			r.Violation("C13|fourq."+op+"|panic:"+verifmc.PanicClass(what), id, what, nil)
			return false
		}
		return true
	}
	check := func(op, class, id string, got *pointR1, want ecurve.Point) {
		c13CheckR1(r, op, class, id, func() interface{} { f := *got; return &f }, &got.X, &got.Y, &got.Z, &got.Ta, &got.Tb, want, nil)
	}
	verifmc.ParallelFor(len(pts)*len(pts), func(idx int) {
		i, j := idx/len(pts), idx%len(pts)
		a, b := pts[i], pts[j]
		id := "r1add/" + a.name + "/" + b.name
		if !r.Want(id) {
			return
		}
		class := "P=" + a.name + "|Q=" + b.name
		want := ref.Add(a.p, b.p)
		var q2, nq2, np2 pointR2
		q2.FromR1(c13ToR1(b.p))
		nq2.FromR1(c13ToR1(ref.Neg(b.p)))
		np2.FromR1(c13ToR1(ref.Neg(a.p)))
		M := c13ToR1(a.p)
		if try("mixAdd", id+"/mix", func() { M.mixAdd(&q2.pointR3) }) {
			check("mixAdd", class, id+"/mix", M, want)
		}
		A := c13ToR1(a.p)
		if try("add", id, func() { A.add(&q2) }) {
			check("add", class, id, A, want)
			C := *A
			if try("add", id+"/chain", func() { C.add(&nq2) }) {
				check("add", "chain|"+class, id+"/chain1", &C, a.p)
				if try("add", id+"/chain", func() { C.add(&np2) }) {
					check("add", "chain-to-identity|"+class, id+"/chain2", &C, ref.Identity())
				}
			}
		}
		// the exported Point.Add result, re-read in the internal representation
		var out Point
		if try("Add", id+"/pub", func() { out.Add(c13Pt(a.p), c13Pt(b.p)) }) {
			var R pointR1
			o := out
			o.toR1(&R)
			check("Add", "as-pointR1|"+class, id+"/pub", &R, want)
		}
		r.Eval(5)
		r.Transition(5)
		r.Distinct("r1add", a.name, b.name)
		switch {
		case ref.IsIdentity(a.p) || ref.IsIdentity(b.p):
			r.Count("add_with_identity", 1)
		case ref.Equal(a.p, b.p):
			r.Count("add_P_eq_Q", 1)
		case ref.IsIdentity(want):
			r.Count("add_P_eq_negQ", 1)
		}
		if j == 0 {
			D := c13ToR1(a.p)
			if try("double", "r1dbl/"+a.name, func() { D.double() }) {
				check("double", "P="+a.name, "r1dbl/"+a.name, D, ref.Double(a.p))
				if try("double", "r1dbl2/"+a.name, func() { D.double() }) {
					check("double", "projective|P="+a.name, "r1dbl2/"+a.name, D, ref.ScalarMult(big.NewInt(4), a.p))
				}
			}
			r.Eval(2)
			r.Transition(2)
			r.Distinct("r1dbl", a.name)
		}
	})
	r.Sample(map[string]string{"op": "pointR1.add", "P": pts[1].name, "Q": pts[1].name})
	r.RequireCounter("add_P_eq_Q", 5)
	r.RequireCounter("add_P_eq_negQ", 5)
	r.RequireCounter("add_with_identity", 10)
	r.RequireCounter("identity_results_queried", 300)
	r.RequireCounter("non_identity_results_queried", 1000)
}
