//go:build verif

package fourq

// C13 / FourQ: Point.Add, Point.ScalarMult (with its cofactor clearing by 392),
// Point.ScalarBaseMult, and the internal pointR1 double/add/mixAdd/
// ClearCofactor/ScalarMult, against the affine GF(p^2) model ref/ecurve.

import (
	"bytes"
	"fmt"
	"math/big"
	"testing"

	"github.com/cloudflare/circl/internal/verifmc"
	"github.com/cloudflare/circl/internal/verifref/curvealpha"
	"github.com/cloudflare/circl/internal/verifref/ecurve"
	"github.com/cloudflare/circl/internal/verifref/fpx"
)

func c13Pt(P ecurve.Point) *Point {
	var Q Point
	Q.X.setBigInt(P.X.A, P.X.B)
	Q.Y.setBigInt(P.Y.A, P.Y.B)
	return &Q
}

func c13Key(k *big.Int) *[Size]byte {
	var b [Size]byte
	copy(b[:], fpx.ToLE(k, Size))
	return &b
}

func TestVerifC13_fourq(t *testing.T) {
	r := verifmc.Start(t, "C13", "fourq")
	defer r.Finish()
	r.Rule("FourQ: points PT = {O, +-kG, [(N+-1)/2]G, +-[s]G} from the reference's coordinates plus NS = 3 curve points outside the prime-order subgroup (smallest liftable y); " +
		"Add on (PT+NS) x (PT+NS); ScalarMult(k, Q) = [392k]Q on SC x (PT+NS) with SC = curvealpha.Scalars(N, 256) as 32-byte little-endian; ScalarBaseMult on SC; " +
		"internal pointR1.ScalarMult (no cofactor) on SC x PT, ClearCofactor on PT+NS, double/mixAdd on PT; results compared as affine GF(p^2) coordinates and encodings; before that, every predicate (Point.IsIdentity/IsOnCurve, pointR1.IsIdentity/IsOnCurve/isEqual against the expected point, SetIdentity, a computed identity T+(-T), the same point by another route, a different point) is queried directly on byte-identical copies of each freshly computed result, including chains ((P+Q)-Q)-P; distinct = distinct (operation, operand names)")
	ref := ecurve.FourQ()
	N := ref.N
	prm := Params()
	d0, d1 := paramD.toBigInt()
	if prm.N.Cmp(N) != 0 || prm.P.Cmp(ref.F.P) != 0 || d0.Cmp(ref.D.A) != 0 || d1.Cmp(ref.D.B) != 0 {
		r.Violation("C13|fourq.params|differ", "params", "package constants differ from the FourQ paper", nil)
	}
	sc := curvealpha.Scalars(N, 256, r.Seed())
	logs := curvealpha.PointLogs(N)
	type pt struct {
		name string
		log  *big.Int // nil for points outside the subgroup
		p    ecurve.Point
	}
	var pts []pt
	for _, a := range logs {
		pts = append(pts, pt{a.Name, a.V, ref.BaseMult(a.V)})
	}
	nPT := len(pts)
	for y0 := int64(2); y0 < 64 && len(pts) < nPT+3; y0++ {
		P, _, ok := ref.LiftY(ref.F.Int2(y0, 1))
		if ok && !ref.IsIdentity(ref.ScalarMult(N, P)) {
			pts = append(pts, pt{fmt.Sprintf("NS(y=%d+i)", y0), nil, P})
		}
	}
	if len(pts) != nPT+3 {
		t.Fatal("could not find 3 points outside the prime-order subgroup")
	}
	r.Set("scalars", len(sc))
	r.Set("points", len(pts))
	r.State(len(pts))

	bad := func(op, class, id, what string, payload interface{}) {
		r.Violation("C13|fourq."+op+"|"+curvealpha.CoarseKey(class), id, what, payload)
	}
	same := func(x, y *Fq, want ecurve.Point) bool {
		x0, x1 := x.toBigInt()
		y0, y1 := y.toBigInt()
		return x0.Cmp(want.X.A) == 0 && x1.Cmp(want.X.B) == 0 && y0.Cmp(want.Y.A) == 0 && y1.Cmp(want.Y.B) == 0
	}
	toR1 := func(P ecurve.Point) *pointR1 {
		var R pointR1
		c13Pt(P).toR1(&R)
		return &R
	}
	// predsR1 queries every predicate of the package DIRECTLY on byte-identical
	// copies of a freshly computed value (one copy per query, because the
	// predicates reduce their receiver in place), before anything normalises it.
	Tp := ref.BaseMult(big.NewInt(0x51ed27))
	predsR1 := func(op, class, id string, fresh func() *pointR1, want ecurve.Point, payload interface{}) {
		isID := ref.IsIdentity(want)
		kind := "non-identity"
		if isID {
			kind = "identity"
			r.Count("identity_results_queried", 1)
		} else {
			r.Count("non_identity_results_queried", 1)
		}
		fail := func(pred string, got, exp bool) {
			if got != exp {
				bad(op, "predicate:"+pred+"|fresh-result|"+kind+"|"+class, id,
					fmt.Sprintf("%s: %s = %v on the freshly computed result (raw coordinates %v), the reference says %v (result should be %v)", id, pred, got, *fresh(), exp, want), payload)
			}
		}
		fail("IsIdentity", fresh().IsIdentity(), isID)
		fail("IsOnCurve", fresh().IsOnCurve(), true)
		fail("isEqual(expected)", fresh().isEqual(toR1(want)), true)
		fail("expected.isEqual(result)", toR1(want).isEqual(fresh()), true)
		var I pointR1
		I.SetIdentity()
		fail("isEqual(SetIdentity)", fresh().isEqual(&I), isID)
		// an identity produced by arithmetic: T + (-T), left in projective form
		CI := toR1(Tp)
		var nT pointR2
		nT.FromR1(toR1(ref.Neg(Tp)))
		CI.add(&nT)
		fail("isEqual(T+(-T))", fresh().isEqual(CI), isID)
		fail("(T+(-T)).isEqual(result)", CI.isEqual(fresh()), isID)
		// the same point reached by a different route: (want - T) + T
		alt := toR1(ref.Sub(want, Tp))
		var t2 pointR2
		t2.FromR1(toR1(Tp))
		alt.add(&t2)
		fail("isEqual(other-route)", fresh().isEqual(alt), true)
		fail("isEqual(different-point)", fresh().isEqual(toR1(ref.Add(want, ref.G))), false)
		fail("isEqual(-expected)", fresh().isEqual(toR1(ref.Neg(want))), ref.Equal(want, ref.Neg(want)))
	}
	check := func(op, class, id string, got *Point, want ecurve.Point, payload interface{}) {
		{
			isID := ref.IsIdentity(want)
			kind := "non-identity"
			if isID {
				kind = "identity"
			}
			f1, f2 := *got, *got
			if v := f1.IsIdentity(); v != isID {
				bad(op, "predicate:IsIdentity|fresh-result|"+kind+"|"+class, id,
					fmt.Sprintf("%s: Point.IsIdentity() = %v on the freshly computed result (raw coordinates %v), the reference says %v", id, v, *got, isID), payload)
			}
			if !f2.IsOnCurve() {
				bad(op, "predicate:IsOnCurve|fresh-result|"+kind+"|"+class, id, fmt.Sprintf("%s: Point.IsOnCurve() = false on the freshly computed result %v", id, *got), payload)
			}
			predsR1(op, class, id, func() *pointR1 { f := *got; var R pointR1; f.toR1(&R); return &R }, want, payload)
		}
		g := *got
		if !same(&g.X, &g.Y, want) {
			bad(op, "wrong-result|"+class, id, fmt.Sprintf("%s: got %v want %v", id, g, want), payload)
			return
		}
		var enc [Size]byte
		g.Marshal(&enc)
		if !bytes.Equal(enc[:], ref.MarshalFourQ(want)) {
			bad(op, "wrong-encoding|"+class, id, fmt.Sprintf("%s: encodes to %x want %x", id, enc, ref.MarshalFourQ(want)), payload)
		}
		if g.IsIdentity() != ref.IsIdentity(want) || !g.IsOnCurve() {
			bad(op, "IsIdentity/IsOnCurve|"+class, id, id+": predicate disagrees", payload)
		}
	}
	checkR1 := func(op, class, id string, got *pointR1, want ecurve.Point, payload interface{}) {
		predsR1(op, class, id, func() *pointR1 { f := *got; return &f }, want, payload)
		g := *got
		if g.Z.isZero() || !g.IsOnCurve() {
			bad(op, "invalid-projective|"+class, id, id+": z = 0 or extended coordinates inconsistent", payload)
			return
		}
		g.ToAffine()
		if !same(&g.X, &g.Y, want) {
			bad(op, "wrong-result|"+class, id, fmt.Sprintf("%s: got (%v, %v) want %v", id, g.X.String(), g.Y.String(), want), payload)
		}
	}
	try := func(op, id string, f func()) bool {
		if p, what := verifmc.Try(f); p {
			bad(op, "panic:"+verifmc.PanicClass(what), id, what, nil)
			return false
		}
		return true
	}
	var G, O Point
	G.SetGenerator()
	O.SetIdentity()
	check("SetGenerator", "G", "gen", &G, ref.G, nil)
	check("SetIdentity", "O", "id", &O, ref.Identity(), nil)
	for _, p := range pts {
		var Q Point
		enc := c13Key(fpx.FromLE(ref.MarshalFourQ(p.p)))
		if !Q.Unmarshal(enc) {
			bad("Unmarshal", "rejects-valid|P="+p.name, "dec/"+p.name, "reference encoding rejected", nil)
			continue
		}
		check("Unmarshal", "P="+p.name, "dec/"+p.name, &Q, p.p, nil)
		r.Eval(1)
	}

	// ---- Add on all pairs; internal double / mixAdd / ClearCofactor
	verifmc.ParallelFor(len(pts)*len(pts), func(idx int) {
		i, j := idx/len(pts), idx%len(pts)
		a, b := pts[i], pts[j]
		id := "add/" + a.name + "/" + b.name
		if r.Want(id) {
			want := ref.Add(a.p, b.p)
			if a.log != nil && b.log != nil && !ref.Equal(want, ref.BaseMult(new(big.Int).Add(a.log, b.log))) {
				t.Errorf("reference inconsistent on %s", id)
				return
			}
			var out Point
			if try("Add", id, func() { out.Add(c13Pt(a.p), c13Pt(b.p)) }) {
				check("Add", "P="+a.name+"|Q="+b.name, id, &out, want, nil)
			}
			// chain on computed values: ((P+Q)+(-Q))+(-P) is the identity, reached through non-normalised operands
			var c1, c2 Point
			if try("Add", id+"/chain", func() { c1.Add(&out, c13Pt(ref.Neg(b.p))); c2.Add(&c1, c13Pt(ref.Neg(a.p))) }) {
				check("Add", "chain|P="+a.name+"|Q="+b.name, id+"/chain1", &c1, a.p, nil)
				check("Add", "chain-to-identity|P="+a.name+"|Q="+b.name, id+"/chain2", &c2, ref.Identity(), nil)
			}
			// internal: projective accumulator + affine table entry
			R := toR1(a.p)
			var q2 pointR2
			q2.FromR1(toR1(b.p))
			if try("mixAdd", id+"/mix", func() { R.mixAdd(&q2.pointR3) }) {
				checkR1("mixAdd", "P="+a.name+"|Q="+b.name, id+"/mix", R, want, nil)
			}
			r.Eval(2)
			r.Transition(2)
			r.Distinct("add", a.name, b.name)
			switch {
			case ref.IsIdentity(a.p) || ref.IsIdentity(b.p):
				r.Count("add_with_identity", 1)
			case ref.Equal(a.p, b.p):
				r.Count("add_P_eq_Q", 1)
			case ref.IsIdentity(want):
				r.Count("add_P_eq_negQ", 1)
			}
		}
		if j == 0 && r.Want("dbl/"+a.name) {
			D := toR1(a.p)
			if try("double", "dbl/"+a.name, func() { D.double() }) {
				checkR1("double", "P="+a.name, "dbl/"+a.name, D, ref.Double(a.p), nil)
			}
			C := toR1(a.p)
			if try("ClearCofactor", "cof/"+a.name, func() { C.ClearCofactor() }) {
				checkR1("ClearCofactor", "P="+a.name, "cof/"+a.name, C, ref.ScalarMult(big.NewInt(392), a.p), nil)
			}
			r.Eval(2)
			r.Transition(2)
			r.Distinct("dbl", a.name)
			r.Distinct("cof", a.name)
		}
	})
	r.Sample(map[string]string{"op": "Add", "P": pts[1].name, "Q": pts[1].name})

	// ---- ScalarMult (with cofactor) on SC x all points; internal ScalarMult on SC x PT; ScalarBaseMult on SC
	verifmc.ParallelFor(len(sc)*len(pts), func(idx int) {
		s, i := sc[idx/len(pts)], idx%len(pts)
		a := pts[i]
		id := "mult/" + s.Name + "/" + a.name
		if !r.Want(id) {
			return
		}
		payload := map[string]string{"k_le": verifmc.FullHex(fpx.ToLE(s.V, Size)), "P": verifmc.FullHex(ref.MarshalFourQ(a.p))}
		k392 := new(big.Int).Mul(s.V, big.NewInt(392))
		var want ecurve.Point
		if a.log != nil {
			want = ref.BaseMult(new(big.Int).Mul(k392, a.log))
		} else {
			want = ref.ScalarMult(k392, a.p)
			r.Count("mult_outside_subgroup", 1)
		}
		var out Point
		k := c13Key(s.V)
		if try("ScalarMult", id, func() { out.ScalarMult(k, c13Pt(a.p)) }) {
			check("ScalarMult", "k="+s.Name+"|P="+a.name, id, &out, want, payload)
		}
		r.Eval(1)
		r.Transition(1)
		r.Distinct("mult", s.Name, a.name)
		if s.V.Cmp(N) >= 0 {
			r.Count("scalar_ge_order", 1)
		}
		if s.V.Bit(0) == 0 {
			r.Count("even_scalar", 1)
		}
		if ref.IsIdentity(want) {
			r.Count("result_identity", 1)
		}
		if a.log != nil {
			var R pointR1
			if try("pointR1.ScalarMult", id+"/r1", func() { R.ScalarMult(c13Key(s.V), toR1(a.p)) }) {
				checkR1("pointR1.ScalarMult", "k="+s.Name+"|P="+a.name, id+"/r1", &R, ref.BaseMult(new(big.Int).Mul(s.V, a.log)), payload)
			}
			r.Eval(1)
			r.Transition(1)
		}
		if i == 0 {
			id := "base/" + s.Name
			var out Point
			if try("ScalarBaseMult", id, func() { out.ScalarBaseMult(c13Key(s.V)) }) {
				check("ScalarBaseMult", "k="+s.Name, id, &out, ref.BaseMult(s.V), payload)
			}
			r.Eval(1)
			r.Transition(1)
			r.Distinct("base", s.Name)
		}
	})
	r.Sample(map[string]string{"op": "ScalarMult", "k": "N-1", "k_le": verifmc.FullHex(fpx.ToLE(new(big.Int).Sub(N, big.NewInt(1)), Size)), "P": pts[len(pts)-1].name, "P_enc": verifmc.FullHex(ref.MarshalFourQ(pts[len(pts)-1].p))})

	r.RequireCounter("add_P_eq_Q", 5)
	r.RequireCounter("add_P_eq_negQ", 5)
	r.RequireCounter("add_with_identity", 10)
	r.RequireCounter("scalar_ge_order", 5)
	r.RequireCounter("even_scalar", 50)
	r.RequireCounter("result_identity", 10)
	r.RequireCounter("mult_outside_subgroup", 50)
	r.RequireCounter("identity_results_queried", 300)
	r.RequireCounter("non_identity_results_queried", 1000)
}
