//go:build verif

package fourq_test

// C13 / FourQ, exported API only: Point.Add, Point.ScalarMult (with its cofactor
// clearing by 392), Point.ScalarBaseMult, IsIdentity, IsOnCurve, Marshal,
// Unmarshal, SetGenerator, SetIdentity, Params against the affine GF(p^2) model
// ref/ecurve. External test package: it cannot name anything unexported.
// (The internal pointR1 routines are exercised by zz_verif_c13_fourq_r1*_test.go.)

import (
	"bytes"
	"fmt"
	"math/big"
	"testing"

	"github.com/cloudflare/circl/ecc/fourq"
	"github.com/cloudflare/circl/internal/verifmc"
	"github.com/cloudflare/circl/internal/verifref/curvealpha"
	"github.com/cloudflare/circl/internal/verifref/ecurve"
	"github.com/cloudflare/circl/internal/verifref/fpx"
)

func c13Fq(a, b *big.Int) (e fourq.Fq) {
	copy(e[0][:], fpx.ToLE(a, fourq.SizeFp))
	copy(e[1][:], fpx.ToLE(b, fourq.SizeFp))
	return
}

func c13Pt(P ecurve.Point) *fourq.Point {
	return &fourq.Point{X: c13Fq(P.X.A, P.X.B), Y: c13Fq(P.Y.A, P.Y.B)}
}

// c13FqInts reads an element as integers reduced mod p = 2^127-1 (the raw bytes may hold p itself).
func c13FqInts(e *fourq.Fq, p *big.Int) (a, b *big.Int) {
	return new(big.Int).Mod(fpx.FromLE(e[0][:]), p), new(big.Int).Mod(fpx.FromLE(e[1][:]), p)
}

func c13Key(k *big.Int) *[fourq.Size]byte {
	var b [fourq.Size]byte
	copy(b[:], fpx.ToLE(k, fourq.Size))
	return &b
}

func TestVerifC13_fourq(t *testing.T) {
	r := verifmc.Start(t, "C13", "fourq")
	defer r.Finish()
	r.Rule("FourQ exported API: points PT = {O, +-kG, [(N+-1)/2]G, +-[s]G} from the reference's coordinates plus NS = 3 curve points outside the prime-order subgroup (smallest liftable y); " +
		"Add on (PT+NS) x (PT+NS) with the chain ((P+Q)-Q)-P; ScalarMult(k, Q) = [392k]Q on SC x (PT+NS) with SC = curvealpha.Scalars(N, 256) as 32-byte little-endian; ScalarBaseMult on SC; " +
		"Point.IsIdentity and Point.IsOnCurve are queried directly on byte-identical copies of each freshly computed result (before anything reduces its coordinates), then results are compared as affine GF(p^2) coordinates and encodings; " +
		"distinct = distinct (operation, operand names)")
	ref := ecurve.FourQ()
	N := ref.N
	p := ref.F.P
	if prm := fourq.Params(); prm.N.Cmp(N) != 0 || prm.P.Cmp(p) != 0 {
		r.Violation("C13|fourq.params|differ", "params", "Params() differs from the FourQ paper", nil)
	}
	sc := curvealpha.Scalars(N, 256, r.Seed())
	logs := curvealpha.PointLogs(N)
	type pt struct {
		name string
		log  *big.Int // nil for points outside the subgroup
		p    ecurve.Point
	}
	var pts []pt
	for _, a := range logs {
		pts = append(pts, pt{a.Name, a.V, ref.BaseMult(a.V)})
	}
	nPT := len(pts)
	for y0 := int64(2); y0 < 64 && len(pts) < nPT+3; y0++ {
		P, _, ok := ref.LiftY(ref.F.Int2(y0, 1))
		if ok && !ref.IsIdentity(ref.ScalarMult(N, P)) {
			pts = append(pts, pt{fmt.Sprintf("NS(y=%d+i)", y0), nil, P})
		}
	}
	if len(pts) != nPT+3 {
		t.Fatal("could not find 3 points outside the prime-order subgroup")
	}
	r.Set("scalars", len(sc))
	r.Set("points", len(pts))
	r.State(len(pts))

	bad := func(op, class, id, what string, payload interface{}) {
		r.Violation("C13|fourq."+op+"|"+curvealpha.CoarseKey(class), id, what, payload)
	}
	check := func(op, class, id string, got *fourq.Point, want ecurve.Point, payload interface{}) {
		isID := ref.IsIdentity(want)
		kind := "non-identity"
		if isID {
			kind = "identity"
			r.Count("identity_results_queried", 1)
		} else {
			r.Count("non_identity_results_queried", 1)
		}
		f1, f2 := *got, *got
		if v := f1.IsIdentity(); v != isID {
			bad(op, "predicate:IsIdentity|fresh-result|"+kind+"|"+class, id,
				fmt.Sprintf("%s: Point.IsIdentity() = %v on the freshly computed result (raw coordinates %v), the reference says %v", id, v, *got, isID), payload)
		}
		if !f2.IsOnCurve() {
			bad(op, "predicate:IsOnCurve|fresh-result|"+kind+"|"+class, id, fmt.Sprintf("%s: Point.IsOnCurve() = false on the freshly computed result %v", id, *got), payload)
		}
		g := *got
		x0, x1 := c13FqInts(&g.X, p)
		y0, y1 := c13FqInts(&g.Y, p)
		if x0.Cmp(want.X.A) != 0 || x1.Cmp(want.X.B) != 0 || y0.Cmp(want.Y.A) != 0 || y1.Cmp(want.Y.B) != 0 {
			bad(op, "wrong-result|"+class, id, fmt.Sprintf("%s: got %v want %v", id, g, want), payload)
			return
		}
		var enc [fourq.Size]byte
		g.Marshal(&enc)
		if !bytes.Equal(enc[:], ref.MarshalFourQ(want)) {
			bad(op, "wrong-encoding|"+class, id, fmt.Sprintf("%s: encodes to %x want %x", id, enc, ref.MarshalFourQ(want)), payload)
		}
		if g.IsIdentity() != isID || !g.IsOnCurve() {
			bad(op, "IsIdentity/IsOnCurve|after-Marshal|"+class, id, id+": predicate disagrees after Marshal", payload)
		}
	}
	try := func(op, id string, f func()) bool {
		if p, what := verifmc.Try(f); p {
			bad(op, "panic:"+verifmc.PanicClass(what), id, what, nil)
			return false
		}
		return true
	}

	var G, O fourq.Point
	G.SetGenerator()
	O.SetIdentity()
	check("SetGenerator", "G", "gen", &G, ref.G, nil)
	check("SetIdentity", "O", "id", &O, ref.Identity(), nil)
	for _, p := range pts {
		var Q fourq.Point
		enc := c13Key(fpx.FromLE(ref.MarshalFourQ(p.p)))
		if !Q.Unmarshal(enc) {
			bad("Unmarshal", "rejects-valid|P="+p.name, "dec/"+p.name, "reference encoding rejected", nil)
			continue
		}
		check("Unmarshal", "P="+p.name, "dec/"+p.name, &Q, p.p, nil)
		r.Eval(1)
	}

	// ---- Add on all pairs, with the chain ((P+Q)-Q)-P on computed values
	verifmc.ParallelFor(len(pts)*len(pts), func(idx int) {
		i, j := idx/len(pts), idx%len(pts)
		a, b := pts[i], pts[j]
		id := "add/" + a.name + "/" + b.name
		if !r.Want(id) {
			return
		}
		want := ref.Add(a.p, b.p)
		if a.log != nil && b.log != nil && !ref.Equal(want, ref.BaseMult(new(big.Int).Add(a.log, b.log))) {
			t.Errorf("reference inconsistent on %s", id)
			return
		}
		var out fourq.Point
		if try("Add", id, func() { out.Add(c13Pt(a.p), c13Pt(b.p)) }) {
			check("Add", "P="+a.name+"|Q="+b.name, id, &out, want, nil)
			var c1, c2 fourq.Point
			if try("Add", id+"/chain", func() { c1.Add(&out, c13Pt(ref.Neg(b.p))); c2.Add(&c1, c13Pt(ref.Neg(a.p))) }) {
				check("Add", "chain|P="+a.name+"|Q="+b.name, id+"/chain1", &c1, a.p, nil)
				check("Add", "chain-to-identity|P="+a.name+"|Q="+b.name, id+"/chain2", &c2, ref.Identity(), nil)
			}
		}
		r.Eval(3)
		r.Transition(3)
		r.Distinct("add", a.name, b.name)
		switch {
		case ref.IsIdentity(a.p) || ref.IsIdentity(b.p):
			r.Count("add_with_identity", 1)
		case ref.Equal(a.p, b.p):
			r.Count("add_P_eq_Q", 1)
		case ref.IsIdentity(want):
			r.Count("add_P_eq_negQ", 1)
		}
	})
	r.Sample(map[string]string{"op": "Add", "P": pts[1].name, "Q": pts[1].name})

	// ---- ScalarMult (with cofactor) on SC x all points; ScalarBaseMult on SC
	verifmc.ParallelFor(len(sc)*len(pts), func(idx int) {
		s, i := sc[idx/len(pts)], idx%len(pts)
		a := pts[i]
		id := "mult/" + s.Name + "/" + a.name
		if !r.Want(id) {
			return
		}
		payload := map[string]string{"k_le": verifmc.FullHex(fpx.ToLE(s.V, fourq.Size)), "P": verifmc.FullHex(ref.MarshalFourQ(a.p))}
		k392 := new(big.Int).Mul(s.V, big.NewInt(392))
		var want ecurve.Point
		if a.log != nil {
			want = ref.BaseMult(new(big.Int).Mul(k392, a.log))
		} else {
			want = ref.ScalarMult(k392, a.p)
			r.Count("mult_outside_subgroup", 1)
		}
		var out fourq.Point
		if try("ScalarMult", id, func() { out.ScalarMult(c13Key(s.V), c13Pt(a.p)) }) {
			check("ScalarMult", "k="+s.Name+"|P="+a.name, id, &out, want, payload)
		}
		r.Eval(1)
		r.Transition(1)
		r.Distinct("mult", s.Name, a.name)
		if s.V.Cmp(N) >= 0 {
			r.Count("scalar_ge_order", 1)
		}
		if s.V.Bit(0) == 0 {
			r.Count("even_scalar", 1)
		}
		if ref.IsIdentity(want) {
			r.Count("result_identity", 1)
		}
		if i == 0 {
			id := "base/" + s.Name
			var out fourq.Point
			if try("ScalarBaseMult", id, func() { out.ScalarBaseMult(c13Key(s.V)) }) {
				check("ScalarBaseMult", "k="+s.Name, id, &out, ref.BaseMult(s.V), payload)
			}
			r.Eval(1)
			r.Transition(1)
			r.Distinct("base", s.Name)
		}
	})
	r.Sample(map[string]string{"op": "ScalarMult", "k": "N-1", "k_le": verifmc.FullHex(fpx.ToLE(new(big.Int).Sub(N, big.NewInt(1)), fourq.Size)), "P": pts[len(pts)-1].name, "P_enc": verifmc.FullHex(ref.MarshalFourQ(pts[len(pts)-1].p))})

	r.RequireCounter("add_P_eq_Q", 5)
	r.RequireCounter("add_P_eq_negQ", 5)
	r.RequireCounter("add_with_identity", 10)
	r.RequireCounter("scalar_ge_order", 5)
	r.RequireCounter("even_scalar", 50)
	r.RequireCounter("result_identity", 10)
	r.RequireCounter("mult_outside_subgroup", 50)
	r.RequireCounter("identity_results_queried", 300)
	r.RequireCounter("non_identity_results_queried", 1000)
}
