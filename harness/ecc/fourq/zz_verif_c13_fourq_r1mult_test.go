//go:build verif

package fourq

// C13 / FourQ internal multiplication: pointR1.ScalarMult (no cofactor clearing,
// prime-order inputs) and pointR1.ClearCofactor (multiplication by 392, any
// curve point) against ref/ecurve. Unexported names used by this file (and only
// these): pointR1{ScalarMult, ClearCofactor} (its coordinate fields X, Y, Z, Ta,
// Tb are exported names).

import (
	"math/big"
	"testing"

	"github.com/cloudflare/circl/internal/verifmc"
	"github.com/cloudflare/circl/internal/verifref/curvealpha"
	"github.com/cloudflare/circl/internal/verifref/ecurve"
	"github.com/cloudflare/circl/internal/verifref/fpx"
)

func TestVerifC13_fourq_r1mult(t *testing.T) {
	r := verifmc.Start(t, "C13", "fourq_r1mult")
	defer r.Finish()
	r.Rule("FourQ internals: pointR1.ScalarMult(k, P) = [k]P on SC x PT (SC = curvealpha.Scalars(N, 256), 32-byte little-endian; P of prime order), pointR1.ClearCofactor(P) = [392]P on PT+NS; " +
		"the predicates of the projective representation are queried on every fresh result (when the point-arithmetic file builds), then coordinates are judged with the reference's field arithmetic; distinct = distinct (operation, operand names)")
	ref := ecurve.FourQ()
	N := ref.N
	sc := curvealpha.Scalars(N, 256, r.Seed())
	pts := c13Points()
	r.Set("scalars", len(sc))
	r.Set("points", len(pts))
	r.State(len(pts))
	one := c13Fq(big.NewInt(1), big.NewInt(0))
	mk := func(P ecurve.Point) *pointR1 {
		x, y := c13Fq(P.X.A, P.X.B), c13Fq(P.Y.A, P.Y.B)
		return &pointR1{X: x, Y: y, Z: one, Ta: x, Tb: y}
	}
	try := func(op, id string, f func()) bool {
		if p, what := verifmc.Try(f); p {
			r.Violation("C13|fourq."+op+"|panic:"+verifmc.PanicClass(what), id, what, nil)
			return false
		}
		return true
	}
	check := func(op, class, id string, got *pointR1, want ecurve.Point, payload interface{}) {
		c13CheckR1(r, op, class, id, func() interface{} { f := *got; return &f }, &got.X, &got.Y, &got.Z, &got.Ta, &got.Tb, want, payload)
	}
	for _, a := range pts {
		id := "cof/" + a.name
		if !r.Want(id) {
			continue
		}
		C := mk(a.p)
		if try("ClearCofactor", id, func() { C.ClearCofactor() }) {
			check("ClearCofactor", "P="+a.name, id, C, ref.ScalarMult(big.NewInt(392), a.p), nil)
		}
		r.Eval(1)
		r.Transition(1)
		r.Distinct("cof", a.name)
	}
	verifmc.ParallelFor(len(sc)*len(pts), func(idx int) {
		s, a := sc[idx/len(pts)], pts[idx%len(pts)]
		if a.log == nil {
			return
		}
		id := "r1mult/" + s.Name + "/" + a.name
		if !r.Want(id) {
			return
		}
		payload := map[string]string{"k_le": verifmc.FullHex(fpx.ToLE(s.V, Size)), "P": verifmc.FullHex(ref.MarshalFourQ(a.p))}
		var R pointR1
		if try("pointR1.ScalarMult", id, func() { R.ScalarMult(c13Key(s.V), mk(a.p)) }) {
			check("pointR1.ScalarMult", "k="+s.Name+"|P="+a.name, id, &R, ref.BaseMult(new(big.Int).Mul(s.V, a.log)), payload)
		}
		r.Eval(1)
		r.Transition(1)
		r.Distinct("r1mult", s.Name, a.name)
		if s.V.Bit(0) == 0 {
			r.Count("even_scalar", 1)
		}
		if new(big.Int).Mod(new(big.Int).Mul(s.V, a.log), N).Sign() == 0 {
			r.Count("result_identity", 1)
		}
	})
	r.Sample(map[string]string{"op": "pointR1.ScalarMult", "k": "N-1", "P": pts[1].name})
	r.RequireCounter("even_scalar", 50)
	r.RequireCounter("result_identity", 10)
	if c13R1Preds != nil {
		r.RequireCounter("identity_results_queried", 50)
		r.RequireCounter("non_identity_results_queried", 500)
	}
}
