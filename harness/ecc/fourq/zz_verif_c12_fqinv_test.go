//go:build verif

package fourq

// C12: fqInv against the Fp2 reference.
// Self-contained apart from the internals-free helpers file; unexported identifiers named here: fqInv.

import (
	"testing"

	bf "github.com/cloudflare/circl/internal/verifref/bigfield"
)

func TestVerifC12_fourqfqinv(t *testing.T) {
	r, k := c12Begin(t, "fourqfqinv")
	defer r.Finish()
	P := bf.P127
	_ = P
	q := c12Fq()
	qall := q.Prepare("q", k.fq)
	q.CheckUn(r, bf.UnOp{Name: "fqInv", Do: func(z, x bf.Elem) { fqInv(z.(*Fq), x.(*Fq)) }, Ref: c12fq1(c12fqInv)}, qall, true)
	r.RequireCounter("fourq.Fq.fqInv", 500)
}
