//go:build verif

package fourq

// C12: fqSqrt(c, u, v, s): c = sqrt(u/v) whenever u/v is a square (v != 0); the root is accepted up to conjugation (the only caller compensates).
// Self-contained apart from the internals-free helpers file; unexported identifiers named here: fqSqrt.

import (
	"math/big"
	"testing"

	bf "github.com/cloudflare/circl/internal/verifref/bigfield"
)

func TestVerifC12_fourqfqsqrt(t *testing.T) {
	r, k := c12Begin(t, "fourqfqsqrt")
	defer r.Finish()
	P := bf.P127
	_ = P
	q := c12Fq()
	qsmall := q.Prepare("s", bf.Thin(k.fq, r.Pick(40, 90)))
	var sq, nsq, conj int
	for i := 0; i < qsmall.Len(); i++ {
		for j := 0; j < qsmall.Len(); j++ {
			u, v := bf.Unpack(qsmall.Ops[i].V, 128, 2), bf.Unpack(qsmall.Ops[j].V, 128, 2)
			for _, c := range [][]*big.Int{u, v} {
				c[0].Mod(c[0], P)
				c[1].Mod(c[1], P)
			}
			vi0, vi1 := c12fqInv(v[0], v[1], P)
			if vi0 == nil {
				continue
			}
			w0, w1 := c12fqMul(u[0], u[1], vi0.Mod(vi0, P), vi1.Mod(vi1, P), P)
			w0.Mod(w0, P)
			w1.Mod(w1, P)
			nw := n().Add(n().Mul(w0, w0), n().Mul(w1, w1))
			nw.Mod(nw, P)
			isSq := nw.Sign() == 0 || big.Jacobi(nw, P) == 1 // w = 0 or N(w) a square in Fp <=> w a square in Fq
			if !isSq {
				nsq++
				continue
			}
			sq++
			for _, s := range []int{1, -1} {
				cid := "fourq.Fq.fqSqrt#s" + big.NewInt(int64(i)).String() + ",s" + big.NewInt(int64(j)).String()
				if r.Replaying() && r.ReplayCase() != cid {
					continue
				}
				var c, uu, vv Fq
				uu, vv = *qsmall.E[i].(*Fq), *qsmall.E[j].(*Fq)
				fqSqrt(&c, &uu, &vv, s)
				r.Eval(1)
				r.Distinct(cid, s)
				cr := bf.Unpack(q.Norm(q.Raw(&c)), 128, 2)
				// The only caller (Point.Unmarshal) treats the result as a root up to conjugation
				// (it negates c[1] when the point is off the curve), so c and conj(c) are both accepted.
				okRoot := false
				for k, c1 := range []*big.Int{cr[1], n().Mod(n().Neg(cr[1]), P)} {
					c20, c21 := c12fqMul(cr[0], c1, cr[0], c1, P)
					t0, t1 := c12fqMul(c20.Mod(c20, P), c21.Mod(c21, P), v[0], v[1], P)
					if t0.Mod(t0, P).Cmp(u[0]) == 0 && t1.Mod(t1, P).Cmp(u[1]) == 0 {
						okRoot = true
						if k == 1 {
							conj++
						}
						break
					}
				}
				if !okRoot {
					r.Violation("C12|fourq.Fq.fqSqrt|wrong-root|distinct|reduced", cid,
						"fqSqrt(u="+qsmall.Ops[i].V.Text(16)+", v="+qsmall.Ops[j].V.Text(16)+") = "+q.Raw(&c).Text(16)+": neither c nor conj(c) satisfies c^2 v = u although u/v is a square",
						map[string]string{"u": qsmall.Ops[i].V.Text(16), "v": qsmall.Ops[j].V.Text(16)})
				}
			}
		}
	}
	r.Count("fourq.Fq.fqSqrt.root-is-conjugate", conj)
	r.Count("fourq.Fq.fqSqrt.square", sq)
	r.Count("fourq.Fq.fqSqrt.nonsquare-skipped", nsq)
	r.RequireCounter("fourq.Fq.fqSqrt.square", 200)
}
