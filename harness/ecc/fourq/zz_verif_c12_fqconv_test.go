//go:build verif

package fourq

// C12: the Fq conversions and predicate: toBytes, fromBytes, toBigInt, setBigInt, setOne, setZero, isZero (including every one-bit neighbour).
// Self-contained apart from the internals-free helpers file; unexported identifiers named here: toBytes, fromBytes, toBigInt, setBigInt, setOne, setZero, isZero (methods of Fq).

import (
	"math/big"
	"testing"

	bf "github.com/cloudflare/circl/internal/verifref/bigfield"
)

func TestVerifC12_fourqfqconv(t *testing.T) {
	r, k := c12Begin(t, "fourqfqconv")
	defer r.Finish()
	P := bf.P127
	_ = P
	q := c12Fq()
	qall := q.Prepare("q", k.fq)
	lim := c12Lim
	for _, op := range []bf.UnOp{
		{Name: "toBytes-fromBytes", Do: func(z, x bf.Elem) {
			var b [2 * SizeFp]byte
			x.(*Fq).toBytes(b[:])
			if !z.(*Fq).fromBytes(b[:]) {
				panic("fromBytes refused toBytes output")
			}
			if bf.FromLE(b[:SizeFp]).Cmp(bf.P127) >= 0 || bf.FromLE(b[SizeFp:]).Cmp(bf.P127) >= 0 {
				panic("toBytes output not canonical")
			}
		}, Ref: c12fq1(func(a0, a1, p *big.Int) (*big.Int, *big.Int) { return n().Set(a0), n().Set(a1) })},
		{Name: "toBigInt-setBigInt", Do: func(z, x bf.Elem) { z.(*Fq).setBigInt(x.(*Fq).toBigInt()) }, Ref: c12fq1(func(a0, a1, p *big.Int) (*big.Int, *big.Int) { return n().Set(a0), n().Set(a1) })},
		{Name: "setOne", Do: func(z, x bf.Elem) { z.(*Fq).setOne() }, Ref: c12fq1(func(a0, a1, p *big.Int) (*big.Int, *big.Int) { return big.NewInt(1), n() })},
		{Name: "setZero", Do: func(z, x bf.Elem) { z.(*Fq).setZero() }, Ref: c12fq1(func(a0, a1, p *big.Int) (*big.Int, *big.Int) { return n(), n() })},
	} {
		q.CheckUn(r, op, qall, true)
	}
	q.CheckPred(r, bf.Pred{Name: "isZero", Do: func(x bf.Elem) bool { return x.(*Fq).isZero() }, Ref: func(x, _ *big.Int) bool {
		c := bf.Unpack(x, 128, 2)
		return c[0].Mod(c[0], P).Sign() == 0 && c[1].Mod(c[1], P).Sign() == 0
	}}, qall)
	{
		pm1 := n().Sub(P, big.NewInt(1))
		qb := []bf.Operand{{V: n(), Name: "0"}, {V: big.NewInt(1), Name: "1"}, {V: bf.Pack(128, pm1, pm1), Name: "(p-1,p-1)"}, {V: bf.Pack(128, P, P), Name: "(p,p)"}, {V: bf.Pack(128, n(), P), Name: "(0,p)"},
			{V: bf.Pack(128, bf.Pseudo("fourq-pred", 2, P), bf.Pseudo("fourq-pred", 3, P)), Name: "pseudo"}}
		q.CheckBitFlips(r, bf.BitFlip{Coords: 2, Width: 128, Bits: 128, P: P, Limit: lim, IsZero: func(x bf.Elem) bool { return x.(*Fq).isZero() }}, qb)
		r.RequireCounter("fourq.Fq.predicates.one-bit-neighbours", 6*2*126)
	}
	r.RequireCounter("fourq.Fq.isZero.true", 4)
}
