//go:build verif && (!amd64 || purego)

package fourq

// c14Backend: fp_noasm.go, fq_noasm.go, point_noasm.go are compiled.
func c14Backend() string { return "generic" }
