//go:build verif && (!amd64 || purego)

package fourq

// fp_noasm.go, fq_noasm.go, point_noasm.go are compiled.
func init() { C14ReadBackend = func() string { return "generic" } }
