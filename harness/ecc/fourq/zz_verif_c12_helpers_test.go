//go:build verif

package fourq

// C12, FourQ fields: glue shared by the per-routine units of this directory
// (adapters on the EXPORTED types Fp and Fq, the Fp2 reference on math/big,
// operand alphabets, unit start). This file names NO unexported identifier of
// package fourq; each routine family is swept in a file of its own.
// Scope: GF(2^127-1) and GF((2^127-1)^2) of FourQ: fp{Mod,Add,Sub,Mul,Sqr,Hlf,
// Neg,Inv,Two1251}, Fp byte/big-int conversions, isZero; fq{Add,Sub,Mul,Sqr,Neg,
// Inv,Sqrt,Cmov}, Fq conversions, against math/big (Fq as pairs with i^2=-1).
// Operand domain: 127-bit strings (what fromBytes admits), i.e. [0, 2^127-1]
// including the non-canonical zero p.

import (
	"math/big"
	"testing"

	"github.com/cloudflare/circl/internal/verifmc"
	bf "github.com/cloudflare/circl/internal/verifref/bigfield"
)

func c12Fp() *bf.Field {
	return &bf.Field{
		Prop: "C12", Name: "fourq.Fp", P: bf.P127, Hex: 32,
		New: func() bf.Elem { return new(Fp) },
		Load: func(z bf.Elem, v *big.Int) bool {
			if v.Sign() < 0 || v.BitLen() > 127 {
				return false
			}
			copy(z.(*Fp)[:], bf.LE(v, SizeFp))
			return true
		},
		Copy: func(d, s bf.Elem) { *d.(*Fp) = *s.(*Fp) },
		Raw:  func(x bf.Elem) *big.Int { return bf.FromLE(x.(*Fp)[:]) },
		Same: func(a, b bf.Elem) bool { return *a.(*Fp) == *b.(*Fp) },
		Junk: bf.Pseudo("fourq-junk", 0, bf.P127),
		Par:  verifmc.ParallelFor,
	}
}

var c12W = bf.Pow2(256)

// Fq elements are handled as one packed integer a0 + a1*2^128 with both
// coordinates canonical; the field modulus of the driver is 2^256 (no-op).
func c12Fq() *bf.Field {
	return &bf.Field{
		Prop: "C12", Name: "fourq.Fq", P: c12W, Hex: 64,
		New: func() bf.Elem { return new(Fq) },
		Load: func(z bf.Elem, v *big.Int) bool {
			c := bf.Unpack(v, 128, 2)
			if c[0].BitLen() > 127 || c[1].BitLen() > 127 {
				return false
			}
			copy(z.(*Fq)[0][:], bf.LE(c[0], SizeFp))
			copy(z.(*Fq)[1][:], bf.LE(c[1], SizeFp))
			return true
		},
		Copy: func(d, s bf.Elem) { *d.(*Fq) = *s.(*Fq) },
		Raw:  func(x bf.Elem) *big.Int { return bf.Pack(128, bf.FromLE(x.(*Fq)[0][:]), bf.FromLE(x.(*Fq)[1][:])) },
		Norm: func(v *big.Int) *big.Int {
			c := bf.Unpack(v, 128, 2)
			return bf.Pack(128, c[0].Mod(c[0], bf.P127), c[1].Mod(c[1], bf.P127))
		},
		Same: func(a, b bf.Elem) bool { return *a.(*Fq) == *b.(*Fq) },
		Junk: bf.Pack(128, bf.Pseudo("fourq-junk", 1, bf.P127), bf.Pseudo("fourq-junk", 2, bf.P127)),
		Par:  verifmc.ParallelFor,
	}
}

// reference Fp2 = Fp[i]/(i^2+1) on packed integers
func c12fq2(f func(a0, a1, b0, b1, p *big.Int) (*big.Int, *big.Int)) func(out, x, y, _ *big.Int) bool {
	return func(out, x, y, _ *big.Int) bool {
		a, b := bf.Unpack(x, 128, 2), bf.Unpack(y, 128, 2)
		for _, c := range [][]*big.Int{a, b} {
			c[0].Mod(c[0], bf.P127)
			c[1].Mod(c[1], bf.P127)
		}
		r0, r1 := f(a[0], a[1], b[0], b[1], bf.P127)
		out.Set(bf.Pack(128, r0.Mod(r0, bf.P127), r1.Mod(r1, bf.P127)))
		return true
	}
}

func c12fq1(f func(a0, a1, p *big.Int) (*big.Int, *big.Int)) func(out, x, _ *big.Int) bool {
	return func(out, x, _ *big.Int) bool {
		a := bf.Unpack(x, 128, 2)
		a[0].Mod(a[0], bf.P127)
		a[1].Mod(a[1], bf.P127)
		r0, r1 := f(a[0], a[1], bf.P127)
		if r0 == nil {
			return false
		}
		out.Set(bf.Pack(128, r0.Mod(r0, bf.P127), r1.Mod(r1, bf.P127)))
		return true
	}
}

func n() *big.Int { return new(big.Int) }

func c12fqMul(a0, a1, b0, b1, p *big.Int) (*big.Int, *big.Int) {
	r0 := n().Sub(n().Mul(a0, b0), n().Mul(a1, b1))
	r1 := n().Add(n().Mul(a0, b1), n().Mul(a1, b0))
	return r0, r1
}

func c12fqInv(a0, a1, p *big.Int) (*big.Int, *big.Int) {
	nr := n().Add(n().Mul(a0, a0), n().Mul(a1, a1))
	nr.Mod(nr, p)
	if nr.Sign() == 0 {
		return nil, nil
	}
	nr.ModInverse(nr, p)
	return n().Mul(a0, nr), n().Neg(n().Mul(a1, nr))
}

// c12Ops are the operand lists of the units.
type c12Ops struct {
	fp, lp, ia, fq []bf.Operand
}

const c12Rule = "Fp operands: 127-bit strings = full product of per-limb lists (low limb x high limb), the integer alphabet, 24 pseudo-random values and p itself; ALL ordered pairs for fpAdd/fpSub/fpMul with junk-filled output and aliasing z=x, z=y, x=y, z=x=y; Fq operands: ALL pairs of an Fp core (a0,a1), all ordered pairs of those for fqAdd/fqSub/fqMul; pair sweeps above 1.5e6 cases are counted by the ordered_pairs counters instead of being hashed into distinct_nontrivial; a distinct case is one (operation, operand tuple)"

var c12Lim = bf.Pow2(127)

func c12Begin(t *testing.T, unit string) (*verifmc.Run, *c12Ops) {
	r := verifmc.Start(t, "C12", unit)
	if bad := bf.SelfCheck(); len(bad) != 0 {
		t.Fatalf("reference constants not bound: %v", bad)
	}
	r.Rule(c12Rule)
	r.NotExhaustive("operands are the declared alphabet, not all 2^127 / 2^254 values")
	P := bf.P127
	lo := []uint64{0, 1, 2, 3, 1<<31 - 1, 1 << 31, 1<<32 - 1, 1 << 32, 1<<32 + 1, 1<<62 - 1, 1 << 62, 1<<63 - 1, 1 << 63, 1<<63 + 1, ^uint64(0) - 2, ^uint64(0) - 1, ^uint64(0)}
	hi := []uint64{0, 1, 2, 1<<31 - 1, 1 << 31, 1<<32 - 1, 1 << 32, 1<<61 - 1, 1 << 61, 1<<62 - 1, 1 << 62, 1<<62 + 1, 1<<63 - 3, 1<<63 - 2, 1<<63 - 1}
	if !r.Thorough() {
		lo = []uint64{0, 1, 2, 1<<32 - 1, 1 << 32, 1<<63 - 1, 1 << 63, ^uint64(0) - 1, ^uint64(0)}
		hi = []uint64{0, 1, 1<<32 - 1, 1 << 32, 1<<62 - 1, 1 << 62, 1<<63 - 2, 1<<63 - 1}
	}
	lim := bf.Pow2(127)
	lp := bf.LimbProduct(2, [][]uint64{lo, hi}, [][]uint64{lo, hi}, 0)
	ia := bf.IntAlphabet(P, 64, 24, "fourq")
	fpOps := bf.Append(lim, lp, ia, []bf.Operand{{V: P, Name: "p"}})
	coreN := r.Pick(14, 26)
	fcore := bf.Append(lim, []bf.Operand{{V: n(), Name: "0"}, {V: big.NewInt(1), Name: "1"}, {V: big.NewInt(2), Name: "2"}, {V: P, Name: "p"},
		{V: n().Sub(P, big.NewInt(1)), Name: "p-1"}, {V: n().Sub(P, big.NewInt(2)), Name: "p-2"}, {V: n().Rsh(P, 1), Name: "(p-1)/2"}, {V: bf.Pow2(64), Name: "2^64"},
		{V: n().Sub(bf.Pow2(64), big.NewInt(1)), Name: "2^64-1"}, {V: bf.Pow2(126), Name: "2^126"}}, bf.Thin(ia, coreN), bf.Thin(lp, coreN))
	var qops []bf.Operand
	for _, a := range fcore {
		for _, b := range fcore {
			qops = append(qops, bf.Operand{V: bf.Pack(128, a.V, b.V), Name: a.Name + "+i*" + b.Name})
		}
	}
	r.Set("fp_elements", len(fpOps))
	r.Set("fq_core", len(fcore))
	r.Set("fq_elements", len(qops))
	for i := 0; i < 3; i++ {
		k := i*len(fpOps)/3 + 5
		r.Sample(map[string]string{"element": fpOps[k].Name, "value": fpOps[k].V.Text(16)})
	}
	return r, &c12Ops{fp: fpOps, lp: lp, ia: ia, fq: qops}
}
