//go:build verif

package fourq

// C12: fqCmov (conditional move, both selector values).
// Self-contained apart from the internals-free helpers file; unexported identifiers named here: fqCmov.

import (
	"testing"

	bf "github.com/cloudflare/circl/internal/verifref/bigfield"
)

func TestVerifC12_fourqfqcmov(t *testing.T) {
	r, k := c12Begin(t, "fourqfqcmov")
	defer r.Finish()
	P := bf.P127
	_ = P
	q := c12Fq()
	qsmall := q.Prepare("s", bf.Thin(k.fq, r.Pick(40, 90)))
	q.CheckCmov(r, "fqCmov", func(x, y bf.Elem, b int) { fqCmov(x.(*Fq), y.(*Fq), b) }, []int{0, 1}, qsmall, qsmall)
	for i := 0; i < qsmall.Len(); i++ {
		r.Distinct("cmov", i)
	}
	r.RequireCounter("fourq.Fq.fqCmov", 3000)
}
