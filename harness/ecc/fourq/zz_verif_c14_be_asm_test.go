//go:build verif && amd64 && !purego

package fourq

// c14Backend reads the switch the assembly tests (CHECK_BMI2 in fp_amd64.h: fqMul, fqSqr, double, add, mixAdd).
func c14Backend() string {
	if hasBMI2 {
		return "asm-bmi2"
	}
	return "asm-legacy"
}
