//go:build verif && amd64 && !purego

package fourq

// Read-out of the switch the assembly tests (CHECK_BMI2 in fp_amd64.h: fqMul, fqSqr, double, add, mixAdd).
// Only this file names hasBMI2.
func init() {
	C14ReadBackend = func() string {
		if hasBMI2 {
			return "asm-bmi2"
		}
		return "asm-legacy"
	}
}
