//go:build verif

package fourq

// C12: fpInv and fpTwo1251 (addition chains) against math/big.
// Self-contained apart from the internals-free helpers file; unexported identifiers named here: fpInv, fpTwo1251.

import (
	"math/big"
	"testing"

	bf "github.com/cloudflare/circl/internal/verifref/bigfield"
)

func TestVerifC12_fourqfpinv(t *testing.T) {
	r, k := c12Begin(t, "fourqfpinv")
	defer r.Finish()
	P := bf.P127
	_ = P
	f := c12Fp()
	all := f.Prepare("e", k.fp)
	two125 := new(big.Int).Sub(bf.Pow2(125), big.NewInt(1))
	for _, op := range []bf.UnOp{
		{Name: "fpInv", Do: func(z, x bf.Elem) { fpInv(z.(*Fp), x.(*Fp)) }, Ref: bf.RefInv},
		{Name: "fpTwo1251", Do: func(z, x bf.Elem) { fpTwo1251(z.(*Fp), x.(*Fp)) }, Ref: func(out, x, p *big.Int) bool { out.Exp(x, two125, p); return true }},
	} {
		f.CheckUn(r, op, all, true)
	}
	r.RequireCounter("fourq.Fp.fpInv", 200)
}
