//go:build verif

package fourq

// C12: fpAdd / fpSub / fpMul / fpSqr / fpNeg / fpHlf / fpMod (assembly or Go) against math/big.
// Self-contained apart from the internals-free helpers file; unexported identifiers named here: fpAdd, fpSub, fpMul, fpSqr, fpNeg, fpHlf, fpMod.

import (
	"testing"

	bf "github.com/cloudflare/circl/internal/verifref/bigfield"
)

func TestVerifC12_fourq(t *testing.T) {
	r, k := c12Begin(t, "fourq")
	defer r.Finish()
	P := bf.P127
	_ = P
	f := c12Fp()
	all := f.Prepare("e", k.fp)
	bin := []bf.BinOp{
		{Name: "fpAdd", Do: func(z, x, y bf.Elem) { fpAdd(z.(*Fp), x.(*Fp), y.(*Fp)) }, Ref: bf.RefAdd},
		{Name: "fpSub", Do: func(z, x, y bf.Elem) { fpSub(z.(*Fp), x.(*Fp), y.(*Fp)) }, Ref: bf.RefSub},
		{Name: "fpMul", Do: func(z, x, y bf.Elem) { fpMul(z.(*Fp), x.(*Fp), y.(*Fp)) }, Ref: bf.RefMul},
	}
	for _, op := range bin {
		f.CheckBin(r, op, all, all, op.Name == "fpMul" && bf.HashPairs(all.Len()*all.Len()))
	}
	r.Count("fp_ordered_pairs", all.Len()*all.Len())
	for _, op := range []bf.UnOp{
		{Name: "fpNeg", Do: func(z, x bf.Elem) { fpNeg(z.(*Fp), x.(*Fp)) }, Ref: bf.RefNeg},
		{Name: "fpSqr", Do: func(z, x bf.Elem) { fpSqr(z.(*Fp), x.(*Fp)) }, Ref: bf.RefSqr},
		{Name: "fpHlf", Do: func(z, x bf.Elem) { fpHlf(z.(*Fp), x.(*Fp)) }, Ref: bf.RefHalf},
		{Name: "fpMod", Do: func(z, x bf.Elem) { *z.(*Fp) = *x.(*Fp); fpMod(z.(*Fp)) }, Ref: bf.RefId, Canon: true},
	} {
		f.CheckUn(r, op, all, true)
	}
	r.RequireCounter("fourq.Fp.fpMul", 30000)
}
