//go:build verif

package fourq

// C12 for GF(2^127-1) and GF((2^127-1)^2) of FourQ: fp{Mod,Add,Sub,Mul,Sqr,Hlf,
// Neg,Inv,Two1251}, Fp byte/big-int conversions, isZero; fq{Add,Sub,Mul,Sqr,Neg,
// Inv,Sqrt,Cmov}, Fq conversions, against math/big (Fq as pairs with i^2=-1).
// Operand domain: 127-bit strings (what fromBytes admits), i.e. [0, 2^127-1]
// including the non-canonical zero p.

import (
	"math/big"
	"testing"

	"github.com/cloudflare/circl/internal/verifmc"
	bf "github.com/cloudflare/circl/internal/verifref/bigfield"
)

func c12Fp() *bf.Field {
	return &bf.Field{
		Prop: "C12", Name: "fourq.Fp", P: bf.P127, Hex: 32,
		New: func() bf.Elem { return new(Fp) },
		Load: func(z bf.Elem, v *big.Int) bool {
			if v.Sign() < 0 || v.BitLen() > 127 {
				return false
			}
			copy(z.(*Fp)[:], bf.LE(v, SizeFp))
			return true
		},
		Copy: func(d, s bf.Elem) { *d.(*Fp) = *s.(*Fp) },
		Raw:  func(x bf.Elem) *big.Int { return bf.FromLE(x.(*Fp)[:]) },
		Same: func(a, b bf.Elem) bool { return *a.(*Fp) == *b.(*Fp) },
		Junk: bf.Pseudo("fourq-junk", 0, bf.P127),
		Par:  verifmc.ParallelFor,
	}
}

var c12W = bf.Pow2(256)

// Fq elements are handled as one packed integer a0 + a1*2^128 with both
// coordinates canonical; the field modulus of the driver is 2^256 (no-op).
func c12Fq() *bf.Field {
	return &bf.Field{
		Prop: "C12", Name: "fourq.Fq", P: c12W, Hex: 64,
		New: func() bf.Elem { return new(Fq) },
		Load: func(z bf.Elem, v *big.Int) bool {
			c := bf.Unpack(v, 128, 2)
			if c[0].BitLen() > 127 || c[1].BitLen() > 127 {
				return false
			}
			copy(z.(*Fq)[0][:], bf.LE(c[0], SizeFp))
			copy(z.(*Fq)[1][:], bf.LE(c[1], SizeFp))
			return true
		},
		Copy: func(d, s bf.Elem) { *d.(*Fq) = *s.(*Fq) },
		Raw:  func(x bf.Elem) *big.Int { return bf.Pack(128, bf.FromLE(x.(*Fq)[0][:]), bf.FromLE(x.(*Fq)[1][:])) },
		Norm: func(v *big.Int) *big.Int {
			c := bf.Unpack(v, 128, 2)
			return bf.Pack(128, c[0].Mod(c[0], bf.P127), c[1].Mod(c[1], bf.P127))
		},
		Same: func(a, b bf.Elem) bool { return *a.(*Fq) == *b.(*Fq) },
		Junk: bf.Pack(128, bf.Pseudo("fourq-junk", 1, bf.P127), bf.Pseudo("fourq-junk", 2, bf.P127)),
		Par:  verifmc.ParallelFor,
	}
}

// reference Fp2 = Fp[i]/(i^2+1) on packed integers
func c12fq2(f func(a0, a1, b0, b1, p *big.Int) (*big.Int, *big.Int)) func(out, x, y, _ *big.Int) bool {
	return func(out, x, y, _ *big.Int) bool {
		a, b := bf.Unpack(x, 128, 2), bf.Unpack(y, 128, 2)
		for _, c := range [][]*big.Int{a, b} {
			c[0].Mod(c[0], bf.P127)
			c[1].Mod(c[1], bf.P127)
		}
		r0, r1 := f(a[0], a[1], b[0], b[1], bf.P127)
		out.Set(bf.Pack(128, r0.Mod(r0, bf.P127), r1.Mod(r1, bf.P127)))
		return true
	}
}

func c12fq1(f func(a0, a1, p *big.Int) (*big.Int, *big.Int)) func(out, x, _ *big.Int) bool {
	return func(out, x, _ *big.Int) bool {
		a := bf.Unpack(x, 128, 2)
		a[0].Mod(a[0], bf.P127)
		a[1].Mod(a[1], bf.P127)
		r0, r1 := f(a[0], a[1], bf.P127)
		if r0 == nil {
			return false
		}
		out.Set(bf.Pack(128, r0.Mod(r0, bf.P127), r1.Mod(r1, bf.P127)))
		return true
	}
}

func n() *big.Int { return new(big.Int) }

func c12fqMul(a0, a1, b0, b1, p *big.Int) (*big.Int, *big.Int) {
	r0 := n().Sub(n().Mul(a0, b0), n().Mul(a1, b1))
	r1 := n().Add(n().Mul(a0, b1), n().Mul(a1, b0))
	return r0, r1
}

func c12fqInv(a0, a1, p *big.Int) (*big.Int, *big.Int) {
	nr := n().Add(n().Mul(a0, a0), n().Mul(a1, a1))
	nr.Mod(nr, p)
	if nr.Sign() == 0 {
		return nil, nil
	}
	nr.ModInverse(nr, p)
	return n().Mul(a0, nr), n().Neg(n().Mul(a1, nr))
}

func TestVerifC12_fourq(t *testing.T) {
	r := verifmc.Start(t, "C12", "fourq")
	defer r.Finish()
	if bad := bf.SelfCheck(); len(bad) != 0 {
		t.Fatalf("reference constants not bound: %v", bad)
	}
	if bf.FromLE(modulusP[:]).Cmp(bf.P127) != 0 {
		t.Fatalf("modulusP is not 2^127-1")
	}
	P := bf.P127
	f := c12Fp()
	lo := []uint64{0, 1, 2, 3, 1<<31 - 1, 1 << 31, 1<<32 - 1, 1 << 32, 1<<32 + 1, 1<<62 - 1, 1 << 62, 1<<63 - 1, 1 << 63, 1<<63 + 1, ^uint64(0) - 2, ^uint64(0) - 1, ^uint64(0)}
	hi := []uint64{0, 1, 2, 1<<31 - 1, 1 << 31, 1<<32 - 1, 1 << 32, 1<<61 - 1, 1 << 61, 1<<62 - 1, 1 << 62, 1<<62 + 1, 1<<63 - 3, 1<<63 - 2, 1<<63 - 1}
	if !r.Thorough() {
		lo = []uint64{0, 1, 2, 1<<32 - 1, 1 << 32, 1<<63 - 1, 1 << 63, ^uint64(0) - 1, ^uint64(0)}
		hi = []uint64{0, 1, 1<<32 - 1, 1 << 32, 1<<62 - 1, 1 << 62, 1<<63 - 2, 1<<63 - 1}
	}
	lim := bf.Pow2(127)
	lp := bf.LimbProduct(2, [][]uint64{lo, hi}, [][]uint64{lo, hi}, 0)
	ia := bf.IntAlphabet(P, 64, 24, "fourq")
	all := f.Prepare("e", bf.Append(lim, lp, ia, []bf.Operand{{V: P, Name: "p"}}))
	r.Set("fp_elements", all.Len())
	r.Set("fp_noncanonical_zero_included", all.Unred)
	r.Rule("Fp operands: 127-bit strings = full product of per-limb lists (low limb x high limb), the integer alphabet, 24 pseudo-random values and p itself; ALL ordered pairs for fpAdd/fpSub/fpMul with junk-filled output and aliasing z=x, z=y, x=y, z=x=y; Fq operands: ALL pairs of an Fp core (a0,a1), all ordered pairs of those for fqAdd/fqSub/fqMul; pair sweeps above 1.5e6 cases are counted by the ordered_pairs counters instead of being hashed into distinct_nontrivial; a distinct case is one (operation, operand tuple)")
	r.NotExhaustive("operands are the declared alphabet, not all 2^127 / 2^254 values")

	bin := []bf.BinOp{
		{Name: "fpAdd", Do: func(z, x, y bf.Elem) { fpAdd(z.(*Fp), x.(*Fp), y.(*Fp)) }, Ref: bf.RefAdd},
		{Name: "fpSub", Do: func(z, x, y bf.Elem) { fpSub(z.(*Fp), x.(*Fp), y.(*Fp)) }, Ref: bf.RefSub},
		{Name: "fpMul", Do: func(z, x, y bf.Elem) { fpMul(z.(*Fp), x.(*Fp), y.(*Fp)) }, Ref: bf.RefMul},
	}
	for _, op := range bin {
		f.CheckBin(r, op, all, all, op.Name == "fpMul" && bf.HashPairs(all.Len()*all.Len()))
	}
	r.Count("fp_ordered_pairs", all.Len()*all.Len())
	two125 := new(big.Int).Sub(bf.Pow2(125), big.NewInt(1))
	un := []bf.UnOp{
		{Name: "fpNeg", Do: func(z, x bf.Elem) { fpNeg(z.(*Fp), x.(*Fp)) }, Ref: bf.RefNeg},
		{Name: "fpSqr", Do: func(z, x bf.Elem) { fpSqr(z.(*Fp), x.(*Fp)) }, Ref: bf.RefSqr},
		{Name: "fpHlf", Do: func(z, x bf.Elem) { fpHlf(z.(*Fp), x.(*Fp)) }, Ref: bf.RefHalf},
		{Name: "fpInv", Do: func(z, x bf.Elem) { fpInv(z.(*Fp), x.(*Fp)) }, Ref: bf.RefInv},
		{Name: "fpTwo1251", Do: func(z, x bf.Elem) { fpTwo1251(z.(*Fp), x.(*Fp)) }, Ref: func(out, x, p *big.Int) bool { out.Exp(x, two125, p); return true }},
		{Name: "fpMod", Do: func(z, x bf.Elem) { *z.(*Fp) = *x.(*Fp); fpMod(z.(*Fp)) }, Ref: bf.RefId, Canon: true},
		{Name: "toBytes", Do: func(z, x bf.Elem) { x.(*Fp).toBytes(z.(*Fp)[:]) }, Ref: bf.RefId, Canon: true},
		{Name: "toBigInt-setBigInt", Do: func(z, x bf.Elem) { z.(*Fp).setBigInt(x.(*Fp).toBigInt()) }, Ref: bf.RefId, Canon: true},
		{Name: "fromBytes", Do: func(z, x bf.Elem) {
			if !z.(*Fp).fromBytes(x.(*Fp)[:]) {
				// refusing the non-canonical encoding of 0 (the string p) is allowed; refusing a canonical string is not
				if bf.FromLE(x.(*Fp)[:]).Cmp(bf.P127) < 0 {
					panic("fromBytes refused a canonical 127-bit string")
				}
				r.Count("fourq.Fp.fromBytes.refused-noncanonical-p", 1)
				*z.(*Fp) = Fp{}
			}
		}, Ref: bf.RefId, Canon: true},
	}
	for _, op := range un {
		f.CheckUn(r, op, all, true)
	}
	f.CheckPred(r, bf.Pred{Name: "isZero", Do: func(x bf.Elem) bool { return x.(*Fp).isZero() }, Ref: bf.RefIsZero}, all)
	{
		b := []bf.Operand{{V: new(big.Int), Name: "0"}, {V: big.NewInt(1), Name: "1"}, {V: new(big.Int).Sub(P, big.NewInt(1)), Name: "p-1"}, {V: bf.Pseudo("fourq-pred", 0, P), Name: "pseudo0"}, {V: bf.Pseudo("fourq-pred", 1, P), Name: "pseudo1"}}
		b = append(b, bf.Operand{V: P, Name: "p"})
		f.CheckBitFlips(r, bf.BitFlip{Coords: 1, Bits: 128, P: P, Limit: lim, IsZero: func(x bf.Elem) bool { return x.(*Fp).isZero() }}, b)
		r.RequireCounter("fourq.Fp.predicates.one-bit-neighbours", 6*126)
	}
	r.RequireCounter("fourq.Fp.isZero.true", 2)
	// toBigInt must be canonical
	for i := range all.Ops {
		x := new(Fp)
		*x = *all.E[i].(*Fp)
		got := x.toBigInt()
		r.Eval(1)
		if got.Cmp(all.Red[i]) != 0 {
			r.Violation("C12|fourq.Fp.toBigInt|wrong-value|-|"+map[bool]string{true: "unreduced", false: "reduced"}[all.Ops[i].V.Cmp(P) >= 0],
				"fourq.Fp.toBigInt#e"+big.NewInt(int64(i)).String(), "toBigInt("+all.Ops[i].V.Text(16)+") = "+got.Text(16), nil)
		}
	}
	// fromBytes must refuse bit 127 and wrong lengths
	refused := 0
	for i := range all.Ops {
		b := bf.LE(all.Ops[i].V, SizeFp)
		b[SizeFp-1] |= 0x80
		z := new(Fp)
		r.Eval(1)
		if z.fromBytes(b) {
			r.Violation("C12|fourq.Fp.fromBytes|accepts-128-bit|-|unreduced", "fourq.Fp.fromBytes#hi"+big.NewInt(int64(i)).String(), "fromBytes accepted a string with bit 127 set", nil)
		} else {
			refused++
		}
	}
	r.Count("fourq.Fp.fromBytes.refused-bit127", refused)

	// ---- Fq ----
	q := c12Fq()
	coreN := r.Pick(14, 26)
	fcore := bf.Append(lim, []bf.Operand{{V: n(), Name: "0"}, {V: big.NewInt(1), Name: "1"}, {V: big.NewInt(2), Name: "2"}, {V: P, Name: "p"},
		{V: n().Sub(P, big.NewInt(1)), Name: "p-1"}, {V: n().Sub(P, big.NewInt(2)), Name: "p-2"}, {V: n().Rsh(P, 1), Name: "(p-1)/2"}, {V: bf.Pow2(64), Name: "2^64"},
		{V: n().Sub(bf.Pow2(64), big.NewInt(1)), Name: "2^64-1"}, {V: bf.Pow2(126), Name: "2^126"}}, bf.Thin(ia, coreN), bf.Thin(lp, coreN))
	var qops []bf.Operand
	for _, a := range fcore {
		for _, b := range fcore {
			qops = append(qops, bf.Operand{V: bf.Pack(128, a.V, b.V), Name: a.Name + "+i*" + b.Name})
		}
	}
	qall := q.Prepare("q", qops)
	r.Set("fq_core", len(fcore))
	r.Set("fq_elements", qall.Len())
	qbin := []bf.BinOp{
		{Name: "fqAdd", Do: func(z, x, y bf.Elem) { fqAdd(z.(*Fq), x.(*Fq), y.(*Fq)) }, Ref: c12fq2(func(a0, a1, b0, b1, p *big.Int) (*big.Int, *big.Int) { return n().Add(a0, b0), n().Add(a1, b1) })},
		{Name: "fqSub", Do: func(z, x, y bf.Elem) { fqSub(z.(*Fq), x.(*Fq), y.(*Fq)) }, Ref: c12fq2(func(a0, a1, b0, b1, p *big.Int) (*big.Int, *big.Int) { return n().Sub(a0, b0), n().Sub(a1, b1) })},
		{Name: "fqMul", Do: func(z, x, y bf.Elem) { fqMul(z.(*Fq), x.(*Fq), y.(*Fq)) }, Ref: c12fq2(c12fqMul)},
	}
	qpair := qall
	if !r.Thorough() {
		qpair = q.Prepare("q", bf.Thin(qops, 420))
	}
	for _, op := range qbin {
		q.CheckBin(r, op, qpair, qpair, op.Name == "fqMul" && bf.HashPairs(qpair.Len()*qpair.Len()))
	}
	r.Count("fq_ordered_pairs", qpair.Len()*qpair.Len())
	qun := []bf.UnOp{
		{Name: "fqNeg", Do: func(z, x bf.Elem) { fqNeg(z.(*Fq), x.(*Fq)) }, Ref: c12fq1(func(a0, a1, p *big.Int) (*big.Int, *big.Int) { return n().Neg(a0), n().Neg(a1) })},
		{Name: "fqSqr", Do: func(z, x bf.Elem) { fqSqr(z.(*Fq), x.(*Fq)) }, Ref: c12fq1(func(a0, a1, p *big.Int) (*big.Int, *big.Int) { return c12fqMul(a0, a1, a0, a1, p) })},
		{Name: "fqInv", Do: func(z, x bf.Elem) { fqInv(z.(*Fq), x.(*Fq)) }, Ref: c12fq1(c12fqInv)},
		{Name: "fqCopy", Do: func(z, x bf.Elem) { fqCopy(z.(*Fq), x.(*Fq)) }, Ref: c12fq1(func(a0, a1, p *big.Int) (*big.Int, *big.Int) { return n().Set(a0), n().Set(a1) })},
		{Name: "toBytes-fromBytes", Do: func(z, x bf.Elem) {
			var b [2 * SizeFp]byte
			x.(*Fq).toBytes(b[:])
			if !z.(*Fq).fromBytes(b[:]) {
				panic("fromBytes refused toBytes output")
			}
			if bf.FromLE(b[:SizeFp]).Cmp(bf.P127) >= 0 || bf.FromLE(b[SizeFp:]).Cmp(bf.P127) >= 0 {
				panic("toBytes output not canonical")
			}
		}, Ref: c12fq1(func(a0, a1, p *big.Int) (*big.Int, *big.Int) { return n().Set(a0), n().Set(a1) })},
		{Name: "toBigInt-setBigInt", Do: func(z, x bf.Elem) { z.(*Fq).setBigInt(x.(*Fq).toBigInt()) }, Ref: c12fq1(func(a0, a1, p *big.Int) (*big.Int, *big.Int) { return n().Set(a0), n().Set(a1) })},
		{Name: "setOne", Do: func(z, x bf.Elem) { z.(*Fq).setOne() }, Ref: c12fq1(func(a0, a1, p *big.Int) (*big.Int, *big.Int) { return big.NewInt(1), n() })},
		{Name: "setZero", Do: func(z, x bf.Elem) { z.(*Fq).setZero() }, Ref: c12fq1(func(a0, a1, p *big.Int) (*big.Int, *big.Int) { return n(), n() })},
	}
	for _, op := range qun {
		q.CheckUn(r, op, qall, true)
	}
	q.CheckPred(r, bf.Pred{Name: "isZero", Do: func(x bf.Elem) bool { return x.(*Fq).isZero() }, Ref: func(x, _ *big.Int) bool {
		c := bf.Unpack(x, 128, 2)
		return c[0].Mod(c[0], P).Sign() == 0 && c[1].Mod(c[1], P).Sign() == 0
	}}, qall)
	{
		pm1 := n().Sub(P, big.NewInt(1))
		qb := []bf.Operand{{V: n(), Name: "0"}, {V: big.NewInt(1), Name: "1"}, {V: bf.Pack(128, pm1, pm1), Name: "(p-1,p-1)"}, {V: bf.Pack(128, P, P), Name: "(p,p)"}, {V: bf.Pack(128, n(), P), Name: "(0,p)"},
			{V: bf.Pack(128, bf.Pseudo("fourq-pred", 2, P), bf.Pseudo("fourq-pred", 3, P)), Name: "pseudo"}}
		q.CheckBitFlips(r, bf.BitFlip{Coords: 2, Width: 128, Bits: 128, P: P, Limit: lim, IsZero: func(x bf.Elem) bool { return x.(*Fq).isZero() }}, qb)
		r.RequireCounter("fourq.Fq.predicates.one-bit-neighbours", 6*2*126)
	}
	r.RequireCounter("fourq.Fq.isZero.true", 4)
	qsmall := q.Prepare("s", bf.Thin(qops, r.Pick(40, 90)))
	q.CheckCmov(r, "fqCmov", func(x, y bf.Elem, b int) { fqCmov(x.(*Fq), y.(*Fq), b) }, []int{0, 1}, qsmall, qsmall)

	// fqSqrt(c, u, v, s): c = sqrt(u/v) whenever u/v is a square (v != 0); no flag is returned.
	var sq, nsq, conj int
	for i := 0; i < qsmall.Len(); i++ {
		for j := 0; j < qsmall.Len(); j++ {
			u, v := bf.Unpack(qsmall.Ops[i].V, 128, 2), bf.Unpack(qsmall.Ops[j].V, 128, 2)
			for _, c := range [][]*big.Int{u, v} {
				c[0].Mod(c[0], P)
				c[1].Mod(c[1], P)
			}
			vi0, vi1 := c12fqInv(v[0], v[1], P)
			if vi0 == nil {
				continue
			}
			w0, w1 := c12fqMul(u[0], u[1], vi0.Mod(vi0, P), vi1.Mod(vi1, P), P)
			w0.Mod(w0, P)
			w1.Mod(w1, P)
			nw := n().Add(n().Mul(w0, w0), n().Mul(w1, w1))
			nw.Mod(nw, P)
			isSq := nw.Sign() == 0 || big.Jacobi(nw, P) == 1 // w = 0 or N(w) a square in Fp <=> w a square in Fq
			if !isSq {
				nsq++
				continue
			}
			sq++
			for _, s := range []int{1, -1} {
				cid := "fourq.Fq.fqSqrt#s" + big.NewInt(int64(i)).String() + ",s" + big.NewInt(int64(j)).String()
				if r.Replaying() && r.ReplayCase() != cid {
					continue
				}
				var c, uu, vv Fq
				uu, vv = *qsmall.E[i].(*Fq), *qsmall.E[j].(*Fq)
				fqSqrt(&c, &uu, &vv, s)
				r.Eval(1)
				r.Distinct(cid, s)
				cr := bf.Unpack(q.Norm(q.Raw(&c)), 128, 2)
				// The only caller (Point.Unmarshal) treats the result as a root up to conjugation
				// (it negates c[1] when the point is off the curve), so c and conj(c) are both accepted.
				okRoot := false
				for k, c1 := range []*big.Int{cr[1], n().Mod(n().Neg(cr[1]), P)} {
					c20, c21 := c12fqMul(cr[0], c1, cr[0], c1, P)
					t0, t1 := c12fqMul(c20.Mod(c20, P), c21.Mod(c21, P), v[0], v[1], P)
					if t0.Mod(t0, P).Cmp(u[0]) == 0 && t1.Mod(t1, P).Cmp(u[1]) == 0 {
						okRoot = true
						if k == 1 {
							conj++
						}
						break
					}
				}
				if !okRoot {
					r.Violation("C12|fourq.Fq.fqSqrt|wrong-root|distinct|reduced", cid,
						"fqSqrt(u="+qsmall.Ops[i].V.Text(16)+", v="+qsmall.Ops[j].V.Text(16)+") = "+q.Raw(&c).Text(16)+": neither c nor conj(c) satisfies c^2 v = u although u/v is a square",
						map[string]string{"u": qsmall.Ops[i].V.Text(16), "v": qsmall.Ops[j].V.Text(16)})
				}
			}
		}
	}
	r.Count("fourq.Fq.fqSqrt.root-is-conjugate", conj)
	r.Count("fourq.Fq.fqSqrt.square", sq)
	r.Count("fourq.Fq.fqSqrt.nonsquare-skipped", nsq)
	r.RequireCounter("fourq.Fq.fqSqrt.square", 200)
	for i := 0; i < 3; i++ {
		k := i*all.Len()/3 + 5
		r.Sample(map[string]string{"element": all.Ops[k].Name, "value": all.Ops[k].V.Text(16)})
	}
}
