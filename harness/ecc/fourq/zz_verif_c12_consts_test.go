//go:build verif

package fourq

// C12: the package constant modulusP equals 2^127-1. Unexported identifier named here: modulusP.

import (
	"testing"

	bf "github.com/cloudflare/circl/internal/verifref/bigfield"
)

func TestVerifC12_fourqconsts(t *testing.T) {
	r, _ := c12Begin(t, "fourqconsts")
	defer r.Finish()
	r.Eval(1)
	r.Distinct("modulusP")
	if got := bf.FromLE(modulusP[:]); got.Cmp(bf.P127) != 0 {
		r.Violation("C12|fourq.modulusP|wrong-constant|-|-", "fourq.modulusP", "modulusP = "+got.Text(16), nil)
	}
}
