//go:build verif

package fourq

// C13 / FourQ: the unexported curve constants the arithmetic relies on (paramD,
// genX, genY) equal the values of the FourQ paper held by the reference model.
// Unexported names used by this file: paramD, genX, genY.

import (
	"testing"

	"github.com/cloudflare/circl/internal/verifmc"
	"github.com/cloudflare/circl/internal/verifref/ecurve"
)

func TestVerifC13_fourq_params(t *testing.T) {
	r := verifmc.Start(t, "C13", "fourq_params")
	defer r.Finish()
	r.Rule("the package constants paramD, genX, genY equal the reference model's d and generator; distinct = each constant")
	ref := ecurve.FourQ()
	f := ref.F
	for _, c := range []struct {
		name string
		got  Fq
		want interface{ String() string }
		ok   bool
	}{
		{"paramD", paramD, ref.D, f.Equal(c13FqElem(&paramD), ref.D)},
		{"genX", genX, ref.G.X, f.Equal(c13FqElem(&genX), ref.G.X)},
		{"genY", genY, ref.G.Y, f.Equal(c13FqElem(&genY), ref.G.Y)},
	} {
		r.Eval(1)
		r.Distinct(c.name)
		if !c.ok {
			r.Violation("C13|fourq.params|differ|"+c.name, "params/"+c.name, "package constant "+c.name+" differs from the FourQ paper: want "+c.want.String(), nil)
		}
	}
	r.Sample(map[string]string{"constant": "paramD", "value": ref.D.String()})
}
