//go:build verif

package fourq

// C12: the Fp conversions and predicate: toBytes, fromBytes, toBigInt, setBigInt, isZero (including every one-bit neighbour).
// Self-contained apart from the internals-free helpers file; unexported identifiers named here: toBytes, fromBytes, toBigInt, setBigInt, isZero (methods of Fp).

import (
	"math/big"
	"testing"

	bf "github.com/cloudflare/circl/internal/verifref/bigfield"
)

func TestVerifC12_fourqfpconv(t *testing.T) {
	r, k := c12Begin(t, "fourqfpconv")
	defer r.Finish()
	P := bf.P127
	_ = P
	f := c12Fp()
	all := f.Prepare("e", k.fp)
	lim := c12Lim
	for _, op := range []bf.UnOp{
		{Name: "toBytes", Do: func(z, x bf.Elem) { x.(*Fp).toBytes(z.(*Fp)[:]) }, Ref: bf.RefId, Canon: true},
		{Name: "toBigInt-setBigInt", Do: func(z, x bf.Elem) { z.(*Fp).setBigInt(x.(*Fp).toBigInt()) }, Ref: bf.RefId, Canon: true},
		{Name: "fromBytes", Do: func(z, x bf.Elem) {
			if !z.(*Fp).fromBytes(x.(*Fp)[:]) {
				// refusing the non-canonical encoding of 0 (the string p) is allowed; refusing a canonical string is not
				if bf.FromLE(x.(*Fp)[:]).Cmp(bf.P127) < 0 {
					panic("fromBytes refused a canonical 127-bit string")
				}
				r.Count("fourq.Fp.fromBytes.refused-noncanonical-p", 1)
				*z.(*Fp) = Fp{}
			}
		}, Ref: bf.RefId, Canon: true},
	} {
		f.CheckUn(r, op, all, true)
	}
	f.CheckPred(r, bf.Pred{Name: "isZero", Do: func(x bf.Elem) bool { return x.(*Fp).isZero() }, Ref: bf.RefIsZero}, all)
	{
		b := []bf.Operand{{V: new(big.Int), Name: "0"}, {V: big.NewInt(1), Name: "1"}, {V: new(big.Int).Sub(P, big.NewInt(1)), Name: "p-1"}, {V: bf.Pseudo("fourq-pred", 0, P), Name: "pseudo0"}, {V: bf.Pseudo("fourq-pred", 1, P), Name: "pseudo1"}}
		b = append(b, bf.Operand{V: P, Name: "p"})
		f.CheckBitFlips(r, bf.BitFlip{Coords: 1, Bits: 128, P: P, Limit: lim, IsZero: func(x bf.Elem) bool { return x.(*Fp).isZero() }}, b)
		r.RequireCounter("fourq.Fp.predicates.one-bit-neighbours", 6*126)
	}
	r.RequireCounter("fourq.Fp.isZero.true", 2)
	// toBigInt must be canonical
	for i := range all.Ops {
		x := new(Fp)
		*x = *all.E[i].(*Fp)
		got := x.toBigInt()
		r.Eval(1)
		if got.Cmp(all.Red[i]) != 0 {
			r.Violation("C12|fourq.Fp.toBigInt|wrong-value|-|"+map[bool]string{true: "unreduced", false: "reduced"}[all.Ops[i].V.Cmp(P) >= 0],
				"fourq.Fp.toBigInt#e"+big.NewInt(int64(i)).String(), "toBigInt("+all.Ops[i].V.Text(16)+") = "+got.Text(16), nil)
		}
	}
	// fromBytes must refuse bit 127 and wrong lengths
	refused := 0
	for i := range all.Ops {
		b := bf.LE(all.Ops[i].V, SizeFp)
		b[SizeFp-1] |= 0x80
		z := new(Fp)
		r.Eval(1)
		if z.fromBytes(b) {
			r.Violation("C12|fourq.Fp.fromBytes|accepts-128-bit|-|unreduced", "fourq.Fp.fromBytes#hi"+big.NewInt(int64(i)).String(), "fromBytes accepted a string with bit 127 set", nil)
		} else {
			refused++
		}
	}
	r.Count("fourq.Fp.fromBytes.refused-bit127", refused)
	r.Set("fp_noncanonical_zero_included", all.Unred)
}
