//go:build verif

package fourq

// C12: fqAdd / fqSub / fqMul / fqSqr / fqNeg / fqCopy (assembly BMI2 / legacy or Go) against the Fp2 reference.
// Self-contained apart from the internals-free helpers file; unexported identifiers named here: fqAdd, fqSub, fqMul, fqSqr, fqNeg, fqCopy.

import (
	"math/big"
	"testing"

	bf "github.com/cloudflare/circl/internal/verifref/bigfield"
)

func TestVerifC12_fourqfq(t *testing.T) {
	r, k := c12Begin(t, "fourqfq")
	defer r.Finish()
	P := bf.P127
	_ = P
	q := c12Fq()
	qall := q.Prepare("q", k.fq)
	qbin := []bf.BinOp{
		{Name: "fqAdd", Do: func(z, x, y bf.Elem) { fqAdd(z.(*Fq), x.(*Fq), y.(*Fq)) }, Ref: c12fq2(func(a0, a1, b0, b1, p *big.Int) (*big.Int, *big.Int) { return n().Add(a0, b0), n().Add(a1, b1) })},
		{Name: "fqSub", Do: func(z, x, y bf.Elem) { fqSub(z.(*Fq), x.(*Fq), y.(*Fq)) }, Ref: c12fq2(func(a0, a1, b0, b1, p *big.Int) (*big.Int, *big.Int) { return n().Sub(a0, b0), n().Sub(a1, b1) })},
		{Name: "fqMul", Do: func(z, x, y bf.Elem) { fqMul(z.(*Fq), x.(*Fq), y.(*Fq)) }, Ref: c12fq2(c12fqMul)},
	}
	qpair := qall
	if !r.Thorough() {
		qpair = q.Prepare("q", bf.Thin(k.fq, 420))
	}
	for _, op := range qbin {
		q.CheckBin(r, op, qpair, qpair, op.Name == "fqMul" && bf.HashPairs(qpair.Len()*qpair.Len()))
	}
	r.Count("fq_ordered_pairs", qpair.Len()*qpair.Len())
	for _, op := range []bf.UnOp{
		{Name: "fqNeg", Do: func(z, x bf.Elem) { fqNeg(z.(*Fq), x.(*Fq)) }, Ref: c12fq1(func(a0, a1, p *big.Int) (*big.Int, *big.Int) { return n().Neg(a0), n().Neg(a1) })},
		{Name: "fqSqr", Do: func(z, x bf.Elem) { fqSqr(z.(*Fq), x.(*Fq)) }, Ref: c12fq1(func(a0, a1, p *big.Int) (*big.Int, *big.Int) { return c12fqMul(a0, a1, a0, a1, p) })},
		{Name: "fqCopy", Do: func(z, x bf.Elem) { fqCopy(z.(*Fq), x.(*Fq)) }, Ref: c12fq1(func(a0, a1, p *big.Int) (*big.Int, *big.Int) { return n().Set(a0), n().Set(a1) })},
	} {
		q.CheckUn(r, op, qall, true)
	}
	r.RequireCounter("fourq.Fq.fqMul", 100000)
}
