//go:build verif

package goldilocks

// C12: Scalar.divBy4 (z = x/4 mod l, used by every scalar multiplication) against math/big.
// Self-contained; the only unexported identifier named here is divBy4.

import (
	"math/big"
	"os"
	"testing"

	"github.com/cloudflare/circl/internal/verifmc"
	bf "github.com/cloudflare/circl/internal/verifref/bigfield"
)

func TestVerifC12_goldilocksdivby4(t *testing.T) {
	if c := os.Getenv("VERIF_CONFIG"); c != "" && c != "default" {
		t.Skip("pure Go code: identical in every configuration; run under default only")
	}
	r := verifmc.Start(t, "C12", "goldilocksdivby4")
	defer r.Finish()
	if bad := bf.SelfCheck(); len(bad) != 0 {
		t.Fatalf("reference constants not bound: %v", bad)
	}
	l := bf.L448
	lim := bf.Pow2(448)
	f := bf.ByteField[Scalar]("C12", "goldilocks.Scalar", l, ScalarSize, func(s *Scalar) []byte { return s[:] }, 448, bf.Pseudo("goldilocks-junk", 0, lim), verifmc.ParallelFor)
	var ops []bf.Operand
	for k := int64(0); k <= 4; k++ {
		ops = append(ops, bf.Around(new(big.Int).Mul(l, big.NewInt(k)), -4, 4, "k*l")...)
	}
	ops = append(ops, bf.Around(lim, -8, -1, "2^448")...)
	wide := []uint64{0, 1, 2, 3, 4, 1<<62 - 1, 1 << 62, 1<<63 - 1, 1 << 63, ^uint64(0) - 3, ^uint64(0)}
	ops = append(ops, bf.LimbProduct(7, bf.Rep(7, []uint64{0, ^uint64(0)}), bf.Rep(7, wide), 1)...)
	ops = append(ops, bf.IntAlphabet(l, 64, 16, "goldilocks-divby4")...)
	all := f.Prepare("e", bf.Append(lim, ops))
	r.Set("elements", all.Len())
	r.Rule("operands: 56-byte strings (reduced or not): neighbours of k*l (k<=4) and 2^448, limb products, integer alphabet below l, 16 pseudo-random; divBy4 on every element with a junk-filled output and z=x; a distinct case is one operand")
	r.NotExhaustive("operands are the declared alphabet, not all 2^448 strings")
	four := big.NewInt(4)
	f.CheckUn(r, bf.UnOp{Name: "divBy4", Do: func(z, x bf.Elem) { z.(*Scalar).divBy4(x.(*Scalar)) }, Ref: func(out, x, p *big.Int) bool {
		out.ModInverse(four, p)
		out.Mul(out, x).Mod(out, p)
		return true
	}, Canon: true}, all, true)
	r.RequireCounter("goldilocks.Scalar.divBy4", 500)
	r.Sample(map[string]string{"element": all.Ops[9].Name, "value": all.Ops[9].V.Text(16)})
}
