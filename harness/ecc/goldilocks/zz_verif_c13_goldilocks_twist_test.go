//go:build verif

package goldilocks

// C13 / Goldilocks internal twist curve: twistCurve.ScalarMult, ScalarBaseMult and
// CombinedMult against ref/ecurve.Twist448. Unexported names used by this file
// (and only these): twistCurve{ScalarMult, ScalarBaseMult, CombinedMult},
// twistPoint{x, y, z, ta, tb}.

import (
	"math/big"
	"testing"

	"github.com/cloudflare/circl/internal/verifmc"
	"github.com/cloudflare/circl/internal/verifref/curvealpha"
	"github.com/cloudflare/circl/internal/verifref/ecurve"
	"github.com/cloudflare/circl/internal/verifref/fpx"
	fp "github.com/cloudflare/circl/math/fp448"
)

func TestVerifC13_goldilocks_twist(t *testing.T) {
	r := verifmc.Start(t, "C13", "goldilocks_twist")
	defer r.Finish()
	r.Rule("internal twist curve -x^2+y^2 = 1-39082x^2y^2: twistCurve.ScalarMult on SC x Iso448(PT), twistCurve.ScalarBaseMult on SC (base = Iso448(G)), " +
		"twistCurve.CombinedMult on SCc x SCc x Iso448(PTc) (thorough: SC x SC x PT); the Point predicates (IsIdentity, IsOnCurve, IsEqual) are asked about the dual-isogeny image of every freshly computed twist point " +
		"(when the isogeny file builds); distinct = distinct (operation, operand names)")
	var tc twistCurve
	tw := ecurve.Twist448()
	N := tw.N
	sc := curvealpha.Scalars(N, 448, r.Seed())
	logs := curvealpha.PointLogs(N)
	r.Set("scalars", len(sc))
	r.Set("points", len(logs))
	r.State(len(logs))
	mkTw := func(P ecurve.Point) *twistPoint {
		x, y := c13Elt(P.X.A), c13Elt(P.Y.A)
		return &twistPoint{x: x, y: y, z: fp.One(), ta: x, tb: y}
	}
	checkTw := func(op, class, id string, got *twistPoint, want ecurve.Point, payload interface{}) {
		c13CheckTwist(r, "twist", op, class, id, &got.x, &got.y, &got.z, &got.ta, &got.tb,
			func() *Point { f := *got; return c13TwistDown(&f) }, want, payload)
	}
	try := func(op, id string, f func()) bool {
		if p, what := verifmc.Try(f); p {
			r.Violation("C13|goldilocks.twist."+op+"|panic:"+verifmc.PanicClass(what), id, what, nil)
			return false
		}
		return true
	}
	twPts := make([]ecurve.Point, len(logs)) // Iso448([a]G) = [a]Iso448(G)
	for i, a := range logs {
		twPts[i] = tw.BaseMult(a.V)
	}

	// ---- twist ScalarMult / ScalarBaseMult
	verifmc.ParallelFor(len(sc)*len(logs), func(idx int) {
		s, i := sc[idx/len(logs)], idx%len(logs)
		a := logs[i]
		id := "twmult/" + s.Name + "/" + a.Name
		if !r.Want(id) {
			return
		}
		payload := map[string]string{"k_le": verifmc.FullHex(fpx.ToLE(s.V, ScalarSize)), "log": a.V.Text(16)}
		var out *twistPoint
		if try("ScalarMult", id, func() { out = tc.ScalarMult(c13Scalar(s.V), mkTw(twPts[i])) }) {
			checkTw("ScalarMult", "k="+s.Name+"|P="+a.Name, id, out, tw.BaseMult(new(big.Int).Mul(s.V, a.V)), payload)
		}
		r.Eval(1)
		r.Transition(1)
		r.Distinct("twmult", s.Name, a.Name)
		if s.V.Bit(0) == 0 {
			r.Count("even_scalar", 1)
		}
		if new(big.Int).Mod(s.V, N).Sign() == 0 {
			r.Count("scalar_multiple_of_order", 1)
		}
		if i == 0 {
			id := "twbase/" + s.Name
			var out *twistPoint
			if try("ScalarBaseMult", id, func() { out = tc.ScalarBaseMult(c13Scalar(s.V)) }) {
				checkTw("ScalarBaseMult", "k="+s.Name, id, out, tw.BaseMult(s.V), payload)
			}
			r.Eval(1)
			r.Transition(1)
			r.Distinct("twbase", s.Name)
		}
	})
	r.Sample(map[string]string{"op": "twist.ScalarMult", "k": "n-1", "P": "Iso448(" + logs[1].Name + ")"})

	// ---- twist CombinedMult
	ms := curvealpha.Core(sc)
	var qs []int
	for i, a := range logs {
		if a.Core || r.Thorough() {
			qs = append(qs, i)
		}
	}
	if r.Thorough() {
		ms = sc
	}
	verifmc.ParallelFor(len(ms)*len(ms)*len(qs), func(idx int) {
		qi := qs[idx%len(qs)]
		m, n := ms[idx/len(qs)/len(ms)], ms[idx/len(qs)%len(ms)]
		a := logs[qi]
		id := "twcomb/" + m.Name + "/" + n.Name + "/" + a.Name
		if !r.Want(id) || r.Expired() {
			return
		}
		ex := new(big.Int).Mul(n.V, a.V)
		ex.Add(ex, m.V)
		rel := c13Rel(m.V, n.V, N)
		var out *twistPoint
		if try("CombinedMult", id, func() { out = tc.CombinedMult(c13Scalar(m.V), c13Scalar(n.V), mkTw(twPts[qi])) }) {
			checkTw("CombinedMult", "Q="+a.Name+"|"+rel, id, out, tw.BaseMult(ex),
				map[string]string{"m_le": verifmc.FullHex(fpx.ToLE(m.V, ScalarSize)), "n_le": verifmc.FullHex(fpx.ToLE(n.V, ScalarSize)), "log": a.V.Text(16)})
		}
		r.Eval(1)
		r.Transition(1)
		r.Distinct("twcomb", m.Name, n.Name, a.Name)
		if a.Name == "1G" && rel == "m=n" {
			r.Count("comb_Q_eq_G_and_m_eq_n", 1)
		}
	})
	r.RequireCounter("even_scalar", 50)
	r.RequireCounter("scalar_multiple_of_order", 10)
	r.RequireCounter("comb_Q_eq_G_and_m_eq_n", 5)
	if c13TwistDown != nil {
		r.RequireCounter("identity_results_queried", 100)
		r.RequireCounter("non_identity_results_queried", 1000)
	} else {
		r.Set("predicate_queries", "unavailable: the isogeny file did not build against this tree")
	}
}
