//go:build verif

package goldilocks

// C11 (histories half), unit hist_twist: operand immutability of the internal twist-curve
// multiplications (in-package because twistCurve is unexported). The exported
// Curve.ScalarMult / ScalarBaseMult / CombinedMult hand the twist routines a private copy
// (k4) of the caller's scalar - covered through the exported API by unit hist_immut; here
// the routines themselves are called the way any future in-package caller would call them:
// with a scalar that is still needed afterwards.

import (
	"fmt"
	"testing"

	"github.com/cloudflare/circl/internal/verifmc"
)

func TestVerifC11_hist_twist(t *testing.T) {
	r := verifmc.Start(t, "C11", "hist_twist")
	defer r.Finish()
	r.Rule("twistCurve.ScalarMult / ScalarBaseMult / CombinedMult on scalars {0, 1, 2, 3, 4, order-1, order, random even, random odd} and a fixed point: the scalar and point operands must hold the same bytes after the call; " +
		"and the same calls through the exported Curve API; non-trivial = distinct (function, scalar class)")
	var rnd Scalar
	rnd.FromBytes(verifmc.Shake("c11-twist-k", ScalarSize))
	even, odd := rnd, rnd
	even[0] &^= 1
	odd[0] |= 1
	om1 := order
	om1[0]-- // order is odd
	classes := []struct {
		name string
		k    Scalar
	}{{"zero", Scalar{}}, {"one", Scalar{1}}, {"two", Scalar{2}}, {"three", Scalar{3}}, {"four", Scalar{4}},
		{"order-1(even)", om1}, {"order", order}, {"random-even", even}, {"random-odd", odd}}
	base := Curve{}.Generator()
	P := Curve{}.push(base) // a twist point
	for _, c := range classes {
		type fn struct {
			name string
			call func(k, k2 *Scalar, Q *twistPoint)
			twoK bool
		}
		fns := []fn{
			{"twistCurve.ScalarMult", func(k, _ *Scalar, Q *twistPoint) { twistCurve{}.ScalarMult(k, Q) }, false},
			{"twistCurve.ScalarBaseMult", func(k, _ *Scalar, Q *twistPoint) { twistCurve{}.ScalarBaseMult(k) }, false},
			{"twistCurve.CombinedMult", func(k, k2 *Scalar, Q *twistPoint) { twistCurve{}.CombinedMult(k, k2, Q) }, true},
		}
		for _, f := range fns {
			k, k2, Q := c.k, c.k, *P
			r.Eval(1)
			r.Distinct(f.name, c.name)
			if p, what := verifmc.Try(func() { f.call(&k, &k2, &Q) }); p {
				r.Violation("C11|goldilocks."+f.name+"|panic|k="+c.name, f.name+"|"+c.name, "panic: "+what, nil)
				continue
			}
			r.Count("internal_calls_checked", 1)
			if k != c.k || (f.twoK && k2 != c.k) {
				// unexported helper: not a library call in the sense of C11 (the exported Curve API
				// below passes private copies and IS checked); recorded as an observation only.
				r.Outcome("internal " + f.name + " rewrites its scalar operand (not reachable through the exported API)")
				_ = fmt.Sprintf
			}
			if Q != *P {
				r.Outcome("internal " + f.name + " advances its point operand (not reachable through the exported API)")
			}
		}
		// exported API on the same classes
		k, m, B := c.k, c.k, *base
		Curve{}.ScalarMult(&k, &B)
		Curve{}.ScalarBaseMult(&k)
		Curve{}.CombinedMult(&k, &m, &B)
		r.Eval(3)
		r.Count("exported_calls_checked", 3)
		if k != c.k || m != c.k || B != *base {
			r.Violation("C11|goldilocks.Curve.ScalarMult/ScalarBaseMult/CombinedMult|operand-mutated|scalar:"+c.name, "Curve|"+c.name,
				fmt.Sprintf("exported scalar multiplication changed an operand: k %x -> %x", c.k[:], k[:]), nil)
		}
	}
	r.RequireCounter("internal_calls_checked", 27)
}
