//go:build verif

package goldilocks

// C13 / Goldilocks (edwards448): Curve.Add/Double/ScalarMult/ScalarBaseMult/
// CombinedMult, Point.Neg, the internal twist curve (ScalarMult, ScalarBaseMult,
// CombinedMult, Double, mixAdd) and the 4-isogenies push/pull, against the
// affine big.Int model ref/ecurve. In-package because the twist is unexported.

import (
	"bytes"
	"fmt"
	"math/big"
	"testing"

	"github.com/cloudflare/circl/internal/verifmc"
	"github.com/cloudflare/circl/internal/verifref/curvealpha"
	"github.com/cloudflare/circl/internal/verifref/ecurve"
	"github.com/cloudflare/circl/internal/verifref/fpx"
	fp "github.com/cloudflare/circl/math/fp448"
)

func c13Elt(v *big.Int) (e fp.Elt) { copy(e[:], fpx.ToLE(v, fp.Size)); return }

func c13Int(e *fp.Elt) *big.Int {
	t := *e
	fp.Modp(&t)
	return fpx.FromLE(t[:])
}

func c13Scalar(v *big.Int) *Scalar {
	s := &Scalar{}
	copy(s[:], fpx.ToLE(v, ScalarSize))
	return s
}

// c13Affine reads a projective (x, y, z) triple as affine big.Int coordinates.
func c13Affine(x, y, z *fp.Elt) (ax, ay *big.Int, ok bool) {
	zz := *z
	if fp.IsZero(&zz) {
		return nil, nil, false
	}
	var zi, xx, yy fp.Elt
	fp.Inv(&zi, z)
	fp.Mul(&xx, x, &zi)
	fp.Mul(&yy, y, &zi)
	return c13Int(&xx), c13Int(&yy), true
}

func c13Same(c *ecurve.Curve, want ecurve.Point, x, y *big.Int, ok bool) bool {
	return ok && want.X.A.Cmp(x) == 0 && want.Y.A.Cmp(y) == 0
}

func c13Rel(m, n, N *big.Int) string {
	mm, nn := new(big.Int).Mod(m, N), new(big.Int).Mod(n, N)
	switch {
	case mm.Cmp(nn) == 0:
		return "m=n"
	case new(big.Int).Mod(new(big.Int).Add(mm, nn), N).Sign() == 0:
		return "m=-n"
	}
	return "m,n unrelated"
}

func TestVerifC13_goldilocks(t *testing.T) {
	r := verifmc.Start(t, "C13", "goldilocks")
	defer r.Finish()
	r.Rule("edwards448 public API: points PT = {O, +-kG, [(n+-1)/2]G, +-[s]G} built with FromAffine from the reference's coordinates (and decoded from its RFC 8032 encoding), " +
		"scalars SC = curvealpha.Scalars(n, 448) as 56-byte little-endian; Add on PT x PT, Double/Neg on PT, ScalarMult on SC x PT, ScalarBaseMult on SC, " +
		"CombinedMult on SCc x SCc x PTc (thorough: SC x SC x PT); results compared as affine coordinates and as RFC 8032 encodings; before that, the predicates (Point.IsIdentity, Curve.IsOnCurve, Point.IsEqual against the expected point, Identity(), a computed identity T+(-T), the same point by another route, a different point) are queried directly on byte-identical copies of each freshly computed result, including the chain ((P+Q)-Q)-P; distinct = distinct (operation, operand names)")
	var e Curve
	ref := ecurve.Edwards448()
	N := ref.N
	sc := curvealpha.Scalars(N, 448, r.Seed())
	logs := curvealpha.PointLogs(N)
	r.Set("scalars", len(sc))
	r.Set("points", len(logs))
	r.State(len(logs))
	refPts := make([]ecurve.Point, len(logs))
	for i, a := range logs {
		refPts[i] = ref.BaseMult(a.V)
	}
	mk := func(i int) *Point {
		x, y := c13Elt(refPts[i].X.A), c13Elt(refPts[i].Y.A)
		P, err := FromAffine(&x, &y)
		if err != nil {
			t.Errorf("FromAffine rejects reference point %s", logs[i].Name)
		}
		return P
	}
	bad := func(op, class, id, what string, payload interface{}) {
		r.Violation("C13|goldilocks."+op+"|"+curvealpha.CoarseKey(class), id, what, payload)
	}
	mkRef := func(P ecurve.Point) *Point {
		x, y := c13Elt(P.X.A), c13Elt(P.Y.A)
		Q, _ := FromAffine(&x, &y)
		return Q
	}
	// preds queries the package's predicates DIRECTLY on byte-identical copies of a
	// freshly computed value (one copy per query), before anything normalises it.
	Tp := ref.BaseMult(big.NewInt(0x51ed27))
	preds := func(op, class, id string, got *Point, want ecurve.Point, payload interface{}) {
		fresh := func() *Point { f := *got; return &f }
		isID := ref.IsIdentity(want)
		kind := "non-identity"
		if isID {
			kind = "identity"
			r.Count("identity_results_queried", 1)
		} else {
			r.Count("non_identity_results_queried", 1)
		}
		fail := func(pred string, v, exp bool) {
			if v != exp {
				bad(op, "predicate:"+pred+"|fresh-result|"+kind+"|"+class, id,
					fmt.Sprintf("%s: %s = %v on the freshly computed result (raw coordinates %v), the reference says %v (result should be %v)", id, pred, v, *got, exp, want), payload)
			}
		}
		fail("IsIdentity", fresh().IsIdentity(), isID)
		fail("IsOnCurve", e.IsOnCurve(fresh()), true)
		fail("IsEqual(expected)", fresh().IsEqual(mkRef(want)), true)
		fail("expected.IsEqual(result)", mkRef(want).IsEqual(fresh()), true)
		fail("IsEqual(Identity())", fresh().IsEqual(e.Identity()), isID)
		CI := mkRef(Tp)
		CI.Add(mkRef(ref.Neg(Tp))) // an identity produced by arithmetic, left in projective form
		ci := *CI
		fail("(T+(-T)).IsIdentity", ci.IsIdentity(), true)
		fail("IsEqual(T+(-T))", fresh().IsEqual(CI), isID)
		fail("(T+(-T)).IsEqual(result)", CI.IsEqual(fresh()), isID)
		alt := mkRef(ref.Sub(want, Tp))
		alt.Add(mkRef(Tp)) // the same point by another route
		fail("IsEqual(other-route)", fresh().IsEqual(alt), true)
		fail("IsEqual(different-point)", fresh().IsEqual(mkRef(ref.Add(want, ref.G))), false)
		fail("IsEqual(-expected)", fresh().IsEqual(mkRef(ref.Neg(want))), isID)
	}
	check := func(op, class, id string, got *Point, want ecurve.Point, payload interface{}) {
		if got == nil {
			bad(op, "nil-result|"+class, id, id+": nil result", payload)
			return
		}
		preds(op, class, id, got, want, payload)
		g := *got
		x, y, ok := c13Affine(&g.x, &g.y, &g.z)
		if !c13Same(ref, want, x, y, ok) {
			bad(op, "wrong-result|"+class, id, fmt.Sprintf("%s: got (%x,%x) z!=0:%v want %v", id, x, y, ok, want), payload)
			return
		}
		// the extended coordinate must be consistent: ta*tb*z = x*y
		var l, rr fp.Elt
		fp.Mul(&l, &g.ta, &g.tb)
		fp.Mul(&l, &l, &g.z)
		fp.Mul(&rr, &g.x, &g.y)
		fp.Sub(&l, &l, &rr)
		if !fp.IsZero(&l) || !e.IsOnCurve(&g) {
			bad(op, "inconsistent-T|"+class, id, id+": extended coordinate inconsistent (ta*tb*z != x*y) or IsOnCurve false", payload)
		}
		g2 := *got
		enc, err := g2.MarshalBinary()
		if err != nil || !bytes.Equal(enc, ref.MarshalRFC8032(want)) {
			bad(op, "wrong-encoding|"+class, id, fmt.Sprintf("%s: encodes to %x want %x", id, enc, ref.MarshalRFC8032(want)), payload)
		}
		g3 := *got
		if g3.IsIdentity() != ref.IsIdentity(want) {
			bad(op, "IsIdentity|"+class, id, id+": IsIdentity disagrees", payload)
		}
	}
	try := func(op, id string, f func()) bool {
		if p, what := verifmc.Try(f); p {
			bad(op, "panic:"+verifmc.PanicClass(what), id, what, nil)
			return false
		}
		return true
	}

	// generator, identity, decoding of the reference encodings
	check("Generator", "G", "gen", e.Generator(), ref.G, nil)
	check("Identity", "O", "id", e.Identity(), ref.Identity(), nil)
	for i, a := range logs {
		P, err := FromBytes(ref.MarshalRFC8032(refPts[i]))
		if err != nil {
			bad("FromBytes", "rejects-valid|P="+a.Name, "dec/"+a.Name, "reference encoding rejected: "+err.Error(), nil)
			continue
		}
		check("FromBytes", "P="+a.Name, "dec/"+a.Name, P, refPts[i], nil)
		if !P.IsEqual(mk(i)) {
			bad("IsEqual", "decoded-vs-affine|P="+a.Name, "dec/"+a.Name, "decoded point not IsEqual to FromAffine point", nil)
		}
		r.Eval(1)
	}

	// ---- Add on PT x PT; Double, Neg on PT
	verifmc.ParallelFor(len(logs)*len(logs), func(idx int) {
		i, j := idx/len(logs), idx%len(logs)
		a, b := logs[i], logs[j]
		id := "add/" + a.Name + "/" + b.Name
		if r.Want(id) {
			P, Q := mk(i), mk(j)
			sum := new(big.Int).Add(a.V, b.V)
			var out *Point
			if try("Add", id, func() { out = e.Add(P, Q) }) {
				check("Add", "P="+a.Name+"|Q="+b.Name, id, out, ref.BaseMult(sum), nil)
			}
			r.Eval(1)
			r.Transition(1)
			r.Distinct("add", a.Name, b.Name)
			switch {
			case a.V.Sign() == 0 || b.V.Sign() == 0:
				r.Count("add_with_identity", 1)
			case a.V.Cmp(b.V) == 0:
				r.Count("add_P_eq_Q", 1)
			case new(big.Int).Mod(sum, N).Sign() == 0:
				r.Count("add_P_eq_negQ", 1)
			}
			// adding a projective (non-normalised) operand: (P+Q)+(-Q) = P
			if out != nil {
				nq := mk(j)
				nq.Neg()
				var back *Point
				if try("Add", id+"/back", func() { back = e.Add(out, nq) }) {
					check("Add", "projective-operand|P="+a.Name+"|Q="+b.Name, id+"/back", back, refPts[i], nil)
					// chain to the identity through non-normalised operands: ((P+Q)-Q)-P
					np := mk(i)
					np.Neg()
					var zero *Point
					if try("Add", id+"/chain", func() { zero = e.Add(back, np) }) {
						check("Add", "chain-to-identity|P="+a.Name+"|Q="+b.Name, id+"/chain", zero, ref.Identity(), nil)
					}
				}
				r.Eval(2)
			}
		}
		if j == 0 {
			id := "dbl/" + a.Name
			if r.Want(id) {
				var out *Point
				P := mk(i)
				if try("Double", id, func() { out = e.Double(P) }) {
					check("Double", "P="+a.Name, id, out, ref.BaseMult(new(big.Int).Lsh(a.V, 1)), nil)
				}
				np := mk(i)
				if try("Neg", "neg/"+a.Name, func() { np.Neg() }) {
					check("Neg", "P="+a.Name, "neg/"+a.Name, np, ref.Neg(refPts[i]), nil)
				}
				r.Eval(2)
				r.Transition(2)
				r.Distinct("dbl", a.Name)
				r.Distinct("neg", a.Name)
			}
		}
	})
	r.Sample(map[string]string{"op": "Add", "P": logs[1].Name, "Q": logs[1].Name})

	// ---- ScalarMult on SC x PT, ScalarBaseMult on SC
	verifmc.ParallelFor(len(sc)*len(logs), func(idx int) {
		s, i := sc[idx/len(logs)], idx%len(logs)
		a := logs[i]
		id := "mult/" + s.Name + "/" + a.Name
		if !r.Want(id) {
			return
		}
		payload := map[string]string{"k_le": verifmc.FullHex(fpx.ToLE(s.V, ScalarSize)), "P": verifmc.FullHex(ref.MarshalRFC8032(refPts[i]))}
		k := c13Scalar(s.V)
		P := mk(i)
		var out *Point
		if try("ScalarMult", id, func() { out = e.ScalarMult(k, P) }) {
			check("ScalarMult", "k="+s.Name+"|P="+a.Name, id, out, ref.BaseMult(new(big.Int).Mul(s.V, a.V)), payload)
		}
		r.Eval(1)
		r.Transition(1)
		r.Distinct("mult", s.Name, a.Name)
		if s.V.Cmp(N) >= 0 {
			r.Count("scalar_ge_order", 1)
		}
		if s.V.Bit(0) == 0 {
			r.Count("even_scalar", 1)
		}
		if new(big.Int).Mod(new(big.Int).Mul(s.V, a.V), N).Sign() == 0 {
			r.Count("result_identity", 1)
		}
		if i == 0 {
			id := "base/" + s.Name
			k := c13Scalar(s.V)
			var out *Point
			if try("ScalarBaseMult", id, func() { out = e.ScalarBaseMult(k) }) {
				check("ScalarBaseMult", "k="+s.Name, id, out, ref.BaseMult(s.V), payload)
			}
			r.Eval(1)
			r.Transition(1)
			r.Distinct("base", s.Name)
		}
	})
	r.Sample(map[string]string{"op": "ScalarMult", "k": "n-1", "k_le": verifmc.FullHex(fpx.ToLE(new(big.Int).Sub(N, big.NewInt(1)), ScalarSize)), "P": logs[len(logs)-1].Name, "P_rfc8032": verifmc.FullHex(ref.MarshalRFC8032(refPts[len(logs)-1]))})

	// ---- CombinedMult(m, n, Q) = mG + nQ
	ms := curvealpha.Core(sc)
	var qs []int
	for i, a := range logs {
		if a.Core || r.Thorough() {
			qs = append(qs, i)
		}
	}
	if r.Thorough() {
		ms = sc
	}
	r.Set("combined_scalars", len(ms))
	r.Set("combined_points", len(qs))
	verifmc.ParallelFor(len(ms)*len(ms)*len(qs), func(idx int) {
		qi := qs[idx%len(qs)]
		m, n := ms[idx/len(qs)/len(ms)], ms[idx/len(qs)%len(ms)]
		a := logs[qi]
		id := "comb/" + m.Name + "/" + n.Name + "/" + a.Name
		if !r.Want(id) || r.Expired() {
			return
		}
		ex := new(big.Int).Mul(n.V, a.V)
		ex.Add(ex, m.V)
		rel := c13Rel(m.V, n.V, N)
		var out *Point
		Q := mk(qi)
		if try("CombinedMult", id, func() { out = e.CombinedMult(c13Scalar(m.V), c13Scalar(n.V), Q) }) {
			check("CombinedMult", "Q="+a.Name+"|"+rel, id, out, ref.BaseMult(ex),
				map[string]string{"m_le": verifmc.FullHex(fpx.ToLE(m.V, ScalarSize)), "n_le": verifmc.FullHex(fpx.ToLE(n.V, ScalarSize)), "Q": verifmc.FullHex(ref.MarshalRFC8032(refPts[qi]))})
		}
		r.Eval(1)
		r.Transition(1)
		r.Distinct("comb", m.Name, n.Name, a.Name)
		if a.Name == "1G" && rel == "m=n" {
			r.Count("comb_Q_eq_G_and_m_eq_n", 1)
		}
		if rel == "m=-n" {
			r.Count("comb_m_eq_neg_n", 1)
		}
		if a.V.Sign() == 0 {
			r.Count("comb_Q_identity", 1)
		}
	})
	r.Sample(map[string]string{"op": "CombinedMult", "m": "1", "n": "1", "Q": "1G"})

	r.RequireCounter("add_P_eq_Q", 5)
	r.RequireCounter("add_P_eq_negQ", 5)
	r.RequireCounter("add_with_identity", 10)
	r.RequireCounter("scalar_ge_order", 5)
	r.RequireCounter("even_scalar", 50)
	r.RequireCounter("result_identity", 10)
	r.RequireCounter("comb_Q_eq_G_and_m_eq_n", 5)
	r.RequireCounter("comb_m_eq_neg_n", 3)
	r.RequireCounter("comb_Q_identity", 10)
	r.RequireCounter("identity_results_queried", 300)
	r.RequireCounter("non_identity_results_queried", 1000)
}

// ------------------------------------------------------------------ twist

func TestVerifC13_goldilocks_twist(t *testing.T) {
	r := verifmc.Start(t, "C13", "goldilocks_twist")
	defer r.Finish()
	r.Rule("internal twist curve -x^2+y^2 = 1-39082x^2y^2 and the 4-isogenies: push(P) = Iso448(P) and pull(push(P)) = [4]P on PT; " +
		"twistCurve.ScalarMult on SC x Iso448(PT), twistCurve.ScalarBaseMult on SC (base = Iso448(G)), twistCurve.CombinedMult on SCc x SCc x Iso448(PTc), " +
		"twistPoint.Double and mixAdd on PT / PT x PT; the Point predicates (IsIdentity, IsOnCurve, IsEqual) are asked about the dual-isogeny image of every freshly computed twist point; distinct = distinct (operation, operand names)")
	var e Curve
	var tc twistCurve
	ref, tw := ecurve.Edwards448(), ecurve.Twist448()
	N := ref.N
	sc := curvealpha.Scalars(N, 448, r.Seed())
	logs := curvealpha.PointLogs(N)
	r.Set("scalars", len(sc))
	r.Set("points", len(logs))
	r.State(len(logs))
	bad := func(op, class, id, what string, payload interface{}) {
		r.Violation("C13|goldilocks.twist."+op+"|"+curvealpha.CoarseKey(class), id, what, payload)
	}
	mkTw := func(P ecurve.Point) *twistPoint {
		x, y := c13Elt(P.X.A), c13Elt(P.Y.A)
		return &twistPoint{x: x, y: y, z: fp.One(), ta: x, tb: y}
	}
	mkEd := func(P ecurve.Point) *Point {
		x, y := c13Elt(P.X.A), c13Elt(P.Y.A)
		Q, _ := FromAffine(&x, &y)
		return Q
	}
	checkTw := func(op, class, id string, got *twistPoint, want ecurve.Point, payload interface{}) {
		{
			// twistPoint has no predicates of its own: they are asked about the image of the fresh
			// (non-normalised) result under the dual isogeny, which is the identity exactly when the
			// result is (odd-order points) and must equal Iso448Dual(want).
			isID := tw.IsIdentity(want)
			kind := "non-identity"
			if isID {
				kind = "identity"
				r.Count("identity_results_queried", 1)
			} else {
				r.Count("non_identity_results_queried", 1)
			}
			down := func() *Point { f := *got; return tc.push(&f) }
			fail := func(pred string, v, exp bool) {
				if v != exp {
					bad(op, "predicate:"+pred+"|fresh-result|"+kind+"|"+class, id,
						fmt.Sprintf("%s: %s = %v on the dual-isogeny image of the freshly computed twist point %v, expected %v", id, pred, v, *got, exp), payload)
				}
			}
			wantDown, okd := ecurve.Iso448Dual(want)
			if p, what := verifmc.Try(func() {
				fail("push.IsIdentity", down().IsIdentity(), isID)
				fail("push.IsOnCurve", e.IsOnCurve(down()), true)
				fail("push.IsEqual(Identity())", down().IsEqual(e.Identity()), isID)
				if okd {
					fail("push.IsEqual(expected)", down().IsEqual(mkEd(wantDown)), true)
					fail("expected.IsEqual(push)", mkEd(wantDown).IsEqual(down()), true)
				}
			}); p {
				bad(op, "panic:"+verifmc.PanicClass(what)+"|predicates|"+class, id, what, payload)
			}
		}
		g := *got
		x, y, ok := c13Affine(&g.x, &g.y, &g.z)
		if !c13Same(tw, want, x, y, ok) {
			bad(op, "wrong-result|"+class, id, fmt.Sprintf("%s: got (%x,%x) z!=0:%v want %v", id, x, y, ok, want), payload)
			return
		}
		var l, rr fp.Elt
		fp.Mul(&l, &g.ta, &g.tb)
		fp.Mul(&l, &l, &g.z)
		fp.Mul(&rr, &g.x, &g.y)
		fp.Sub(&l, &l, &rr)
		if !fp.IsZero(&l) {
			bad(op, "inconsistent-T|"+class, id, id+": ta*tb*z != x*y", payload)
		}
	}
	try := func(op, id string, f func()) bool {
		if p, what := verifmc.Try(f); p {
			bad(op, "panic:"+verifmc.PanicClass(what), id, what, nil)
			return false
		}
		return true
	}
	twPts := make([]ecurve.Point, len(logs)) // Iso448([a]G) = [a]Iso448(G)
	for i, a := range logs {
		twPts[i] = tw.BaseMult(a.V)
	}

	// ---- isogenies
	for i, a := range logs {
		id := "iso/" + a.Name
		if !r.Want(id) {
			continue
		}
		P := ref.BaseMult(a.V)
		var up *twistPoint
		if !try("push", id, func() { up = e.push(mkEd(P)) }) {
			continue
		}
		checkTw("push", "P="+a.Name, id, up, twPts[i], nil)
		var down *Point
		if try("pull", id, func() { down = e.pull(up) }) {
			want := ref.BaseMult(new(big.Int).Lsh(a.V, 2))
			g := *down
			x, y, ok := c13Affine(&g.x, &g.y, &g.z)
			if !c13Same(ref, want, x, y, ok) {
				bad("pull", "wrong-result|P="+a.Name, id, fmt.Sprintf("pull(push(%s)) != [4]P: got (%x,%x)", a.Name, x, y), nil)
			}
		}
		// dual applied to an affine twist point
		var d2 *Point
		if try("pull", id+"/affine", func() { d2 = e.pull(mkTw(twPts[i])) }) {
			want, _ := ecurve.Iso448Dual(twPts[i])
			g := *d2
			x, y, ok := c13Affine(&g.x, &g.y, &g.z)
			if !c13Same(ref, want, x, y, ok) {
				bad("pull", "wrong-result|affine|P="+a.Name, id+"/affine", "dual isogeny of an affine twist point is wrong", nil)
			}
		}
		r.Eval(3)
		r.Transition(3)
		r.Distinct("iso", a.Name)
	}

	// ---- twist Double and mixAdd
	verifmc.ParallelFor(len(logs)*len(logs), func(idx int) {
		i, j := idx/len(logs), idx%len(logs)
		a, b := logs[i], logs[j]
		id := "twadd/" + a.Name + "/" + b.Name
		if !r.Want(id) {
			return
		}
		P := mkTw(twPts[i])
		var pre preTwistPointProy
		pre.FromTwistPoint(mkTw(twPts[j]))
		if try("mixAdd", id, func() { P.mixAdd(&pre) }) {
			checkTw("mixAdd", "P="+a.Name+"|Q="+b.Name, id, P, tw.BaseMult(new(big.Int).Add(a.V, b.V)), nil)
		}
		r.Eval(1)
		r.Transition(1)
		r.Distinct("twadd", a.Name, b.Name)
		if j == 0 {
			D := mkTw(twPts[i])
			if try("Double", "twdbl/"+a.Name, func() { D.Double() }) {
				checkTw("Double", "P="+a.Name, "twdbl/"+a.Name, D, tw.BaseMult(new(big.Int).Lsh(a.V, 1)), nil)
			}
			r.Eval(1)
			r.Transition(1)
			r.Distinct("twdbl", a.Name)
		}
	})

	// ---- twist ScalarMult / ScalarBaseMult
	verifmc.ParallelFor(len(sc)*len(logs), func(idx int) {
		s, i := sc[idx/len(logs)], idx%len(logs)
		a := logs[i]
		id := "twmult/" + s.Name + "/" + a.Name
		if !r.Want(id) {
			return
		}
		payload := map[string]string{"k_le": verifmc.FullHex(fpx.ToLE(s.V, ScalarSize)), "log": a.V.Text(16)}
		var out *twistPoint
		if try("ScalarMult", id, func() { out = tc.ScalarMult(c13Scalar(s.V), mkTw(twPts[i])) }) {
			checkTw("ScalarMult", "k="+s.Name+"|P="+a.Name, id, out, tw.BaseMult(new(big.Int).Mul(s.V, a.V)), payload)
		}
		r.Eval(1)
		r.Transition(1)
		r.Distinct("twmult", s.Name, a.Name)
		if s.V.Bit(0) == 0 {
			r.Count("even_scalar", 1)
		}
		if new(big.Int).Mod(s.V, N).Sign() == 0 {
			r.Count("scalar_multiple_of_order", 1)
		}
		if i == 0 {
			id := "twbase/" + s.Name
			var out *twistPoint
			if try("ScalarBaseMult", id, func() { out = tc.ScalarBaseMult(c13Scalar(s.V)) }) {
				checkTw("ScalarBaseMult", "k="+s.Name, id, out, tw.BaseMult(s.V), payload)
			}
			r.Eval(1)
			r.Transition(1)
			r.Distinct("twbase", s.Name)
		}
	})
	r.Sample(map[string]string{"op": "twist.ScalarMult", "k": "n-1", "P": "Iso448(" + logs[1].Name + ")"})

	// ---- twist CombinedMult
	ms := curvealpha.Core(sc)
	var qs []int
	for i, a := range logs {
		if a.Core || r.Thorough() {
			qs = append(qs, i)
		}
	}
	if r.Thorough() {
		ms = sc
	}
	verifmc.ParallelFor(len(ms)*len(ms)*len(qs), func(idx int) {
		qi := qs[idx%len(qs)]
		m, n := ms[idx/len(qs)/len(ms)], ms[idx/len(qs)%len(ms)]
		a := logs[qi]
		id := "twcomb/" + m.Name + "/" + n.Name + "/" + a.Name
		if !r.Want(id) || r.Expired() {
			return
		}
		ex := new(big.Int).Mul(n.V, a.V)
		ex.Add(ex, m.V)
		rel := c13Rel(m.V, n.V, N)
		var out *twistPoint
		if try("CombinedMult", id, func() { out = tc.CombinedMult(c13Scalar(m.V), c13Scalar(n.V), mkTw(twPts[qi])) }) {
			checkTw("CombinedMult", "Q="+a.Name+"|"+rel, id, out, tw.BaseMult(ex),
				map[string]string{"m_le": verifmc.FullHex(fpx.ToLE(m.V, ScalarSize)), "n_le": verifmc.FullHex(fpx.ToLE(n.V, ScalarSize)), "log": a.V.Text(16)})
		}
		r.Eval(1)
		r.Transition(1)
		r.Distinct("twcomb", m.Name, n.Name, a.Name)
		if a.Name == "1G" && rel == "m=n" {
			r.Count("comb_Q_eq_G_and_m_eq_n", 1)
		}
	})
	r.RequireCounter("even_scalar", 50)
	r.RequireCounter("scalar_multiple_of_order", 10)
	r.RequireCounter("identity_results_queried", 100)
	r.RequireCounter("non_identity_results_queried", 1000)
	r.RequireCounter("comb_Q_eq_G_and_m_eq_n", 5)
}
