//go:build verif

package goldilocks_test

// C13 / Goldilocks (edwards448), exported API only: Curve.Add/Double/ScalarMult/
// ScalarBaseMult/CombinedMult, Point.Neg/IsIdentity/IsEqual, Curve.IsOnCurve,
// FromAffine/FromBytes/MarshalBinary against the affine big.Int model
// ref/ecurve. External test package: it cannot name anything unexported.
// (The internal twist curve and the isogenies are exercised by the in-package
// files zz_verif_c13_goldilocks_twist*_test.go.)

import (
	"bytes"
	"fmt"
	"math/big"
	"testing"

	"github.com/cloudflare/circl/ecc/goldilocks"
	"github.com/cloudflare/circl/internal/verifmc"
	"github.com/cloudflare/circl/internal/verifref/curvealpha"
	"github.com/cloudflare/circl/internal/verifref/ecurve"
	"github.com/cloudflare/circl/internal/verifref/fpx"
	fp "github.com/cloudflare/circl/math/fp448"
)

func c13Elt(v *big.Int) (e fp.Elt) { copy(e[:], fpx.ToLE(v, fp.Size)); return }

func c13Int(e *fp.Elt) *big.Int {
	t := *e
	fp.Modp(&t)
	return fpx.FromLE(t[:])
}

func c13Scalar(v *big.Int) *goldilocks.Scalar {
	s := &goldilocks.Scalar{}
	copy(s[:], fpx.ToLE(v, goldilocks.ScalarSize))
	return s
}

func c13Rel(m, n, N *big.Int) string {
	mm, nn := new(big.Int).Mod(m, N), new(big.Int).Mod(n, N)
	switch {
	case mm.Cmp(nn) == 0:
		return "m=n"
	case new(big.Int).Mod(new(big.Int).Add(mm, nn), N).Sign() == 0:
		return "m=-n"
	}
	return "m,n unrelated"
}

func TestVerifC13_goldilocks(t *testing.T) {
	r := verifmc.Start(t, "C13", "goldilocks")
	defer r.Finish()
	r.Rule("edwards448 public API: points PT = {O, +-kG, [(n+-1)/2]G, +-[s]G} built with FromAffine from the reference's coordinates (and decoded from its RFC 8032 encoding), " +
		"scalars SC = curvealpha.Scalars(n, 448) as 56-byte little-endian; Add on PT x PT, Double/Neg on PT, ScalarMult on SC x PT, ScalarBaseMult on SC, " +
		"CombinedMult on SCc x SCc x PTc (thorough: SC x SC x PT); results compared as affine coordinates and as RFC 8032 encodings; before that, the predicates (Point.IsIdentity, Curve.IsOnCurve, Point.IsEqual against the expected point, Identity(), a computed identity T+(-T), the same point by another route, a different point) are queried directly on byte-identical copies of each freshly computed result, including the chain ((P+Q)-Q)-P; distinct = distinct (operation, operand names)")
	var e goldilocks.Curve
	ref := ecurve.Edwards448()
	N := ref.N
	sc := curvealpha.Scalars(N, 448, r.Seed())
	logs := curvealpha.PointLogs(N)
	r.Set("scalars", len(sc))
	r.Set("points", len(logs))
	r.State(len(logs))
	refPts := make([]ecurve.Point, len(logs))
	for i, a := range logs {
		refPts[i] = ref.BaseMult(a.V)
	}
	mk := func(i int) *goldilocks.Point {
		x, y := c13Elt(refPts[i].X.A), c13Elt(refPts[i].Y.A)
		P, err := goldilocks.FromAffine(&x, &y)
		if err != nil {
			t.Errorf("FromAffine rejects reference point %s", logs[i].Name)
		}
		return P
	}
	bad := func(op, class, id, what string, payload interface{}) {
		r.Violation("C13|goldilocks."+op+"|"+curvealpha.CoarseKey(class), id, what, payload)
	}
	mkRef := func(P ecurve.Point) *goldilocks.Point {
		x, y := c13Elt(P.X.A), c13Elt(P.Y.A)
		Q, _ := goldilocks.FromAffine(&x, &y)
		return Q
	}
	// preds queries the package's predicates DIRECTLY on byte-identical copies of a
	// freshly computed value (one copy per query), before anything normalises it.
	Tp := ref.BaseMult(big.NewInt(0x51ed27))
	preds := func(op, class, id string, got *goldilocks.Point, want ecurve.Point, payload interface{}) {
		fresh := func() *goldilocks.Point { f := *got; return &f }
		isID := ref.IsIdentity(want)
		kind := "non-identity"
		if isID {
			kind = "identity"
			r.Count("identity_results_queried", 1)
		} else {
			r.Count("non_identity_results_queried", 1)
		}
		fail := func(pred string, v, exp bool) {
			if v != exp {
				bad(op, "predicate:"+pred+"|fresh-result|"+kind+"|"+class, id,
					fmt.Sprintf("%s: %s = %v on the freshly computed result (raw coordinates %v), the reference says %v (result should be %v)", id, pred, v, *got, exp, want), payload)
			}
		}
		fail("IsIdentity", fresh().IsIdentity(), isID)
		fail("IsOnCurve", e.IsOnCurve(fresh()), true)
		fail("IsEqual(expected)", fresh().IsEqual(mkRef(want)), true)
		fail("expected.IsEqual(result)", mkRef(want).IsEqual(fresh()), true)
		fail("IsEqual(Identity())", fresh().IsEqual(e.Identity()), isID)
		CI := mkRef(Tp)
		CI.Add(mkRef(ref.Neg(Tp))) // an identity produced by arithmetic, left in projective form
		ci := *CI
		fail("(T+(-T)).IsIdentity", ci.IsIdentity(), true)
		fail("IsEqual(T+(-T))", fresh().IsEqual(CI), isID)
		fail("(T+(-T)).IsEqual(result)", CI.IsEqual(fresh()), isID)
		alt := mkRef(ref.Sub(want, Tp))
		alt.Add(mkRef(Tp)) // the same point by another route
		fail("IsEqual(other-route)", fresh().IsEqual(alt), true)
		fail("IsEqual(different-point)", fresh().IsEqual(mkRef(ref.Add(want, ref.G))), false)
		fail("IsEqual(-expected)", fresh().IsEqual(mkRef(ref.Neg(want))), isID)
	}
	check := func(op, class, id string, got *goldilocks.Point, want ecurve.Point, payload interface{}) {
		if got == nil {
			bad(op, "nil-result|"+class, id, id+": nil result", payload)
			return
		}
		preds(op, class, id, got, want, payload)
		g := *got
		if !e.IsOnCurve(&g) { // includes the consistency of the extended coordinate: x*y = t*z
			bad(op, "inconsistent-T|"+class, id, id+": IsOnCurve is false on the fresh result (curve equation or x*y = ta*tb*z)", payload)
		}
		ax, ay := g.ToAffine() // normalises the copy
		if x, y := c13Int(&ax), c13Int(&ay); want.X.A.Cmp(x) != 0 || want.Y.A.Cmp(y) != 0 {
			bad(op, "wrong-result|"+class, id, fmt.Sprintf("%s: got (%x,%x) want %v", id, x, y, want), payload)
			return
		}
		g2 := *got
		enc, err := g2.MarshalBinary()
		if err != nil || !bytes.Equal(enc, ref.MarshalRFC8032(want)) {
			bad(op, "wrong-encoding|"+class, id, fmt.Sprintf("%s: encodes to %x want %x", id, enc, ref.MarshalRFC8032(want)), payload)
		}
		g3 := *got
		if g3.IsIdentity() != ref.IsIdentity(want) {
			bad(op, "IsIdentity|"+class, id, id+": IsIdentity disagrees", payload)
		}
	}
	try := func(op, id string, f func()) bool {
		if p, what := verifmc.Try(f); p {
			bad(op, "panic:"+verifmc.PanicClass(what), id, what, nil)
			return false
		}
		return true
	}

	// generator, identity, decoding of the reference encodings
	check("Generator", "G", "gen", e.Generator(), ref.G, nil)
	check("Identity", "O", "id", e.Identity(), ref.Identity(), nil)
	for i, a := range logs {
		P, err := goldilocks.FromBytes(ref.MarshalRFC8032(refPts[i]))
		if err != nil {
			bad("FromBytes", "rejects-valid|P="+a.Name, "dec/"+a.Name, "reference encoding rejected: "+err.Error(), nil)
			continue
		}
		check("FromBytes", "P="+a.Name, "dec/"+a.Name, P, refPts[i], nil)
		if !P.IsEqual(mk(i)) {
			bad("IsEqual", "decoded-vs-affine|P="+a.Name, "dec/"+a.Name, "decoded point not IsEqual to FromAffine point", nil)
		}
		r.Eval(1)
	}

	// ---- Add on PT x PT; Double, Neg on PT
	verifmc.ParallelFor(len(logs)*len(logs), func(idx int) {
		i, j := idx/len(logs), idx%len(logs)
		a, b := logs[i], logs[j]
		id := "add/" + a.Name + "/" + b.Name
		if r.Want(id) {
			P, Q := mk(i), mk(j)
			sum := new(big.Int).Add(a.V, b.V)
			var out *goldilocks.Point
			if try("Add", id, func() { out = e.Add(P, Q) }) {
				check("Add", "P="+a.Name+"|Q="+b.Name, id, out, ref.BaseMult(sum), nil)
			}
			r.Eval(1)
			r.Transition(1)
			r.Distinct("add", a.Name, b.Name)
			switch {
			case a.V.Sign() == 0 || b.V.Sign() == 0:
				r.Count("add_with_identity", 1)
			case a.V.Cmp(b.V) == 0:
				r.Count("add_P_eq_Q", 1)
			case new(big.Int).Mod(sum, N).Sign() == 0:
				r.Count("add_P_eq_negQ", 1)
			}
			// adding a projective (non-normalised) operand: (P+Q)+(-Q) = P
			if out != nil {
				nq := mk(j)
				nq.Neg()
				var back *goldilocks.Point
				if try("Add", id+"/back", func() { back = e.Add(out, nq) }) {
					check("Add", "projective-operand|P="+a.Name+"|Q="+b.Name, id+"/back", back, refPts[i], nil)
					// chain to the identity through non-normalised operands: ((P+Q)-Q)-P
					np := mk(i)
					np.Neg()
					var zero *goldilocks.Point
					if try("Add", id+"/chain", func() { zero = e.Add(back, np) }) {
						check("Add", "chain-to-identity|P="+a.Name+"|Q="+b.Name, id+"/chain", zero, ref.Identity(), nil)
					}
				}
				r.Eval(2)
			}
		}
		if j == 0 {
			id := "dbl/" + a.Name
			if r.Want(id) {
				var out *goldilocks.Point
				P := mk(i)
				if try("Double", id, func() { out = e.Double(P) }) {
					check("Double", "P="+a.Name, id, out, ref.BaseMult(new(big.Int).Lsh(a.V, 1)), nil)
				}
				np := mk(i)
				if try("Neg", "neg/"+a.Name, func() { np.Neg() }) {
					check("Neg", "P="+a.Name, "neg/"+a.Name, np, ref.Neg(refPts[i]), nil)
				}
				r.Eval(2)
				r.Transition(2)
				r.Distinct("dbl", a.Name)
				r.Distinct("neg", a.Name)
			}
		}
	})
	r.Sample(map[string]string{"op": "Add", "P": logs[1].Name, "Q": logs[1].Name})

	// ---- ScalarMult on SC x PT, ScalarBaseMult on SC
	verifmc.ParallelFor(len(sc)*len(logs), func(idx int) {
		s, i := sc[idx/len(logs)], idx%len(logs)
		a := logs[i]
		id := "mult/" + s.Name + "/" + a.Name
		if !r.Want(id) {
			return
		}
		payload := map[string]string{"k_le": verifmc.FullHex(fpx.ToLE(s.V, goldilocks.ScalarSize)), "P": verifmc.FullHex(ref.MarshalRFC8032(refPts[i]))}
		k := c13Scalar(s.V)
		P := mk(i)
		var out *goldilocks.Point
		if try("ScalarMult", id, func() { out = e.ScalarMult(k, P) }) {
			check("ScalarMult", "k="+s.Name+"|P="+a.Name, id, out, ref.BaseMult(new(big.Int).Mul(s.V, a.V)), payload)
		}
		r.Eval(1)
		r.Transition(1)
		r.Distinct("mult", s.Name, a.Name)
		if s.V.Cmp(N) >= 0 {
			r.Count("scalar_ge_order", 1)
		}
		if s.V.Bit(0) == 0 {
			r.Count("even_scalar", 1)
		}
		if new(big.Int).Mod(new(big.Int).Mul(s.V, a.V), N).Sign() == 0 {
			r.Count("result_identity", 1)
		}
		if i == 0 {
			id := "base/" + s.Name
			k := c13Scalar(s.V)
			var out *goldilocks.Point
			if try("ScalarBaseMult", id, func() { out = e.ScalarBaseMult(k) }) {
				check("ScalarBaseMult", "k="+s.Name, id, out, ref.BaseMult(s.V), payload)
			}
			r.Eval(1)
			r.Transition(1)
			r.Distinct("base", s.Name)
		}
	})
	r.Sample(map[string]string{"op": "ScalarMult", "k": "n-1", "k_le": verifmc.FullHex(fpx.ToLE(new(big.Int).Sub(N, big.NewInt(1)), goldilocks.ScalarSize)), "P": logs[len(logs)-1].Name, "P_rfc8032": verifmc.FullHex(ref.MarshalRFC8032(refPts[len(logs)-1]))})

	// ---- CombinedMult(m, n, Q) = mG + nQ
	ms := curvealpha.Core(sc)
	var qs []int
	for i, a := range logs {
		if a.Core || r.Thorough() {
			qs = append(qs, i)
		}
	}
	if r.Thorough() {
		ms = sc
	}
	r.Set("combined_scalars", len(ms))
	r.Set("combined_points", len(qs))
	verifmc.ParallelFor(len(ms)*len(ms)*len(qs), func(idx int) {
		qi := qs[idx%len(qs)]
		m, n := ms[idx/len(qs)/len(ms)], ms[idx/len(qs)%len(ms)]
		a := logs[qi]
		id := "comb/" + m.Name + "/" + n.Name + "/" + a.Name
		if !r.Want(id) || r.Expired() {
			return
		}
		ex := new(big.Int).Mul(n.V, a.V)
		ex.Add(ex, m.V)
		rel := c13Rel(m.V, n.V, N)
		var out *goldilocks.Point
		Q := mk(qi)
		if try("CombinedMult", id, func() { out = e.CombinedMult(c13Scalar(m.V), c13Scalar(n.V), Q) }) {
			check("CombinedMult", "Q="+a.Name+"|"+rel, id, out, ref.BaseMult(ex),
				map[string]string{"m_le": verifmc.FullHex(fpx.ToLE(m.V, goldilocks.ScalarSize)), "n_le": verifmc.FullHex(fpx.ToLE(n.V, goldilocks.ScalarSize)), "Q": verifmc.FullHex(ref.MarshalRFC8032(refPts[qi]))})
		}
		r.Eval(1)
		r.Transition(1)
		r.Distinct("comb", m.Name, n.Name, a.Name)
		if a.Name == "1G" && rel == "m=n" {
			r.Count("comb_Q_eq_G_and_m_eq_n", 1)
		}
		if rel == "m=-n" {
			r.Count("comb_m_eq_neg_n", 1)
		}
		if a.V.Sign() == 0 {
			r.Count("comb_Q_identity", 1)
		}
	})
	r.Sample(map[string]string{"op": "CombinedMult", "m": "1", "n": "1", "Q": "1G"})

	r.RequireCounter("add_P_eq_Q", 5)
	r.RequireCounter("add_P_eq_negQ", 5)
	r.RequireCounter("add_with_identity", 10)
	r.RequireCounter("scalar_ge_order", 5)
	r.RequireCounter("even_scalar", 50)
	r.RequireCounter("result_identity", 10)
	r.RequireCounter("comb_Q_eq_G_and_m_eq_n", 5)
	r.RequireCounter("comb_m_eq_neg_n", 3)
	r.RequireCounter("comb_Q_identity", 10)
	r.RequireCounter("identity_results_queried", 300)
	r.RequireCounter("non_identity_results_queried", 1000)
}
