//go:build verif

package goldilocks

// C13 / Goldilocks internal twist curve: twistPoint.Double and twistPoint.mixAdd
// (projective table entry built with preTwistPointProy.FromTwistPoint) against
// ref/ecurve.Twist448. Unexported names used by this file (and only these):
// twistPoint{x, y, z, ta, tb, Double, mixAdd}, preTwistPointProy.FromTwistPoint.

import (
	"math/big"
	"testing"

	"github.com/cloudflare/circl/internal/verifmc"
	"github.com/cloudflare/circl/internal/verifref/curvealpha"
	"github.com/cloudflare/circl/internal/verifref/ecurve"
	fp "github.com/cloudflare/circl/math/fp448"
)

func TestVerifC13_goldilocks_twist_add(t *testing.T) {
	r := verifmc.Start(t, "C13", "goldilocks_twist_add")
	defer r.Finish()
	r.Rule("internal twist curve: twistPoint.mixAdd on Iso448(PT) x Iso448(PT) (this contains P=Q, P=-Q, identity operands), twistPoint.Double on Iso448(PT) and on its own output; " +
		"the Point predicates are asked about the dual-isogeny image of every fresh result (when the isogeny file builds); distinct = distinct (operation, operand names)")
	tw := ecurve.Twist448()
	N := tw.N
	logs := curvealpha.PointLogs(N)
	r.Set("points", len(logs))
	r.State(len(logs))
	mkTw := func(P ecurve.Point) *twistPoint {
		x, y := c13Elt(P.X.A), c13Elt(P.Y.A)
		return &twistPoint{x: x, y: y, z: fp.One(), ta: x, tb: y}
	}
	checkTw := func(op, class, id string, got *twistPoint, want ecurve.Point) {
		c13CheckTwist(r, "twist_add", op, class, id, &got.x, &got.y, &got.z, &got.ta, &got.tb,
			func() *Point { f := *got; return c13TwistDown(&f) }, want, nil)
	}
	try := func(op, id string, f func()) bool {
		if p, what := verifmc.Try(f); p {
			r.Violation("C13|goldilocks.twist."+op+"|panic:"+verifmc.PanicClass(what), id, what, nil)
			return false
		}
		return true
	}
	twPts := make([]ecurve.Point, len(logs))
	for i, a := range logs {
		twPts[i] = tw.BaseMult(a.V)
	}
	verifmc.ParallelFor(len(logs)*len(logs), func(idx int) {
		i, j := idx/len(logs), idx%len(logs)
		a, b := logs[i], logs[j]
		id := "twadd/" + a.Name + "/" + b.Name
		if !r.Want(id) {
			return
		}
		sum := new(big.Int).Add(a.V, b.V)
		P := mkTw(twPts[i])
		var pre preTwistPointProy
		pre.FromTwistPoint(mkTw(twPts[j]))
		if try("mixAdd", id, func() { P.mixAdd(&pre) }) {
			checkTw("mixAdd", "P="+a.Name+"|Q="+b.Name, id, P, tw.BaseMult(sum))
			// chain on the projective result: ((P+Q)-Q)-P
			var nq, np preTwistPointProy
			nq.FromTwistPoint(mkTw(tw.Neg(twPts[j])))
			np.FromTwistPoint(mkTw(tw.Neg(twPts[i])))
			C := *P
			if try("mixAdd", id+"/chain", func() { C.mixAdd(&nq); C.mixAdd(&np) }) {
				checkTw("mixAdd", "chain-to-identity|P="+a.Name+"|Q="+b.Name, id+"/chain", &C, tw.Identity())
			}
		}
		r.Eval(3)
		r.Transition(3)
		r.Distinct("twadd", a.Name, b.Name)
		switch {
		case a.V.Sign() == 0 || b.V.Sign() == 0:
			r.Count("add_with_identity", 1)
		case a.V.Cmp(b.V) == 0:
			r.Count("add_P_eq_Q", 1)
		case new(big.Int).Mod(sum, N).Sign() == 0:
			r.Count("add_P_eq_negQ", 1)
		}
		if j == 0 {
			D := mkTw(twPts[i])
			if try("Double", "twdbl/"+a.Name, func() { D.Double() }) {
				checkTw("Double", "P="+a.Name, "twdbl/"+a.Name, D, tw.BaseMult(new(big.Int).Lsh(a.V, 1)))
				if try("Double", "twdbl2/"+a.Name, func() { D.Double() }) {
					checkTw("Double", "projective|P="+a.Name, "twdbl2/"+a.Name, D, tw.BaseMult(new(big.Int).Lsh(a.V, 2)))
				}
			}
			r.Eval(2)
			r.Transition(2)
			r.Distinct("twdbl", a.Name)
		}
	})
	r.Sample(map[string]string{"op": "twist.mixAdd", "P": "Iso448(" + logs[1].Name + ")", "Q": "Iso448(" + logs[1].Name + ")"})
	r.RequireCounter("add_P_eq_Q", 5)
	r.RequireCounter("add_P_eq_negQ", 5)
	r.RequireCounter("add_with_identity", 10)
	if c13TwistDown != nil {
		r.RequireCounter("identity_results_queried", 100)
		r.RequireCounter("non_identity_results_queried", 300)
	} else {
		r.Set("predicate_queries", "unavailable: the isogeny file did not build against this tree")
	}
}
