//go:build verif

package goldilocks

// C13 / Goldilocks 4-isogenies between the curve and its internal twist:
// Curve.push = Iso448, Curve.pull o Curve.push = [4], Curve.pull on an affine
// twist point = Iso448Dual. Unexported names used by this file (and only these):
// Curve.push, Curve.pull, twistCurve.push, twistPoint{x, y, z, ta, tb}.
// Its init also provides c13TwistDown to the other twist files.

import (
	"fmt"
	"math/big"
	"testing"

	"github.com/cloudflare/circl/internal/verifmc"
	"github.com/cloudflare/circl/internal/verifref/curvealpha"
	"github.com/cloudflare/circl/internal/verifref/ecurve"
	fp "github.com/cloudflare/circl/math/fp448"
)

func init() {
	c13TwistDown = func(p interface{}) *Point { return twistCurve{}.push(p.(*twistPoint)) }
}

func TestVerifC13_goldilocks_twist_iso(t *testing.T) {
	r := verifmc.Start(t, "C13", "goldilocks_twist_iso")
	defer r.Finish()
	r.Rule("4-isogenies on PT = {O, +-kG, [(n+-1)/2]G, +-[s]G}: push(P) = Iso448(P) (a point of the twist), pull(push(P)) = [4]P, pull(affine twist point W) = Iso448Dual(W); " +
		"the Point predicates are asked about every fresh image; distinct = distinct point names")
	var e Curve
	ref, tw := ecurve.Edwards448(), ecurve.Twist448()
	logs := curvealpha.PointLogs(ref.N)
	r.Set("points", len(logs))
	r.State(len(logs))
	bad := func(op, class, id, what string) {
		r.Violation("C13|goldilocks.twist."+op+"|"+curvealpha.CoarseKey(class), id, what, nil)
	}
	try := func(op, id string, f func()) bool {
		if p, what := verifmc.Try(f); p {
			bad(op, "panic:"+verifmc.PanicClass(what), id, what)
			return false
		}
		return true
	}
	// sameEd compares an exported-curve point with the reference, predicates first
	sameEd := func(op, class, id string, got *Point, want ecurve.Point) {
		isID := ref.IsIdentity(want)
		f1, f2, f3 := *got, *got, *got
		if f1.IsIdentity() != isID || !e.IsOnCurve(&f2) || !f3.IsEqual(c13EdPoint(want)) {
			bad(op, "predicates|fresh-result|"+class, id, id+": IsIdentity/IsOnCurve/IsEqual(expected) disagree with the reference on the fresh image")
		}
		if isID {
			r.Count("identity_results_queried", 1)
		}
		g := *got
		ax, ay := g.ToAffine()
		if c13Int(&ax).Cmp(want.X.A) != 0 || c13Int(&ay).Cmp(want.Y.A) != 0 {
			bad(op, "wrong-result|"+class, id, fmt.Sprintf("%s: got (%x,%x) want %v", id, c13Int(&ax), c13Int(&ay), want))
		}
	}
	for _, a := range logs {
		id := "iso/" + a.Name
		if !r.Want(id) {
			continue
		}
		P := ref.BaseMult(a.V)
		W := tw.BaseMult(a.V) // = Iso448(P), bound by the refcheck unit
		var up *twistPoint
		if !try("push", id, func() { up = e.push(c13EdPoint(P)) }) {
			continue
		}
		c13CheckTwist(r, "twist_iso", "push", "P="+a.Name, id, &up.x, &up.y, &up.z, &up.ta, &up.tb,
			func() *Point { f := *up; return c13TwistDown(&f) }, W, nil)
		var down *Point
		if try("pull", id, func() { down = e.pull(up) }) {
			sameEd("pull", "P="+a.Name, id, down, ref.BaseMult(new(big.Int).Lsh(a.V, 2)))
		}
		// dual applied to an affine twist point
		x, y := c13Elt(W.X.A), c13Elt(W.Y.A)
		var d2 *Point
		if try("pull", id+"/affine", func() { d2 = e.pull(&twistPoint{x: x, y: y, z: fp.One(), ta: x, tb: y}) }) {
			want, _ := ecurve.Iso448Dual(W)
			sameEd("pull", "affine|P="+a.Name, id+"/affine", d2, want)
		}
		r.Eval(3)
		r.Transition(3)
		r.Distinct("iso", a.Name)
	}
	r.Sample(map[string]string{"op": "push", "P": logs[1].Name})
	r.RequireCounter("identity_results_queried", 2)
}
