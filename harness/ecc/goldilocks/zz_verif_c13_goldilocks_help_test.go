//go:build verif

package goldilocks

// Helpers shared by the in-package C13 twist files. This file names NO
// unexported identifier of the package (only Point, Scalar, Curve, FromAffine
// and math/fp448), so it survives any refactoring of the internals; the files
// that do name internals are each self-contained apart from these helpers.

import (
	"fmt"
	"math/big"

	"github.com/cloudflare/circl/internal/verifmc"
	"github.com/cloudflare/circl/internal/verifref/curvealpha"
	"github.com/cloudflare/circl/internal/verifref/ecurve"
	"github.com/cloudflare/circl/internal/verifref/fpx"
	fp "github.com/cloudflare/circl/math/fp448"
)

func c13Elt(v *big.Int) (e fp.Elt) { copy(e[:], fpx.ToLE(v, fp.Size)); return }

func c13Int(e *fp.Elt) *big.Int {
	t := *e
	fp.Modp(&t)
	return fpx.FromLE(t[:])
}

func c13Scalar(v *big.Int) *Scalar {
	s := &Scalar{}
	copy(s[:], fpx.ToLE(v, ScalarSize))
	return s
}

// c13Affine reads a projective (x, y, z) triple as affine big.Int coordinates.
func c13Affine(x, y, z *fp.Elt) (ax, ay *big.Int, ok bool) {
	zz := *z
	if fp.IsZero(&zz) {
		return nil, nil, false
	}
	var zi, xx, yy fp.Elt
	fp.Inv(&zi, z)
	fp.Mul(&xx, x, &zi)
	fp.Mul(&yy, y, &zi)
	return c13Int(&xx), c13Int(&yy), true
}

func c13Rel(m, n, N *big.Int) string {
	mm, nn := new(big.Int).Mod(m, N), new(big.Int).Mod(n, N)
	switch {
	case mm.Cmp(nn) == 0:
		return "m=n"
	case new(big.Int).Mod(new(big.Int).Add(mm, nn), N).Sign() == 0:
		return "m=-n"
	}
	return "m,n unrelated"
}

func c13EdPoint(P ecurve.Point) *Point {
	x, y := c13Elt(P.X.A), c13Elt(P.Y.A)
	Q, _ := FromAffine(&x, &y)
	return Q
}

// c13TwistDown maps (a copy of) an internal twist point to the exported curve by
// the dual isogeny. It is provided by zz_verif_c13_goldilocks_twistiso_test.go
// (the only file that names the isogeny routines); when that file is left out
// the twist units still run and only skip the predicate queries.
var c13TwistDown func(twistPointCopy interface{}) *Point

// c13CheckTwist judges one freshly computed twist point given by pointers to its
// five coordinates (so that this file need not name the type) against the
// reference point want on ecurve.Twist448.
func c13CheckTwist(r *verifmc.Run, unitKey, op, class, id string, x, y, z, ta, tb *fp.Elt, down func() *Point, want ecurve.Point, payload interface{}) {
	tw := ecurve.Twist448()
	var e Curve
	bad := func(cls, what string) {
		r.Violation("C13|goldilocks.twist."+op+"|"+curvealpha.CoarseKey(cls), id, what, payload)
	}
	_ = unitKey
	if down != nil && c13TwistDown != nil {
		// twist points have no predicates of their own: they are asked about the image of the fresh
		// (non-normalised) result under the dual isogeny, which is the identity exactly when the
		// result is (odd-order points) and must equal Iso448Dual(want).
		isID := tw.IsIdentity(want)
		kind := "non-identity"
		if isID {
			kind = "identity"
			r.Count("identity_results_queried", 1)
		} else {
			r.Count("non_identity_results_queried", 1)
		}
		fail := func(pred string, v, exp bool) {
			if v != exp {
				bad("predicate:"+pred+"|fresh-result|"+kind+"|"+class,
					fmt.Sprintf("%s: %s = %v on the dual-isogeny image of the freshly computed twist point (x=%v y=%v z=%v), expected %v", id, pred, v, *x, *y, *z, exp))
			}
		}
		wantDown, okd := ecurve.Iso448Dual(want)
		if p, what := verifmc.Try(func() {
			fail("push.IsIdentity", down().IsIdentity(), isID)
			fail("push.IsOnCurve", e.IsOnCurve(down()), true)
			fail("push.IsEqual(Identity())", down().IsEqual(e.Identity()), isID)
			if okd {
				fail("push.IsEqual(expected)", down().IsEqual(c13EdPoint(wantDown)), true)
				fail("expected.IsEqual(push)", c13EdPoint(wantDown).IsEqual(down()), true)
			}
		}); p {
			bad("panic:"+verifmc.PanicClass(what)+"|predicates|"+class, what)
		}
	} else {
		r.Count("predicate_queries_unavailable", 1)
	}
	ax, ay, ok := c13Affine(x, y, z)
	if !ok || want.X.A.Cmp(ax) != 0 || want.Y.A.Cmp(ay) != 0 {
		bad("wrong-result|"+class, fmt.Sprintf("%s: got (%x,%x) z!=0:%v want %v", id, ax, ay, ok, want))
		return
	}
	var l, rr fp.Elt
	fp.Mul(&l, ta, tb)
	fp.Mul(&l, &l, z)
	fp.Mul(&rr, x, y)
	fp.Sub(&l, &l, &rr)
	if !fp.IsZero(&l) {
		bad("inconsistent-T|"+class, id+": ta*tb*z != x*y")
	}
}
