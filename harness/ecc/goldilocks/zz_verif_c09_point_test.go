//go:build verif

package goldilocks_test

// C09 / Goldilocks (edwards448): FromBytes and Point.UnmarshalBinary accept
// only canonical RFC 8032 5.2.2 encodings of curve points and ToBytes gives
// the parsed bytes back. Oracle: strict decoder of ref/c09ref on ref/ecurve.

import (
	"testing"

	"github.com/cloudflare/circl/ecc/goldilocks"
	"github.com/cloudflare/circl/internal/verifmc"
	"github.com/cloudflare/circl/internal/verifref/c09ref"
	"github.com/cloudflare/circl/internal/verifref/ecurve"
	"github.com/cloudflare/circl/internal/verifref/fpx"
	"github.com/cloudflare/circl/math/fp448"
)

func TestVerifC09_goldilocks(t *testing.T) {
	r := verifmc.Start(t, "C09", "goldilocks")
	defer r.Finish()
	r.Rule("57-byte strings: [a]G for a in {0,1,2,3,n-1,(n+1)/2,5 SHAKE values} (reference and library), all 456 single-bit flips of 4 (quick) / 11 (thorough) of them, " +
		"the 4 torsion points alone and added to [s0]G, x=0 with sign bit, y = p+j and 2^448-1-j (j<8) with both signs, y+p aliases of the torsion points, " +
		"all 127 non-zero values of the 7 unused bits of the last byte on [1]G with both signs (3 values on two more bases), y without x; " +
		"every curve point with x or y in {0,+-1,+-j (j<64)} and the small-order points, built by the reference, made with FromAffine and marshalled by the library (must decode again); " +
		"through FromBytes and Point.UnmarshalBinary, the latter also into an object that already holds the nearest valid value, and before it; distinct = distinct (entry point, input bytes)")
	c := ecurve.Edwards448()
	cases := c09ref.RFC8032Cases(c, c09ref.EdOptions{FlipBases: r.Pick(4, 11), Special: 64})
	var curve goldilocks.Curve
	// constructed special points (x or y in {0, +-1, +-j, j<64}; the 4 small-order points), made by the library
	// from the reference's coordinates with FromAffine and marshalled by it
	for _, sp := range c09ref.EdSpecial(c, 64) {
		var x, y fp448.Elt
		copy(x[:], fpx.ToLE(sp.P.X.A, 56))
		copy(y[:], fpx.ToLE(sp.P.Y.A, 56))
		P, err := goldilocks.FromAffine(&x, &y)
		if err != nil {
			r.Violation("C09|goldilocks.FromAffine|refuses-curve-point|special", "goldilocks.FromAffine|"+sp.Name,
				"FromAffine refuses a point of the curve: "+sp.P.String(), nil)
			continue
		}
		enc, err := P.MarshalBinary()
		if err != nil {
			t.Fatal(err)
		}
		cases = append(cases, c09ref.Case{Name: "speciallib/" + sp.Name, Class: "special-lib", Data: enc})
	}
	for _, s := range c09ref.Scalars(c.N) {
		var k goldilocks.Scalar
		k.FromBytes(fpx.ToLE(s.V, 56))
		P := curve.ScalarBaseMult(&k)
		enc, err := P.MarshalBinary()
		if err != nil {
			t.Fatal(err)
		}
		cases = append(cases, c09ref.Case{Name: "lib/a=" + s.Name, Class: "valid-lib", Data: enc})
		Q, err := goldilocks.FromBytes(c09ref.Clone(enc))
		if err != nil || !Q.IsEqual(P) {
			r.Violation("C09|goldilocks.FromBytes|own-encoding-not-equal|valid-lib", "goldilocks.FromBytes|lib/a="+s.Name,
				"FromBytes(P.MarshalBinary()) fails or differs from P", map[string]string{"input": verifmc.FullHex(enc)})
		}
		r.Eval(1)
	}
	dec := make([]verifmc.DecCase, len(cases))
	bases := c09ref.Bases(cases)
	for i, cs := range cases {
		dec[i] = verifmc.DecCase{Name: cs.Name, Class: cs.Class, Data: cs.Data, Base: bases[i]}
	}
	ref := func(in []byte) verifmc.DecOracle {
		v := c09ref.RFC8032Verdict(c, in)
		return verifmc.DecOracle{Member: v.Member, Reason: v.Reason, Point: v.Point}
	}
	observe := func(P *goldilocks.Point, in, keep []byte) verifmc.DecResult {
		res := verifmc.DecResult{Accepted: true}
		if !curve.IsOnCurve(P) {
			res.Note = "accepted-value-fails-IsOnCurve"
		}
		out := make([]byte, 57)
		if err := P.ToBytes(out); err != nil {
			res.Note = "ToBytes-fails"
		}
		res.Reenc = out
		x, y := P.ToAffine()
		res.Point = append(append([]byte{}, x[:]...), y[:]...)
		if string(keep) != string(in) {
			res.Note = "input-modified"
		}
		return res
	}
	r.CheckDecoder(verifmc.DecSpec{Entry: "goldilocks.FromBytes", Cases: dec, Ref: ref, RefAll: true,
		Lib: func(in []byte) verifmc.DecResult {
			keep := c09ref.Clone(in)
			P, err := goldilocks.FromBytes(in)
			if err != nil {
				return verifmc.DecResult{}
			}
			return observe(P, in, keep)
		}})
	r.CheckDecoder(verifmc.DecSpec{Entry: "goldilocks.Point.UnmarshalBinary", Cases: dec, Ref: ref,
		Seq: func(first, second []byte) verifmc.DecResult {
			var P goldilocks.Point
			verifmc.Try(func() { _ = P.UnmarshalBinary(first) }) // a refusal dereferences nil (C10's finding); the object is then untouched
			keep := c09ref.Clone(second)
			if err := P.UnmarshalBinary(second); err != nil {
				return verifmc.DecResult{}
			}
			return observe(&P, second, keep)
		},
		Lib: func(in []byte) verifmc.DecResult {
			keep := c09ref.Clone(in)
			var P goldilocks.Point
			if err := P.UnmarshalBinary(in); err != nil {
				return verifmc.DecResult{}
			}
			return observe(&P, in, keep)
		}})
	r.RequireCounter("in:flip", 2*4*440)
	r.RequireCounter("in:unused-bits", 2*200)
	r.RequireCounter("in:field-overflow", 50)
	r.RequireCounter("in:torsion", 8)
	r.RequireCounter("in:valid-lib", 2*11)
	r.RequireCounter("accepted", 60)
	r.RequireCounter("in:special-lib", 100)
	r.RequireCounter("reused_receiver_cases", 1000)
}
