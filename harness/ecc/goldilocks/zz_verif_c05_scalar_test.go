//go:build verif

package goldilocks_test

// C05 / Ed448 scalar arithmetic: goldilocks.Scalar.FromBytes on 114-byte
// (hash outputs) and 57-byte (S, clamped secret) strings, and Mul / Add on the
// reduced operands that signing and verification feed them, against big.Int
// arithmetic modulo the group order.

import (
	"encoding/binary"
	"fmt"
	"math/big"
	"testing"

	"github.com/cloudflare/circl/ecc/goldilocks"
	"github.com/cloudflare/circl/internal/verifmc"
)

var c05N = func() *big.Int {
	n := new(big.Int).Lsh(big.NewInt(1), 446)
	d, _ := new(big.Int).SetString("13818066809895115352007386748515426880336692474882178609894547503885", 10)
	return n.Sub(n, d)
}()

func c05LE(b []byte) *big.Int {
	t := make([]byte, len(b))
	for i := range b {
		t[len(b)-1-i] = b[i]
	}
	return new(big.Int).SetBytes(t)
}

func c05ToLE(x *big.Int, n int) []byte {
	be := x.FillBytes(make([]byte, n))
	for i, j := 0, n-1; i < j; i, j = i+1, j-1 {
		be[i], be[j] = be[j], be[i]
	}
	return be
}

func c05Scalar(x *big.Int) *goldilocks.Scalar {
	var s goldilocks.Scalar
	copy(s[:], c05ToLE(x, goldilocks.ScalarSize))
	return &s
}

func TestVerifC05_scalar448(t *testing.T) {
	r := verifmc.Start(t, "C05", "scalar448")
	defer r.Finish()
	r.Rule("Scalar.FromBytes: 114-byte strings = 14 limbs in {0,2^64-1} x top 2 bytes {0000,0100,ffff} (49152), one limb in {1,2^63,N_i-1,N_i,N_i+1} over all-0 / all-ff, q*N+d for q = floor(2^k/N), k=446..911, d in {-1,0,1}; " +
		"57-byte strings = 7 limbs in {0,2^64-1,N_i-1,N_i} (quick) / {0,1,2^64-1,N_i-1,N_i,N_i+1} (thorough) x last byte {00,01,80,ff}, and the clamped form of each; " +
		"Mul, Add on reduced operands: {limbs {0,2^64-1}^7 masked below N (quick) / {0,1,2^64-1}^7 (thorough)} + {0,1,2,N-1,N-2,(N+-1)/2, 1/4 mod N}, all ordered pairs; compared with big.Int mod N; distinct = distinct (function, operands)")
	order := goldilocks.Curve{}.Order()
	if c05LE(order[:]).Cmp(c05N) != 0 {
		r.Violation("C05|goldilocks.order|constant-differs", "scalar448|order", "Curve.Order() differs from RFC 8032 L", nil)
	}
	var Nw [7]uint64
	for i := range Nw {
		Nw[i] = binary.LittleEndian.Uint64(order[8*i:])
	}
	type bad struct{ key, id, what, in string }
	report := func(res []*bad) {
		for _, b := range res {
			if b != nil {
				r.Violation(b.key, b.id, b.what, map[string]string{"input": b.in})
			}
		}
	}
	checkFB := func(res []*bad, slot int, fn, id string, in []byte) {
		if !r.Want(id) {
			return
		}
		var z goldilocks.Scalar
		for i := range z {
			z[i] = 0xa5 // FromBytes must overwrite the receiver
		}
		keep := append([]byte{}, in...)
		z.FromBytes(in)
		r.Eval(1)
		r.Distinct(fn, in)
		want := new(big.Int).Mod(c05LE(keep), c05N)
		if got := c05LE(z[:]); got.Cmp(want) != 0 {
			r.Count(fn+"-wrong", 1)
			if res[slot] == nil {
				cl := "not-congruent"
				if new(big.Int).Mod(new(big.Int).Sub(got, want), c05N).Sign() == 0 {
					cl = "congruent-but-not-reduced"
				}
				res[slot] = &bad{"C05|goldilocks.Scalar." + fn + "|wrong-residue|" + cl, id,
					fmt.Sprintf("FromBytes(x) = %x, x mod N = %x", got, want), fmt.Sprintf("%x", keep)}
			}
		} else {
			r.Count(fn+"-ok", 1)
		}
		if string(keep) != string(in) && res[slot] == nil {
			res[slot] = &bad{"C05|goldilocks.Scalar." + fn + "|input-modified", id, "FromBytes wrote to its input", fmt.Sprintf("%x", keep)}
		}
	}

	// ---- FromBytes, 114 bytes
	var in114 [][]byte
	tops := [][]byte{{0, 0}, {1, 0}, {0xff, 0xff}}
	for m := 0; m < 1<<14; m++ {
		for _, tp := range tops {
			b := make([]byte, 114)
			for i := 0; i < 14; i++ {
				if m>>i&1 == 1 {
					binary.LittleEndian.PutUint64(b[8*i:], ^uint64(0))
				}
			}
			copy(b[112:], tp)
			in114 = append(in114, b)
		}
	}
	for _, fill := range []byte{0, 0xff} {
		for i := 0; i < 14; i++ {
			for _, v := range []uint64{1, 1 << 63, Nw[i%7] - 1, Nw[i%7], Nw[i%7] + 1} {
				b := make([]byte, 114)
				for j := range b {
					b[j] = fill
				}
				binary.LittleEndian.PutUint64(b[8*i:], v)
				in114 = append(in114, b)
			}
		}
	}
	for k := uint(446); k < 912; k++ {
		q := new(big.Int).Div(new(big.Int).Lsh(big.NewInt(1), k), c05N)
		qn := q.Mul(q, c05N)
		for d := int64(-1); d <= 1; d++ {
			x := new(big.Int).Add(qn, big.NewInt(d))
			if x.Sign() >= 0 && x.BitLen() <= 912 {
				in114 = append(in114, c05ToLE(x, 114))
			}
		}
	}
	res := make([]*bad, len(in114))
	verifmc.ParallelFor(len(in114), func(i int) {
		checkFB(res, i, "FromBytes(114)", fmt.Sprintf("scalar448|FromBytes114|%d", i), in114[i])
	})
	report(res)
	r.Set("frombytes114_inputs", len(in114))

	// ---- FromBytes, 57 bytes (S and the clamped secret scalar)
	al := func(i int) []uint64 {
		if r.Thorough() {
			return []uint64{0, 1, ^uint64(0), Nw[i] - 1, Nw[i], Nw[i] + 1}
		}
		return []uint64{0, ^uint64(0), Nw[i] - 1, Nw[i]}
	}
	base := len(al(0))
	total := 1
	for i := 0; i < 7; i++ {
		total *= base
	}
	res = make([]*bad, total)
	verifmc.ParallelFor(total, func(idx int) {
		b := make([]byte, 57)
		x := idx
		for i := 0; i < 7; i++ {
			binary.LittleEndian.PutUint64(b[8*i:], al(i)[x%base])
			x /= base
		}
		for _, last := range []byte{0, 1, 0x80, 0xff} {
			b[56] = last
			checkFB(res, idx, "FromBytes(57)", fmt.Sprintf("scalar448|FromBytes57|%d|%02x", idx, last), append([]byte{}, b...))
		}
		c := append([]byte{}, b...)
		c[0] &= 0xfc
		c[56] = 0
		c[55] |= 0x80
		checkFB(res, idx, "FromBytes(57)", fmt.Sprintf("scalar448|FromBytes57|%d|clamped", idx), c)
	})
	report(res)
	r.Set("frombytes57_inputs", total*5)

	// ---- Mul and Add on reduced operands
	var ops []*big.Int
	seen := map[string]bool{}
	addOp := func(x *big.Int) {
		x = new(big.Int).Mod(x, c05N)
		if !seen[x.String()] {
			seen[x.String()] = true
			ops = append(ops, x)
		}
	}
	vals := []uint64{0, ^uint64(0)}
	if r.Thorough() {
		vals = []uint64{0, 1, ^uint64(0)}
	}
	nv := len(vals)
	cnt := 1
	for i := 0; i < 7; i++ {
		cnt *= nv
	}
	for idx := 0; idx < cnt; idx++ {
		b := make([]byte, 56)
		x := idx
		for i := 0; i < 7; i++ {
			v := vals[x%nv]
			x /= nv
			if i == 6 {
				v &= 1<<61 - 1 // keep the value below N (N > 2^445)
			}
			binary.LittleEndian.PutUint64(b[8*i:], v)
		}
		addOp(c05LE(b))
	}
	one := big.NewInt(1)
	for _, v := range []*big.Int{big.NewInt(1), big.NewInt(2), new(big.Int).Sub(c05N, one), new(big.Int).Sub(c05N, big.NewInt(2)),
		new(big.Int).Rsh(c05N, 1), new(big.Int).Add(new(big.Int).Rsh(c05N, 1), one), new(big.Int).ModInverse(big.NewInt(4), c05N)} {
		addOp(v)
	}
	n := len(ops)
	sc := make([]*goldilocks.Scalar, n)
	for i, x := range ops {
		sc[i] = c05Scalar(x)
	}
	res = make([]*bad, n)
	verifmc.ParallelFor(n, func(i int) {
		for j := 0; j < n; j++ {
			id := fmt.Sprintf("scalar448|MulAdd|%d|%d", i, j)
			if !r.Want(id) {
				continue
			}
			x, y := *sc[i], *sc[j]
			if n*n <= 1<<20 {
				r.Distinct("MulAdd", i, j)
			}
			var m, a goldilocks.Scalar
			m.Mul(&x, &y)
			a.Add(&x, &y)
			r.Eval(2)
			wm := new(big.Int).Mul(ops[i], ops[j])
			wm.Mod(wm, c05N)
			wa := new(big.Int).Add(ops[i], ops[j])
			wa.Mod(wa, c05N)
			if c05LE(m[:]).Cmp(wm) != 0 {
				r.Count("Mul-wrong", 1)
				if res[i] == nil {
					res[i] = &bad{"C05|goldilocks.Scalar.Mul|wrong-residue|reduced-operands", id,
						fmt.Sprintf("Mul(x,y) = %x, x*y mod N = %x", c05LE(m[:]), wm), fmt.Sprintf("x=%x y=%x", ops[i], ops[j])}
				}
			} else {
				r.Count("Mul-ok", 1)
			}
			if c05LE(a[:]).Cmp(wa) != 0 {
				r.Count("Add-wrong", 1)
				if res[i] == nil {
					res[i] = &bad{"C05|goldilocks.Scalar.Add|wrong-residue|reduced-operands", id,
						fmt.Sprintf("Add(x,y) = %x, x+y mod N = %x", c05LE(a[:]), wa), fmt.Sprintf("x=%x y=%x", ops[i], ops[j])}
				}
			} else {
				r.Count("Add-ok", 1)
			}
			if x != *sc[i] || y != *sc[j] {
				r.Count("operand-modified", 1)
				if res[i] == nil {
					res[i] = &bad{"C05|goldilocks.Scalar.Mul|operand-modified", id, "Mul/Add wrote to an operand", fmt.Sprintf("x=%x y=%x", ops[i], ops[j])}
				}
			}
			// S = k*s + r as ed448.signAll computes it (receiver aliased with an operand)
			S := x
			S.Mul(&S, &y)
			S.Add(&S, &x)
			ws := new(big.Int).Add(wm, ops[i])
			ws.Mod(ws, c05N)
			r.Eval(1)
			if c05LE(S[:]).Cmp(ws) != 0 && res[i] == nil {
				res[i] = &bad{"C05|goldilocks.Scalar.Mul+Add|wrong-residue|aliased-receiver", id,
					fmt.Sprintf("S=x; S.Mul(S,y); S.Add(S,x) = %x, want %x", c05LE(S[:]), ws), fmt.Sprintf("x=%x y=%x", ops[i], ops[j])}
			}
		}
		if n*n > 1<<20 {
			r.Distinct("MulAdd-row", i) // thorough: 4.8M pairs are counted in muladd_pairs, not hashed one by one
		}
	})
	report(res)
	r.Set("muladd_operands", n)
	r.Set("muladd_pairs", n*n)
	if r.Replaying() {
		return
	}
	if r.Counter("FromBytes(114)-ok")+r.Counter("FromBytes(114)-wrong") < int64(len(in114)) ||
		r.Counter("FromBytes(57)-ok")+r.Counter("FromBytes(57)-wrong") < int64(total*5) ||
		r.Counter("Mul-ok")+r.Counter("Mul-wrong") < int64(n*n) {
		r.Vacuous("scalar alphabet not covered")
	}
}
