//go:build verif

package goldilocks_test

// C12 for the Goldilocks (edwards448) scalar field: Scalar.{FromBytes, Red, Neg,
// Add, Sub, Mul, IsZero} (exported API only: external test package; divBy4 has a file of its own) against math/big mod
// l = 2^446 - 13818066809895115352007386748515426880336692474882178609894547503885.
// Scalar is a 56-byte array: every 56-byte string is an operand (the package's
// own tests draw uniformly random 56-byte operands and demand reduced results).

import (
	"math/big"
	"os"
	"testing"

	"github.com/cloudflare/circl/ecc/goldilocks"
	"github.com/cloudflare/circl/internal/verifmc"
	bf "github.com/cloudflare/circl/internal/verifref/bigfield"
)

func c12ScalarField() *bf.Field {
	return &bf.Field{
		Prop: "C12", Name: "goldilocks.Scalar", P: bf.L448, Hex: 112,
		New: func() bf.Elem { return new(goldilocks.Scalar) },
		Load: func(z bf.Elem, v *big.Int) bool {
			if v.Sign() < 0 || v.BitLen() > 448 {
				return false
			}
			copy(z.(*goldilocks.Scalar)[:], bf.LE(v, goldilocks.ScalarSize))
			return true
		},
		Copy: func(d, s bf.Elem) { *d.(*goldilocks.Scalar) = *s.(*goldilocks.Scalar) },
		Raw:  func(x bf.Elem) *big.Int { return bf.FromLE(x.(*goldilocks.Scalar)[:]) },
		Same: func(a, b bf.Elem) bool { return *a.(*goldilocks.Scalar) == *b.(*goldilocks.Scalar) },
		Junk: bf.Pseudo("goldilocks-junk", 0, bf.Pow2(448)),
		Par:  verifmc.ParallelFor,
	}
}

func c12ScalarAlphabet(thorough bool) (all, key []bf.Operand) {
	l := bf.L448
	lim := bf.Pow2(448)
	res := new(big.Int).Mod(lim, l) // 2^448 mod l, the folding constant
	var ops []bf.Operand
	add := func(v *big.Int, name string) { ops = append(ops, bf.Around(v, -2, 2, name)...) }
	for k := int64(0); k <= 4; k++ {
		add(new(big.Int).Mul(l, big.NewInt(k)), "k*l")
	}
	add(lim, "2^448")
	add(new(big.Int).Sub(lim, res), "2^448-res")
	add(new(big.Int).Sub(lim, new(big.Int).Lsh(res, 1)), "2^448-2res")
	add(res, "res")
	add(new(big.Int).Lsh(res, 1), "2res")
	add(new(big.Int).Rsh(lim, 1), "2^447")
	add(bf.Pow2(446), "2^446")
	add(new(big.Int).Rsh(l, 1), "l/2")
	for j := uint(1); j < 7; j++ {
		add(bf.Pow2(64*j), "2^64j")
		add(new(big.Int).Sub(lim, bf.Pow2(64*j)), "2^448-2^64j")
	}
	wide := []uint64{0, 1, 2, 1<<32 - 1, 1 << 32, 1<<62 - 1, 1 << 62, 1<<63 - 1, 1 << 63, ^uint64(0) - 1, ^uint64(0)}
	core := []uint64{0, ^uint64(0)}
	if thorough {
		core = []uint64{0, 1, ^uint64(0)}
	}
	lp := bf.LimbProduct(7, bf.Rep(7, core), bf.Rep(7, wide), 1)
	ia := bf.IntAlphabet(l, 64, 16, "goldilocks")
	var ps []bf.Operand
	for k := 0; k < 16; k++ {
		ps = append(ps, bf.Operand{V: bf.Pseudo("goldilocks-unreduced", k, lim), Name: "pseudo448"})
	}
	all = bf.Append(lim, ops, lp, ia, ps)
	n := 20
	if thorough {
		n = 60
	}
	key = bf.Append(lim, bf.Thin(ops, 2*n), bf.Thin(lp, n), bf.Thin(ia, n), bf.Thin(ps, 4))
	return
}

func TestVerifC12_goldilocksscalar(t *testing.T) {
	if c := os.Getenv("VERIF_CONFIG"); c != "" && c != "default" {
		t.Skip("pure Go code: identical in every configuration; run under default only")
	}
	r := verifmc.Start(t, "C12", "goldilocksscalar")
	defer r.Finish()
	if bad := bf.SelfCheck(); len(bad) != 0 {
		t.Fatalf("reference constants not bound: %v", bad)
	}
	ord := goldilocks.Curve{}.Order()
	if bf.FromLE(ord[:]).Cmp(bf.L448) != 0 {
		t.Fatalf("Curve.Order() differs from RFC 8032")
	}
	f := c12ScalarField()
	ops, key := c12ScalarAlphabet(r.Thorough())
	all := f.Prepare("e", ops)
	small := f.Prepare("k", key)
	r.Set("elements", all.Len())
	r.Set("unreduced_elements", all.Unred)
	r.Set("key_elements", small.Len())
	r.Rule("operands: 56-byte strings (reduced or not): neighbours of k*l (k<=4), 2^448, 2^448-res, res=2^448 mod l, limb boundaries, limb products (core^7 plus <=1 limb away from 00../FF.. over 11 limb values), integer alphabet below l, 16+16 pseudo-random; Add/Sub/Mul on ALL ordered pairs with junk-filled output and aliasing z=x, z=y, x=y, z=x=y; FromBytes on every length 0..171 for 4 fill patterns plus every element; pair sweeps above 1.5e6 cases are counted by the ordered_pairs counters instead of being hashed into distinct_nontrivial; a distinct case is one (operation, operand tuple)")
	r.NotExhaustive("operands are the declared alphabet, not all 2^448 strings")

	bin := []bf.BinOp{
		{Name: "Add", Do: func(z, x, y bf.Elem) { z.(*goldilocks.Scalar).Add(x.(*goldilocks.Scalar), y.(*goldilocks.Scalar)) }, Ref: bf.RefAdd, Canon: true},
		{Name: "Sub", Do: func(z, x, y bf.Elem) { z.(*goldilocks.Scalar).Sub(x.(*goldilocks.Scalar), y.(*goldilocks.Scalar)) }, Ref: bf.RefSub, Canon: true},
		{Name: "Mul", Do: func(z, x, y bf.Elem) { z.(*goldilocks.Scalar).Mul(x.(*goldilocks.Scalar), y.(*goldilocks.Scalar)) }, Ref: bf.RefMul, Canon: true},
	}
	for _, op := range bin {
		f.CheckBin(r, op, all, all, op.Name == "Mul" && bf.HashPairs(all.Len()*all.Len()))
	}
	r.Count("ordered_pairs", all.Len()*all.Len())
	un := []bf.UnOp{
		{Name: "Neg", Do: func(z, x bf.Elem) { *z.(*goldilocks.Scalar) = *x.(*goldilocks.Scalar); z.(*goldilocks.Scalar).Neg() }, Ref: bf.RefNeg, Canon: true},
		{Name: "Red", Do: func(z, x bf.Elem) { *z.(*goldilocks.Scalar) = *x.(*goldilocks.Scalar); z.(*goldilocks.Scalar).Red() }, Ref: bf.RefId, Canon: true},
		{Name: "FromBytes56", Do: func(z, x bf.Elem) { b := *x.(*goldilocks.Scalar); z.(*goldilocks.Scalar).FromBytes(b[:]) }, Ref: bf.RefId, Canon: true},
	}
	for _, op := range un {
		f.CheckUn(r, op, all, true)
	}
	f.CheckPred(r, bf.Pred{Name: "IsZero", Do: func(x bf.Elem) bool { return x.(*goldilocks.Scalar).IsZero() }, Ref: bf.RefIsZero}, all)
	{
		l := bf.L448
		b := []bf.Operand{{V: new(big.Int), Name: "0"}, {V: big.NewInt(1), Name: "1"}, {V: new(big.Int).Sub(l, big.NewInt(1)), Name: "p-1"}, {V: bf.Pseudo("goldilocks-pred", 0, l), Name: "pseudo0"}, {V: bf.Pseudo("goldilocks-pred", 1, l), Name: "pseudo1"}}
		for k := int64(1); k <= 4; k++ {
			b = append(b, bf.Operand{V: new(big.Int).Mul(l, big.NewInt(k)), Name: "k*l"})
		}
		b = append(b, bf.Operand{V: new(big.Int).Sub(bf.Pow2(448), big.NewInt(1)), Name: "2^448-1"})
		f.CheckBitFlips(r, bf.BitFlip{Coords: 1, Bits: 448, P: l, Limit: bf.Pow2(448), IsZero: func(x bf.Elem) bool { return x.(*goldilocks.Scalar).IsZero() }}, b)
		r.RequireCounter("goldilocks.Scalar.predicates.one-bit-neighbours", 10*448)
	}
	r.RequireCounter("goldilocks.Scalar.IsZero.true", 5) // 0, l, 2l, 3l, 4l

	// FromBytes on every input length 0..171 (three times the scalar size) and four fills
	var nfb int
	maxLen := 3*goldilocks.ScalarSize + 3
	fills := map[string]func(i int) byte{
		"ff": func(int) byte { return 0xff }, "00": func(int) byte { return 0 },
		"inc": func(i int) byte { return byte(i*37 + 1) }, "pseudo": nil,
	}
	for _, fn := range []string{"00", "ff", "inc", "pseudo"} {
		for n := 0; n <= maxLen; n++ {
			b := make([]byte, n)
			if fills[fn] == nil {
				copy(b, bf.LE(bf.Pseudo("goldilocks-frombytes", n, bf.Pow2(uint(8*n+8))), n+1))
			} else {
				for i := range b {
					b[i] = fills[fn](i)
				}
			}
			cid := "goldilocks.Scalar.FromBytes#" + fn + "/" + big.NewInt(int64(n)).String()
			if r.Replaying() && r.ReplayCase() != cid {
				continue
			}
			v := bf.FromLE(b)
			z := f.New()
			f.Copy(z, all.E[all.Len()/2])
			z.(*goldilocks.Scalar).FromBytes(b)
			r.Eval(1)
			r.Distinct(cid)
			nfb++
			// lengths <= 48 bytes are stored without reduction (they are below l anyway)
			f.Expect(r, "FromBytes", "len-sweep", cid, z, v, true, v)
		}
	}
	// FromBytes over the (non-negative) boundary ladder around l, 2^446, 2^448, k*l and longer values, junk-filled receiver
	for _, pad := range []int{0, 3} {
		pad := pad
		f.CheckFromInt(r, "FromBytes", 448, bf.NonNegative(bf.SignedLadder(bf.L448, 446, "goldilocks")), true, func(z bf.Elem, v *big.Int) bool {
			z.(*goldilocks.Scalar).FromBytes(bf.LE(v, (v.BitLen()+7)/8+pad))
			return true
		})
	}
	r.RequireCounter("goldilocks.Scalar.FromBytes.from-int", 80)
	r.Count("goldilocks.Scalar.FromBytes.len-sweep", nfb)
	for i := 0; i < 3; i++ {
		k := i*all.Len()/3 + 5
		r.Sample(map[string]string{"element": all.Ops[k].Name, "value": all.Ops[k].V.Text(16)})
	}
	_ = small
}
