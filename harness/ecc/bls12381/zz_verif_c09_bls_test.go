//go:build verif

package bls12381_test

// C09 / BLS12-381: G1.SetBytes and G2.SetBytes accept only canonical encodings
// of elements of the order-r subgroup, in both wire formats, and re-serialise
// them to the bytes parsed. Oracle: strict decoder of ref/c09ref on the affine
// big.Int model ref/wcurve (subgroup test by [r]P).

import (
	"testing"

	bls "github.com/cloudflare/circl/ecc/bls12381"
	"github.com/cloudflare/circl/internal/verifmc"
	"github.com/cloudflare/circl/internal/verifref/c09ref"
	"github.com/cloudflare/circl/internal/verifref/wcurve"
)

type c09Elt[T any] interface {
	*T
	ScalarMult(k *bls.Scalar, P *T)
	IsEqual(*T) bool
	IsIdentity() bool
	SetBytes([]byte) error
	Bytes() []byte
	BytesCompressed() []byte
}

func c09ToDec(cs []c09ref.Case) []verifmc.DecCase {
	out := make([]verifmc.DecCase, len(cs))
	bases := c09ref.Bases(cs)
	for i, c := range cs {
		out[i] = verifmc.DecCase{Name: c.Name, Class: c.Class, Data: c.Data, Base: bases[i]}
	}
	return out
}

func c09BLSGroup[T any, PT c09Elt[T]](r *verifmc.Run, name string, c *wcurve.Curve, gen func() PT, isOn func(PT) bool) {
	for _, compressed := range []bool{true, false} {
		fname := "uncompressed"
		if compressed {
			fname = "compressed"
		}
		entry := "bls12381." + name + ".SetBytes/" + fname
		cases := c09ref.BLSCases(c, compressed, c09ref.BLSOptions{FlipBases: r.Pick(4, 11), AllAlias: r.Thorough()})
		// the library's own serialisations of [a]G
		for _, s := range c09ref.Scalars(c.N) {
			var k bls.Scalar
			k.SetBytes(s.V.Bytes())
			P := PT(new(T))
			P.ScalarMult(&k, gen())
			enc := P.Bytes()
			if compressed {
				enc = P.BytesCompressed()
			}
			cases = append(cases, c09ref.Case{Name: "lib/a=" + s.Name, Class: "valid-lib", Data: enc})
			// the converse clause in full: accepted again and equal to the original
			Q := PT(new(T))
			if err := Q.SetBytes(c09ref.Clone(enc)); err != nil || !Q.IsEqual(P) {
				r.Violation("C09|"+entry+"|own-encoding-not-equal|valid-lib", entry+"|lib/a="+s.Name,
					"SetBytes(P.Bytes()) fails or differs from P", map[string]string{"input": verifmc.FullHex(enc)})
			}
			r.Eval(1)
		}
		observe := func(P PT, in []byte) verifmc.DecResult {
			keep := c09ref.Clone(in)
			if err := P.SetBytes(in); err != nil {
				return verifmc.DecResult{}
			}
			res := verifmc.DecResult{Accepted: true, Point: P.Bytes()}
			// "the same format" is the one the flag bits of the input declare
			if in[0]&0x80 != 0 {
				res.Reenc = P.BytesCompressed()
			} else {
				res.Reenc = P.Bytes()
			}
			if !isOn(P) {
				res.Note = "accepted-value-fails-IsOnG"
			}
			if string(keep) != string(in) {
				res.Note = "input-modified"
			}
			return res
		}
		n := r.CheckDecoder(verifmc.DecSpec{
			Entry:      entry,
			Cases:      c09ToDec(cases),
			RefAll:     r.Thorough(),
			AcceptOnly: func(in []byte) bool { return PT(new(T)).SetBytes(in) == nil },
			Seq: func(first, second []byte) verifmc.DecResult {
				P := PT(new(T))
				verifmc.Try(func() { _ = P.SetBytes(first) })
				return observe(P, second)
			},
			Lib: func(in []byte) verifmc.DecResult { return observe(PT(new(T)), in) },
			Ref: func(in []byte) verifmc.DecOracle {
				v := c09ref.BLSVerdict(c, in)
				return verifmc.DecOracle{Member: v.Member, Reason: v.Reason, Point: v.Point}
			},
		})
		r.Count("accepted:"+name+"/"+fname, n)
	}
}

func TestVerifC09_bls_g1(t *testing.T) {
	r := verifmc.Start(t, "C09", "bls_g1")
	defer r.Finish()
	r.Rule("every input string of the alphabet (valid [a]G for a in {0,1,2,3,r-1,(r+1)/2,5 SHAKE values} from the reference and from the library; " +
		"all single-bit flips of 4 (quick) / 11 (thorough) of them; coordinates p+j and 2^bits-1-j, j<8; aliases x+p, y+p of valid points; " +
		"all 8 flag combinations x 5 payloads; 15 on-curve points outside the r-torsion; off-curve and wrong-curve points) x {compressed, uncompressed}; " +
		"every case also decoded with SetBytes into a value that already holds the nearest valid point, and before it; distinct = distinct (entry point, input bytes)")
	c09BLSGroup[bls.G1](r, "G1", wcurve.BLS12381G1(), bls.G1Generator, func(P *bls.G1) bool { return P.IsOnG1() })
	r.RequireCounter("in:nonsubgroup", 20)
	r.RequireCounter("in:alias", 6)
	r.RequireCounter("in:field-overflow", 64)
	r.RequireCounter("in:flip", 4600)
	r.RequireCounter("in:valid-lib", 22)
	r.RequireCounter("accepted", 44)
	r.RequireCounter("reused_receiver_cases", 4000)
}

func TestVerifC09_bls_g2(t *testing.T) {
	r := verifmc.Start(t, "C09", "bls_g2")
	defer r.Finish()
	r.Rule("as bls_g1 for G2 over GF(p^2): four (two) 48-byte coordinate slots per uncompressed (compressed) encoding, each with its own " +
		"overflow and alias cases; distinct = distinct (entry point, input bytes)")
	c09BLSGroup[bls.G2](r, "G2", wcurve.BLS12381G2(), bls.G2Generator, func(P *bls.G2) bool { return P.IsOnG2() })
	r.RequireCounter("in:nonsubgroup", 20)
	r.RequireCounter("in:alias", 10)
	r.RequireCounter("in:field-overflow", 128)
	r.RequireCounter("in:flip", 9200)
	r.RequireCounter("in:valid-lib", 22)
	r.RequireCounter("accepted", 44)
	r.RequireCounter("reused_receiver_cases", 4000)
}
