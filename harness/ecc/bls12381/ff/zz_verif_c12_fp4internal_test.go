//go:build verif

package ff

// C12: the two unexported Fp4 helpers used by the cubic Fp12 arithmetic,
// Fp4.mulT (multiplication by t = w^3) and Fp4.mulSubfield (Fp4 x Fp2), against
// the flat model Fp[w]/(w^12-2w^6+2). Self-contained: the only unexported
// identifiers named here are mulT and mulSubfield (everything else in this
// directory lives in the external test package).

import (
	"fmt"
	"math/big"
	"os"
	"testing"

	"github.com/cloudflare/circl/internal/verifmc"
	bf "github.com/cloudflare/circl/internal/verifref/bigfield"
)

func c12iCoords(x bf.Elem) []*Fp {
	switch z := x.(type) {
	case *Fp2:
		return []*Fp{&z[0], &z[1]}
	case *Fp4:
		return []*Fp{&z[0][0], &z[0][1], &z[1][0], &z[1][1]}
	}
	panic("c12iCoords")
}

func c12iField(T *bf.Tower, lay bf.Layout, newE func() bf.Elem) *bf.Field {
	n := lay.Coords()
	junk := make([]*big.Int, n)
	for i := range junk {
		junk[i] = bf.Pseudo("tower-junk-"+lay.Name, i, bf.PBLS)
	}
	return &bf.Field{
		Prop: "C12", Name: "bls12381." + lay.Name, P: bf.Pow2(uint(bf.TowerWidth * n)), Hex: 96 * n, New: newE,
		Load: func(z bf.Elem, packed *big.Int) bool {
			cs := c12iCoords(z)
			v := bf.Unpack(packed, bf.TowerWidth, len(cs))
			for i, c := range cs {
				if v[i].Cmp(bf.PBLS) >= 0 || c.UnmarshalBinary(v[i].FillBytes(make([]byte, FpSize))) != nil {
					return false
				}
			}
			return true
		},
		Raw: func(x bf.Elem) *big.Int {
			cs := c12iCoords(x)
			v := make([]*big.Int, len(cs))
			for i, c := range cs {
				b, err := c.MarshalBinary()
				if err != nil {
					panic(err)
				}
				v[i] = new(big.Int).SetBytes(b)
			}
			return bf.Pack(bf.TowerWidth, v...)
		},
		Copy: func(d, s bf.Elem) {
			dc, sc := c12iCoords(d), c12iCoords(s)
			for i := range dc {
				*dc[i] = *sc[i]
			}
		},
		Norm: func(v *big.Int) *big.Int { return T.NormPacked(lay, v) },
		Junk: bf.Pack(bf.TowerWidth, junk...),
		Par:  verifmc.ParallelFor,
	}
}

func TestVerifC12_blsfp4internal(t *testing.T) {
	if c := os.Getenv("VERIF_CONFIG"); c != "" && c != "default" {
		t.Skip("pure Go code: identical in every configuration; run under default only")
	}
	r := verifmc.Start(t, "C12", "blsfp4internal")
	defer r.Finish()
	if bad := bf.SelfCheck(); len(bad) != 0 {
		t.Fatalf("reference constants not bound: %v", bad)
	}
	T := bf.NewTower(bf.PBLS)
	P := bf.PBLS
	pm1 := new(big.Int).Sub(P, big.NewInt(1))
	half := new(big.Int).Rsh(P, 1)
	ps := func(k int) *big.Int { return bf.Pseudo("tower-elem", k, P) }
	vals := [][2]*big.Int{{new(big.Int), new(big.Int)}, {big.NewInt(1), new(big.Int)}, {pm1, pm1}, {ps(40), ps(41)}, {new(big.Int), big.NewInt(1)}, {big.NewInt(2), half}, {pm1, new(big.Int)}}
	var o2, o4 []bf.Operand
	for i, a := range vals {
		o2 = append(o2, bf.Operand{V: bf.Pack(bf.TowerWidth, a[0], a[1]), Name: fmt.Sprint("v", i)})
		for j, b := range vals {
			o4 = append(o4, bf.Operand{V: bf.Pack(bf.TowerWidth, a[0], a[1], b[0], b[1]), Name: fmt.Sprint("v", i, "+v", j, "*t")})
		}
	}
	L2, L4 := bf.LayFp2, bf.LayFp4
	f2 := c12iField(T, L2, func() bf.Elem { return new(Fp2) })
	f4 := c12iField(T, L4, func() bf.Elem { return new(Fp4) })
	s2, s4 := f2.Prepare("a", o2), f4.Prepare("b", o4)
	r.Set("fp4_elements", s4.Len())
	r.Set("fp2_elements", s2.Len())
	r.Rule("Fp4 = all pairs of 7 Fp2 values {0, 1, -1-u, pseudo, u, 2+((p-1)/2)u, -1}; mulT on every Fp4 element, mulSubfield on every (Fp4, Fp2) pair; junk-filled outputs and z=x; a distinct case is one (operation, operand tuple)")
	r.NotExhaustive("operands are the declared alphabet, not all tower elements")
	f4.CheckUn(r, bf.UnOp{Name: "mulT", Do: func(z, x bf.Elem) { z.(*Fp4).mulT(x.(*Fp4)) }, Canon: true,
		Ref: func(out, x, _ *big.Int) bool {
			res, ok := T.FromPoly(L4, T.Mul(T.ToPoly(L4, x), T.W(3)))
			if !ok {
				panic("reference left Fp4")
			}
			out.Set(res)
			return true
		}}, s4, true)
	nms := 0
	for i := 0; i < s4.Len(); i++ {
		for j := 0; j < s2.Len(); j++ {
			for _, alias := range []string{"distinct", "z=x"} {
				x, z := new(Fp4), new(Fp4)
				f4.Copy(x, s4.E[i])
				f4.Copy(z, s4.E[(i+5)%s4.Len()])
				if alias == "z=x" {
					z = x
				}
				y := *s2.E[j].(*Fp2)
				z.mulSubfield(x, &y)
				r.Eval(1)
				nms++
				cid := fmt.Sprintf("bls12381.Fp4.mulSubfield#b%d,a%d", i, j)
				r.Distinct(cid, alias)
				want, _ := T.FromPoly(L4, T.Mul(T.ToPoly(L4, s4.Red[i]), T.ToPoly(L2, s2.Red[j])))
				f4.Expect(r, "mulSubfield", alias, cid, z, want, true, s4.Red[i], s2.Red[j])
			}
		}
	}
	r.Count("bls12381.Fp4.mulSubfield", nms)
	r.RequireCounter("bls12381.Fp4.mulSubfield", 600)
	r.RequireCounter("bls12381.Fp4.mulT", 90)
	r.Sample(map[string]string{"fp4": s4.Ops[10].Name})
}
