//go:build verif

package ff_test

// C12 for the BLS12-381 base field Fp and scalar field (ff.Fp, ff.Scalar;
// fiat-crypto Montgomery code, pure Go): every exported operation against
// math/big, operands entered through the public constructors.

import (
	"fmt"
	"math/big"
	"os"
	"testing"

	"github.com/cloudflare/circl/ecc/bls12381/ff"
	"github.com/cloudflare/circl/internal/verifmc"
	bf "github.com/cloudflare/circl/internal/verifref/bigfield"
)

type c12Prime struct {
	name      string
	P         *big.Int
	size      int
	newE      func() bf.Elem
	cp        func(d, s bf.Elem)
	same      func(a, b bf.Elem) bool
	unmarshal func(z bf.Elem, b []byte) error
	marshal   func(x bf.Elem) []byte
	add, sub  func(z, x, y bf.Elem)
	mul       func(z, x, y bf.Elem)
	sqr, inv  func(z, x bf.Elem)
	neg       func(z bf.Elem)
	isZero    func(x bf.Elem) int
	isEqual   func(x, y bf.Elem) int
	setBytes  func(z bf.Elem, b []byte)
	setString func(z bf.Elem, s string) error
	setUint64 func(z bf.Elem, n uint64)
	setOne    func(z bf.Elem)
}

func c12SkipUnlessDefault(t *testing.T) {
	if c := os.Getenv("VERIF_CONFIG"); c != "" && c != "default" {
		t.Skip("pure Go code: identical in every configuration; run under default only")
	}
}

func (a *c12Prime) field() *bf.Field {
	return &bf.Field{
		Prop: "C12", Name: a.name, P: a.P, Hex: 2 * a.size,
		New: a.newE,
		Load: func(z bf.Elem, v *big.Int) bool {
			if v.Sign() < 0 || v.Cmp(a.P) >= 0 {
				return false
			}
			return a.unmarshal(z, v.FillBytes(make([]byte, a.size))) == nil
		},
		Copy: a.cp,
		Raw:  func(x bf.Elem) *big.Int { return new(big.Int).SetBytes(a.marshal(x)) },
		Same: a.same,
		Junk: bf.Pseudo(a.name+"-junk", 0, a.P),
		Par:  verifmc.ParallelFor,
	}
}

func c12RunPrime(t *testing.T, r *verifmc.Run, a *c12Prime, extra func(f *bf.Field, all, small *bf.Set)) {
	if bad := bf.SelfCheck(); len(bad) != 0 {
		t.Fatalf("reference constants not bound: %v", bad)
	}
	f := a.field()
	P := a.P
	nl := (P.BitLen() + 63) / 64
	wide := []uint64{0, 1, 2, 1<<32 - 1, 1 << 32, 1<<63 - 1, 1 << 63, ^uint64(0) - 1, ^uint64(0)}
	core := []uint64{0, 1, ^uint64(0)}
	if r.Thorough() {
		core = []uint64{0, 1, 1 << 63, ^uint64(0)}
	}
	pl := bf.ToLimbs(P, nl)
	var near []bf.Operand
	for i := 0; i < nl; i++ {
		for _, d := range []uint64{1, ^uint64(0)} {
			l := append([]uint64{}, pl...)
			l[i] += d
			near = append(near, bf.Operand{V: bf.FromLimbs(l), Name: "p+-2^64i"})
		}
	}
	lp := bf.LimbProduct(nl, bf.Rep(nl, core), bf.Rep(nl, wide), r.Pick(1, 2))
	ia := bf.IntAlphabet(P, 64, 24, a.name)
	all := f.Prepare("e", bf.Append(P, ia, near, lp))
	small := f.Prepare("k", bf.Thin(all.Ops, r.Pick(48, 128)))
	f.CheckAccepted(r, "UnmarshalBinary", all)
	r.Set("elements", all.Len())
	r.Set("key_elements", small.Len())
	r.Rule("operands: residues below the modulus entered through UnmarshalBinary: the integer alphabet around every 64/32-bit limb boundary (and modulus minus those, R, R^2, 1/R), modulus with +-1 on each limb, limb products (core^n plus <=k limbs away from 00../FF.. over 9 limb values), 24 pseudo-random; ALL ordered pairs for Add/Sub/Mul with junk-filled output and aliasing z=x, z=y, x=y, z=x=y; constructors SetBytes (every length 0..2*size+3, four fills, and multiples of the modulus), SetString (decimal/hex/out-of-range), SetUint64; pair sweeps above 1.5e6 cases are counted by the ordered_pairs counters instead of being hashed into distinct_nontrivial; a distinct case is one (operation, operand tuple)")
	r.NotExhaustive("operands are the declared alphabet, not all residues")

	bin := []bf.BinOp{
		{Name: "Add", Do: a.add, Ref: bf.RefAdd, Canon: true},
		{Name: "Sub", Do: a.sub, Ref: bf.RefSub, Canon: true},
		{Name: "Mul", Do: a.mul, Ref: bf.RefMul, Canon: true},
	}
	for _, op := range bin {
		f.CheckBin(r, op, all, all, op.Name == "Mul" && bf.HashPairs(all.Len()*all.Len()))
	}
	r.Count("ordered_pairs", all.Len()*all.Len())
	un := []bf.UnOp{
		{Name: "Neg", Do: func(z, x bf.Elem) { a.cp(z, x); a.neg(z) }, Ref: bf.RefNeg, Canon: true},
		{Name: "Sqr", Do: a.sqr, Ref: bf.RefSqr, Canon: true},
		{Name: "Inv", Do: a.inv, Ref: bf.RefInv, Canon: true},
		{Name: "SetOne", Do: func(z, x bf.Elem) { a.setOne(z) }, Ref: func(out, x, p *big.Int) bool { out.SetInt64(1); return true }, Canon: true},
		{Name: "Marshal-SetBytes", Do: func(z, x bf.Elem) { a.setBytes(z, a.marshal(x)) }, Ref: bf.RefId, Canon: true},
		{Name: "SetString(dec)", Do: func(z, x bf.Elem) {
			if err := a.setString(z, new(big.Int).SetBytes(a.marshal(x)).String()); err != nil {
				panic(err)
			}
		}, Ref: bf.RefId, Canon: true},
		{Name: "SetString(hex)", Do: func(z, x bf.Elem) {
			if err := a.setString(z, "0x"+new(big.Int).SetBytes(a.marshal(x)).Text(16)); err != nil {
				panic(err)
			}
		}, Ref: bf.RefId, Canon: true},
	}
	for _, op := range un {
		f.CheckUn(r, op, all, true)
	}
	f.CheckPred(r, bf.Pred{Name: "IsZero", Do: func(x bf.Elem) bool { return a.isZero(x) == 1 }, Ref: bf.RefIsZero}, all)
	r.RequireCounter(a.name+".IsZero.true", 1)
	// IsEqual on all pairs of the key list
	neq := 0
	for i := 0; i < small.Len(); i++ {
		for j := 0; j < small.Len(); j++ {
			r.Eval(1)
			neq++
			got := a.isEqual(small.E[i], small.E[j])
			want := 0
			if small.Red[i].Cmp(small.Red[j]) == 0 {
				want = 1
			}
			if got != want {
				r.Violation("C12|"+a.name+".IsEqual|wrong-flag|-|reduced", fmt.Sprintf("%s.IsEqual#k%d,k%d", a.name, i, j),
					fmt.Sprintf("IsEqual(%x, %x) = %d", small.Red[i], small.Red[j], got), nil)
			}
		}
	}
	r.Count(a.name+".IsEqual", neq)

	// SetBytes: arbitrary length, reduced mod the modulus
	nsb := 0
	checkSB := func(cid string, b []byte) {
		if r.Replaying() && r.ReplayCase() != cid {
			return
		}
		z := a.newE()
		a.cp(z, all.E[all.Len()/2])
		a.setBytes(z, b)
		r.Eval(1)
		r.Distinct(cid)
		nsb++
		v := new(big.Int).SetBytes(b)
		f.Expect(r, "SetBytes", "len="+fmt.Sprint(len(b) > a.size), cid, z, v, true, v)
	}
	for _, fill := range []string{"00", "ff", "inc", "pseudo"} {
		for n := 0; n <= 2*a.size+3; n++ {
			b := make([]byte, n)
			for i := range b {
				switch fill {
				case "ff":
					b[i] = 0xff
				case "inc":
					b[i] = byte(i*29 + 1)
				case "pseudo":
					b[i] = bf.LE(bf.Pseudo(a.name+"-sb", n, bf.Pow2(uint(8*n+8))), n+1)[i]
				}
			}
			checkSB(fmt.Sprintf("%s.SetBytes#%s/%d", a.name, fill, n), b)
		}
	}
	for k := int64(0); k <= 9; k++ {
		for d := int64(-1); d <= 1; d++ {
			v := new(big.Int).Mul(P, big.NewInt(k))
			v.Add(v, big.NewInt(d))
			if v.Sign() >= 0 {
				checkSB(fmt.Sprintf("%s.SetBytes#%dp%+d", a.name, k, d), v.Bytes())
			}
		}
	}
	r.Count(a.name+".SetBytes", nsb)
	// SetString must refuse what is not in [0, modulus); UnmarshalBinary may only store the right residue
	nref := 0
	for _, s := range []string{P.String(), new(big.Int).Add(P, big.NewInt(1)).String(), "-1", "0x" + P.Text(16), new(big.Int).Lsh(P, 64).String(), "", "zz", "0x"} {
		z := a.newE()
		r.Eval(1)
		if err := a.setString(z, s); err == nil {
			v, ok := new(big.Int).SetString(s, 0)
			if !ok || !f.Expect(r, "SetString", "out-of-range-accepted", a.name+".SetString#"+s, z, v, true, new(big.Int).Abs(v)) {
				r.Violation("C12|"+a.name+".SetString|accepted-with-wrong-value|-|unreduced", a.name+".SetString#"+s, "SetString("+s+") accepted", nil)
			}
		} else {
			nref++
		}
	}
	r.Count(a.name+".SetString.refused", nref)
	for k := int64(0); k <= 3; k++ {
		for d := int64(-1); d <= 1; d++ {
			v := new(big.Int).Mul(P, big.NewInt(k))
			v.Add(v, big.NewInt(d))
			if v.Sign() < 0 || v.BitLen() > 8*a.size {
				continue
			}
			z := a.newE()
			r.Eval(1)
			if err := a.unmarshal(z, v.FillBytes(make([]byte, a.size))); err == nil {
				f.Expect(r, "UnmarshalBinary", "accepted", fmt.Sprintf("%s.UnmarshalBinary#%dp%+d", a.name, k, d), z, v, true, v)
				r.Count(a.name+".UnmarshalBinary.accepted", 1)
			} else {
				r.Count(a.name+".UnmarshalBinary.refused", 1)
			}
		}
	}
	// integer -> element constructors over the signed boundary ladder, each into a junk-filled receiver
	ladder := bf.SignedLadder(P, uint(P.BitLen()), a.name)
	for _, pad := range []int{0, 5} {
		pad := pad
		f.CheckFromInt(r, "SetBytes", uint(8*a.size), bf.NonNegative(ladder), true, func(z bf.Elem, v *big.Int) bool {
			a.setBytes(z, append(make([]byte, pad), v.Bytes()...))
			return true
		})
	}
	f.CheckFromInt(r, "SetString(dec)", uint(8*a.size), ladder, true, func(z bf.Elem, v *big.Int) bool { return a.setString(z, v.String()) == nil })
	f.CheckFromInt(r, "SetString(hex)", uint(8*a.size), ladder, true, func(z bf.Elem, v *big.Int) bool {
		s := "0x" + new(big.Int).Abs(v).Text(16)
		if v.Sign() < 0 {
			s = "-" + s
		}
		return a.setString(z, s) == nil
	})
	f.CheckFromInt(r, "UnmarshalBinary", uint(8*a.size), bf.NonNegative(ladder), true, func(z bf.Elem, v *big.Int) bool {
		if v.BitLen() > 8*a.size {
			return false
		}
		return a.unmarshal(z, v.FillBytes(make([]byte, a.size))) == nil
	})
	r.RequireCounter(a.name+".SetBytes.from-int", 80)
	r.RequireCounter(a.name+".SetString(dec).from-int", 6)
	r.RequireCounter(a.name+".SetString(hex).from-int", 6)
	r.RequireCounter(a.name+".UnmarshalBinary.from-int", 6)
	// SetUint64
	for i, nn := range []uint64{0, 1, 2, 1<<32 - 1, 1 << 32, 1<<63 - 1, 1 << 63, ^uint64(0) - 1, ^uint64(0), 0xd201000000010000} {
		z := a.newE()
		a.cp(z, all.E[all.Len()/2])
		a.setUint64(z, nn)
		r.Eval(1)
		cid := fmt.Sprintf("%s.SetUint64#%d", a.name, i)
		r.Distinct(cid)
		f.Expect(r, "SetUint64", "-", cid, z, new(big.Int).SetUint64(nn), true, new(big.Int).SetUint64(nn))
	}
	// predicates against every one-bit neighbour in the Montgomery-domain words
	f.CheckBitFlips(r, bf.BitFlip{Coords: 1, Bits: uint(64 * nl), P: P, R: bf.Pow2(uint(64 * nl)), Limit: P,
		IsZero: func(x bf.Elem) bool { return a.isZero(x) == 1 }, IsEqual: func(x, y bf.Elem) bool { return a.isEqual(x, y) == 1 }},
		[]bf.Operand{{V: new(big.Int), Name: "0"}, {V: big.NewInt(1), Name: "1"}, {V: new(big.Int).Sub(P, big.NewInt(1)), Name: "p-1"}, {V: bf.Pseudo("bls-pred", 0, P), Name: "pseudo0"}, {V: bf.Pseudo("bls-pred", 1, P), Name: "pseudo1"}})
	r.RequireCounter(a.name+".predicates.one-bit-neighbours", int64(4*(P.BitLen()-1)))
	if extra != nil {
		extra(f, all, small)
	}
	for i := 0; i < 3; i++ {
		k := i*all.Len()/3 + 5
		r.Sample(map[string]string{"element": all.Ops[k].Name, "value": all.Ops[k].V.Text(16)})
	}
}

func TestVerifC12_blsfp(t *testing.T) {
	c12SkipUnlessDefault(t)
	r := verifmc.Start(t, "C12", "blsfp")
	defer r.Finish()
	if new(big.Int).SetBytes(ff.FpOrder()).Cmp(bf.PBLS) != 0 {
		t.Fatalf("ff.FpOrder() differs from (x-1)^2 r/3 + x")
	}
	e := func(x bf.Elem) *ff.Fp { return x.(*ff.Fp) }
	a := &c12Prime{
		name: "bls12381.Fp", P: bf.PBLS, size: ff.FpSize,
		newE:      func() bf.Elem { return new(ff.Fp) },
		cp:        func(d, s bf.Elem) { *e(d) = *e(s) },
		same:      func(x, y bf.Elem) bool { return *e(x) == *e(y) },
		unmarshal: func(z bf.Elem, b []byte) error { return e(z).UnmarshalBinary(b) },
		marshal: func(x bf.Elem) []byte {
			b, err := e(x).MarshalBinary()
			if err != nil {
				panic(err)
			}
			return b
		},
		add: func(z, x, y bf.Elem) { e(z).Add(e(x), e(y)) }, sub: func(z, x, y bf.Elem) { e(z).Sub(e(x), e(y)) },
		mul: func(z, x, y bf.Elem) { e(z).Mul(e(x), e(y)) },
		sqr: func(z, x bf.Elem) { e(z).Sqr(e(x)) }, inv: func(z, x bf.Elem) { e(z).Inv(e(x)) },
		neg:    func(z bf.Elem) { e(z).Neg() },
		isZero: func(x bf.Elem) int { return e(x).IsZero() }, isEqual: func(x, y bf.Elem) int { return e(x).IsEqual(e(y)) },
		setBytes:  func(z bf.Elem, b []byte) { e(z).SetBytes(b) },
		setString: func(z bf.Elem, s string) error { return e(z).SetString(s) },
		setUint64: func(z bf.Elem, n uint64) { e(z).SetUint64(n) }, setOne: func(z bf.Elem) { e(z).SetOne() },
	}
	c12RunPrime(t, r, a, func(f *bf.Field, all, small *bf.Set) {
		P := bf.PBLS
		half := new(big.Int).Rsh(P, 1)
		f.CheckPred(r, bf.Pred{Name: "IsNegative", Do: func(x bf.Elem) bool { return e(x).IsNegative() == 1 }, Ref: func(x, p *big.Int) bool { return x.Cmp(half) > 0 }}, all)
		f.CheckPred(r, bf.Pred{Name: "Sgn0", Do: func(x bf.Elem) bool { return e(x).Sgn0() == 1 }, Ref: func(x, p *big.Int) bool { return x.Bit(0) == 1 }}, all)
		f.CheckCmov(r, "CMov", func(x, y bf.Elem, b int) { e(x).CMov(e(x), e(y), b) }, []int{0, 1}, small, small)
		// ExpVarTime with big-endian exponents
		for _, ex := range []*big.Int{new(big.Int), big.NewInt(1), big.NewInt(2), big.NewInt(0xffff), new(big.Int).Sub(P, big.NewInt(1)), new(big.Int).Sub(P, big.NewInt(2)), half, bf.Pseudo("bls-exp", 0, bf.Pow2(500))} {
			ex := ex
			f.CheckUn(r, bf.UnOp{Name: "ExpVarTime", Do: func(z, x bf.Elem) { e(z).ExpVarTime(e(x), ex.Bytes()) },
				Ref: func(out, x, p *big.Int) bool { out.Exp(x, ex, p); return true }, Canon: true}, small, false)
		}
		// Sqrt: returns 1 and z = sqrt(x) iff x is a square; otherwise 0 and z unmodified
		var nq, nn int
		for i := 0; i < all.Len(); i++ {
			for _, alias := range []string{"distinct", "z=x"} {
				x := f.New()
				f.Copy(x, all.E[i])
				z := f.New()
				f.Copy(z, all.E[(i+1)%all.Len()])
				before := f.Raw(z)
				if alias == "z=x" {
					z = x
					before = f.Raw(x)
				}
				got := e(z).Sqrt(e(x))
				r.Eval(1)
				cid := fmt.Sprintf("bls12381.Fp.Sqrt#e%d", i)
				zr := f.Raw(z)
				xr := all.Red[i]
				sq := new(big.Int).Mul(zr, zr)
				sq.Mod(sq, P)
				switch {
				case xr.Sign() == 0:
					if got == 1 && sq.Sign() != 0 {
						r.Violation("C12|bls12381.Fp.Sqrt|wrong-root|"+alias+"|reduced", cid, "Sqrt(0) flag 1 with non-zero root", nil)
					}
				case bf.IsQR(xr, P):
					nq++
					if got != 1 || sq.Cmp(xr) != 0 {
						r.Violation("C12|bls12381.Fp.Sqrt|wrong-root-or-flag|"+alias+"|reduced", cid, fmt.Sprintf("Sqrt(%x) = (%d, %x)", xr, got, zr), nil)
					}
				default:
					nn++
					if got != 0 || zr.Cmp(before) != 0 {
						r.Violation("C12|bls12381.Fp.Sqrt|nonsquare-flag-or-output-modified|"+alias+"|reduced", cid, fmt.Sprintf("Sqrt(%x) = (%d, %x), z before %x", xr, got, zr, before), nil)
					}
				}
			}
		}
		r.Count("bls12381.Fp.Sqrt.square", nq)
		r.Count("bls12381.Fp.Sqrt.nonsquare", nn)
		r.RequireCounter("bls12381.Fp.Sqrt.square", 50)
		r.RequireCounter("bls12381.Fp.Sqrt.nonsquare", 50)
	})
}

func TestVerifC12_blsscalar(t *testing.T) {
	c12SkipUnlessDefault(t)
	r := verifmc.Start(t, "C12", "blsscalar")
	defer r.Finish()
	if new(big.Int).SetBytes(ff.ScalarOrder()).Cmp(bf.RBLS) != 0 {
		t.Fatalf("ff.ScalarOrder() differs from x^4-x^2+1")
	}
	e := func(x bf.Elem) *ff.Scalar { return x.(*ff.Scalar) }
	a := &c12Prime{
		name: "bls12381.Scalar", P: bf.RBLS, size: ff.ScalarSize,
		newE:      func() bf.Elem { return new(ff.Scalar) },
		cp:        func(d, s bf.Elem) { e(d).Set(e(s)) },
		same:      func(x, y bf.Elem) bool { return *e(x) == *e(y) },
		unmarshal: func(z bf.Elem, b []byte) error { return e(z).UnmarshalBinary(b) },
		marshal: func(x bf.Elem) []byte {
			b, err := e(x).MarshalBinary()
			if err != nil {
				panic(err)
			}
			return b
		},
		add: func(z, x, y bf.Elem) { e(z).Add(e(x), e(y)) }, sub: func(z, x, y bf.Elem) { e(z).Sub(e(x), e(y)) },
		mul: func(z, x, y bf.Elem) { e(z).Mul(e(x), e(y)) },
		sqr: func(z, x bf.Elem) { e(z).Sqr(e(x)) }, inv: func(z, x bf.Elem) { e(z).Inv(e(x)) },
		neg:    func(z bf.Elem) { e(z).Neg() },
		isZero: func(x bf.Elem) int { return e(x).IsZero() }, isEqual: func(x, y bf.Elem) int { return e(x).IsEqual(e(y)) },
		setBytes:  func(z bf.Elem, b []byte) { e(z).SetBytes(b) },
		setString: func(z bf.Elem, s string) error { return e(z).SetString(s) },
		setUint64: func(z bf.Elem, n uint64) { e(z).SetUint64(n) }, setOne: func(z bf.Elem) { e(z).SetOne() },
	}
	c12RunPrime(t, r, a, nil)
}
