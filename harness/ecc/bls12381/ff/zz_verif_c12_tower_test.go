//go:build verif

package ff_test

// C12 for the BLS12-381 tower Fp2/Fp4/Fp6/Fp12/Fp12Cubic/Cyclo6/URoot: every
// operation against the flat model Fp[w]/(w^12 - 2 w^6 + 2) of
// /verif/ref/bigfield (u = w^6-1, v = w^2, t = w^3), i.e. plain polynomial
// arithmetic on math/big with no towering.

import (
	"fmt"
	"math/big"
	"testing"

	"github.com/cloudflare/circl/ecc/bls12381/ff"
	"github.com/cloudflare/circl/internal/verifmc"
	bf "github.com/cloudflare/circl/internal/verifref/bigfield"
)

var c12T = bf.NewTower(bf.PBLS)

func c12fp2c(z *ff.Fp2) []*ff.Fp { return []*ff.Fp{&z[0], &z[1]} }

func c12Coords(x bf.Elem) []*ff.Fp {
	var out []*ff.Fp
	switch z := x.(type) {
	case *ff.Fp2:
		out = c12fp2c(z)
	case *ff.Fp4:
		out = append(c12fp2c(&z[0]), c12fp2c(&z[1])...)
	case *ff.Fp6:
		for j := range z {
			out = append(out, c12fp2c(&z[j])...)
		}
	case *ff.Fp12:
		for i := range z {
			for j := range z[i] {
				out = append(out, c12fp2c(&z[i][j])...)
			}
		}
	case *ff.Fp12Cubic:
		for m := range z {
			for h := range z[m] {
				out = append(out, c12fp2c(&z[m][h])...)
			}
		}
	case *ff.LineValue:
		for s := range z {
			out = append(out, c12fp2c(&z[s])...)
		}
	default:
		panic("c12Coords: unknown type")
	}
	return out
}

func c12FpInt(x *ff.Fp) *big.Int {
	b, err := x.MarshalBinary()
	if err != nil {
		panic(err)
	}
	return new(big.Int).SetBytes(b)
}

func c12Raw(x bf.Elem) *big.Int {
	cs := c12Coords(x)
	v := make([]*big.Int, len(cs))
	for i, c := range cs {
		v[i] = c12FpInt(c)
	}
	return bf.Pack(bf.TowerWidth, v...)
}

func c12Load(z bf.Elem, packed *big.Int) bool {
	cs := c12Coords(z)
	v := bf.Unpack(packed, bf.TowerWidth, len(cs))
	for i, c := range cs {
		if v[i].Cmp(bf.PBLS) >= 0 || c.UnmarshalBinary(v[i].FillBytes(make([]byte, ff.FpSize))) != nil {
			return false
		}
	}
	return true
}

func c12TowerField(lay bf.Layout, newE func() bf.Elem) *bf.Field {
	n := lay.Coords()
	junk := make([]*big.Int, n)
	for i := range junk {
		junk[i] = bf.Pseudo("tower-junk-"+lay.Name, i, bf.PBLS)
	}
	return &bf.Field{
		Prop: "C12", Name: "bls12381." + lay.Name, P: bf.Pow2(uint(bf.TowerWidth * n)), Hex: 96 * n,
		New: newE, Load: c12Load, Raw: c12Raw,
		Copy: func(d, s bf.Elem) {
			dc, sc := c12Coords(d), c12Coords(s)
			for i := range dc {
				*dc[i] = *sc[i]
			}
		},
		Same: func(a, b bf.Elem) bool {
			ac, bc := c12Coords(a), c12Coords(b)
			for i := range ac {
				if *ac[i] != *bc[i] {
					return false
				}
			}
			return true
		},
		Norm: func(v *big.Int) *big.Int { return c12T.NormPacked(lay, v) },
		Junk: bf.Pack(bf.TowerWidth, junk...),
		Par:  verifmc.ParallelFor,
	}
}

// reference adaptors: packed -> flat model -> packed
func c12R2(lay bf.Layout, f func(a, b bf.Poly12) bf.Poly12) func(out, x, y, _ *big.Int) bool {
	return func(out, x, y, _ *big.Int) bool {
		res, ok := c12T.FromPoly(lay, f(c12T.ToPoly(lay, x), c12T.ToPoly(lay, y)))
		if !ok {
			panic("reference result left the subspace of " + lay.Name)
		}
		out.Set(res)
		return true
	}
}

func c12R1(lay bf.Layout, f func(a bf.Poly12) (bf.Poly12, bool)) func(out, x, _ *big.Int) bool {
	return func(out, x, _ *big.Int) bool {
		p, def := f(c12T.ToPoly(lay, x))
		if !def {
			return false
		}
		res, ok := c12T.FromPoly(lay, p)
		if !ok {
			panic("reference result left the subspace of " + lay.Name)
		}
		out.Set(res)
		return true
	}
}

func c12tot(f func(a bf.Poly12) bf.Poly12) func(a bf.Poly12) (bf.Poly12, bool) {
	return func(a bf.Poly12) (bf.Poly12, bool) { return f(a), true }
}

// slot-wise element builder: every assignment of values to at most maxNZ non-zero slots
func c12SlotElems(nslots int, vals [][2]*big.Int, maxNZ int) []bf.Operand {
	var out []bf.Operand
	zero := [2]*big.Int{new(big.Int), new(big.Int)}
	cur := make([][2]*big.Int, nslots)
	var rec func(s, nz int, name string)
	rec = func(s, nz int, name string) {
		if s == nslots {
			var cs []*big.Int
			for _, c := range cur {
				cs = append(cs, c[0], c[1])
			}
			out = append(out, bf.Operand{V: bf.Pack(bf.TowerWidth, cs...), Name: name})
			return
		}
		cur[s] = zero
		rec(s+1, nz, name+"0")
		if nz < maxNZ {
			for k, v := range vals {
				cur[s] = v
				rec(s+1, nz+1, name+string(rune('a'+k)))
			}
		}
	}
	rec(0, 0, "")
	return out
}

// TestVerifC12_refcheck binds the flat tower model and the constants before they are trusted.
func TestVerifC12_refcheck(t *testing.T) {
	c12SkipUnlessDefault(t)
	r := verifmc.Start(t, "C12", "refcheck")
	defer r.Finish()
	if bad := bf.SelfCheck(); len(bad) != 0 {
		t.Fatalf("reference constants not bound: %v", bad)
	}
	T := c12T
	P := bf.PBLS
	w := T.W(1)
	u := T.Sub(T.W(6), T.One())
	v := T.W(2)
	chk := func(ok bool, what string) {
		r.Eval(1)
		if !ok {
			t.Fatalf("tower model: %s", what)
		}
		r.Distinct(what)
	}
	chk(T.Equal(T.Mul(u, u), T.Neg(T.One())), "u^2 = -1")
	chk(T.Equal(T.Mul(v, T.Mul(v, v)), T.Add(u, T.One())), "v^3 = u+1")
	chk(T.Equal(T.Mul(w, w), v), "w^2 = v")
	chk(T.Equal(T.Exp(w, big.NewInt(12)), T.Sub(T.Add(T.W(6), T.W(6)), T.Add(T.One(), T.One()))), "w^12 = 2w^6-2")
	// the model is a field of p^12 elements: x^(p^12) = x, and x^((p^12-1)/r) has order dividing r
	var xs []bf.Poly12
	for k := 0; k < 3; k++ {
		x := T.Zero()
		for i := range x {
			x[i] = bf.Pseudo("refcheck-tower", 12*k+i, P)
		}
		xs = append(xs, x)
	}
	p12 := new(big.Int).Exp(P, big.NewInt(12), nil)
	x, y, z := xs[0], xs[1], xs[2]
	chk(T.Equal(T.Exp(x, p12), x), "x^(p^12) = x")
	chk(T.Equal(T.Mul(T.Mul(x, y), z), T.Mul(x, T.Mul(y, z))), "associativity")
	chk(T.Equal(T.Mul(x, T.Add(y, z)), T.Add(T.Mul(x, y), T.Mul(x, z))), "distributivity")
	xi, ok := T.Inv(x)
	chk(ok && T.Equal(T.Mul(x, xi), T.One()), "x * Inv(x) = 1")
	chk(T.Equal(T.Frob(x), T.Exp(x, P)), "Frob(x) = x^p (generic exponentiation)")
	chk(T.Equal(T.Frob(T.Mul(x, y)), T.Mul(T.Frob(x), T.Frob(y))), "Frob multiplicative")
	f12 := x
	for i := 0; i < 12; i++ {
		f12 = T.Frob(f12)
	}
	chk(T.Equal(f12, x), "Frob^12 = id")
	_, ok = T.Inv(T.Zero())
	chk(!ok, "0 has no inverse")
	// layouts round-trip and embed consistently
	for _, lay := range []bf.Layout{bf.LayFp2, bf.LayFp4, bf.LayFp6, bf.LayFp12, bf.LayFp12Cubic, bf.LayLine} {
		cs := make([]*big.Int, lay.Coords())
		for i := range cs {
			cs[i] = bf.Pseudo("refcheck-lay-"+lay.Name, i, P)
		}
		pk := bf.Pack(bf.TowerWidth, cs...)
		back, ok := T.FromPoly(lay, T.ToPoly(lay, pk))
		chk(ok && back.Cmp(pk) == 0, "layout round trip "+lay.Name)
	}
	// hard-part exponent identity used by the cyclotomic unit
	X := bf.BLSX
	xm1 := new(big.Int).Sub(X, big.NewInt(1))
	e := new(big.Int).Mul(xm1, xm1)
	e.Mul(e, new(big.Int).Add(X, P))
	t2 := new(big.Int).Add(new(big.Int).Mul(X, X), new(big.Int).Mul(P, P))
	e.Mul(e, t2.Sub(t2, big.NewInt(1)))
	e.Add(e, big.NewInt(3))
	p2 := new(big.Int).Mul(P, P)
	h := new(big.Int).Mul(p2, p2)
	h.Sub(h, p2).Add(h, big.NewInt(1)).Mul(h, big.NewInt(3))
	q, m := new(big.Int).QuoRem(h, bf.RBLS, new(big.Int))
	chk(m.Sign() == 0 && q.Cmp(e) == 0, "3(p^4-p^2+1)/r = (x-1)^2 (x+p)(x^2+p^2-1) + 3")
	// Go std cross-check of the prime-field reference functions
	for k := 0; k < 8; k++ {
		a := bf.Pseudo("refcheck-fp", k, P)
		if a.Sign() == 0 {
			continue
		}
		o := new(big.Int)
		bf.RefInv(o, a, P)
		chk(o.Mul(o, a).Mod(o, P).Cmp(big.NewInt(1)) == 0, fmt.Sprintf("RefInv %d", k))
		sq := new(big.Int).Mul(a, a)
		sq.Mod(sq, P)
		chk(bf.IsQR(sq, P) && new(big.Int).ModSqrt(sq, P) != nil, fmt.Sprintf("IsQR on a square %d", k))
		chk(bf.IsQR(a, P) == (new(big.Int).ModSqrt(a, P) != nil), fmt.Sprintf("IsQR agrees with ModSqrt %d", k))
	}
	r.Rule("algebraic identities that pin the flat model Fp[w]/(w^12-2w^6+2): defining relations, field axioms on pseudo-random elements, x^(p^12)=x, Frobenius against generic exponentiation, inverse by elimination, layout round trips, the hard-part exponent identity, IsQR against big.Int.ModSqrt")
}

func TestVerifC12_blstower(t *testing.T) {
	c12SkipUnlessDefault(t)
	r := verifmc.Start(t, "C12", "blstower")
	defer r.Finish()
	if bad := bf.SelfCheck(); len(bad) != 0 {
		t.Fatalf("reference constants not bound: %v", bad)
	}
	T := c12T
	P := bf.PBLS
	pm1 := new(big.Int).Sub(P, big.NewInt(1))
	half := new(big.Int).Rsh(P, 1)
	ps := func(k int) *big.Int { return bf.Pseudo("tower-elem", k, P) }
	fpCore := []*big.Int{new(big.Int), big.NewInt(1), big.NewInt(2), pm1, half, ps(0)}
	r.Set("fp_core", len(fpCore))
	r.Rule("Fp2: all 36 pairs of a 6-value Fp core {0,1,2,p-1,(p-1)/2,pseudo} (+8 pseudo-random), all ordered pairs; Fp4: all pairs of 7 Fp2 values; Fp6: every assignment of {0, 1, -1-u, pseudo} to the 3 slots; Fp12 / Fp12Cubic: every element with <=3 non-zero Fp2 slots over {1, -1-u, pseudo} plus all-slots-equal and 8 dense pseudo-random elements; binary ops on all ordered pairs (quick: thinned Fp12 list), junk-filled outputs, aliasing z=x, z=y, x=y, z=x=y; cyclotomic ops on the images of EasyExponentiation; pair sweeps above 1.5e6 cases are counted by the ordered_pairs counters instead of being hashed into distinct_nontrivial; a distinct case is one (operation, operand tuple)")
	r.NotExhaustive("operands are the declared alphabet, not all tower elements")

	// ---------- Fp2 ----------
	f2 := c12TowerField(bf.LayFp2, func() bf.Elem { return new(ff.Fp2) })
	var o2 []bf.Operand
	for i, a := range fpCore {
		for j, b := range fpCore {
			o2 = append(o2, bf.Operand{V: bf.Pack(bf.TowerWidth, a, b), Name: fmt.Sprintf("core%d+core%d*u", i, j)})
		}
	}
	for k := 0; k < 8; k++ {
		o2 = append(o2, bf.Operand{V: bf.Pack(bf.TowerWidth, ps(10+2*k), ps(11+2*k)), Name: "pseudo"})
	}
	s2 := f2.Prepare("a", o2)
	e2 := func(x bf.Elem) *ff.Fp2 { return x.(*ff.Fp2) }
	L2 := bf.LayFp2
	for _, op := range []bf.BinOp{
		{Name: "Add", Do: func(z, x, y bf.Elem) { e2(z).Add(e2(x), e2(y)) }, Ref: c12R2(L2, T.Add), Canon: true},
		{Name: "Sub", Do: func(z, x, y bf.Elem) { e2(z).Sub(e2(x), e2(y)) }, Ref: c12R2(L2, T.Sub), Canon: true},
		{Name: "Mul", Do: func(z, x, y bf.Elem) { e2(z).Mul(e2(x), e2(y)) }, Ref: c12R2(L2, T.Mul), Canon: true},
	} {
		f2.CheckBin(r, op, s2, s2, true)
	}
	beta := T.Add(T.One(), T.Sub(T.W(6), T.One())) // 1 + u
	inv := func(a bf.Poly12) (bf.Poly12, bool) { return T.Inv(a) }
	for _, op := range []bf.UnOp{
		{Name: "Neg", Do: func(z, x bf.Elem) { *e2(z) = *e2(x); e2(z).Neg() }, Ref: c12R1(L2, c12tot(T.Neg)), Canon: true},
		{Name: "Sqr", Do: func(z, x bf.Elem) { e2(z).Sqr(e2(x)) }, Ref: c12R1(L2, c12tot(T.Sqr)), Canon: true},
		{Name: "Inv", Do: func(z, x bf.Elem) { e2(z).Inv(e2(x)) }, Ref: c12R1(L2, inv), Canon: true},
		{Name: "Cjg", Do: func(z, x bf.Elem) { *e2(z) = *e2(x); e2(z).Cjg() }, Ref: c12R1(L2, c12tot(T.Frob)), Canon: true},
		{Name: "Frob", Do: func(z, x bf.Elem) { e2(z).Frob(e2(x)) }, Ref: c12R1(L2, c12tot(T.Frob)), Canon: true},
		{Name: "MulBeta", Do: func(z, x bf.Elem) { *e2(z) = *e2(x); e2(z).MulBeta() }, Ref: c12R1(L2, c12tot(func(a bf.Poly12) bf.Poly12 { return T.Mul(a, beta) })), Canon: true},
		{Name: "SetOne", Do: func(z, x bf.Elem) { e2(z).SetOne() }, Ref: c12R1(L2, c12tot(func(a bf.Poly12) bf.Poly12 { return T.One() })), Canon: true},
		{Name: "Marshal-Unmarshal", Do: func(z, x bf.Elem) {
			b, err := e2(x).MarshalBinary()
			if err != nil || len(b) != ff.Fp2Size {
				panic("MarshalBinary")
			}
			// documented order: z[1] first
			if new(big.Int).SetBytes(b[:ff.FpSize]).Cmp(c12FpInt(&e2(x)[1])) != 0 || new(big.Int).SetBytes(b[ff.FpSize:]).Cmp(c12FpInt(&e2(x)[0])) != 0 {
				panic("MarshalBinary coordinate order")
			}
			if err := e2(z).UnmarshalBinary(b); err != nil {
				panic(err)
			}
		}, Ref: c12R1(L2, c12tot(func(a bf.Poly12) bf.Poly12 { return a })), Canon: true},
		{Name: "SetString", Do: func(z, x bf.Elem) {
			if err := e2(z).SetString(c12FpInt(&e2(x)[0]).String(), "0x"+c12FpInt(&e2(x)[1]).Text(16)); err != nil {
				panic(err)
			}
		}, Ref: c12R1(L2, c12tot(func(a bf.Poly12) bf.Poly12 { return a })), Canon: true},
	} {
		f2.CheckUn(r, op, s2, true)
	}
	for _, ex := range []*big.Int{new(big.Int), big.NewInt(1), big.NewInt(3), big.NewInt(0xfedc), P, new(big.Int).Sub(new(big.Int).Mul(P, P), big.NewInt(1))} {
		ex := ex
		f2.CheckUn(r, bf.UnOp{Name: "ExpVarTime", Do: func(z, x bf.Elem) { e2(z).ExpVarTime(e2(x), ex.Bytes()) },
			Ref: c12R1(L2, c12tot(func(a bf.Poly12) bf.Poly12 { return T.Exp(a, ex) })), Canon: true}, s2, false)
	}
	unp2 := func(x *big.Int) (*big.Int, *big.Int) { c := bf.Unpack(x, bf.TowerWidth, 2); return c[0], c[1] }
	f2.CheckPred(r, bf.Pred{Name: "IsZero", Do: func(x bf.Elem) bool { return e2(x).IsZero() == 1 }, Ref: func(x, _ *big.Int) bool { return x.Sign() == 0 }}, s2)
	f2.CheckPred(r, bf.Pred{Name: "IsNegative", Do: func(x bf.Elem) bool { return e2(x).IsNegative() == 1 }, Ref: func(x, _ *big.Int) bool {
		a, b := unp2(x) // lexicographic: by the u coordinate, then the constant one
		if b.Sign() != 0 {
			return b.Cmp(half) > 0
		}
		return a.Cmp(half) > 0
	}}, s2)
	f2.CheckPred(r, bf.Pred{Name: "Sgn0", Do: func(x bf.Elem) bool { return e2(x).Sgn0() == 1 }, Ref: func(x, _ *big.Int) bool {
		a, b := unp2(x) // RFC 9380 sgn0 for m=2
		if a.Sign() != 0 {
			return a.Bit(0) == 1
		}
		return b.Bit(0) == 1
	}}, s2)
	f2.CheckCmov(r, "CMov", func(x, y bf.Elem, b int) { e2(x).CMov(e2(x), e2(y), b) }, []int{0, 1}, s2, s2)
	neq := 0
	for i := 0; i < s2.Len(); i++ {
		for j := 0; j < s2.Len(); j++ {
			r.Eval(1)
			neq++
			if got, want := e2(s2.E[i]).IsEqual(e2(s2.E[j])) == 1, s2.Red[i].Cmp(s2.Red[j]) == 0; got != want {
				r.Violation("C12|bls12381.Fp2.IsEqual|wrong-flag|-|reduced", fmt.Sprintf("bls12381.Fp2.IsEqual#a%d,a%d", i, j), "IsEqual wrong", nil)
			}
		}
	}
	r.Count("bls12381.Fp2.IsEqual", neq)
	// Sqrt: x (non-zero) is a square in Fp2 iff its norm a^2+b^2 is a square in Fp
	var nq, nn int
	for i := 0; i < s2.Len(); i++ {
		for _, alias := range []string{"distinct", "z=x"} {
			x, z := new(ff.Fp2), new(ff.Fp2)
			*x = *e2(s2.E[i])
			*z = *e2(s2.E[(i+1)%s2.Len()])
			before := c12Raw(z)
			if alias == "z=x" {
				z = x
				before = c12Raw(x)
			}
			got := z.Sqrt(x)
			r.Eval(1)
			cid := fmt.Sprintf("bls12381.Fp2.Sqrt#a%d", i)
			r.Distinct(cid, alias)
			a, b := unp2(s2.Red[i])
			nrm := new(big.Int).Add(new(big.Int).Mul(a, a), new(big.Int).Mul(b, b))
			nrm.Mod(nrm, P)
			zp := T.ToPoly(L2, c12Raw(z))
			okRoot := T.Equal(T.Sqr(zp), T.ToPoly(L2, s2.Red[i]))
			switch {
			case s2.Red[i].Sign() == 0:
				if got == 1 && !okRoot {
					r.Violation("C12|bls12381.Fp2.Sqrt|wrong-root|"+alias+"|reduced", cid, "Sqrt(0) flag 1 with wrong root", nil)
				}
			case bf.IsQR(nrm, P):
				nq++
				if got != 1 || !okRoot {
					r.Violation("C12|bls12381.Fp2.Sqrt|wrong-root-or-flag|"+alias+"|reduced", cid, fmt.Sprintf("Sqrt(%x) = (%d, %x)", s2.Red[i], got, c12Raw(z)), map[string]string{"x": s2.Red[i].Text(16)})
				}
			default:
				nn++
				if got != 0 || c12Raw(z).Cmp(before) != 0 {
					r.Violation("C12|bls12381.Fp2.Sqrt|nonsquare-flag-or-output-modified|"+alias+"|reduced", cid, fmt.Sprintf("Sqrt(%x) = (%d, %x)", s2.Red[i], got, c12Raw(z)), map[string]string{"x": s2.Red[i].Text(16)})
				}
			}
		}
	}
	r.Count("bls12381.Fp2.Sqrt.square", nq)
	r.Count("bls12381.Fp2.Sqrt.nonsquare", nn)
	r.RequireCounter("bls12381.Fp2.Sqrt.square", 10)
	r.RequireCounter("bls12381.Fp2.Sqrt.nonsquare", 10)

	// ---------- Fp4 ----------
	fp2vals := [][2]*big.Int{{big.NewInt(1), new(big.Int)}, {pm1, pm1}, {ps(40), ps(41)}, {new(big.Int), big.NewInt(1)}, {big.NewInt(2), half}, {pm1, new(big.Int)}}
	core3 := fp2vals[:3]
	f4 := c12TowerField(bf.LayFp4, func() bf.Elem { return new(ff.Fp4) })
	s4 := f4.Prepare("b", c12SlotElems(2, fp2vals, 2))
	e4 := func(x bf.Elem) *ff.Fp4 { return x.(*ff.Fp4) }
	L4 := bf.LayFp4
	for _, op := range []bf.BinOp{
		{Name: "Add", Do: func(z, x, y bf.Elem) { e4(z).Add(e4(x), e4(y)) }, Ref: c12R2(L4, T.Add), Canon: true},
		{Name: "Sub", Do: func(z, x, y bf.Elem) { e4(z).Sub(e4(x), e4(y)) }, Ref: c12R2(L4, T.Sub), Canon: true},
		{Name: "Mul", Do: func(z, x, y bf.Elem) { e4(z).Mul(e4(x), e4(y)) }, Ref: c12R2(L4, T.Mul), Canon: true},
	} {
		f4.CheckBin(r, op, s4, s4, true)
	}
	p2 := new(big.Int).Mul(P, P)
	frob2 := func(a bf.Poly12) bf.Poly12 { return T.Frob(T.Frob(a)) }
	for _, op := range []bf.UnOp{
		{Name: "Neg", Do: func(z, x bf.Elem) { *e4(z) = *e4(x); e4(z).Neg() }, Ref: c12R1(L4, c12tot(T.Neg)), Canon: true},
		{Name: "Sqr", Do: func(z, x bf.Elem) { e4(z).Sqr(e4(x)) }, Ref: c12R1(L4, c12tot(T.Sqr)), Canon: true},
		{Name: "Inv", Do: func(z, x bf.Elem) { e4(z).Inv(e4(x)) }, Ref: c12R1(L4, inv), Canon: true},
		{Name: "Cjg", Do: func(z, x bf.Elem) { *e4(z) = *e4(x); e4(z).Cjg() }, Ref: c12R1(L4, c12tot(frob2)), Canon: true},
		{Name: "SetOne", Do: func(z, x bf.Elem) { e4(z).SetOne() }, Ref: c12R1(L4, c12tot(func(a bf.Poly12) bf.Poly12 { return T.One() })), Canon: true},
	} {
		f4.CheckUn(r, op, s4, true)
	}
	_ = p2
	f4.CheckPred(r, bf.Pred{Name: "IsZero", Do: func(x bf.Elem) bool { return e4(x).IsZero() == 1 }, Ref: func(x, _ *big.Int) bool { return x.Sign() == 0 }}, s4)

	// ---------- Fp6 ----------
	f6 := c12TowerField(bf.LayFp6, func() bf.Elem { return new(ff.Fp6) })
	o6 := c12SlotElems(3, core3, 3)
	for k := 0; k < 6; k++ {
		var cs []*big.Int
		for i := 0; i < 6; i++ {
			cs = append(cs, ps(100+6*k+i))
		}
		o6 = append(o6, bf.Operand{V: bf.Pack(bf.TowerWidth, cs...), Name: "pseudo"})
	}
	s6 := f6.Prepare("c", o6)
	e6 := func(x bf.Elem) *ff.Fp6 { return x.(*ff.Fp6) }
	L6 := bf.LayFp6
	for _, op := range []bf.BinOp{
		{Name: "Add", Do: func(z, x, y bf.Elem) { e6(z).Add(e6(x), e6(y)) }, Ref: c12R2(L6, T.Add), Canon: true},
		{Name: "Sub", Do: func(z, x, y bf.Elem) { e6(z).Sub(e6(x), e6(y)) }, Ref: c12R2(L6, T.Sub), Canon: true},
		{Name: "Mul", Do: func(z, x, y bf.Elem) { e6(z).Mul(e6(x), e6(y)) }, Ref: c12R2(L6, T.Mul), Canon: true},
	} {
		f6.CheckBin(r, op, s6, s6, true)
	}
	for _, op := range []bf.UnOp{
		{Name: "Neg", Do: func(z, x bf.Elem) { *e6(z) = *e6(x); e6(z).Neg() }, Ref: c12R1(L6, c12tot(T.Neg)), Canon: true},
		{Name: "Sqr", Do: func(z, x bf.Elem) { e6(z).Sqr(e6(x)) }, Ref: c12R1(L6, c12tot(T.Sqr)), Canon: true},
		{Name: "Inv", Do: func(z, x bf.Elem) { e6(z).Inv(e6(x)) }, Ref: c12R1(L6, inv), Canon: true},
		{Name: "Frob", Do: func(z, x bf.Elem) { e6(z).Frob(e6(x)) }, Ref: c12R1(L6, c12tot(T.Frob)), Canon: true},
		{Name: "MulBeta", Do: func(z, x bf.Elem) { *e6(z) = *e6(x); e6(z).MulBeta() }, Ref: c12R1(L6, c12tot(func(a bf.Poly12) bf.Poly12 { return T.Mul(a, T.W(2)) })), Canon: true},
		{Name: "SetOne", Do: func(z, x bf.Elem) { e6(z).SetOne() }, Ref: c12R1(L6, c12tot(func(a bf.Poly12) bf.Poly12 { return T.One() })), Canon: true},
		{Name: "Marshal-Unmarshal", Do: func(z, x bf.Elem) {
			b, err := e6(x).MarshalBinary()
			if err != nil || len(b) != ff.Fp6Size {
				panic("MarshalBinary")
			}
			if err := e6(z).UnmarshalBinary(b); err != nil {
				panic(err)
			}
		}, Ref: c12R1(L6, c12tot(func(a bf.Poly12) bf.Poly12 { return a })), Canon: true},
	} {
		f6.CheckUn(r, op, s6, true)
	}
	f6.CheckPred(r, bf.Pred{Name: "IsZero", Do: func(x bf.Elem) bool { return e6(x).IsZero() == 1 }, Ref: func(x, _ *big.Int) bool { return x.Sign() == 0 }}, s6)
	f6.CheckCmov(r, "CMov", func(x, y bf.Elem, b int) { e6(x).CMov(e6(x), e6(y), b) }, []int{0, 1}, s6, s6)

	// ---------- Fp12 ----------
	f12 := c12TowerField(bf.LayFp12, func() bf.Elem { return new(ff.Fp12) })
	o12 := c12SlotElems(6, core3, 3)
	for _, v := range core3 {
		var cs []*big.Int
		for s := 0; s < 6; s++ {
			cs = append(cs, v[0], v[1])
		}
		o12 = append(o12, bf.Operand{V: bf.Pack(bf.TowerWidth, cs...), Name: "all-equal"})
	}
	for k := 0; k < 8; k++ {
		var cs []*big.Int
		for i := 0; i < 12; i++ {
			cs = append(cs, ps(200+12*k+i))
		}
		o12 = append(o12, bf.Operand{V: bf.Pack(bf.TowerWidth, cs...), Name: "pseudo"})
	}
	s12 := f12.Prepare("d", o12)
	p12 := s12
	if !r.Thorough() {
		p12 = f12.Prepare("d", append(bf.Thin(o12[:len(o12)-11], 60), o12[len(o12)-11:]...))
	}
	r.Set("fp2_elements", s2.Len())
	r.Set("fp4_elements", s4.Len())
	r.Set("fp6_elements", s6.Len())
	r.Set("fp12_elements", s12.Len())
	r.Set("fp12_pair_elements", p12.Len())
	e12 := func(x bf.Elem) *ff.Fp12 { return x.(*ff.Fp12) }
	L12 := bf.LayFp12
	for _, op := range []bf.BinOp{
		{Name: "Add", Do: func(z, x, y bf.Elem) { e12(z).Add(e12(x), e12(y)) }, Ref: c12R2(L12, T.Add), Canon: true},
		{Name: "Sub", Do: func(z, x, y bf.Elem) { e12(z).Sub(e12(x), e12(y)) }, Ref: c12R2(L12, T.Sub), Canon: true},
		{Name: "Mul", Do: func(z, x, y bf.Elem) { e12(z).Mul(e12(x), e12(y)) }, Ref: c12R2(L12, T.Mul), Canon: true},
	} {
		f12.CheckBin(r, op, p12, p12, true)
	}
	frob6 := func(a bf.Poly12) bf.Poly12 {
		for i := 0; i < 6; i++ {
			a = T.Frob(a)
		}
		return a
	}
	for _, op := range []bf.UnOp{
		{Name: "Neg", Do: func(z, x bf.Elem) { *e12(z) = *e12(x); e12(z).Neg() }, Ref: c12R1(L12, c12tot(T.Neg)), Canon: true},
		{Name: "Sqr", Do: func(z, x bf.Elem) { e12(z).Sqr(e12(x)) }, Ref: c12R1(L12, c12tot(T.Sqr)), Canon: true},
		{Name: "Inv", Do: func(z, x bf.Elem) { e12(z).Inv(e12(x)) }, Ref: c12R1(L12, inv), Canon: true},
		{Name: "Frob", Do: func(z, x bf.Elem) { e12(z).Frob(e12(x)) }, Ref: c12R1(L12, c12tot(T.Frob)), Canon: true},
		{Name: "Cjg", Do: func(z, x bf.Elem) { *e12(z) = *e12(x); e12(z).Cjg() }, Ref: c12R1(L12, c12tot(frob6)), Canon: true},
		{Name: "SetOne", Do: func(z, x bf.Elem) { e12(z).SetOne() }, Ref: c12R1(L12, c12tot(func(a bf.Poly12) bf.Poly12 { return T.One() })), Canon: true},
		{Name: "Marshal-Unmarshal", Do: func(z, x bf.Elem) {
			b, err := e12(x).MarshalBinary()
			if err != nil || len(b) != ff.Fp12Size {
				panic("MarshalBinary")
			}
			if err := e12(z).UnmarshalBinary(b); err != nil {
				panic(err)
			}
		}, Ref: c12R1(L12, c12tot(func(a bf.Poly12) bf.Poly12 { return a })), Canon: true},
		{Name: "toCubic-andBack", Do: func(z, x bf.Elem) {
			var c ff.Fp12Cubic
			c.FromFp12(e12(x))
			e12(z).FromFp12Cubic(&c)
		}, Ref: c12R1(L12, c12tot(func(a bf.Poly12) bf.Poly12 { return a })), Canon: true},
	} {
		f12.CheckUn(r, op, s12, true)
	}
	f12.CheckPred(r, bf.Pred{Name: "IsZero", Do: func(x bf.Elem) bool { return e12(x).IsZero() == 1 }, Ref: func(x, _ *big.Int) bool { return x.Sign() == 0 }}, s12)
	k12 := f12.Prepare("x", append(bf.Thin(o12[:len(o12)-11], r.Pick(12, 40)), o12[len(o12)-11:]...))
	f12.CheckCmov(r, "CMov", func(x, y bf.Elem, b int) { e12(x).CMov(e12(x), e12(y), b) }, []int{0, 1}, k12, k12)
	exps := []*big.Int{new(big.Int), big.NewInt(1), big.NewInt(16), big.NewInt(0xfedcba98), bf.RBLS}
	pads := []int{0}
	if r.Thorough() {
		exps = append(exps, big.NewInt(2), big.NewInt(15), bf.Pseudo("tower-exp", 0, bf.Pow2(300)))
		pads = []int{0, 3}
	}
	x12 := f12.Prepare("y", append(bf.Thin(o12[:len(o12)-11], r.Pick(3, 12)), o12[len(o12)-3:]...))
	for _, ex := range exps {
		ex := ex
		for _, pad := range pads { // leading zero bytes in the big-endian exponent
			eb := append(make([]byte, pad), ex.Bytes()...)
			f12.CheckUn(r, bf.UnOp{Name: "Exp", Do: func(z, x bf.Elem) { e12(z).Exp(e12(x), eb) },
				Ref: c12R1(L12, c12tot(func(a bf.Poly12) bf.Poly12 { return T.Exp(a, ex) })), Canon: true}, x12, false)
		}
	}

	// ---------- Fp12Cubic ----------
	fc := c12TowerField(bf.LayFp12Cubic, func() bf.Elem { return new(ff.Fp12Cubic) })
	LC := bf.LayFp12Cubic
	var oc []bf.Operand
	for _, o := range p12.Ops {
		v, ok := T.Convert(L12, LC, o.V)
		if !ok {
			t.Fatal("layout conversion")
		}
		oc = append(oc, bf.Operand{V: v, Name: o.Name})
	}
	sc := fc.Prepare("f", oc)
	ec := func(x bf.Elem) *ff.Fp12Cubic { return x.(*ff.Fp12Cubic) }
	for _, op := range []bf.BinOp{
		{Name: "Add", Do: func(z, x, y bf.Elem) { ec(z).Add(ec(x), ec(y)) }, Ref: c12R2(LC, T.Add), Canon: true},
		{Name: "Mul", Do: func(z, x, y bf.Elem) { ec(z).Mul(ec(x), ec(y)) }, Ref: c12R2(LC, T.Mul), Canon: true},
	} {
		fc.CheckBin(r, op, sc, sc, true)
	}
	for _, op := range []bf.UnOp{
		{Name: "Sqr", Do: func(z, x bf.Elem) { ec(z).Sqr(ec(x)) }, Ref: c12R1(LC, c12tot(T.Sqr)), Canon: true},
		{Name: "SetOne", Do: func(z, x bf.Elem) { ec(z).SetOne() }, Ref: c12R1(LC, c12tot(func(a bf.Poly12) bf.Poly12 { return T.One() })), Canon: true},
	} {
		fc.CheckUn(r, op, sc, true)
	}
	// FromFp12 / FromFp12Cubic against the layout conversion of the model
	ncv := 0
	for i := 0; i < s12.Len(); i++ {
		var c ff.Fp12Cubic
		c.FromFp12(e12(s12.E[i]))
		want, _ := T.Convert(L12, LC, s12.Red[i])
		r.Eval(2)
		ncv += 2
		fc.Expect(r, "FromFp12", "-", fmt.Sprintf("bls12381.Fp12Cubic.FromFp12#d%d", i), &c, want, true, s12.Red[i])
		var back ff.Fp12
		back.FromFp12Cubic(&c)
		f12.Expect(r, "FromFp12Cubic", "-", fmt.Sprintf("bls12381.Fp12.FromFp12Cubic#d%d", i), &back, s12.Red[i], true, s12.Red[i])
	}
	r.Count("bls12381.Fp12Cubic.conversions", ncv)
	// MulLine(x, l): l = l[0] + l[1] w^2 + l[2] w^3
	LL := bf.LayLine
	lines := c12SlotElems(3, core3, 3)
	nml := 0
	kc := fc.Prepare("g", bf.Thin(oc, r.Pick(24, 80)))
	for i := 0; i < kc.Len(); i++ {
		for j := 0; j < len(lines); j++ {
			for _, alias := range []string{"distinct", "z=x"} {
				var l ff.LineValue
				if !c12Load(&l, lines[j].V) {
					t.Fatal("line load")
				}
				x, z := new(ff.Fp12Cubic), new(ff.Fp12Cubic)
				fc.Copy(x, kc.E[i])
				fc.Copy(z, kc.E[(i+1)%kc.Len()])
				if alias == "z=x" {
					z = x
				}
				z.MulLine(x, &l)
				r.Eval(1)
				nml++
				want, ok := T.FromPoly(LC, T.Mul(T.ToPoly(LC, kc.Red[i]), T.ToPoly(LL, lines[j].V)))
				if !ok {
					t.Fatal("MulLine reference")
				}
				cid := fmt.Sprintf("bls12381.Fp12Cubic.MulLine#g%d,l%d", i, j)
				r.Distinct(cid, alias)
				fc.Expect(r, "MulLine", alias, cid, z, want, true, kc.Red[i], lines[j].V)
			}
		}
	}
	r.Count("bls12381.Fp12Cubic.MulLine", nml)

	// ---------- cyclotomic subgroup ----------
	X := new(big.Int).Abs(bf.BLSX)
	xm1 := new(big.Int).Sub(bf.BLSX, big.NewInt(1))
	hard := new(big.Int).Mul(xm1, xm1)
	hard.Mul(hard, new(big.Int).Add(bf.BLSX, P))
	t2 := new(big.Int).Add(new(big.Int).Mul(bf.BLSX, bf.BLSX), new(big.Int).Mul(P, P))
	hard.Mul(hard, t2.Sub(t2, big.NewInt(1))).Add(hard, big.NewInt(3)) // = 3(p^4-p^2+1)/r (refcheck)
	ncy, nhard := 0, 0
	var gs []bf.Poly12
	var gE []*ff.Cyclo6
	for i := 0; i < k12.Len(); i++ {
		fpoly := T.ToPoly(L12, k12.Red[i])
		fi, ok := T.Inv(fpoly)
		if !ok {
			continue
		}
		// easy part: f^((p^6-1)(p^2+1))
		t0 := T.Mul(T.Frob(T.Frob(fpoly)), fpoly)
		_ = fi
		t0i, _ := T.Inv(t0)
		gref := T.Mul(frob6(t0), t0i)
		var g ff.Cyclo6
		fin := *e12(k12.E[i])
		ff.EasyExponentiation(&g, &fin)
		r.Eval(1)
		ncy++
		cid := fmt.Sprintf("bls12381.Cyclo6#x%d", i)
		r.Distinct(cid)
		want, _ := T.FromPoly(L12, gref)
		if !f12.Expect(r, "EasyExponentiation", "-", cid, (*ff.Fp12)(&g), want, true, k12.Red[i]) {
			continue
		}
		gs = append(gs, gref)
		gg := g
		gE = append(gE, &gg)
	}
	for i, g := range gE {
		gref := gs[i]
		cid := fmt.Sprintf("bls12381.Cyclo6#g%d", i)
		exp := func(op, alias string, got *ff.Cyclo6, want bf.Poly12) {
			r.Eval(1)
			ncy++
			w, _ := T.FromPoly(L12, want)
			in, _ := T.FromPoly(L12, gref)
			f12.Expect(r, "Cyclo6."+op, alias, cid, (*ff.Fp12)(got), w, true, in)
		}
		var z ff.Cyclo6
		z.Sqr(g)
		exp("Sqr", "distinct", &z, T.Sqr(gref))
		z = *g
		z.Sqr(&z)
		exp("Sqr", "z=x", &z, T.Sqr(gref))
		gi, _ := T.Inv(gref)
		z.Inv(g)
		exp("Inv", "distinct", &z, gi)
		z.Frob(g)
		exp("Frob", "distinct", &z, T.Frob(gref))
		z.Mul(g, gE[(i+1)%len(gE)])
		exp("Mul", "distinct", &z, T.Mul(gref, gs[(i+1)%len(gs)]))
		z.PowToX(g)
		px, _ := T.Inv(T.Exp(gref, X)) // the parameter x is negative
		exp("PowToX", "distinct", &z, px)
		z = *g
		z.PowToX(&z)
		exp("PowToX", "z=x", &z, px)
		r.Eval(1)
		one := T.Equal(gref, T.One())
		if (g.IsIdentity() == 1) != one {
			r.Violation("C12|bls12381.Cyclo6.IsIdentity|wrong-flag|-|reduced", cid, "IsIdentity wrong", nil)
		}
		if i < r.Pick(6, 24) {
			var u ff.URoot
			ff.HardExponentiation(&u, g)
			nhard++
			exp("HardExponentiation", "-", (*ff.Cyclo6)(&u), T.Exp(gref, hard))
			var u2 ff.URoot
			u2.Exp(&u, bf.RBLS.Bytes())
			exp("URoot.Exp(r)", "-", (*ff.Cyclo6)(&u2), T.One())
		}
	}
	r.Count("bls12381.Cyclo6.ops", ncy)
	r.Count("bls12381.Cyclo6.elements", len(gE))
	r.Count("bls12381.HardExponentiation", nhard)
	r.RequireCounter("bls12381.Cyclo6.elements", 10)
	// ---------- predicates against every one-bit neighbour in the Montgomery-domain words ----------
	{
		R := bf.Pow2(384)
		towerBases := func(lay bf.Layout) []bf.Operand {
			n := lay.Coords()
			mk := func(g func(i int) *big.Int) *big.Int {
				cs := make([]*big.Int, n)
				for i := range cs {
					cs[i] = g(i)
				}
				return bf.Pack(bf.TowerWidth, cs...)
			}
			return []bf.Operand{
				{V: mk(func(int) *big.Int { return new(big.Int) }), Name: "0"},
				{V: mk(func(i int) *big.Int { return big.NewInt(int64(1 &^ min(i, 1))) }), Name: "1"},
				{V: mk(func(int) *big.Int { return pm1 }), Name: "all p-1"},
				{V: mk(func(i int) *big.Int { return ps(500 + i) }), Name: "pseudo"},
			}
		}
		isOneC := func(c []*big.Int) bool {
			if c[0].Cmp(big.NewInt(1)) != 0 {
				return false
			}
			for _, x := range c[1:] {
				if x.Sign() != 0 {
					return false
				}
			}
			return true
		}
		type extra = map[string]struct {
			Do  func(x bf.Elem) bool
			Ref func(coords []*big.Int) bool
		}
		sweep := func(f *bf.Field, lay bf.Layout, isZero func(x bf.Elem) bool, isEq func(a, b bf.Elem) bool, ex extra) {
			f.CheckBitFlips(r, bf.BitFlip{Coords: lay.Coords(), Width: bf.TowerWidth, Bits: 384, P: P, R: R, Limit: P, IsZero: isZero, IsEqual: isEq, Extra: ex}, towerBases(lay))
			r.RequireCounter(f.Name+".predicates.one-bit-neighbours", int64(4*lay.Coords()*380))
		}
		sweep(f2, bf.LayFp2, func(x bf.Elem) bool { return e2(x).IsZero() == 1 }, func(a, b bf.Elem) bool { return e2(a).IsEqual(e2(b)) == 1 }, nil)
		sweep(f4, bf.LayFp4, func(x bf.Elem) bool { return e4(x).IsZero() == 1 }, func(a, b bf.Elem) bool { return e4(a).IsEqual(e4(b)) == 1 }, nil)
		sweep(f6, bf.LayFp6, func(x bf.Elem) bool { return e6(x).IsZero() == 1 }, func(a, b bf.Elem) bool { return e6(a).IsEqual(e6(b)) == 1 }, nil)
		sweep(f12, bf.LayFp12, func(x bf.Elem) bool { return e12(x).IsZero() == 1 }, func(a, b bf.Elem) bool { return e12(a).IsEqual(e12(b)) == 1 }, extra{
			"Cyclo6.IsIdentity":    {Do: func(x bf.Elem) bool { return (*ff.Cyclo6)(e12(x)).IsIdentity() == 1 }, Ref: isOneC},
			"URoot.IsIdentity":     {Do: func(x bf.Elem) bool { return (*ff.URoot)(e12(x)).IsIdentity() == 1 }, Ref: isOneC},
			"Cyclo6.IsEqual(copy)": {Do: func(x bf.Elem) bool { c := *e12(x); return (*ff.Cyclo6)(e12(x)).IsEqual((*ff.Cyclo6)(&c)) == 1 }, Ref: func([]*big.Int) bool { return true }},
		})
		// Cyclo6 / URoot equality on the same neighbours (separate pass so that the keys name the type)
		fcy := c12TowerField(bf.LayFp12, func() bf.Elem { return new(ff.Fp12) })
		fcy.Name = "bls12381.Cyclo6"
		fcy.CheckBitFlips(r, bf.BitFlip{Coords: 12, Width: bf.TowerWidth, Bits: 384, P: P, R: R, Limit: P,
			IsEqual: func(a, b bf.Elem) bool {
				// "either type says equal": must be false for distinct residues
				return (*ff.Cyclo6)(e12(a)).IsEqual((*ff.Cyclo6)(e12(b))) == 1 || (*ff.URoot)(e12(a)).IsEqual((*ff.URoot)(e12(b))) == 1
			}}, towerBases(bf.LayFp12)[:2])
		sweep(fc, bf.LayFp12Cubic, nil, func(a, b bf.Elem) bool { return ec(a).IsEqual(ec(b)) == 1 }, nil)
		fl := c12TowerField(bf.LayLine, func() bf.Elem { return new(ff.LineValue) })
		sweep(fl, bf.LayLine, func(x bf.Elem) bool { return x.(*ff.LineValue).IsZero() == 1 }, nil, nil)
	}
	for i := 0; i < 3; i++ {
		k := i*s12.Len()/3 + 7
		r.Sample(map[string]string{"element": "Fp12 slots " + s12.Ops[k].Name, "packed": s12.Ops[k].V.Text(16)})
	}
}
