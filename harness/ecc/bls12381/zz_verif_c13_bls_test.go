//go:build verif

package bls12381_test

// C13 / BLS12-381: G1 and G2 group law and scalar multiplication against the
// affine model ref/wcurve (GF(p) and GF(p^2)); hashing/encoding to G1 and G2
// (membership in the prime-order group, RFC 9380 fixtures); bilinearity,
// non-degeneracy, identity handling and products of pairings with the target
// group exponentiation done by the independent GF(p^12) tower of ref/fpx.

import (
	"bytes"
	"encoding/hex"
	"encoding/json"
	"fmt"
	"math/big"
	"os"
	"strings"
	"sync"
	"testing"

	bls "github.com/cloudflare/circl/ecc/bls12381"
	"github.com/cloudflare/circl/internal/verifmc"
	"github.com/cloudflare/circl/internal/verifref/curvealpha"
	"github.com/cloudflare/circl/internal/verifref/fpx"
	"github.com/cloudflare/circl/internal/verifref/wcurve"
)

type c13Elt[T any] interface {
	*T
	Add(P, Q *T)
	Double()
	Neg()
	ScalarMult(k *bls.Scalar, P *T)
	IsEqual(*T) bool
	IsIdentity() bool
	SetIdentity()
	SetBytes([]byte) error
	Bytes() []byte
	BytesCompressed() []byte
}

func c13Scalar(v *big.Int, n int) *bls.Scalar {
	s := &bls.Scalar{}
	s.SetBytes(fpx.ToBE(v, n))
	return s
}

func c13BLSGroup[T any, PT c13Elt[T]](t *testing.T, unit, name string, ref *wcurve.Curve, gen func() *T, inGroup func(*T) bool) {
	r := verifmc.Start(t, "C13", unit)
	defer r.Finish()
	r.Rule("bls12381." + name + ": points PT = {O, +-kG, [(r+-1)/2]G, +-[s]G} decoded from the reference's uncompressed and compressed encodings; Add on PT x PT (also with projective operands), " +
		"Double/Neg on PT, ScalarMult on SC x PT with SC = curvealpha.Scalars(r, 256) entered through Scalar.SetBytes (32-byte big-endian; reduced by the library) plus 48-byte wide values; " +
		"before any encoding the predicates (IsIdentity, IsOnG1/G2, IsEqual against the expected point, SetIdentity, a computed identity T+(-T), the same point by another route, a different point) are queried directly on byte-identical copies of each freshly computed projective result, including the chain ((P+Q)-Q)-P; then results are compared as encodings (both forms); distinct = distinct (operation, operand names)")
	N := ref.N
	sc := curvealpha.Scalars(N, 256, r.Seed())
	wide := curvealpha.Core(curvealpha.Scalars(N, 384, 0))
	nsc := len(sc)
	for _, s := range wide {
		if s.V.BitLen() > 256 {
			sc = append(sc, s)
		}
	}
	logs := curvealpha.PointLogs(N)
	r.Set("scalars", nsc)
	r.Set("wide_scalars", len(sc)-nsc)
	r.Set("points", len(logs))
	r.State(len(logs))
	refPts := make([]wcurve.Point, len(logs))
	for i, a := range logs {
		refPts[i] = ref.BaseMult(a.V)
	}
	bad := func(op, class, id, what string, payload interface{}) {
		r.Violation("C13|bls12381."+name+"."+op+"|"+curvealpha.CoarseKey(class), id, what, payload)
	}
	mk := func(P wcurve.Point) PT {
		e := PT(new(T))
		if err := e.SetBytes(ref.MarshalBLS(P, false)); err != nil {
			t.Errorf("%s: reference encoding rejected: %v", name, err)
			e.SetIdentity()
		}
		return e
	}
	// preds queries the predicates DIRECTLY on byte-identical copies of the freshly
	// computed (projective, non-normalised) value, before any encoding.
	Tp := ref.BaseMult(big.NewInt(0x51ed27))
	preds := func(op, class, id string, got PT, want wcurve.Point, payload interface{}) {
		fresh := func() PT { f := *(*T)(got); return PT(&f) }
		kind := "non-identity"
		if want.Inf {
			kind = "identity"
			r.Count("identity_results_queried", 1)
		} else {
			r.Count("non_identity_results_queried", 1)
		}
		fail := func(pred string, v, exp bool) {
			if v != exp {
				bad(op, "predicate:"+pred+"|fresh-result|"+kind+"|"+class, id,
					fmt.Sprintf("%s: %s = %v on the freshly computed result, the reference says %v (result should be %v)", id, pred, v, exp, want), payload)
			}
		}
		fail("IsIdentity", fresh().IsIdentity(), want.Inf)
		fail("IsOnG", inGroup((*T)(fresh())), true)
		fail("IsEqual(expected)", fresh().IsEqual((*T)(mk(want))), true)
		fail("expected.IsEqual(result)", mk(want).IsEqual((*T)(fresh())), true)
		I := PT(new(T))
		I.SetIdentity()
		fail("IsEqual(SetIdentity)", fresh().IsEqual((*T)(I)), want.Inf)
		fail("SetIdentity.IsEqual(result)", I.IsEqual((*T)(fresh())), want.Inf)
		CI := PT(new(T)) // an identity produced by arithmetic, projective
		CI.Add((*T)(mk(Tp)), (*T)(mk(ref.Neg(Tp))))
		fail("(T+(-T)).IsIdentity", CI.IsIdentity(), true)
		fail("IsEqual(T+(-T))", fresh().IsEqual((*T)(CI)), want.Inf)
		fail("(T+(-T)).IsEqual(result)", CI.IsEqual((*T)(fresh())), want.Inf)
		alt := PT(new(T)) // the same point by another route
		alt.Add((*T)(mk(ref.Sub(want, Tp))), (*T)(mk(Tp)))
		fail("IsEqual(other-route)", fresh().IsEqual((*T)(alt)), true)
		fail("IsEqual(different-point)", fresh().IsEqual((*T)(mk(ref.Add(want, ref.G)))), false)
		fail("IsEqual(-expected)", fresh().IsEqual((*T)(mk(ref.Neg(want)))), want.Inf)
	}
	check := func(op, class, id string, got PT, want wcurve.Point, payload interface{}) {
		preds(op, class, id, got, want, payload)
		if enc := got.Bytes(); !bytes.Equal(enc, ref.MarshalBLS(want, false)) {
			bad(op, "wrong-result|"+class, id, fmt.Sprintf("%s: got %x want %x", id, enc, ref.MarshalBLS(want, false)), payload)
			return
		}
		if enc := got.BytesCompressed(); !bytes.Equal(enc, ref.MarshalBLS(want, true)) {
			bad(op, "wrong-compressed|"+class, id, fmt.Sprintf("%s: got %x want %x", id, enc, ref.MarshalBLS(want, true)), payload)
		}
		if got.IsIdentity() != want.Inf || !got.IsEqual((*T)(mk(want))) || !inGroup((*T)(got)) {
			bad(op, "predicates|"+class, id, id+": IsIdentity/IsEqual/IsOnG disagree with the reference", payload)
		}
	}
	try := func(op, id string, f func()) bool {
		if p, what := verifmc.Try(f); p {
			bad(op, "panic:"+verifmc.PanicClass(what), id, what, nil)
			return false
		}
		return true
	}
	// decoding of every alphabet point (both forms) and the generator
	for i, a := range logs {
		for _, comp := range []bool{false, true} {
			e := PT(new(T))
			if err := e.SetBytes(ref.MarshalBLS(refPts[i], comp)); err != nil {
				bad("SetBytes", fmt.Sprintf("rejects-valid|compressed=%v|P=%s", comp, a.Name), "dec/"+a.Name, "reference encoding rejected: "+err.Error(), nil)
				return
			}
			check("SetBytes", fmt.Sprintf("compressed=%v|P=%s", comp, a.Name), "dec/"+a.Name, e, refPts[i], nil)
			r.Eval(1)
		}
	}
	check("Generator", "G", "gen", PT(gen()), ref.G, nil)

	// ---- Add on PT x PT, Double/Neg on PT
	verifmc.ParallelFor(len(logs)*len(logs), func(idx int) {
		i, j := idx/len(logs), idx%len(logs)
		a, b := logs[i], logs[j]
		id := "add/" + a.Name + "/" + b.Name
		if r.Want(id) {
			want := ref.BaseMult(new(big.Int).Add(a.V, b.V))
			P, Q := mk(refPts[i]), mk(refPts[j])
			out := PT(new(T))
			if try("Add", id, func() { out.Add((*T)(P), (*T)(Q)) }) {
				check("Add", "P="+a.Name+"|Q="+b.Name, id, out, want, nil)
				// projective operand and aliasing: (P+Q) + (-Q) = P, computed in place
				nq := mk(refPts[j])
				nq.Neg()
				if try("Add", id+"/back", func() { out.Add((*T)(out), (*T)(nq)) }) {
					check("Add", "projective,aliased|P="+a.Name+"|Q="+b.Name, id+"/back", out, refPts[i], nil)
					// chain to the identity through projective operands: ((P+Q)-Q)-P
					np := mk(refPts[i])
					np.Neg()
					if try("Add", id+"/chain", func() { out.Add((*T)(out), (*T)(np)) }) {
						check("Add", "chain-to-identity|P="+a.Name+"|Q="+b.Name, id+"/chain", out, ref.Infinity(), nil)
					}
				}
			}
			r.Eval(2)
			r.Transition(2)
			r.Distinct("add", a.Name, b.Name)
			switch {
			case a.V.Sign() == 0 || b.V.Sign() == 0:
				r.Count("add_with_identity", 1)
			case a.V.Cmp(b.V) == 0:
				r.Count("add_P_eq_Q", 1)
			case want.Inf:
				r.Count("add_P_eq_negQ", 1)
			}
		}
		if j == 0 && r.Want("dbl/"+a.Name) {
			D := mk(refPts[i])
			if try("Double", "dbl/"+a.Name, func() { D.Double() }) {
				check("Double", "P="+a.Name, "dbl/"+a.Name, D, ref.BaseMult(new(big.Int).Lsh(a.V, 1)), nil)
				if try("Double", "dbl2/"+a.Name, func() { D.Double() }) {
					check("Double", "projective|P="+a.Name, "dbl2/"+a.Name, D, ref.BaseMult(new(big.Int).Lsh(a.V, 2)), nil)
				}
			}
			Ng := mk(refPts[i])
			Ng.Neg()
			check("Neg", "P="+a.Name, "neg/"+a.Name, Ng, ref.Neg(refPts[i]), nil)
			r.Eval(3)
			r.Transition(3)
			r.Distinct("dbl", a.Name)
			r.Distinct("neg", a.Name)
		}
	})
	r.Sample(map[string]string{"op": "Add", "P": logs[1].Name, "Q": logs[1].Name})

	// ---- ScalarMult on SC x PT
	verifmc.ParallelFor(len(sc)*len(logs), func(idx int) {
		s, i := sc[idx/len(logs)], idx%len(logs)
		a := logs[i]
		id := "mult/" + s.Name + "/" + a.Name
		if !r.Want(id) {
			return
		}
		n := 32
		if s.V.BitLen() > 256 {
			n = 48
		}
		payload := map[string]string{"k_be": verifmc.FullHex(fpx.ToBE(s.V, n)), "P": verifmc.FullHex(ref.MarshalBLS(refPts[i], true))}
		out := PT(new(T))
		P := mk(refPts[i])
		if try("ScalarMult", id, func() { out.ScalarMult(c13Scalar(s.V, n), (*T)(P)) }) {
			check("ScalarMult", "k="+s.Name+"|P="+a.Name, id, out, ref.BaseMult(new(big.Int).Mul(s.V, a.V)), payload)
		}
		// in place: P = [k]P
		if try("ScalarMult", id+"/alias", func() { P.ScalarMult(c13Scalar(s.V, n), (*T)(P)) }) {
			check("ScalarMult", "aliased|k="+s.Name+"|P="+a.Name, id+"/alias", P, ref.BaseMult(new(big.Int).Mul(s.V, a.V)), payload)
		}
		r.Eval(2)
		r.Transition(2)
		r.Distinct("mult", s.Name, a.Name)
		if s.V.Cmp(N) >= 0 {
			r.Count("scalar_ge_order", 1)
		}
		if new(big.Int).Mod(new(big.Int).Mul(s.V, a.V), N).Sign() == 0 {
			r.Count("result_identity", 1)
		}
	})
	r.Sample(map[string]string{"op": "ScalarMult", "k": "r-1", "k_be": verifmc.FullHex(fpx.ToBE(new(big.Int).Sub(N, big.NewInt(1)), 32)), "P": logs[len(logs)-1].Name, "P_compressed": verifmc.FullHex(ref.MarshalBLS(refPts[len(logs)-1], true))})
	r.RequireCounter("add_P_eq_Q", 5)
	r.RequireCounter("add_P_eq_negQ", 5)
	r.RequireCounter("add_with_identity", 10)
	r.RequireCounter("scalar_ge_order", 50)
	r.RequireCounter("result_identity", 10)
	r.RequireCounter("identity_results_queried", 300)
	r.RequireCounter("non_identity_results_queried", 1000)
}

func TestVerifC13_bls_g1(t *testing.T) {
	c13BLSGroup[bls.G1](t, "bls_g1", "G1", wcurve.BLS12381G1(), bls.G1Generator, func(p *bls.G1) bool { return p.IsOnG1() })
}

func TestVerifC13_bls_g2(t *testing.T) {
	c13BLSGroup[bls.G2](t, "bls_g2", "G2", wcurve.BLS12381G2(), bls.G2Generator, func(p *bls.G2) bool { return p.IsOnG2() })
}

// ---------------------------------------------------------------- hashing

type c13Vec struct {
	DST     string `json:"dst"`
	Vectors []struct {
		P   struct{ X, Y string } `json:"P"`
		Msg string                `json:"msg"`
	} `json:"vectors"`
}

func c13ParseFp2(s string) (a, b *big.Int) {
	parts := strings.Split(s, ",")
	a, _ = new(big.Int).SetString(strings.TrimPrefix(parts[0], "0x"), 16)
	b = new(big.Int)
	if len(parts) > 1 {
		b, _ = new(big.Int).SetString(strings.TrimPrefix(parts[1], "0x"), 16)
	}
	return
}

func TestVerifC13_bls_hash(t *testing.T) {
	r := verifmc.Start(t, "C13", "bls_hash")
	defer r.Finish()
	r.Rule("G1/G2 Hash and Encode on messages {\"\", \"a\", 200 bytes} x DSTs {short, 255, 256 bytes}: output decodes in the reference (on curve) and [r]P = O computed by the reference; " +
		"plus the RFC 9380 fixture vectors of ecc/bls12381/testdata (exact values); distinct = distinct (group, variant, msg, dst)")
	g1, g2 := wcurve.BLS12381G1(), wcurve.BLS12381G2()
	type job struct {
		grp, variant string
		mi, di       int
	}
	var jobs []job
	for _, grp := range []string{"G1", "G2"} {
		for _, v := range []string{"Hash", "Encode"} {
			for mi := range curvealpha.Msgs() {
				for di := range curvealpha.DSTs() {
					jobs = append(jobs, job{grp, v, mi, di})
				}
			}
		}
	}
	verifmc.ParallelFor(len(jobs), func(i int) {
		jb := jobs[i]
		id := fmt.Sprintf("hash/%s/%s/m%d/d%d", jb.grp, jb.variant, jb.mi, jb.di)
		if !r.Want(id) {
			return
		}
		msg, dst := curvealpha.Msgs()[jb.mi], curvealpha.DSTs()[jb.di]
		var enc []byte
		var self bool
		c := g1
		if p, what := verifmc.Try(func() {
			if jb.grp == "G1" {
				var P bls.G1
				if jb.variant == "Hash" {
					P.Hash(msg, dst)
				} else {
					P.Encode(msg, dst)
				}
				enc, self = P.Bytes(), P.IsOnG1()
			} else {
				c = g2
				var P bls.G2
				if jb.variant == "Hash" {
					P.Hash(msg, dst)
				} else {
					P.Encode(msg, dst)
				}
				enc, self = P.Bytes(), P.IsOnG2()
			}
		}); p {
			r.Violation("C13|bls12381."+jb.grp+"."+jb.variant+"|panic:"+verifmc.PanicClass(what), id, what, nil)
			return
		}
		r.Eval(1)
		r.Distinct(jb.grp, jb.variant, jb.mi, jb.di)
		r.Count("hash_outputs_checked", 1)
		P, err := c.UnmarshalBLS(enc) // includes on-curve and [r]P = O
		if err != nil {
			r.Violation("C13|bls12381."+jb.grp+"."+jb.variant+"|not-in-group", id,
				fmt.Sprintf("%s: output %x is not an element of the prime-order group", id, enc),
				map[string]string{"msg": verifmc.FullHex(msg), "dst": verifmc.FullHex(dst), "out": verifmc.FullHex(enc)})
			return
		}
		if !self {
			r.Violation("C13|bls12381."+jb.grp+".IsOnG|false-on-member", id, id+": IsOnG reports false for a member of the group", nil)
		}
		if P.Inf {
			r.Count("hash_to_identity", 1)
		}
	})
	for _, f := range []struct {
		file, grp string
		nu        bool
	}{
		{"BLS12381G1_XMD-SHA-256_SSWU_RO_", "G1", false}, {"BLS12381G1_XMD-SHA-256_SSWU_NU_", "G1", true},
		{"BLS12381G2_XMD-SHA-256_SSWU_RO_", "G2", false}, {"BLS12381G2_XMD-SHA-256_SSWU_NU_", "G2", true},
	} {
		raw, err := os.ReadFile("testdata/" + f.file + ".json")
		if err != nil {
			t.Fatal(err)
		}
		var v c13Vec
		if err := json.Unmarshal(raw, &v); err != nil {
			t.Fatal(err)
		}
		for i, vec := range v.Vectors {
			id := fmt.Sprintf("rfc9380/%s/%d", f.file, i)
			if !r.Want(id) {
				continue
			}
			var enc, want []byte
			xa, xb := c13ParseFp2(vec.P.X)
			ya, yb := c13ParseFp2(vec.P.Y)
			if f.grp == "G1" {
				var P bls.G1
				if f.nu {
					P.Encode([]byte(vec.Msg), []byte(v.DST))
				} else {
					P.Hash([]byte(vec.Msg), []byte(v.DST))
				}
				enc = P.Bytes()
				want = g1.MarshalBLS(g1.AffineInts(xa, ya), false)
			} else {
				var P bls.G2
				if f.nu {
					P.Encode([]byte(vec.Msg), []byte(v.DST))
				} else {
					P.Hash([]byte(vec.Msg), []byte(v.DST))
				}
				enc = P.Bytes()
				want = g2.MarshalBLS(g2.Affine(g2.F.New(xa, xb), g2.F.New(ya, yb)), false)
			}
			r.Eval(1)
			r.Distinct(f.file, i)
			r.Count("rfc9380_vectors", 1)
			if !bytes.Equal(enc, want) {
				r.Violation("C13|bls12381."+f.grp+".Hash|rfc9380-vector|"+f.file, id, fmt.Sprintf("%s: got %s want %s", id, hex.EncodeToString(enc), hex.EncodeToString(want)), nil)
			}
		}
	}
	r.Sample(map[string]string{"group": "G2", "variant": "Hash", "msg": "", "dst": "QUUX-V01-CS02-verif-c13"})
	r.RequireCounter("hash_outputs_checked", 36)
	r.RequireCounter("rfc9380_vectors", 20)
}

// ---------------------------------------------------------------- pairing

type c13Pair struct {
	tw   *fpx.Tower12
	r    *big.Int
	e0   fpx.E12 // e(G1, G2) as computed by the library, lifted into the reference tower
	mu   sync.Mutex
	memo map[string]fpx.E12
}

// pow returns e0^(x mod r) by the reference tower (memoised).
func (p *c13Pair) pow(x *big.Int) fpx.E12 {
	x = new(big.Int).Mod(x, p.r)
	k := x.Text(16)
	p.mu.Lock()
	v, ok := p.memo[k]
	p.mu.Unlock()
	if ok {
		return v
	}
	v = p.tw.Exp(p.e0, x)
	p.mu.Lock()
	p.memo[k] = v
	p.mu.Unlock()
	return v
}

func (p *c13Pair) lift(g *bls.Gt) (fpx.E12, bool) {
	b, err := g.MarshalBinary()
	if err != nil {
		return fpx.E12{}, false
	}
	return p.tw.FromBytesBE(b, 48)
}

func TestVerifC13_bls_pairing(t *testing.T) {
	r := verifmc.Start(t, "C13", "bls_pairing")
	defer r.Finish()
	r.Rule("e0 = Pair(G1, G2) lifted coefficient-wise into the reference GF(p^12) tower: e0 != 1 and e0^r = 1; Pair([a]G1, [b]G2) = e0^(ab) for all (a, b) in E x E, " +
		"E = {0, 1, 2, 3, r-1, r-2, (r+1)/2, 2 SHAKE values} with the points decoded from the reference's encodings (never produced by the library's own multiplication) and the power computed by the reference tower; " +
		"any pair containing the identity maps to one; ProdPair over all lists of length 1..2 of (a, b, n) in {0,1,2,r-1} x {0,1,2} x {r-2,r-1,0,1,2} (thorough: also length 3 over {0,1,r-1} x {0,1} x {r-1,0,1,2}), " +
		"ProdPairFrac over all lists of length 1..3 of (a, b, sign) in {0,1,2,r-1} x {0,1,2} x {+1,-1} equal e0^(sum); all ProdPair / ProdPairFrac lists of length 1..2 (thorough: ProdPairFrac also 3) again with every operand in projective, non-normalised representation ([a-3]G+[3]G, z != 1, the identity with z = 0), so that the batch normalisation inside the product is exercised with identities at every list position; Gt.Exp/Mul/Inv agree with the tower on the same values; the Gt predicates (IsIdentity, IsEqual against SetIdentity, a computed identity e0*e0^-1, the same value by Gt.Exp, a different value) are queried on every fresh pairing result; distinct = distinct exponent/sign vectors")
	g1, g2 := wcurve.BLS12381G1(), wcurve.BLS12381G2()
	R := wcurve.BLS12381R()
	pc := &c13Pair{tw: fpx.NewTower12(wcurve.BLS12381P()), r: R, memo: map[string]fpx.E12{}}
	bad := func(op, class, id, what string, payload interface{}) {
		r.Violation("C13|bls12381."+op+"|"+curvealpha.CoarseKey(class), id, what, payload)
	}
	mk1 := func(a *big.Int) *bls.G1 {
		P := new(bls.G1)
		if err := P.SetBytes(g1.MarshalBLS(g1.BaseMult(a), false)); err != nil {
			t.Errorf("G1 reference encoding rejected: %v", err)
		}
		return P
	}
	mk2 := func(b *big.Int) *bls.G2 {
		Q := new(bls.G2)
		if err := Q.SetBytes(g2.MarshalBLS(g2.BaseMult(b), false)); err != nil {
			t.Errorf("G2 reference encoding rejected: %v", err)
		}
		return Q
	}
	e0 := bls.Pair(bls.G1Generator(), bls.G2Generator())
	var ok bool
	if pc.e0, ok = pc.lift(e0); !ok {
		bad("Pair", "unparsable-result", "e0", "Gt.MarshalBinary of e(G1,G2) has non-canonical coefficients", nil)
		return
	}
	r.Eval(1)
	if e0.IsIdentity() || pc.tw.IsOne(pc.e0) {
		bad("Pair", "degenerate", "e0", "e(G1, G2) = 1", nil)
	}
	if !pc.tw.IsOne(pc.tw.Exp(pc.e0, R)) {
		bad("Pair", "order", "e0", "e(G1, G2)^r != 1: the result is not in the order-r subgroup of GF(p^12)*", nil)
	}
	r.Count("order_checked", 1)
	var gtMu sync.Mutex
	gtMemo := map[string]*bls.Gt{}
	libPow := func(x *big.Int) *bls.Gt { // e0^x by the library's own Gt.Exp (checked separately against the tower)
		x = new(big.Int).Mod(x, R)
		gtMu.Lock()
		v, ok := gtMemo[x.Text(16)]
		gtMu.Unlock()
		if ok {
			return v
		}
		v = new(bls.Gt)
		v.Exp(e0, c13Scalar(x, 32))
		gtMu.Lock()
		gtMemo[x.Text(16)] = v
		gtMu.Unlock()
		return v
	}
	same := func(op, class, id string, got *bls.Gt, exp *big.Int, payload interface{}) {
		{
			// target-group predicates, asked directly about the fresh value
			isOne := new(big.Int).Mod(exp, R).Sign() == 0
			kind := "non-identity"
			if isOne {
				kind = "identity"
				r.Count("gt_identity_results_queried", 1)
			} else {
				r.Count("gt_non_identity_results_queried", 1)
			}
			fail := func(pred string, v, want bool) {
				if v != want {
					bad(op, "predicate:"+pred+"|fresh-result|"+kind+"|"+class, id, fmt.Sprintf("%s: Gt %s = %v, the reference says %v", id, pred, v, want), payload)
				}
			}
			f1, f2, f3, f4, f5 := *got, *got, *got, *got, *got
			one := new(bls.Gt)
			one.SetIdentity()
			fail("IsIdentity", f1.IsIdentity(), isOne)
			fail("IsEqual(SetIdentity)", f2.IsEqual(one), isOne)
			ci, inv := new(bls.Gt), new(bls.Gt) // an identity produced by arithmetic: e0 * e0^-1
			inv.Inv(e0)
			ci.Mul(e0, inv)
			fail("(e0*e0^-1).IsIdentity", ci.IsIdentity(), true)
			fail("IsEqual(e0*e0^-1)", f3.IsEqual(ci), isOne)
			fail("IsEqual(other-route)", f4.IsEqual(libPow(exp)), true)
			fail("IsEqual(different-element)", f5.IsEqual(libPow(new(big.Int).Add(exp, big.NewInt(1)))), false)
		}
		want := pc.pow(exp)
		g, ok := pc.lift(got)
		if !ok || !pc.tw.Equal(g, want) {
			bad(op, "wrong-result|"+class, id, fmt.Sprintf("%s: result differs from e(G1,G2)^(%s mod r) computed by the reference tower", id, exp.Text(10)), payload)
			return
		}
		isOne := new(big.Int).Mod(exp, R).Sign() == 0
		if got.IsIdentity() != isOne {
			bad(op, "IsIdentity|"+class, id, id+": IsIdentity disagrees", payload)
		}
	}

	// ---- bilinearity on E x E
	half := new(big.Int).Rsh(new(big.Int).Add(R, big.NewInt(1)), 1)
	type ex struct {
		name string
		v    *big.Int
	}
	E := []ex{{"0", big.NewInt(0)}, {"1", big.NewInt(1)}, {"2", big.NewInt(2)}, {"3", big.NewInt(3)},
		{"r-1", new(big.Int).Sub(R, big.NewInt(1))}, {"r-2", new(big.Int).Sub(R, big.NewInt(2))}, {"(r+1)/2", half},
		{"s0", new(big.Int).Mod(fpx.FromBE(verifmc.Shake("c13/pair/0", 40)), R)}, {"s1", new(big.Int).Mod(fpx.FromBE(verifmc.Shake("c13/pair/1", 40)), R)}}
	if r.Seed() != 0 {
		E = append(E, ex{"seed", new(big.Int).Mod(fpx.FromBE(verifmc.Shake(fmt.Sprintf("c13/pair/seed/%d", r.Seed()), 40)), R)})
	}
	r.Set("bilinearity_exponents", len(E))
	r.State(len(E) * 2)
	verifmc.ParallelFor(len(E)*len(E), func(idx int) {
		a, b := E[idx/len(E)], E[idx%len(E)]
		id := "pair/" + a.name + "/" + b.name
		if !r.Want(id) {
			return
		}
		ab := new(big.Int).Mul(a.v, b.v)
		var got *bls.Gt
		if p, what := verifmc.Try(func() { got = bls.Pair(mk1(a.v), mk2(b.v)) }); p {
			bad("Pair", "panic:"+verifmc.PanicClass(what), id, what, nil)
			return
		}
		payload := map[string]string{"a": a.v.Text(16), "b": b.v.Text(16)}
		same("Pair", "a="+a.name+"|b="+b.name, id, got, ab, payload)
		r.Eval(1)
		r.Transition(1)
		r.Distinct("pair", a.name, b.name)
		if a.v.Sign() == 0 || b.v.Sign() == 0 {
			r.Count("pair_with_identity", 1)
		}
		// the same through projective (non-normalised) arguments
		{
			// (for a = 0 or b = 0 this is the identity in projective form, [r-1]G + G)
			P := mk1(new(big.Int).Sub(a.v, big.NewInt(1)))
			P.Add(P, bls.G1Generator()) // projective representation of [a]G1
			Q := mk2(new(big.Int).Sub(b.v, big.NewInt(1)))
			Q.Add(Q, bls.G2Generator())
			var got2 *bls.Gt
			if p, what := verifmc.Try(func() { got2 = bls.Pair(P, Q) }); p {
				bad("Pair", "panic:"+verifmc.PanicClass(what), id+"/proj", what, nil)
			} else {
				same("Pair", "projective-inputs|a="+a.name+"|b="+b.name, id+"/proj", got2, ab, payload)
			}
			r.Eval(1)
			r.Transition(1)
		}
		// target group operations on the same value: e0^a via Gt.Exp, (e0^a)*(e0^b), inverse
		if idx%len(E) == 0 {
			var x, y, z bls.Gt
			x.Exp(e0, c13Scalar(a.v, 32))
			same("Gt.Exp", "n="+a.name, "gtexp/"+a.name, &x, a.v, payload)
			y.Mul(&x, e0)
			same("Gt.Mul", "n="+a.name, "gtmul/"+a.name, &y, new(big.Int).Add(a.v, big.NewInt(1)), payload)
			z.Inv(&x)
			same("Gt.Inv", "n="+a.name, "gtinv/"+a.name, &z, new(big.Int).Neg(a.v), payload)
			r.Eval(3)
		}
	})
	r.Sample(map[string]string{"op": "Pair", "a": "r-1", "b": "2"})

	// ---- products of pairings
	small := func(v int64) *big.Int { return new(big.Int).Mod(big.NewInt(v), R) }
	As := []int64{0, 1, 2, -1}
	Bs := []int64{0, 1, 2}
	Ns := []int64{-2, -1, 0, 1, 2}
	type term struct{ a, b, n int64 }
	var terms, fterms []term
	for _, a := range As {
		for _, b := range Bs {
			for _, n := range Ns {
				terms = append(terms, term{a, b, n})
			}
			for _, s := range []int64{1, -1} {
				fterms = append(fterms, term{a, b, s})
			}
		}
	}
	r.Set("prodpair_terms", len(terms))
	r.Set("prodpairfrac_terms", len(fterms))
	maxLen := r.Pick(2, 3)
	// pre-decoded operands (decoding costs a subgroup check each)
	P1 := map[int64]*bls.G1{}
	Q2 := map[int64]*bls.G2{}
	for _, a := range As {
		P1[a] = mk1(small(a))
	}
	for _, b := range Bs {
		Q2[b] = mk2(small(b))
	}
	// the same operands in projective (non-normalised, z != 1; z = 0 for the identity) representation:
	// batch normalisation inside ProdPair / ProdPairFrac only does real work on these
	P1p := map[int64]*bls.G1{}
	Q2p := map[int64]*bls.G2{}
	for _, a := range As {
		P := mk1(small(a - 3)) // [a-3]G + [3]G: both summands are non-trivial for every a in As
		P.Add(P, mk1(small(3)))
		if !P.IsEqual(P1[a]) {
			t.Fatalf("projective operand [%d]G1 differs from the decoded one", a)
		}
		P1p[a] = P
	}
	for _, b := range Bs {
		Q := mk2(small(b - 3))
		Q.Add(Q, mk2(small(3)))
		if !Q.IsEqual(Q2[b]) {
			t.Fatalf("projective operand [%d]G2 differs from the decoded one", b)
		}
		Q2p[b] = Q
	}
	proj := false
	var runListsL func(op string, tt []term, L int, thin int)
	runLists := func(op string, tt []term, maxLen int, thin int) {
		for L := 1; L <= maxLen; L++ {
			runListsL(op, tt, L, thin)
		}
	}
	runListsL = func(op string, tt []term, L int, thin int) {
		{
			total := 1
			for i := 0; i < L; i++ {
				total *= len(tt)
			}
			step := 1
			if L == 3 && thin > 1 {
				step = thin
			}
			verifmc.ParallelFor((total+step-1)/step, func(k int) {
				idx := k * step
				if r.Expired() {
					return
				}
				ts := make([]term, L)
				x := idx
				for i := 0; i < L; i++ {
					ts[i] = tt[x%len(tt)]
					x /= len(tt)
				}
				id := fmt.Sprintf("%s/%d/%d", op, L, idx)
				if proj {
					id += "/proj"
				}
				if !r.Want(id) {
					return
				}
				sum := big.NewInt(0)
				Ps, Qs := make([]*bls.G1, L), make([]*bls.G2, L)
				ns := make([]*bls.Scalar, L)
				signs := make([]int, L)
				hasID, desc := false, ""
				for i, tm := range ts {
					p, q := *P1[tm.a], *Q2[tm.b] // copies: the callee must not be able to disturb shared operands
					if proj {
						p, q = *P1p[tm.a], *Q2p[tm.b]
					}
					Ps[i], Qs[i] = &p, &q
					ns[i] = c13Scalar(small(tm.n), 32)
					signs[i] = int(tm.n)
					sum.Add(sum, big.NewInt(tm.a*tm.b*tm.n))
					if tm.a == 0 || tm.b == 0 {
						hasID = true
					}
					desc += fmt.Sprintf("(%d,%d,%d)", tm.a, tm.b, tm.n)
				}
				var got *bls.Gt
				if p, what := verifmc.Try(func() {
					if op == "ProdPair" {
						got = bls.ProdPair(Ps, Qs, ns)
					} else {
						got = bls.ProdPairFrac(Ps, Qs, signs)
					}
				}); p {
					bad(op, "panic:"+verifmc.PanicClass(what), id, what, desc)
					return
				}
				class := fmt.Sprintf("len=%d", L)
				if proj {
					class = "projective-inputs|" + class
				}
				if hasID {
					class += "|with-identity"
					r.Count(op+"_with_identity", 1)
					if proj && L > 1 {
						r.Count(op+"_projective_with_identity", 1)
					}
				}
				same(op, class, id, got, sum, map[string]string{"terms(a,b,n)": desc})
				r.Eval(1)
				r.Transition(1)
				if proj {
					r.Distinct(op+"/proj", desc)
				} else {
					r.Distinct(op, desc)
				}
			})
		}
	}
	runLists("ProdPair", terms, 2, 1)
	if maxLen == 3 {
		// length 3 over the reduced term alphabet {0,1,-1} x {0,1} x {-1,0,1,2} (24 terms, 13 824 lists)
		var terms3 []term
		for _, a := range []int64{0, 1, -1} {
			for _, b := range []int64{0, 1} {
				for _, n := range []int64{-1, 0, 1, 2} {
					terms3 = append(terms3, term{a, b, n})
				}
			}
		}
		for L := 3; L <= 3; L++ {
			runListsL("ProdPair", terms3, L, 1)
		}
	}
	// ProdPairFrac: 24 terms; length 3 = 13824 lists, quick tier takes every 4th (declared)
	thin := 1
	if !r.Thorough() {
		thin = 4
		r.NotExhaustive("quick tier: ProdPairFrac lists of length 3 thinned to every 4th index; ProdPair lists of length 3 only in the thorough tier")
	}
	runLists("ProdPairFrac", fterms, 3, thin)
	// every list again with all operands in projective representation (lists of length 1..2; thorough: ProdPairFrac also length 3)
	proj = true
	runLists("ProdPair", terms, 2, 1)
	runLists("ProdPairFrac", fterms, r.Pick(2, 3), 1)
	proj = false
	r.RequireCounter("ProdPair_projective_with_identity", 100)
	r.RequireCounter("ProdPairFrac_projective_with_identity", 100)
	r.Sample(map[string]string{"op": "ProdPairFrac", "terms(a,b,sign)": "(1,1,1)(1,1,-1)"})

	r.RequireCounter("pair_with_identity", 10)
	r.RequireCounter("ProdPair_with_identity", 100)
	r.RequireCounter("ProdPairFrac_with_identity", 100)
	r.RequireCounter("order_checked", 1)
	r.RequireCounter("gt_identity_results_queried", 100)
	r.RequireCounter("gt_non_identity_results_queried", 1000)
}
