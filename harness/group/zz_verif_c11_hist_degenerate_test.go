//go:build verif

package group_test

// C11 (histories half), unit hist_degenerate: receivers PRODUCED by every operation on
// degenerate operands (multiplication by 0 and by the order, P + (-P), doubling / negating
// the identity, Identity(), hashing, decoding the identity ...) and by the same operations
// on ordinary operands are then used as the receiver of every in-place operation with
// ordinary operands, for histories of one and two in-place operations. After every step
// the receiver must equal what the same operation gives on a FRESH receiver of the same
// value (encodings and IsEqual in both directions), and the operands must be unchanged.
// Same for scalars. Exported API only; the oracle is replay on fresh objects.

import (
	"bytes"
	"fmt"
	"math/big"
	"sort"
	"sync"
	"testing"

	"github.com/cloudflare/circl/group"
	"github.com/cloudflare/circl/internal/verifmc"
)

type c11dProdE struct {
	name string
	mk   func() group.Element
}

type c11dOpE struct {
	name string
	f    func(recv group.Element) // applies the operation to recv with ordinary (fresh per call) operands
}

type c11dProdS struct {
	name string
	mk   func() group.Scalar
}

type c11dOpS struct {
	name string
	f    func(recv group.Scalar)
}

func c11dEncE(e group.Element) []byte {
	a, err1 := e.MarshalBinary()
	b, err2 := e.MarshalBinaryCompress()
	return []byte(fmt.Sprintf("%x|%x|%v|%v|%v", a, b, err1, err2, e.IsIdentity()))
}

func c11dEncS(s group.Scalar) []byte {
	a, err := s.MarshalBinary()
	return []byte(fmt.Sprintf("%x|%v|%v", a, err, s.IsZero()))
}

// c11dOrders: the group orders, written out (FIPS 186-4, RFC 9496).
var c11dOrders = map[string]string{
	"P-256":        "ffffffff00000000ffffffffffffffffbce6faada7179e84f3b9cac2fc632551",
	"P-384":        "ffffffffffffffffffffffffffffffffffffffffffffffffc7634d81f4372ddf581a0db248b0a77aecec196accc52973",
	"P-521":        "01fffffffffffffffffffffffffffffffffffffffffffffffffffffffffffffffffa51868783bf2f966b7fcc0148f709a5d03bb5c9b8899c47aebb6fb71e91386409",
	"ristretto255": "1000000000000000000000000000000014def9dea2f79cd65812631a5cf5d3ed",
}

func TestVerifC11_hist_degenerate(t *testing.T) {
	r := verifmc.Start(t, "C11", "hist_degenerate")
	defer r.Finish()
	r.Rule("per group: every producer (operation on degenerate or ordinary operands that yields an element / scalar) x every history of 1..2 in-place operations with ordinary operands on the produced object as receiver; " +
		"after every step receiver == same operation on a fresh receiver of the same value (encodings, IsEqual both ways) and the operands are unchanged; non-trivial = distinct (group, producer, history)")
	groups := []struct {
		name string
		g    group.Group
	}{{"P-256", group.P256}, {"P-384", group.P384}, {"P-521", group.P521}, {"ristretto255", group.Ristretto255}}
	type viol struct{ key, caseID, what string }
	var mu sync.Mutex
	best := map[string]*viol{}
	add := func(v *viol) {
		mu.Lock()
		if o := best[v.key]; o == nil || len(v.caseID) < len(o.caseID) || (len(v.caseID) == len(o.caseID) && v.caseID < o.caseID) {
			best[v.key] = v
		}
		mu.Unlock()
	}
	const maxProducers = 40
	verifmc.ParallelFor(len(groups)*maxProducers, func(ji int) {
		gi, only := ji/maxProducers, ji%maxProducers
		name, g := groups[gi].name, groups[gi].g
		order, _ := new(big.Int).SetString(c11dOrders[name], 16)
		u := func(n uint64) group.Scalar { return g.NewScalar().SetUint64(n) }
		cache := map[uint64]group.Element{}
		for _, n := range []uint64{1, 2, 3, 4, 5} {
			cache[n] = g.NewElement().MulGen(u(n))
		}
		// ordinary operands: fresh objects per call (copies of multiples computed once)
		nG := func(n uint64) group.Element { return cache[n].Copy() }
		ordS := func() group.Scalar { return g.NewScalar().SetBigInt(new(big.Int).Set(order)) }
		idEnc, _ := g.Identity().MarshalBinary()
		g3Enc, _ := nG(3).MarshalBinary()
		g3EncC, _ := nG(3).MarshalBinaryCompress()
		dec := func(b []byte) group.Element {
			e := g.NewElement()
			if err := e.UnmarshalBinary(append([]byte{}, b...)); err != nil {
				panic(err)
			}
			return e
		}
		msg, dst := []byte("c11 degenerate msg"), []byte("c11 degenerate dst")
		prodE := []c11dProdE{
			{"Mul(G,0)", func() group.Element { return g.NewElement().Mul(g.Generator(), u(0)) }},
			{"Mul(G,order)", func() group.Element { return g.NewElement().Mul(g.Generator(), ordS()) }},
			{"Mul([3]G,0)", func() group.Element { return g.NewElement().Mul(nG(3), g.NewScalar()) }},
			{"Mul(identity,5)", func() group.Element { return g.NewElement().Mul(g.Identity(), u(5)) }},
			{"Mul(identity,0)", func() group.Element { return g.NewElement().Mul(g.Identity(), u(0)) }},
			{"MulGen(0)", func() group.Element { return g.NewElement().MulGen(u(0)) }},
			{"MulGen(order)", func() group.Element { return g.NewElement().MulGen(ordS()) }},
			{"Add(P,-P)", func() group.Element { return g.NewElement().Add(nG(3), g.NewElement().Neg(nG(3))) }},
			{"Add(identity,identity)", func() group.Element { return g.NewElement().Add(g.Identity(), g.Identity()) }},
			{"Dbl(identity)", func() group.Element { return g.NewElement().Dbl(g.Identity()) }},
			{"Neg(identity)", func() group.Element { return g.NewElement().Neg(g.Identity()) }},
			{"Identity()", func() group.Element { return g.Identity() }},
			{"NewElement()", func() group.Element { return g.NewElement() }},
			{"Identity().Copy()", func() group.Element { return g.Identity().Copy() }},
			{"Set(identity)", func() group.Element { return nG(2).Set(g.Identity()) }},
			{"CMov(1,identity)", func() group.Element { return nG(2).CMov(1, g.Identity()) }},
			{"CSelect(0,P,identity)", func() group.Element { return nG(2).CSelect(0, nG(3), g.Identity()) }},
			{"UnmarshalBinary(identity)", func() group.Element { return dec(idEnc) }},
			{"Mul(G,0) reused: self.Mul(self,0)", func() group.Element { e := nG(4); return e.Mul(e, u(0)) }},
			{"self.Add(self,-self)", func() group.Element { e := nG(4); return e.Add(e, g.NewElement().Neg(e)) }},
			{"HashToElement", func() group.Element { return g.HashToElement(msg, dst) }},
			{"HashToElementNonUniform", func() group.Element { return g.HashToElementNonUniform(msg, dst) }},
			{"Generator()", func() group.Element { return g.Generator() }},
			{"Mul(G,1)", func() group.Element { return g.NewElement().Mul(g.Generator(), u(1)) }},
			{"Mul(G,order+1)", func() group.Element {
				return g.NewElement().Mul(g.Generator(), g.NewScalar().SetBigInt(new(big.Int).Add(order, big.NewInt(1))))
			}},
			{"MulGen(1)", func() group.Element { return nG(1) }},
			{"Add(G,identity)", func() group.Element { return g.NewElement().Add(g.Generator(), g.Identity()) }},
			{"Add(identity,G)", func() group.Element { return g.NewElement().Add(g.Identity(), g.Generator()) }},
			{"Add(P,P)", func() group.Element { return g.NewElement().Add(nG(3), nG(3)) }},
			{"Dbl(G)", func() group.Element { return g.NewElement().Dbl(g.Generator()) }},
			{"Neg(G)", func() group.Element { return g.NewElement().Neg(g.Generator()) }},
			{"UnmarshalBinary([3]G)", func() group.Element { return dec(g3Enc) }},
			{"UnmarshalBinary([3]G compressed)", func() group.Element { return dec(g3EncC) }},
		}
		opsE := []c11dOpE{
			{"Set(P)", func(e group.Element) { e.Set(nG(3)) }},
			{"Set(identity)", func(e group.Element) { e.Set(g.Identity()) }},
			{"Neg(P)", func(e group.Element) { e.Neg(nG(3)) }},
			{"Neg(self)", func(e group.Element) { e.Neg(e) }},
			{"CMov(0,P)", func(e group.Element) { e.CMov(0, nG(3)) }},
			{"CMov(1,P)", func(e group.Element) { e.CMov(1, nG(3)) }},
			{"CMov(1,self)", func(e group.Element) { e.CMov(1, e) }},
			{"CSelect(0,P,Q)", func(e group.Element) { e.CSelect(0, nG(3), nG(5)) }},
			{"CSelect(1,P,Q)", func(e group.Element) { e.CSelect(1, nG(3), nG(5)) }},
			{"CSelect(1,self,Q)", func(e group.Element) { e.CSelect(1, e, nG(5)) }},
			{"CSelect(0,P,self)", func(e group.Element) { e.CSelect(0, nG(3), e) }},
			{"Add(P,Q)", func(e group.Element) { e.Add(nG(3), nG(5)) }},
			{"Add(self,P)", func(e group.Element) { e.Add(e, nG(3)) }},
			{"Add(P,self)", func(e group.Element) { e.Add(nG(3), e) }},
			{"Add(self,self)", func(e group.Element) { e.Add(e, e) }},
			{"Dbl(P)", func(e group.Element) { e.Dbl(nG(3)) }},
			{"Dbl(self)", func(e group.Element) { e.Dbl(e) }},
			{"Mul(P,7)", func(e group.Element) { e.Mul(nG(3), u(7)) }},
			{"Mul(self,7)", func(e group.Element) { e.Mul(e, u(7)) }},
			{"Mul(self,0)", func(e group.Element) { e.Mul(e, u(0)) }},
			{"MulGen(7)", func(e group.Element) { e.MulGen(u(7)) }},
			{"MulGen(0)", func(e group.Element) { e.MulGen(u(0)) }},
			{"UnmarshalBinary([3]G)", func(e group.Element) { _ = e.UnmarshalBinary(append([]byte{}, g3Enc...)) }},
			{"UnmarshalBinary(identity)", func(e group.Element) { _ = e.UnmarshalBinary(append([]byte{}, idEnc...)) }},
		}
		// operand immutability inside this unit: ordinary operands held across a step
		P, Q, S7 := nG(3), nG(5), u(7)
		opsE = append(opsE,
			c11dOpE{"Set(shared P)", func(e group.Element) { e.Set(P) }},
			c11dOpE{"Add(shared P, shared Q)", func(e group.Element) { e.Add(P, Q) }},
			c11dOpE{"CSelect(1, shared P, shared Q)", func(e group.Element) { e.CSelect(1, P, Q) }},
			c11dOpE{"CMov(1, shared P)", func(e group.Element) { e.CMov(1, P) }},
			c11dOpE{"Mul(shared P, shared 7)", func(e group.Element) { e.Mul(P, S7) }},
			c11dOpE{"Neg(shared Q)", func(e group.Element) { e.Neg(Q) }},
		)
		pEnc, qEnc, sEnc := c11dEncE(P), c11dEncE(Q), c11dEncS(S7)
		// fresh receiver of the same value as e (never produced by the operation under suspicion:
		// a new element is decoded from e's encoding)
		freshLike := func(e group.Element) group.Element {
			raw, err := e.MarshalBinary()
			if err != nil {
				panic(err)
			}
			return dec(raw)
		}
		checkOperands := func(key, caseID, hist string) {
			if !bytes.Equal(c11dEncE(P), pEnc) || !bytes.Equal(c11dEncE(Q), qEnc) || !bytes.Equal(c11dEncS(S7), sEnc) {
				add(&viol{key, caseID, fmt.Sprintf("%s: after [%s] an operand (shared P=[3]G, Q=[5]G or scalar 7) changed", name, hist)})
				P.Set(nG(3))
				Q.Set(nG(5))
				S7.SetUint64(7)
			}
		}
		if len(prodE) > maxProducers {
			panic("c11: raise maxProducers")
		}
		for pi, pr := range prodE {
			if pi != only {
				continue
			}
			pr := pr
			var run func(hist []int)
			run = func(hist []int) {
				for oi := range opsE {
					h := append(append([]int{}, hist...), oi)
					names := make([]string, len(h))
					for i, x := range h {
						names[i] = opsE[x].name
					}
					histTxt := "recv := " + pr.name + "; recv." + joinDot(names)
					caseID := name + "|" + pr.name + "|" + joinDot(names)
					var got, want []byte
					eq := true
					p, what := verifmc.Try(func() {
						recv := pr.mk()
						ref := freshLike(recv)
						for _, x := range h {
							opsE[x].f(recv)
							opsE[x].f(ref)
						}
						got, want = c11dEncE(recv), c11dEncE(ref)
						eq = recv.IsEqual(ref) && ref.IsEqual(recv)
					})
					r.Eval(1)
					r.Trace(1)
					r.Distinct(name, "E", pr.name, joinDot(names))
					r.Count("element_histories", 1)
					last := opsE[h[len(h)-1]].name
					if p {
						add(&viol{fmt.Sprintf("C11|group.%s|in-place operation on a produced receiver|%s|panic", name, last), caseID, fmt.Sprintf("%s: [%s] panics: %s", name, histTxt, what)})
						continue
					}
					checkOperands(fmt.Sprintf("C11|group.%s|in-place operation on a produced receiver|%s|operand-mutated", name, last), caseID, histTxt)
					if !bytes.Equal(got, want) || !eq {
						add(&viol{fmt.Sprintf("C11|group.%s|in-place operation on a produced receiver|%s|differs-from-fresh-receiver", name, last), caseID,
							fmt.Sprintf("%s: [%s] gives %s (IsEqual=%v); the same operations on a fresh receiver of the same value give %s", name, histTxt, got, eq, want)})
						continue // do not extend a diverged history
					}
					if len(h) < 2 {
						run(h)
					}
				}
			}
			run(nil)
		}
		// ---- scalars ----
		x9 := func() group.Scalar { return u(9) }
		zeroEnc, _ := g.NewScalar().MarshalBinary()
		nineEnc, _ := u(9).MarshalBinary()
		decS := func(b []byte) group.Scalar {
			s := g.NewScalar()
			if err := s.UnmarshalBinary(append([]byte{}, b...)); err != nil {
				panic(err)
			}
			return s
		}
		prodS := []c11dProdS{
			{"Inv(1)", func() group.Scalar { return g.NewScalar().Inv(u(1)) }},
			{"Sub(x,x)", func() group.Scalar { return g.NewScalar().Sub(x9(), x9()) }},
			{"self.Sub(self,self)", func() group.Scalar { s := x9(); return s.Sub(s, s) }},
			{"SetUint64(0)", func() group.Scalar { return x9().SetUint64(0) }},
			{"SetBigInt(order)", func() group.Scalar { return x9().SetBigInt(new(big.Int).Set(order)) }},
			{"SetBigInt(order-1)", func() group.Scalar { return x9().SetBigInt(new(big.Int).Sub(order, big.NewInt(1))) }},
			{"SetBigInt(0)", func() group.Scalar { return x9().SetBigInt(new(big.Int)) }},
			{"NewScalar()", func() group.Scalar { return g.NewScalar() }},
			{"Neg(0)", func() group.Scalar { return g.NewScalar().Neg(g.NewScalar()) }},
			{"Mul(x,0)", func() group.Scalar { return g.NewScalar().Mul(x9(), u(0)) }},
			{"Add(x,-x)", func() group.Scalar { return g.NewScalar().Add(x9(), g.NewScalar().Neg(x9())) }},
			{"NewScalar().Copy()", func() group.Scalar { return g.NewScalar().Copy() }},
			{"Set(0)", func() group.Scalar { return x9().Set(g.NewScalar()) }},
			{"CMov(1,0)", func() group.Scalar { return x9().CMov(1, g.NewScalar()) }},
			{"CSelect(0,x,0)", func() group.Scalar { return x9().CSelect(0, x9(), g.NewScalar()) }},
			{"UnmarshalBinary(0)", func() group.Scalar { return decS(zeroEnc) }},
			{"HashToScalar", func() group.Scalar { return g.HashToScalar(msg, dst) }},
			{"Inv(9)", func() group.Scalar { return g.NewScalar().Inv(x9()) }},
			{"Neg(1)", func() group.Scalar { return g.NewScalar().Neg(u(1)) }},
			{"SetUint64(9)", func() group.Scalar { return x9() }},
			{"UnmarshalBinary(9)", func() group.Scalar { return decS(nineEnc) }},
		}
		A, B := u(11), u(13)
		aEnc, bEnc := c11dEncS(A), c11dEncS(B)
		opsS := []c11dOpS{
			{"Set(a)", func(s group.Scalar) { s.Set(u(11)) }},
			{"Set(shared a)", func(s group.Scalar) { s.Set(A) }},
			{"Neg(a)", func(s group.Scalar) { s.Neg(u(11)) }},
			{"Neg(self)", func(s group.Scalar) { s.Neg(s) }},
			{"Inv(a)", func(s group.Scalar) { s.Inv(u(11)) }},
			{"Inv(shared b)", func(s group.Scalar) { s.Inv(B) }},
			{"Add(a,b)", func(s group.Scalar) { s.Add(u(11), u(13)) }},
			{"Add(self,a)", func(s group.Scalar) { s.Add(s, u(11)) }},
			{"Add(shared a, self)", func(s group.Scalar) { s.Add(A, s) }},
			{"Add(self,self)", func(s group.Scalar) { s.Add(s, s) }},
			{"Sub(a,b)", func(s group.Scalar) { s.Sub(u(11), u(13)) }},
			{"Sub(self,a)", func(s group.Scalar) { s.Sub(s, u(11)) }},
			{"Sub(self,self)", func(s group.Scalar) { s.Sub(s, s) }},
			{"Mul(a,b)", func(s group.Scalar) { s.Mul(u(11), u(13)) }},
			{"Mul(self,self)", func(s group.Scalar) { s.Mul(s, s) }},
			{"Mul(self, shared b)", func(s group.Scalar) { s.Mul(s, B) }},
			{"CMov(0,a)", func(s group.Scalar) { s.CMov(0, u(11)) }},
			{"CMov(1,a)", func(s group.Scalar) { s.CMov(1, u(11)) }},
			{"CMov(1, shared a)", func(s group.Scalar) { s.CMov(1, A) }},
			{"CSelect(0,a,b)", func(s group.Scalar) { s.CSelect(0, u(11), u(13)) }},
			{"CSelect(1,a,b)", func(s group.Scalar) { s.CSelect(1, u(11), u(13)) }},
			{"CSelect(1,self,b)", func(s group.Scalar) { s.CSelect(1, s, u(13)) }},
			{"SetUint64(5)", func(s group.Scalar) { s.SetUint64(5) }},
			{"SetUint64(0)", func(s group.Scalar) { s.SetUint64(0) }},
			{"SetBigInt(order+2)", func(s group.Scalar) { s.SetBigInt(new(big.Int).Add(order, big.NewInt(2))) }},
			{"UnmarshalBinary(9)", func(s group.Scalar) { _ = s.UnmarshalBinary(append([]byte{}, nineEnc...)) }},
			{"UnmarshalBinary(0)", func(s group.Scalar) { _ = s.UnmarshalBinary(append([]byte{}, zeroEnc...)) }},
		}
		freshLikeS := func(x group.Scalar) group.Scalar {
			raw, err := x.MarshalBinary()
			if err != nil {
				panic(err)
			}
			return decS(raw)
		}
		for pi, pr := range prodS {
			if pi != only {
				continue
			}
			pr := pr
			var run func(hist []int)
			run = func(hist []int) {
				for oi := range opsS {
					h := append(append([]int{}, hist...), oi)
					names := make([]string, len(h))
					for i, x := range h {
						names[i] = opsS[x].name
					}
					histTxt := "recv := " + pr.name + "; recv." + joinDot(names)
					caseID := name + "|scalar " + pr.name + "|" + joinDot(names)
					var got, want []byte
					eq := true
					p, what := verifmc.Try(func() {
						recv := pr.mk()
						ref := freshLikeS(recv)
						for _, x := range h {
							opsS[x].f(recv)
							opsS[x].f(ref)
						}
						got, want = c11dEncS(recv), c11dEncS(ref)
						eq = recv.IsEqual(ref) && ref.IsEqual(recv)
					})
					r.Eval(1)
					r.Trace(1)
					r.Distinct(name, "S", pr.name, joinDot(names))
					r.Count("scalar_histories", 1)
					last := opsS[h[len(h)-1]].name
					if p {
						add(&viol{fmt.Sprintf("C11|group.%s|in-place operation on a produced scalar receiver|%s|panic", name, last), caseID, fmt.Sprintf("%s: [%s] panics: %s", name, histTxt, what)})
						continue
					}
					if !bytes.Equal(c11dEncS(A), aEnc) || !bytes.Equal(c11dEncS(B), bEnc) {
						add(&viol{fmt.Sprintf("C11|group.%s|in-place operation on a produced scalar receiver|%s|operand-mutated", name, last), caseID, fmt.Sprintf("%s: after [%s] a shared scalar operand changed", name, histTxt)})
						A.SetUint64(11)
						B.SetUint64(13)
					}
					if !bytes.Equal(got, want) || !eq {
						add(&viol{fmt.Sprintf("C11|group.%s|in-place operation on a produced scalar receiver|%s|differs-from-fresh-receiver", name, last), caseID,
							fmt.Sprintf("%s: [%s] gives %s (IsEqual=%v); the same operations on a fresh receiver of the same value give %s", name, histTxt, got, eq, want)})
						continue
					}
					if len(h) < 2 {
						run(h)
					}
				}
			}
			run(nil)
		}
		if ji == 0 {
			r.Set("element_producers", len(prodE))
			r.Set("element_in_place_operations", len(opsE))
			r.Set("scalar_producers", len(prodS))
			r.Set("scalar_in_place_operations", len(opsS))
			r.Sample(map[string]string{"group": name, "history": "recv := Mul(G,0); recv.Set(P)", "oracle": "fresh := UnmarshalBinary(enc(recv)); fresh.Set(P)"})
		}
	})
	keys := make([]string, 0, len(best))
	for k := range best {
		keys = append(keys, k)
	}
	sort.Strings(keys)
	for _, k := range keys {
		r.Violation(best[k].key, best[k].caseID, best[k].what, nil)
	}
	r.RequireCounter("element_histories", 50000)
	r.RequireCounter("scalar_histories", 30000)
}

func joinDot(n []string) string {
	s := ""
	for i, x := range n {
		if i > 0 {
			s += "; recv."
		}
		s += x
	}
	return s
}
