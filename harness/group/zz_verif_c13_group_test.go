//go:build verif

package group_test

// C13 / group package: Element.Add/Dbl/Neg/Mul/MulGen of P-256, P-384, P-521
// and ristretto255, and hashing to each group, against ref/wcurve and
// ref/ecurve (RFC 9496 on big.Int).

import (
	"bytes"
	"encoding/hex"
	"encoding/json"
	"fmt"
	"math/big"
	"os"
	"strings"
	"testing"

	"github.com/cloudflare/circl/group"
	"github.com/cloudflare/circl/internal/verifmc"
	"github.com/cloudflare/circl/internal/verifref/curvealpha"
	"github.com/cloudflare/circl/internal/verifref/ecurve"
	"github.com/cloudflare/circl/internal/verifref/fpx"
	"github.com/cloudflare/circl/internal/verifref/wcurve"
)

// c13G abstracts "reference group with known discrete logs" for the two families.
type c13G struct {
	name     string
	g        group.Group
	n        *big.Int
	width    int                       // admitted scalar width in bits (byte encoding)
	encode   func(log *big.Int) []byte // canonical encoding of [log]G by the reference
	encodeC  func(log *big.Int) []byte // second (compressed) encoding, nil if none
	scalarLE bool                      // scalar byte order
	readBack bool                      // scalar value = what the library reports after decoding (ristretto255)
}

func c13Groups() []*c13G {
	mk := func(name string, g group.Group, c *wcurve.Curve) *c13G {
		return &c13G{name: name, g: g, n: c.N, width: 8 * c.ByteLen,
			encode:  func(l *big.Int) []byte { return c.MarshalSEC1(c.BaseMult(l), false) },
			encodeC: func(l *big.Int) []byte { return c.MarshalSEC1(c.BaseMult(l), true) }}
	}
	ed := ecurve.Edwards25519()
	return []*c13G{
		mk("P256", group.P256, wcurve.P256()),
		mk("P384", group.P384, wcurve.P384()),
		mk("P521", group.P521, wcurve.P521()),
		{name: "ristretto255", g: group.Ristretto255, n: ed.N, width: 256, scalarLE: true, readBack: true,
			encode: func(l *big.Int) []byte { return ecurve.RistrettoEncode(ed.BaseMult(l)) }},
	}
}

func (G *c13G) scalarBytes(v *big.Int) []byte {
	n := G.width / 8
	if G.scalarLE {
		return fpx.ToLE(v, n)
	}
	return fpx.ToBE(v, n)
}

// scalar builds a library scalar from bytes and returns the integer it stands for.
func (G *c13G) scalar(v *big.Int) (group.Scalar, *big.Int, error) {
	s := G.g.NewScalar()
	if err := s.UnmarshalBinary(G.scalarBytes(v)); err != nil {
		return nil, nil, err
	}
	if !G.readBack {
		return s, v, nil
	}
	b, err := s.MarshalBinary()
	if err != nil {
		return nil, nil, err
	}
	return s, fpx.FromLE(b), nil
}

func c13GroupUnit(t *testing.T, G *c13G) {
	r := verifmc.Start(t, "C13", "group_"+G.name)
	defer r.Finish()
	r.Rule("group." + G.name + ": elements decoded from the reference's encodings of PT = {O, +-kG, [(n+-1)/2]G, +-[s]G} (and the compressed form); " +
		"Add on PT x PT, Dbl/Neg on PT, Mul on SC x PT, MulGen on SC with SC = curvealpha.Scalars(n, full byte width) given as byte strings and, reduced, through SetBigInt; " +
		"before anything is marshalled the predicates (IsIdentity, IsEqual against the expected element, Identity(), a computed identity T+(-T), the same element by another route, a different element, and the same on Copy()) are queried directly on each freshly computed result, including the chain ((P+Q)-Q)-P; then results are compared as encodings with the reference; distinct = distinct (operation, operand names)")
	N := G.n
	sc := curvealpha.Scalars(N, G.width, r.Seed())
	logs := curvealpha.PointLogs(N)
	r.Set("scalars", len(sc))
	r.Set("points", len(logs))
	r.State(len(logs))

	bad := func(op, class, id, what string, payload interface{}) {
		r.Violation("C13|group."+G.name+"."+op+"|"+curvealpha.CoarseKey(class), id, what, payload)
	}
	elt := func(l *big.Int) group.Element {
		e := G.g.NewElement()
		if err := e.UnmarshalBinary(G.encode(l)); err != nil {
			t.Errorf("%s: cannot decode the reference encoding of [%x]G: %v", G.name, l, err)
		}
		return e
	}
	for _, a := range logs { // every alphabet point must decode before anything is judged
		if err := G.g.NewElement().UnmarshalBinary(G.encode(a.V)); err != nil {
			r.Violation("C13|group."+G.name+".UnmarshalBinary|rejects-valid|P="+a.Name, "dec/"+a.Name,
				fmt.Sprintf("reference encoding %x of %s rejected: %v", G.encode(a.V), a.Name, err), nil)
			return
		}
	}
	// check compares a result with the reference element [log]G in every way the API offers.
	// preds queries the Element predicates DIRECTLY on the freshly computed value,
	// before any marshalling (MarshalBinary normalises short-Weierstrass elements in place).
	tLog := big.NewInt(0x51ed27)
	preds := func(op, class, id string, got group.Element, log *big.Int, payload interface{}) {
		isID := new(big.Int).Mod(log, N).Sign() == 0
		kind := "non-identity"
		if isID {
			kind = "identity"
			r.Count("identity_results_queried", 1)
		} else {
			r.Count("non_identity_results_queried", 1)
		}
		fail := func(pred string, v, exp bool) {
			if v != exp {
				bad(op, "predicate:"+pred+"|fresh-result|"+kind+"|"+class, id,
					fmt.Sprintf("%s: %s = %v on the freshly computed result %v, the reference says %v", id, pred, v, got, exp), payload)
			}
		}
		fail("IsIdentity", got.IsIdentity(), isID)
		fail("IsEqual(expected)", got.IsEqual(elt(log)), true)
		fail("expected.IsEqual(result)", elt(log).IsEqual(got), true)
		fail("IsEqual(Identity())", got.IsEqual(G.g.Identity()), isID)
		fail("Identity().IsEqual(result)", G.g.Identity().IsEqual(got), isID)
		ci := G.g.NewElement().Add(elt(tLog), elt(new(big.Int).Neg(tLog))) // an identity produced by arithmetic
		fail("(T+(-T)).IsIdentity", ci.IsIdentity(), true)
		fail("IsEqual(T+(-T))", got.IsEqual(ci), isID)
		fail("(T+(-T)).IsEqual(result)", ci.IsEqual(got), isID)
		alt := G.g.NewElement().Add(elt(new(big.Int).Sub(log, tLog)), elt(tLog)) // the same element by another route
		fail("IsEqual(other-route)", got.IsEqual(alt), true)
		fail("IsEqual(different-element)", got.IsEqual(elt(new(big.Int).Add(log, big.NewInt(1)))), false)
		fail("IsEqual(-expected)", got.IsEqual(elt(new(big.Int).Neg(log))), isID)
		cp := got.Copy()
		fail("Copy().IsIdentity", cp.IsIdentity(), isID)
		fail("Copy().IsEqual(result)", cp.IsEqual(got), true)
	}
	check := func(op, class, id string, got group.Element, log *big.Int, payload interface{}) {
		if p, what := verifmc.Try(func() { preds(op, class, id, got, log, payload) }); p {
			bad(op, "panic:"+verifmc.PanicClass(what)+"|predicates|"+class, id, what, payload)
		}
		want := G.encode(log)
		enc, err := got.MarshalBinary()
		if err != nil || !bytes.Equal(enc, want) {
			bad(op, "wrong-result|"+class, id, fmt.Sprintf("%s: got %x (err %v) want %x", id, enc, err, want), payload)
			return
		}
		if G.encodeC != nil {
			if encC, err := got.MarshalBinaryCompress(); err != nil || !bytes.Equal(encC, G.encodeC(log)) {
				bad(op, "wrong-compressed|"+class, id, fmt.Sprintf("%s: compressed %x want %x", id, encC, G.encodeC(log)), payload)
			}
		}
		isID := new(big.Int).Mod(log, N).Sign() == 0
		if got.IsIdentity() != isID {
			bad(op, "IsIdentity|"+class, id, fmt.Sprintf("%s: IsIdentity()=%v", id, got.IsIdentity()), payload)
		}
		if !got.IsEqual(elt(log)) {
			bad(op, "IsEqual|"+class, id, id+": result is not IsEqual to the decoded expected element", payload)
		}
	}
	try := func(op, id string, f func()) bool {
		if p, what := verifmc.Try(f); p {
			bad(op, "panic:"+verifmc.PanicClass(what), id, what, nil)
			return false
		}
		return true
	}

	// decoding the compressed form yields the same element
	if G.encodeC != nil {
		for _, a := range logs {
			e := G.g.NewElement()
			if err := e.UnmarshalBinary(G.encodeC(a.V)); err != nil || !e.IsEqual(elt(a.V)) {
				bad("UnmarshalBinary", "compressed|P="+a.Name, "dec/"+a.Name, "compressed encoding decodes to a different element", nil)
			}
			r.Eval(1)
		}
	}
	if !G.g.Generator().IsEqual(elt(big.NewInt(1))) || !G.g.Identity().IsEqual(elt(big.NewInt(0))) || !G.g.Identity().IsIdentity() {
		bad("Generator", "wrong", "gen", "Generator()/Identity() differ from the reference", nil)
	}

	// ---- Add on PT x PT; Dbl, Neg on PT
	verifmc.ParallelFor(len(logs)*len(logs), func(idx int) {
		a, b := logs[idx/len(logs)], logs[idx%len(logs)]
		id := "add/" + a.Name + "/" + b.Name
		if r.Want(id) {
			P, Q := elt(a.V), elt(b.V)
			out := G.g.NewElement()
			sum := new(big.Int).Add(a.V, b.V)
			if try("Add", id, func() { out.Add(P, Q) }) {
				check("Add", "P="+a.Name+"|Q="+b.Name, id, out, sum, nil)
			}
			r.Eval(1)
			r.Transition(1)
			r.Distinct("add", a.Name, b.Name)
			switch {
			case a.V.Sign() == 0 || b.V.Sign() == 0:
				r.Count("add_with_identity", 1)
			case a.V.Cmp(b.V) == 0:
				r.Count("add_P_eq_Q", 1)
			case new(big.Int).Mod(sum, N).Sign() == 0:
				r.Count("add_P_eq_negQ", 1)
			}
			// receiver aliasing an argument: P.Add(P, Q)
			if try("Add", id+"/alias", func() { P.Add(P, Q) }) {
				check("Add", "aliased|P="+a.Name+"|Q="+b.Name, id+"/alias", P, sum, nil)
			}
			// chain to the identity on computed values: ((P+Q)-Q)-P, nothing marshalled in between
			c1, c2 := G.g.NewElement(), G.g.NewElement()
			if try("Add", id+"/chain", func() {
				c0 := G.g.NewElement().Add(elt(a.V), elt(b.V))
				c1.Add(c0, G.g.NewElement().Neg(elt(b.V)))
				c2.Add(c1, G.g.NewElement().Neg(elt(a.V)))
			}) {
				check("Add", "chain-to-identity|P="+a.Name+"|Q="+b.Name, id+"/chain", c2, big.NewInt(0), nil)
			}
			r.Eval(2)
		}
		if idx%len(logs) == 0 {
			for _, op := range []string{"Dbl", "Neg"} {
				id := strings.ToLower(op) + "/" + a.Name
				if !r.Want(id) {
					continue
				}
				P := elt(a.V)
				out := G.g.NewElement()
				var want *big.Int
				ok := false
				if op == "Dbl" {
					want = new(big.Int).Lsh(a.V, 1)
					ok = try(op, id, func() { out.Dbl(P) })
				} else {
					want = new(big.Int).Neg(a.V)
					ok = try(op, id, func() { out.Neg(P) })
				}
				if ok {
					check(op, "P="+a.Name, id, out, new(big.Int).Mod(want, N), nil)
				}
				r.Eval(1)
				r.Transition(1)
				r.Distinct(op, a.Name)
			}
		}
	})
	r.Sample(map[string]string{"op": "Add", "P": logs[1].Name, "Q": logs[1].Name})

	// ---- MulGen on SC, Mul on SC x PT (byte-string scalars of full width, and SetBigInt)
	verifmc.ParallelFor(len(sc)*len(logs), func(idx int) {
		s, a := sc[idx/len(logs)], logs[idx%len(logs)]
		id := "mul/" + s.Name + "/" + a.Name
		if !r.Want(id) {
			return
		}
		k, kv, err := G.scalar(s.V)
		if err != nil {
			bad("Scalar.UnmarshalBinary", "rejects|k="+s.Name, id, "scalar of admitted width rejected: "+err.Error(), nil)
			return
		}
		payload := map[string]string{"k": verifmc.FullHex(G.scalarBytes(s.V)), "P": verifmc.FullHex(G.encode(a.V))}
		P := elt(a.V)
		out := G.g.NewElement()
		if try("Mul", id, func() { out.Mul(P, k) }) {
			check("Mul", "k="+s.Name+"|P="+a.Name, id, out, new(big.Int).Mul(kv, a.V), payload)
		}
		r.Eval(1)
		r.Transition(1)
		r.Distinct("mul", s.Name, a.Name)
		if kv.Cmp(N) >= 0 {
			r.Count("scalar_ge_order", 1)
		}
		if kv.Bit(0) == 0 {
			r.Count("even_scalar", 1)
		}
		if new(big.Int).Mod(new(big.Int).Mul(kv, a.V), N).Sign() == 0 {
			r.Count("result_identity", 1)
		}
		if idx%len(logs) == 0 {
			id := "mulgen/" + s.Name
			out := G.g.NewElement()
			if try("MulGen", id, func() { out.MulGen(k) }) {
				check("MulGen", "k="+s.Name, id, out, kv, payload)
			}
			// the same integer through SetBigInt (reduced by the library)
			k2 := G.g.NewScalar().SetBigInt(s.V)
			out2 := G.g.NewElement()
			if try("MulGen", id+"/big", func() { out2.MulGen(k2) }) {
				check("MulGen", "SetBigInt|k="+s.Name, id+"/big", out2, s.V, payload)
			}
			r.Eval(2)
			r.Transition(2)
			r.Distinct("mulgen", s.Name)
		}
	})
	r.Sample(map[string]string{"op": "Mul", "k": "n-1", "k_bytes": verifmc.FullHex(G.scalarBytes(new(big.Int).Sub(N, big.NewInt(1)))), "P": logs[len(logs)-1].Name, "P_bytes": verifmc.FullHex(G.encode(logs[len(logs)-1].V))})

	r.RequireCounter("add_P_eq_Q", 5)
	r.RequireCounter("add_P_eq_negQ", 5)
	r.RequireCounter("add_with_identity", 10)
	r.RequireCounter("even_scalar", 50)
	r.RequireCounter("result_identity", 10)
	if !G.readBack {
		r.RequireCounter("scalar_ge_order", 5)
	}
	r.RequireCounter("identity_results_queried", 300)
	r.RequireCounter("non_identity_results_queried", 1000)
}

func TestVerifC13_group_P256(t *testing.T)         { c13GroupUnit(t, c13Groups()[0]) }
func TestVerifC13_group_P384(t *testing.T)         { c13GroupUnit(t, c13Groups()[1]) }
func TestVerifC13_group_P521(t *testing.T)         { c13GroupUnit(t, c13Groups()[2]) }
func TestVerifC13_group_ristretto255(t *testing.T) { c13GroupUnit(t, c13Groups()[3]) }

// ---------------------------------------------------------------- hashing

type c13Vec struct {
	DST     string `json:"dst"`
	Vectors []struct {
		P   struct{ X, Y string } `json:"P"`
		Msg string                `json:"msg"`
	} `json:"vectors"`
}

func TestVerifC13_group_hash(t *testing.T) {
	r := verifmc.Start(t, "C13", "group_hash")
	defer r.Finish()
	r.Rule("HashToElement and HashToElementNonUniform of P256/P384/P521/ristretto255 on messages {\"\", \"a\", 200 bytes} x DSTs {short, 255, 256 bytes}: " +
		"the output decodes in the reference (on curve / valid ristretto255 encoding) and [n]P = O; plus the RFC 9380 fixture vectors of group/testdata (exact values); distinct = distinct (group, variant, msg, dst)")
	refs := map[string]*wcurve.Curve{"P256": wcurve.P256(), "P384": wcurve.P384(), "P521": wcurve.P521()}
	ed := ecurve.Edwards25519()
	for _, G := range c13Groups() {
		for mi, msg := range curvealpha.Msgs() {
			for di, dst := range curvealpha.DSTs() {
				for _, variant := range []string{"HashToElement", "HashToElementNonUniform"} {
					id := fmt.Sprintf("hash/%s/%s/m%d/d%d", G.name, variant, mi, di)
					if !r.Want(id) {
						continue
					}
					var e group.Element
					if p, what := verifmc.Try(func() {
						if variant == "HashToElement" {
							e = G.g.HashToElement(msg, dst)
						} else {
							e = G.g.HashToElementNonUniform(msg, dst)
						}
					}); p {
						r.Violation("C13|group."+G.name+"."+variant+"|panic:"+verifmc.PanicClass(what), id, what, nil)
						continue
					}
					r.Eval(1)
					r.Distinct(G.name, variant, mi, di)
					enc, err := e.MarshalBinary()
					if err != nil {
						r.Violation("C13|group."+G.name+"."+variant+"|marshal", id, err.Error(), nil)
						continue
					}
					key := "C13|group." + G.name + "." + variant + "|not-in-group"
					payload := map[string]string{"msg": verifmc.FullHex(msg), "dst": verifmc.FullHex(dst), "out": verifmc.FullHex(enc)}
					if c := refs[G.name]; c != nil {
						P, err := c.UnmarshalSEC1(enc)
						if err != nil || !c.InSubgroup(P) {
							r.Violation(key, id, fmt.Sprintf("%s: output %x is not an element of the prime-order group", id, enc), payload)
						}
						if err == nil && P.Inf {
							r.Count("hash_to_identity", 1)
						}
					} else {
						P, err := ecurve.RistrettoDecode(enc)
						if err != nil || !ed.IsOnCurve(P) || !bytes.Equal(ecurve.RistrettoEncode(P), enc) ||
							!bytes.Equal(ecurve.RistrettoEncode(ed.ScalarMult(ed.N, P)), make([]byte, 32)) {
							r.Violation(key, id, fmt.Sprintf("%s: output %x is not a valid ristretto255 element of order dividing l", id, enc), payload)
						}
					}
					r.Count("hash_outputs_checked", 1)
				}
			}
		}
	}
	// RFC 9380 fixtures (exact values)
	for _, f := range []struct {
		file string
		g    group.Group
		nu   bool
	}{
		{"P256_XMD-SHA-256_SSWU_RO_", group.P256, false}, {"P256_XMD-SHA-256_SSWU_NU_", group.P256, true},
		{"P384_XMD-SHA-384_SSWU_RO_", group.P384, false}, {"P384_XMD-SHA-384_SSWU_NU_", group.P384, true},
		{"P521_XMD-SHA-512_SSWU_RO_", group.P521, false}, {"P521_XMD-SHA-512_SSWU_NU_", group.P521, true},
	} {
		raw, err := os.ReadFile("testdata/" + f.file + ".json")
		if err != nil {
			t.Fatal(err)
		}
		var v c13Vec
		if err := json.Unmarshal(raw, &v); err != nil {
			t.Fatal(err)
		}
		for i, vec := range v.Vectors {
			id := fmt.Sprintf("rfc9380/%s/%d", f.file, i)
			if !r.Want(id) {
				continue
			}
			var e group.Element
			if f.nu {
				e = f.g.HashToElementNonUniform([]byte(vec.Msg), []byte(v.DST))
			} else {
				e = f.g.HashToElement([]byte(vec.Msg), []byte(v.DST))
			}
			enc, _ := e.MarshalBinary()
			l := (len(enc) - 1) / 2
			x, _ := new(big.Int).SetString(strings.TrimPrefix(vec.P.X, "0x"), 16)
			y, _ := new(big.Int).SetString(strings.TrimPrefix(vec.P.Y, "0x"), 16)
			want := append(append([]byte{4}, x.FillBytes(make([]byte, l))...), y.FillBytes(make([]byte, l))...)
			r.Eval(1)
			r.Distinct(f.file, i)
			r.Count("rfc9380_vectors", 1)
			if !bytes.Equal(enc, want) {
				r.Violation("C13|group.HashToElement|rfc9380-vector|"+f.file, id, fmt.Sprintf("%s: got %s want %s", id, hex.EncodeToString(enc), hex.EncodeToString(want)), nil)
			}
		}
	}
	r.Sample(map[string]string{"group": "P256", "msg": "", "dst": "QUUX-V01-CS02-verif-c13"})
	r.RequireCounter("hash_outputs_checked", 72)
	r.RequireCounter("rfc9380_vectors", 30)
}
