//go:build verif

package group_test

// C11 (histories half), unit hist_group: explicit-state search over operation
// histories on a pool of element and scalar slots of the four groups, stepped
// in lock-step against the value-semantics model internal/verifref/c11model
// (model value of an element = its discrete logarithm, of a scalar = an
// integer mod n). After every transition EVERY slot is compared with the model
// and the package globals (Generator, Identity, NewElement, NewScalar, Params,
// and in-package the curve parameter objects) are re-read and compared with
// constants taken from the reference.
//
// Exported API only (external test package, so that a refactoring of unexported
// names cannot stop this file from building). The state key contains the observed
// alias graph - the addresses of every pointer / slice backing array reachable from
// a slot object, found by a name-agnostic reflection walk, compared between slots and
// with the curve parameter objects (reached through the exported curve constructors) -
// which is what makes merging histories sound.

import (
	"bytes"
	"crypto/elliptic"
	"crypto/sha256"
	"encoding/hex"
	"fmt"
	"math/big"
	"os"
	"reflect"
	"sort"
	"strconv"
	"strings"
	"sync"
	"testing"
	"unsafe"

	"github.com/cloudflare/circl/ecc/p384"
	"github.com/cloudflare/circl/group"
	"github.com/cloudflare/circl/internal/verifmc"
	"github.com/cloudflare/circl/internal/verifref/c11model"
)

const (
	c11NE = 3
	c11NS = 2
)

type c11Snap struct {
	P, N, B, Gx, Gy *big.Int
	BitSize         int
	Name            string
}

type c11Sys struct {
	name   string
	g      group.Group
	cv     elliptic.Curve   // the curve whose Params() the NIST group uses (nil for ristretto255)
	static map[uintptr]bool // addresses reachable from every fresh object (shared infrastructure, not slot storage)
	m      *c11model.Group
	nist   bool
	snap   c11Snap
	ops    []c11model.Op
	genP   *c11model.Point

	obsMu    sync.Mutex
	observed map[[16]byte]bool
	samples  []map[string]string
	caps     []string
}

func c11Systems() []*c11Sys {
	mk := func(g group.Group, m *c11model.Group, cv elliptic.Curve) *c11Sys {
		s := &c11Sys{name: m.Name, g: g, m: m, cv: cv, ops: c11model.Alphabet(c11NE, c11NS), observed: map[[16]byte]bool{}}
		if cv != nil {
			s.nist = true
			p := cv.Params()
			cp := func(x *big.Int) *big.Int { return new(big.Int).Set(x) }
			s.snap = c11Snap{cp(p.P), cp(p.N), cp(p.B), cp(p.Gx), cp(p.Gy), p.BitSize, p.Name}
		}
		s.genP = m.PointOf(big.NewInt(1))
		// addresses common to independently created fresh objects are shared infrastructure
		s.static = map[uintptr]bool{}
		a, b := c11Reach(g.NewElement()), c11Reach(g.Identity())
		for _, x := range a[1:] {
			for _, y := range b[1:] {
				if x == y {
					s.static[x] = true
				}
			}
		}
		a, b = c11Reach(g.NewScalar()), c11Reach(g.NewScalar())
		for _, x := range a[1:] {
			for _, y := range b[1:] {
				if x == y {
					s.static[x] = true
				}
			}
		}
		return s
	}
	// group.P384 is built on circl's own ecc/p384 curve, P-256 / P-521 on crypto/elliptic
	return []*c11Sys{mk(group.P256, c11model.P256, elliptic.P256()), mk(group.P384, c11model.P384, p384.P384()),
		mk(group.P521, c11model.P521, elliptic.P521()), mk(group.Ristretto255, c11model.Ristretto255, nil)}
}

// c11Reach lists, in a fixed order, the address of obj's pointee and of every pointer target and
// slice backing array reachable from it through struct fields, pointers, arrays and slices.
// Interface-typed fields are not followed (they hold shared curve objects, not slot storage).
// No field is named: the walk works for any layout of the element / scalar types.
func c11Reach(obj interface{}) []uintptr {
	out := make([]uintptr, 0, 8)
	var seenArr [16]uintptr
	seenL := seenArr[:0]
	isSeen := func(a uintptr) bool {
		for _, x := range seenL {
			if x == a {
				return true
			}
		}
		return false
	}
	var walk func(v reflect.Value, depth int)
	walk = func(v reflect.Value, depth int) {
		if depth > 6 {
			return
		}
		switch v.Kind() {
		case reflect.Ptr:
			if v.IsNil() {
				return
			}
			a := v.Pointer()
			out = append(out, a) // listed every time it is reached: one object reached twice IS the aliasing looked for
			if isSeen(a) {
				return
			}
			seenL = append(seenL, a)
			walk(v.Elem(), depth+1)
		case reflect.Struct:
			for i := 0; i < v.NumField(); i++ {
				walk(v.Field(i), depth+1)
			}
		case reflect.Slice:
			if v.IsNil() || v.Cap() == 0 {
				return
			}
			a := v.Pointer()
			out = append(out, a)
			if isSeen(a) {
				return
			}
			seenL = append(seenL, a)
			switch v.Type().Elem().Kind() {
			case reflect.Ptr, reflect.Struct, reflect.Slice, reflect.Array:
				for i := 0; i < v.Len(); i++ {
					walk(v.Index(i), depth+1)
				}
			}
		case reflect.Array:
			switch v.Type().Elem().Kind() {
			case reflect.Ptr, reflect.Struct, reflect.Slice, reflect.Array:
				for i := 0; i < v.Len(); i++ {
					walk(v.Index(i), depth+1)
				}
			}
		}
	}
	v := reflect.ValueOf(obj)
	if !v.IsValid() || v.Kind() != reflect.Ptr || v.IsNil() {
		return []uintptr{0}
	}
	walk(v, 0)
	return out
}

// c11Real is the pool of real objects.
type c11Real struct {
	E []group.Element
	S []group.Scalar
}

func (s *c11Sys) fresh() *c11Real {
	r := &c11Real{E: make([]group.Element, c11NE), S: make([]group.Scalar, c11NS)}
	for i := range r.E {
		r.E[i] = s.g.NewElement()
	}
	for i := range r.S {
		r.S[i] = s.g.NewScalar()
	}
	return r
}

func c11Scribble(b []byte) {
	for i := range b {
		b[i] ^= 0xa5
	}
}

// c11Problem is one divergence found after a transition.
type c11Problem struct {
	class string // stable failure class
	what  string
}

// apply runs op on the real objects. st is the model state BEFORE the op.
func (s *c11Sys) apply(r *c11Real, st c11model.State, op c11model.Op) (probs []c11Problem) {
	bad := func(class, format string, a ...interface{}) {
		probs = append(probs, c11Problem{class, fmt.Sprintf(format, a...)})
	}
	E, S := r.E, r.S
	switch op.K {
	case c11model.EGen:
		E[op.A] = s.g.Generator()
	case c11model.EIdent:
		E[op.A] = s.g.Identity()
	case c11model.ENew:
		E[op.A] = s.g.NewElement()
	case c11model.ECopy:
		E[op.A] = E[op.B].Copy()
	case c11model.ESet:
		E[op.A].Set(E[op.B])
	case c11model.EAdd:
		E[op.A].Add(E[op.B], E[op.C])
	case c11model.EDbl:
		E[op.A].Dbl(E[op.B])
	case c11model.ENeg:
		E[op.A].Neg(E[op.B])
	case c11model.EMul:
		E[op.A].Mul(E[op.B], S[op.C])
	case c11model.EMulGen:
		E[op.A].MulGen(S[op.C])
	case c11model.ECMov:
		E[op.A].CMov(int(op.V), E[op.B])
	case c11model.ECSel:
		E[op.A].CSelect(int(op.V), E[op.B], E[op.C])
	case c11model.EMarshal, c11model.EMarshalC:
		var out []byte
		var err error
		want := s.m.PointOf(st.E[op.A])
		w := want.Enc
		if op.K == c11model.EMarshal {
			out, err = E[op.A].MarshalBinary()
		} else {
			out, err = E[op.A].MarshalBinaryCompress()
			w = want.EncC
		}
		if err != nil || !bytes.Equal(out, w) {
			bad("result-diverged", "%s returned %x (err=%v), a fresh element of the same value gives %x", op, out, err, w)
		}
		c11Scribble(out) // returned slices belong to the caller
	case c11model.EUnmarshal:
		want := s.m.PointOf(st.E[op.B])
		src := want.Enc
		if op.V == 1 {
			src = want.EncC
		}
		buf := append([]byte{}, src...)
		err := E[op.A].UnmarshalBinary(buf)
		if err != nil {
			bad("result-diverged", "%s: decoding a valid encoding %x into a used element failed: %v", op, src, err)
		}
		if !bytes.Equal(buf, src) {
			bad("operand-mutated", "%s changed its input slice: %x -> %x", op, src, buf)
		}
		c11Scribble(buf) // the element must not keep a reference to the caller's buffer
	case c11model.SNew:
		S[op.A] = s.g.NewScalar()
	case c11model.SSetU:
		S[op.A].SetUint64(uint64(op.V))
	case c11model.SSetBig:
		x := s.m.BigArg(op.V)
		keep := new(big.Int).Set(x)
		S[op.A].SetBigInt(x)
		if x.Cmp(keep) != 0 {
			bad("operand-mutated", "%s changed its big.Int argument: %x -> %x", op, keep, x)
		}
		bits := x.Bits() // the scalar must not keep a reference to the caller's integer
		for i := range bits {
			bits[i] ^= 0x5a5a5a5a
		}
	case c11model.SSet:
		S[op.A].Set(S[op.B])
	case c11model.SCopy:
		S[op.A] = S[op.B].Copy()
	case c11model.SAdd:
		S[op.A].Add(S[op.B], S[op.C])
	case c11model.SSub:
		S[op.A].Sub(S[op.B], S[op.C])
	case c11model.SMul:
		S[op.A].Mul(S[op.B], S[op.C])
	case c11model.SNeg:
		S[op.A].Neg(S[op.B])
	case c11model.SInv:
		S[op.A].Inv(S[op.B])
	case c11model.SCMov:
		S[op.A].CMov(int(op.V), S[op.B])
	case c11model.SCSel:
		S[op.A].CSelect(int(op.V), S[op.B], S[op.C])
	case c11model.SMarshal:
		out, err := S[op.A].MarshalBinary()
		w := s.m.ScalarEnc(st.S[op.A])
		if err != nil || !bytes.Equal(out, w) {
			bad("result-diverged", "%s returned %x (err=%v), a fresh scalar of the same value gives %x", op, out, err, w)
		}
		c11Scribble(out)
	case c11model.SUnmarshal:
		src := s.m.ScalarEnc(st.S[op.B])
		buf := append([]byte{}, src...)
		if err := S[op.A].UnmarshalBinary(buf); err != nil {
			bad("result-diverged", "%s: decoding a valid encoding %x into a used scalar failed: %v", op, src, err)
		}
		if !bytes.Equal(buf, src) {
			bad("operand-mutated", "%s changed its input slice: %x -> %x", op, src, buf)
		}
		c11Scribble(buf)
	default:
		panic("c11: unknown op")
	}
	return probs
}

// encElement / encScalar read the value of a real object through MarshalBinary (a panic, e.g. of
// crypto/elliptic on a point that is not on the curve, is reported as an unusable slot).
func (s *c11Sys) encElement(e group.Element) (enc []byte, ok bool) {
	if e == nil {
		return nil, false
	}
	var err error
	if p, _ := verifmc.Try(func() { enc, err = e.MarshalBinary() }); p || err != nil {
		return nil, false
	}
	return enc, true
}

func (s *c11Sys) encScalar(sc group.Scalar) ([]byte, bool) {
	if sc == nil {
		return nil, false
	}
	var enc []byte
	var err error
	if p, _ := verifmc.Try(func() { enc, err = sc.MarshalBinary() }); p || err != nil {
		return nil, false
	}
	return enc, true
}

// compareSlots compares every slot with the model state.
func (s *c11Sys) compareSlots(r *c11Real, st c11model.State) (probs []c11Problem) {
	for i, e := range r.E {
		want := s.m.PointOf(st.E[i])
		enc, ok := s.encElement(e)
		switch {
		case !ok:
			probs = append(probs, c11Problem{"slot-diverged", fmt.Sprintf("element slot e%d is nil/unusable (MarshalBinary fails or panics), model value [%s]G = %x", i, st.E[i].Text(16), want.Enc)})
		case !bytes.Equal(enc, want.Enc):
			probs = append(probs, c11Problem{"slot-diverged", fmt.Sprintf("element slot e%d = %x, model value [%s]G = %x", i, enc, st.E[i].Text(16), want.Enc)})
		}
	}
	for i, sc := range r.S {
		want := s.m.ScalarEnc(st.S[i])
		got, ok := s.encScalar(sc)
		if !ok || !bytes.Equal(got, want) {
			probs = append(probs, c11Problem{"slot-diverged", fmt.Sprintf("scalar slot s%d = %x, model value %x", i, got, want)})
		}
	}
	return probs
}

// checkGlobals re-reads constructors and parameters and repairs the curve
// parameter objects when they were corrupted (so that the corruption is
// attributed to this transition only).
func (s *c11Sys) checkGlobals() (probs []c11Problem) {
	bad := func(what string, format string, a ...interface{}) {
		probs = append(probs, c11Problem{"global-corrupted:" + what, fmt.Sprintf(format, a...)})
	}
	// the curve parameter objects themselves (reached through the exported curve constructors)
	if s.nist {
		p := s.cv.Params()
		for _, f := range []struct {
			n    string
			cur  *big.Int
			want *big.Int
		}{{"P", p.P, s.snap.P}, {"N", p.N, s.snap.N}, {"B", p.B, s.snap.B}, {"Gx", p.Gx, s.snap.Gx}, {"Gy", p.Gy, s.snap.Gy}} {
			if f.cur.Cmp(f.want) != 0 {
				bad("CurveParams", "curve parameter %s of %s is now %s (was %s)", f.n, s.name, f.cur.Text(16), f.want.Text(16))
				f.cur.Set(f.want) // repair
			}
		}
		if p.BitSize != s.snap.BitSize || p.Name != s.snap.Name {
			bad("CurveParams", "curve BitSize/Name changed")
			p.BitSize, p.Name = s.snap.BitSize, s.snap.Name
		}
	}
	one := s.genP
	chkE := func(what string, e group.Element, want *c11model.Point) {
		enc, ok := s.encElement(e)
		if !ok {
			bad(what, "%s() returned an unusable element", what)
			return
		}
		if !bytes.Equal(enc, want.Enc) {
			bad(what, "%s() now returns %x, want %x", what, enc, want.Enc)
		}
	}
	zero := s.m.PointOf(new(big.Int))
	chkE("Generator", s.g.Generator(), one)
	chkE("Identity", s.g.Identity(), zero)
	chkE("NewElement", s.g.NewElement(), zero)
	if got, ok := s.encScalar(s.g.NewScalar()); !ok || !bytes.Equal(got, s.m.ScalarEnc(new(big.Int))) {
		bad("NewScalar", "NewScalar() now returns %x", got)
	}
	pp := s.g.Params()
	wantP := group.Params{ElementLength: uint(1 + 2*s.m.ByteLen), CompressedElementLength: uint(1 + s.m.ByteLen), ScalarLength: uint(s.m.ByteLen)}
	if !s.nist {
		wantP = group.Params{ElementLength: 32, CompressedElementLength: 32, ScalarLength: 32}
	}
	if pp == nil || *pp != wantP {
		bad("Params", "Params() now returns %+v, want %+v", pp, wantP)
	}
	return probs
}

func c11BigBacking(x *big.Int) uintptr {
	b := x.Bits()
	if cap(b) == 0 {
		return 0
	}
	return uintptr(unsafe.Pointer(&b[:1][0]))
}

// globalCells returns the addresses of the library-global storage an element could alias.
func (s *c11Sys) globalCells() []uintptr {
	if !s.nist {
		return nil
	}
	p := s.cv.Params()
	var out []uintptr
	for _, x := range []*big.Int{p.Gx, p.Gy, p.P, p.N, p.B} {
		out = append(out, uintptr(unsafe.Pointer(x)), c11BigBacking(x))
	}
	return out
}

// slotCells returns, per slot, the addresses of the storage the slot's value lives in.
func (s *c11Sys) slotCells(r *c11Real) (ec [][]uintptr, sc [][]uintptr) {
	cells := func(obj interface{}) []uintptr {
		c := c11Reach(obj)
		out := c[:0:0]
		for i, a := range c {
			if i == 0 || !s.static[a] {
				out = append(out, a)
			}
		}
		return out
	}
	for _, e := range r.E {
		ec = append(ec, cells(e))
	}
	for _, x := range r.S {
		sc = append(sc, cells(x))
	}
	return ec, sc
}

var (
	c11PermE = [][]int{{0, 1, 2}, {0, 2, 1}, {1, 0, 2}, {1, 2, 0}, {2, 0, 1}, {2, 1, 0}}
	c11PermS = [][]int{{0, 1}, {1, 0}}
)

// stateKey is the canonical state: model values plus the observed alias graph,
// minimised over slot permutations (the alphabet is symmetric in the slots).
// aliasGlobal / aliasSlots report what the graph contains.
func (s *c11Sys) stateKey(r *c11Real, st c11model.State) (key [16]byte, aliasGlobal, aliasSlots bool) {
	ec, sc := s.slotCells(r)
	gc := s.globalCells()
	ev := make([]string, len(st.E))
	for i, v := range st.E {
		ev[i] = v.Text(16)
	}
	sv := make([]string, len(st.S))
	for i, v := range st.S {
		sv[i] = v.Text(16)
	}
	// what the graph contains (independent of the permutation)
	type cell struct {
		a    uintptr
		slot int
	}
	var seenArr [48]cell
	seen := seenArr[:0]
	for _, a := range gc {
		if a != 0 {
			seen = append(seen, cell{a, -1})
		}
	}
	slot := 0
	mark := func(cells [][]uintptr) {
		for _, c := range cells {
		next:
			for _, a := range c {
				if a == 0 {
					continue
				}
				for _, o := range seen {
					if o.a == a {
						if o.slot == -1 {
							aliasGlobal = true
						} else {
							// also WITHIN one slot: an element whose two coordinates are one big.Int
							// behaves differently from one with separate coordinates, so it is a different state
							aliasSlots = true
						}
						continue next
					}
				}
				seen = append(seen, cell{a, slot})
			}
			slot++
		}
	}
	mark(ec)
	mark(sc)
	var sb strings.Builder
	if !aliasGlobal && !aliasSlots {
		// no storage is shared: the labelling is the same under every slot permutation,
		// so the sorted value lists are a canonical form
		sort.Strings(ev)
		sort.Strings(sv)
		sb.WriteString("noalias|")
		sb.WriteString(strings.Join(ev, ","))
		sb.WriteByte(';')
		sb.WriteString(strings.Join(sv, ","))
		h := sha256.Sum256([]byte(sb.String()))
		copy(key[:], h[:16])
		return key, false, false
	}
	best := ""
	for _, pe := range c11PermE {
		for _, ps := range c11PermS {
			sb.Reset()
			sb.WriteString("alias|")
			var labArr [48]cell
			labels := labArr[:0]
			for i, a := range gc {
				if a != 0 {
					labels = append(labels, cell{a, i})
				}
			}
			next := 100
			lab := func(a uintptr) {
				if a == 0 {
					sb.WriteString("-.")
					return
				}
				l := -1
				for _, o := range labels {
					if o.a == a {
						l = o.slot
						break
					}
				}
				if l < 0 {
					l = next
					next++
					labels = append(labels, cell{a, l})
				}
				sb.WriteString(strconv.Itoa(l))
				sb.WriteByte('.')
			}
			for _, i := range pe {
				sb.WriteString(ev[i])
				sb.WriteByte(':')
				for _, a := range ec[i] {
					lab(a)
				}
				sb.WriteByte(',')
			}
			sb.WriteByte(';')
			for _, i := range ps {
				sb.WriteString(sv[i])
				sb.WriteByte(':')
				for _, a := range sc[i] {
					lab(a)
				}
				sb.WriteByte(',')
			}
			if k := sb.String(); best == "" || k < best {
				best = k
			}
		}
	}
	h := sha256.Sum256([]byte(best))
	copy(key[:], h[:16])
	return key, aliasGlobal, aliasSlots
}

// observePublic checks a (new) state through the exported API only.
func (s *c11Sys) observePublic(r *c11Real, st c11model.State) (probs []c11Problem) {
	bad := func(format string, a ...interface{}) {
		probs = append(probs, c11Problem{"public-api-diverged", fmt.Sprintf(format, a...)})
	}
	for i, e := range r.E {
		d := st.E[i]
		want := s.m.PointOf(d)
		fresh := s.g.NewElement().MulGen(s.g.NewScalar().SetBigInt(new(big.Int).Set(d)))
		if !e.IsEqual(fresh) || !fresh.IsEqual(e) {
			bad("e%d.IsEqual(fresh [%s]G) is false", i, d.Text(16))
		}
		if e.IsIdentity() != want.IsIdentity {
			bad("e%d.IsIdentity() = %v for value [%s]G", i, e.IsIdentity(), d.Text(16))
		}
		if b, err := e.MarshalBinary(); err != nil || !bytes.Equal(b, want.Enc) {
			bad("e%d.MarshalBinary() = %x (err=%v), want %x", i, b, err, want.Enc)
		}
		if b, err := e.MarshalBinaryCompress(); err != nil || !bytes.Equal(b, want.EncC) {
			bad("e%d.MarshalBinaryCompress() = %x (err=%v), want %x", i, b, err, want.EncC)
		}
	}
	for i, x := range r.S {
		v := st.S[i]
		fresh := s.g.NewScalar().SetBigInt(new(big.Int).Set(v))
		if !x.IsEqual(fresh) || !fresh.IsEqual(x) {
			bad("s%d.IsEqual(fresh %s) is false", i, v.Text(16))
		}
		if x.IsZero() != (v.Sign() == 0) {
			bad("s%d.IsZero() = %v for value %s", i, x.IsZero(), v.Text(16))
		}
		if b, err := x.MarshalBinary(); err != nil || !bytes.Equal(b, s.m.ScalarEnc(v)) {
			bad("s%d.MarshalBinary() = %x (err=%v), want %x", i, b, err, s.m.ScalarEnc(v))
		}
	}
	return probs
}

type c11Result struct {
	enabled     bool
	key         [16]byte
	probs       []c11Problem
	root        string // structural root-cause tag
	aliasGlobal bool
}

func c11HistString(h []uint16) string {
	p := make([]string, len(h))
	for i, o := range h {
		p[i] = strconv.Itoa(int(o))
	}
	return strings.Join(p, ".")
}

func (s *c11Sys) histText(h []uint16) string {
	p := make([]string, len(h))
	for i, o := range h {
		p[i] = s.ops[o].String()
	}
	return strings.Join(p, "; ")
}

// exec replays hist on fresh real objects (and on the model) and applies one more
// operation; every check is made after that last transition.
func (s *c11Sys) exec(hist []uint16, last uint16, observe bool) (res c11Result) {
	st := s.m.Init(c11NE, c11NS)
	real := s.fresh()
	for _, oi := range hist {
		op := s.ops[oi]
		if p, what := verifmc.Try(func() { s.apply(real, st, op) }); p {
			res.enabled = true
			res.probs = append(res.probs, c11Problem{"panic-in-prefix", "panic while replaying the (previously passing) prefix: " + what})
			res.probs = append(res.probs, s.checkGlobals()...)
			return res
		}
		st = s.m.Step(st, op)
	}
	op := s.ops[last]
	if !s.m.Enabled(st, op) {
		return res
	}
	res.enabled = true
	_, preG, preS := s.stateKey(real, st)
	var probs []c11Problem
	if p, what := verifmc.Try(func() { probs = s.apply(real, st, op) }); p {
		res.probs = append(res.probs, c11Problem{"panic:" + verifmc.PanicClass(what), "panic: " + what})
	}
	res.probs = append(res.probs, probs...)
	st = s.m.Step(st, op)
	if len(res.probs) == 0 {
		res.probs = append(res.probs, s.compareSlots(real, st)...)
	}
	res.probs = append(res.probs, s.checkGlobals()...)
	key, postG, postS := s.stateKey(real, st)
	res.key = key
	res.aliasGlobal = preG || postG
	switch {
	case preG || postG:
		res.root = "alias:params"
	case preS || postS:
		res.root = "alias:slots"
	default:
		res.root = "noalias"
	}
	if len(res.probs) == 0 && observe {
		s.obsMu.Lock()
		first := !s.observed[key]
		s.observed[key] = true
		s.obsMu.Unlock()
		if first {
			if p, what := verifmc.Try(func() { res.probs = append(res.probs, s.observePublic(real, st)...) }); p {
				res.probs = append(res.probs, c11Problem{"panic:" + verifmc.PanicClass(what), "panic while observing through the exported API: " + what})
			}
			res.probs = append(res.probs, s.checkGlobals()...)
		}
	}
	return res
}

type c11Viol struct {
	key, caseID, what string
	histLen           int
	payload           map[string]interface{}
}

type c11Collector struct {
	mu sync.Mutex
	m  map[string]*c11Viol
	n  map[string]int
}

func (c *c11Collector) add(v *c11Viol) {
	c.mu.Lock()
	defer c.mu.Unlock()
	c.n[v.key]++
	o := c.m[v.key]
	if o == nil || v.histLen < o.histLen || (v.histLen == o.histLen && v.caseID < o.caseID) {
		c.m[v.key] = v
	}
}

func (s *c11Sys) report(col *c11Collector, hist []uint16, last uint16, res c11Result) {
	full := append(append([]uint16{}, hist...), last)
	op := s.ops[last]
	seenKeys := map[string]bool{}
	for _, p := range res.probs {
		key := fmt.Sprintf("C11|group.%s|%s|%s|%s", s.name, res.root, op.Class(), p.class)
		if seenKeys[key] {
			continue
		}
		seenKeys[key] = true
		col.add(&c11Viol{key: key, caseID: s.name + "|" + c11HistString(full), histLen: len(full),
			what:    fmt.Sprintf("%s after history [%s]: %s", s.name, s.histText(full), p.what),
			payload: map[string]interface{}{"group": s.name, "history": s.histText(full), "history_ops": c11HistString(full)}})
	}
}

// c11NoPointers reports whether a type is free of pointers, slices, maps, ... (so
// that values of it cannot alias anything).
func c11NoPointers(t reflect.Type) bool {
	switch t.Kind() {
	case reflect.Bool, reflect.Int, reflect.Int8, reflect.Int16, reflect.Int32, reflect.Int64,
		reflect.Uint, reflect.Uint8, reflect.Uint16, reflect.Uint32, reflect.Uint64, reflect.Uintptr,
		reflect.Float32, reflect.Float64:
		return true
	case reflect.Array:
		return c11NoPointers(t.Elem())
	case reflect.Struct:
		for i := 0; i < t.NumField(); i++ {
			if !c11NoPointers(t.Field(i).Type) {
				return false
			}
		}
		return true
	}
	return false
}

func TestVerifC11_hist_group(t *testing.T) {
	r := verifmc.Start(t, "C11", "hist_group")
	defer r.Finish()
	r.Rule("state = (discrete logs of 3 element slots, values of 2 scalar slots, observed alias graph of slot storage and curve parameters), canonical under slot permutation; " +
		"a transition replays the representative history on fresh real objects and applies one more operation of the alphabet; after it every slot, the op's result, its input buffers " +
		"and the package globals are compared with the value-semantics model; non-trivial = distinct (group, canonical state)")
	systems := c11Systems()
	c11RefCheck(t, nil) // a wrong reference is a broken check, never an alarm
	r.Set("alphabet_size", len(systems[0].ops))
	r.Set("slots", map[string]int{"elements": c11NE, "scalars": c11NS})
	if !c11NoPointers(reflect.TypeOf(group.Ristretto255.NewElement()).Elem()) || !c11NoPointers(reflect.TypeOf(group.Ristretto255.NewScalar()).Elem()) {
		r.NotExhaustive("ristretto255 element/scalar types contain pointers: their alias graph is not part of the state key")
	}
	col := &c11Collector{m: map[string]*c11Viol{}, n: map[string]int{}}

	if r.Replaying() {
		parts := strings.SplitN(r.ReplayCase(), "|", 2)
		for _, s := range systems {
			if len(parts) != 2 || s.name != parts[0] {
				continue
			}
			var h []uint16
			for _, f := range strings.Split(parts[1], ".") {
				n, err := strconv.Atoi(f)
				if err != nil || n < 0 || n >= len(s.ops) {
					t.Fatalf("bad case id %q", r.ReplayCase())
				}
				h = append(h, uint16(n))
			}
			res := s.exec(h[:len(h)-1], h[len(h)-1], true)
			r.Eval(1)
			s.report(col, h[:len(h)-1], h[len(h)-1], res)
		}
		for _, v := range col.m {
			r.Violation(v.key, v.caseID, v.what, v.payload)
		}
		return
	}

	depthPar := r.Pick(4, 5)
	depthSeq := r.Pick(3, 4)
	if v, err := strconv.Atoi(os.Getenv("VERIF_C11_DEPTH")); err == nil && v > 0 { // development aid
		depthPar, depthSeq = v, v
		r.NotExhaustive("VERIF_C11_DEPTH override")
	}
	r.Set("depth_parallel_mode", depthPar)
	r.Set("depth_sequential_mode", depthSeq)
	modes := map[string]string{}
	depths := map[string]int{}
	perGroupStates := map[string]int{}
	var mu sync.Mutex
	var wg sync.WaitGroup
	for _, s := range systems {
		s := s
		wg.Add(1)
		go func() {
			defer wg.Done()
			mode, depth, states := c11BFS(r, s, col, depthPar, depthSeq)
			mu.Lock()
			modes[s.name], depths[s.name], perGroupStates[s.name] = mode, depth, states
			mu.Unlock()
		}()
	}
	wg.Wait()
	for _, s := range systems { // fixed order: samples must not depend on goroutine timing
		if len(s.samples) > 0 {
			r.Sample(s.samples[0])
		}
		for _, c := range s.caps {
			r.Cap(c)
		}
	}
	r.Set("mode", modes)
	r.Set("depth_completed", depths)
	r.Set("states_per_group", perGroupStates)
	keys := make([]string, 0, len(col.m))
	for k := range col.m {
		keys = append(keys, k)
	}
	sort.Strings(keys)
	counts := map[string]int{}
	for _, k := range keys {
		v := col.m[k]
		r.Violation(v.key, v.caseID, v.what, v.payload)
		counts[k] = col.n[k]
	}
	r.Set("violating_transitions_per_key", counts)
	r.RequireCounter("transitions_receiver_is_operand", 1000)
	r.RequireCounter("decode_into_used_slot", 100)
}

// c11BFS explores one group. Level 1 is always run sequentially; if it shows that
// slots can reach library-global storage (or a global changed), the whole search is
// sequential with repair after each transition, so that a corrupted global can never
// leak into another history; otherwise levels are explored on all cores.
func c11BFS(r *verifmc.Run, s *c11Sys, col *c11Collector, depthPar, depthSeq int) (mode string, completed int, states int) {
	type node struct{ hist []uint16 }
	seen := map[[16]byte]bool{}
	{
		real := s.fresh()
		st := s.m.Init(c11NE, c11NS)
		k, _, _ := s.stateKey(real, st)
		seen[k] = true
		r.State(1)
		states++
		for _, p := range append(s.compareSlots(real, st), s.checkGlobals()...) {
			col.add(&c11Viol{key: "C11|group." + s.name + "|init|" + p.class, caseID: s.name + "|", what: s.name + " initial state: " + p.what})
		}
	}
	frontier := []node{{}}
	exposed := false
	mode = "parallel"
	maxDepth := depthPar
	for depth := 1; depth <= maxDepth && len(frontier) > 0; depth++ {
		if r.Expired() {
			return mode, completed, states
		}
		var next []node
		lateExposure := false
		const chunk = 512
		for base := 0; base < len(frontier); base += chunk {
			end := base + chunk
			if end > len(frontier) {
				end = len(frontier)
			}
			results := make([][]c11Result, end-base)
			work := func(k int) {
				if r.Expired() {
					return
				}
				h := frontier[base+k].hist
				rs := make([]c11Result, len(s.ops))
				for oi := range s.ops {
					rs[oi] = s.exec(h, uint16(oi), true)
				}
				results[k] = rs
			}
			if depth == 1 || exposed {
				for k := range results {
					work(k)
				}
			} else {
				verifmc.ParallelFor(len(results), work)
			}
			if r.Expired() {
				return mode, completed, states
			}
			for k, rs := range results {
				ni := base + k
				for oi, res := range rs {
					if !res.enabled {
						continue
					}
					op := s.ops[oi]
					r.Transition(1)
					r.Eval(1)
					r.Trace(1)
					if res.aliasGlobal {
						if depth > 1 && !exposed {
							lateExposure = true
						}
						if depth == 1 {
							exposed = true
						}
					}
					if strings.Contains(op.Class(), "recv=") {
						r.Count("transitions_receiver_is_operand", 1)
					}
					if op.K == c11model.EUnmarshal || op.K == c11model.SUnmarshal {
						r.Count("decode_into_used_slot", 1)
					}
					if res.root != "noalias" {
						r.Count("states_with_slot_aliasing_params_or_slots_checked", 1)
					}
					if len(res.probs) > 0 {
						r.Outcome(op.K.String() + "->diverged")
						for _, p := range res.probs {
							if strings.HasPrefix(p.class, "global-corrupted") && depth == 1 {
								exposed = true
							}
						}
						s.report(col, frontier[ni].hist, uint16(oi), res)
						continue
					}
					r.Outcome(op.K.String() + "->agree")
					if !seen[res.key] {
						seen[res.key] = true
						states++
						r.State(1)
						r.Distinct(s.name, res.key[:])
						h := append(append([]uint16{}, frontier[ni].hist...), uint16(oi))
						if depth < maxDepth {
							next = append(next, node{h})
						}
						if depth == 2 && len(next)%97 == 1 {
							s.samples = append(s.samples, map[string]string{"group": s.name, "history": s.histText(h), "state": hex.EncodeToString(res.key[:])})
						}
					}
				}
			}
		}
		completed = depth
		if depth == 1 && exposed {
			mode = "sequential (slots can reach library-global storage)"
			maxDepth = depthSeq
			s.caps = append(s.caps, fmt.Sprintf("%s: element slots alias library-global curve parameters, search run sequentially with repair and limited to depth %d instead of %d", s.name, depthSeq, depthPar))
		}
		if lateExposure {
			s.caps = append(s.caps, s.name+": slot storage aliasing curve parameters first appeared below depth 1 during a parallel level; results of that level may be order-dependent")
		}
		frontier = next
	}
	return mode, completed, states
}

// TestVerifC11_hist_refcheck binds the reference model to authoritative data before it
// is trusted: the 16 generator multiples of RFC 9496 A.1 (also in group/ristretto255_test.go),
// the written-out group orders against the standard library, and nistec's [1]G against
// the curve parameters.
func TestVerifC11_hist_refcheck(t *testing.T) {
	r := verifmc.Start(t, "C11", "hist_refcheck")
	defer r.Finish()
	r.Rule("reference model bound to RFC 9496 A.1 vectors and crypto/elliptic constants; non-trivial = each vector")
	c11RefCheck(t, r)
}

func c11RefCheck(t *testing.T, r *verifmc.Run) {
	vec := []string{
		"0000000000000000000000000000000000000000000000000000000000000000",
		"e2f2ae0a6abc4e71a884a961c500515f58e30b6aa582dd8db6a65945e08d2d76",
		"6a493210f7499cd17fecb510ae0cea23a110e8d5b901f8acadd3095c73a3b919",
		"94741f5d5d52755ece4f23f044ee27d5d1ea1e2bd196b462166b16152a9d0259",
		"da80862773358b466ffadfe0b3293ab3d9fd53c5ea6c955358f568322daf6a57",
		"e882b131016b52c1d3337080187cf768423efccbb517bb495ab812c4160ff44e",
		"f64746d3c92b13050ed8d80236a7f0007c3b3f962f5ba793d19a601ebb1df403",
		"44f53520926ec81fbd5a387845beb7df85a96a24ece18738bdcfa6a7822a176d",
		"903293d8f2287ebe10e2374dc1a53e0bc887e592699f02d077d5263cdd55601c",
		"02622ace8f7303a31cafc63f8fc48fdc16e1c8c8d234b2f0d6685282a9076031",
		"20706fd788b2720a1ed2a5dad4952b01f413bcf0e7564de8cdc816689e2db95f",
		"bce83f8ba5dd2fa572864c24ba1810f9522bc6004afe95877ac73241cafdab42",
		"e4549ee16b9aa03099ca208c67adafcafa4c3f3e4e5303de6026e3ca8ff84460",
		"aa52e000df2e16f55fb1032fc33bc42742dad6bd5a8fc0be0167436c5948501f",
		"46376b80f409b29dc2b5f6f0c52591990896e5716f41477cd30085ab7f10301e",
		"e0c418f7c8d9c4cdd7395b93ea124f3ad99021bb681dfc3302a9d99a2e53e64e",
	}
	for i, v := range vec {
		got := hex.EncodeToString(c11model.RistrettoMulBaseEnc(big.NewInt(int64(i))))
		if r != nil {
			r.Eval(1)
			r.Distinct("ristretto", i)
		}
		if got != v {
			t.Fatalf("reference ristretto255: [%d]B = %s, RFC 9496 says %s", i, got, v)
		}
	}
	// [n]B = identity, [n-1]B = -B: same encoding as... -B encodes differently; check [n+1]B = B
	n1 := new(big.Int).Add(c11model.Ristretto255.N, big.NewInt(1))
	if hex.EncodeToString(c11model.RistrettoMulBaseEnc(n1)) != vec[1] || hex.EncodeToString(c11model.RistrettoMulBaseEnc(c11model.Ristretto255.N)) != vec[0] {
		t.Fatalf("reference ristretto255: order constant wrong")
	}
	for _, s := range c11Systems() {
		if !s.nist {
			continue
		}
		if r != nil {
			r.Eval(1)
			r.Distinct("nist", s.name)
		}
		if s.m.N.Cmp(s.snap.N) != 0 {
			t.Fatalf("reference order of %s differs from crypto/elliptic", s.name)
		}
		if s.genP.X.Cmp(s.snap.Gx) != 0 || s.genP.Y.Cmp(s.snap.Gy) != 0 {
			t.Fatalf("reference generator of %s ([1]G by nistec) differs from the curve parameters at start", s.name)
		}
		nG := s.m.PointOf(new(big.Int).Add(s.m.N, big.NewInt(1)))
		if nG.X.Cmp(s.snap.Gx) != 0 {
			t.Fatalf("reference: [n+1]G != G for %s", s.name)
		}
	}
}
