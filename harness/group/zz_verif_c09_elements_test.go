//go:build verif

package group_test

// C09 / group: Element.UnmarshalBinary of P-256, P-384, P-521 (identity byte,
// compressed, uncompressed SEC 1 strings) and ristretto255 accepts only
// canonical encodings of group members; MarshalBinary / MarshalBinaryCompress
// give the parsed bytes back. Oracle: strict decoders of ref/c09ref on
// ref/wcurve and ref/ecurve.

import (
	"math/big"
	"testing"

	"github.com/cloudflare/circl/group"
	"github.com/cloudflare/circl/internal/verifmc"
	"github.com/cloudflare/circl/internal/verifref/c09ref"
	"github.com/cloudflare/circl/internal/verifref/ecurve"
	"github.com/cloudflare/circl/internal/verifref/wcurve"
)

func c09GroupDec(cs []c09ref.Case) []verifmc.DecCase {
	out := make([]verifmc.DecCase, len(cs))
	bases := c09ref.Bases(cs)
	for i, c := range cs {
		out[i] = verifmc.DecCase{Name: c.Name, Class: c.Class, Data: c.Data, Base: bases[i]}
	}
	return out
}

// c09LibEncodings returns the library's own serialisations of [a]G and checks the converse clause on them.
func c09LibEncodings(r *verifmc.Run, entry string, g group.Group, sc []c09ref.Scalar, compressed bool) []c09ref.Case {
	var out []c09ref.Case
	for _, s := range sc {
		k := g.NewScalar().SetBigInt(s.V)
		P := g.NewElement().MulGen(k)
		var enc []byte
		var err error
		if compressed {
			enc, err = P.MarshalBinaryCompress()
		} else {
			enc, err = P.MarshalBinary()
		}
		if err != nil {
			r.Violation("C09|"+entry+"|own-encoding-fails|valid-lib", entry+"|lib/a="+s.Name, "marshalling [a]G fails: "+err.Error(), nil)
			continue
		}
		out = append(out, c09ref.Case{Name: "lib/a=" + s.Name, Class: "valid-lib", Data: enc})
		Q := g.NewElement()
		if err := Q.UnmarshalBinary(c09ref.Clone(enc)); err != nil || !Q.IsEqual(P) {
			r.Violation("C09|"+entry+"|own-encoding-not-equal|valid-lib", entry+"|lib/a="+s.Name,
				"UnmarshalBinary(Marshal(P)) fails or differs from P", map[string]string{"input": verifmc.FullHex(enc)})
		}
		r.Eval(1)
	}
	return out
}

func c09GroupNIST(t *testing.T, unit string, g group.Group, c *wcurve.Curve) {
	r := verifmc.Start(t, "C09", unit)
	defer r.Finish()
	r.Rule("all 256 one-byte strings (complete); compressed and uncompressed: [a]G for a in {1,2,3,n-1,(n+1)/2,5 SHAKE values} (reference and library), all single-bit flips of 4 (quick) / 10 (thorough) of them, " +
		"all 256 prefix bytes on two bases and on a zero body, coordinates p+j and 2^bits-1-j (j<8), the 3 curve points with smallest x (both y) and their aliases x+p, y+p, " +
		"unused high bits (P-521), points off the curve and on y^2=x^3-3x+b+-1; the 27 curve points with smallest x (both y) from the reference, and the library's serialisation of them in each format obtained through the other format's decoder (must decode again); " +
		"every case also decoded into an element that already holds the nearest valid point, and before it; distinct = distinct (entry point, input bytes)")
	_, cl, _ := c09ref.SEC1Lens(c)
	observe := func(e group.Element, in []byte) verifmc.DecResult {
		keep := c09ref.Clone(in)
		if err := e.UnmarshalBinary(in); err != nil {
			return verifmc.DecResult{}
		}
		res := verifmc.DecResult{Accepted: true}
		var un, co []byte
		var err1, err2 error
		if p, _ := verifmc.Try(func() { un, err1 = e.MarshalBinary(); co, err2 = e.MarshalBinaryCompress() }); p {
			res.Note = "accepted-value-makes-the-encoder-panic"
			return res
		}
		if err1 != nil || err2 != nil {
			res.Note = "marshal-fails-after-accept"
		}
		res.Point = un
		res.Reenc = un
		if len(in) == cl {
			res.Reenc = co
		}
		if string(keep) != string(in) {
			res.Note = "input-modified"
		}
		return res
	}
	for format := 0; format < 3; format++ {
		fname := []string{"identity", "compressed", "uncompressed"}[format]
		entry := "group." + c.Name + ".UnmarshalBinary/" + fname
		cases := c09ref.SEC1Cases(c, format, c09ref.SEC1Options{FlipBases: r.Pick(4, 10), Special: 24})
		if format > 0 {
			cases = append(cases, c09LibEncodings(r, entry, g, c09ref.Scalars(c.N), format == 1)...)
			// the library's own serialisation of the constructed points (smallest x), obtained by decoding the
			// OTHER format (whose decoder takes no / another square root) and marshalling in this one
			for _, o := range c09ref.SEC1Cases(c, 3-format, c09ref.SEC1Options{Special: 24}) {
				if o.Class != "special" && o.Class != "valid" {
					continue
				}
				e := g.NewElement()
				if err := e.UnmarshalBinary(c09ref.Clone(o.Data)); err != nil {
					continue
				}
				var enc []byte
				if format == 1 {
					enc, _ = e.MarshalBinaryCompress()
				} else {
					enc, _ = e.MarshalBinary()
				}
				cases = append(cases, c09ref.Case{Name: "speciallib/" + o.Name, Class: "special-lib", Data: enc})
			}
		} else {
			enc, _ := g.Identity().MarshalBinary()
			cases = append(cases, c09ref.Case{Name: "lib/identity", Class: "valid-lib", Data: enc})
		}
		// the same element object takes all three formats: sequence the one-byte strings with a point in either
		// format, and (thorough) the point formats with the identity byte and with the generator in the other format
		gen := c.BaseMult(big.NewInt(1))
		extra := [][]byte{c09ref.SEC1Encode(c, gen, false), c09ref.SEC1Encode(c, gen, true)}
		if format > 0 {
			extra = nil
			if r.Thorough() {
				extra = [][]byte{{0}, c09ref.SEC1Encode(c, gen, format == 2)}
			}
		}
		r.CheckDecoder(verifmc.DecSpec{Entry: entry, Cases: c09GroupDec(cases), RefAll: true, ExtraBases: extra,
			Ref: func(in []byte) verifmc.DecOracle {
				v := c09ref.SEC1Verdict(c, in)
				return verifmc.DecOracle{Member: v.Member, Reason: v.Reason, Point: v.Point}
			},
			AcceptOnly: func(in []byte) bool { return g.NewElement().UnmarshalBinary(in) == nil },
			Seq: func(first, second []byte) verifmc.DecResult {
				e := g.NewElement()
				_ = e.UnmarshalBinary(first)
				return observe(e, second)
			},
			Lib: func(in []byte) verifmc.DecResult { return observe(g.NewElement(), in) }})
	}
	r.RequireCounter("in:prefix", 1700)
	r.RequireCounter("in:flip", int64(4*8*(3*c.ByteLen+2)-16))
	r.RequireCounter("in:alias", 6)
	r.RequireCounter("in:field-overflow", 32+64)
	r.RequireCounter("in:offcurve", 9)
	r.RequireCounter("in:valid-lib", 21)
	r.RequireCounter("accepted", 60)
	r.RequireCounter("in:special-lib", 80)
	r.RequireCounter("reused_receiver_cases", 3000)
}

func TestVerifC09_group_P256(t *testing.T) { c09GroupNIST(t, "group_P256", group.P256, wcurve.P256()) }
func TestVerifC09_group_P384(t *testing.T) { c09GroupNIST(t, "group_P384", group.P384, wcurve.P384()) }
func TestVerifC09_group_P521(t *testing.T) { c09GroupNIST(t, "group_P521", group.P521, wcurve.P521()) }

func TestVerifC09_group_ristretto255(t *testing.T) {
	r := verifmc.Start(t, "C09", "group_ristretto255")
	defer r.Finish()
	r.Rule("32-byte strings: [a]G for a in {0,1,2,3,L-1,(L+1)/2,5 SHAKE values} (reference and library), RFC 9496 A.1 multiples, all 256 single-bit flips of 4 (quick) / 11 (thorough) of them, " +
		"the 29 invalid encodings of RFC 9496 A.3, all 19 values s in [p,2^255) with and without bit 255 (complete), p-s and bit 255 for every valid s, s = 0..63; " +
		"encodings of the doubles of the edwards25519 points with x or y in {0,+-1,+-sqrt(-1),+-j (j<16)} and of small order (canonical encodings of elements: must be accepted); " +
		"every case also decoded into an element that already holds the nearest valid one, and before it; the decoded value is seen only through re-serialisation; distinct = distinct input bytes")
	g := group.Ristretto255
	cases := c09ref.RistrettoCases(c09ref.EdOptions{FlipBases: r.Pick(4, 11), Special: 16})
	cases = append(cases, c09LibEncodings(r, "group.ristretto255.UnmarshalBinary", g, c09ref.Scalars(ecurve.Edwards25519().N), false)...)
	r.CheckDecoder(verifmc.DecSpec{Entry: "group.ristretto255.UnmarshalBinary", Cases: c09GroupDec(cases), RefAll: true,
		Ref: func(in []byte) verifmc.DecOracle {
			v := c09ref.RistrettoVerdict(in)
			return verifmc.DecOracle{Member: v.Member, Reason: v.Reason, Point: v.Point}
		},
		AcceptOnly: func(in []byte) bool { return g.NewElement().UnmarshalBinary(in) == nil },
		// ristretto255 has prime order: every canonical encoding is the encoding of some [k]B, a value the library serialises
		MustAccept:    func(cl string) bool { return cl == "valid-lib" || cl == "valid" || cl == "special" },
		MustAcceptWhy: "the canonical RFC 9496 encoding of a group element (some [k]B) is refused",
		Seq: func(first, second []byte) verifmc.DecResult {
			e := g.NewElement()
			_ = e.UnmarshalBinary(first)
			if err := e.UnmarshalBinary(second); err != nil {
				return verifmc.DecResult{}
			}
			un, _ := e.MarshalBinary()
			return verifmc.DecResult{Accepted: true, Reenc: un, Point: un}
		},
		Lib: func(in []byte) verifmc.DecResult {
			keep := c09ref.Clone(in)
			e := g.NewElement()
			if err := e.UnmarshalBinary(in); err != nil {
				return verifmc.DecResult{}
			}
			res := verifmc.DecResult{Accepted: true}
			un, err1 := e.MarshalBinary()
			co, err2 := e.MarshalBinaryCompress()
			if err1 != nil || err2 != nil || string(un) != string(co) {
				res.Note = "marshal-forms-differ-or-fail"
			}
			res.Reenc = un
			res.Point = un
			if string(keep) != string(in) {
				res.Note = "input-modified"
			}
			return res
		}})
	r.RequireCounter("in:flip", 4*250)
	r.RequireCounter("in:rfc-invalid", 25)
	r.RequireCounter("in:field-overflow", 30)
	r.RequireCounter("in:negative", 10)
	r.RequireCounter("in:valid-lib", 11)
	r.RequireCounter("accepted", 40)
	r.RequireCounter("in:special", 20)
	r.RequireCounter("reused_receiver_cases", 1000)
}
