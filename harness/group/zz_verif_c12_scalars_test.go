//go:build verif

package group_test

// C12 for the scalar fields behind group.Scalar: P-256/P-384/P-521 (group/short.go,
// big-endian byte strings + math/big) and ristretto255 (wrapper around go-ristretto).
// Operands enter through the public API (UnmarshalBinary / SetBigInt / SetUint64).

import (
	"fmt"
	"math/big"
	"os"
	"testing"

	"github.com/cloudflare/circl/group"
	"github.com/cloudflare/circl/internal/verifmc"
	bf "github.com/cloudflare/circl/internal/verifref/bigfield"
)

type c12Grp struct {
	name string
	g    group.Group
	n    *big.Int
	size int
	le   bool // little-endian encoding (ristretto255)
	// wScl keeps any byte string of the right length (no range check): those are operands the API accepts
	unreducedIn bool
}

func (c *c12Grp) enc(v *big.Int) []byte {
	if c.le {
		return bf.LE(v, c.size)
	}
	return v.FillBytes(make([]byte, c.size))
}

func (c *c12Grp) dec(b []byte) *big.Int {
	if c.le {
		return bf.FromLE(b)
	}
	return new(big.Int).SetBytes(b)
}

func TestVerifC12_groupscalars(t *testing.T) {
	if c := os.Getenv("VERIF_CONFIG"); c != "" && c != "default" {
		t.Skip("pure Go code: identical in every configuration; run under default only")
	}
	r := verifmc.Start(t, "C12", "groupscalars")
	defer r.Finish()
	if bad := bf.SelfCheck(); len(bad) != 0 {
		t.Fatalf("reference constants not bound: %v", bad)
	}
	r.Rule("per group: residues below the group order (integer alphabet around 64/32-bit limb boundaries, order minus those, 16 pseudo-random; for the P-curves also byte strings >= order of the right length, which UnmarshalBinary stores unreduced); ALL ordered pairs for Add/Sub/Mul with junk-filled receiver and aliasing z=x, z=y, x=y, z=x=y; CMov/CSelect with both selectors; pair sweeps above 1.5e6 cases are counted by the ordered_pairs counters instead of being hashed into distinct_nontrivial; a distinct case is one (group, operation, operand tuple)")
	r.NotExhaustive("operands are the declared alphabet, not all residues")
	for _, c := range []*c12Grp{
		{name: "group.P256.Scalar", g: group.P256, n: bf.N256, size: 32, unreducedIn: true},
		{name: "group.P384.Scalar", g: group.P384, n: bf.N384, size: 48, unreducedIn: true},
		{name: "group.P521.Scalar", g: group.P521, n: bf.N521, size: 66, unreducedIn: true},
		{name: "group.Ristretto255.Scalar", g: group.Ristretto255, n: bf.L25519, size: 32, le: true},
	} {
		c := c
		N := c.n
		e := func(x bf.Elem) group.Scalar { return x.(group.Scalar) }
		f := &bf.Field{
			Prop: "C12", Name: c.name, P: N, Hex: 2 * c.size,
			New: func() bf.Elem { return c.g.NewScalar() },
			Load: func(z bf.Elem, v *big.Int) bool {
				if v.Sign() < 0 || v.BitLen() > 8*c.size || (!c.unreducedIn && v.Cmp(N) >= 0) {
					return false
				}
				return e(z).UnmarshalBinary(c.enc(v)) == nil
			},
			Copy: func(d, s bf.Elem) { e(d).Set(e(s)) },
			Raw: func(x bf.Elem) *big.Int {
				b, err := e(x).MarshalBinary()
				if err != nil || len(b) != c.size {
					panic(fmt.Sprint("MarshalBinary: ", err, len(b)))
				}
				return c.dec(b)
			},
			Junk: bf.Pseudo(c.name+"-junk", 0, N),
			Par:  verifmc.ParallelFor,
		}
		ia := bf.IntAlphabet(N, 64, 16, c.name)
		red := f.Prepare("e", bf.Thin(ia, r.Pick(90, 400)))
		f.CheckAccepted(r, "UnmarshalBinary", red)
		r.Set(c.name+".elements", red.Len())
		bin := []bf.BinOp{
			{Name: "Add", Do: func(z, x, y bf.Elem) { e(z).Add(e(x), e(y)) }, Ref: bf.RefAdd, Canon: true},
			{Name: "Sub", Do: func(z, x, y bf.Elem) { e(z).Sub(e(x), e(y)) }, Ref: bf.RefSub, Canon: true},
			{Name: "Mul", Do: func(z, x, y bf.Elem) { e(z).Mul(e(x), e(y)) }, Ref: bf.RefMul, Canon: true},
		}
		un := []bf.UnOp{
			{Name: "Neg", Do: func(z, x bf.Elem) { e(z).Neg(e(x)) }, Ref: bf.RefNeg, Canon: true},
			{Name: "Inv", Do: func(z, x bf.Elem) { e(z).Inv(e(x)) }, Ref: bf.RefInv, Canon: true},
			{Name: "Set", Do: func(z, x bf.Elem) { e(z).Set(e(x)) }, Ref: bf.RefId},
			{Name: "Copy", Do: func(z, x bf.Elem) { e(z).Set(e(x).Copy()) }, Ref: bf.RefId},
			{Name: "SetBigInt", Do: func(z, x bf.Elem) {
				b, _ := e(x).MarshalBinary()
				e(z).SetBigInt(c.dec(b))
			}, Ref: bf.RefId, Canon: true},
		}
		for _, op := range bin {
			f.CheckBin(r, op, red, red, op.Name == "Mul" && bf.HashPairs(red.Len()*red.Len()))
		}
		for _, op := range un {
			f.CheckUn(r, op, red, true)
		}
		f.CheckPred(r, bf.Pred{Name: "IsZero", Do: func(x bf.Elem) bool { return e(x).IsZero() }, Ref: bf.RefIsZero}, red)
		f.CheckBitFlips(r, bf.BitFlip{Coords: 1, Bits: uint(8 * c.size), P: N, Limit: N,
			IsZero: func(x bf.Elem) bool { return e(x).IsZero() }, IsEqual: func(x, y bf.Elem) bool { return e(x).IsEqual(e(y)) }},
			[]bf.Operand{{V: new(big.Int), Name: "0"}, {V: big.NewInt(1), Name: "1"}, {V: new(big.Int).Sub(N, big.NewInt(1)), Name: "p-1"}, {V: bf.Pseudo("group-pred", 0, N), Name: "pseudo0"}, {V: bf.Pseudo("group-pred", 1, N), Name: "pseudo1"}})
		r.RequireCounter(c.name+".predicates.one-bit-neighbours", int64(4*(N.BitLen()-1)))
		small := f.Prepare("k", bf.Thin(red.Ops, r.Pick(24, 60)))
		f.CheckCmov(r, "CMov", func(x, y bf.Elem, b int) { e(x).CMov(b, e(y)) }, []int{0, 1}, small, small)
		// CSelect(b, x, y): x if b = 1, y if b = 0
		f.CheckCmov(r, "CSelect", func(x, y bf.Elem, b int) {
			z := c.g.NewScalar()
			z.CSelect(b, e(y), e(x))
			e(x).Set(z)
		}, []int{0, 1}, small, small)
		neq := 0
		for i := 0; i < small.Len(); i++ {
			for j := 0; j < small.Len(); j++ {
				r.Eval(1)
				neq++
				if got, want := e(small.E[i]).IsEqual(e(small.E[j])), small.Red[i].Cmp(small.Red[j]) == 0; got != want {
					r.Violation("C12|"+c.name+".IsEqual|wrong-flag|-|reduced", fmt.Sprintf("%s.IsEqual#k%d,k%d", c.name, i, j), "IsEqual wrong", nil)
				}
			}
		}
		r.Count(c.name+".IsEqual", neq)
		// SetBigInt over the signed boundary ladder, each into a junk-filled receiver, against the Euclidean residue
		f.CheckFromInt(r, "SetBigInt", uint(8*c.size), bf.SignedLadder(N, uint(N.BitLen()), c.name), true, func(z bf.Elem, v *big.Int) bool { e(z).SetBigInt(v); return true })
		r.RequireCounter(c.name+".SetBigInt.from-int", 80)
		for i, nn := range []uint64{0, 1, 2, 1<<32 - 1, 1 << 32, 1<<63 - 1, 1 << 63, ^uint64(0)} {
			z := c.g.NewScalar()
			z.SetUint64(nn)
			r.Eval(1)
			cid := fmt.Sprintf("%s.SetUint64#%d", c.name, i)
			r.Distinct(cid)
			f.Expect(r, "SetUint64", "-", cid, z, new(big.Int).SetUint64(nn), true, new(big.Int).SetUint64(nn))
		}
		if c.unreducedIn {
			// byte strings >= order that UnmarshalBinary accepts: arithmetic must reduce them, and the
			// canonicalising operations (IsZero, IsEqual, MarshalBinary after an operation) must see the residue
			lim := bf.Pow2(uint(8 * c.size))
			var uo []bf.Operand
			for k := int64(1); k <= 3; k++ {
				uo = append(uo, bf.Around(new(big.Int).Mul(N, big.NewInt(k)), 0, 2, fmt.Sprintf("%d*n", k))...)
			}
			uo = append(uo, bf.Around(lim, -3, -1, "2^bits")...)
			uo = append(uo, bf.Operand{V: new(big.Int).Add(N, bf.Pseudo(c.name+"-unred", 0, new(big.Int).Sub(lim, N))), Name: "n+pseudo"})
			un := f.Prepare("u", bf.Append(lim, uo))
			r.Set(c.name+".unreduced_elements", un.Len())
			for _, op := range bin {
				f.CheckBin(r, op, un, small, true)
				f.CheckBin(r, op, small, un, false)
			}
			for _, op := range []bf.UnOp{un0(c, "Neg"), un0(c, "Inv")} {
				f.CheckUn(r, op, un, true)
			}
			f.CheckPred(r, bf.Pred{Name: "IsZero", Do: func(x bf.Elem) bool { return e(x).IsZero() }, Ref: bf.RefIsZero}, un)
			for i := 0; i < un.Len(); i++ {
				z := c.g.NewScalar()
				z.SetBigInt(un.Red[i])
				r.Eval(1)
				if !e(un.E[i]).IsEqual(z) {
					f.Report(r, "IsEqual", "wrong-flag", "-", "unreduced", fmt.Sprintf("%s.IsEqual#u%d", c.name, i), func() (string, interface{}) {
						return fmt.Sprintf("%s: UnmarshalBinary(%x) is accepted but IsEqual(its residue %x) is false", c.name, un.Ops[i].V, un.Red[i]), map[string]string{"x": un.Ops[i].V.Text(16)}
					})
				}
			}
		}
	}
}

func un0(c *c12Grp, name string) bf.UnOp {
	e := func(x bf.Elem) group.Scalar { return x.(group.Scalar) }
	if name == "Neg" {
		return bf.UnOp{Name: "Neg", Do: func(z, x bf.Elem) { e(z).Neg(e(x)) }, Ref: bf.RefNeg, Canon: true}
	}
	return bf.UnOp{Name: "Inv", Do: func(z, x bf.Elem) { e(z).Inv(e(x)) }, Ref: bf.RefInv, Canon: true}
}
