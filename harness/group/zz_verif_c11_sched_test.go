//go:build verif

package group_test

// C11 (schedules): read-only operations on one shared group element / scalar,
// and on elements handed out by Generator().

import (
	"os"
	"testing"

	"github.com/cloudflare/circl/group"
	"github.com/cloudflare/circl/internal/verifmc"
	"github.com/cloudflare/circl/internal/verifmc/sched"
)

type c11GroupShared struct {
	g    group.Group
	e, f group.Element
	s    group.Scalar
}

func c11GroupScenarios() []sched.Scenario {
	var scs []sched.Scenario
	for _, g := range []group.Group{group.P256, group.P384, group.P521, group.Ristretto255} {
		g := g
		name := g.(interface{ String() string }).String()
		mb := func(e group.Element) []byte {
			b, err := e.MarshalBinary()
			if err != nil {
				panic(err)
			}
			return b
		}
		fresh := func() interface{} {
			s := g.NewScalar().SetUint64(0x1234567)
			e := g.NewElement().MulGen(s)
			// an element whose coordinates went through Neg (stored representation may differ)
			f := g.NewElement().Neg(e)
			return &c11GroupShared{g, e, f, s}
		}
		marshal := func(sh interface{}) interface{} { return mb(sh.(*c11GroupShared).f) }
		marshalC := func(sh interface{}) interface{} {
			b, err := sh.(*c11GroupShared).f.MarshalBinaryCompress()
			if err != nil {
				panic(err)
			}
			return b
		}
		add := func(sh interface{}) interface{} {
			x := sh.(*c11GroupShared)
			return mb(x.g.NewElement().Add(x.f, x.e))
		}
		mul := func(sh interface{}) interface{} {
			x := sh.(*c11GroupShared)
			return mb(x.g.NewElement().Mul(x.f, x.s))
		}
		isEq := func(sh interface{}) interface{} {
			x := sh.(*c11GroupShared)
			return x.f.IsEqual(x.g.NewElement().Neg(x.e))
		}
		gen := func(sh interface{}) interface{} {
			x := sh.(*c11GroupShared)
			return mb(x.g.NewElement().Add(x.g.Generator(), x.g.Generator()))
		}
		genMarshal := func(sh interface{}) interface{} { return mb(sh.(*c11GroupShared).g.Generator()) }
		scs = append(scs,
			sched.Scenario{Cost: 10, Name: "group/" + name + "/Marshal||Add||IsEqual", Setup: fresh, Threads: []func(interface{}) interface{}{marshal, add, isEq}},
			sched.Scenario{Cost: 10, Name: "group/" + name + "/MarshalCompress||Mul", Setup: fresh, Threads: []func(interface{}) interface{}{marshalC, mul}},
			sched.Scenario{Cost: 10, Name: "group/" + name + "/Generator.Marshal||Generator+Generator", Setup: fresh, Threads: []func(interface{}) interface{}{genMarshal, gen}})
	}
	return scs
}

func TestVerifC11_sched_group(t *testing.T) {
	if os.Getenv("VERIF_CONFIG") != "sched" {
		t.Skip("runs only under the instrumented configuration")
	}
	r := verifmc.Start(t, "C11", "sched_group")
	defer r.Finish()
	r.Rule("every schedule up to the completed preemption bound of 2-3 threads reading one shared element; non-trivial = distinct scenario")
	sched.RunScenarios(r, c11GroupScenarios(), 2)
}

func TestVerifC11_race_group(t *testing.T) {
	if os.Getenv("VERIF_CONFIG") != "race" {
		t.Skip("runs only under -race")
	}
	r := verifmc.Start(t, "C11", "race_group")
	defer r.Finish()
	r.Rule("same scenario bodies on free-running goroutines under the race detector")
	sched.FreeRun(r, c11GroupScenarios(), r.Pick(30, 200))
}
