//go:build verif

package circl_test

// C06, callers: for every peer value u of the core alphabets for which
// x25519.Shared / x448.Shared return a false flag, the TLS-hybrid KEMs
// (kem/hybrid) and the HPKE KEMs built on them return an error from
// Decapsulate and from EncapsulateDeterministically to that public key (and the
// HPKE Sender/Receiver Setup fail), while X-Wing returns a secret and no error
// (the secret its specification prescribes). Public API only.

import (
	"bytes"
	"crypto/sha256"
	"crypto/sha512"
	"fmt"
	"io"
	"sync"
	"testing"

	"github.com/cloudflare/circl/dh/x25519"
	"github.com/cloudflare/circl/dh/x448"
	"github.com/cloudflare/circl/hpke"
	"github.com/cloudflare/circl/internal/verifc06"
	"github.com/cloudflare/circl/internal/verifmc"
	"github.com/cloudflare/circl/internal/verifref/xladder"
	"github.com/cloudflare/circl/kem"
	"github.com/cloudflare/circl/kem/hybrid"
	"github.com/cloudflare/circl/kem/mlkem/mlkem768"
	"github.com/cloudflare/circl/kem/xwing"
	"golang.org/x/crypto/hkdf"
	"golang.org/x/crypto/sha3"
)

func c06LibShared(n int, k, u []byte) ([]byte, bool) {
	if n == 32 {
		var s, sk, pk x25519.Key
		copy(sk[:], k)
		copy(pk[:], u)
		ok := x25519.Shared(&s, &sk, &pk)
		return s[:], ok
	}
	var s, sk, pk x448.Key
	copy(sk[:], k)
	copy(pk[:], u)
	ok := x448.Shared(&s, &sk, &pk)
	return s[:], ok
}

func c06Params(n int) *verifc06.Params {
	if n == 32 {
		return verifc06.P25519
	}
	return verifc06.P448
}

// c06Op is one caller operation on one peer value.
type c06Op struct {
	entry string // stable name of the entry point
	// run executes the real operation with u spliced in; it returns the error and,
	// when the X part of the produced secret is visible, that part.
	run func(u []byte) (xpart []byte, err error)
	skx []byte // X private scalar used by the operation ("" when derived inside)
	// derive, when set, maps the RFC 7748 value (and u) to the secret the
	// operation must return (run then returns the whole secret as xpart).
	derive func(dh, u []byte) []byte
}

type c06Res struct {
	flag     bool
	lib      []byte
	err      error
	xpart    []byte
	ref      []byte
	panicked string
}

func c06Splice(base []byte, off int, u []byte) []byte {
	c := append([]byte{}, base...)
	copy(c[off:], u)
	return c
}

// c06Targets caches the prime-order output targets per curve (see verifc06/construct.go).
var (
	c06TargetsMu sync.Mutex
	c06TargetsBy = map[int][]verifc06.Target{}
)

var (
	c06ConsMu sync.Mutex
	c06ConsBy = map[string][]verifc06.Constructed{}
	c06RefMu  sync.Mutex
	c06RefBy  = map[string][]byte{}
)

// c06Ref memoises the reference within the process (several operations share a scalar).
func c06Ref(pp *verifc06.Params, k, u []byte) []byte {
	key := string(k) + string(u)
	c06RefMu.Lock()
	v, ok := c06RefBy[key]
	c06RefMu.Unlock()
	if ok {
		return v
	}
	v = pp.C.X(k, u)
	c06RefMu.Lock()
	c06RefBy[key] = v
	c06RefMu.Unlock()
	return v
}

func c06Targets(n int, thorough bool) []verifc06.Target {
	c06TargetsMu.Lock()
	defer c06TargetsMu.Unlock()
	if t, ok := c06TargetsBy[n]; ok {
		return t
	}
	t := c06Params(n).Targets(thorough)
	c06TargetsBy[n] = t
	return t
}

// c06PeersFor: the core peers, plus - when the operation's X scalar is known -
// peers constructed so that X(skx, u) is a prescribed small output (one that has
// a non-canonical alias v+p) or an output just below p.
func c06PeersFor(r *verifmc.Run, n int, skx []byte) (peers []verifc06.Named, constructed map[string][]byte) {
	pp := c06Params(n)
	peers = pp.PeersCore(r.Seed())
	constructed = map[string][]byte{}
	if skx != nil {
		c06ConsMu.Lock()
		cs, ok := c06ConsBy[string(skx)]
		if !ok {
			// narrow targets only (wide ones are driven through Shared directly)
			cs = pp.ConstructedPeers([]verifc06.Named{{Name: "sk", B: skx}}, c06Targets(n, r.Thorough()), 0)
			c06ConsBy[string(skx)] = cs
		}
		c06ConsMu.Unlock()
		for _, c := range cs {
			peers = append(peers, c.U)
			constructed[c.U.Name] = c.Want
		}
	}
	return peers, constructed
}

// c06RunOps enumerates ops x peers and judges "false flag => error" and, where
// the secret is visible, "secret = (function of) the RFC 7748 value".
func c06RunOps(r *verifmc.Run, n int, ops []c06Op) {
	pp := c06Params(n)
	probe := verifmc.Shake("c06-callers-probe-scalar", n)
	type ccase struct {
		op   *c06Op
		u    verifc06.Named
		cons []byte // prescribed output for constructed peers
	}
	var cases []ccase
	for i := range ops {
		peers, cons := c06PeersFor(r, n, ops[i].skx)
		for _, u := range peers {
			cases = append(cases, ccase{&ops[i], u, cons[u.Name]})
		}
	}
	res := make([]c06Res, len(cases))
	verifmc.ParallelFor(len(res), func(j int) {
		op, u := cases[j].op, cases[j].u
		id := "callers/" + op.entry + "/u=" + u.Name
		if !r.Want(id) {
			return
		}
		x := &res[j]
		k := op.skx
		if k == nil {
			k = probe
		}
		x.lib, x.flag = c06LibShared(n, k, u.B)
		pan, what := verifmc.Try(func() { x.xpart, x.err = op.run(append([]byte{}, u.B...)) })
		if pan {
			x.panicked = what
		}
		if x.lib == nil {
			x.lib = []byte{}
		}
		if op.skx != nil {
			x.ref = c06Ref(pp, op.skx, u.B)
		}
	})
	for j := range res {
		x := &res[j]
		if x.lib == nil {
			continue
		}
		op, u := cases[j].op, cases[j].u
		id := "callers/" + op.entry + "/u=" + u.Name
		cl := pp.ClassifyU(u.B).String()
		if x.ref != nil && !xladder.IsZero(x.ref) && pp.InWindow(x.ref) {
			cl += ",out=has-noncanonical-alias"
		}
		rp := map[string]string{"u": verifmc.FullHex(u.B), "entry": op.entry}
		r.Eval(1)
		r.Distinct(op.entry, u.B)
		if cases[j].cons != nil {
			r.Count("constructed_cases", 1)
			if !bytes.Equal(cases[j].cons, x.ref) {
				r.Vacuous("constructed peer " + id + " does not give the prescribed output under the reference")
			}
		}
		if x.panicked != "" {
			r.Violation("C06|"+op.entry+"|panic-"+verifmc.PanicClass(x.panicked)+"|u="+cl, id, "panic: "+x.panicked, rp)
			continue
		}
		if !x.flag {
			r.Count("flagged_cases", 1)
			if x.err == nil {
				r.Violation("C06|"+op.entry+"|false-flag-not-turned-into-error|u="+cl, id,
					fmt.Sprintf("Shared flags u=%x (false) but %s returned no error", u.B, op.entry), rp)
			} else {
				r.Outcome("flag=false,err=" + x.err.Error())
			}
			continue
		}
		r.Count("unflagged_cases", 1)
		if x.err != nil {
			// not demanded by C06 (C01 owns round trips); kept visible
			r.Count("unflagged_but_error", 1)
			r.Outcome("flag=true,err=" + x.err.Error())
			continue
		}
		r.Outcome("flag=true,err=nil")
		if x.xpart != nil && x.ref != nil {
			want := x.ref
			what := "X part of the secret"
			if op.derive != nil {
				want = op.derive(x.ref, u.B)
				what = "secret"
			}
			r.Count("secret_compared_with_reference", 1)
			if !xladder.IsZero(x.ref) && pp.InWindow(x.ref) {
				r.Count("secret_compared_output_has_noncanonical_alias", 1)
			}
			if !bytes.Equal(x.xpart, want) {
				r.Violation("C06|"+op.entry+"|secret-differs-from-rfc7748|u="+cl, id,
					fmt.Sprintf("%s: %s %x, with the RFC 7748 value %x it must be %x", op.entry, what, x.xpart, x.ref, want), rp)
			}
		}
		if j%(len(res)/4+1) == 0 {
			r.Sample(map[string]interface{}{"case": id, "u": verifmc.FullHex(u.B), "err": fmt.Sprint(x.err)})
		}
	}
}

// c06DHKEMSecret is RFC 9180 section 4.1 ExtractAndExpand(dh, kem_context) for
// DHKEM(X25519, HKDF-SHA256) (id 0x0020) / DHKEM(X448, HKDF-SHA512) (id 0x0021).
func c06DHKEMSecret(n int, dh, kemContext []byte) []byte {
	h, id, nsecret := sha256.New, uint16(0x0020), 32
	if n == 56 {
		h, id, nsecret = sha512.New, uint16(0x0021), 64
	}
	suite := []byte{'K', 'E', 'M', byte(id >> 8), byte(id)}
	cat := func(p ...[]byte) []byte {
		var o []byte
		for _, x := range p {
			o = append(o, x...)
		}
		return o
	}
	prk := hkdf.Extract(h, cat([]byte("HPKE-v1"), suite, []byte("eae_prk"), dh), nil)
	info := cat([]byte{byte(nsecret >> 8), byte(nsecret)}, []byte("HPKE-v1"), suite, []byte("shared_secret"), kemContext)
	out := make([]byte, nsecret)
	if _, err := io.ReadFull(hkdf.Expand(h, prk, info), out); err != nil {
		panic(err)
	}
	return out
}

type c06HybridSpec struct {
	sch    kem.Scheme
	n      int
	xFirst bool
	other  kem.Scheme
}

func c06HybridSpecs() []c06HybridSpec {
	m768 := mlkem768.Scheme()
	return []c06HybridSpec{
		{hybrid.Kyber512X25519(), 32, true, nil},
		{hybrid.Kyber768X25519(), 32, true, nil},
		{hybrid.X25519MLKEM768(), 32, false, m768},
		{hybrid.Kyber768X448(), 56, true, nil},
		{hybrid.Kyber1024X448(), 56, true, nil},
	}
}

func TestVerifC06_callers_hybrid(t *testing.T) {
	t.Parallel()
	r := verifmc.Start(t, "C06", "callers_hybrid")
	defer r.Finish()
	for _, n := range []int{32, 56} {
		var ops []c06Op
		for _, hs := range c06HybridSpecs() {
			if hs.n != n {
				continue
			}
			sch := hs.sch
			pk, sk := sch.DeriveKeyPair(verifmc.Shake("c06-hybrid-key-"+sch.Name(), sch.SeedSize()))
			pkb, _ := pk.MarshalBinary()
			skb, _ := sk.MarshalBinary()
			eseed := verifmc.Shake("c06-hybrid-eseed-"+sch.Name(), sch.EncapsulationSeedSize())
			ct0, ss0, err := sch.EncapsulateDeterministically(pk, eseed)
			if err != nil {
				t.Fatalf("%s: honest encapsulation failed: %v", sch.Name(), err)
			}
			if ss1, err := sch.Decapsulate(sk, ct0); err != nil || !bytes.Equal(ss0, ss1) {
				t.Fatalf("%s: honest round trip failed: %v", sch.Name(), err)
			}
			pkOff, skOff, ctOff, ssOff := 0, 0, 0, 0
			if !hs.xFirst {
				pkOff, skOff = hs.other.PublicKeySize(), hs.other.PrivateKeySize()
				ctOff, ssOff = hs.other.CiphertextSize(), hs.other.SharedKeySize()
			}
			skx := append([]byte{}, skb[skOff:skOff+n]...)
			ops = append(ops, c06Op{
				entry: "kem/hybrid." + sch.Name() + ".Decapsulate", skx: skx,
				run: func(u []byte) ([]byte, error) {
					ss, err := sch.Decapsulate(sk, c06Splice(ct0, ctOff, u))
					if err != nil {
						return nil, err
					}
					return ss[ssOff : ssOff+n], nil
				},
			}, c06Op{
				entry: "kem/hybrid." + sch.Name() + ".EncapsulateDeterministically",
				run: func(u []byte) ([]byte, error) {
					pk2, err := sch.UnmarshalBinaryPublicKey(c06Splice(pkb, pkOff, u))
					if err != nil {
						return nil, err
					}
					_, _, err = sch.EncapsulateDeterministically(pk2, eseed)
					return nil, err
				},
			})
		}
		c06RunOps(r, n, ops)
	}
	r.Rule("distinct (entry point, peer bytes): every u of the core peer alphabet spliced into the X part of an honest hybrid ciphertext (Decapsulate) and of an honest hybrid public key (EncapsulateDeterministically), 5 schemes; non-trivial = the real operation runs once; oracle: flag false (from the real Shared) => error; flag true and no error => X part of the secret equals RFC 7748")
	r.RequireCounter("flagged_cases", 100)
	r.RequireCounter("unflagged_cases", 500)
	r.RequireCounter("secret_compared_with_reference", 300)
	r.RequireCounter("secret_compared_output_has_noncanonical_alias", 50)
}

func TestVerifC06_callers_hpke(t *testing.T) {
	t.Parallel()
	r := verifmc.Start(t, "C06", "callers_hpke")
	defer r.Finish()
	info := []byte("c06 info")
	for _, x := range []struct {
		id hpke.KEM
		n  int
	}{{hpke.KEM_X25519_HKDF_SHA256, 32}, {hpke.KEM_X448_HKDF_SHA512, 56}} {
		n := x.n
		kemID := x.id
		sch, isAuth := kemID.Scheme().(kem.AuthScheme)
		if !isAuth {
			t.Fatalf("harness: HPKE DHKEM does not implement kem.AuthScheme")
		}
		name := sch.Name()
		suite := hpke.NewSuite(kemID, hpke.KDF_HKDF_SHA256, hpke.AEAD_AES128GCM)
		pkR, skR := sch.DeriveKeyPair(verifmc.Shake("c06-hpke-keyR-"+name, sch.SeedSize()))
		pkS, skS := sch.DeriveKeyPair(verifmc.Shake("c06-hpke-keyS-"+name, sch.SeedSize()))
		skRb, _ := skR.MarshalBinary()
		pkRb, _ := pkR.MarshalBinary()
		skSb, _ := skS.MarshalBinary()
		eseed := verifmc.Shake("c06-hpke-eseed-"+name, sch.EncapsulationSeedSize())
		enc0, ss0, err := sch.EncapsulateDeterministically(pkR, eseed)
		if err != nil {
			t.Fatalf("%s: honest encapsulation failed: %v", name, err)
		}
		if ss1, err := sch.Decapsulate(skR, enc0); err != nil || !bytes.Equal(ss0, ss1) {
			t.Fatalf("%s: honest round trip failed: %v", name, err)
		}
		encA, ssA, err := sch.AuthEncapsulateDeterministically(pkR, skS, eseed)
		if err != nil {
			t.Fatalf("%s: honest auth encapsulation failed: %v", name, err)
		}
		if ss1, err := sch.AuthDecapsulate(skR, encA, pkS); err != nil || !bytes.Equal(ssA, ss1) {
			t.Fatalf("%s: honest auth round trip failed: %v", name, err)
		}
		asPK := func(u []byte) (kem.PublicKey, error) { return sch.UnmarshalBinaryPublicKey(u) }
		ops := []c06Op{
			{entry: "hpke." + name + ".Decapsulate", skx: skRb, run: func(u []byte) ([]byte, error) {
				return sch.Decapsulate(skR, u)
			}, derive: func(dh, u []byte) []byte {
				return c06DHKEMSecret(n, dh, append(append([]byte{}, u...), pkRb...))
			}},
			{entry: "hpke." + name + ".EncapsulateDeterministically", run: func(u []byte) ([]byte, error) {
				pk, err := asPK(u)
				if err != nil {
					return nil, err
				}
				_, _, err = sch.EncapsulateDeterministically(pk, eseed)
				return nil, err
			}},
			{entry: "hpke." + name + ".AuthDecapsulate(enc=u)", skx: skRb, run: func(u []byte) ([]byte, error) {
				_, err := sch.AuthDecapsulate(skR, u, pkS)
				return nil, err
			}},
			{entry: "hpke." + name + ".AuthDecapsulate(pkS=u)", skx: skRb, run: func(u []byte) ([]byte, error) {
				pk, err := asPK(u)
				if err != nil {
					return nil, err
				}
				_, err = sch.AuthDecapsulate(skR, encA, pk)
				return nil, err
			}},
			{entry: "hpke." + name + ".AuthEncapsulateDeterministically(pkR=u)", skx: skSb, run: func(u []byte) ([]byte, error) {
				pk, err := asPK(u)
				if err != nil {
					return nil, err
				}
				_, _, err = sch.AuthEncapsulateDeterministically(pk, skS, eseed)
				return nil, err
			}},
			{entry: "hpke." + name + ".Sender.Setup(pkR=u)", run: func(u []byte) ([]byte, error) {
				pk, err := asPK(u)
				if err != nil {
					return nil, err
				}
				snd, err := suite.NewSender(pk, info)
				if err != nil {
					return nil, err
				}
				_, _, err = snd.Setup(verifmc.NewDetReader("c06-hpke-rnd"))
				return nil, err
			}},
			{entry: "hpke." + name + ".Receiver.Setup(enc=u)", skx: skRb, run: func(u []byte) ([]byte, error) {
				rcv, err := suite.NewReceiver(skR, info)
				if err != nil {
					return nil, err
				}
				_, err = rcv.Setup(u)
				return nil, err
			}},
			{entry: "hpke." + name + ".Receiver.SetupAuth(pkS=u)", skx: skRb, run: func(u []byte) ([]byte, error) {
				pk, err := asPK(u)
				if err != nil {
					return nil, err
				}
				rcv, err := suite.NewReceiver(skR, info)
				if err != nil {
					return nil, err
				}
				_, err = rcv.SetupAuth(encA, pk)
				return nil, err
			}},
		}
		if n == 32 {
			// the X25519+Kyber768 hybrid of HPKE: X25519 part first
			hk := hpke.KEM_X25519_KYBER768_DRAFT00.Scheme()
			hname := hk.Name()
			hpk, hsk := hk.DeriveKeyPair(verifmc.Shake("c06-hpke-hybrid-key", hk.SeedSize()))
			hpkb, _ := hpk.MarshalBinary()
			hskb, _ := hsk.MarshalBinary()
			hseed := verifmc.Shake("c06-hpke-hybrid-eseed", hk.EncapsulationSeedSize())
			hct, hss, err := hk.EncapsulateDeterministically(hpk, hseed)
			if err != nil {
				t.Fatalf("%s: honest encapsulation failed: %v", hname, err)
			}
			if ss1, err := hk.Decapsulate(hsk, hct); err != nil || !bytes.Equal(hss, ss1) {
				t.Fatalf("%s: honest round trip failed: %v", hname, err)
			}
			ops = append(ops, c06Op{entry: "hpke." + hname + ".Decapsulate", skx: append([]byte{}, hskb[:32]...), run: func(u []byte) ([]byte, error) {
				_, err := hk.Decapsulate(hsk, c06Splice(hct, 0, u))
				return nil, err
			}}, c06Op{entry: "hpke." + hname + ".EncapsulateDeterministically", run: func(u []byte) ([]byte, error) {
				pk, err := hk.UnmarshalBinaryPublicKey(c06Splice(hpkb, 0, u))
				if err != nil {
					return nil, err
				}
				_, _, err = hk.EncapsulateDeterministically(pk, hseed)
				return nil, err
			}})
		}
		c06RunOps(r, n, ops)
	}
	r.Rule("distinct (entry point, peer bytes): every u of the core peer alphabet as encapsulated key / receiver public key / sender public key of DHKEM(X25519), DHKEM(X448) (KEM API, auth variants, Sender/Receiver Setup) and of the X25519+Kyber768 HPKE hybrid; oracle: flag false (from the real Shared) => error")
	r.RequireCounter("flagged_cases", 150)
	r.RequireCounter("unflagged_cases", 1000)
	r.RequireCounter("secret_compared_with_reference", 150)
	r.RequireCounter("secret_compared_output_has_noncanonical_alias", 20)
}

// c06XWingCombiner is SHA3-256(ss_M || ss_X || ct_X || pk_X || XWingLabel) of
// draft-connolly-cfrg-xwing-kem-05.
func c06XWingCombiner(ssm, ssx, ctx, pkx []byte) []byte {
	h := sha3.New256()
	h.Write(ssm)
	h.Write(ssx)
	h.Write(ctx)
	h.Write(pkx)
	h.Write([]byte{0x5c, 0x2e, 0x2f, 0x2f, 0x5e, 0x5c})
	return h.Sum(nil)
}

func TestVerifC06_callers_xwing(t *testing.T) {
	t.Parallel()
	r := verifmc.Start(t, "C06", "callers_xwing")
	defer r.Finish()
	c := xladder.X25519
	pp := verifc06.P25519
	seed := verifmc.Shake("c06-xwing-key", xwing.SeedSize)
	skP, pkP := xwing.DeriveKeyPairPacked(seed)
	// expanded secret per the specification: SHAKE256(seed, 96) = ML-KEM seed (64) || X25519 scalar (32)
	exp := make([]byte, 96)
	sh := sha3.NewShake256()
	sh.Write(seed)
	sh.Read(exp)
	skx := exp[64:]
	_, skm := mlkem768.NewKeyFromSeed(exp[:64])
	pkx := c.Base(skx)
	if !bytes.Equal(pkx, pkP[mlkem768.PublicKeySize:]) {
		t.Fatalf("harness: X-Wing key expansion not as assumed")
	}
	eseed := verifmc.Shake("c06-xwing-eseed", xwing.EncapsulationSeedSize)
	ekx := eseed[32:]
	ss0, ct0, err := xwing.Encapsulate(pkP, eseed)
	if err != nil || !bytes.Equal(xwing.Decapsulate(ct0, skP), ss0) {
		t.Fatalf("harness: honest X-Wing round trip failed: %v", err)
	}
	ctm := ct0[:mlkem768.CiphertextSize]
	ssm := make([]byte, mlkem768.SharedKeySize)
	skm.DecapsulateTo(ssm, ctm)
	hsch := hpke.KEM_XWING.Scheme()
	gsch := xwing.Scheme()
	peers := pp.PeersCore(r.Seed())
	// peers constructed so that X25519(sk_X, u) resp. X25519(ek_X, u) is a small value (< 19: it
	// has the non-canonical alias v+p) or a value just below p
	for _, cc := range pp.ConstructedPeers([]verifc06.Named{{Name: "skx", B: skx}, {Name: "ekx", B: ekx}}, c06Targets(32, r.Thorough()), 2) {
		peers = append(peers, cc.U)
		if !bytes.Equal(c.X(skx, cc.U.B), cc.Want) && !bytes.Equal(c.X(ekx, cc.U.B), cc.Want) {
			t.Fatalf("harness: constructed peer %s does not give the prescribed output", cc.U.Name)
		}
		r.Count("constructed_cases", 1)
		if pp.InWindow(cc.Want) {
			r.Count("constructed_output_has_noncanonical_alias", 1)
		}
	}
	type xr struct {
		ran                    bool
		flag                   bool
		ssE, ssE2, ssD, ssD2   []byte
		ctE                    []byte
		errE, errG, errH, errU error
		ssG, ssH               []byte
		pan                    string
	}
	res := make([]xr, len(peers))
	verifmc.ParallelFor(len(peers), func(i int) {
		u := peers[i].B
		if !r.Want("callers/xwing/u=" + peers[i].Name) {
			return
		}
		x := &res[i]
		x.ran = true
		_, x.flag = c06LibShared(32, skx, u)
		pan, what := verifmc.Try(func() {
			pk2 := c06Splice(pkP, mlkem768.PublicKeySize, u)
			ct2 := c06Splice(ct0, mlkem768.CiphertextSize, u)
			x.ssE, x.ctE, x.errE = xwing.Encapsulate(pk2, eseed)
			x.ssE2, _, _ = xwing.Encapsulate(pk2, eseed)
			x.ssD = xwing.Decapsulate(ct2, skP)
			x.ssD2 = xwing.Decapsulate(ct2, skP)
			gsk, err := gsch.UnmarshalBinaryPrivateKey(skP)
			if err != nil {
				x.errU = err
				return
			}
			x.ssG, x.errG = gsch.Decapsulate(gsk, ct2)
			hsk, err := hsch.UnmarshalBinaryPrivateKey(skP)
			if err != nil {
				x.errU = err
				return
			}
			x.ssH, x.errH = hsch.Decapsulate(hsk, ct2)
		})
		if pan {
			x.pan = what
		}
	})
	for i := range res {
		x := &res[i]
		if !x.ran {
			continue
		}
		u := peers[i].B
		id := "callers/xwing/u=" + peers[i].Name
		cl := pp.ClassifyU(u).String()
		rp := map[string]string{"u": verifmc.FullHex(u)}
		r.Eval(6)
		r.Distinct("xwing", u)
		if !x.flag {
			r.Count("flagged_cases", 1)
		} else {
			r.Count("unflagged_cases", 1)
		}
		if x.pan != "" {
			r.Violation("C06|xwing|panic-"+verifmc.PanicClass(x.pan)+"|u="+cl, id, "panic: "+x.pan, rp)
			continue
		}
		if x.errE != nil || x.errG != nil || x.errH != nil || x.errU != nil {
			r.Violation("C06|xwing|error-returned|u="+cl, id,
				fmt.Sprintf("X-Wing returned an error for u=%x: encapsulate %v, decapsulate %v / %v / %v", u, x.errE, x.errG, x.errH, x.errU), rp)
			continue
		}
		// decapsulation: ss = H(ss_M, X25519(sk_X, ct_X), ct_X, pk_X)
		wantD := c06XWingCombiner(ssm, c.X(skx, u), u, pkx)
		if !bytes.Equal(x.ssD, wantD) || !bytes.Equal(x.ssD2, wantD) || !bytes.Equal(x.ssG, wantD) || !bytes.Equal(x.ssH, wantD) {
			r.Violation("C06|xwing.Decapsulate|secret-differs-from-specification|u="+cl, id,
				fmt.Sprintf("X-Wing Decapsulate with ct_X=%x gives %x / %x / %x / %x, specification (RFC 7748 inside) gives %x", u, x.ssD, x.ssD2, x.ssG, x.ssH, wantD), rp)
		}
		// encapsulation to pk_X = u: ss = H(ss_M', X25519(ek_X, u), X25519(ek_X, 9), u); ss_M' is
		// not recomputed here, so the check is determinism plus the ciphertext's X part.
		if !bytes.Equal(x.ssE, x.ssE2) || len(x.ssE) != xwing.SharedKeySize {
			r.Violation("C06|xwing.Encapsulate|secret-not-deterministic|u="+cl, id, "two encapsulations with the same seed differ", rp)
		}
		if !bytes.Equal(x.ctE[mlkem768.CiphertextSize:], c.Base(ekx)) {
			r.Violation("C06|xwing.Encapsulate|ct_X-differs-from-rfc7748|u="+cl, id, "X part of the ciphertext is not X25519(ek_X, 9)", rp)
		}
		// round trip through the real decapsulation is impossible (u is not the receiver's key);
		// the encapsulated secret is compared with the combiner instead
		ssmE := make([]byte, mlkem768.SharedKeySize)
		skm.DecapsulateTo(ssmE, x.ctE[:mlkem768.CiphertextSize])
		wantE := c06XWingCombiner(ssmE, c.X(ekx, u), c.Base(ekx), u)
		if !bytes.Equal(x.ssE, wantE) {
			r.Violation("C06|xwing.Encapsulate|secret-differs-from-specification|u="+cl, id,
				fmt.Sprintf("X-Wing Encapsulate to pk_X=%x gives %x, specification (RFC 7748 inside) gives %x", u, x.ssE, wantE), rp)
		}
		r.Outcome(fmt.Sprintf("flag=%v,err=nil", x.flag))
		if i%(len(res)/3+1) == 0 {
			r.Sample(map[string]interface{}{"case": id, "u": verifmc.FullHex(u), "flag": x.flag, "secret": verifmc.FullHex(x.ssD)})
		}
	}
	r.Rule("every u of the X25519 core peer alphabet spliced into an honest X-Wing ciphertext (Decapsulate: package function, kem.Scheme, HPKE KEM_XWING) and public key (Encapsulate); oracle: never an error, secret = SHA3-256(ss_M || RFC7748 X25519 || ct_X || pk_X || label) with ss_M taken from circl's ML-KEM-768")
	r.RequireCounter("flagged_cases", 10)
	r.RequireCounter("unflagged_cases", 50)
	r.RequireCounter("constructed_output_has_noncanonical_alias", 4)
}
