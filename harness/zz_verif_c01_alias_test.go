//go:build verif

package circl_test

// C01, direct unit, overlapping argument buffers. None of the package-level functions with
// caller-provided output buffers documents a no-overlap requirement (their doc comments only ask
// for the right lengths), so an output buffer may share memory with an input:
//
//   DecapsulateTo(ss, ct)        ss placed over ct: straddling its start, at its start, in the middle,
//                                at its end, straddling its end (in-place decapsulation)
//   EncapsulateTo(ct, ss, seed)  ct placed over seed (seed at the start / middle / end of ct, straddling
//                                the start), ss placed over seed (4 placements)
//   Pack(buf)                    buf is, or overlaps (shifted down / up by 32 bytes), the buffer the key was
//                                just unpacked from
//   pke/kyber EncryptTo(ct, pt, seed) / DecryptTo(pt, ct): ct over pt, ct over seed, pt over ct
//
// Oracle: the bytes obtained with disjoint buffers for the ORIGINAL argument bytes (which the roundtrip
// unit compares with the specification model). Overlap of two *outputs* (ct with ss) has no meaningful
// answer and is not enumerated.

import (
	"bytes"
	"fmt"
	"strings"

	"github.com/cloudflare/circl/internal/verifmc"
	pke1024 "github.com/cloudflare/circl/pke/kyber/kyber1024"
	pke512 "github.com/cloudflare/circl/pke/kyber/kyber512"
	pke768 "github.com/cloudflare/circl/pke/kyber/kyber768"
)

// c01Place is one placement of a small buffer (length small) relative to a big one (length big):
// both are slices of one backing array of length big+2*small in which the big buffer starts at offset small.
type c01Place struct {
	name string
	off  int // offset of the small buffer in the backing array
}

func c01Placements(big, small int) []c01Place {
	p := []c01Place{
		{"straddles-start", small - small/2},
		{"start", small},
		{"end", small + big - small},
		{"straddles-end", small + big - small/2},
	}
	if big >= 3*small {
		p = append(p, c01Place{"middle", small + (big-small)/2})
	}
	return p
}

type c01AliasCtx struct {
	r     *verifmc.Run
	rep   c01Reporter
	kcase string
}

func (a c01AliasCtx) report(api, pattern string, payload map[string]interface{}, format string, args ...interface{}) {
	a.rep.viol("aliased-buffers", api+"/"+pattern, a.kcase+"/alias:"+api+"/"+pattern, payload, "%s with %s: %s", api, pattern, fmt.Sprintf(format, args...))
}

func (a c01AliasCtx) want(api, pattern string) bool {
	return !a.r.Replaying() || a.r.ReplayCase() == a.kcase+"/alias:"+api+"/"+pattern || a.r.ReplayCase() == a.kcase
}

// c01AliasKEM runs the overlapping-buffer patterns of one key object on one honest (seed, ct, ss).
func c01AliasKEM(a c01AliasCtx, origin string, p c01EncTo, s c01DecTo, eseed, ct, ss []byte) {
	n, sl, el := len(ct), len(ss), len(eseed)
	pl := map[string]interface{}{"object": origin, "enc_seed": verifmc.FullHex(eseed)}
	// ---- DecapsulateTo: ss over ct
	for _, x := range c01Placements(n, sl) {
		pat := "ss-over-ct:" + x.name
		if !a.want("DecapsulateTo", pat) {
			continue
		}
		back := bytes.Repeat([]byte{0xc3}, n+2*sl)
		copy(back[sl:sl+n], ct)
		out := back[x.off : x.off+sl]
		pn, what := verifmc.Try(func() { s.DecapsulateTo(out, back[sl:sl+n]) })
		a.r.Eval(1)
		a.r.Distinct(a.kcase, origin, "DecapsulateTo", pat)
		a.r.Count("overlap_patterns_run", 1)
		if pn || !bytes.Equal(out, ss) {
			a.report("DecapsulateTo", pat, pl, "%s key returns %x for the honest ciphertext, with disjoint buffers %x (ss = backing[%d:%d], ct = backing[%d:%d]) %s",
				origin, out, ss, x.off, x.off+sl, sl, sl+n, what)
		}
	}
	// ---- EncapsulateTo: ct over seed
	for _, x := range c01Placements(n, el) {
		if x.name == "straddles-end" {
			continue // symmetric to straddles-start for an output over an input
		}
		pat := "ct-over-seed:" + x.name
		if !a.want("EncapsulateTo", pat) {
			continue
		}
		back := bytes.Repeat([]byte{0xc3}, n+2*el)
		sd := back[x.off : x.off+el]
		copy(sd, eseed)
		c := back[el : el+n]
		o := bytes.Repeat([]byte{0x3c}, sl)
		pn, what := verifmc.Try(func() { p.EncapsulateTo(c, o, sd) })
		a.r.Eval(1)
		a.r.Distinct(a.kcase, origin, "EncapsulateTo", pat)
		a.r.Count("overlap_patterns_run", 1)
		if pn || !bytes.Equal(c, ct) || !bytes.Equal(o, ss) {
			a.report("EncapsulateTo", pat, pl, "%s key: ct equal to the disjoint-buffer result: %v, ss equal: %v (seed = backing[%d:%d], ct = backing[%d:%d]) %s",
				origin, bytes.Equal(c, ct), bytes.Equal(o, ss), x.off, x.off+el, el, el+n, what)
		}
	}
	// ---- EncapsulateTo: ss over seed
	for _, x := range c01Placements(el, sl) {
		if x.off < 0 || (x.name == "end" && el < sl) {
			continue
		}
		pat := "ss-over-seed:" + x.name
		if !a.want("EncapsulateTo", pat) {
			continue
		}
		back := bytes.Repeat([]byte{0xc3}, el+2*sl)
		sd := back[sl : sl+el]
		copy(sd, eseed)
		o := back[x.off : x.off+sl]
		c := bytes.Repeat([]byte{0x3c}, n)
		pn, what := verifmc.Try(func() { p.EncapsulateTo(c, o, sd) })
		a.r.Eval(1)
		a.r.Distinct(a.kcase, origin, "EncapsulateTo", pat)
		a.r.Count("overlap_patterns_run", 1)
		if pn || !bytes.Equal(c, ct) || !bytes.Equal(o, ss) {
			a.report("EncapsulateTo", pat, pl, "%s key: ct equal to the disjoint-buffer result: %v, ss equal: %v (seed = backing[%d:%d], ss = backing[%d:%d]) %s",
				origin, bytes.Equal(c, ct), bytes.Equal(o, ss), sl, sl+el, x.off, x.off+sl, what)
		}
	}
}

// c01AliasPack: Pack into the buffer (or a shifted, overlapping window of the buffer) the key was unpacked from.
func c01AliasPack(a c01AliasCtx, d c01Direct, pkb, skb []byte) {
	const sh = 32
	for _, x := range []struct {
		name string
		off  int
	}{{"same-buffer", sh}, {"shifted-down", 0}, {"shifted-up", 2 * sh}} {
		pat := "pack-over-unpack-source:" + x.name
		if !a.want("Pack", pat) {
			continue
		}
		bp := bytes.Repeat([]byte{0xc3}, len(pkb)+2*sh)
		bs := bytes.Repeat([]byte{0xc3}, len(skb)+2*sh)
		copy(bp[sh:], pkb)
		copy(bs[sh:], skb)
		var p c01EncTo
		var s c01DecTo
		op, os := bp[x.off:x.off+len(pkb)], bs[x.off:x.off+len(skb)]
		pn, what := verifmc.Try(func() {
			p, s = d.unpack(bp[sh:sh+len(pkb)], bs[sh:sh+len(skb)])
			p.Pack(op)
			s.Pack(os)
		})
		a.r.Eval(2)
		a.r.Distinct(a.kcase, "Pack", pat)
		a.r.Count("overlap_patterns_run", 1)
		if pn || !bytes.Equal(op, pkb) || !bytes.Equal(os, skb) {
			a.report("Pack", pat, nil, "packing the key just unpacked from backing[%d:] into backing[%d:] gives other bytes than the original encoding (pk equal: %v, sk equal: %v) %s",
				sh, x.off, bytes.Equal(op, pkb), bytes.Equal(os, skb), what)
		}
	}
}

// ---- pke/kyber

type c01PKE struct {
	name               string
	seedN, ptN, ctN, e int
	newKey             func(seed []byte) (enc func(ct, pt, seed []byte), dec func(pt, ct []byte))
}

func c01PKEs() []c01PKE {
	return []c01PKE{
		{"pke/kyber512", pke512.KeySeedSize, pke512.PlaintextSize, pke512.CiphertextSize, pke512.EncryptionSeedSize,
			func(s []byte) (func(ct, pt, seed []byte), func(pt, ct []byte)) {
				p, k := pke512.NewKeyFromSeed(s)
				return p.EncryptTo, k.DecryptTo
			}},
		{"pke/kyber768", pke768.KeySeedSize, pke768.PlaintextSize, pke768.CiphertextSize, pke768.EncryptionSeedSize,
			func(s []byte) (func(ct, pt, seed []byte), func(pt, ct []byte)) {
				p, k := pke768.NewKeyFromSeed(s)
				return p.EncryptTo, k.DecryptTo
			}},
		{"pke/kyber1024", pke1024.KeySeedSize, pke1024.PlaintextSize, pke1024.CiphertextSize, pke1024.EncryptionSeedSize,
			func(s []byte) (func(ct, pt, seed []byte), func(pt, ct []byte)) {
				p, k := pke1024.NewKeyFromSeed(s)
				return p.EncryptTo, k.DecryptTo
			}},
	}
}

func c01AliasPKE(r *verifmc.Run, nk int) {
	for _, q := range c01PKEs() {
		for ki, kseed := range c01Take(verifmc.Seeds(q.seedN, r.Seed()), nk) {
			a := c01AliasCtx{r, c01Reporter{r, q.name + "(direct)"}, fmt.Sprintf("%s(direct)/k%d", q.name, ki)}
			if r.Replaying() && !strings.HasPrefix(r.ReplayCase(), a.kcase) {
				continue
			}
			var enc func(ct, pt, seed []byte)
			var dec func(pt, ct []byte)
			if pn, what := verifmc.Try(func() { enc, dec = q.newKey(c01Clone(kseed)) }); pn {
				a.rep.viol("panic", "constructor", a.kcase, nil, "NewKeyFromSeed panics: %s", what)
				continue
			}
			pt := verifmc.Shake(fmt.Sprintf("c01-pke-pt/%d", ki), q.ptN)
			es := verifmc.Seeds(q.e, r.Seed())[(ki+1)%3]
			ct := make([]byte, q.ctN)
			back := make([]byte, q.ptN)
			if pn, what := verifmc.Try(func() { enc(ct, c01Clone(pt), c01Clone(es)); dec(back, c01Clone(ct)) }); pn || !bytes.Equal(back, pt) {
				a.rep.viol("roundtrip", "pke", a.kcase, nil, "DecryptTo(EncryptTo(pt)) = %x, want %x %s", back, pt, what)
				continue
			}
			r.Eval(2)
			for _, in := range []struct {
				name string
				data []byte
			}{{"pt", pt}, {"seed", es}} {
				for _, x := range c01Placements(q.ctN, len(in.data)) {
					if x.name == "straddles-end" {
						continue
					}
					pat := "ct-over-" + in.name + ":" + x.name
					if !a.want("EncryptTo", pat) {
						continue
					}
					l := len(in.data)
					b := bytes.Repeat([]byte{0xc3}, q.ctN+2*l)
					small := b[x.off : x.off+l]
					copy(small, in.data)
					c := b[l : l+q.ctN]
					var pn bool
					var what string
					if in.name == "pt" {
						pn, what = verifmc.Try(func() { enc(c, small, c01Clone(es)) })
					} else {
						pn, what = verifmc.Try(func() { enc(c, c01Clone(pt), small) })
					}
					r.Eval(1)
					r.Distinct(a.kcase, "EncryptTo", pat)
					r.Count("overlap_patterns_run", 1)
					if pn || !bytes.Equal(c, ct) {
						a.report("EncryptTo", pat, nil, "ciphertext differs from the disjoint-buffer result (%s = backing[%d:%d], ct = backing[%d:%d]) %s", in.name, x.off, x.off+l, l, l+q.ctN, what)
					}
				}
			}
			for _, x := range c01Placements(q.ctN, q.ptN) {
				pat := "pt-over-ct:" + x.name
				if !a.want("DecryptTo", pat) {
					continue
				}
				b := bytes.Repeat([]byte{0xc3}, q.ctN+2*q.ptN)
				copy(b[q.ptN:], ct)
				out := b[x.off : x.off+q.ptN]
				pn, what := verifmc.Try(func() { dec(out, b[q.ptN:q.ptN+q.ctN]) })
				r.Eval(1)
				r.Distinct(a.kcase, "DecryptTo", pat)
				r.Count("overlap_patterns_run", 1)
				if pn || !bytes.Equal(out, pt) {
					a.report("DecryptTo", pat, nil, "plaintext %x, with disjoint buffers %x (pt = backing[%d:%d], ct = backing[%d:%d]) %s", out, pt, x.off, x.off+q.ptN, q.ptN, q.ptN+q.ctN, what)
				}
			}
		}
	}
}
