//go:build verif

package circl_test

import (
	"testing"

	"github.com/cloudflare/circl/hpke"
	kit "github.com/cloudflare/circl/internal/verifref/c10kit"
	"github.com/cloudflare/circl/kem"
	"github.com/cloudflare/circl/kem/schemes"
	"github.com/cloudflare/circl/kem/sike/sikep434"
	"github.com/cloudflare/circl/kem/sike/sikep503"
	"github.com/cloudflare/circl/kem/sike/sikep751"
)

type c10KemInfo struct {
	name   string
	s      kem.Scheme
	cost   int // decapsulation
	ucost  int // unmarshalling
	covers string
}

func c10KemList() []c10KemInfo {
	var l []c10KemInfo
	costs := map[string][2]int{ // name -> {decaps, unmarshal}
		"HPKE_KEM_P256_HKDF_SHA256": {kit.Medium, kit.Medium}, "HPKE_KEM_P384_HKDF_SHA384": {kit.Slow, kit.Medium},
		"HPKE_KEM_P521_HKDF_SHA512": {kit.Slow, kit.Medium}, "HPKE_KEM_X25519_HKDF_SHA256": {kit.Medium, kit.Cheap},
		"HPKE_KEM_X448_HKDF_SHA512": {kit.Medium, kit.Cheap}, "FrodoKEM-640-SHAKE": {kit.Slow, kit.Cheap},
	}
	for _, s := range schemes.All() {
		c, ok := costs[s.Name()]
		if !ok {
			c = [2]int{kit.Medium, kit.Medium}
		}
		l = append(l, c10KemInfo{name: s.Name(), s: s, cost: c[0], ucost: c[1]})
	}
	l = append(l,
		c10KemInfo{name: "hpke/" + hpke.KEM_X25519_KYBER768_DRAFT00.Scheme().Name(), s: hpke.KEM_X25519_KYBER768_DRAFT00.Scheme(), cost: kit.Medium, ucost: kit.Medium},
		c10KemInfo{name: "hpke/" + hpke.KEM_XWING.Scheme().Name(), s: hpke.KEM_XWING.Scheme(), cost: kit.Medium, ucost: kit.Medium},
		c10KemInfo{name: "SIKEp434", s: sikep434.Scheme(), cost: kit.VSlow, ucost: kit.Cheap},
		c10KemInfo{name: "SIKEp503", s: sikep503.Scheme(), cost: kit.VSlow, ucost: kit.Cheap},
		c10KemInfo{name: "SIKEp751", s: sikep751.Scheme(), cost: kit.VSlow, ucost: kit.Cheap},
	)
	return l
}

type c10KemKeys struct {
	pk        kem.PublicKey
	sk        kem.PrivateKey
	ppk, psk  []byte
	ct        []byte
	pk2       kem.PublicKey
	sk2       kem.PrivateKey
	ppk2      []byte
	psk2, ct2 []byte
}

func c10KemKeygen(s kem.Scheme) *c10KemKeys {
	k := &c10KemKeys{}
	k.pk, k.sk = s.DeriveKeyPair(c10Shake("kem-seed/"+s.Name(), s.SeedSize()))
	k.pk2, k.sk2 = s.DeriveKeyPair(c10Shake("kem-seed2/"+s.Name(), s.SeedSize()))
	var err error
	k.ppk, err = k.pk.MarshalBinary()
	c10Must(err)
	k.psk, err = k.sk.MarshalBinary()
	c10Must(err)
	k.ppk2, err = k.pk2.MarshalBinary()
	c10Must(err)
	k.psk2, err = k.sk2.MarshalBinary()
	c10Must(err)
	k.ct, _, err = s.EncapsulateDeterministically(k.pk, c10Shake("kem-eseed/"+s.Name(), s.EncapsulationSeedSize()))
	c10Must(err)
	k.ct2, _, err = s.EncapsulateDeterministically(k.pk, c10Shake("kem-eseed2/"+s.Name(), s.EncapsulationSeedSize()))
	c10Must(err)
	return k
}

// c10ForeignKem returns material of a different scheme (valid encodings of another format and
// keys of another dynamic type).
func c10ForeignKem(s kem.Scheme) (kem.Scheme, *c10KemKeys) {
	for _, o := range []kem.Scheme{hpke.KEM_X25519_HKDF_SHA256.Scheme(), hpke.KEM_P256_HKDF_SHA256.Scheme()} {
		if o.Name() != s.Name() {
			return o, c10KemKeygen(o)
		}
	}
	panic("unreachable")
}

func c10RowsKEM() []*kit.Row {
	var rows []*kit.Row
	for _, ki := range c10KemList() {
		ki := ki
		s := ki.s
		tid := c10TypeID(s)
		cov := func(m string) []string {
			c := []string{tid + "." + m}
			if len(tid) > 5 && tid[:5] == "hpke." && (m == "Decapsulate" || m == "AuthDecapsulate") && tid != "hpke.hybridKEM" {
				c = []string{"hpke.dhKemBase." + m}
			}
			if tid == "kem/hybrid.scheme" { // the classical half is an unexported scheme entered through the hybrid
				if ki.name == "P256Kyber768Draft00" {
					c = append(c, "kem/hybrid.cScheme."+m)
				} else {
					c = append(c, "kem/hybrid.xScheme."+m)
				}
			}
			if tid == "hpke.genericNoAuthKEM" { // thin wrapper: the methods are xwing's, promoted
				c = []string{"kem/xwing.scheme." + m}
			}
			return c
		}
		rows = append(rows, &kit.Row{Name: "kem[" + ki.name + "].UnmarshalBinaryPublicKey", Covers: cov("UnmarshalBinaryPublicKey"), Cost: ki.ucost,
			Setup: func() *kit.Inst {
				k := c10KemKeygen(s)
				_, fk := c10ForeignKem(s)
				return &kit.Inst{Bases: [][]byte{k.ppk, k.ppk2},
					Call:   func(in []byte) error { _, err := s.UnmarshalBinaryPublicKey(in); return err },
					Extras: []kit.Named{{"own-private-key", k.psk}, {"own-ciphertext", k.ct}, {"foreign-public-key", fk.ppk}}}
			}})
		rows = append(rows, &kit.Row{Name: "kem[" + ki.name + "].UnmarshalBinaryPrivateKey", Covers: cov("UnmarshalBinaryPrivateKey"), Cost: ki.ucost,
			Setup: func() *kit.Inst {
				k := c10KemKeygen(s)
				_, fk := c10ForeignKem(s)
				return &kit.Inst{Bases: [][]byte{k.psk, k.psk2},
					Call:   func(in []byte) error { _, err := s.UnmarshalBinaryPrivateKey(in); return err },
					Extras: []kit.Named{{"own-public-key", k.ppk}, {"own-ciphertext", k.ct}, {"foreign-private-key", fk.psk}}}
			}})
		rows = append(rows, &kit.Row{Name: "kem[" + ki.name + "].UnmarshalBinaryPrivateKey(+Decapsulate)", Cost: ki.cost,
			Covers: append(cov("UnmarshalBinaryPrivateKey"), cov("Decapsulate")...),
			Note:   "an accepted private key (bytes from storage) is used: Decapsulate of an honest ciphertext, Public(), MarshalBinary",
			Setup: func() *kit.Inst {
				k := c10KemKeygen(s)
				return &kit.Inst{Bases: [][]byte{k.psk},
					Call: func(in []byte) error {
						sk, err := s.UnmarshalBinaryPrivateKey(in)
						if err != nil {
							return err
						}
						_, _ = s.Decapsulate(sk, k.ct)
						if pk := sk.Public(); pk != nil {
							_, _ = pk.MarshalBinary()
						}
						_, _ = sk.MarshalBinary()
						return nil
					},
					Extras: []kit.Named{{"second-private-key", k.psk2}, {"own-public-key", k.ppk}}}
			}})
		rows = append(rows, &kit.Row{Name: "kem[" + ki.name + "].Decapsulate#ct", Covers: cov("Decapsulate"), Cost: ki.cost,
			Setup: func() *kit.Inst {
				k := c10KemKeygen(s)
				fs, fk := c10ForeignKem(s)
				_ = fs
				return &kit.Inst{Bases: [][]byte{k.ct, k.ct2},
					Call:   func(in []byte) error { _, err := s.Decapsulate(k.sk, in); return err },
					Extras: []kit.Named{{"own-public-key", k.ppk}, {"own-private-key", k.psk}, {"foreign-ciphertext", fk.ct}},
					Typed: []kit.Typed{
						{"sk-of-other-scheme", func() error { _, err := s.Decapsulate(fk.sk, k.ct); return err }},
						{"sk-of-other-scheme+foreign-ct", func() error { _, err := s.Decapsulate(fk.sk, fk.ct); return err }},
					}}
			}})
		// hpke.hybridKEM implements AuthDecapsulate as an unconditional panic("not supported"): not input
		// dependent, exempted in the completeness unit.
		if as, ok := s.(kem.AuthScheme); ok && tid != "hpke.hybridKEM" {
			rows = append(rows, &kit.Row{Name: "kem[" + ki.name + "].AuthDecapsulate#ct", Covers: cov("AuthDecapsulate"), Cost: ki.cost,
				Setup: func() *kit.Inst {
					k := c10KemKeygen(s)
					_, fk := c10ForeignKem(s)
					// sender = key pair 2, receiver = key pair 1
					ct, _, err := as.AuthEncapsulateDeterministically(k.pk, k.sk2, c10Shake("kem-aeseed/"+s.Name(), s.EncapsulationSeedSize()))
					c10Must(err)
					return &kit.Inst{Bases: [][]byte{ct},
						Call:   func(in []byte) error { _, err := as.AuthDecapsulate(k.sk, in, k.pk2); return err },
						Extras: []kit.Named{{"own-public-key", k.ppk}, {"base-mode-ciphertext", k.ct}, {"foreign-ciphertext", fk.ct}},
						Typed: []kit.Typed{
							{"skR-of-other-scheme", func() error { _, err := as.AuthDecapsulate(fk.sk, ct, k.pk2); return err }},
							{"pkS-of-other-scheme", func() error { _, err := as.AuthDecapsulate(k.sk, ct, fk.pk); return err }},
						}}
				}})
		}
	}
	return rows
}

func init() { c10Register("kem", c10RowsKEM) }

func TestVerifC10_kem(t *testing.T) { c10Run(t, "kem") }
