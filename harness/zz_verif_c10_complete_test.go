//go:build verif

package circl_test

// C10 completeness unit: a go/ast walk over the repository under test lists every exported
// function that looks like an untrusted-bytes entry point with a way to report failure; each must
// be entered by a registry row (Row.Covers) or be on the justified exemption list below. A miss
// makes the check vacuous (driver exit 2), as does a stale id (registry rot).

import (
	"encoding/json"
	"fmt"
	"go/ast"
	"go/parser"
	"go/token"
	"os"
	"path/filepath"
	"regexp"
	"sort"
	"strings"
	"testing"

	"github.com/cloudflare/circl/internal/verifmc"
)

var c10EntryName = regexp.MustCompile(`^(Unmarshal.*|SetBytes|FromBytes|SetString|Import|Unpack.*|Verify.*|Decapsulate|AuthDecapsulate|Setup.*|Open|Decrypt.*|FromString|ExtractFromCiphertext|CouldDecrypt|Parse.*|Aggregate|Finalize|BlindSign|Round3Receiver|CombineSignShares)$`)

// c10Exempt: id -> justification.
var c10Exempt = map[string]string{
	"hpke.hybridKEM.AuthDecapsulate":       "unsupported operation: the body is an unconditional panic(\"AuthDecapsulate is not supported for this KEM\"), independent of any input byte; reached only when the application itself selects an auth mode with this KEM",
	"sign/ed25519.pointR1.FromBytes":       "method of an unexported type; entered through sign/ed25519.Verify* rows (#pk)",
	"hpke.Sender.SetupPSK":                 "sender side: psk / pskID are the caller's own secrets, nothing received from the peer is parsed",
	"hpke.Sender.SetupAuthPSK":             "sender side: psk / pskID are the caller's own secrets, nothing received from the peer is parsed",
	"oprf.PartialObliviousClient.Finalize": "the only byte argument is the public `info` string chosen by the application (hashed to a scalar, never parsed); the server's Evaluation is a typed struct whose byte decoders (group elements / scalars, dleq.Proof) have their own rows",
}

// c10Discovered is set by a file that /verif/tools/c10gen generates at check time (checks.d "pregen") when
// the tree under test has entry points without a registry row: id -> "driven:<unit>" (a generated unit
// TestVerifC10_<unit> in that package drives it with the generic alphabet) or "skipped: <reason>".
var c10Discovered map[string]string

// c10RegistryFile is read by the generator (covered ids + exemptions); this unit writes it when
// VERIF_C10_WRITE_REGISTRY=1 and notes when it is out of date.
type c10RegistryFile struct {
	Covered []string          `json:"covered"`
	Exempt  map[string]string `json:"exempt"`
}

func c10TypeStr(e ast.Expr) string {
	switch v := e.(type) {
	case *ast.Ident:
		return v.Name
	case *ast.StarExpr:
		return "*" + c10TypeStr(v.X)
	case *ast.ArrayType:
		if v.Len == nil {
			return "[]" + c10TypeStr(v.Elt)
		}
		return "[N]" + c10TypeStr(v.Elt)
	case *ast.SelectorExpr:
		return c10TypeStr(v.X) + "." + v.Sel.Name
	case *ast.Ellipsis:
		return "..." + c10TypeStr(v.Elt)
	case *ast.IndexExpr:
		return c10TypeStr(v.X)
	case *ast.IndexListExpr:
		return c10TypeStr(v.X)
	case *ast.InterfaceType:
		return "interface{}"
	case *ast.FuncType:
		return "func"
	case *ast.MapType:
		return "map"
	}
	return fmt.Sprintf("%T", e)
}

type c10Func struct {
	id       string
	sig      string
	internal bool
}

// c10ByteTypes: parameter types that carry untrusted bytes (named byte-slice types of the packages included).
func c10IsBytes(ts string) bool {
	switch ts {
	case "[]byte", "string", "[][]byte", "Signature", "[]Signature", "PublicKey", "PrivateKey":
		return true
	}
	return false
}

func c10ListEntryPoints(root string) ([]c10Func, error) {
	var out []c10Func
	err := filepath.Walk(root, func(p string, info os.FileInfo, err error) error {
		if err != nil {
			return err
		}
		if info.IsDir() {
			switch info.Name() {
			case "testdata", ".git", "templates", "asm", ".etc", ".github":
				return filepath.SkipDir
			}
			return nil
		}
		if !strings.HasSuffix(p, ".go") || strings.HasSuffix(p, "_test.go") {
			return nil
		}
		fs := token.NewFileSet()
		f, err := parser.ParseFile(fs, p, nil, parser.SkipObjectResolution)
		if err != nil {
			return fmt.Errorf("parse %s: %v", p, err)
		}
		if f.Name.Name == "main" {
			return nil
		}
		// named []byte types declared in this package make "PublicKey"/"PrivateKey" params count only
		// when they really are byte slices; resolve locally.
		byteNamed := map[string]bool{}
		for _, d := range f.Decls {
			if gd, ok := d.(*ast.GenDecl); ok && gd.Tok == token.TYPE {
				for _, s := range gd.Specs {
					ts := s.(*ast.TypeSpec)
					if c10TypeStr(ts.Type) == "[]byte" {
						byteNamed[ts.Name.Name] = true
					}
				}
			}
		}
		rel, _ := filepath.Rel(root, filepath.Dir(p))
		for _, d := range f.Decls {
			fd, ok := d.(*ast.FuncDecl)
			if !ok || !fd.Name.IsExported() || !c10EntryName.MatchString(fd.Name.Name) {
				continue
			}
			recv := ""
			if fd.Recv != nil && len(fd.Recv.List) > 0 {
				recv = strings.TrimPrefix(c10TypeStr(fd.Recv.List[0].Type), "*")
			}
			hasBytes := false
			var ps, rs []string
			for _, fl := range fd.Type.Params.List {
				ts := c10TypeStr(fl.Type)
				ps = append(ps, ts)
				if ts == "[]byte" || ts == "string" || ts == "[][]byte" || ts == "[]Signature" || ts == "Signature" || byteNamed[ts] {
					hasBytes = true
				}
			}
			reports := false
			if fd.Type.Results != nil {
				for _, fl := range fd.Type.Results.List {
					ts := c10TypeStr(fl.Type)
					rs = append(rs, ts)
					if ts == "error" || ts == "bool" {
						reports = true
					}
				}
			}
			if !hasBytes || !reports {
				continue
			}
			id := rel + "."
			if recv != "" {
				id += recv + "."
			}
			id += fd.Name.Name
			out = append(out, c10Func{id: id, sig: "(" + strings.Join(ps, ",") + ") (" + strings.Join(rs, ",") + ")",
				internal: strings.HasPrefix(rel, "internal") || strings.Contains(rel, "/internal")})
		}
		return nil
	})
	sort.Slice(out, func(a, b int) bool { return out[a].id < out[b].id })
	// the same id can appear in several files guarded by build tags; keep one
	var ded []c10Func
	for i, f := range out {
		if i > 0 && out[i-1].id == f.id {
			continue
		}
		ded = append(ded, f)
	}
	return ded, err
}

func TestVerifC10_completeness(t *testing.T) {
	r := verifmc.Start(t, "C10", "completeness")
	defer r.Finish()
	r.Rule("go/ast walk over the tree under test: exported functions named Unmarshal*/SetBytes/FromBytes/SetString/Import/Unpack*/Verify*/Decapsulate/AuthDecapsulate/Setup*/Open/Decrypt*/FromString/" +
		"ExtractFromCiphertext/CouldDecrypt/Parse*/Aggregate/Finalize/BlindSign/Round3Receiver/CombineSignShares with a []byte / string parameter and an error or bool result; " +
		"each must be entered by a registry row, be exempted with a reason, or be driven by a unit that tools/c10gen generates for it at check time (generic alphabet); a case = one such function")
	root := os.Getenv("VERIF_REPO")
	if root == "" {
		root = "/repo"
	}
	funcs, err := c10ListEntryPoints(root)
	if err != nil {
		t.Fatalf("ast walk: %v", err)
	}
	covered := map[string][]string{}
	rows := c10AllRows()
	for _, row := range rows {
		for _, c := range row.Covers {
			covered[c] = append(covered[c], row.Name)
		}
	}
	known := map[string]bool{}
	var missing, internalOnly, exempted, driven []string
	nPublic, nCovered := 0, 0
	for _, f := range funcs {
		known[f.id] = true
		r.Eval(1)
		r.Distinct(f.id)
		switch {
		case len(covered[f.id]) > 0:
			nCovered++
			r.Outcome("covered")
			if len(covered[f.id]) > 0 && nCovered <= 3 {
				r.Sample(map[string]interface{}{"function": f.id + f.sig, "rows": covered[f.id]})
			}
		case c10Exempt[f.id] != "":
			exempted = append(exempted, f.id)
			r.Outcome("exempt")
		case f.internal:
			internalOnly = append(internalOnly, f.id)
			r.Outcome("internal-not-public-api")
		case strings.HasPrefix(c10Discovered[f.id], "driven:"):
			// no hand-written row, but a generated unit drives it in this very run: its violations are
			// reported under C10|<id>#discovered|..., its coverage under unit discovered_<id>
			driven = append(driven, f.id+" "+f.sig+" -> unit "+strings.TrimPrefix(c10Discovered[f.id], "driven:"))
			r.Outcome("discovered-and-driven-generically")
		default:
			why := c10Discovered[f.id]
			if why == "" {
				why = "not seen by the generator (pregen step not run?)"
			}
			missing = append(missing, f.id+" "+f.sig+" ["+why+"]")
			r.Outcome("MISSING")
		}
		if !f.internal {
			nPublic++
		}
	}
	// stale ids (a row or an exemption names a function that no longer exists, e.g. after a rename in the
	// tree): informational - the renamed function shows up above as discovered / missing
	var stale []string
	all, _ := c10ListAllFuncs(root)
	for c := range covered {
		if !all[c] {
			stale = append(stale, "row covers unknown function "+c)
		}
	}
	for e := range c10Exempt {
		if !all[e] {
			stale = append(stale, "exemption names unknown function "+e)
		}
	}
	sort.Strings(stale)
	// registry data file of the generator
	reg := c10RegistryFile{Exempt: c10Exempt}
	for c := range covered {
		reg.Covered = append(reg.Covered, c)
	}
	sort.Strings(reg.Covered)
	vdir := os.Getenv("VERIF_DIR")
	if vdir == "" {
		vdir = "/verif"
	}
	regPath := filepath.Join(vdir, "tools/c10gen/registry.json")
	want, _ := json.MarshalIndent(reg, "", " ")
	want = append(want, '\n')
	if os.Getenv("VERIF_C10_WRITE_REGISTRY") != "" {
		if err := os.WriteFile(regPath, want, 0o644); err != nil {
			t.Fatalf("write %s: %v", regPath, err)
		}
	}
	if have, err := os.ReadFile(regPath); err != nil || string(have) != string(want) {
		r.Set("registry_json_out_of_date", "tools/c10gen/registry.json differs from the rows' Covers; regenerate with VERIF_C10_WRITE_REGISTRY=1 (consequence: the generator may drive an entry point that also has a row, or leave a new one to this unit's MISSING list)")
	}
	r.Count("entry_points_found", len(funcs))
	r.Count("public_entry_points", nPublic)
	r.Count("covered_by_rows", nCovered)
	r.Count("exempted", len(exempted))
	r.Count("internal_not_covered", len(internalOnly))
	r.Count("discovered_and_driven", len(driven))
	r.Count("stale_ids", len(stale))
	r.Count("registry_rows", len(rows))
	r.Set("exemptions", c10Exempt)
	r.Set("internal_functions_not_entered_directly", internalOnly)
	r.Set("discovered_and_driven", driven)
	r.Set("missing", missing)
	r.Set("stale", stale)
	r.RequireCounter("entry_points_found", 150)
	r.RequireCounter("registry_rows", 150)
	if len(missing) > 0 {
		r.Vacuous(fmt.Sprintf("%d exported entry points are neither entered by a registry row, nor exempted, nor drivable generically: %s", len(missing), strings.Join(missing, "; ")))
	}
}

// c10ListAllFuncs lists every exported function id of the tree (no name / signature filter).
func c10ListAllFuncs(root string) (map[string]bool, error) {
	out := map[string]bool{}
	err := filepath.Walk(root, func(p string, info os.FileInfo, err error) error {
		if err != nil {
			return err
		}
		if info.IsDir() {
			switch info.Name() {
			case "testdata", ".git", "templates", "asm", ".etc", ".github":
				return filepath.SkipDir
			}
			return nil
		}
		if !strings.HasSuffix(p, ".go") || strings.HasSuffix(p, "_test.go") {
			return nil
		}
		f, err := parser.ParseFile(token.NewFileSet(), p, nil, parser.SkipObjectResolution)
		if err != nil {
			return nil
		}
		rel, _ := filepath.Rel(root, filepath.Dir(p))
		for _, d := range f.Decls {
			if fd, ok := d.(*ast.FuncDecl); ok && fd.Name.IsExported() {
				id := rel + "."
				if fd.Recv != nil && len(fd.Recv.List) > 0 {
					id += strings.TrimPrefix(c10TypeStr(fd.Recv.List[0].Type), "*") + "."
				}
				out[id+fd.Name.Name] = true
			}
		}
		return nil
	})
	return out, err
}
