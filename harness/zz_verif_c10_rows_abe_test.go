//go:build verif

package circl_test

// C10 rows, family abe: CP-ABE (abe/cpabe/tkn20: keys, ciphertexts, policies, the policy language)
// and pki (PEM / PKIX key parsing).

import (
	"bytes"
	"crypto/ecdsa"
	"crypto/elliptic"
	"crypto/x509"
	"crypto/x509/pkix"
	"encoding/asn1"
	"encoding/binary"
	"encoding/pem"
	"fmt"
	"math/big"
	"os"
	"strings"
	"sync"
	"testing"

	"github.com/cloudflare/circl/abe/cpabe/tkn20"
	"github.com/cloudflare/circl/internal/verifmc"
	kit "github.com/cloudflare/circl/internal/verifref/c10kit"
	"github.com/cloudflare/circl/pki"
	"github.com/cloudflare/circl/sign"
	"github.com/cloudflare/circl/sign/ed25519"
	"github.com/cloudflare/circl/sign/ed448"
	"github.com/cloudflare/circl/sign/eddilithium2"
	"github.com/cloudflare/circl/sign/mldsa/mldsa44"
)

// ---------------------------------------------------------------------------------------------
// fixtures (once per process, deterministic)

type c10AbeFix struct {
	pk                 tkn20.PublicKey
	msk                tkn20.SystemSecretKey
	ak                 tkn20.AttributeKey
	attrs              tkn20.Attributes
	ppk, pmsk, pak     []byte
	pakOther           []byte // attribute key for attributes that satisfy nothing
	ctAnd, ctNeg, ctOr []byte // new format; policies below
	// repository fixtures (old and new format, policy "EU: true")
	tdAk          tkn20.AttributeKey
	tdPak, tdPpk  []byte
	tdCtOld, tdCt []byte
}

const (
	c10AbePolAnd = "country: NL and EU: true"
	c10AbePolNeg = "(not country: FR) and EU: true"
	c10AbePolOr  = "(country: NL and EU: true) or planet: mars"
)

var c10AbeMsgPlain = []byte("verif C10 abe message")

var (
	c10AbeOnce sync.Once
	c10AbeF    *c10AbeFix
)

func c10AbeRepoFile(name string) []byte {
	root := os.Getenv("VERIF_REPO")
	if root == "" {
		root = "/repo"
	}
	b, err := os.ReadFile(root + "/abe/cpabe/tkn20/testdata/" + name)
	c10Must(err)
	return b
}

func c10AbeFixture() *c10AbeFix {
	c10AbeOnce.Do(func() {
		f := &c10AbeFix{}
		var err error
		f.pk, f.msk, err = tkn20.Setup(verifmc.NewDetReader("c10/abe/setup"))
		c10Must(err)
		f.attrs.FromMap(map[string]string{"country": "NL", "EU": "true"})
		f.ak, err = f.msk.KeyGen(verifmc.NewDetReader("c10/abe/keygen"), f.attrs)
		c10Must(err)
		other := tkn20.Attributes{}
		other.FromMap(map[string]string{"planet": "venus"})
		oak, err := f.msk.KeyGen(verifmc.NewDetReader("c10/abe/keygen2"), other)
		c10Must(err)
		f.ppk, err = f.pk.MarshalBinary()
		c10Must(err)
		f.pmsk, err = f.msk.MarshalBinary()
		c10Must(err)
		f.pak, err = f.ak.MarshalBinary()
		c10Must(err)
		f.pakOther, err = oak.MarshalBinary()
		c10Must(err)
		enc := func(pol string) []byte {
			p := tkn20.Policy{}
			c10Must(p.FromString(pol))
			ct, err := f.pk.Encrypt(verifmc.NewDetReader("c10/abe/enc/"+pol), p, c10AbeMsgPlain)
			c10Must(err)
			pt, err := f.ak.Decrypt(ct)
			c10Must(err)
			if !bytes.Equal(pt, c10AbeMsgPlain) {
				panic("c10 setup: abe round trip failed")
			}
			return ct
		}
		f.ctAnd, f.ctNeg, f.ctOr = enc(c10AbePolAnd), enc(c10AbePolNeg), enc(c10AbePolOr)
		f.tdPak = c10AbeRepoFile("attributeKey")
		f.tdPpk = c10AbeRepoFile("publicKey")
		f.tdCtOld = c10AbeRepoFile("ciphertext_v137")
		f.tdCt = c10AbeRepoFile("ciphertext")
		c10Must(f.tdAk.UnmarshalBinary(f.tdPak))
		c10AbeF = f
	})
	return c10AbeF
}

// ---------------------------------------------------------------------------------------------
// the ciphertext format, by hand (abe/cpabe/tkn20/internal/tkn: bk.go, tk.go, policy.go, formula.go)
//
//	ct      = ["v1.3.8"] len16(id) LEN(macData) len16(tag)          LEN = len32 (new) or len16 (old format)
//	macData = LEN(C1) LEN(env)
//	C1      = len16(policy) len16(c1) u16 n2 {len16(c2[i])} u16 n3 {len16(c3[i])} {len16(c3neg[i]) or len16()}
//	policy  = u16 fLen, formula, u16 nWires {u16 wireLen, wire}
//	formula = u16 nGates {u8 class, u16 in0, u16 in1, u16 out}
//	wire    = len16(label) len16(rawValue) len16(scalar) u8 positive
//	matrix  = u16 rows, u16 cols, rows*cols points

func c10AbeU16(n int) []byte {
	b := make([]byte, 2)
	binary.LittleEndian.PutUint16(b, uint16(n))
	return b
}
func c10AbeU32(n int) []byte {
	b := make([]byte, 4)
	binary.LittleEndian.PutUint32(b, uint32(n))
	return b
}

func c10AbeCat(x ...[]byte) []byte {
	var o []byte
	for _, y := range x {
		o = append(o, y...)
	}
	return o
}

func c10AbeLP16(b []byte) []byte { return c10AbeCat(c10AbeU16(len(b)), b) }
func c10AbeLP32(b []byte) []byte { return c10AbeCat(c10AbeU32(len(b)), b) }

func c10AbeCut(d []byte, w int) (item, rest []byte) {
	var n int
	if w == 2 {
		n = int(binary.LittleEndian.Uint16(d))
	} else {
		n = int(binary.LittleEndian.Uint32(d))
	}
	return d[w : w+n], d[w+n:]
}

type c10AbeParts struct {
	old           bool
	id, tag, env  []byte
	pol, c1       []byte
	c2, c3, c3neg [][]byte
	// overrides
	rawHdr  []byte // replaces the serialized header
	hdrTail []byte // appended to the header
	n2, n3  int    // declared counts; -1 = actual
}

func c10AbeParse(ct []byte) *c10AbeParts {
	p := &c10AbeParts{n2: -1, n3: -1}
	w := 2
	if bytes.HasPrefix(ct, []byte("v1.3.8")) {
		ct = ct[6:]
		w = 4
	} else {
		p.old = true
	}
	var mac, hdr []byte
	p.id, ct = c10AbeCut(ct, 2)
	mac, ct = c10AbeCut(ct, w)
	p.tag, _ = c10AbeCut(ct, 2)
	hdr, mac = c10AbeCut(mac, w)
	p.env, _ = c10AbeCut(mac, w)
	p.pol, hdr = c10AbeCut(hdr, 2)
	p.c1, hdr = c10AbeCut(hdr, 2)
	n := int(binary.LittleEndian.Uint16(hdr))
	hdr = hdr[2:]
	for i := 0; i < n; i++ {
		var m []byte
		m, hdr = c10AbeCut(hdr, 2)
		p.c2 = append(p.c2, m)
	}
	n = int(binary.LittleEndian.Uint16(hdr))
	hdr = hdr[2:]
	for i := 0; i < n; i++ {
		var m []byte
		m, hdr = c10AbeCut(hdr, 2)
		p.c3 = append(p.c3, m)
	}
	for i := 0; i < n; i++ {
		var m []byte
		m, hdr = c10AbeCut(hdr, 2)
		p.c3neg = append(p.c3neg, m)
	}
	if len(hdr) != 0 {
		panic("c10 setup: abe header layout")
	}
	return p
}

func (p *c10AbeParts) clone() *c10AbeParts {
	q := *p
	q.c2 = append([][]byte{}, p.c2...)
	q.c3 = append([][]byte{}, p.c3...)
	q.c3neg = append([][]byte{}, p.c3neg...)
	return &q
}

func (p *c10AbeParts) header() []byte {
	if p.rawHdr != nil {
		return p.rawHdr
	}
	h := c10AbeCat(c10AbeLP16(p.pol), c10AbeLP16(p.c1))
	n2, n3 := p.n2, p.n3
	if n2 < 0 {
		n2 = len(p.c2)
	}
	if n3 < 0 {
		n3 = len(p.c3)
	}
	h = append(h, c10AbeU16(n2)...)
	for _, m := range p.c2 {
		h = append(h, c10AbeLP16(m)...)
	}
	h = append(h, c10AbeU16(n3)...)
	for _, m := range p.c3 {
		h = append(h, c10AbeLP16(m)...)
	}
	for _, m := range p.c3neg {
		h = append(h, c10AbeLP16(m)...)
	}
	return append(h, p.hdrTail...)
}

func (p *c10AbeParts) build() []byte {
	lp := c10AbeLP32
	var o []byte
	if p.old {
		lp = c10AbeLP16
	} else {
		o = []byte("v1.3.8")
	}
	mac := c10AbeCat(lp(p.header()), lp(p.env))
	return c10AbeCat(o, c10AbeLP16(p.id), lp(mac), c10AbeLP16(p.tag))
}

type c10AbeGate struct{ class, in0, in1, out int }

func c10AbeFormula(declared int, gates ...c10AbeGate) []byte {
	if declared < 0 {
		declared = len(gates)
	}
	o := c10AbeU16(declared)
	for _, g := range gates {
		o = append(o, byte(g.class))
		o = append(o, c10AbeU16(g.in0)...)
		o = append(o, c10AbeU16(g.in1)...)
		o = append(o, c10AbeU16(g.out)...)
	}
	return o
}

func c10AbeWire(label, raw string, scalar []byte, positive byte) []byte {
	return c10AbeCat(c10AbeLP16([]byte(label)), c10AbeLP16([]byte(raw)), c10AbeLP16(scalar), []byte{positive})
}

// c10AbePolicy: fLen / nWires < 0 = the actual values.
func c10AbePolicy(formula []byte, fLen, nWires int, wires ...[]byte) []byte {
	if fLen < 0 {
		fLen = len(formula)
	}
	if nWires < 0 {
		nWires = len(wires)
	}
	o := c10AbeCat(c10AbeU16(fLen), formula, c10AbeU16(nWires))
	for _, w := range wires {
		o = append(o, c10AbeLP16(w)...)
	}
	return o
}

// c10AbePolicyWires returns the serialized wires of a serialized policy.
func c10AbePolicyWires(pol []byte) [][]byte {
	f, rest := c10AbeCut(pol, 2)
	_ = f
	n := int(binary.LittleEndian.Uint16(rest))
	rest = rest[2:]
	var ws [][]byte
	for i := 0; i < n; i++ {
		var w []byte
		w, rest = c10AbeCut(rest, 2)
		ws = append(ws, w)
	}
	return ws
}

// c10AbeMatrix re-dimensions a serialized matrix: declared rows x cols with the first k points of m.
func c10AbeMatrix(m []byte, rows, cols, k int) []byte {
	r0 := int(binary.LittleEndian.Uint16(m))
	c0 := int(binary.LittleEndian.Uint16(m[2:]))
	ps := (len(m) - 4) / (r0 * c0)
	return c10AbeCat(c10AbeU16(rows), c10AbeU16(cols), m[4:4+k*ps])
}

// c10AbeCtExtras: hand-made hostile ciphertexts derived from honest ones (in both length-prefix formats).
func c10AbeCtExtras(f *c10AbeFix) []kit.Named {
	var out []kit.Named
	and, neg := c10AbeParse(f.ctAnd), c10AbeParse(f.ctNeg)
	wAnd := c10AbePolicyWires(and.pol) // country:NL, EU:true
	wNeg := c10AbePolicyWires(neg.pol) // not country:FR, EU:true
	wNL, wEU, wNotFR := wAnd[0], wAnd[1], wNeg[0]
	and1 := c10AbeFormula(-1, c10AbeGate{0, 0, 1, 2})
	add := func(name string, base *c10AbeParts, fn func(p *c10AbeParts)) {
		for _, old := range []bool{false, true} {
			p := base.clone()
			p.old = old
			fn(p)
			n := name
			if old {
				n += "/old-format"
			}
			out = append(out, kit.Named{Name: n, Data: p.build()})
		}
	}
	pol := func(name string, b []byte) {
		add("policy:"+name, and, func(p *c10AbeParts) { p.pol = b })
	}
	// --- honest ciphertext re-encoded (tag no longer valid in the old format: decapsulation still runs)
	add("reencoded", and, func(p *c10AbeParts) {})
	add("reencoded-neg", neg, func(p *c10AbeParts) {})
	// --- policy: lengths and counts
	pol("empty", []byte{})
	pol("1byte", []byte{0})
	pol("flen-only", c10AbeU16(0))
	pol("flen-FFFF-no-body", c10AbeU16(0xffff))
	pol("flen-FFFF", c10AbePolicy(and1, 0xffff, -1, wNL, wEU))
	pol("flen+1", c10AbePolicy(and1, len(and1)+len(c10AbeU16(0))+1, 0))
	pol("flen-0", c10AbePolicy(and1, 0, -1, wNL, wEU))
	pol("flen-1short", c10AbePolicy(and1, len(and1)-1, -1, wNL, wEU))
	pol("ngates-FFFF-no-body", c10AbePolicy(c10AbeU16(0xffff), -1, -1, wNL, wEU))
	pol("ngates-2-body-1", c10AbePolicy(c10AbeFormula(2, c10AbeGate{0, 0, 1, 2}), -1, -1, wNL, wEU))
	pol("ngates-1-body-3bytes", c10AbePolicy(c10AbeCat(c10AbeU16(1), []byte{0, 0, 0}), -1, -1, wNL, wEU))
	pol("ngates-1-body-6bytes", c10AbePolicy(c10AbeCat(c10AbeU16(1), []byte{0, 0, 0, 1, 0, 2}), -1, -1))
	pol("formula-1byte", c10AbePolicy([]byte{1}, -1, -1, wNL, wEU))
	pol("no-nwires", c10AbeCat(c10AbeU16(len(and1)), and1))
	pol("nwires-1byte", c10AbeCat(c10AbeU16(len(and1)), and1, []byte{2}))
	pol("nwires-FFFF-no-body", c10AbePolicy(and1, -1, 0xffff))
	pol("nwires-3-body-2", c10AbePolicy(and1, -1, 3, wNL, wEU))
	pol("nwires-2-second-1byte", c10AbeCat(c10AbePolicy(and1, -1, 2, wNL), []byte{9}))
	pol("nwires-0", c10AbePolicy(and1, -1, 0))
	pol("nwires-1", c10AbePolicy(and1, -1, 1, wEU))
	pol("wirelen-FFFF", c10AbeCat(c10AbePolicy(and1, -1, 2), c10AbeU16(0xffff), wNL, c10AbeLP16(wEU)))
	pol("wirelen+1-last", c10AbeCat(c10AbePolicy(and1, -1, 2, wNL), c10AbeU16(len(wEU)+1), wEU))
	pol("wirelen-0", c10AbeCat(c10AbePolicy(and1, -1, 2), c10AbeU16(0), wNL, c10AbeU16(0), wEU))
	pol("wire-empty", c10AbePolicy(and1, -1, -1, []byte{}, wEU))
	pol("wire-label-len-FFFF", c10AbePolicy(and1, -1, -1, c10AbeCat(c10AbeU16(0xffff), []byte("EU")), wEU))
	pol("wire-value-len-FFFF", c10AbePolicy(and1, -1, -1, c10AbeCat(c10AbeLP16([]byte("EU")), c10AbeU16(0xffff), []byte("true")), wEU))
	pol("wire-scalar-len-FFFF", c10AbePolicy(and1, -1, -1, c10AbeCat(c10AbeLP16([]byte("EU")), c10AbeLP16([]byte("true")), c10AbeU16(0xffff), make([]byte, 32)), wEU))
	pol("wire-no-positive-byte", c10AbePolicy(and1, -1, -1, wNL[:len(wNL)-1], wEU))
	pol("wire-scalar-empty", c10AbePolicy(and1, -1, -1, c10AbeWire("country", "NL", nil, 1), wEU))
	pol("wire-scalar-1byte", c10AbePolicy(and1, -1, -1, c10AbeWire("country", "NL", []byte{1}, 1), wEU))
	pol("wire-scalar-64kB", c10AbePolicy(and1, -1, -1, c10AbeWire("c", "N", bytes.Repeat([]byte{0xff}, 65000), 1), wEU))
	pol("wire-scalar-allFF", c10AbePolicy(and1, -1, -1, c10AbeWire("country", "NL", bytes.Repeat([]byte{0xff}, 32), 1), wEU))
	pol("wire-label-empty", c10AbePolicy(and1, -1, -1, c10AbeWire("", "", make([]byte, 32), 1), wEU))
	pol("wire-label-is-bk-attribute", c10AbePolicy(and1, -1, -1, c10AbeWire("internal-boneh-katz-transform-attribute", "x", make([]byte, 32), 1), wEU))
	{
		w := append([]byte{}, wNL...)
		w[len(w)-1] = 2 // neither 0 nor 1
		pol("wire-positive-2", c10AbePolicy(and1, -1, -1, w, wEU))
	}
	// --- policy: number of wires against number of gates
	pol("0gates-0wires", c10AbePolicy(c10AbeFormula(0), -1, 0))
	pol("0gates-1wire", c10AbePolicy(c10AbeFormula(0), -1, -1, wEU))
	pol("0gates-2wires", c10AbePolicy(c10AbeFormula(0), -1, -1, wEU, wNL))
	pol("0gates-3wires", c10AbePolicy(c10AbeFormula(0), -1, -1, wEU, wNL, wEU))
	pol("1gate-1wire", c10AbePolicy(and1, -1, -1, wEU))
	pol("1gate-3wires", c10AbePolicy(and1, -1, -1, wNL, wEU, wEU))
	pol("1gate-4wires", c10AbePolicy(and1, -1, -1, wNL, wEU, wEU, wNL))
	pol("1gate-0wires", c10AbePolicy(and1, -1, 0))
	pol("2gates-2wires", c10AbePolicy(c10AbeFormula(-1, c10AbeGate{0, 0, 1, 3}, c10AbeGate{0, 3, 2, 4}), -1, -1, wNL, wEU))
	pol("same-label-twice", c10AbePolicy(and1, -1, -1, wEU, wEU))
	pol("same-label-3x", c10AbePolicy(c10AbeFormula(-1, c10AbeGate{0, 0, 1, 3}, c10AbeGate{0, 3, 2, 4}), -1, -1, wEU, wEU, wEU))
	pol("or-same-label-twice", c10AbePolicy(c10AbeFormula(-1, c10AbeGate{1, 0, 1, 2}), -1, -1, wEU, wEU))
	pol("negated-wire-without-c3neg", c10AbePolicy(and1, -1, -1, wNotFR, wEU))
	pol("both-wires-negated", c10AbePolicy(and1, -1, -1, wNotFR, wNotFR))
	// --- policy: gate indices
	g := func(name string, wires [][]byte, gates ...c10AbeGate) {
		pol("gates:"+name, c10AbePolicy(c10AbeFormula(-1, gates...), -1, -1, wires...))
	}
	w2, w3 := [][]byte{wNL, wEU}, [][]byte{wNL, wEU, wEU}
	g("out-0", w2, c10AbeGate{0, 0, 1, 0})
	g("out-1", w2, c10AbeGate{0, 0, 1, 1})
	g("out-3", w2, c10AbeGate{0, 0, 1, 3})
	g("out-FFFF", w2, c10AbeGate{0, 0, 1, 0xffff})
	g("in0-2-self", w2, c10AbeGate{0, 2, 1, 2})
	g("in1-2-self", w2, c10AbeGate{0, 0, 2, 2})
	g("in0-in1-self", w2, c10AbeGate{0, 2, 2, 2})
	g("in0-FFFF", w2, c10AbeGate{0, 0xffff, 1, 2})
	g("in1-FFFF", w2, c10AbeGate{0, 0, 0xffff, 2})
	g("in0-3", w2, c10AbeGate{0, 3, 1, 2})
	g("in0=in1", w2, c10AbeGate{0, 0, 0, 2})
	g("class-2", w2, c10AbeGate{2, 0, 1, 2})
	g("class-FF", w2, c10AbeGate{0xff, 0, 1, 2})
	g("or", w2, c10AbeGate{1, 0, 1, 2})
	g("2-self-loop", w3, c10AbeGate{0, 3, 0, 3}, c10AbeGate{0, 1, 2, 4})
	g("2-root-self-loop", w3, c10AbeGate{0, 0, 1, 3}, c10AbeGate{0, 4, 2, 4})
	g("2-cycle", w3, c10AbeGate{0, 4, 0, 3}, c10AbeGate{0, 3, 1, 4})
	g("2-same-out", w3, c10AbeGate{0, 0, 1, 4}, c10AbeGate{0, 3, 2, 4})
	g("2-same-out-low", w3, c10AbeGate{0, 0, 1, 3}, c10AbeGate{0, 3, 2, 3})
	g("2-root-unused", w3, c10AbeGate{0, 0, 1, 3}, c10AbeGate{0, 2, 2, 3})
	g("2-wire-used-twice", w3, c10AbeGate{0, 0, 0, 3}, c10AbeGate{0, 3, 0, 4})
	g("2-wrong-order", w3, c10AbeGate{0, 3, 2, 4}, c10AbeGate{0, 0, 1, 3})
	g("2-out-5", w3, c10AbeGate{0, 0, 1, 3}, c10AbeGate{0, 3, 2, 5})
	g("2-out-2", w3, c10AbeGate{0, 0, 1, 2}, c10AbeGate{0, 3, 2, 4})
	g("2-in-4-root-as-input", w3, c10AbeGate{0, 4, 1, 3}, c10AbeGate{0, 0, 2, 4})
	g("3-cycle", [][]byte{wNL, wEU, wEU, wNL}, c10AbeGate{0, 5, 0, 4}, c10AbeGate{0, 4, 1, 5}, c10AbeGate{0, 2, 3, 6})
	g("3-cycle-through-root", [][]byte{wNL, wEU, wEU, wNL}, c10AbeGate{0, 6, 0, 4}, c10AbeGate{0, 4, 1, 5}, c10AbeGate{0, 5, 2, 6})
	{ // many gates, no wires / a long chain
		var gs []c10AbeGate
		n := 2000
		for i := 0; i < n; i++ {
			in0 := n + i // previous gate's output (gate 0: wire n = last input)
			gs = append(gs, c10AbeGate{i % 2, in0, i, n + 1 + i})
		}
		pol("gates:chain-2000-no-wires", c10AbePolicy(c10AbeFormula(-1, gs...), -1, 0))
		pol("gates:chain-2000-2-wires", c10AbePolicy(c10AbeFormula(-1, gs...), -1, -1, wNL, wEU))
		for i := range gs {
			gs[i].in0 = gs[i].out
		}
		pol("gates:2000-self-loops", c10AbePolicy(c10AbeFormula(-1, gs...), -1, 0))
	}
	// --- header: counts and matrices
	add("hdr:ends-after-policy", and, func(p *c10AbeParts) { p.rawHdr = c10AbeLP16(p.pol) })
	add("hdr:ends-after-c1", and, func(p *c10AbeParts) { p.rawHdr = c10AbeCat(c10AbeLP16(p.pol), c10AbeLP16(p.c1)) })
	add("hdr:n2-1byte", and, func(p *c10AbeParts) { p.rawHdr = c10AbeCat(c10AbeLP16(p.pol), c10AbeLP16(p.c1), []byte{1}) })
	add("hdr:ends-after-n2=0", and, func(p *c10AbeParts) { p.rawHdr = c10AbeCat(c10AbeLP16(p.pol), c10AbeLP16(p.c1), c10AbeU16(0)) })
	add("hdr:ends-after-c2", and, func(p *c10AbeParts) {
		p.rawHdr = c10AbeCat(c10AbeLP16(p.pol), c10AbeLP16(p.c1), c10AbeU16(1), c10AbeLP16(p.c2[0]))
	})
	add("hdr:n3-1byte", and, func(p *c10AbeParts) {
		p.rawHdr = c10AbeCat(c10AbeLP16(p.pol), c10AbeLP16(p.c1), c10AbeU16(1), c10AbeLP16(p.c2[0]), []byte{3})
	})
	add("hdr:empty", and, func(p *c10AbeParts) { p.rawHdr = []byte{} })
	add("hdr:n2-FFFF-no-body", and, func(p *c10AbeParts) { p.n2, p.c2, p.c3, p.c3neg = 0xffff, nil, nil, nil })
	add("hdr:n2-0", and, func(p *c10AbeParts) { p.c2 = nil })
	add("hdr:n2-2-body-1", and, func(p *c10AbeParts) { p.n2 = 2 })
	add("hdr:n3-0", and, func(p *c10AbeParts) { p.c3, p.c3neg = nil, nil })
	add("hdr:n3-1", and, func(p *c10AbeParts) { p.c3, p.c3neg = p.c3[:1], p.c3neg[:1] })
	add("hdr:n3-2-of-3", and, func(p *c10AbeParts) { p.c3, p.c3neg = p.c3[:2], p.c3neg[:2] })
	add("hdr:n3-FFFF-no-body", and, func(p *c10AbeParts) { p.n3, p.c3, p.c3neg = 0xffff, nil, nil })
	add("hdr:n3-declared-4-body-3", and, func(p *c10AbeParts) { p.n3 = 4 })
	add("hdr:c3neg-missing", and, func(p *c10AbeParts) { p.c3neg = nil })
	add("hdr:c3neg-one-missing", and, func(p *c10AbeParts) { p.c3neg = p.c3neg[:2] })
	add("hdr:trailing", and, func(p *c10AbeParts) { p.hdrTail = []byte{1, 2, 3} })
	add("hdr:neg-c3neg-emptied", neg, func(p *c10AbeParts) { p.c3neg[0] = nil })
	add("hdr:neg-c3neg-all-emptied", neg, func(p *c10AbeParts) { p.c3neg = [][]byte{nil, nil, nil} })
	add("hdr:c3neg-given-for-positive-wires", and, func(p *c10AbeParts) { p.c3neg = p.c3 })
	for _, d := range [][3]int{{0, 0, 0}, {1, 1, 1}, {0, 5, 0}, {5, 0, 0}, {1, 2, 2}, {2, 1, 2}, {1, 3, 3}, {0xffff, 0xffff, 0}, {0xffff, 0, 0}} {
		d := d
		n := fmt.Sprintf("%dx%d", d[0], d[1])
		add("hdr:c1-"+n, and, func(p *c10AbeParts) { p.c1 = c10AbeMatrix(p.c1, d[0], d[1], d[2]) })
		add("hdr:c2[0]-"+n, and, func(p *c10AbeParts) { p.c2[0] = c10AbeMatrix(p.c2[0], d[0], d[1], d[2]) })
		add("hdr:c3[0]-"+n, and, func(p *c10AbeParts) { p.c3[0] = c10AbeMatrix(p.c3[0], d[0], d[1], d[2]) })
		add("hdr:c3[last]-"+n, and, func(p *c10AbeParts) { p.c3[len(p.c3)-1] = c10AbeMatrix(p.c3[len(p.c3)-1], d[0], d[1], d[2]) })
		add("hdr:c3-all-"+n, and, func(p *c10AbeParts) {
			for i := range p.c3 {
				p.c3[i] = c10AbeMatrix(p.c3[i], d[0], d[1], d[2])
			}
		})
		add("hdr:neg-c3neg[0]-"+n, neg, func(p *c10AbeParts) { p.c3neg[0] = c10AbeMatrix(p.c3neg[0], d[0], d[1], d[2]) })
	}
	add("hdr:c1-short-matrix-3bytes", and, func(p *c10AbeParts) { p.c1 = p.c1[:3] })
	add("hdr:c1-empty", and, func(p *c10AbeParts) { p.c1 = nil })
	add("hdr:c1-is-a-G1-matrix", and, func(p *c10AbeParts) { p.c1 = p.c3[0] })
	add("hdr:c3[0]-is-a-G2-matrix", and, func(p *c10AbeParts) { p.c3[0] = p.c1 })
	add("hdr:c1-transposed-1x4", and, func(p *c10AbeParts) {
		r := int(binary.LittleEndian.Uint16(p.c1))
		p.c1 = c10AbeMatrix(p.c1, 1, r, r)
	})
	add("hdr:c3[0]-transposed", and, func(p *c10AbeParts) {
		r := int(binary.LittleEndian.Uint16(p.c3[0]))
		p.c3[0] = c10AbeMatrix(p.c3[0], 1, r, r)
	})
	add("hdr:c1-points-at-infinity", and, func(p *c10AbeParts) {
		m := append([]byte{}, p.c1...)
		for i := 4; i < len(m); i++ {
			m[i] = 0
		}
		r := int(binary.LittleEndian.Uint16(m))
		ps := (len(m) - 4) / r
		for i := 0; i < r; i++ {
			m[4+i*ps] = 0x40
		}
		p.c1 = m
	})
	add("hdr:c3-points-at-infinity", and, func(p *c10AbeParts) {
		for k := range p.c3 {
			m := append([]byte{}, p.c3[k]...)
			for i := 4; i < len(m); i++ {
				m[i] = 0
			}
			r := int(binary.LittleEndian.Uint16(m))
			ps := (len(m) - 4) / r
			for i := 0; i < r; i++ {
				m[4+i*ps] = 0x40
			}
			p.c3[k] = m
		}
	})
	// --- outer layers
	add("outer:id-empty", and, func(p *c10AbeParts) { p.id = nil })
	add("outer:id-1byte", and, func(p *c10AbeParts) { p.id = []byte{1} })
	add("outer:id-65535", and, func(p *c10AbeParts) { p.id = bytes.Repeat([]byte{0xa5}, 65535) })
	add("outer:tag-empty", and, func(p *c10AbeParts) { p.tag = nil })
	add("outer:tag-64", and, func(p *c10AbeParts) { p.tag = append(append([]byte{}, p.tag...), p.tag...) })
	add("outer:env-empty", and, func(p *c10AbeParts) { p.env = nil })
	add("outer:env-71", and, func(p *c10AbeParts) { p.env = p.env[:71] })
	add("outer:env-72", and, func(p *c10AbeParts) { p.env = p.env[:72] })
	add("outer:env-60000", and, func(p *c10AbeParts) { p.env = bytes.Repeat([]byte{7}, 60000); p.c2 = p.c2[:1] })
	raw := func(name string, b []byte) { out = append(out, kit.Named{Name: "outer:" + name, Data: b}) }
	v := []byte("v1.3.8")
	raw("version-only", v)
	raw("version-5-bytes", v[:5])
	raw("version+1byte", c10AbeCat(v, []byte{0}))
	raw("version+id-len-FFFF", c10AbeCat(v, c10AbeU16(0xffff)))
	raw("version+id", c10AbeCat(v, c10AbeLP16(and.id)))
	raw("version+id+3bytes", c10AbeCat(v, c10AbeLP16(and.id), []byte{1, 0, 0}))
	raw("mac-len-FFFFFFFF", c10AbeCat(v, c10AbeLP16(and.id), c10AbeU32(0xffffffff), and.header()))
	raw("mac-len-7FFFFFFF", c10AbeCat(v, c10AbeLP16(and.id), c10AbeU32(0x7fffffff), and.header()))
	raw("mac-len-80000000", c10AbeCat(v, c10AbeLP16(and.id), c10AbeU32(0x80000000), and.header()))
	raw("mac-len-FFFFFFFC", c10AbeCat(v, c10AbeLP16(and.id), c10AbeU32(0xfffffffc), and.header()))
	raw("mac-empty", c10AbeCat(v, c10AbeLP16(and.id), c10AbeU32(0), c10AbeLP16(and.tag)))
	raw("mac-3bytes", c10AbeCat(v, c10AbeLP16(and.id), c10AbeLP32([]byte{1, 2, 3}), c10AbeLP16(and.tag)))
	raw("hdr-len-FFFFFFFF", c10AbeCat(v, c10AbeLP16(and.id), c10AbeLP32(c10AbeCat(c10AbeU32(0xffffffff), and.header())), c10AbeLP16(and.tag)))
	raw("hdr-only-no-env", c10AbeCat(v, c10AbeLP16(and.id), c10AbeLP32(c10AbeLP32(and.header())), c10AbeLP16(and.tag)))
	raw("env-len-FFFFFFFF", c10AbeCat(v, c10AbeLP16(and.id), c10AbeLP32(c10AbeCat(c10AbeLP32(and.header()), c10AbeU32(0xffffffff), and.env)), c10AbeLP16(and.tag)))
	raw("no-tag", c10AbeCat(v, c10AbeLP16(and.id), c10AbeLP32(c10AbeCat(c10AbeLP32(and.header()), c10AbeLP32(and.env)))))
	raw("tag-len-FFFF", c10AbeCat(v, c10AbeLP16(and.id), c10AbeLP32(c10AbeCat(c10AbeLP32(and.header()), c10AbeLP32(and.env))), c10AbeU16(0xffff), and.tag))
	raw("old:id-only", c10AbeLP16(and.id))
	raw("old:mac-len-FFFF", c10AbeCat(c10AbeLP16(and.id), c10AbeU16(0xffff), and.header()[:100]))
	raw("old:hdr-len-FFFF", c10AbeCat(c10AbeLP16(and.id), c10AbeLP16(c10AbeCat(c10AbeU16(0xffff), and.header()[:100])), c10AbeLP16(and.tag)))
	raw("new-format-without-version", f.ctAnd[6:])
	raw("old-format-with-version", c10AbeCat(v, f.tdCtOld))
	raw("version-twice", c10AbeCat(v, f.ctAnd))
	raw("public-key", f.ppk)
	raw("attribute-key", f.pak)
	return out
}

// c10AbeKeyExtras: hand-made hostile attribute keys.
//
//	key = len16(attrs) len16(k1) len16(k2) u16 n {len16(label) len16(matrix)} u16 nWild {len16(label) len16(matrix)}
//	attrs = u16 n {len16(label) u8 wild, scalar[32]}
type c10AbeKeyParts struct {
	attrs          [][2][]byte // label, 33 bytes
	k1, k2         []byte
	k3, k3w        [][2][]byte // label, matrix
	nA, n3, n3w    int
	rawAttrs, tail []byte
}

func c10AbeParseKey(b []byte) *c10AbeKeyParts {
	p := &c10AbeKeyParts{nA: -1, n3: -1, n3w: -1}
	var a []byte
	a, b = c10AbeCut(b, 2)
	n := int(binary.LittleEndian.Uint16(a))
	a = a[2:]
	for i := 0; i < n; i++ {
		var l []byte
		l, a = c10AbeCut(a, 2)
		p.attrs = append(p.attrs, [2][]byte{l, a[:33]})
		a = a[33:]
	}
	p.k1, b = c10AbeCut(b, 2)
	p.k2, b = c10AbeCut(b, 2)
	for k := 0; k < 2; k++ {
		n = int(binary.LittleEndian.Uint16(b))
		b = b[2:]
		for i := 0; i < n; i++ {
			var l, m []byte
			l, b = c10AbeCut(b, 2)
			m, b = c10AbeCut(b, 2)
			if k == 0 {
				p.k3 = append(p.k3, [2][]byte{l, m})
			} else {
				p.k3w = append(p.k3w, [2][]byte{l, m})
			}
		}
	}
	if len(b) != 0 {
		panic("c10 setup: abe key layout")
	}
	return p
}

func (p *c10AbeKeyParts) clone() *c10AbeKeyParts {
	q := *p
	q.attrs = append([][2][]byte{}, p.attrs...)
	q.k3 = append([][2][]byte{}, p.k3...)
	q.k3w = append([][2][]byte{}, p.k3w...)
	return &q
}

func (p *c10AbeKeyParts) build() []byte {
	a := p.rawAttrs
	if a == nil {
		n := p.nA
		if n < 0 {
			n = len(p.attrs)
		}
		a = c10AbeU16(n)
		for _, e := range p.attrs {
			a = c10AbeCat(a, c10AbeLP16(e[0]), e[1])
		}
	}
	o := c10AbeCat(c10AbeLP16(a), c10AbeLP16(p.k1), c10AbeLP16(p.k2))
	for k, m := range [][][2][]byte{p.k3, p.k3w} {
		n := [2]int{p.n3, p.n3w}[k]
		if n < 0 {
			n = len(m)
		}
		o = append(o, c10AbeU16(n)...)
		for _, e := range m {
			o = c10AbeCat(o, c10AbeLP16(e[0]), c10AbeLP16(e[1]))
		}
	}
	return append(o, p.tail...)
}

func c10AbeKeyExtras(f *c10AbeFix) []kit.Named {
	base := c10AbeParseKey(f.pak)
	if !bytes.Equal(base.build(), f.pak) {
		panic("c10 setup: abe key re-encoding differs")
	}
	var out []kit.Named
	add := func(name string, fn func(p *c10AbeKeyParts)) {
		p := base.clone()
		fn(p)
		out = append(out, kit.Named{Name: "key:" + name, Data: p.build()})
	}
	idx := func(list [][2][]byte, label string) int {
		for i, e := range list {
			if string(e[0]) == label {
				return i
			}
		}
		panic("c10 setup: label " + label + " not in key")
	}
	setWild := func(p *c10AbeKeyParts, label string, w byte) {
		i := idx(p.attrs, label)
		a := append([]byte{}, p.attrs[i][1]...)
		a[0] = w
		p.attrs[i][1] = a
	}
	del := func(l [][2][]byte, i int) [][2][]byte { return append(append([][2][]byte{}, l[:i]...), l[i+1:]...) }
	bk := "internal-boneh-katz-transform-attribute"
	add("attrs-empty-body", func(p *c10AbeKeyParts) { p.rawAttrs = []byte{} })
	add("attrs-1byte", func(p *c10AbeKeyParts) { p.rawAttrs = []byte{3} })
	add("attrs-n-0", func(p *c10AbeKeyParts) { p.attrs = nil })
	add("attrs-n-FFFF-no-body", func(p *c10AbeKeyParts) { p.rawAttrs = c10AbeU16(0xffff) })
	add("attrs-n+1", func(p *c10AbeKeyParts) { p.nA = len(p.attrs) + 1 })
	add("attrs-n-1", func(p *c10AbeKeyParts) { p.nA = len(p.attrs) - 1 })
	add("attrs-label-len-FFFF", func(p *c10AbeKeyParts) {
		p.rawAttrs = c10AbeCat(c10AbeU16(1), c10AbeU16(0xffff), []byte("EU"), make([]byte, 33))
	})
	add("attrs-short-attribute", func(p *c10AbeKeyParts) {
		p.rawAttrs = c10AbeCat(c10AbeU16(1), c10AbeLP16([]byte("EU")), make([]byte, 32))
	})
	add("attrs-without-bk", func(p *c10AbeKeyParts) { p.attrs = del(p.attrs, idx(p.attrs, bk)) })
	add("attrs-only-bk", func(p *c10AbeKeyParts) { p.attrs = [][2][]byte{p.attrs[idx(p.attrs, bk)]} })
	add("attrs-bk-tame", func(p *c10AbeKeyParts) { setWild(p, bk, 0) })
	add("attrs-EU-wild", func(p *c10AbeKeyParts) { setWild(p, "EU", 1) })
	add("attrs-country-wild", func(p *c10AbeKeyParts) { setWild(p, "country", 1) })
	add("attrs-all-wild", func(p *c10AbeKeyParts) { setWild(p, "EU", 1); setWild(p, "country", 1) })
	add("attrs-wild-2", func(p *c10AbeKeyParts) { setWild(p, "EU", 2) })
	add("attrs-duplicate-label", func(p *c10AbeKeyParts) { p.attrs = append(p.attrs, p.attrs[idx(p.attrs, "EU")]) })
	add("attrs-extra-label-without-k3", func(p *c10AbeKeyParts) {
		p.attrs = append(p.attrs, [2][]byte{[]byte("planet"), p.attrs[idx(p.attrs, "EU")][1]})
	})
	add("attrs-labels-swapped", func(p *c10AbeKeyParts) {
		i, j := idx(p.attrs, "EU"), idx(p.attrs, "country")
		p.attrs[i][1], p.attrs[j][1] = p.attrs[j][1], p.attrs[i][1]
	})
	add("k3-n-0", func(p *c10AbeKeyParts) { p.k3 = nil })
	add("k3-without-EU", func(p *c10AbeKeyParts) { p.k3 = del(p.k3, idx(p.k3, "EU")) })
	add("k3-without-country", func(p *c10AbeKeyParts) { p.k3 = del(p.k3, idx(p.k3, "country")) })
	add("k3-without-bk", func(p *c10AbeKeyParts) { p.k3 = del(p.k3, idx(p.k3, bk)) })
	add("k3-EU-renamed", func(p *c10AbeKeyParts) { i := idx(p.k3, "EU"); p.k3[i] = [2][]byte{[]byte("eu"), p.k3[i][1]} })
	add("k3-n-FFFF-no-body", func(p *c10AbeKeyParts) { p.n3, p.k3, p.n3w, p.k3w = 0xffff, nil, 0, nil })
	add("k3-n+1", func(p *c10AbeKeyParts) { p.n3 = len(p.k3) + 1 })
	add("k3-duplicate-label", func(p *c10AbeKeyParts) { p.k3 = append(p.k3, p.k3[0]) })
	add("k3wild-n-0", func(p *c10AbeKeyParts) { p.k3w = nil })
	add("k3wild-n-FFFF-no-body", func(p *c10AbeKeyParts) { p.n3w, p.k3w = 0xffff, nil })
	add("k3wild-n+1", func(p *c10AbeKeyParts) { p.n3w = len(p.k3w) + 1 })
	add("k3wild-missing-section", func(p *c10AbeKeyParts) { p.n3w, p.k3w = 0, nil; p.tail = nil })
	add("k3wild-for-EU-only", func(p *c10AbeKeyParts) { p.k3w = [][2][]byte{{[]byte("EU"), p.k3w[0][1]}} })
	add("EU-wild-with-k3wild", func(p *c10AbeKeyParts) {
		setWild(p, "EU", 1)
		p.k3w = append([][2][]byte{{[]byte("EU"), p.k3w[0][1]}}, p.k3w...)
	})
	add("country-wild-without-k3wild", func(p *c10AbeKeyParts) { setWild(p, "country", 1) })
	add("trailing", func(p *c10AbeKeyParts) { p.tail = []byte{0} })
	for _, d := range [][3]int{{0, 0, 0}, {1, 1, 1}, {0, 5, 0}, {5, 0, 0}, {1, 2, 2}, {2, 1, 2}, {1, 3, 3}, {0xffff, 0xffff, 0}} {
		d := d
		n := fmt.Sprintf("%dx%d", d[0], d[1])
		add("k1-"+n, func(p *c10AbeKeyParts) { p.k1 = c10AbeMatrix(p.k1, d[0], d[1], d[2]) })
		add("k2-"+n, func(p *c10AbeKeyParts) { p.k2 = c10AbeMatrix(p.k2, d[0], d[1], d[2]) })
		add("k3[EU]-"+n, func(p *c10AbeKeyParts) {
			i := idx(p.k3, "EU")
			p.k3[i] = [2][]byte{p.k3[i][0], c10AbeMatrix(p.k3[i][1], d[0], d[1], d[2])}
		})
		add("k3-all-"+n, func(p *c10AbeKeyParts) {
			for i := range p.k3 {
				p.k3[i] = [2][]byte{p.k3[i][0], c10AbeMatrix(p.k3[i][1], d[0], d[1], d[2])}
			}
		})
		add("k3wild[bk]-"+n, func(p *c10AbeKeyParts) {
			p.k3w[0] = [2][]byte{p.k3w[0][0], c10AbeMatrix(p.k3w[0][1], d[0], d[1], d[2])}
		})
	}
	add("k1-empty", func(p *c10AbeKeyParts) { p.k1 = nil })
	add("k2-empty", func(p *c10AbeKeyParts) { p.k2 = nil })
	add("k1-is-k2", func(p *c10AbeKeyParts) { p.k1 = p.k2 })
	add("k2-is-k1", func(p *c10AbeKeyParts) { p.k2 = p.k1 })
	add("k2-transposed", func(p *c10AbeKeyParts) {
		r := int(binary.LittleEndian.Uint16(p.k2))
		p.k2 = c10AbeMatrix(p.k2, 1, r, r)
	})
	add("k1-transposed", func(p *c10AbeKeyParts) {
		r := int(binary.LittleEndian.Uint16(p.k1))
		p.k1 = c10AbeMatrix(p.k1, 1, r, r)
	})
	out = append(out, kit.Named{Name: "key-of-other-attributes", Data: f.pakOther}, kit.Named{Name: "repository-fixture-key", Data: f.tdPak},
		kit.Named{Name: "public-key", Data: f.ppk}, kit.Named{Name: "system-secret-key", Data: f.pmsk}, kit.Named{Name: "ciphertext", Data: f.ctAnd})
	return out
}

// c10AbeParamExtras: matrices of hostile dimensions inside a public key / system secret key
// (sequence of len16-prefixed matrices; the secret key ends with the len16-prefixed PRF key).
func c10AbeParamExtras(valid []byte, nMat int) []kit.Named {
	var parts [][]byte
	rest := valid
	for len(rest) > 0 {
		var m []byte
		m, rest = c10AbeCut(rest, 2)
		parts = append(parts, m)
	}
	var out []kit.Named
	build := func(ps [][]byte) []byte {
		var o []byte
		for _, m := range ps {
			o = append(o, c10AbeLP16(m)...)
		}
		return o
	}
	for i := 0; i < nMat; i++ {
		for _, d := range [][3]int{{0, 0, 0}, {1, 1, 1}, {0, 5, 0}, {5, 0, 0}, {0xffff, 0xffff, 0}, {0xffff, 0, 0}} {
			ps := append([][]byte{}, parts...)
			ps[i] = c10AbeMatrix(parts[i], d[0], d[1], d[2])
			out = append(out, kit.Named{Name: fmt.Sprintf("matrix[%d]-%dx%d", i, d[0], d[1]), Data: build(ps)})
		}
		ps := append([][]byte{}, parts...)
		ps[i] = nil
		out = append(out, kit.Named{Name: fmt.Sprintf("matrix[%d]-empty", i), Data: build(ps)})
		ps = append([][]byte{}, parts...)
		ps[i] = parts[i][:3]
		out = append(out, kit.Named{Name: fmt.Sprintf("matrix[%d]-3bytes", i), Data: build(ps)})
		ps = append([][]byte{}, parts...)
		ps[i] = parts[(i+1)%nMat]
		out = append(out, kit.Named{Name: fmt.Sprintf("matrix[%d]-replaced-by-next", i), Data: build(ps)})
		out = append(out, kit.Named{Name: fmt.Sprintf("only-first-%d-parts", i), Data: build(parts[:i])})
		out = append(out, kit.Named{Name: fmt.Sprintf("len-FFFF-at-part-%d", i), Data: c10AbeCat(build(parts[:i]), c10AbeU16(0xffff), parts[i])})
	}
	if len(parts) > nMat { // PRF key
		for _, n := range []int{0, 1, 15, 17, 65535} {
			ps := append([][]byte{}, parts...)
			ps[nMat] = bytes.Repeat([]byte{0x5a}, n)
			out = append(out, kit.Named{Name: fmt.Sprintf("prfkey-%d", n), Data: build(ps)})
		}
	}
	return out
}

func c10AbePolicyStrings() []kit.Named {
	rep := strings.Repeat
	x := []kit.Named{
		{"open-paren", []byte("(")}, {"close-paren", []byte(")")}, {"colon", []byte(":")}, {"ident", []byte("a")}, {"ident-colon", []byte("a:")},
		{"colon-ident", []byte(":b")}, {"unterminated-group", []byte("(a:b")}, {"unterminated-group-2", []byte("((a:b)")}, {"extra-close", []byte("a:b)")},
		{"dangling-and", []byte("a:b and")}, {"dangling-or", []byte("a:b or")}, {"dangling-not", []byte("not")}, {"dangling-not-2", []byte("a:b and not")},
		{"leading-and", []byte("and a:b")}, {"double-and", []byte("a:b and and c:d")}, {"and-or", []byte("a:b and or c:d")},
		{"keywords-as-identifiers", []byte("and:or")}, {"keyword-value", []byte("a:and")}, {"keyword-key", []byte("not:b")}, {"not-not", []byte("not not a:b")},
		{"two-literals", []byte("a:b c:d")}, {"double-colon", []byte("a::b")}, {"triple", []byte("a:b:c")}, {"literal-then-paren", []byte("a:b (c:d)")},
		{"literal-then-not", []byte("a:b not c:d")}, {"empty-group", []byte("()")}, {"group-of-not", []byte("(not)")}, {"ident-eof-after-colon", []byte("a: ")},
		{"ident-colon-paren", []byte("a:(b)")}, {"nul", []byte("a:b\x00")}, {"nul-inside", []byte("a\x00:b")}, {"only-nul", []byte{0}},
		{"high-bytes", []byte("\xff\xfe:\x80")}, {"utf8", []byte("ключ:значение")}, {"utf8-bom", []byte("\xef\xbb\xbfa:b")}, {"quotes", []byte("a:\"b c\"")},
		{"single-quotes", []byte("a:'b'")}, {"newlines", []byte("a:b\nand\r\n\tc:d\n")}, {"only-spaces", []byte("   \n\t")}, {"same-attribute-twice", []byte("a:b and a:b")},
		{"same-key-3-values", []byte("a:1 or a:2 or a:3")}, {"not-group", []byte("not (a:b and c:d)")}, {"not-not-group", []byte("not not (a:b or not c:d)")},
		{"bk-attribute-label", []byte("internal_boneh_katz_transform_attribute:x")}, {"digits", []byte("1:2")}, {"underscore", []byte("_:_")},
		{"deep-parens-10000", []byte(rep("(", 10000) + "a:b" + rep(")", 10000))}, {"deep-parens-10000-unclosed", []byte(rep("(", 10000) + "a:b")},
		{"deep-parens-only-10000", []byte(rep("(", 10000))}, {"close-parens-10000", []byte(rep(")", 10000))},
		{"not-100000", []byte(rep("not ", 100000) + "a:b")}, {"not-100000-dangling", []byte(rep("not ", 100000))}, {"not-paren-5000", []byte(rep("not (", 5000) + "a:b" + rep(")", 5000))},
		{"identifier-1MiB", []byte(rep("a", 1<<20) + ":b")}, {"value-1MiB", []byte("a:" + rep("b", 1<<20))}, {"identifier-1MiB-alone", []byte(rep("a", 1<<20))},
		{"and-chain-2000", []byte("a:b" + rep(" and a:b", 2000))}, {"or-chain-2000", []byte("a0:b" + rep(" or c:d", 2000))},
		{"mixed-chain-1000", []byte("a:b" + rep(" and (c:d or not e:f)", 1000))}, {"colons-10000", []byte(rep(":", 10000))}, {"bad-chars-10000", []byte(rep("#", 10000))},
		{"not-chain-with-wires", []byte("a:b" + rep(" and x:y", 300) + " and " + rep("not ", 3000) + "c:d")},
		// recursion depth: >= 1.07 kB of stack per '(' and >= 0.54 kB per "not" in the recursive-descent parser;
		// sized to exceed the runtime's default 1 GB stack limit (the workers keep the default)
		{"deep-parens-1500000", []byte(rep("(", 1500000))}, {"not-2500000", []byte(rep("not ", 2500000))},
	}
	return x
}

func c10AbeRows() []*kit.Row {
	const P = "abe/cpabe/tkn20."
	const T = "abe/cpabe/tkn20/internal/tkn."
	var rows []*kit.Row
	rows = append(rows, &kit.Row{Name: P + "PublicKey.UnmarshalBinary", Cost: kit.VSlow,
		Covers: []string{P + "PublicKey.UnmarshalBinary", T + "PublicParams.UnmarshalBinary"},
		Setup: func() *kit.Inst {
			f := c10AbeFixture()
			return &kit.Inst{Bases: [][]byte{f.ppk, f.tdPpk},
				Call:   func(in []byte) error { var k tkn20.PublicKey; return k.UnmarshalBinary(in) },
				Extras: append(c10AbeParamExtras(f.ppk, 3), kit.Named{Name: "system-secret-key", Data: f.pmsk}, kit.Named{Name: "attribute-key", Data: f.pak})}
		}})
	rows = append(rows, &kit.Row{Name: P + "SystemSecretKey.UnmarshalBinary", Cost: kit.Medium,
		Covers: []string{P + "SystemSecretKey.UnmarshalBinary", T + "SecretParams.UnmarshalBinary"},
		Setup: func() *kit.Inst {
			f := c10AbeFixture()
			return &kit.Inst{Bases: [][]byte{f.pmsk, c10AbeRepoFile("secretKey")},
				Call:   func(in []byte) error { var k tkn20.SystemSecretKey; return k.UnmarshalBinary(in) },
				Extras: append(c10AbeParamExtras(f.pmsk, 5), kit.Named{Name: "public-key", Data: f.ppk}, kit.Named{Name: "attribute-key", Data: f.pak})}
		}})
	rows = append(rows, &kit.Row{Name: P + "AttributeKey.UnmarshalBinary(+Decrypt)", Cost: kit.VSlow,
		Covers: []string{P + "AttributeKey.UnmarshalBinary", P + "AttributeKey.Decrypt", T + "AttributesKey.UnmarshalBinary", T + "DecryptCCA"},
		Note: "an accepted attribute key decrypts two honest ciphertexts (a positive policy and one with a negated attribute); Decrypt may fail but must return. " +
			"No separate UnmarshalBinary-only row: parsing alone already costs milliseconds (subgroup checks of ~25 points), this row does strictly more",
		Setup: func() *kit.Inst {
			f := c10AbeFixture()
			return &kit.Inst{Bases: [][]byte{f.pak, f.tdPak},
				Call: func(in []byte) error {
					var k tkn20.AttributeKey
					if err := k.UnmarshalBinary(in); err != nil {
						return err
					}
					_, _ = k.Decrypt(f.ctAnd)
					_, _ = k.Decrypt(f.ctNeg)
					return nil
				},
				Extras: c10AbeKeyExtras(f)}
		}})
	type ctRow struct {
		name   string
		covers []string
		cost   int
		note   string
		call   func(f *c10AbeFix, old bool) func(in []byte) error
	}
	ctRows := []ctRow{
		{"AttributeKey.Decrypt#ciphertext", []string{P + "AttributeKey.Decrypt", T + "DecryptCCA"}, kit.VSlow, "",
			func(f *c10AbeFix, old bool) func(in []byte) error {
				ak := &f.ak
				if old {
					ak = &f.tdAk
				}
				return func(in []byte) error { _, err := ak.Decrypt(in); return err }
			}},
		{"Attributes.CouldDecrypt#ciphertext", []string{P + "Attributes.CouldDecrypt", T + "CouldDecrypt"}, kit.VSlow, "",
			func(f *c10AbeFix, old bool) func(in []byte) error {
				return func(in []byte) error { return c10Bool(f.attrs.CouldDecrypt(in)) }
			}},
		{"Policy.ExtractFromCiphertext#ciphertext", []string{P + "Policy.ExtractFromCiphertext", T + "Policy.ExtractFromCiphertext", T + "Policy.UnmarshalBinary", T + "Formula.UnmarshalBinary", T + "Wire.UnmarshalBinary"}, kit.VSlow,
			"extraction only",
			func(f *c10AbeFix, old bool) func(in []byte) error {
				return func(in []byte) error { var p tkn20.Policy; return p.ExtractFromCiphertext(in) }
			}},
		{"Policy.ExtractFromCiphertext(+String,ExtractAttributeValuePairs,Satisfaction)#ciphertext", []string{P + "Policy.ExtractFromCiphertext", T + "Policy.ExtractFromCiphertext"}, kit.VSlow,
			"the extracted policy is printed, listed and evaluated against an attribute set",
			func(f *c10AbeFix, old bool) func(in []byte) error {
				return func(in []byte) error {
					var p tkn20.Policy
					if err := p.ExtractFromCiphertext(in); err != nil {
						return err
					}
					_ = p.String()
					_ = p.ExtractAttributeValuePairs()
					_ = p.Satisfaction(f.attrs)
					return nil
				}
			}},
	}
	for _, cr := range ctRows {
		cr := cr
		rows = append(rows, &kit.Row{Name: P + cr.name, Covers: cr.covers, Cost: cr.cost, Note: cr.note,
			Setup: func() *kit.Inst {
				f := c10AbeFixture()
				return &kit.Inst{Bases: [][]byte{f.ctNeg, f.ctAnd, f.ctOr}, Call: cr.call(f, false), Extras: c10AbeCtExtras(f)}
			}})
		rows = append(rows, &kit.Row{Name: P + cr.name + "[v1.3.7 format]", Covers: cr.covers, Cost: cr.cost,
			Note: "ciphertext in the narrower length-prefix format of circl <= v1.3.7 (repository fixture ciphertext_v137 and its attribute key)",
			Setup: func() *kit.Inst {
				f := c10AbeFixture()
				return &kit.Inst{Bases: [][]byte{f.tdCtOld}, Call: cr.call(f, true),
					Extras: []kit.Named{{"new-format-fixture", f.tdCt}, {"other-system-ciphertext", f.ctAnd}}}
			}})
	}
	rows = append(rows, &kit.Row{Name: P + "Policy.FromString#policy", Cost: kit.Cheap,
		Covers: []string{P + "Policy.FromString"},
		Note:   "an accepted policy is printed, listed and evaluated (String, ExtractAttributeValuePairs, Satisfaction)",
		Setup: func() *kit.Inst {
			attrs := tkn20.Attributes{}
			attrs.FromMap(map[string]string{"country": "NL", "EU": "true", "a": "1", "c": "3"})
			return &kit.Inst{Bases: [][]byte{[]byte(c10AbePolOr), []byte("not (a:1 or not b:2) and (c:3 or (d:4 and e_5:x_y))"), []byte("x:y")},
				Call: func(in []byte) error {
					var p tkn20.Policy
					if err := p.FromString(string(in)); err != nil {
						return err
					}
					_ = p.String()
					_ = p.ExtractAttributeValuePairs()
					_ = p.Satisfaction(attrs)
					return nil
				},
				Extras: c10AbePolicyStrings()}
		}})
	return rows
}

// ---------------------------------------------------------------------------------------------
// pki

type c10AbePkiKey struct {
	name           string
	s              sign.Scheme
	pk             sign.PublicKey
	sk             sign.PrivateKey
	rawPk, rawSk   []byte
	pkixPk, pkixSk []byte
	pemPk, pemSk   []byte
	oid            asn1.ObjectIdentifier
}

func c10AbePkiKeygen(s sign.Scheme) *c10AbePkiKey {
	k := &c10AbePkiKey{name: s.Name(), s: s}
	k.pk, k.sk = s.DeriveKey(c10Shake("pki/"+s.Name(), s.SeedSize()))
	var err error
	k.rawPk, err = k.pk.MarshalBinary()
	c10Must(err)
	k.rawSk, err = k.sk.MarshalBinary()
	c10Must(err)
	k.pkixPk, err = pki.MarshalPKIXPublicKey(k.pk)
	c10Must(err)
	k.pkixSk, err = pki.MarshalPKIXPrivateKey(k.sk)
	c10Must(err)
	k.pemPk, err = pki.MarshalPEMPublicKey(k.pk)
	c10Must(err)
	k.pemSk, err = pki.MarshalPEMPrivateKey(k.sk)
	c10Must(err)
	k.oid = s.(pki.CertificateScheme).Oid()
	return k
}

type c10AbeSpki struct {
	Algorithm pkix.AlgorithmIdentifier
	PublicKey asn1.BitString
}

type c10AbePkcs8 struct {
	Version    int
	Algorithm  pkix.AlgorithmIdentifier
	PrivateKey []byte
}

func c10AbeDer(v interface{}) []byte {
	b, err := asn1.Marshal(v)
	c10Must(err)
	return b
}

func c10AbePem(typ string, der []byte) []byte {
	return pem.EncodeToMemory(&pem.Block{Type: typ, Bytes: der})
}

// c10AbePkiExtras: hostile DER for the given key and a foreign one; pub selects SubjectPublicKeyInfo / PKCS#8.
func c10AbePkiExtras(k, other *c10AbePkiKey, pub, asPem bool) []kit.Named {
	var ders []kit.Named
	d := func(name string, b []byte) { ders = append(ders, kit.Named{Name: name, Data: b}) }
	alg := func(oid asn1.ObjectIdentifier) pkix.AlgorithmIdentifier {
		return pkix.AlgorithmIdentifier{Algorithm: oid}
	}
	bits := func(b []byte) asn1.BitString { return asn1.BitString{Bytes: b, BitLength: 8 * len(b)} }
	unknown := asn1.ObjectIdentifier{1, 2, 3, 4}
	rsaOid := asn1.ObjectIdentifier{1, 2, 840, 113549, 1, 1, 1}
	// not ecdsa.GenerateKey: it consumes a random number of bytes (randutil.MaybeReadByte), so even a
	// deterministic reader gives one of two keys
	ecKey := new(ecdsa.PrivateKey)
	ecKey.Curve = elliptic.P256()
	ecKey.D = new(big.Int).SetBytes(c10Shake("pki/ecdsa-d", 31))
	ecKey.X, ecKey.Y = elliptic.P256().ScalarBaseMult(ecKey.D.Bytes())
	ecSpki, err := x509.MarshalPKIXPublicKey(&ecKey.PublicKey)
	c10Must(err)
	ecP8, err := x509.MarshalPKCS8PrivateKey(ecKey)
	c10Must(err)
	if pub {
		d("unknown-oid", c10AbeDer(c10AbeSpki{alg(unknown), bits(k.rawPk)}))
		d("rsa-oid", c10AbeDer(c10AbeSpki{alg(rsaOid), bits(k.rawPk)}))
		d("own-oid-foreign-key-bytes", c10AbeDer(c10AbeSpki{alg(k.oid), bits(other.rawPk)}))
		d("foreign-oid-own-key-bytes", c10AbeDer(c10AbeSpki{alg(other.oid), bits(k.rawPk)}))
		d("own-oid-private-key-bytes", c10AbeDer(c10AbeSpki{alg(k.oid), bits(k.rawSk)}))
		d("bitstring-empty", c10AbeDer(c10AbeSpki{alg(k.oid), bits(nil)}))
		d("bitstring-1byte", c10AbeDer(c10AbeSpki{alg(k.oid), bits([]byte{1})}))
		d("bitstring-key-minus-1", c10AbeDer(c10AbeSpki{alg(k.oid), bits(k.rawPk[:len(k.rawPk)-1])}))
		d("bitstring-key-plus-1", c10AbeDer(c10AbeSpki{alg(k.oid), bits(append(append([]byte{}, k.rawPk...), 0))}))
		d("bitstring-7-unused-bits", c10AbeDer(c10AbeSpki{alg(k.oid), asn1.BitString{Bytes: k.rawPk, BitLength: 8*len(k.rawPk) - 7}}))
		d("bitstring-1-unused-bit", c10AbeDer(c10AbeSpki{alg(k.oid), asn1.BitString{Bytes: k.rawPk, BitLength: 8*len(k.rawPk) - 1}}))
		d("bitstring-1-bit", c10AbeDer(c10AbeSpki{alg(k.oid), asn1.BitString{Bytes: []byte{0x80}, BitLength: 1}}))
		d("params-null", c10AbeDer(c10AbeSpki{pkix.AlgorithmIdentifier{Algorithm: k.oid, Parameters: asn1.NullRawValue}, bits(k.rawPk)}))
		d("key-as-octet-string", c10AbeDer(struct {
			A pkix.AlgorithmIdentifier
			K []byte
		}{alg(k.oid), k.rawPk}))
		d("ecdsa-p256-spki", ecSpki)
		d("pkcs8-of-same-key", k.pkixSk)
		d("foreign-spki", other.pkixPk)
		d("trailing-data", append(append([]byte{}, k.pkixPk...), 0))
		d("trailing-second-spki", append(append([]byte{}, k.pkixPk...), k.pkixPk...))
		d("bitstring-truncated", k.pkixPk[:len(k.pkixPk)-1])
	} else {
		inner := func(b []byte) []byte { return c10AbeDer(b) }
		d("unknown-oid", c10AbeDer(c10AbePkcs8{0, alg(unknown), inner(k.rawSk)}))
		d("rsa-oid", c10AbeDer(c10AbePkcs8{0, alg(rsaOid), inner(k.rawSk)}))
		d("own-oid-foreign-key-bytes", c10AbeDer(c10AbePkcs8{0, alg(k.oid), inner(other.rawSk)}))
		d("foreign-oid-own-key-bytes", c10AbeDer(c10AbePkcs8{0, alg(other.oid), inner(k.rawSk)}))
		d("own-oid-public-key-bytes", c10AbeDer(c10AbePkcs8{0, alg(k.oid), inner(k.rawPk)}))
		d("inner-empty-octets", c10AbeDer(c10AbePkcs8{0, alg(k.oid), inner(nil)}))
		d("inner-missing", c10AbeDer(c10AbePkcs8{0, alg(k.oid), nil}))
		d("inner-not-wrapped", c10AbeDer(c10AbePkcs8{0, alg(k.oid), k.rawSk}))
		d("inner-trailing", c10AbeDer(c10AbePkcs8{0, alg(k.oid), append(inner(k.rawSk), 0)}))
		d("inner-key-minus-1", c10AbeDer(c10AbePkcs8{0, alg(k.oid), inner(k.rawSk[:len(k.rawSk)-1])}))
		d("inner-key-plus-1", c10AbeDer(c10AbePkcs8{0, alg(k.oid), inner(append(append([]byte{}, k.rawSk...), 0))}))
		d("inner-seed-only", c10AbeDer(c10AbePkcs8{0, alg(k.oid), inner(c10Shake("pki/seed", k.s.SeedSize()))}))
		d("inner-is-integer", c10AbeDer(c10AbePkcs8{0, alg(k.oid), c10AbeDer(5)}))
		d("inner-length-lies", c10AbeDer(c10AbePkcs8{0, alg(k.oid), []byte{0x04, 0x82, 0xff, 0xff, 1, 2, 3}}))
		d("version-1", c10AbeDer(c10AbePkcs8{1, alg(k.oid), inner(k.rawSk)}))
		d("version-negative", c10AbeDer(c10AbePkcs8{-1, alg(k.oid), inner(k.rawSk)}))
		d("params-null", c10AbeDer(c10AbePkcs8{0, pkix.AlgorithmIdentifier{Algorithm: k.oid, Parameters: asn1.NullRawValue}, inner(k.rawSk)}))
		d("ecdsa-p256-pkcs8", ecP8)
		d("spki-of-same-key", k.pkixPk)
		d("foreign-pkcs8", other.pkixSk)
		d("trailing-data", append(append([]byte{}, k.pkixSk...), 0))
		d("truncated", k.pkixSk[:len(k.pkixSk)-1])
	}
	d("garbage", c10Shake("pki/garbage", 64))
	d("sequence-empty", []byte{0x30, 0x00})
	d("sequence-length-lies", []byte{0x30, 0x82, 0xff, 0xff, 0x30, 0x00})
	d("sequence-indefinite-length", []byte{0x30, 0x80, 0x00, 0x00})
	d("sequence-length-2^63", []byte{0x30, 0x88, 0x80, 0, 0, 0, 0, 0, 0, 0})
	d("deep-nesting", bytes.Repeat([]byte{0x30, 0x80}, 5000))
	if !asPem {
		ders = append(ders, kit.Named{Name: "pem-instead-of-der", Data: k.pemPk})
		return ders
	}
	typ, good, wrong := "PRIVATE KEY", k.pkixSk, k.pkixPk
	if pub {
		typ, good, wrong = "PUBLIC KEY", k.pkixPk, k.pkixSk
	}
	var out []kit.Named
	for _, e := range ders {
		out = append(out, kit.Named{Name: "pem(" + e.Name + ")", Data: c10AbePem(typ, e.Data)})
	}
	p := func(name string, b []byte) { out = append(out, kit.Named{Name: name, Data: b}) }
	p("not-pem", []byte("this is not PEM\n"))
	p("newline-only", []byte("\n"))
	p("der-instead-of-pem", good)
	p("begin-line-only", []byte("-----BEGIN "+typ+"-----\n"))
	p("no-end-line", bytes.Split(c10AbePem(typ, good), []byte("-----END"))[0])
	p("wrong-end-line", bytes.Replace(c10AbePem(typ, good), []byte("-----END "+typ), []byte("-----END CERTIFICATE"), 1))
	p("type-certificate", c10AbePem("CERTIFICATE", good))
	p("type-empty", c10AbePem("", good))
	p("type-other-kind", c10AbePem(map[bool]string{true: "PRIVATE KEY", false: "PUBLIC KEY"}[pub], good))
	p("type-other-kind-matching-der", c10AbePem(map[bool]string{true: "PRIVATE KEY", false: "PUBLIC KEY"}[pub], wrong))
	p("type-with-prefix", c10AbePem("FANCY "+typ, good))
	p("type-lowercase", c10AbePem(strings.ToLower(typ), good))
	p("type-suffix-only-match", c10AbePem("X"+typ, good))
	p("empty-body", c10AbePem(typ, nil))
	p("with-headers", pem.EncodeToMemory(&pem.Block{Type: typ, Headers: map[string]string{"Proc-Type": "4,ENCRYPTED", "DEK-Info": "AES-128-CBC,00"}, Bytes: good}))
	p("two-blocks", append(c10AbePem(typ, good), c10AbePem(typ, good)...))
	p("leading-garbage", append([]byte("garbage\n"), c10AbePem(typ, good)...))
	p("trailing-garbage", append(c10AbePem(typ, good), []byte("garbage")...))
	p("trailing-newline", append(c10AbePem(typ, good), '\n'))
	p("crlf", bytes.ReplaceAll(c10AbePem(typ, good), []byte("\n"), []byte("\r\n")))
	p("no-final-newline", bytes.TrimRight(c10AbePem(typ, good), "\n"))
	p("body-not-base64", []byte("-----BEGIN "+typ+"-----\n!!!!\n-----END "+typ+"-----\n"))
	p("foreign-pem", map[bool][]byte{true: other.pemPk, false: other.pemSk}[pub])
	p("other-kind-pem", map[bool][]byte{true: k.pemSk, false: k.pemPk}[pub])
	return out
}

func c10AbePkiRows() []*kit.Row {
	var rows []*kit.Row
	type grp struct {
		name string
		s    []sign.Scheme
		cost int
	}
	groups := []grp{
		{"Ed25519,Ed448", []sign.Scheme{ed25519.Scheme(), ed448.Scheme()}, kit.Cheap},
		{"ML-DSA-44,EdDilithium2", []sign.Scheme{mldsa44.Scheme(), eddilithium2.Scheme()}, kit.Medium},
	}
	type fn struct {
		name     string
		pub, pem bool
		call     func(in []byte) error
	}
	fns := []fn{
		{"UnmarshalPEMPublicKey", true, true, func(in []byte) error { _, err := pki.UnmarshalPEMPublicKey(in); return err }},
		{"UnmarshalPEMPrivateKey", false, true, func(in []byte) error { _, err := pki.UnmarshalPEMPrivateKey(in); return err }},
		{"UnmarshalPKIXPublicKey", true, false, func(in []byte) error { _, err := pki.UnmarshalPKIXPublicKey(in); return err }},
		{"UnmarshalPKIXPrivateKey", false, false, func(in []byte) error { _, err := pki.UnmarshalPKIXPrivateKey(in); return err }},
	}
	for _, g := range groups {
		g := g
		for _, f := range fns {
			f := f
			rows = append(rows, &kit.Row{Name: "pki." + f.name + "[" + g.name + "]", Covers: []string{"pki." + f.name}, Cost: g.cost,
				Setup: func() *kit.Inst {
					a, b := c10AbePkiKeygen(g.s[0]), c10AbePkiKeygen(g.s[1])
					sel := func(k *c10AbePkiKey) []byte {
						switch {
						case f.pub && f.pem:
							return k.pemPk
						case f.pem:
							return k.pemSk
						case f.pub:
							return k.pkixPk
						}
						return k.pkixSk
					}
					inst := &kit.Inst{Bases: [][]byte{sel(a), sel(b)}, Call: f.call}
					for _, e := range c10AbePkiExtras(a, b, f.pub, f.pem) {
						inst.Extras = append(inst.Extras, kit.Named{Name: a.name + ":" + e.Name, Data: e.Data})
					}
					for _, e := range c10AbePkiExtras(b, a, f.pub, f.pem) {
						inst.Extras = append(inst.Extras, kit.Named{Name: b.name + ":" + e.Name, Data: e.Data})
					}
					return inst
				}})
		}
	}
	return rows
}

func c10RowsAbe() []*kit.Row {
	return append(c10AbeRows(), c10AbePkiRows()...)
}

func init() { c10Register("abe", c10RowsAbe) }

func TestVerifC10_abe(t *testing.T) { c10Run(t, "abe") }
