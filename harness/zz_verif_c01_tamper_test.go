//go:build verif

package circl_test

// C01 levels 1 and 2: every alteration of an honest ciphertext, for every scheme and key seed.
//
// Alterations of a ciphertext ct of n bytes (all of them enumerated, none sampled):
//   flip:<b>      every single-bit flip (FrodoKEM in the quick tier: the declared sub-alphabet of
//                 verifmc.BitPositions — every bit of the first and last 64 bytes, bit 0 of every 64th byte)
//   fill:00/FF    the all-zero and all-0xFF string
//   foreign:k<j>  the ciphertext made with the same encapsulation seed for every other key seed
//   honest:e<i>   another honest ciphertext of the same key (must decapsulate to *its* secret)
//   swap          the component ciphertexts of a composite scheme exchanged
//   edit:<j>      pseudo-random multi-byte overwrites (fixed SHAKE256 stream, lengths 1..64), random: the whole string
//   lowX:<s>:<i>  the raw X25519/X448 share replaced by each low-order / non-canonical u-coordinate
//   negY:<s>      the NIST-curve point replaced by its negative (same x, y' = p - y)
//   pair:<a>:<b>  every pair of bit flips inside three 16-bit windows (start, component boundary, end)
//
// Oracle: the decapsulation model /verif/ref/c01kem (exact expected secret or "must fail"), and on top
// of it the relations the property states: no panic; deterministic; the restored (marshalled and
// unmarshalled) key answers identically; never the honest secret unless the model says that the altered
// bits are not bound (masked bit of a raw X25519 share, sign of a raw P-256 share); ML-KEM, Kyber,
// FrodoKEM, X-Wing never fail; their answers are pairwise distinct over all alterations (depends on the
// ciphertext) and change when only the implicit-rejection secret z of the private key is changed
// (depends on the private key).

import (
	"bytes"
	"crypto/elliptic"
	"crypto/sha256"
	"fmt"
	"math/big"
	"sort"
	"strings"
	"sync"
	"testing"

	"github.com/cloudflare/circl/internal/verifmc"
	"github.com/cloudflare/circl/kem"
)

// c01LowOrderU lists the u-coordinates of small order (and their non-canonical aliases) for a share size.
func c01LowOrderU(size int) [][]byte {
	le := func(x *big.Int) []byte {
		b := x.FillBytes(make([]byte, size))
		for i, j := 0, size-1; i < j; i, j = i+1, j-1 {
			b[i], b[j] = b[j], b[i]
		}
		return b
	}
	one := big.NewInt(1)
	var p *big.Int
	var out [][]byte
	if size == 32 {
		p = new(big.Int).Sub(new(big.Int).Lsh(one, 255), big.NewInt(19))
		o8a, _ := new(big.Int).SetString("325606250916557431795983626356110631294008115727848805560023387167927233504", 10)
		o8b, _ := new(big.Int).SetString("39382357235489614581723060781553021112529911719440698176882885853963445705823", 10)
		out = append(out, le(o8a), le(o8b))
	} else {
		p = new(big.Int).Sub(new(big.Int).Sub(new(big.Int).Lsh(one, 448), new(big.Int).Lsh(one, 224)), one)
	}
	out = append(out, le(big.NewInt(0)), le(one), le(new(big.Int).Sub(p, one)), le(p), le(new(big.Int).Add(p, one)))
	if size == 32 {
		// the same with the masked bit 255 set, and 2p, 2p+1 (< 2^256)
		for _, u := range out[:7] {
			v := c01Clone(u)
			v[31] |= 0x80
			out = append(out, v)
		}
	}
	return out
}

func c01FieldPrime(field int) *big.Int {
	switch field {
	case 32:
		return elliptic.P256().Params().P
	case 48:
		return elliptic.P384().Params().P
	case 66:
		return elliptic.P521().Params().P
	}
	panic("c01: unknown field size")
}

// c01PairWindows returns the first bit of each 16-bit window for pair flips.
func c01PairWindows(n int, boundaries []int) []int {
	w := []int{0}
	if len(boundaries) == 0 {
		w = append(w, (n/2)*8-8)
	}
	for _, b := range boundaries {
		w = append(w, b*8-8)
	}
	return append(w, n*8-16)
}

type c01TamperBase struct {
	s        *c01Scheme
	ki       int
	kseed    []byte
	eseed    []byte
	k        *c01Keys
	skZ      kem.PrivateKey // same key with another implicit-rejection secret (nil if the scheme has none)
	skbZ     []byte
	ct, ss   []byte
	pqRanges [][2]int   // ciphertext ranges of the components that own an implicit-rejection secret
	foreign  []c01Named // ciphertexts made for the other key seeds
	others   []c01Named // other honest ciphertexts of this key

	plan    c01Plan
	mu      sync.Mutex
	seenSS  map[string]string // implicit-rejection answers seen so far -> digest of the altered ciphertext
	unbound []string          // alterations that legitimately kept the secret
	count   int               // alterations enumerated (set by slice 0)
	nbits   int
	allBits bool
}

type c01Named struct {
	name string
	data []byte
}

// c01Plan is the bound of one scheme in one (tier, configuration).
type c01Plan struct {
	keySeeds  int // how many seeds of the alphabet (0 = all)
	flipMode  int // 0 = every bit, 1 = verifmc.BitPositions sub-alphabet (first/last 64 bytes + bit 0 of every 64th byte), 2 = bit 0 of every 64th byte
	fullSeeds int // key seeds below this index get every bit whatever flipMode says
	slices    int // parallel work items per (scheme, key seed)
	detEvery  int // the restored-key second call is made on every detEvery-th flip (always on the other alterations)
	zEvery    int // the z-variant key is asked on every zEvery-th flip
	fullEvery int // the exact model is consulted on every fullEvery-th alteration even when the fast model agrees
	pairs     int // flip pairs: 0 = none, 1 = key seed #0 only, 2 = every key seed
}

// c01PlanFor: FrodoKEM (about 1 ms per decapsulation, 77 760 ciphertext bits) and the schemes whose model
// needs a math/big X448 ladder per altered share are the expensive ones.
func c01PlanFor(r *verifmc.Run, s *c01Scheme) c01Plan {
	frodo := s.m.Parts[0].Label() == "FrodoKEM-640-SHAKE"
	heavy := frodo || strings.Contains(s.tag, "X448")
	def := r.Config() == "default"
	switch {
	case r.Thorough() && def:
		p := c01Plan{keySeeds: 0, slices: 8, detEvery: 1, zEvery: 1, fullEvery: 61, pairs: 2}
		if frodo {
			p = c01Plan{keySeeds: 2, flipMode: 1, fullSeeds: 1, slices: 96, detEvery: 16, zEvery: 16, pairs: 1}
		}
		return p
	case r.Thorough() || def: // thorough in the other configurations = quick in the default one
		p := c01Plan{keySeeds: 2, slices: 8, detEvery: 4, zEvery: 8, fullEvery: 509, pairs: 1}
		if heavy {
			p.keySeeds = 1
		}
		if frodo {
			p.flipMode, p.detEvery, p.zEvery, p.pairs = 1, 16, 16, 0
		}
		return p
	default: // quick, non-default configuration
		p := c01Plan{keySeeds: 1, slices: 8, detEvery: 8, zEvery: 16, fullEvery: 1021, pairs: 0}
		if frodo {
			p.flipMode = 2
		}
		return p
	}
}

func TestVerifC01_tamper(t *testing.T) {
	r := verifmc.Start(t, "C01", "tamper")
	defer r.Finish()
	r.Rule("every (scheme, key seed) x every alteration of the honest ciphertext for encapsulation seed #0 " +
		"(all single-bit flips, fills, foreign and other honest ciphertexts, component swap, multi-byte edits, low-order X shares, " +
		"negated NIST points, all flip pairs in three 16-bit windows); non-trivial = distinct (scheme, key seed, alteration) that was decapsulated " +
		"and compared with the specification model")
	all, _ := c01Schemes(t)
	type job struct {
		s    *c01Scheme
		ki   int
		plan c01Plan
	}
	var jobs []job
	plans := map[string]interface{}{}
	exhaustive := true
	for pass := 0; pass < 2; pass++ { // FrodoKEM last: if a deadline cuts the run, everything else is complete
		for _, s := range all {
			if (s.m.Parts[0].Label() == "FrodoKEM-640-SHAKE") != (pass == 1) {
				continue
			}
			plan := c01PlanFor(r, s)
			ks := c01Take(verifmc.Seeds(s.s.SeedSize(), r.Seed()), plan.keySeeds)
			for ki := range ks {
				jobs = append(jobs, job{s, ki, plan})
			}
			plans[s.tag] = map[string]int{"key_seeds": len(ks), "flip_mode": plan.flipMode, "key_seeds_with_every_bit": plan.fullSeeds, "restored_key_every": plan.detEvery,
				"z_variant_every": plan.zEvery, "pairs": plan.pairs}
			if plan.keySeeds != 0 || plan.flipMode != 0 || plan.pairs != 2 {
				exhaustive = false
			}
		}
	}
	r.Set("schemes", len(all))
	r.Set("plan_per_scheme", plans)
	if !exhaustive {
		r.NotExhaustive("declared sub-alphabets (see plan_per_scheme): fewer key seeds than the seed alphabet has; FrodoKEM bit flips restricted to " +
			"flip_mode 1 (every bit of the first and last 64 bytes, bit 0 of every 64th byte) or 2 (bit 0 of every 64th byte); flip pairs not for every key seed")
	}

	// Jobs are split further so that the big ciphertexts spread over the cores: one work item = (job, slice of the alterations).
	bases := make([]*c01TamperBase, len(jobs))
	verifmc.ParallelFor(len(jobs), func(ji int) {
		j := jobs[ji]
		kcase := fmt.Sprintf("%s/k%d", j.s.tag, j.ki)
		if r.Replaying() && !strings.HasPrefix(r.ReplayCase(), kcase+"/") {
			return
		}
		if bases[ji] = c01TamperSetup(r, j.s, j.ki); bases[ji] != nil {
			bases[ji].plan = j.plan
		}
	})
	type item struct {
		b     *c01TamperBase
		slice int
	}
	var items []item
	for _, b := range bases {
		if b != nil {
			for sl := 0; sl < b.plan.slices; sl++ {
				items = append(items, item{b, sl})
			}
		}
	}
	verifmc.ParallelFor(len(items), func(wi int) { c01TamperRun(r, items[wi].b, items[wi].slice) })
	// samples in a fixed order (independent of the schedule)
	nu := 0
	for i, b := range bases {
		if b == nil {
			continue
		}
		if i == 0 || i == len(bases)-1 {
			r.Sample(map[string]interface{}{"scheme": b.s.tag, "key_seed": verifmc.Hex(b.kseed), "ct_bytes": len(b.ct),
				"alterations_enumerated": b.count, "bit_flips": b.nbits, "all_bits": b.allBits})
		}
		if len(b.unbound) > 0 && nu < 2 {
			sort.Strings(b.unbound)
			r.Sample(map[string]interface{}{"scheme": b.s.tag, "key_seed_index": b.ki, "alterations_that_keep_the_secret": b.unbound,
				"note": "the specification model computes the same secret: these bits are not bound into it"})
			nu++
		}
	}
	if !r.Replaying() {
		r.RequireCounter("implicit_rejection_value_confirmed", int64(1000*len(jobs)/4))
		r.RequireCounter("unbound_alteration_same_secret", 3)
		r.RequireCounter("decapsulation_failed_as_required", 100)
		r.RequireCounter("z_variant_changed_the_answer", 100)
		r.RequireCounter("restored_key_second_call", 1000)
		r.RequireCounter("full_model_consulted", 10)
	}
}

func c01TamperSetup(r *verifmc.Run, s *c01Scheme, ki int) *c01TamperBase {
	sch := s.s
	rep := c01Reporter{r, s.tag}
	b := &c01TamperBase{s: s, ki: ki}
	b.kseed = verifmc.Seeds(sch.SeedSize(), r.Seed())[ki]
	b.eseed = verifmc.Seeds(sch.EncapsulationSeedSize(), r.Seed())[0]
	kcase := fmt.Sprintf("%s/k%d", s.tag, ki)
	var problem string
	if b.k, problem = c01Derive(sch, b.kseed); problem != "" {
		rep.viol("derive-failed", "seed", kcase, nil, "key seed %x: %s", b.kseed, problem)
		return nil
	}
	enc := c01Encaps(sch, b.k.pk, b.eseed)
	if enc.failed() || len(enc.ct) != s.m.CTSize() || len(b.k.skb) != s.m.SKSize() {
		rep.viol("encaps-failed", "seed", kcase, nil, "key seed %x enc seed %x: %s", b.kseed, b.eseed, enc)
		return nil
	}
	b.ct, b.ss = enc.ct, enc.ss
	if got := c01Decaps(sch, b.k.sk, c01Clone(b.ct)); got.failed() || !bytes.Equal(got.ss, b.ss) {
		rep.viol("roundtrip", "honest", kcase, nil, "Decapsulate(sk, ct) = %s, encapsulated %x", got, b.ss)
		return nil
	}
	// the key that differs only in the implicit-rejection secret(s)
	if zr := s.m.ZRanges(); len(zr) > 0 {
		b.skbZ = c01Clone(b.k.skb)
		for _, x := range zr {
			for i := x[0]; i < x[0]+x[1]; i++ {
				b.skbZ[i] ^= 0x5a
			}
		}
		var err error
		if p, what := verifmc.Try(func() { b.skZ, err = sch.UnmarshalBinaryPrivateKey(c01Clone(b.skbZ)) }); p || err != nil {
			rep.viol("z-variant", "unmarshal", kcase, nil, "private key with only z changed is refused: %v %s", err, what)
			b.skZ = nil
		} else if got := c01Decaps(sch, b.skZ, c01Clone(b.ct)); got.failed() || !bytes.Equal(got.ss, b.ss) {
			rep.viol("z-variant", "honest", kcase, nil, "the key that differs only in z does not decapsulate the honest ciphertext: %s", got)
			b.skZ = nil
		} else {
			r.Count("z_variant_keys", 1)
		}
		off := 0
		for _, p := range s.m.Parts {
			if _, n := p.ZRange(); n > 0 {
				b.pqRanges = append(b.pqRanges, [2]int{off, off + p.CTSize()})
			}
			off += p.CTSize()
		}
	}
	b.seenSS = map[string]string{}
	for oj, ks := range verifmc.Seeds(sch.SeedSize(), r.Seed()) {
		if oj == ki {
			continue
		}
		ko, problem := c01Derive(sch, ks)
		if problem != "" {
			rep.viol("derive-failed", "seed", kcase, nil, "key seed %x: %s", ks, problem)
			continue
		}
		if e := c01Encaps(sch, ko.pk, b.eseed); !e.failed() && len(e.ct) == len(b.ct) {
			b.foreign = append(b.foreign, c01Named{fmt.Sprintf("foreign:k%d", oj), e.ct})
		}
	}
	if s.m.Parts[0].Label() != "FrodoKEM-640-SHAKE" { // no full FrodoKEM model: honest ciphertexts are covered by the roundtrip unit
		for ei, es := range verifmc.Seeds(sch.EncapsulationSeedSize(), r.Seed()) {
			if ei == 0 {
				continue
			}
			if e := c01Encaps(sch, b.k.pk, es); !e.failed() && len(e.ct) == len(b.ct) {
				b.others = append(b.others, c01Named{fmt.Sprintf("honest:e%d", ei), e.ct})
			}
		}
	}
	return b
}

// c01TamperRun enumerates the alterations of one base; slice/slices partitions them for parallelism.
func c01TamperRun(r *verifmc.Run, b *c01TamperBase, slice int) {
	s, sch, m := b.s, b.s.s, b.s.m
	slices, detEvery, zEvery, fullEvery := b.plan.slices, b.plan.detEvery, b.plan.zEvery, b.plan.fullEvery
	rep := c01Reporter{r, s.tag}
	kcase := fmt.Sprintf("%s/k%d", s.tag, b.ki)
	n := len(b.ct)
	isFrodo := m.Parts[0].Label() == "FrodoKEM-640-SHAKE"
	neverFails := m.NeverFails()
	counter := 0

	check := func(name, class string, data []byte, thin int) {
		counter++
		if counter%slices != slice {
			return
		}
		caseID := kcase + "/" + name
		if r.Replaying() && r.ReplayCase() != caseID {
			return
		}
		if bytes.Equal(data, b.ct) {
			return // not an alteration
		}
		if r.Expired() {
			return
		}
		payload := func() map[string]interface{} {
			return map[string]interface{}{"key_seed": verifmc.FullHex(b.kseed), "enc_seed": verifmc.FullHex(b.eseed),
				"alteration": name, "altered_ct": verifmc.FullHex(data), "honest_ss": verifmc.FullHex(b.ss)}
		}
		in := c01Clone(data)
		got := c01Decaps(sch, b.k.sk, in)
		r.Eval(1)
		r.Distinct(s.tag, b.ki, name)
		if got.panic != "" {
			rep.viol("panic:"+verifmc.PanicClass(got.panic), class, caseID, payload(), "Decapsulate panics on %s: %s", name, got.panic)
			return
		}
		if !bytes.Equal(in, data) {
			rep.viol("input-modified", class, caseID, payload(), "Decapsulate wrote into the ciphertext buffer (%s)", name)
		}
		if got.err == nil && len(got.ss) != sch.SharedKeySize() {
			rep.viol("size", class, caseID, payload(), "secret of %d bytes on %s, advertised %d", len(got.ss), name, sch.SharedKeySize())
		}
		// ---- the specification model
		agrees := func(exp []byte, fail bool) bool {
			if fail {
				return got.err != nil
			}
			return got.err == nil && bytes.Equal(got.ss, exp)
		}
		exp, expFail := m.Fast(b.k.skb, data, b.ct)
		usedFull := false
		if !agrees(exp, expFail) && !isFrodo {
			exp, expFail = m.Full(b.k.skb, data)
			usedFull = true
			r.Count("full_model_consulted", 1)
		} else if !isFrodo && fullEvery > 0 && counter%fullEvery == 0 {
			// regular cross-check of the fast path (rejection assumption, crypto/ecdh) against the exact model
			e2, f2 := m.Full(b.k.skb, data)
			r.Count("full_model_consulted", 1)
			if f2 != expFail || !bytes.Equal(e2, exp) {
				r.Count("fast_model_differs_from_full", 1)
				exp, expFail, usedFull = e2, f2, true
			}
		}
		honestAllowed := !expFail && bytes.Equal(exp, b.ss)
		switch {
		case got.err == nil && bytes.Equal(got.ss, b.ss) && !honestAllowed:
			rep.viol("honest-secret", class, caseID, payload(), "Decapsulate returns the honest secret %x for the altered ciphertext (%s); the specification gives %s",
				b.ss, name, c01ExpString(exp, expFail))
		case !agrees(exp, expFail) && expFail:
			rep.viol("accepted-invalid", class, caseID, payload(), "Decapsulate returns %s on %s; the specification requires an error", got, name)
		case !agrees(exp, expFail) && got.err != nil:
			rep.viol("spurious-error", class, caseID, payload(), "Decapsulate fails (%v) on %s; the specification gives %x", got.err, name, exp)
		case !agrees(exp, expFail):
			rep.viol("wrong-secret", class, caseID, payload(), "Decapsulate returns %x on %s; the specification gives %x", got.ss, name, exp)
		}
		if neverFails && got.err != nil {
			rep.viol("explicit-error", class, caseID, payload(), "implicit-rejection KEM returns an error on %s: %v", name, got.err)
		}
		switch {
		case got.err != nil:
			r.Outcome(class + " -> error")
			if expFail {
				r.Count("decapsulation_failed_as_required", 1)
			}
		case honestAllowed && bytes.Equal(got.ss, b.ss):
			r.Outcome(class + " -> honest secret (altered bits not bound, by specification)")
			r.Count("unbound_alteration_same_secret", 1)
			b.mu.Lock()
			b.unbound = append(b.unbound, name)
			b.mu.Unlock()
		case usedFull:
			r.Outcome(class + " -> secret given by the full model")
		default:
			r.Outcome(class + " -> other secret (fast model)")
			if len(b.pqRanges) > 0 || neverFails {
				r.Count("implicit_rejection_value_confirmed", 1)
			}
		}
		// ---- depends on the ciphertext: implicit-rejection answers are pairwise distinct
		if neverFails && got.err == nil {
			id := string(c01Digest(data))
			b.mu.Lock()
			prev, dup := b.seenSS[string(got.ss)]
			b.seenSS[string(got.ss)] = id
			b.mu.Unlock()
			if dup && prev != id {
				rep.viol("collision", class, caseID, payload(), "two different altered ciphertexts (%s and another) decapsulate to the same secret %x", name, got.ss)
			}
		}
		// ---- deterministic, and the restored key behaves identically
		if thin <= 1 || (counter/slices)%detEvery == 0 {
			g2 := c01Decaps(sch, b.k.sk2, c01Clone(data))
			r.Eval(1)
			r.Count("restored_key_second_call", 1)
			if !g2.same(got) {
				g3 := c01Decaps(sch, b.k.sk, c01Clone(data))
				r.Eval(1)
				if g3.same(got) {
					rep.viol("marshal-roundtrip", class, caseID, payload(), "restored private key answers %s, original key %s (%s)", g2, got, name)
				} else {
					rep.viol("decaps-impure", class, caseID, payload(), "two calls on the same key and ciphertext differ: %s / %s (%s)", got, g3, name)
				}
			}
		}
		// ---- depends on the private key: only z changed, a post-quantum component altered
		if b.skZ != nil && got.err == nil && (thin <= 1 || (counter/slices)%zEvery == 0) {
			touched := false
			for _, x := range b.pqRanges {
				if !bytes.Equal(data[x[0]:x[1]], b.ct[x[0]:x[1]]) {
					touched = true
				}
			}
			if touched {
				gz := c01Decaps(sch, b.skZ, c01Clone(data))
				r.Eval(1)
				matches := func(e []byte, fail bool) bool {
					if gz.panic != "" {
						return false
					}
					if fail {
						return gz.err != nil
					}
					return gz.err == nil && bytes.Equal(gz.ss, e)
				}
				ez, fz := m.Fast(b.skbZ, data, b.ct)
				ok := matches(ez, fz)
				if !ok && !isFrodo {
					ez, fz = m.Full(b.skbZ, data)
					ok = matches(ez, fz)
				}
				rejectedByBoth := !usedFull // the first key rejected (fast model applied)
				switch {
				case !ok:
					rep.viol("wrong-secret", class+"/z-variant", caseID, payload(), "key with another z returns %s on %s; the specification gives %s", gz, name, c01ExpString(ez, fz))
				case rejectedByBoth && bytes.Equal(gz.ss, got.ss):
					rep.viol("z-independent", class, caseID, payload(), "the rejection secret %x on %s does not depend on z", got.ss, name)
				case !bytes.Equal(gz.ss, got.ss):
					r.Count("z_variant_changed_the_answer", 1)
				}
			}
		}
	}

	// ---- level 1
	var bits []int
	mode := b.plan.flipMode
	if b.ki < b.plan.fullSeeds {
		mode = 0
	}
	full := mode == 0
	switch mode {
	case 0:
		bits, _ = verifmc.BitPositions(n, n, 1)
	case 1:
		bits, _ = verifmc.BitPositions(n, 0, 64)
	default:
		for by := 0; by < n; by += 64 {
			bits = append(bits, by*8)
		}
	}
	if !full && slice == 0 {
		r.Count("key_seeds_with_thinned_flips", 1)
	}
	buf := c01Clone(b.ct)
	for _, bit := range bits {
		buf[bit/8] ^= 1 << (bit % 8)
		check(fmt.Sprintf("flip:%d", bit), "flip", buf, 2)
		buf[bit/8] ^= 1 << (bit % 8)
	}
	for _, f := range verifmc.Fills(n) {
		check("fill:"+strings.TrimPrefix(f.Name, "all"), "fill", f.Data, 1)
	}
	for _, f := range b.foreign {
		check(f.name, "foreign", f.data, 1)
	}
	for _, f := range b.others {
		check(f.name, "other-honest", f.data, 1)
	}
	bounds := m.CTBoundaries()
	if len(bounds) == 0 {
		for _, x := range m.XShares() {
			if x[0] > 0 {
				bounds = append(bounds, x[0])
			}
		}
	}
	for _, bd := range bounds {
		check("swap", "swap", append(c01Clone(b.ct[bd:]), b.ct[:bd]...), 1)
	}
	stream := verifmc.Shake(fmt.Sprintf("c01-edit/%s/%d", s.tag, b.ki), 16*80+n)
	for j := 0; j < 16; j++ {
		l := []int{1, 2, 3, 4, 8, 16, 32, 64}[j%8]
		if l > n {
			l = n
		}
		chunk := stream[j*80 : j*80+80]
		off := (int(chunk[0])<<16 | int(chunk[1])<<8 | int(chunk[2])) % (n - l + 1)
		d := c01Clone(b.ct)
		copy(d[off:off+l], chunk[8:8+l])
		if bytes.Equal(d, b.ct) {
			d[off] ^= 1
		}
		check(fmt.Sprintf("edit:%d", j), "edit", d, 1)
	}
	check("random", "edit", stream[16*80:], 1)
	for si, x := range m.XShares() {
		for i, u := range c01LowOrderU(x[1]) {
			d := c01Clone(b.ct)
			copy(d[x[0]:x[0]+x[1]], u)
			check(fmt.Sprintf("lowX:%d:%d", si, i), "low-order-X", d, 1)
		}
	}
	for si, x := range m.NISTPoints() {
		p := c01FieldPrime(x[1])
		yo := x[0] + 1 + x[1]
		y := new(big.Int).SetBytes(b.ct[yo : yo+x[1]])
		d := c01Clone(b.ct)
		new(big.Int).Sub(p, y).FillBytes(d[yo : yo+x[1]])
		check(fmt.Sprintf("negY:%d", si), "negated-point", d, 1)
	}
	// ---- level 2: all pairs of flips inside three 16-bit windows
	if b.plan.pairs == 2 || (b.plan.pairs == 1 && b.ki == 0) || r.Replaying() {
		for _, w := range c01PairWindows(n, bounds) {
			for a := w; a < w+16; a++ {
				for c := a + 1; c < w+16; c++ {
					buf[a/8] ^= 1 << (a % 8)
					buf[c/8] ^= 1 << (c % 8)
					check(fmt.Sprintf("pair:%d:%d", a, c), "flip-pair", buf, 1)
					buf[a/8] ^= 1 << (a % 8)
					buf[c/8] ^= 1 << (c % 8)
				}
			}
		}
	}
	if slice == 0 {
		b.count, b.nbits, b.allBits = counter, len(bits), full
		r.Count("alterations_enumerated", counter)
	}
}

func c01Digest(b []byte) []byte {
	h := sha256.Sum256(b)
	return h[:16]
}

func c01ExpString(exp []byte, fail bool) string {
	if fail {
		return "an error"
	}
	return fmt.Sprintf("%x", exp)
}
