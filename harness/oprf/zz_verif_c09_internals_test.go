//go:build verif

package oprf

// C09 / OPRF, internals read-out: the only C09 file in this directory that names
// an unexported identifier (PublicKey.e). It registers a hook that hands the
// element inside a public key, marshalled uncompressed, to the exported-API unit
// oprf_keys (external test package). If this file stops compiling after a
// refactoring it is left out and oprf_keys runs without the read-out.

import "github.com/cloudflare/circl/internal/verifmc"

func init() {
	verifmc.SetHook("c09/oprf/element", func(pk interface{}) []byte {
		k, ok := pk.(*PublicKey)
		if !ok || k == nil || k.e == nil {
			return nil
		}
		b, _ := k.e.MarshalBinary()
		return b
	})
}
