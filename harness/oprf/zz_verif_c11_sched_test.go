//go:build verif

package oprf_test

// C11 (schedules): OPRF servers sharing one private key.

import (
	"os"
	"testing"

	"github.com/cloudflare/circl/internal/verifmc"
	"github.com/cloudflare/circl/internal/verifmc/sched"
	"github.com/cloudflare/circl/oprf"
)

func c11OprfScenarios() []sched.Scenario {
	var scs []sched.Scenario
	for _, suite := range []oprf.Suite{oprf.SuiteRistretto255, oprf.SuiteP256} {
		suite := suite
		name := suite.Identifier()
		fresh := func() interface{} {
			k, err := oprf.DeriveKey(suite, oprf.VerifiableMode, verifmc.Shake("c11-oprf-"+name, 32), []byte("info"))
			if err != nil {
				panic(err)
			}
			return k
		}
		pub := func(sh interface{}) interface{} {
			b, err := oprf.NewVerifiableServer(suite, sh.(*oprf.PrivateKey)).PublicKey().MarshalBinary()
			if err != nil {
				panic(err)
			}
			return b
		}
		full := func(sh interface{}) interface{} {
			out, err := oprf.NewVerifiableServer(suite, sh.(*oprf.PrivateKey)).FullEvaluate([]byte("input"))
			if err != nil {
				return err
			}
			return out
		}
		// a full verifiable round: blind, evaluate (uses the cached public key for the proof), finalize
		round := func(sh interface{}) interface{} {
			k := sh.(*oprf.PrivateKey)
			srv := oprf.NewVerifiableServer(suite, k)
			cli := oprf.NewVerifiableClient(suite, srv.PublicKey())
			fin, req, err := cli.Blind([][]byte{[]byte("input")})
			if err != nil {
				return err
			}
			ev, err := srv.Evaluate(req)
			if err != nil {
				return err
			}
			out, err := cli.Finalize(fin, ev)
			if err != nil {
				return err
			}
			return out[0]
		}
		scs = append(scs,
			sched.Scenario{Cost: 20, Name: "oprf/" + name + "/PublicKey||PublicKey", Setup: fresh, Threads: []func(interface{}) interface{}{pub, pub}},
			sched.Scenario{Cost: 20, Name: "oprf/" + name + "/PublicKey||FullEvaluate||Round", Setup: fresh, Threads: []func(interface{}) interface{}{pub, full, round}})
	}
	return scs
}

func TestVerifC11_sched_oprf(t *testing.T) {
	if os.Getenv("VERIF_CONFIG") != "sched" {
		t.Skip("runs only under the instrumented configuration")
	}
	r := verifmc.Start(t, "C11", "sched_oprf")
	defer r.Finish()
	r.Rule("every schedule up to the completed preemption bound of 2-3 threads using one shared OPRF private key; non-trivial = distinct scenario")
	sched.RunScenarios(r, c11OprfScenarios(), 2)
}

func TestVerifC11_race_oprf(t *testing.T) {
	if os.Getenv("VERIF_CONFIG") != "race" {
		t.Skip("runs only under -race")
	}
	r := verifmc.Start(t, "C11", "race_oprf")
	defer r.Finish()
	r.Rule("same scenario bodies on free-running goroutines under the race detector")
	sched.FreeRun(r, c11OprfScenarios(), r.Pick(20, 100))
}
