//go:build verif

package oprf_test

// C11 (schedules): OPRF servers sharing one private key.

import (
	"os"
	"testing"

	"github.com/cloudflare/circl/internal/verifmc"
	"github.com/cloudflare/circl/internal/verifmc/sched"
	"github.com/cloudflare/circl/oprf"
)

func c11OprfScenarios() []sched.Scenario {
	var scs []sched.Scenario
	for _, suite := range []oprf.Suite{oprf.SuiteRistretto255, oprf.SuiteP256} {
		suite := suite
		name := suite.Identifier()
		fresh := func() interface{} {
			k, err := oprf.DeriveKey(suite, oprf.VerifiableMode, verifmc.Shake("c11-oprf-"+name, 32), []byte("info"))
			if err != nil {
				panic(err)
			}
			return k
		}
		pub := func(sh interface{}) interface{} {
			b, err := oprf.NewVerifiableServer(suite, sh.(*oprf.PrivateKey)).PublicKey().MarshalBinary()
			if err != nil {
				panic(err)
			}
			return b
		}
		full := func(sh interface{}) interface{} {
			out, err := oprf.NewVerifiableServer(suite, sh.(*oprf.PrivateKey)).FullEvaluate([]byte("input"))
			if err != nil {
				return err
			}
			return out
		}
		// a full verifiable round: blind, evaluate (uses the cached public key for the proof), finalize
		round := func(sh interface{}) interface{} {
			k := sh.(*oprf.PrivateKey)
			srv := oprf.NewVerifiableServer(suite, k)
			cli := oprf.NewVerifiableClient(suite, srv.PublicKey())
			fin, req, err := cli.Blind([][]byte{[]byte("input")})
			if err != nil {
				return err
			}
			ev, err := srv.Evaluate(req)
			if err != nil {
				return err
			}
			out, err := cli.Finalize(fin, ev)
			if err != nil {
				return err
			}
			return out[0]
		}
		scs = append(scs,
			sched.Scenario{Cost: 50, Name: "oprf/" + name + "/PublicKey||PublicKey", Setup: fresh, Threads: []func(interface{}) interface{}{pub, pub}},
			sched.Scenario{Cost: 50, Name: "oprf/" + name + "/PublicKey||FullEvaluate||Round", Setup: fresh, Threads: []func(interface{}) interface{}{pub, full, round}})
	}
	// partially oblivious mode: one key, different public info strings at the same time
	for _, suite := range []oprf.Suite{oprf.SuiteRistretto255, oprf.SuiteP256} {
		suite := suite
		name := suite.Identifier()
		fresh := func() interface{} {
			k, err := oprf.DeriveKey(suite, oprf.PartialObliviousMode, verifmc.Shake("c11-poprf-"+name, 32), []byte("info"))
			if err != nil {
				panic(err)
			}
			return k
		}
		round := func(info string, inputs ...string) func(interface{}) interface{} {
			return func(sh interface{}) interface{} {
				k := sh.(*oprf.PrivateKey)
				srv := oprf.NewPartialObliviousServer(suite, k)
				cli := oprf.NewPartialObliviousClient(suite, srv.PublicKey())
				var in [][]byte
				for _, x := range inputs {
					in = append(in, []byte(x))
				}
				fin, req, err := cli.Blind(in)
				if err != nil {
					return err
				}
				ev, err := srv.Evaluate(req, []byte(info))
				if err != nil {
					return err
				}
				out, err := cli.Finalize(fin, ev, []byte(info))
				if err != nil {
					return err
				}
				var all []byte
				for _, o := range out {
					all = append(all, o...)
				}
				return all
			}
		}
		full := func(info string) func(interface{}) interface{} {
			return func(sh interface{}) interface{} {
				out, err := oprf.NewPartialObliviousServer(suite, sh.(*oprf.PrivateKey)).FullEvaluate([]byte("input"), []byte(info))
				if err != nil {
					return err
				}
				return out
			}
		}
		scs = append(scs,
			sched.Scenario{Cost: 150, Name: "oprf/" + name + "/POPRF Round(infoA)||Round(infoB)", Setup: fresh,
				Threads: []func(interface{}) interface{}{round("epoch-A", "in1", "in2", "in3"), round("epoch-B", "in1")}},
			sched.Scenario{Cost: 150, Name: "oprf/" + name + "/POPRF Round(infoA)||FullEvaluate(infoB)||FullEvaluate(infoC)", Setup: fresh,
				Threads: []func(interface{}) interface{}{round("epoch-A", "in1", "in2"), full("epoch-B"), full("epoch-C")}})
	}
	return scs
}

func TestVerifC11_sched_oprf(t *testing.T) {
	if os.Getenv("VERIF_CONFIG") != "sched" {
		t.Skip("runs only under the instrumented configuration")
	}
	r := verifmc.Start(t, "C11", "sched_oprf")
	defer r.Finish()
	r.Rule("every schedule up to the completed preemption bound of 2-3 threads using one shared OPRF private key; non-trivial = distinct scenario")
	sched.RunScenarios(r, c11OprfScenarios(), 2)
}

func TestVerifC11_race_oprf(t *testing.T) {
	if os.Getenv("VERIF_CONFIG") != "race" {
		t.Skip("runs only under -race")
	}
	r := verifmc.Start(t, "C11", "race_oprf")
	defer r.Finish()
	r.Rule("same scenario bodies on free-running goroutines under the race detector")
	sched.FreeRun(r, c11OprfScenarios(), r.Pick(20, 100))
}
