//go:build verif

package oprf_test

// C16 (oprf part), histories: ONE key/server object and ONE client object per
// history, driven through every sequence of up to 3 steps; the info and the input
// of every step are written into one reused backing buffer each (a reused read
// buffer), so that any state kept between calls - in particular state keyed on an
// alias of the caller's slices - shows. Oracle: every step gives what fresh
// objects give for fresh copies of the same argument values.

import (
	"bytes"
	"fmt"
	"strings"
	"sync"
	"testing"

	"github.com/cloudflare/circl/internal/verifc16"
	"github.com/cloudflare/circl/internal/verifmc"
	"github.com/cloudflare/circl/oprf"
)

type c16HStep struct {
	op      byte // 'P' protocol run (Blind, Evaluate, Finalize), 'F' FullEvaluate, 'V' VerifyFinalize
	ii, ini int  // info index, input index
	batch2  bool // 'P' with a batch of two inputs (ini, then the other one)
}

func (s c16HStep) String() string {
	b := ""
	if s.batch2 {
		b = "+other"
	}
	return fmt.Sprintf("%c(info%d,in%d%s)", s.op, s.ii, s.ini, b)
}

var (
	c16HInfos  = [][]byte{[]byte("epoch-0001"), []byte("epoch-0002"), []byte("x")}
	c16HInputs = [][]byte{[]byte("input-01"), []byte("input-02")}
)

func c16HSteps(mode byte) []c16HStep {
	if mode == 2 {
		return []c16HStep{
			{'P', 0, 0, false}, {'P', 1, 0, false}, {'P', 1, 1, true}, {'P', 2, 0, false},
			{'F', 0, 0, false}, {'F', 1, 0, false}, {'F', 0, 1, false},
			{'V', 0, 0, false}, {'V', 1, 0, false},
		}
	}
	return []c16HStep{{'P', 0, 0, false}, {'P', 0, 1, false}, {'P', 0, 0, true}, {'F', 0, 0, false}, {'F', 0, 1, false}, {'V', 0, 0, false}, {'V', 0, 1, false}}
}

func TestVerifC16_oprf_histories(t *testing.T) {
	r := verifmc.Start(t, "C16", "oprf_histories")
	defer r.Finish()
	r.Rule("per (suite, mode): one PrivateKey + server + client object per history, every sequence of 1..D steps (D = 3; P-384 and P-521 in the quick tier: 2) over the step alphabet " +
		"POPRF: {protocol run, FullEvaluate, VerifyFinalize} x info in {epoch-0001, epoch-0002 (same length), x} x input in {input-01, input-02} (9 steps, one with a batch of two); " +
		"OPRF/VOPRF: 7 steps over the two inputs; the info (and the input) of every step is written into the same backing buffer; oracle: Finalize succeeds and every output equals FullEvaluate of a fresh " +
		"server object on fresh copies of the values (itself equal to the RFC 9497 reference composition), VerifyFinalize accepts that value; state = the reused objects; non-trivial = distinct (suite, mode, history)")
	suites := c16Suites()
	type job struct {
		si   int
		mode byte
		seq  []int
	}
	var jobs []job
	for si, s := range suites {
		depth := 3
		if s.Level(r.Thorough()) <= 1 {
			depth = 2
		}
		for mode := byte(0); mode < 3; mode++ {
			n := len(c16HSteps(mode))
			for _, seq := range c16Seqs(n, depth) {
				jobs = append(jobs, job{si, mode, seq})
			}
		}
	}
	r.Set("histories", len(jobs))
	if !r.Thorough() {
		r.NotExhaustive("quick tier: histories of depth 2 on P-384 and P-521 (depth 3 on ristretto255 and P-256)")
	}
	key := func(s c16Suite) c16Key { return c16Keys(s.Grp, 0)[1] }
	// expected values from fresh objects, memoised per (suite, mode, info, input)
	var mu sync.Mutex
	memo := map[string][]byte{}
	expected := func(s c16Suite, mode byte, ii, ini int) []byte {
		k := fmt.Sprintf("%s/%d/%d/%d", s.SuiteID, mode, ii, ini)
		mu.Lock()
		v, ok := memo[k]
		mu.Unlock()
		if ok {
			return v
		}
		p, err := c16NewParty(s, mode, key(s))
		if err != nil {
			t.Errorf("harness: %v", err)
			return nil
		}
		var info []byte
		if mode == 2 {
			info = append([]byte{}, c16HInfos[ii]...)
		}
		in := append([]byte{}, c16HInputs[ini]...)
		out, err := p.full(in, info)
		if err != nil {
			t.Errorf("harness: fresh FullEvaluate: %v", err)
			return nil
		}
		if ref := p.refOutput(in, info); !bytes.Equal(ref, out) {
			c16Col.Add("C16|oprf.FullEvaluate|differs-from-RFC9497-composition|"+c16ModeName[mode], k, k+": fresh FullEvaluate differs from the reference composition", nil)
		}
		mu.Lock()
		memo[k] = out
		mu.Unlock()
		return out
	}
	verifmc.ParallelFor(len(jobs), func(ji int) {
		j := jobs[ji]
		s := suites[j.si]
		steps := c16HSteps(j.mode)
		names := make([]string, len(j.seq))
		for i, x := range j.seq {
			names[i] = steps[x].String()
		}
		id := fmt.Sprintf("%s/%s/%s", s.SuiteID, c16ModeName[j.mode], strings.Join(names, ";"))
		if !r.Want(id) || r.Expired() {
			return
		}
		p, err := c16NewParty(s, j.mode, key(s))
		if err != nil {
			t.Errorf("harness: %v", err)
			return
		}
		r.Trace(1)
		r.Distinct(id)
		infoBuf := make([]byte, 16)
		inBuf := [2][]byte{make([]byte, 16), make([]byte, 16)}
		bl := c16BlindVectors(s.Grp)[1]
		for ti, x := range j.seq {
			st := steps[x]
			fail := func(entry, class, what string) {
				hist := "first-call"
				if ti > 0 {
					hist = "reused-objects"
				}
				c16Col.Add(fmt.Sprintf("C16|oprf.%s|%s|%s/%s", entry, class, c16ModeName[j.mode], hist), id,
					fmt.Sprintf("%s: step %d %s: %s", id, ti, st, what), map[string]interface{}{"suite": s.SuiteID, "mode": j.mode, "history": names, "failing_step": ti})
			}
			var info []byte
			if j.mode == 2 {
				info = infoBuf[:copy(infoBuf, c16HInfos[st.ii])]
			}
			in0 := inBuf[0][:copy(inBuf[0], c16HInputs[st.ini])]
			r.Eval(1)
			r.Transition(1)
			switch st.op {
			case 'P':
				ins := [][]byte{in0}
				idx := []int{st.ini}
				if st.batch2 {
					ins = append(ins, inBuf[1][:copy(inBuf[1], c16HInputs[1-st.ini])])
					idx = append(idx, 1-st.ini)
				}
				blinds := make([]oprf.Blind, len(ins))
				for i := range blinds {
					blinds[i] = bl[i].Copy()
				}
				fd, req, err := p.blind(ins, blinds)
				if err != nil {
					fail("DeterministicBlind", "error", err.Error())
					return
				}
				ev, err := p.evaluate(req, info)
				if err != nil {
					fail("Evaluate", "error", err.Error())
					return
				}
				out, err, pan, what := p.finalize(fd, ev, info)
				if pan || err != nil {
					fail("Finalize", "honest-evaluation-rejected", fmt.Sprintf("err=%v panic=%s", err, what))
					return
				}
				for i := range out {
					if want := expected(s, j.mode, st.ii, idx[i]); !bytes.Equal(out[i], want) {
						fail("Finalize", "output-differs-from-fresh-objects", fmt.Sprintf("output[%d] = %x, fresh FullEvaluate = %x", i, out[i], want))
						return
					}
				}
			case 'F':
				out, err := p.full(in0, info)
				if want := expected(s, j.mode, st.ii, st.ini); err != nil || !bytes.Equal(out, want) {
					fail("FullEvaluate", "output-differs-from-fresh-objects", fmt.Sprintf("%x (err %v), fresh objects give %x", out, err, want))
					return
				}
			case 'V':
				if !p.verifyFinalize(in0, info, expected(s, j.mode, st.ii, st.ini)) {
					fail("VerifyFinalize", "refuses-correct-output", "VerifyFinalize refuses the output fresh objects compute")
					return
				}
			}
			r.Count("steps_agree_with_fresh_objects", 1)
		}
		if ji == 40 {
			r.Sample(map[string]interface{}{"history": id})
		}
	})
	c16Col.Flush(r)
	r.RequireCounter("steps_agree_with_fresh_objects", 3000)
	_ = verifc16.Hx
}
