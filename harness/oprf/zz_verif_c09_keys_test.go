//go:build verif

package oprf_test

// C09 / OPRF public keys, through the exported API: PublicKey.UnmarshalBinary for
// the four suites accepts only canonical compressed encodings of group members
// and MarshalBinary gives the parsed bytes back; also on a reused key object.
// When the in-package file zz_verif_c09_internals_test.go is present it lends a
// read-out of the element inside the key (hook "c09/oprf/element"), so that the
// decoded point itself is compared with the reference's; without it (e.g. after
// a refactoring of the unexported field) the unit still runs and judges the
// re-serialisation. (Evaluated elements travel as group.Element values and are
// decoded by group.Element.UnmarshalBinary: units group_*.)

import (
	"testing"

	"github.com/cloudflare/circl/internal/verifmc"
	"github.com/cloudflare/circl/internal/verifref/c09ref"
	"github.com/cloudflare/circl/internal/verifref/wcurve"
	"github.com/cloudflare/circl/oprf"
)

func TestVerifC09_oprf_keys(t *testing.T) {
	r := verifmc.Start(t, "C09", "oprf_keys")
	defer r.Finish()
	r.Rule("per suite the compressed-format alphabet of the group units (flips of 1 quick / 10 thorough bases) and the ristretto255 alphabet, plus public keys derived by the library from 3 seeds; " +
		"the element inside the accepted key is read through an optional in-package hook and re-marshalled uncompressed for comparison with the reference's point; every case also decoded into a key object that already holds the nearest valid key, and before it; distinct = distinct (suite, input bytes)")
	// the element inside a key, uncompressed, when the internals file is present; nil otherwise
	elem := func(pk *oprf.PublicKey) []byte { return nil }
	if h, ok := verifmc.Hook("c09/oprf/element").(func(interface{}) []byte); ok {
		elem = func(pk *oprf.PublicKey) []byte { return h(pk) }
		r.Set("element_readout", "present")
	} else {
		r.Set("element_readout", "absent: decoded values are judged through re-serialisation only")
	}
	remarshal := func(pk *oprf.PublicKey) []byte { b, _ := pk.MarshalBinary(); return b }
	type suiteT struct {
		s     oprf.Suite
		curve *wcurve.Curve
	}
	for _, st := range []suiteT{{oprf.SuiteP256, wcurve.P256()}, {oprf.SuiteP384, wcurve.P384()}, {oprf.SuiteP521, wcurve.P521()}, {oprf.SuiteRistretto255, nil}} {
		st := st
		var cases []c09ref.Case
		if st.curve != nil {
			cases = c09ref.SEC1Cases(st.curve, 1, c09ref.SEC1Options{FlipBases: r.Pick(1, 10), Special: 8})
		} else {
			cases = c09ref.RistrettoCases(c09ref.EdOptions{FlipBases: r.Pick(1, 11), Special: 8})
		}
		for i, seed := range verifmc.SeedsN(32, r.Seed(), 3) {
			sk, err := oprf.DeriveKey(st.s, oprf.VerifiableMode, seed, []byte("verif-c09"))
			if err != nil {
				t.Fatal(err)
			}
			enc, err := sk.Public().MarshalBinary()
			if err != nil {
				t.Fatal(err)
			}
			cases = append(cases, c09ref.Case{Name: "lib/key" + string(rune('0'+i)), Class: "valid-lib", Data: enc})
			back := new(oprf.PublicKey)
			if err := back.UnmarshalBinary(st.s, c09ref.Clone(enc)); err != nil || string(elem(back)) != string(elem(sk.Public())) || string(remarshal(back)) != string(enc) {
				r.Violation("C09|oprf.PublicKey.UnmarshalBinary/"+st.s.Identifier()+"|own-encoding-not-equal|valid-lib", "own-key",
					"a marshalled public key is refused or differs", map[string]string{"input": verifmc.FullHex(enc)})
			}
		}
		cases = c09ref.Dedup(cases)
		dec := make([]verifmc.DecCase, len(cases))
		bases := c09ref.Bases(cases)
		for i, cs := range cases {
			dec[i] = verifmc.DecCase{Name: cs.Name, Class: cs.Class, Data: cs.Data, Base: bases[i]}
		}
		r.CheckDecoder(verifmc.DecSpec{Entry: "oprf.PublicKey.UnmarshalBinary/" + st.s.Identifier(), Cases: dec, RefAll: true,
			Ref: func(in []byte) verifmc.DecOracle {
				var v c09ref.Verdict
				if st.curve != nil {
					v = c09ref.SEC1Verdict(st.curve, in)
				} else {
					v = c09ref.RistrettoVerdict(in)
				}
				return verifmc.DecOracle{Member: v.Member, Reason: v.Reason, Point: v.Point}
			},
			AcceptOnly: func(in []byte) bool { return new(oprf.PublicKey).UnmarshalBinary(st.s, in) == nil },
			Seq: func(first, second []byte) verifmc.DecResult {
				pk := new(oprf.PublicKey)
				_ = pk.UnmarshalBinary(st.s, first)
				if err := pk.UnmarshalBinary(st.s, second); err != nil {
					return verifmc.DecResult{}
				}
				out, _ := pk.MarshalBinary()
				res := verifmc.DecResult{Accepted: true, Reenc: out}
				res.Point = elem(pk)
				return res
			},
			Lib: func(in []byte) verifmc.DecResult {
				pk := new(oprf.PublicKey)
				if err := pk.UnmarshalBinary(st.s, in); err != nil {
					return verifmc.DecResult{}
				}
				out, err := pk.MarshalBinary()
				res := verifmc.DecResult{Accepted: true, Reenc: out}
				if err != nil {
					res.Note = "marshal-fails-after-accept"
				}
				res.Point = elem(pk)
				return res
			}})
	}
	r.RequireCounter("in:flip", 8*(33+49+67+32)-16)
	r.RequireCounter("in:valid-lib", 12)
	r.RequireCounter("in:alias", 2)
	r.RequireCounter("in:rfc-invalid", 25)
	r.RequireCounter("accepted", 100)
	r.RequireCounter("reused_receiver_cases", 1500)
}
