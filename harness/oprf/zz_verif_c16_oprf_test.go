//go:build verif

package oprf_test

// C16 (oprf part), shared machinery + the RFC 9497 fixture unit and the
// completeness unit: the client's finalised outputs equal the server's direct
// evaluation of the same inputs (hence do not depend on the blinds), equal the
// reference composition of RFC 9497, and match the RFC 9497 vectors.
// Public API only.

import (
	"bytes"
	"encoding/hex"
	"encoding/json"
	"errors"
	"fmt"
	"math/big"
	"os"
	"strings"
	"testing"

	"github.com/cloudflare/circl/group"
	"github.com/cloudflare/circl/internal/verifc16"
	"github.com/cloudflare/circl/internal/verifmc"
	"github.com/cloudflare/circl/internal/verifref/c16ref"
	"github.com/cloudflare/circl/oprf"
	"github.com/cloudflare/circl/zk/dleq"
)

var c16ModeName = map[byte]string{0: "OPRF", 1: "VOPRF", 2: "POPRF"}

type c16Suite struct {
	verifc16.Grp
	S oprf.Suite
}

func c16Suites() []c16Suite {
	var out []c16Suite
	for _, g := range verifc16.Groups() {
		s, err := oprf.GetSuite(g.SuiteID)
		if err != nil {
			panic(err)
		}
		out = append(out, c16Suite{g, s})
	}
	return out
}

// c16Party is one private set of key, server and client objects (never shared between goroutines).
type c16Party struct {
	s    c16Suite
	mode byte
	sk   *oprf.PrivateKey
	pk   *oprf.PublicKey
	k    group.Scalar // the private scalar, re-read from MarshalBinary

	srv  oprf.Server
	vsrv oprf.VerifiableServer
	psrv oprf.PartialObliviousServer
	cli  oprf.Client
	vcli oprf.VerifiableClient
	pcli oprf.PartialObliviousClient
}

type c16Key struct {
	name       string
	seed, info []byte
	raw        *big.Int // when non-nil: the key is this scalar (UnmarshalBinary), not derived
	rawBytes   []byte   // when non-nil: the key is this encoded scalar
	gen        bool     // GenerateKey from a deterministic stream
}

func c16Keys(g verifc16.Grp, seed int64) []c16Key {
	seeds := [][]byte{verifmc.Shake("c16-oprf-seed", 32), make([]byte, 32), bytes.Repeat([]byte{0xff}, 32)}
	names := []string{"shake", "00", "ff"}
	if seed != 0 {
		seeds = append(seeds, verifmc.Shake(fmt.Sprintf("c16-oprf-seed/%d", seed), 32))
		names = append(names, fmt.Sprintf("vseed%d", seed))
	}
	var out []c16Key
	for i, s := range seeds {
		for _, inf := range []string{"", "info"} {
			out = append(out, c16Key{name: fmt.Sprintf("derive(%s,%q)", names[i], inf), seed: s, info: []byte(inf)})
		}
	}
	out = append(out, c16Key{name: "generate(det)", gen: true}, c16Key{name: "k=1", raw: big.NewInt(1)}, c16Key{name: "k=n-1", raw: new(big.Int).Sub(g.N, big.NewInt(1))})
	return out
}

func c16NewParty(s c16Suite, mode byte, key c16Key) (*c16Party, error) {
	p := &c16Party{s: s, mode: mode}
	var err error
	if key.gen {
		if p.sk, err = oprf.GenerateKey(s.S, verifmc.NewDetReader("c16-oprf-generate")); err != nil {
			return nil, err
		}
	} else if key.raw != nil || key.rawBytes != nil {
		p.sk = new(oprf.PrivateKey)
		enc := key.rawBytes
		if enc == nil {
			enc = verifc16.EncS(s.Scalar(key.raw))
		}
		if err = p.sk.UnmarshalBinary(s.S, enc); err != nil {
			return nil, err
		}
	} else if p.sk, err = oprf.DeriveKey(s.S, mode, key.seed, key.info); err != nil {
		return nil, err
	}
	raw, err := p.sk.MarshalBinary()
	if err != nil {
		return nil, err
	}
	p.k = s.G.NewScalar()
	if err = p.k.UnmarshalBinary(raw); err != nil {
		return nil, err
	}
	p.pk = p.sk.Public()
	p.setClients(p.pk)
	switch mode {
	case 0:
		p.srv = oprf.NewServer(s.S, p.sk)
	case 1:
		p.vsrv = oprf.NewVerifiableServer(s.S, p.sk)
	case 2:
		p.psrv = oprf.NewPartialObliviousServer(s.S, p.sk)
	}
	return p, nil
}

func (p *c16Party) setClients(pk *oprf.PublicKey) {
	switch p.mode {
	case 0:
		p.cli = oprf.NewClient(p.s.S)
	case 1:
		p.vcli = oprf.NewVerifiableClient(p.s.S, pk)
	case 2:
		p.pcli = oprf.NewPartialObliviousClient(p.s.S, pk)
	}
}

func (p *c16Party) blind(inputs [][]byte, blinds []oprf.Blind) (*oprf.FinalizeData, *oprf.EvaluationRequest, error) {
	switch p.mode {
	case 0:
		return p.cli.DeterministicBlind(inputs, blinds)
	case 1:
		return p.vcli.DeterministicBlind(inputs, blinds)
	}
	return p.pcli.DeterministicBlind(inputs, blinds)
}

func (p *c16Party) randomBlind(inputs [][]byte) (*oprf.FinalizeData, *oprf.EvaluationRequest, error) {
	switch p.mode {
	case 0:
		return p.cli.Blind(inputs)
	case 1:
		return p.vcli.Blind(inputs)
	}
	return p.pcli.Blind(inputs)
}

func (p *c16Party) evaluate(req *oprf.EvaluationRequest, info []byte) (*oprf.Evaluation, error) {
	switch p.mode {
	case 0:
		return p.srv.Evaluate(req)
	case 1:
		return p.vsrv.Evaluate(req)
	}
	return p.psrv.Evaluate(req, info)
}

func (p *c16Party) finalize(fd *oprf.FinalizeData, ev *oprf.Evaluation, info []byte) (out [][]byte, err error, panicked bool, what string) {
	panicked, what = verifmc.Try(func() {
		switch p.mode {
		case 0:
			out, err = p.cli.Finalize(fd, ev)
		case 1:
			out, err = p.vcli.Finalize(fd, ev)
		default:
			out, err = p.pcli.Finalize(fd, ev, info)
		}
	})
	return
}

func (p *c16Party) full(input, info []byte) ([]byte, error) {
	switch p.mode {
	case 0:
		return p.srv.FullEvaluate(input)
	case 1:
		return p.vsrv.FullEvaluate(input)
	}
	return p.psrv.FullEvaluate(input, info)
}

func (p *c16Party) verifyFinalize(input, info, out []byte) bool {
	switch p.mode {
	case 0:
		return p.srv.VerifyFinalize(input, out)
	case 1:
		return p.vsrv.VerifyFinalize(input, out)
	}
	return p.psrv.VerifyFinalize(input, info, out)
}

// refOutput composes the PRF output from RFC 9497's definition with the public group API and the
// reference framing: Hash(len||input||[len||info]||len||SerializeElement(k' * HashToGroup(input))||"Finalize"),
// k' = skS (OPRF, VOPRF) or 1/(skS + HashToScalar("Info"||len||info)) (POPRF).
func (p *c16Party) refOutput(input, info []byte) []byte {
	g := p.s.G
	id := p.s.SuiteID
	P := g.HashToElement(input, c16ref.DST("HashToGroup-", p.mode, id))
	k := p.k
	if p.mode == c16ref.ModePOPRF {
		m := g.HashToScalar(c16ref.InfoFrame(info), c16ref.DST("HashToScalar-", p.mode, id))
		t := g.NewScalar().Add(p.k, m)
		k = g.NewScalar().Inv(t)
	}
	N := g.NewElement().Mul(P, k)
	return c16ref.FinalizeHash(id, p.mode, input, info, verifc16.Enc(N))
}

func c16Inputs() [][]byte {
	return [][]byte{{}, []byte("a"), bytes.Repeat([]byte("z"), 200)}
}

func c16InputName(i int) string { return []string{"empty", "a", "z200"}[i] }

func c16Infos() [][]byte {
	return [][]byte{{}, []byte("x"), bytes.Repeat([]byte("x"), 2000)}
}

func c16InfoName(i int) string { return []string{"empty", "x", "x2000"}[i] }

// two disjoint blind vectors over the scalar alphabet {1, 2, n-1, SEED..}
func c16BlindVectors(g verifc16.Grp) [2][]oprf.Blind {
	nm1 := new(big.Int).Sub(g.N, big.NewInt(1))
	return [2][]oprf.Blind{
		{g.Scalar(big.NewInt(1)), g.Scalar(nm1), g.Scalar(g.SeedInt("blind-a", 0))},
		{g.Scalar(big.NewInt(2)), g.Scalar(g.SeedInt("blind-b", 0)), g.Scalar(g.SeedInt("blind-c", 0))},
	}
}

func c16Seqs(n, maxLen int) [][]int {
	var out [][]int
	var rec func(cur []int)
	rec = func(cur []int) {
		if len(cur) > 0 {
			out = append(out, append([]int{}, cur...))
		}
		if len(cur) == maxLen {
			return
		}
		for i := 0; i < n; i++ {
			rec(append(cur, i))
		}
	}
	rec(nil)
	return out
}

func c16SeqName(seq []int) string {
	s := make([]string, len(seq))
	for i, x := range seq {
		s[i] = c16InputName(x)
	}
	return "[" + strings.Join(s, ",") + "]"
}

var c16Col verifc16.Collector

// ---------------------------------------------------------------------------------------------
// RFC 9497 vectors

type c16Vector struct {
	Identifier string `json:"identifier"`
	Mode       byte   `json:"mode"`
	PkSm       string `json:"pkSm"`
	SkSm       string `json:"skSm"`
	Seed       string `json:"seed"`
	KeyInfo    string `json:"keyInfo"`
	Vectors    []struct {
		Batch             int    `json:"Batch"`
		Blind             string `json:"Blind"`
		Info              string `json:"Info"`
		BlindedElement    string `json:"BlindedElement"`
		EvaluationElement string `json:"EvaluationElement"`
		Proof             struct {
			Proof string `json:"proof"`
			R     string `json:"r"`
		} `json:"Proof"`
		Input  string `json:"Input"`
		Output string `json:"Output"`
	} `json:"vectors"`
}

func c16HexList(t testing.TB, s string) [][]byte {
	var out [][]byte
	for _, x := range strings.Split(s, ",") {
		b, err := hex.DecodeString(x)
		if err != nil {
			t.Fatalf("fixture: bad hex %q", x)
		}
		out = append(out, b)
	}
	return out
}

func c16Hex(t testing.TB, s string) []byte {
	b, err := hex.DecodeString(s)
	if err != nil {
		t.Fatalf("fixture: bad hex %q", s)
	}
	return b
}

// TestVerifC16_rfc9497 runs the RFC 9497 test vectors (oprf/testdata/rfc9497.json) through the public
// API and, with the same data, binds the reference framing (c16ref) used by the other units.
func TestVerifC16_rfc9497(t *testing.T) {
	r := verifmc.Start(t, "C16", "rfc9497")
	defer r.Finish()
	r.Rule("every vector of oprf/testdata/rfc9497.json whose suite circl implements (4 suites x 3 modes; batches of 1 and 2): derived key, public key, blinded elements, evaluated elements, " +
		"proof bytes for the fixture's proof randomness (dleq.ProveBatchWithRandomness with parameters rebuilt from the RFC text), Finalize on the fixture's evaluation+proof and on the server's own, " +
		"FullEvaluate, VerifyFinalize; the reference output composition must reproduce every Output (else the run is broken, not an alarm)")
	raw, err := os.ReadFile("testdata/rfc9497.json")
	if err != nil {
		t.Fatalf("fixture: %v", err)
	}
	var vs []c16Vector
	if err := json.Unmarshal(raw, &vs); err != nil {
		t.Fatalf("fixture: %v", err)
	}
	suites := map[string]c16Suite{}
	for _, s := range c16Suites() {
		suites[s.SuiteID] = s
	}
	nsets := 0
	for _, v := range vs {
		s, ok := suites[v.Identifier]
		if !ok {
			r.Count("vector_sets_of_unsupported_suites", 1)
			continue
		}
		nsets++
		tag := fmt.Sprintf("%s/%s", v.Identifier, c16ModeName[v.Mode])
		bad := func(entry, what string) {
			r.Violation(fmt.Sprintf("C16|oprf.%s|differs-from-RFC9497|%s", entry, tag), tag, tag+": "+what, nil)
		}
		p, err := c16NewParty(s, v.Mode, c16Key{name: "fixture", seed: c16Hex(t, v.Seed), info: c16Hex(t, v.KeyInfo)})
		if err != nil {
			bad("DeriveKey", err.Error())
			continue
		}
		nbad := r.NumViolations()
		if got := verifc16.EncS(p.k); !bytes.Equal(got, c16Hex(t, v.SkSm)) {
			bad("DeriveKey", fmt.Sprintf("skSm = %x, RFC %s", got, v.SkSm))
		}
		if v.PkSm != "" {
			if got, _ := p.pk.MarshalBinary(); !bytes.Equal(got, c16Hex(t, v.PkSm)) {
				bad("PrivateKey.Public", fmt.Sprintf("pkSm = %x, RFC %s", got, v.PkSm))
			}
		}
		for vi, x := range v.Vectors {
			vtag := fmt.Sprintf("%s/vector%d", tag, vi)
			if !r.Want(vtag) {
				continue
			}
			r.Eval(1)
			r.Distinct(vtag)
			inputs := c16HexList(t, x.Input)
			outputs := c16HexList(t, x.Output)
			var info []byte
			if v.Mode == 2 {
				info = c16Hex(t, x.Info)
			}
			var blinds []oprf.Blind
			for _, b := range c16HexList(t, x.Blind) {
				sc := s.G.NewScalar()
				if err := sc.UnmarshalBinary(b); err != nil {
					t.Fatalf("fixture blind: %v", err)
				}
				blinds = append(blinds, sc)
			}
			fd, req, err := p.blind(inputs, blinds)
			if err != nil {
				bad("DeterministicBlind", err.Error())
				continue
			}
			wantBl := c16HexList(t, x.BlindedElement)
			for i := range req.Elements {
				if got := verifc16.Enc(req.Elements[i]); !bytes.Equal(got, wantBl[i]) {
					bad("DeterministicBlind", fmt.Sprintf("vector %d blinded[%d] = %x, RFC %x", vi, i, got, wantBl[i]))
				}
			}
			ev, err := p.evaluate(req, info)
			if err != nil {
				bad("Evaluate", err.Error())
				continue
			}
			wantEv := c16HexList(t, x.EvaluationElement)
			for i := range ev.Elements {
				if got := verifc16.Enc(ev.Elements[i]); !bytes.Equal(got, wantEv[i]) {
					bad("Evaluate", fmt.Sprintf("vector %d evaluated[%d] = %x, RFC %x", vi, i, got, wantEv[i]))
				}
			}
			// evaluation rebuilt from the fixture bytes alone
			fix := &oprf.Evaluation{}
			for _, b := range wantEv {
				e := s.G.NewElement()
				if err := e.UnmarshalBinary(b); err != nil {
					bad("Element.UnmarshalBinary", err.Error())
				}
				fix.Elements = append(fix.Elements, e)
			}
			if v.Mode != 0 {
				// the proof for the fixture's randomness, with DLEQ parameters rebuilt from the RFC text
				params := dleq.Params{G: s.G, H: s.Hash, DST: c16ref.ContextString(v.Mode, v.Identifier)}
				rnd := s.G.NewScalar()
				if err := rnd.UnmarshalBinary(c16Hex(t, x.Proof.R)); err != nil {
					t.Fatalf("fixture r: %v", err)
				}
				var pr *dleq.Proof
				if v.Mode == 1 {
					pr, err = dleq.Prover{Params: params}.ProveBatchWithRandomness(p.k, s.G.Generator(), s.G.NewElement().MulGen(p.k), req.Elements, ev.Elements, rnd)
				} else {
					m := s.G.HashToScalar(c16ref.InfoFrame(info), c16ref.DST("HashToScalar-", v.Mode, v.Identifier))
					tk := s.G.NewScalar().Add(p.k, m)
					pr, err = dleq.Prover{Params: params}.ProveBatchWithRandomness(tk, s.G.Generator(), s.G.NewElement().MulGen(tk), ev.Elements, req.Elements, rnd)
				}
				if err != nil {
					bad("dleq.ProveBatchWithRandomness", err.Error())
				} else if got, _ := pr.MarshalBinary(); !bytes.Equal(got, c16Hex(t, x.Proof.Proof)) {
					bad("dleq.ProveBatchWithRandomness", fmt.Sprintf("vector %d proof = %x, RFC %s", vi, got, x.Proof.Proof))
				}
				fix.Proof = new(dleq.Proof)
				if err := fix.Proof.UnmarshalBinary(s.G, c16Hex(t, x.Proof.Proof)); err != nil {
					bad("dleq.Proof.UnmarshalBinary", err.Error())
					continue
				}
			}
			for name, e := range map[string]*oprf.Evaluation{"fixture-evaluation": fix, "server-evaluation": ev} {
				out, err, pan, what := p.finalize(fd, e, info)
				if pan || err != nil {
					bad("Finalize", fmt.Sprintf("vector %d (%s): err=%v panic=%s", vi, name, err, what))
					continue
				}
				for i := range out {
					if !bytes.Equal(out[i], outputs[i]) {
						bad("Finalize", fmt.Sprintf("vector %d (%s) output[%d] = %x, RFC %x", vi, name, i, out[i], outputs[i]))
					}
				}
			}
			for i := range inputs {
				out, err := p.full(inputs[i], info)
				if err != nil || !bytes.Equal(out, outputs[i]) {
					bad("FullEvaluate", fmt.Sprintf("vector %d input %d: %x (err %v), RFC %x", vi, i, out, err, outputs[i]))
				}
				if !p.verifyFinalize(inputs[i], info, outputs[i]) {
					bad("VerifyFinalize", fmt.Sprintf("vector %d input %d: RFC output refused", vi, i))
				}
				r.Count("rfc_outputs_checked", 1)
				// reference binding
				if ref := p.refOutput(inputs[i], info); !bytes.Equal(ref, outputs[i]) {
					if r.NumViolations() == nbad {
						t.Fatalf("reference composition wrong for %s input %d: %x, RFC %x", vtag, i, ref, outputs[i])
					}
					r.NotExhaustive("reference composition not bound on " + tag + " (circl itself deviates from the vectors there)")
				} else {
					r.Count("reference_outputs_bound", 1)
				}
			}
		}
	}
	r.Set("vector_sets_run", nsets)
	r.RequireCounter("rfc_outputs_checked", 40)
	r.RequireCounter("reference_outputs_bound", 40)
}

// ---------------------------------------------------------------------------------------------
// completeness

func TestVerifC16_oprf(t *testing.T) {
	r := verifmc.Start(t, "C16", "oprf")
	defer r.Finish()
	r.Rule("base case = (suite, mode, key in {DeriveKey(3 seeds x 2 infos), GenerateKey(deterministic stream), k=1, k=n-1}, info in {empty,x,2000x} (POPRF), batch = every sequence of 1..L inputs over {empty,a,200z}, blind vector in 2 disjoint vectors over {1,2,n-1,SEED}); " +
		"Finalize must succeed with one output per input, each equal to FullEvaluate of that input and to the reference composition of RFC 9497; VerifyFinalize must accept it and refuse a one-bit-altered output and another input's output; " +
		"non-trivial = distinct (suite, mode, key, info, batch, blind vector)")
	suites := c16Suites()
	type job struct {
		si   int
		mode byte
		ki   int
		ii   int // info index (POPRF), else 0
		maxL int
	}
	var jobs []job
	for si, s := range suites {
		lvl := s.Level(r.Thorough())
		nk := len(c16Keys(s.Grp, r.Seed()))
		for mode := byte(0); mode < 3; mode++ {
			for ki := 0; ki < nk; ki++ {
				for ii := 0; ii < 3; ii++ {
					if mode != 2 && ii > 0 {
						continue
					}
					maxL := 2
					switch lvl {
					case 0:
						if ki != 0 || (ii != 1 && mode == 2) {
							continue
						}
						maxL = 1
					case 1:
						if ki > 1 && ki < nk-2 {
							continue
						}
						if mode == 2 && ii != 1 && ki != 0 {
							continue
						}
					case 2:
						if ki == 0 {
							maxL = 3
						}
					default:
						maxL = 3
					}
					jobs = append(jobs, job{si, mode, ki, ii, maxL})
				}
			}
		}
	}
	r.Set("jobs(suite,mode,key,info)", len(jobs))
	r.Set("levels", verifc16.LevelNote)
	r.NotExhaustive("declared sub-alphabet of the (suite, mode, key, info, batch, blinds) product: " + verifc16.LevelNote +
		"; level 0: first key, info x, batches of one input plus [empty,z200] and [a,a,empty]; level 1: 4 keys, batches of 1..2; level 2: all keys, batches of 1..2 (1..3 for the first key); level 3: batches of 1..3 for all keys")
	inputs := c16Inputs()
	infos := c16Infos()
	verifmc.ParallelFor(len(jobs), func(ji int) {
		j := jobs[ji]
		s := suites[j.si]
		key := c16Keys(s.Grp, r.Seed())[j.ki]
		jobID := fmt.Sprintf("%s/%s/key=%s/info=%s", s.SuiteID, c16ModeName[j.mode], key.name, c16InfoName(j.ii))
		if r.Replaying() && !strings.HasPrefix(r.ReplayCase(), jobID) {
			return
		}
		p, err := c16NewParty(s, j.mode, key)
		if err != nil {
			c16Col.Add("C16|oprf.DeriveKey|error|"+c16ModeName[j.mode], jobID, jobID+": "+err.Error(), nil)
			return
		}
		var info []byte
		if j.mode == 2 {
			info = infos[j.ii]
		}
		viol := func(entry, class, id, what string, rp interface{}) {
			c16Col.Add(fmt.Sprintf("C16|oprf.%s|%s|%s", entry, class, c16ModeName[j.mode]), id, id+": "+what, rp)
		}
		// direct evaluation of every input, by the server and by the reference composition
		direct := make([][]byte, len(inputs))
		for i, in := range inputs {
			out, err := p.full(in, info)
			if err != nil {
				viol("FullEvaluate", "error", jobID, err.Error(), nil)
				return
			}
			r.Eval(1)
			direct[i] = out
			if ref := p.refOutput(in, info); !bytes.Equal(out, ref) {
				viol("FullEvaluate", "differs-from-RFC9497-composition", jobID+"/input="+c16InputName(i), fmt.Sprintf("FullEvaluate = %x, reference %x", out, ref),
					map[string]interface{}{"suite": s.SuiteID, "mode": j.mode, "sk": verifc16.Hx(verifc16.EncS(p.k)), "input": verifc16.Hx(in), "info": verifmc.Hex(info)})
			}
			if !p.verifyFinalize(in, info, out) {
				viol("VerifyFinalize", "refuses-correct-output", jobID+"/input="+c16InputName(i), "VerifyFinalize(input, FullEvaluate(input)) = false", nil)
			}
			if p.verifyFinalize(in, info, verifmc.Flip(out, 0)) || p.verifyFinalize(in, info, verifmc.Flip(out, len(out)*8-1)) || p.verifyFinalize(in, info, out[:len(out)-1]) {
				viol("VerifyFinalize", "accepts-altered-output", jobID+"/input="+c16InputName(i), "VerifyFinalize accepts an altered output", nil)
			}
			if i > 0 && p.verifyFinalize(inputs[i-1], info, out) {
				viol("VerifyFinalize", "accepts-other-inputs-output", jobID+"/input="+c16InputName(i), "VerifyFinalize accepts the output of another input", nil)
			}
			r.Count("direct_evaluations_checked", 1)
		}
		seqs := c16Seqs(3, j.maxL)
		if s.Level(r.Thorough()) == 0 {
			seqs = append(seqs, []int{0, 2}, []int{1, 1, 0})
		}
		bv := c16BlindVectors(s.Grp)
		for _, seq := range seqs {
			var first [][]byte
			for vi := 0; vi < 2; vi++ {
				id := fmt.Sprintf("%s/batch=%s/blinds=%d", jobID, c16SeqName(seq), vi)
				if !r.Want(id) || r.Expired() {
					continue
				}
				in := make([][]byte, len(seq))
				bl := make([]oprf.Blind, len(seq))
				for i, x := range seq {
					in[i] = inputs[x]
					bl[i] = bv[vi][i].Copy()
				}
				rp := map[string]interface{}{"suite": s.SuiteID, "mode": j.mode, "sk": verifc16.Hx(verifc16.EncS(p.k)), "info": verifmc.Hex(info), "batch": c16SeqName(seq), "blind_vector": vi}
				fd, req, err := p.blind(in, bl)
				if err != nil {
					viol("DeterministicBlind", "error", id, err.Error(), rp)
					continue
				}
				ev, err := p.evaluate(req, info)
				if err != nil {
					viol("Evaluate", "error", id, err.Error(), rp)
					continue
				}
				out, err, pan, what := p.finalize(fd, ev, info)
				r.Eval(1)
				r.Distinct(id)
				if pan || err != nil {
					viol("Finalize", "honest-evaluation-rejected", id, fmt.Sprintf("err=%v panic=%s", err, what), rp)
					continue
				}
				if len(out) != len(seq) {
					viol("Finalize", "wrong-number-of-outputs", id, fmt.Sprintf("%d outputs for %d inputs", len(out), len(seq)), rp)
					continue
				}
				good := true
				for i, x := range seq {
					if !bytes.Equal(out[i], direct[x]) {
						good = false
						viol("Finalize", "output-differs-from-FullEvaluate", id, fmt.Sprintf("output[%d] = %x, FullEvaluate(%s) = %x", i, out[i], c16InputName(x), direct[x]), rp)
						break
					}
				}
				if vi == 0 {
					first = out
				} else if first != nil {
					for i := range out {
						if !bytes.Equal(out[i], first[i]) {
							good = false
							viol("Finalize", "output-depends-on-blinds", id, fmt.Sprintf("output[%d] differs between the two blind vectors", i), rp)
							break
						}
					}
				}
				if good {
					r.Count("protocol_runs_agree", 1)
					r.Outcome("finalize=fullevaluate")
				}
				if ji == 0 && vi == 0 && len(seq) == 2 {
					r.Sample(map[string]interface{}{"case": id, "outputs": []string{verifc16.Hx(out[0]), verifc16.Hx(out[1])}})
				}
			}
		}
		// one run with the library's own random blinds
		if id := jobID + "/random-blinds"; r.Want(id) {
			in := [][]byte{inputs[1], inputs[0]}
			fd, req, err := p.randomBlind(in)
			if err == nil {
				var ev *oprf.Evaluation
				if ev, err = p.evaluate(req, info); err == nil {
					out, err2, pan, _ := p.finalize(fd, ev, info)
					r.Eval(1)
					if pan || err2 != nil || len(out) != 2 || !bytes.Equal(out[0], direct[1]) || !bytes.Equal(out[1], direct[0]) {
						viol("Finalize", "output-differs-from-FullEvaluate", id, fmt.Sprintf("random blinds: err=%v", err2), nil)
					} else {
						r.Count("random_blind_runs_agree", 1)
					}
				}
			}
			if err != nil {
				viol("Blind", "error", id, err.Error(), nil)
			}
		}
	})
	c16Col.Flush(r)
	r.RequireCounter("protocol_runs_agree", 500)
	r.RequireCounter("direct_evaluations_checked", 100)
	r.RequireCounter("random_blind_runs_agree", 20)
}

var _ = errors.Is
