//go:build verif

package oprf_test

// C16 (oprf part), tampering: in the verifiable and partially-oblivious modes
// Finalize fails whenever an evaluated element, the proof, the public key or the
// info differs from what the honest server produced (1 deviation, every site of
// the stated alphabets). In the base mode nothing can be demanded but "no panic".

import (
	"bytes"
	"fmt"
	"strings"
	"testing"

	"github.com/cloudflare/circl/group"
	"github.com/cloudflare/circl/internal/verifc16"
	"github.com/cloudflare/circl/internal/verifmc"
	"github.com/cloudflare/circl/internal/verifref/c16ref"
	"github.com/cloudflare/circl/oprf"
	"github.com/cloudflare/circl/zk/dleq"
)

// c16Bits returns the bit positions to flip in an n-byte string for a stride:
// every bit when stride is 1, else every bit of the first and the last byte plus every stride-th bit.
func c16Bits(n, stride int) []int {
	var out []int
	for b := 0; b < n*8; b++ {
		if stride <= 1 || b < 8 || b >= (n-1)*8 || b%stride == 0 {
			out = append(out, b)
		}
	}
	return out
}

type c16Tamper struct {
	r      *verifmc.Run
	p      *c16Party
	baseID string
	fd     *oprf.FinalizeData
	req    *oprf.EvaluationRequest
	ev     *oprf.Evaluation
	info   []byte
	honest [][]byte
}

// try runs Finalize on an altered input and classifies the result.
func (c *c16Tamper) try(class, name string, p *c16Party, ev *oprf.Evaluation, info []byte) {
	id := c.baseID + "|" + name
	if !c.r.Want(id) {
		return
	}
	c.r.Eval(1)
	out, err, pan, what := p.finalize(c.fd, ev, info)
	mode := c16ModeName[c.p.mode]
	switch {
	case pan:
		c.r.Outcome(mode + ":altered:panic")
		c.r.Count("altered_panic", 1)
		c.r.Set("panic_example", id+": "+what)
	case err != nil:
		c.r.Outcome(mode + ":altered:rejected(" + err.Error() + ")")
		c.r.Count("altered_rejected", 1)
		c.r.Distinct(id)
	case c.p.mode == 0:
		c.r.Outcome("OPRF:altered:outputs-returned(nothing demanded)")
		c.r.Count("base_mode_no_panic", 1)
	default:
		c.r.Outcome(mode + ":altered:ACCEPTED")
		same := len(out) == len(c.honest)
		for i := range out {
			same = same && bytes.Equal(out[i], c.honest[i])
		}
		rp := map[string]interface{}{"suite": c.p.s.SuiteID, "mode": c.p.mode, "sk": verifc16.Hx(verifc16.EncS(c.p.k)), "alteration": name,
			"info_used_by_client": verifmc.Hex(info), "outputs_equal_honest_outputs": same}
		c16Col.Add(fmt.Sprintf("C16|oprf.Finalize|altered-accepted|%s/%s", mode, class), id,
			fmt.Sprintf("%s: Finalize succeeds although %s (outputs equal the honest ones: %v)", id, name, same), rp)
	}
}

func (c *c16Tamper) decodeRejected(what string) {
	c.r.Outcome(c16ModeName[c.p.mode] + ":altered:rejected-at-decoding(" + what + ")")
	c.r.Count("altered_rejected_at_decoding", 1)
}

// sameValue: the altered encoding decodes to the honest value (a non-canonical encoding the decoder
// accepts - canonical decoding is property C09's subject); Finalize receives the same objects, nothing to demand.
func (c *c16Tamper) sameValue(what string) {
	c.r.Outcome(c16ModeName[c.p.mode] + ":altered-encoding-decodes-to-the-honest-value(" + what + ")")
	c.r.Count("altered_encoding_same_value_skipped", 1)
}

func (c *c16Tamper) withElements(els []oprf.Evaluated) *oprf.Evaluation {
	return &oprf.Evaluation{Elements: els, Proof: c.ev.Proof}
}

func (c *c16Tamper) copyEls() []oprf.Evaluated {
	out := make([]oprf.Evaluated, len(c.ev.Elements))
	for i, e := range c.ev.Elements {
		out[i] = e.Copy()
	}
	return out
}

func TestVerifC16_oprf_tamper(t *testing.T) {
	r := verifmc.Start(t, "C16", "oprf_tamper")
	defer r.Finish()
	r.Rule("base case = honest run (suite, mode, key, info, batch, blind vector); alterations, one at a time: evaluated[i] <- {another evaluation, identity, generator, blinded[i], -evaluated[i], evaluated[i]+G}, " +
		"two evaluations swapped, every enumerated single-bit flip of each serialised evaluated element, of proof c||s, of the public key and of info, proof scalars c/s <- {+-1, 0, swapped, other batch's}, " +
		"proof of another request, evaluation of another request / another mode, cheating server (evaluated[i] <- {identity, generator, unrelated} with a proof made with the server's key for the altered lists, for the lists with position i replaced by (I,I), and for the remaining positions), public key <- {other key, generator, -pk}, info <- {appended, truncated, empty, other}, blinded[i] changed after evaluation, " +
		"evaluation count changed; in VOPRF/POPRF Finalize must return an error (or decoding already fails); OPRF: no panic; non-trivial = distinct (base case, alteration) whose input differs from the honest one")
	suites := c16Suites()
	type job struct {
		si     int
		mode   byte
		ki, ii int
		seq    []int
		flips  bool
	}
	var jobs []job
	for si, s := range suites {
		lvl := s.Level(r.Thorough())
		for _, mode := range []byte{1, 2, 0} {
			add := func(ki, ii int, seq []int, flips bool) {
				if mode != 2 {
					ii = 0
				}
				jobs = append(jobs, job{si, mode, ki, ii, seq, flips && mode != 0})
			}
			switch lvl {
			case 0:
				add(0, 1, []int{1}, false)
				add(0, 1, []int{0, 1}, true)
			case 1:
				add(0, 1, []int{1}, true)
				add(0, 1, []int{0, 1}, true)
				add(0, 1, []int{1, 2, 0}, false)
			default:
				add(0, 1, []int{1}, true)
				add(0, 1, []int{0, 1}, true)
				add(0, 1, []int{1, 2, 0}, true)
				add(0, 1, []int{1, 1}, false)
				add(1, 1, []int{2, 1}, lvl >= 3)
				if mode == 2 {
					add(0, 0, []int{0, 1}, false)
					add(0, 2, []int{0, 1}, false)
				}
				if lvl >= 3 {
					for _, seq := range c16Seqs(3, 2) {
						add(0, 1, seq, false)
					}
				}
			}
		}
	}
	r.Set("base_cases", len(jobs))
	r.NotExhaustive("declared sub-alphabets: " + verifc16.LevelNote + "; bit flips at level 0 every 29th bit, level 1 every 5th bit (plus all bits of the first and last byte), level 2/3 every bit (P-521 at level 2: every second bit); " +
		"the 2000-byte info is flipped at every bit of its first and last 64 bytes and bit 0 of every 64th byte below level 3")
	inputs := c16Inputs()
	infos := c16Infos()
	verifmc.ParallelFor(len(jobs), func(ji int) {
		j := jobs[ji]
		s := suites[j.si]
		lvl := s.Level(r.Thorough())
		key := c16Keys(s.Grp, r.Seed())[j.ki]
		baseID := fmt.Sprintf("%s/%s/key=%s/info=%s/batch=%s", s.SuiteID, c16ModeName[j.mode], key.name, c16InfoName(j.ii), c16SeqName(j.seq))
		if r.Replaying() && !strings.HasPrefix(r.ReplayCase(), baseID) {
			return
		}
		if r.Expired() {
			return
		}
		p, err := c16NewParty(s, j.mode, key)
		if err != nil {
			t.Errorf("harness: %v", err)
			return
		}
		var info []byte
		if j.mode == 2 {
			info = infos[j.ii]
		}
		bv := c16BlindVectors(s.Grp)
		mk := func(vi int) (*oprf.FinalizeData, *oprf.EvaluationRequest, *oprf.Evaluation, error) {
			in := make([][]byte, len(j.seq))
			bl := make([]oprf.Blind, len(j.seq))
			for i, x := range j.seq {
				in[i] = inputs[x]
				bl[i] = bv[vi][i].Copy()
			}
			fd, req, err := p.blind(in, bl)
			if err != nil {
				return nil, nil, nil, err
			}
			ev, err := p.evaluate(req, info)
			return fd, req, ev, err
		}
		fd, req, ev, err := mk(0)
		if err != nil {
			c16Col.Add("C16|oprf.Evaluate|error|"+c16ModeName[j.mode], baseID, baseID+": "+err.Error(), nil)
			return
		}
		honest, err, pan, what := p.finalize(fd, ev, info)
		if err != nil || pan {
			c16Col.Add("C16|oprf.Finalize|honest-evaluation-rejected|"+c16ModeName[j.mode], baseID, fmt.Sprintf("%s: err=%v panic=%s", baseID, err, what), nil)
			return
		}
		r.Count("honest_base_cases", 1)
		c := &c16Tamper{r: r, p: p, baseID: baseID, fd: fd, req: req, ev: ev, info: info, honest: honest}
		g := s.G
		n := len(ev.Elements)
		stride := map[int]int{0: 29, 1: 5}[lvl]
		if lvl == 2 && s.Name == "P-521" {
			stride = 2 // thorough tier on P-521: every second bit (one verification costs 25 P-256 ones)
		}

		// ---- evaluated elements replaced ----
		for i := 0; i < n; i++ {
			orig := verifc16.Enc(ev.Elements[i])
			pool := []struct {
				name string
				e    group.Element
			}{
				{"identity", g.Identity()}, {"generator", g.Generator()}, {fmt.Sprintf("blinded[%d]", i), req.Elements[i].Copy()},
				{"-evaluated", g.NewElement().Neg(ev.Elements[i])}, {"evaluated+G", g.NewElement().Add(ev.Elements[i], g.Generator())},
				{"2*evaluated", g.NewElement().Dbl(ev.Elements[i])},
			}
			for k := 0; k < n; k++ {
				if k != i {
					pool = append(pool, struct {
						name string
						e    group.Element
					}{fmt.Sprintf("evaluated[%d]", k), ev.Elements[k].Copy()})
				}
			}
			for _, x := range pool {
				if bytes.Equal(verifc16.Enc(x.e), orig) {
					r.Count("alteration_is_identity_skipped", 1)
					continue
				}
				els := c.copyEls()
				els[i] = x.e
				c.try("evaluation-replaced", fmt.Sprintf("evaluated[%d]=%s", i, x.name), p, c.withElements(els), info)
			}
			for k := i + 1; k < n; k++ {
				if bytes.Equal(verifc16.Enc(ev.Elements[k]), orig) {
					r.Count("alteration_is_identity_skipped", 1)
					continue
				}
				els := c.copyEls()
				els[i], els[k] = els[k], els[i]
				c.try("evaluations-swapped", fmt.Sprintf("evaluated[%d]<->evaluated[%d]", i, k), p, c.withElements(els), info)
			}
			if j.flips {
				for _, b := range c16Bits(len(orig), stride) {
					e := g.NewElement()
					if err := e.UnmarshalBinary(verifmc.Flip(orig, b)); err != nil {
						c.decodeRejected("element")
						continue
					}
					if bytes.Equal(verifc16.Enc(e), orig) {
						c.sameValue("element")
						continue
					}
					r.Count("bitflips_decodable_element", 1)
					els := c.copyEls()
					els[i] = e
					c.try("evaluation-bitflip", fmt.Sprintf("evaluated[%d]^bit%d", i, b), p, c.withElements(els), info)
				}
			}
		}
		// ---- evaluation count ----
		if n > 1 {
			c.try("count-mismatch", "last-evaluation-dropped", p, c.withElements(c.copyEls()[:n-1]), info)
		}
		c.try("count-mismatch", "evaluation-appended", p, c.withElements(append(c.copyEls(), g.Generator())), info)

		// ---- another request ----
		_, _, ev2, err := mk(1)
		if err == nil {
			c.try("evaluation-of-other-request", "elements-of-other-request(with-its-proof)", p, ev2, info)
			if j.mode != 0 {
				c.try("proof-from-other-batch", "proof-of-other-request", p, &oprf.Evaluation{Elements: c.copyEls(), Proof: ev2.Proof}, info)
			}
		}
		// ---- another mode, same private scalar ----
		if j.mode != 0 {
			om := byte(3 - j.mode)
			if po, err := c16NewParty(s, om, c16Key{name: "same-scalar", rawBytes: verifc16.EncS(p.k)}); err == nil {
				if evo, err := po.evaluate(req, []byte("x")); err == nil {
					c.try("mode-confusion", "evaluation-by-"+c16ModeName[om]+"-server-with-the-same-key", p, evo, info)
				}
			}
		}
		if j.mode != 0 {
			// ---- cheating server: one evaluated element replaced, proof made with the server's key for a neighbouring statement ----
			// VOPRF proves (k; G, pk; blinded_j -> evaluated_j), POPRF proves (t = k + H(info); G, t*G; evaluated_j -> blinded_j).
			params := dleq.Params{G: g, H: s.Hash, DST: c16ref.ContextString(j.mode, s.SuiteID)}
			key := p.k
			if j.mode == 2 {
				key = g.NewScalar().Add(p.k, g.HashToScalar(c16ref.InfoFrame(info), c16ref.DST("HashToScalar-", j.mode, s.SuiteID)))
			}
			cheat := func(bl, evs []group.Element) *dleq.Proof {
				var pr *dleq.Proof
				var err error
				if pan, _ := verifmc.Try(func() {
					rnd := g.HashToScalar([]byte("cheating server randomness"), []byte("verif-c16"))
					if j.mode == 1 {
						pr, err = dleq.Prover{Params: params}.ProveBatchWithRandomness(key, g.Generator(), g.NewElement().MulGen(key), bl, evs, rnd)
					} else {
						pr, err = dleq.Prover{Params: params}.ProveBatchWithRandomness(key, g.Generator(), g.NewElement().MulGen(key), evs, bl, rnd)
					}
				}); pan || err != nil {
					return nil
				}
				return pr
			}
			copyReq := func() []group.Element {
				out := make([]group.Element, n)
				for i := range out {
					out[i] = req.Elements[i].Copy()
				}
				return out
			}
			// sanity: the rebuilt prover reproduces an acceptable honest proof (else the class would be vacuous)
			if pr := cheat(copyReq(), c.copyEls()); pr == nil {
				t.Errorf("harness: cannot rebuild the server's prover")
			} else if _, err, pan, _ := p.finalize(fd, &oprf.Evaluation{Elements: c.copyEls(), Proof: pr}, info); err != nil || pan {
				t.Errorf("harness: rebuilt server proof is not accepted on the honest evaluation: %v", err)
			} else {
				r.Count("cheating_server_prover_bound", 1)
			}
			for i := 0; i < n; i++ {
				for _, x := range []struct {
					name string
					e    group.Element
				}{{"identity", g.Identity()}, {"generator", g.Generator()}, {"unrelated", g.HashToElement([]byte("unrelated"), []byte("verif-c16"))}} {
					els := c.copyEls()
					els[i] = x.e
					// proof sources: the false statement itself; position i replaced by (identity, identity) on both lists
					// (what a verifier that skips the position would check); the sub-batch without position i
					blI, evI := copyReq(), c.copyEls()
					blI[i], evI[i] = g.Identity(), g.Identity()
					blR, evR := append(copyReq()[:i:i], copyReq()[i+1:]...), append(c.copyEls()[:i:i], c.copyEls()[i+1:]...)
					for _, src := range []struct {
						name    string
						bl, evs []group.Element
					}{{"proof-for-the-altered-lists", copyReq(), els}, {"proof-with-position-replaced-by-(I,I)", blI, evI}, {"proof-for-the-remaining-positions", blR, evR}} {
						pr := cheat(src.bl, src.evs)
						if pr == nil {
							c.r.Outcome(c16ModeName[j.mode] + ":cheating-prover-refuses")
							continue
						}
						r.Count("cheating_server_cases", 1)
						c.try("cheating-server", fmt.Sprintf("evaluated[%d]=%s+%s", i, x.name, src.name), p, &oprf.Evaluation{Elements: els, Proof: pr}, info)
					}
				}
			}
			// ---- proof ----
			praw, err := ev.Proof.MarshalBinary()
			if err != nil {
				t.Errorf("harness: proof marshal: %v", err)
				return
			}
			sl := len(praw) / 2
			withProof := func(class, name string, raw []byte) {
				pr := new(dleq.Proof)
				if err := pr.UnmarshalBinary(g, raw); err != nil {
					c.decodeRejected("proof")
					return
				}
				if re, err := pr.MarshalBinary(); err == nil && bytes.Equal(re, praw) {
					c.sameValue("proof scalar")
					return
				}
				c.try(class, name, p, &oprf.Evaluation{Elements: c.copyEls(), Proof: pr}, info)
			}
			cS, sS := g.NewScalar(), g.NewScalar()
			_ = cS.UnmarshalBinary(praw[:sl])
			_ = sS.UnmarshalBinary(praw[sl:])
			one := g.NewScalar().SetUint64(1)
			enc := func(a, b group.Scalar) []byte { return append(append([]byte{}, verifc16.EncS(a)...), verifc16.EncS(b)...) }
			withProof("proof-component", "c+1", enc(g.NewScalar().Add(cS, one), sS))
			withProof("proof-component", "c-1", enc(g.NewScalar().Sub(cS, one), sS))
			withProof("proof-component", "c=0", enc(g.NewScalar(), sS))
			withProof("proof-component", "c=-c", enc(g.NewScalar().Neg(cS), sS))
			withProof("proof-component", "s+1", enc(cS, g.NewScalar().Add(sS, one)))
			withProof("proof-component", "s-1", enc(cS, g.NewScalar().Sub(sS, one)))
			withProof("proof-component", "s=0", enc(cS, g.NewScalar()))
			withProof("proof-component", "s=-s", enc(cS, g.NewScalar().Neg(sS)))
			withProof("proof-component", "c<->s", enc(sS, cS))
			withProof("proof-component", "c=0,s=0", enc(g.NewScalar(), g.NewScalar()))
			if ev2 != nil && ev2.Proof != nil {
				p2raw, _ := ev2.Proof.MarshalBinary()
				withProof("proof-component", "c=other-proof's", append(append([]byte{}, p2raw[:sl]...), praw[sl:]...))
				withProof("proof-component", "s=other-proof's", append(append([]byte{}, praw[:sl]...), p2raw[sl:]...))
			}
			if j.flips {
				for _, b := range c16Bits(len(praw), stride) {
					cls := "proof-c-bitflip"
					if b >= sl*8 {
						cls = "proof-s-bitflip"
					}
					r.Count("bitflips_proof", 1)
					withProof(cls, fmt.Sprintf("proof^bit%d", b), verifmc.Flip(praw, b))
				}
			}
			// ---- public key ----
			pkraw, _ := p.pk.MarshalBinary()
			withPK := func(class, name string, raw []byte) {
				pk := new(oprf.PublicKey)
				if err := pk.UnmarshalBinary(s.S, raw); err != nil {
					c.decodeRejected("public key")
					return
				}
				if re, err := pk.MarshalBinary(); err == nil && bytes.Equal(re, pkraw) {
					c.sameValue("public key")
					return
				}
				q := *p
				var pan bool
				if pan, _ = verifmc.Try(func() { q.setClients(pk) }); pan {
					c.decodeRejected("public key refused by the client constructor")
					return
				}
				c.try(class, name, &q, ev, info)
			}
			if ok, err := c16NewParty(s, j.mode, c16Keys(s.Grp, 0)[2]); err == nil {
				oraw, _ := ok.pk.MarshalBinary()
				withPK("pk-replaced", "pk=other-key's", oraw)
			}
			withPK("pk-replaced", "pk=generator", verifc16.Enc(g.Generator()))
			pkEl := g.NewElement()
			_ = pkEl.UnmarshalBinary(pkraw)
			withPK("pk-replaced", "pk=-pk", verifc16.Enc(g.NewElement().Neg(pkEl)))
			withPK("pk-replaced", "pk=2*pk", verifc16.Enc(g.NewElement().Dbl(pkEl)))
			withPK("pk-replaced", "pk=identity", verifc16.Enc(g.Identity()))
			if j.flips {
				for _, b := range c16Bits(len(pkraw), stride) {
					r.Count("bitflips_pk", 1)
					withPK("pk-bitflip", fmt.Sprintf("pk^bit%d", b), verifmc.Flip(pkraw, b))
				}
			}
			// ---- blinded element changed after the evaluation (the client's own record) ----
			for i := 0; i < n; i++ {
				saved := req.Elements[i]
				for _, x := range []struct {
					name string
					e    group.Element
				}{{"generator", g.Generator()}, {"-blinded", g.NewElement().Neg(saved)}, {"evaluated", ev.Elements[i].Copy()}} {
					if bytes.Equal(verifc16.Enc(x.e), verifc16.Enc(saved)) {
						continue
					}
					req.Elements[i] = x.e
					c.try("blinded-changed-after-evaluation", fmt.Sprintf("blinded[%d]=%s", i, x.name), p, ev, info)
				}
				req.Elements[i] = saved
			}
		}
		// ---- info (POPRF) ----
		if j.mode == 2 {
			alts := map[string][]byte{"info+x": append(append([]byte{}, info...), 'x'), "info+00": append(append([]byte{}, info...), 0), "info=other": []byte("other info")}
			if len(info) > 0 {
				alts["info-last-byte"] = info[:len(info)-1]
				alts["info=empty"] = []byte{}
			}
			names := make([]string, 0, len(alts))
			for k := range alts {
				names = append(names, k)
			}
			// fixed order
			for _, k := range []string{"info+x", "info+00", "info=other", "info-last-byte", "info=empty"} {
				if v, ok := alts[k]; ok && !bytes.Equal(v, info) {
					c.try("info-altered", k, p, ev, v)
				}
			}
			_ = names
			if len(info) > 0 {
				var bits []int
				if lvl >= 3 || len(info) <= 64 {
					bits = c16Bits(len(info), 1)
				} else {
					bits, _ = verifmc.BitPositions(len(info), 64, 64)
				}
				for _, b := range bits {
					r.Count("bitflips_info", 1)
					c.try("info-bitflip", fmt.Sprintf("info^bit%d", b), p, ev, verifmc.Flip(info, b))
				}
			}
		}
		if ji == 1 {
			r.Sample(map[string]interface{}{"base_case": baseID, "honest_output0": verifc16.Hx(honest[0])})
		}
	})
	c16Col.Flush(r)
	if !r.Expired() {
		r.RequireCounter("honest_base_cases", int64(len(jobs)))
	}
	r.RequireCounter("altered_rejected", 5000)
	r.RequireCounter("bitflips_decodable_element", 200)
	r.RequireCounter("bitflips_proof", 1000)
	r.RequireCounter("bitflips_pk", 300)
	r.RequireCounter("bitflips_info", 500)
	r.RequireCounter("base_mode_no_panic", 20)
	r.RequireCounter("cheating_server_cases", 300)
	r.RequireCounter("cheating_server_prover_bound", 20)
}
