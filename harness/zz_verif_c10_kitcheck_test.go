//go:build verif

package circl_test

// C10 kitcheck: binds the supervisor / alteration enumerator to its specification before it is
// trusted (guide rule 3): synthetic decoders with planted failures of every class (recoverable
// panic, nil dereference, stack overflow, runaway allocation, panic on another goroutine,
// non-termination) are run through the same machinery as the real registry; every planted failure
// must be attributed to the right row with the right class and nothing else may be reported.
// A mismatch makes the check broken (t.Fatal), never an alarm.

import (
	"errors"
	"sort"
	"strings"
	"testing"
	"time"

	"github.com/cloudflare/circl/internal/verifmc"
	kit "github.com/cloudflare/circl/internal/verifref/c10kit"
)

var errKitcheck = errors.New("kitcheck: rejected")

type c10KcNode struct{ next *c10KcNode }

func c10KcRecurse(n int) int { return c10KcRecurse(n+1) + 1 }

func c10KitcheckRows() []*kit.Row {
	base := []byte{4, 0x10, 0x20, 0x30, 0x40, 0x50, 0x60, 0x70} // [index][payload...]
	mk := func(name string, f func(in []byte) error) *kit.Row {
		return &kit.Row{Name: "kitcheck." + name, Cost: kit.Cheap, Setup: func() *kit.Inst {
			return &kit.Inst{Bases: [][]byte{base}, Call: f}
		}}
	}
	return []*kit.Row{
		mk("clean", func(in []byte) error {
			if len(in) != 8 || int(in[0]) >= len(in) {
				return errKitcheck
			}
			return nil
		}),
		mk("index", func(in []byte) error { // unchecked index taken from the input
			if len(in) == 0 {
				return errKitcheck
			}
			_ = in[in[0]]
			return nil
		}),
		mk("slice", func(in []byte) error { // unchecked fixed-size slicing
			_ = in[:8]
			return nil
		}),
		mk("nil", func(in []byte) error {
			var n *c10KcNode
			if len(in) == 9 {
				_ = n.next.next
			}
			return nil
		}),
		mk("stackoverflow", func(in []byte) error {
			if len(in) == 8 && in[0] == 0xff && in[1] == 0x10 { // exactly one case: win8@0=FF
				c10KcRecurse(0)
			}
			return nil
		}),
		mk("oom", func(in []byte) error {
			if len(in) == 8 && in[0] == 4 && in[1] == 0xff && in[2] == 0xff && in[3] == 0x30 { // one case: win16@1=FFFF
				b := make([]byte, 1<<42)
				b[len(b)-1] = 1
			}
			return nil
		}),
		mk("goroutine", func(in []byte) error {
			if len(in) == 24 { // appended 16 bytes
				done := make(chan struct{})
				go func() { panic("kitcheck: panic on another goroutine") }()
				<-done
			}
			return nil
		}),
		mk("hang", func(in []byte) error {
			if len(in) == 1 && in[0] == 0xff {
				for i := 0; ; i++ {
					if i < 0 {
						break
					}
					i = 0
				}
			}
			return nil
		}),
	}
}

func init() { // not in c10UnitOrder: not part of the registry
	c10Units["kitcheck-rest"] = func() []*kit.Row {
		var o []*kit.Row
		for _, row := range c10KitcheckRows() {
			if row.Name != "kitcheck.hang" {
				o = append(o, row)
			}
		}
		return o
	}
	c10Units["kitcheck-hang"] = func() []*kit.Row {
		for _, row := range c10KitcheckRows() {
			if row.Name == "kitcheck.hang" {
				return []*kit.Row{row}
			}
		}
		return nil
	}
}

func TestVerifC10_kitcheck(t *testing.T) {
	t.Parallel()
	r := verifmc.Start(t, "C10", "kitcheck")
	defer r.Finish()
	r.Rule("8 synthetic decoders, 7 planted failure classes; a case = one planted failure that must be attributed exactly")
	if r.Replaying() {
		return
	}
	// two passes: the hang row with a short watchdog (a hang is believed after 3 consecutive kills), the
	// others with the production watchdog so that a slow stack overflow is not mistaken for a hang
	all := c10KitcheckRows()
	var hang, rest []*kit.Row
	for _, row := range all {
		if row.Name == "kitcheck.hang" {
			hang = append(hang, row)
		} else {
			rest = append(rest, row)
		}
	}
	rec := kit.SelfTest(t, "kitcheck-rest", "TestC10Worker", rest, 0)
	rec2 := kit.SelfTest(t, "kitcheck-hang", "TestC10Worker", hang, 2*time.Second)
	for k, v := range rec2.Viol {
		rec.Viol[k] = v
	}
	rec.Evals += rec2.Evals
	want := []string{
		"C10|kitcheck.goroutine|fatal:unrecovered-panic|long",
		"C10|kitcheck.hang|fatal:hang|short",
		"C10|kitcheck.index|panic:index|long", // appendself etc: in[0]=4 is fine; flips of in[0] -> samelen; short: trunc
		"C10|kitcheck.index|panic:index|samelen",
		"C10|kitcheck.index|panic:index|short",
		"C10|kitcheck.nil|panic:nil|long",
		"C10|kitcheck.oom|fatal:oom|samelen",
		"C10|kitcheck.slice|panic:slice|short",
		"C10|kitcheck.stackoverflow|fatal:stackoverflow|samelen",
	}
	var got []string
	for k := range rec.Viol {
		got = append(got, k)
	}
	sort.Strings(got)
	sort.Strings(want)
	r.Eval(rec.Evals)
	for _, k := range got {
		r.Distinct(k)
		r.Outcome(strings.Split(k, "|")[2])
	}
	r.Set("attributed", rec.Viol)
	r.Count("planted_failures_attributed", len(got))
	if strings.Join(got, "\n") != strings.Join(want, "\n") {
		t.Fatalf("supervisor self-test failed.\n got:\n  %s\nwant:\n  %s", strings.Join(got, "\n  "), strings.Join(want, "\n  "))
	}
	r.RequireCounter("planted_failures_attributed", int64(len(want)))
}
