//go:build verif

package qndleq_test

// C16 (zk/qndleq part): DLEQ proofs in the subgroup of squares modulo N verify
// when produced honestly, fail when a proof component or statement element is
// altered, and never verify for a false statement when the proof is assembled
// from degenerate values - including a prover-chosen security parameter, which
// this verifier reads from the proof itself.

import (
	"fmt"
	"math/big"
	"strings"
	"testing"

	"github.com/cloudflare/circl/internal/verifc16"
	"github.com/cloudflare/circl/internal/verifmc"
	"github.com/cloudflare/circl/internal/verifref/c16ref"
	"github.com/cloudflare/circl/zk/qndleq"
)

var c16Col verifc16.Collector

// c16MaxSecParam is the upper bound the library documents (qndleq.MaxSecParam = 1<<16). Kept as a literal so that the
// harness also builds against a tree that does not have the constant.
const c16MaxSecParam uint = 1 << 16

type c16Mod struct {
	name    string
	p, q, n *big.Int
}

func c16Moduli(t testing.TB, thorough bool) []c16Mod {
	ps, err := verifc16.SafePrimes()
	if err != nil || len(ps) < 6 {
		t.Fatalf("safe prime fixtures: %v (%d primes)", err, len(ps))
	}
	ms := []c16Mod{
		{"N1024a", ps[0], ps[1], new(big.Int).Mul(ps[0], ps[1])},
		{"N1024b", ps[2], ps[3], new(big.Int).Mul(ps[2], ps[3])},
	}
	if thorough {
		ms = append(ms, c16Mod{"N2048", ps[4], ps[5], new(big.Int).Mul(ps[4], ps[5])})
	}
	return ms
}

type c16Stmt struct{ g, gx, h, hx, n *big.Int }

func (s c16Stmt) clone() c16Stmt {
	c := func(x *big.Int) *big.Int { return new(big.Int).Set(x) }
	return c16Stmt{c(s.g), c(s.gx), c(s.h), c(s.hx), c(s.n)}
}

func (s c16Stmt) hex() map[string]string {
	return map[string]string{"g": s.g.Text(16), "gx": s.gx.Text(16), "h": s.h.Text(16), "hx": s.hx.Text(16), "N": s.n.Text(16)}
}

func (s c16Stmt) equal(o c16Stmt) bool {
	return s.g.Cmp(o.g) == 0 && s.gx.Cmp(o.gx) == 0 && s.h.Cmp(o.h) == 0 && s.hx.Cmp(o.hx) == 0 && s.n.Cmp(o.n) == 0
}

func c16Verify(p qndleq.Proof, s c16Stmt) (ok, panicked bool, what string) {
	panicked, what = verifmc.Try(func() { ok = p.Verify(s.g, s.gx, s.h, s.hx, s.n) })
	return
}

// bases g, h: squares of small and SHAKE-derived values
func c16Bases(m c16Mod) [][2]*big.Int {
	sq := func(v *big.Int) *big.Int { return new(big.Int).Exp(v, big.NewInt(2), m.n) }
	sa := new(big.Int).SetBytes(verifmc.Shake("c16-qn-g/"+m.name, 200))
	sb := new(big.Int).SetBytes(verifmc.Shake("c16-qn-h/"+m.name, 200))
	return [][2]*big.Int{{big.NewInt(4), big.NewInt(9)}, {sq(sa), sq(sb)}}
}

func c16Exps(m c16Mod, seed int64) []*big.Int {
	xs := []*big.Int{big.NewInt(0), big.NewInt(1), big.NewInt(2),
		new(big.Int).Mod(new(big.Int).SetBytes(verifmc.Shake("c16-qn-x/"+m.name, 200)), m.n)}
	if seed != 0 {
		xs = append(xs, new(big.Int).Mod(new(big.Int).SetBytes(verifmc.Shake(fmt.Sprintf("c16-qn-x/%s/%d", m.name, seed), 200)), m.n))
	}
	return xs
}

func c16XName(i int) string { return []string{"0", "1", "2", "SEED", "VSEED"}[i] }

func TestVerifC16_qndleq_refcheck(t *testing.T) {
	r := verifmc.Start(t, "C16", "qndleq_refcheck")
	defer r.Finish()
	r.Rule("fixtures: every prime of safe_primes.txt is a safe prime; the bases used generate Qn; -1 is not a square; the reference's truth predicate separates the true and false statements used")
	for _, m := range c16Moduli(t, true) {
		if !c16ref.IsSafePrime(m.p) || !c16ref.IsSafePrime(m.q) || m.p.Cmp(m.q) == 0 {
			t.Fatalf("%s: fixture primes are not distinct safe primes", m.name)
		}
		for _, b := range c16Bases(m) {
			for _, e := range b {
				if !c16ref.GeneratesQn(e, m.p, m.q) {
					t.Fatalf("%s: base %s does not generate Qn", m.name, e.Text(16))
				}
				if c16ref.InQn(new(big.Int).Sub(m.n, e), m.p, m.q) {
					t.Fatalf("%s: N - base is a square", m.name)
				}
				r.Eval(1)
			}
		}
		for _, x := range c16Exps(m, 0) {
			x1 := new(big.Int).Add(x, big.NewInt(1))
			if !c16ref.QnDLEQTrue(m.p, m.q, x, x) || c16ref.QnDLEQTrue(m.p, m.q, x, x1) {
				t.Fatalf("%s: reference truth predicate wrong", m.name)
			}
			r.Eval(1)
		}
	}
	// small complete check of QnDLEQTrue against brute force: N = 7*11 (safe primes 7 = 2*3+1, 11 = 2*5+1), Qn has order 15
	p, q, n := big.NewInt(7), big.NewInt(11), big.NewInt(77)
	var gen *big.Int
	for v := int64(2); v < 77 && gen == nil; v++ {
		if c16ref.GeneratesQn(big.NewInt(v), p, q) {
			gen = big.NewInt(v)
		}
	}
	if gen == nil {
		t.Fatal("no generator of Q77 found")
	}
	for a := int64(0); a < 30; a++ {
		for b := int64(0); b < 30; b++ {
			ga := new(big.Int).Exp(gen, big.NewInt(a), n)
			gb := new(big.Int).Exp(gen, big.NewInt(b), n)
			if (ga.Cmp(gb) == 0) != c16ref.QnDLEQTrue(p, q, big.NewInt(a), big.NewInt(b)) {
				t.Fatalf("QnDLEQTrue wrong for exponents %d, %d mod 77", a, b)
			}
			r.Eval(1)
			r.Distinct(a, b)
		}
	}
}

func TestVerifC16_qndleq(t *testing.T) {
	r := verifmc.Start(t, "C16", "qndleq")
	defer r.Finish()
	r.Rule("base case = (modulus from the safe-prime fixtures, bases (g,h) in {(4,9),(SEED^2,SEED'^2)}, x in {0,1,2,SEED}, security parameter in {128,129,256}, prover randomness stream in 2), plus one base case per modulus at the largest accepted security parameter 2^16 (must verify) and at 2^16+1 (Prove must refuse); " +
		"honest proof must verify; every single alteration of (Z, C, SecParam to another challenge length, g, gx, h, hx, N) that changes the input must be rejected; " +
		"non-trivial = distinct (base case, alteration). A SecParam that maps to the same challenge byte length is the same proof and is recorded as outcome only")
	mods := c16Moduli(t, r.Thorough())
	secs := []uint{128, 129, 256}
	type base struct {
		mi, bi, xi, si, ri int
	}
	var bases []base
	for mi, m := range mods {
		for bi := range c16Bases(m) {
			for xi := range c16Exps(m, r.Seed()) {
				for si := range secs {
					for ri := 0; ri < 2; ri++ {
						bases = append(bases, base{mi, bi, xi, si, ri})
					}
				}
			}
		}
	}
	r.Set("base_cases", len(bases))
	r.Set("moduli_bits", func() (o []int) {
		for _, m := range mods {
			o = append(o, m.n.BitLen())
		}
		return
	}())
	verifmc.ParallelFor(len(bases), func(i int) {
		b := bases[i]
		m := mods[b.mi]
		gh := c16Bases(m)[b.bi]
		x := c16Exps(m, r.Seed())[b.xi]
		sec := secs[b.si]
		baseID := fmt.Sprintf("%s/bases=%d/x=%s/sec=%d/rnd=%d", m.name, b.bi, c16XName(b.xi), sec, b.ri)
		if r.Replaying() && !strings.HasPrefix(r.ReplayCase(), baseID) {
			return
		}
		st := c16Stmt{gh[0], new(big.Int).Exp(gh[0], x, m.n), gh[1], new(big.Int).Exp(gh[1], x, m.n), m.n}
		var pr *qndleq.Proof
		var err error
		if p, what := verifmc.Try(func() {
			pr, err = qndleq.Prove(verifmc.NewDetReader(fmt.Sprintf("c16-qn-%d", b.ri)), x, st.g, st.gx, st.h, st.hx, st.n, sec)
		}); p || err != nil {
			c16Col.Add("C16|qndleq.Prove|honest-prover-fails|-", baseID, fmt.Sprintf("%s: panic=%v %s err=%v", baseID, p, what, err), st.hex())
			return
		}
		r.Eval(1)
		if pr.SecParam != sec {
			c16Col.Add("C16|qndleq.Prove|proof-carries-other-secparam|-", baseID, fmt.Sprintf("%s: proof.SecParam = %d", baseID, pr.SecParam), nil)
		}
		ok, pan, what := c16Verify(*pr, st)
		if !ok {
			c16Col.Add("C16|qndleq.Proof.Verify|honest-proof-rejected|-", baseID+"|honest", fmt.Sprintf("%s: honest proof rejected (panic=%v %s)", baseID, pan, what), st.hex())
			return
		}
		r.Count("honest_verified", 1)
		r.Distinct(baseID, "honest")
		r.Outcome("honest:verifies")
		if i == 0 {
			r.Sample(map[string]interface{}{"case": baseID, "Z": pr.Z.Text(16), "C": pr.C.Text(16), "SecParam": pr.SecParam, "statement": st.hex()})
		}
		one := big.NewInt(1)
		type alt struct {
			name string
			p    qndleq.Proof
			s    c16Stmt
			info bool // same challenge length: recorded, nothing demanded
		}
		var alts []alt
		pa := func(name string, z, c *big.Int, sp uint) {
			alts = append(alts, alt{name, qndleq.Proof{Z: z, C: c, SecParam: sp}, st, false})
		}
		bi := func(x *big.Int, d int64) *big.Int { return new(big.Int).Add(x, big.NewInt(d)) }
		pa("Z+1", bi(pr.Z, 1), pr.C, sec)
		pa("Z-1", bi(pr.Z, -1), pr.C, sec)
		pa("Z=0", big.NewInt(0), pr.C, sec)
		pa("Z=C", pr.C, pr.C, sec)
		pa("Z=-Z", new(big.Int).Neg(pr.Z), pr.C, sec)
		pa("C+1", pr.Z, bi(pr.C, 1), sec)
		pa("C-1", pr.Z, bi(pr.C, -1), sec)
		pa("C=0", pr.Z, big.NewInt(0), sec)
		pa("C=1", pr.Z, big.NewInt(1), sec)
		pa("C=Z", pr.Z, pr.Z, sec)
		pa("C=0,Z=0", big.NewInt(0), big.NewInt(0), sec)
		for _, sp := range []uint{0, 1, 8, sec - 8, sec + 8, sec / 2, 2 * sec} {
			pa(fmt.Sprintf("SecParam=%d", sp), pr.Z, pr.C, sp)
		}
		for _, sp := range []uint{sec - 1, sec + 1, (sec+7)/8*8 - 7, (sec + 7) / 8 * 8} {
			if sp != sec && (sp+7)/8 == (sec+7)/8 {
				alts = append(alts, alt{fmt.Sprintf("SecParam=%d(same-length)", sp), qndleq.Proof{Z: pr.Z, C: pr.C, SecParam: sp}, st, true})
			}
		}
		sa := func(name string, f func(s *c16Stmt)) {
			s := st.clone()
			f(&s)
			alts = append(alts, alt{name, *pr, s, false})
		}
		type fld struct {
			name string
			get  func(s *c16Stmt) **big.Int
		}
		flds := []fld{{"g", func(s *c16Stmt) **big.Int { return &s.g }}, {"gx", func(s *c16Stmt) **big.Int { return &s.gx }},
			{"h", func(s *c16Stmt) **big.Int { return &s.h }}, {"hx", func(s *c16Stmt) **big.Int { return &s.hx }}}
		for _, f := range flds {
			f := f
			sa(f.name+"=1", func(s *c16Stmt) { *f.get(s) = big.NewInt(1) })
			sa(f.name+"+1", func(s *c16Stmt) { p := f.get(s); *p = bi(*p, 1) })
			sa(f.name+"=N-"+f.name, func(s *c16Stmt) { p := f.get(s); *p = new(big.Int).Sub(s.n, *p) })
			sa(f.name+"^2", func(s *c16Stmt) { p := f.get(s); *p = new(big.Int).Exp(*p, big.NewInt(2), s.n) })
			sa(f.name+"*4", func(s *c16Stmt) { p := f.get(s); *p = new(big.Int).Mod(new(big.Int).Mul(*p, big.NewInt(4)), s.n) })
		}
		sa("g<->h", func(s *c16Stmt) { s.g, s.h = s.h, s.g })
		sa("gx<->hx", func(s *c16Stmt) { s.gx, s.hx = s.hx, s.gx })
		sa("(g,gx)<->(h,hx)", func(s *c16Stmt) { s.g, s.h = s.h, s.g; s.gx, s.hx = s.hx, s.gx })
		sa("g<->gx", func(s *c16Stmt) { s.g, s.gx = s.gx, s.g })
		sa("N+2", func(s *c16Stmt) { s.n = bi(s.n, 2) })
		sa("N=other-modulus", func(s *c16Stmt) { s.n = mods[(b.mi+1)%len(mods)].n })
		_ = one
		for _, a := range alts {
			id := baseID + "|" + a.name
			if !r.Want(id) {
				continue
			}
			if a.s.equal(st) && a.p.Z.Cmp(pr.Z) == 0 && a.p.C.Cmp(pr.C) == 0 && a.p.SecParam == pr.SecParam {
				r.Count("alteration_is_identity_skipped", 1)
				continue
			}
			r.Eval(1)
			ok, pan, what := c16Verify(a.p, a.s)
			if a.info {
				r.Outcome(fmt.Sprintf("SecParam-same-challenge-length:verifies=%v", ok))
				continue
			}
			switch {
			case pan:
				r.Outcome("altered:panic")
				r.Count("altered_panic", 1)
				r.Set("panic_example", id+": "+what)
			case ok:
				r.Outcome("altered:ACCEPTED")
				cls := a.name
				if strings.HasPrefix(cls, "SecParam=") {
					cls = "SecParam"
				}
				rp := map[string]interface{}{"statement": a.s.hex(), "honest_statement": st.hex(), "Z": a.p.Z.Text(16), "C": a.p.C.Text(16), "SecParam": a.p.SecParam}
				c16Col.Add("C16|qndleq.Proof.Verify|altered-accepted|"+cls, id, id+": proof verifies although "+a.name+" differs from the honest value", rp)
			default:
				r.Outcome("altered:rejected")
				r.Count("altered_rejected", 1)
				r.Distinct(id)
			}
		}
	})
	// The top of the accepted range: an honest proof with SecParam = 2^16 must verify (and its Z+1 / C+1 / SecParam+1
	// alterations must not); with SecParam = 2^16 + 1 the prover must refuse (the verifier refuses that value: see the
	// degenerate unit). One base case per modulus: a proof of this size costs ~1 s.
	for mi, m := range mods {
		if mi > 0 && !r.Thorough() {
			break
		}
		gh := c16Bases(m)[0]
		x := c16Exps(m, 0)[3]
		st := c16Stmt{gh[0], new(big.Int).Exp(gh[0], x, m.n), gh[1], new(big.Int).Exp(gh[1], x, m.n), m.n}
		for _, sec := range []uint{c16MaxSecParam, c16MaxSecParam + 1} {
			id := fmt.Sprintf("%s/bases=0/x=SEED/sec=%d/rnd=0", m.name, sec)
			if !r.Want(id) {
				continue
			}
			var pr *qndleq.Proof
			var err error
			pan, what := verifmc.Try(func() {
				pr, err = qndleq.Prove(verifmc.NewDetReader("c16-qn-max"), x, st.g, st.gx, st.h, st.hx, st.n, sec)
			})
			r.Eval(1)
			if sec > c16MaxSecParam {
				if !pan && err == nil {
					ok, _, _ := c16Verify(*pr, st)
					c16Col.Add("C16|qndleq.Prove|accepts-secparam-above-max|-", id,
						fmt.Sprintf("%s: Prove accepts a security parameter above 2^16 (Verify of that proof = %v); the parameter is unbounded", id, ok), st.hex())
				} else {
					r.Count("prover_refuses_above_max", 1)
					r.Distinct(id)
				}
				continue
			}
			if pan || err != nil {
				c16Col.Add("C16|qndleq.Prove|honest-prover-fails|SecParam=max", id, fmt.Sprintf("%s: panic=%v %s err=%v", id, pan, what, err), st.hex())
				continue
			}
			if ok, _, _ := c16Verify(*pr, st); !ok {
				c16Col.Add("C16|qndleq.Proof.Verify|honest-proof-rejected|SecParam=max", id, id+": honest proof with the largest accepted security parameter rejected", st.hex())
				continue
			}
			r.Count("honest_verified_at_max_secparam", 1)
			r.Distinct(id, "honest")
			for _, a := range []struct {
				name string
				p    qndleq.Proof
			}{
				{"Z+1", qndleq.Proof{Z: new(big.Int).Add(pr.Z, big.NewInt(1)), C: pr.C, SecParam: sec}},
				{"C+1", qndleq.Proof{Z: pr.Z, C: new(big.Int).Add(pr.C, big.NewInt(1)), SecParam: sec}},
				{"SecParam+1", qndleq.Proof{Z: pr.Z, C: pr.C, SecParam: sec + 1}},
				{"SecParam+8", qndleq.Proof{Z: pr.Z, C: pr.C, SecParam: sec + 8}},
			} {
				r.Eval(1)
				if ok, _, _ := c16Verify(a.p, st); ok {
					cls := a.name
					if strings.HasPrefix(cls, "SecParam") {
						cls = "SecParam"
					}
					c16Col.Add("C16|qndleq.Proof.Verify|altered-accepted|"+cls, id+"|"+a.name, id+"|"+a.name+": proof verifies although "+a.name+" differs from the honest value", st.hex())
				} else {
					r.Count("altered_rejected", 1)
					r.Distinct(id + "|" + a.name)
				}
			}
		}
	}
	c16Col.Flush(r)
	r.RequireCounter("honest_verified", 90)
	r.RequireCounter("honest_verified_at_max_secparam", 1)
	r.RequireCounter("prover_refuses_above_max", 1)
	r.RequireCounter("altered_rejected", 3000)
}

func TestVerifC16_qndleq_degenerate(t *testing.T) {
	r := verifmc.Start(t, "C16", "qndleq_degenerate")
	defer r.Finish()
	zmax := r.Pick(1<<10, 1<<12)
	r.Rule(fmt.Sprintf("false statements (g, g^x, h, hx') with hx' in {h^(x+1), h^x*h^2, h^(2x+1), 1 (x != 0)} and (g, g^(x+1), h, h^x), x in {1,2,SEED}, all elements in Qn, falsity decided by c16ref.QnDLEQTrue on the known exponents; "+
		"full product Z in [0,%d) + {N-1, N, 2^64} x C in {0,1} x SecParam in {0,1,8,16,128,256}; the upper end of the parameter, SecParam in {^uint(0)-k (k=0..15), 2^63, 2^16, 2^16+1, 2^20} x C in {0,1} x Z in [0,64) + {N-1, N, 2^64} "+
		"(a makeslice panic counts as fails); plus the real prover run on every false statement with both candidate witnesses and 4 randomness streams; "+
		"non-trivial = distinct (modulus, false statement, Z, C, SecParam)", zmax))
	mods := c16Moduli(t, r.Thorough())
	type fs struct {
		id     string
		st     c16Stmt
		xg, xh *big.Int // gx = g^xg, hx = h^xh
		m      c16Mod
	}
	var stmts []fs
	for _, m := range mods {
		for bi, gh := range c16Bases(m) {
			if bi == 1 && !r.Thorough() {
				continue
			}
			for xi, x := range c16Exps(m, 0) {
				if xi == 0 {
					continue
				}
				g, h := gh[0], gh[1]
				mk := func(name string, xg, xh *big.Int) {
					stmts = append(stmts, fs{fmt.Sprintf("%s/bases=%d/x=%s/%s", m.name, bi, c16XName(xi), name),
						c16Stmt{g, new(big.Int).Exp(g, xg, m.n), h, new(big.Int).Exp(h, xh, m.n), m.n}, xg, xh, m})
				}
				x1 := new(big.Int).Add(x, big.NewInt(1))
				mk("hx=h^(x+1)", x, x1)
				mk("hx=h^(x+2)", x, new(big.Int).Add(x, big.NewInt(2)))
				mk("hx=h^(2x+1)", x, new(big.Int).Add(x1, x))
				mk("hx=1", x, big.NewInt(0))
				mk("gx=g^(x+1)", x1, x)
			}
		}
	}
	for _, s := range stmts {
		if c16ref.QnDLEQTrue(s.m.p, s.m.q, s.xg, s.xh) {
			t.Fatalf("harness: statement %s is not false", s.id)
		}
	}
	secs := []uint{0, 1, 8, 16, 128, 256}
	// The upper end of the prover-chosen parameter: the challenge length is (SecParam+7)/8 in uint arithmetic, which
	// wraps to 0 for the 7 largest values. Enumerated with the reduced Z set {0..63, N-1, N, 2^64}: every ^uint(0)-k,
	// k in 0..15, 2^63, the bound the library now documents (2^16), the bound + 1, and 2^20. Values whose unwrapped
	// challenge would be allocated for real on a tree without an upper bound (2^26 .. ^uint(0)-16, e.g. 2^32 = 512 MB
	// per verification in 16 workers) are left out on purpose; 2^63 and ^uint(0)-k for k >= 7 ask for 2^60 bytes, which
	// the runtime refuses with a recoverable makeslice panic (counted as "fails").
	var bigSecs []uint
	for k := uint(0); k < 16; k++ {
		bigSecs = append(bigSecs, ^uint(0)-k)
	}
	bigSecs = append(bigSecs, 1<<63, c16MaxSecParam, c16MaxSecParam+1, 1<<20)
	const zSmall = 64
	r.Set("false_statements", len(stmts))
	r.Set("Z_range", zmax)
	r.Set("SecParam_alphabet", secs)
	r.Set("SecParam_upper_end_alphabet(Z below 64 + {N-1,N,2^64})", fmt.Sprint(bigSecs))
	if s0 := stmts[0]; r.Want("!" + s0.id + "|Z=7,C=0,SecParam=18446744073709551615") {
		if ok, _, _ := c16Verify(qndleq.Proof{Z: big.NewInt(7), C: big.NewInt(0), SecParam: ^uint(0)}, s0.st); ok {
			r.Violation("C16|qndleq.Proof.Verify|accepts-false-statement|SecParam-wraps-challenge-length", "!"+s0.id+"|Z=7,C=0,SecParam=18446744073709551615",
				s0.id+": the proof (Z=7, C=0, SecParam=^uint(0)) verifies for the false statement (g, g^x, h, h^(x+1)); the challenge length (SecParam+7)/8 wraps to 0, so the empty challenge equals C=0 for every statement",
				map[string]interface{}{"statement": s0.st.hex(), "Z": "7", "C": 0, "SecParam": "18446744073709551615", "false_because": s0.id})
		}
	}
	// the example named in the property text, (Z=7, C=0, SecParam=0); the engine keeps the smallest case id per key,
	// hence the "!" in front of these two representative case ids
	if s0 := stmts[0]; r.Want("!" + s0.id + "|Z=7,C=0,SecParam=0") {
		if ok, _, _ := c16Verify(qndleq.Proof{Z: big.NewInt(7), C: big.NewInt(0), SecParam: 0}, s0.st); ok {
			r.Violation("C16|qndleq.Proof.Verify|accepts-false-statement|SecParam<128", "!"+s0.id+"|Z=7,C=0,SecParam=0",
				s0.id+": the proof (Z=7, C=0, SecParam=0) verifies for the false statement (g, g^x, h, h^(x+1)); the verifier takes the challenge length from Proof.SecParam, so an empty challenge equals C=0 for every statement",
				map[string]interface{}{"statement": s0.st.hex(), "Z": "7", "C": 0, "SecParam": 0, "false_because": s0.id})
		}
	}
	verifmc.ParallelFor(len(stmts), func(si int) {
		s := stmts[si]
		if r.Replaying() && !strings.HasPrefix(r.ReplayCase(), s.id) {
			return
		}
		var zs []*big.Int
		for z := 0; z < zmax; z++ {
			zs = append(zs, big.NewInt(int64(z)))
		}
		zs = append(zs, new(big.Int).Sub(s.m.n, big.NewInt(1)), new(big.Int).Set(s.m.n), new(big.Int).Lsh(big.NewInt(1), 64))
		zsSmall := append(append([]*big.Int{}, zs[:zSmall]...), zs[len(zs)-3:]...)
		for seci, sec := range append(append([]uint{}, secs...), bigSecs...) {
			if r.Expired() {
				return
			}
			zlist := zs
			if seci >= len(secs) {
				zlist = zsSmall
			}
			for c := int64(0); c < 2; c++ {
				for _, z := range zlist {
					id := fmt.Sprintf("%s|Z=%s,C=%d,SecParam=%d", s.id, z.Text(10), c, sec)
					if !r.Want(id) {
						continue
					}
					r.Eval(1)
					ok, pan, what := c16Verify(qndleq.Proof{Z: z, C: big.NewInt(c), SecParam: sec}, s.st)
					if pan {
						// no verdict "true" was returned: counted as fails (a panic on prover-chosen input is C10's subject)
						r.Outcome("false-statement:panic(" + verifmc.PanicClass(what) + ")")
						r.Count("false_statement_panic_counted_as_fails", 1)
						r.Set("panic_example", id+": "+what)
						r.Distinct(id)
						continue
					}
					r.Count("false_statement_cases", 1)
					if seci >= len(secs) {
						r.Count("upper_end_secparam_cases", 1)
					}
					r.Distinct(id)
					if !ok {
						continue
					}
					r.Count("false_statement_accepted", 1)
					r.Outcome(fmt.Sprintf("false-statement:ACCEPTED(SecParam=%d)", sec))
					cls := "SecParam<128"
					if sec > ^uint(0)-7 {
						cls = "SecParam-wraps-challenge-length"
					} else if sec >= 128 {
						cls = "SecParam>=128"
					}
					rp := map[string]interface{}{"statement": s.st.hex(), "Z": z.Text(10), "C": c, "SecParam": fmt.Sprint(sec), "false_because": s.id}
					c16Col.Add("C16|qndleq.Proof.Verify|accepts-false-statement|"+cls, id,
						fmt.Sprintf("%s: the proof (Z=%s, C=%d, SecParam=%d) verifies for a false statement; the verifier takes the challenge length from Proof.SecParam", s.id, z.Text(10), c, sec), rp)
				}
			}
		}
		// real prover on the false statement, both candidate witnesses
		for wi, w := range []*big.Int{s.xg, s.xh} {
			for ri := 0; ri < 4; ri++ {
				id := fmt.Sprintf("%s|real-prover/witness=%d/rnd=%d", s.id, wi, ri)
				if !r.Want(id) {
					continue
				}
				var pr *qndleq.Proof
				var err error
				if p, _ := verifmc.Try(func() {
					pr, err = qndleq.Prove(verifmc.NewDetReader(fmt.Sprintf("c16-qn-f%d", ri)), w, s.st.g, s.st.gx, s.st.h, s.st.hx, s.st.n, 128)
				}); p || err != nil {
					r.Outcome("prover-on-false:prover-refuses")
					continue
				}
				r.Eval(1)
				r.Count("prover_on_false_cases", 1)
				if ok, _, _ := c16Verify(*pr, s.st); ok {
					c16Col.Add("C16|qndleq.Proof.Verify|accepts-false-statement|real-prover-on-false-statement", id, id+": verifies", map[string]interface{}{"statement": s.st.hex()})
				}
			}
		}
	})
	// Recorded, not demanded: a statement element outside Qn. hx' = N - h^x is not a square; the honest prover's
	// proof for it verifies whenever the challenge happens to be even. The package documents g, h in Qn only.
	for _, m := range mods[:1] {
		gh := c16Bases(m)[0]
		x := c16Exps(m, 0)[3]
		st := c16Stmt{gh[0], new(big.Int).Exp(gh[0], x, m.n), gh[1], new(big.Int).Exp(gh[1], x, m.n), m.n}
		st.hx = new(big.Int).Sub(m.n, st.hx)
		nacc := 0
		for ri := 0; ri < 16; ri++ {
			var pr *qndleq.Proof
			var err error
			if p, _ := verifmc.Try(func() {
				pr, err = qndleq.Prove(verifmc.NewDetReader(fmt.Sprintf("c16-qn-neg%d", ri)), x, st.g, st.gx, st.h, st.hx, st.n, 128)
			}); p || err != nil {
				continue
			}
			if ok, _, _ := c16Verify(*pr, st); ok {
				nacc++
			}
			r.Eval(1)
		}
		r.Set("outside_Qn_statement_hx=N-h^x_accepted_out_of_16_honest_prover_runs", nacc)
	}
	c16Col.Flush(r)
	if !r.Thorough() {
		r.NotExhaustive("quick tier: bases (4,9) only and Z below 2^10 (thorough: both base pairs, a 2048-bit modulus, Z below 2^12)")
	}
	r.RequireCounter("false_statement_cases", 100000)
	r.RequireCounter("upper_end_secparam_cases", 10000)
	r.RequireCounter("prover_on_false_cases", 100)
}
