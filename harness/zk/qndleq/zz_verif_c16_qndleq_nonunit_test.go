//go:build verif

package qndleq_test

// C16 (zk/qndleq part): statements with an element that is not a unit modulo N or
// not in the subgroup of squares are not valid statements; no proof - assembled
// from degenerate values, forged with a known commitment on the broken side, or
// made by the real prover - may verify for them.

import (
	"fmt"
	"math/big"
	"strings"
	"testing"

	"github.com/cloudflare/circl/internal/verifc16"
	"github.com/cloudflare/circl/internal/verifmc"
	"github.com/cloudflare/circl/internal/verifref/c16ref"
	"github.com/cloudflare/circl/zk/qndleq"
	"golang.org/x/crypto/sha3"
)

// c16Challenge recomputes the Fiat-Shamir challenge of the package (SHAKE-256 over the six values padded to
// the modulus length, in the order g, h, gx, hx, gP, hP); bound to the package in the unit before use.
func c16Challenge(g, gx, h, hx, gP, hP, n *big.Int, secParam uint) *big.Int {
	nb := make([]byte, (n.BitLen()+7)/8)
	cb := make([]byte, (secParam+7)/8)
	H := sha3.NewShake256()
	for _, v := range []*big.Int{g, h, gx, hx, gP, hP} {
		_, _ = H.Write(new(big.Int).Mod(v, new(big.Int).Lsh(big.NewInt(1), uint(8*len(nb)))).FillBytes(nb))
	}
	_, _ = H.Read(cb)
	return new(big.Int).SetBytes(cb)
}

func TestVerifC16_qndleq_nonunit(t *testing.T) {
	r := verifmc.Start(t, "C16", "qndleq_nonunit")
	defer r.Finish()
	r.Rule("statements (g, g^x, h, h^x) over the safe-prime moduli with ONE of g, gx, h, hx replaced by v in {0, N, p, q, 2p, 3q, N-1, N+1, 1}, x in {1, SEED}; truth by c16ref.QnStatementTrue (an element outside Qn, in particular a non-unit, makes the statement invalid = false); " +
		"proofs: full product Z in {0,1,7,N-1} x C in {0,1,2} (SecParam 128); forged proofs by a prover who knows x for the intact pair: commitment g^r on the intact side and K in {0, 1, v, base^r} on the replaced side, " +
		"challenge computed from those commitments, Z = r + c*x; and the real prover with witness x (two streams). A false statement must not verify. Replaced bases (g or h) with a forged proof are outside the documented " +
		"precondition 'g, h in Qn' chosen by the verifier's caller: executed, recorded as outcome, not demanded. non-trivial = distinct (modulus, x, position, v, proof)")
	mods := c16Moduli(t, r.Thorough())
	const sec = 128
	// bind the challenge transcription: r = 0 => commitments 1, 1
	{
		m := mods[0]
		x := c16Exps(m, 0)[3]
		gx, hx := new(big.Int).Exp(big.NewInt(4), x, m.n), new(big.Int).Exp(big.NewInt(9), x, m.n)
		pr, err := qndleq.Prove(verifmc.ConstReader(0), x, big.NewInt(4), gx, big.NewInt(9), hx, m.n, sec)
		if err != nil || pr.C.Cmp(c16Challenge(big.NewInt(4), gx, big.NewInt(9), hx, big.NewInt(1), big.NewInt(1), m.n, sec)) != 0 {
			t.Fatalf("harness: challenge transcription does not match the package (err=%v)", err)
		}
	}
	type job struct {
		mi, xi, pos, vi int
	}
	posName := []string{"g", "gx", "h", "hx"}
	valName := []string{"0", "N", "p", "q", "2p", "3q", "N-1", "N+1", "1"}
	var jobs []job
	for mi := range mods {
		for _, xi := range []int{1, 3} {
			for pos := 0; pos < 4; pos++ {
				for vi := range valName {
					jobs = append(jobs, job{mi, xi, pos, vi})
				}
			}
		}
	}
	r.Set("statements", len(jobs))
	verifmc.ParallelFor(len(jobs), func(ji int) {
		j := jobs[ji]
		m := mods[j.mi]
		x := c16Exps(m, 0)[j.xi]
		vals := []*big.Int{big.NewInt(0), new(big.Int).Set(m.n), new(big.Int).Set(m.p), new(big.Int).Set(m.q),
			new(big.Int).Lsh(m.p, 1), new(big.Int).Mul(m.q, big.NewInt(3)), new(big.Int).Sub(m.n, big.NewInt(1)), new(big.Int).Add(m.n, big.NewInt(1)), big.NewInt(1)}
		v := vals[j.vi]
		g, h := big.NewInt(4), big.NewInt(9)
		el := [4]*big.Int{g, new(big.Int).Exp(g, x, m.n), h, new(big.Int).Exp(h, x, m.n)}
		el[j.pos] = v
		st := c16Stmt{el[0], el[1], el[2], el[3], m.n}
		stID := fmt.Sprintf("%s/x=%s/%s=%s", m.name, c16XName(j.xi), posName[j.pos], valName[j.vi])
		if r.Replaying() && !strings.HasPrefix(r.ReplayCase(), stID) {
			return
		}
		// truth
		var in [4]bool
		for i := range el {
			in[i] = c16ref.InQn(el[i], m.p, m.q)
		}
		isOne := new(big.Int).Mod(v, m.n).Cmp(big.NewInt(1)) == 0
		a1, b1 := 1, 1
		a2, b2 := new(big.Int).Set(x), new(big.Int).Set(x)
		if isOne {
			switch j.pos {
			case 0:
				a1 = 0
			case 1:
				a2 = big.NewInt(0)
			case 2:
				b1 = 0
			case 3:
				b2 = big.NewInt(0)
			}
		} else if in[j.pos] {
			t.Errorf("harness: replacement %s is in Qn but its exponent is unknown", valName[j.vi])
			return
		}
		if c16ref.QnStatementTrue(m.p, m.q, in, a1, a2, b1, b2) {
			t.Errorf("harness: statement %s is true", stID)
			return
		}
		baseReplaced := j.pos == 0 || j.pos == 2
		check := func(kind, name string, p qndleq.Proof, demanded bool) {
			id := stID + "|" + name
			if !r.Want(id) {
				return
			}
			r.Eval(1)
			ok, pan, what := c16Verify(p, st)
			switch {
			case pan:
				r.Outcome(kind + ":panic(" + verifmc.PanicClass(what) + ")")
				r.Set("panic_example", id+": "+what)
				r.Distinct(id)
			case !ok:
				r.Outcome(kind + ":rejected")
				r.Count("false_statement_rejected", 1)
				r.Distinct(id)
			case !demanded:
				r.Outcome(fmt.Sprintf("%s:verifies(base %s outside Qn; caller's precondition, not demanded)", kind, posName[j.pos]))
				r.Count("replaced_base_forgery_verifies_not_demanded", 1)
			default:
				r.Outcome(kind + ":ACCEPTED")
				cls := "non-unit"
				if new(big.Int).GCD(nil, nil, new(big.Int).Mod(v, m.n), m.n).Cmp(big.NewInt(1)) == 0 && v.Sign() != 0 {
					cls = "unit-outside-Qn-or-wrong-value"
				}
				c16Col.Add(fmt.Sprintf("C16|qndleq.Proof.Verify|accepts-invalid-statement|%s=%s/%s", posName[j.pos], cls, kind), id,
					fmt.Sprintf("%s: the proof verifies although %s = %s makes the statement invalid", id, posName[j.pos], valName[j.vi]),
					map[string]interface{}{"statement": st.hex(), "Z": p.Z.Text(16), "C": p.C.Text(16), "SecParam": p.SecParam})
			}
		}
		nm1 := new(big.Int).Sub(m.n, big.NewInt(1))
		for _, z := range []*big.Int{big.NewInt(0), big.NewInt(1), big.NewInt(7), nm1} {
			for c := int64(0); c < 3; c++ {
				check("degenerate", fmt.Sprintf("Z=%s,C=%d", z.Text(10), c), qndleq.Proof{Z: z, C: big.NewInt(c), SecParam: sec}, true)
			}
		}
		// forged: the prover knows x for the intact pair
		rr := new(big.Int).SetBytes(verifmc.Shake("c16-qn-forge-r/"+m.name, (m.n.BitLen()+2*sec+7)/8))
		intactBase, brokenBase := st.h, st.g // the g side is broken
		if j.pos >= 2 {
			intactBase, brokenBase = st.g, st.h
		}
		hon := new(big.Int).Exp(intactBase, rr, m.n)
		ks := []struct {
			name string
			k    *big.Int
		}{{"K=0", big.NewInt(0)}, {"K=1", big.NewInt(1)}, {"K=v", new(big.Int).Mod(v, m.n)}, {"K=base^r", new(big.Int).Exp(brokenBase, rr, m.n)}}
		for _, k := range ks {
			gP, hP := k.k, hon
			if j.pos >= 2 {
				gP, hP = hon, k.k
			}
			c := c16Challenge(st.g, st.gx, st.h, st.hx, gP, hP, m.n, sec)
			z := new(big.Int).Mul(c, x)
			z.Add(z, rr)
			check("forged", "forged/"+k.name, qndleq.Proof{Z: z, C: c, SecParam: sec}, !baseReplaced)
		}
		for ri := 0; ri < 2; ri++ {
			var pr *qndleq.Proof
			var err error
			if p, _ := verifmc.Try(func() {
				pr, err = qndleq.Prove(verifmc.NewDetReader(fmt.Sprintf("c16-qn-nu%d", ri)), x, st.g, st.gx, st.h, st.hx, st.n, sec)
			}); p || err != nil {
				r.Outcome("real-prover:refuses-or-panics")
				continue
			}
			check("real-prover", fmt.Sprintf("real-prover/rnd=%d", ri), *pr, !baseReplaced)
		}
		if ji == 3 {
			r.Sample(map[string]interface{}{"statement": stID, "elements": st.hex()})
		}
	})
	c16Col.Flush(r)
	r.RequireCounter("false_statement_rejected", 1000)
	_ = verifc16.Hx
}
