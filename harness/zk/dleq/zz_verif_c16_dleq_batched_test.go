//go:build verif

package dleq_test

// C16 (zk/dleq part), batched statements with identity and unrelated elements at
// every position: a true batched statement is proved and must verify; every
// false one must reject the proofs an adversary gets from the real prover for the
// neighbouring true statements (false pairs repaired, false pairs removed, false
// pairs replaced by (identity, identity) - the proof a verifier that skips those
// positions would accept) and for the false statement itself.

import (
	"fmt"
	"math/big"
	"strings"
	"testing"

	"github.com/cloudflare/circl/group"
	"github.com/cloudflare/circl/internal/verifc16"
	"github.com/cloudflare/circl/internal/verifmc"
	"github.com/cloudflare/circl/internal/verifref/c16ref"
	"github.com/cloudflare/circl/zk/dleq"
)

type c16BEl struct {
	name string
	e    group.Element
	v    c16ref.Vec // over the basis (G, P, X)
}

type c16Slot struct{ b, kb int } // indices into the element alphabet

func TestVerifC16_dleq_batched(t *testing.T) {
	r := verifmc.Start(t, "C16", "dleq_batched")
	defer r.Finish()
	r.Rule("statement = (A = G, kA = k*G, batch of 1..3 slots (B_j, kB_j)), each of B_j and kB_j from E = {I, G, k*G, P = H(a), k*P, X = H(b)} (36 slots; reduced slot sets for larger batches, see levels); " +
		"truth by c16ref.BatchTrueForK over the basis (G, P, X): true iff kB_j = k*B_j for every j (identity B_j demands identity kB_j); true statements: ProveBatch then VerifyBatch must accept; " +
		"false statements: the real prover's proofs for (N1) the statement with every false kB_j repaired to k*B_j, (N2) the sub-batch without the false slots, (N3) the statement with the false slots replaced by (I, I), " +
		"and (N0) the false statement itself must all be rejected; non-trivial = distinct (group, k, statement, proof source)")
	groups := verifc16.Groups()
	// slot sets
	var full []c16Slot
	for b := 0; b < 6; b++ {
		for kb := 0; kb < 6; kb++ {
			full = append(full, c16Slot{b, kb})
		}
	}
	// indices: 0 I, 1 G, 2 kG, 3 P, 4 kP, 5 X
	r10 := []c16Slot{{0, 0}, {1, 2}, {3, 4}, {0, 5}, {0, 2}, {1, 0}, {3, 5}, {5, 0}, {2, 1}, {0, 1}}
	r6, r4, r3 := r10[:6], r10[:4], []c16Slot{{0, 0}, {1, 2}, {0, 5}}
	type job struct {
		gi, ki int
		slots  []c16Slot
	}
	var jobs []job
	for gi, g := range groups {
		lvl := g.Level(r.Thorough())
		sets := map[int][3][]c16Slot{0: {r6, r3, r3}, 1: {full, r6, r4}, 2: {full, r10, r6}, 3: {full, full, r10}}[lvl]
		nk := 1
		if lvl >= 3 {
			nk = 2
		}
		for ki := 0; ki < nk; ki++ {
			for m := 1; m <= 3; m++ {
				set := sets[m-1]
				dims := make([]int, m)
				for i := range dims {
					dims[i] = len(set)
				}
				verifmc.Product(dims, func(idx []int) bool {
					sl := make([]c16Slot, m)
					nfalse := 0
					for i, x := range idx {
						sl[i] = set[x]
						if !(sl[i] == c16Slot{0, 0} || sl[i] == c16Slot{1, 2} || sl[i] == c16Slot{3, 4}) {
							nfalse++
						}
					}
					if lvl == 0 && m == 3 && nfalse != 1 {
						return true
					}
					jobs = append(jobs, job{gi, ki, sl})
					return true
				})
			}
		}
	}
	r.Set("statements", len(jobs))
	r.Set("levels", verifc16.LevelNote)
	r.NotExhaustive("declared slot sets per level (batch of 1 / 2 / 3): level 0: 6 / 3 / 3 slots (batches of 3 with exactly one false slot); level 1: 36 / 6 / 4; level 2: 36 / 10 / 6; level 3: 36 / 36 / 10 and two keys; " + verifc16.LevelNote)
	type pre struct {
		ks  []verifc16.NamedScalar
		els [][]c16BEl
	}
	pres := make([]pre, len(groups))
	for gi, g := range groups {
		ks := []verifc16.NamedScalar{g.Named("seed", g.SeedInt("k", 0)), g.Named("2", big.NewInt(2))}
		P := g.G.HashToElement([]byte("a"), []byte("verif-c16"))
		X := g.G.HashToElement([]byte("b"), []byte("verif-c16"))
		p := pre{ks: ks}
		for _, k := range ks {
			kv := k.V
			p.els = append(p.els, []c16BEl{
				{"I", g.G.Identity(), c16ref.V(0, 0, 0)},
				{"G", g.G.Generator(), c16ref.V(1, 0, 0)},
				{"kG", g.G.NewElement().MulGen(k.S), c16ref.Vec{kv, big.NewInt(0), big.NewInt(0)}},
				{"P", P, c16ref.V(0, 1, 0)},
				{"kP", g.G.NewElement().Mul(P, k.S), c16ref.Vec{big.NewInt(0), kv, big.NewInt(0)}},
				{"X", X, c16ref.V(0, 0, 1)},
			})
		}
		pres[gi] = p
	}
	verifmc.ParallelFor(len(jobs), func(ji int) {
		j := jobs[ji]
		g := groups[j.gi]
		k := pres[j.gi].ks[j.ki]
		els := pres[j.gi].els[j.ki]
		names := make([]string, len(j.slots))
		var bv, kbv []c16ref.Vec
		st := c16Stmt{a: g.G.Generator(), ka: els[2].e.Copy()}
		falseSlot := make([]bool, len(j.slots))
		for i, s := range j.slots {
			names[i] = "(" + els[s.b].name + "," + els[s.kb].name + ")"
			st.b = append(st.b, els[s.b].e.Copy())
			st.kb = append(st.kb, els[s.kb].e.Copy())
			bv = append(bv, els[s.b].v)
			kbv = append(kbv, els[s.kb].v)
			falseSlot[i] = !c16ref.BatchTrueForK(g.N, k.V, bv[i:], kbv[i:])
		}
		stID := fmt.Sprintf("%s/k=%s/%s", g.Name, k.Name, strings.Join(names, ""))
		if r.Replaying() && !strings.HasPrefix(r.ReplayCase(), stID) {
			return
		}
		if r.Expired() {
			return
		}
		truth := c16ref.BatchTrueForK(g.N, k.V, bv, kbv)
		params := dleq.Params{G: g.G, H: g.Hash, DST: []byte("verif-c16-batched")}
		rnd := g.Scalar(g.SeedInt("rnd-batched", 0))
		prove := func(s c16Stmt) *dleq.Proof {
			var pr *dleq.Proof
			var err error
			if p, _ := verifmc.Try(func() {
				pr, err = dleq.Prover{Params: params}.ProveBatchWithRandomness(k.S, s.a, s.ka, s.b, s.kb, rnd)
			}); p || err != nil {
				return nil
			}
			return pr
		}
		rp := map[string]interface{}{"group": g.Name, "k": verifc16.Hx(verifc16.EncS(k.S)), "slots(B_j,kB_j)": names, "P": "HashToElement(a, verif-c16)", "X": "HashToElement(b, verif-c16)"}
		if truth {
			id := stID + "|honest"
			if !r.Want(id) {
				return
			}
			pr := prove(st)
			r.Eval(1)
			if pr == nil {
				c16Col.Add("C16|dleq.Prove|honest-prover-fails|batch-with-identity", id, id+": the prover fails on a true statement", rp)
				return
			}
			if ok, pan, what := c16Verify(params, st, pr); !ok {
				c16Col.Add("C16|dleq.Verify|honest-proof-rejected|batch-with-identity", id, fmt.Sprintf("%s: honest proof of a true statement rejected (panic=%v %s)", id, pan, what), rp)
				return
			}
			r.Count("true_statements_verified", 1)
			r.Distinct(id)
			return
		}
		// neighbouring true statements
		n0 := st
		n1, n3 := st.clone(), st.clone()
		n2 := c16Stmt{a: st.a.Copy(), ka: st.ka.Copy()}
		for i := range j.slots {
			if falseSlot[i] {
				n1.kb[i] = g.G.NewElement().Mul(st.b[i], k.S)
				n3.b[i], n3.kb[i] = g.G.Identity(), g.G.Identity()
			} else {
				n2.b = append(n2.b, st.b[i].Copy())
				n2.kb = append(n2.kb, st.kb[i].Copy())
			}
		}
		for _, src := range []struct {
			name string
			s    c16Stmt
		}{{"N0:false-statement-itself", n0}, {"N1:false-pairs-repaired", n1}, {"N2:false-pairs-removed", n2}, {"N3:false-pairs-replaced-by-(I,I)", n3}} {
			id := stID + "|" + src.name
			if !r.Want(id) {
				continue
			}
			pr := prove(src.s)
			if pr == nil {
				r.Outcome("prover-refuses:" + src.name[:2])
				continue
			}
			r.Eval(1)
			ok, pan, _ := c16Verify(params, st, pr)
			r.Count("false_statement_cases", 1)
			r.Distinct(id)
			switch {
			case pan:
				r.Outcome("false-statement:panic")
			case ok:
				r.Outcome("false-statement:ACCEPTED")
				hasI := "no-identity-B"
				for i := range j.slots {
					if falseSlot[i] && j.slots[i].b == 0 {
						hasI = "identity-B_j-with-nonidentity-kB_j"
					}
				}
				c16Col.Add(fmt.Sprintf("C16|dleq.VerifyBatch|accepts-false-statement|%s/proof-%s", hasI, src.name[:2]), id,
					fmt.Sprintf("%s: the real prover's proof for the neighbouring statement (%s) verifies for the false batched statement", id, src.name), rp)
			default:
				r.Outcome("false-statement:rejected")
			}
		}
	})
	c16Col.Flush(r)
	r.RequireCounter("true_statements_verified", 30)
	r.RequireCounter("false_statement_cases", 2500)
}
