//go:build verif

package dleq_test

// C16 (zk/dleq part): batched DLEQ proofs verify when produced honestly, fail
// when any proof component, statement element or context string is altered, and
// never verify for a false statement when the proof is assembled from
// degenerate values. Bounded exhaustive enumeration over stated alphabets; the
// truth of a statement is decided by the big.Int reference c16ref.DLEQTrue.

import (
	"bytes"
	"crypto"
	"fmt"
	"math/big"
	"strings"
	"sync"
	"testing"

	"github.com/cloudflare/circl/group"
	"github.com/cloudflare/circl/internal/verifc16"
	"github.com/cloudflare/circl/internal/verifmc"
	"github.com/cloudflare/circl/internal/verifref/c16ref"
	"github.com/cloudflare/circl/zk/dleq"
)

type c16El struct {
	name string
	e    group.Element
	m    *big.Int // multiple of the generator when known, else nil
}

// c16Col gathers violations from the parallel workers; flushed in sorted order at the end of each unit.
var c16Col verifc16.Collector

var (
	c16PoolMu    sync.Mutex
	c16PoolCache = map[string][]c16El{}
)

// c16Pool is memoised (hash-to-curve is expensive); callers copy elements before changing them.
func c16Pool(g verifc16.Grp) []c16El {
	c16PoolMu.Lock()
	defer c16PoolMu.Unlock()
	if p, ok := c16PoolCache[g.Name]; ok {
		return p
	}
	p := c16MkPool(g)
	c16PoolCache[g.Name] = p
	return p
}

func c16MkPool(g verifc16.Grp) []c16El {
	return []c16El{
		{"G", g.G.Generator(), big.NewInt(1)},
		{"2G", g.Multiple(big.NewInt(2)), big.NewInt(2)},
		{"Ha", g.G.HashToElement([]byte("a"), []byte("verif-c16")), nil},
	}
}

// c16AltPool: replacement values for one statement element.
func c16AltPool(g verifc16.Grp) []c16El {
	c16PoolMu.Lock()
	defer c16PoolMu.Unlock()
	if p, ok := c16PoolCache["alt/"+g.Name]; ok {
		return p
	}
	p := append(c16MkPool(g),
		c16El{"I", g.G.Identity(), big.NewInt(0)},
		c16El{"Hb", g.G.HashToElement([]byte("b"), []byte("verif-c16")), nil})
	c16PoolCache["alt/"+g.Name] = p
	return p
}

type c16Stmt struct {
	a, ka group.Element
	b, kb []group.Element
}

func (s c16Stmt) clone() c16Stmt {
	o := c16Stmt{a: s.a.Copy(), ka: s.ka.Copy()}
	for i := range s.b {
		o.b = append(o.b, s.b[i].Copy())
		o.kb = append(o.kb, s.kb[i].Copy())
	}
	return o
}

func (s c16Stmt) enc() []byte {
	o := append(append([]byte{}, verifc16.Enc(s.a)...), verifc16.Enc(s.ka)...)
	for i := range s.b {
		o = append(append(o, verifc16.Enc(s.b[i])...), verifc16.Enc(s.kb[i])...)
	}
	return append(o, byte(len(s.b)))
}

func c16Hashes() map[string]crypto.Hash {
	return map[string]crypto.Hash{"SHA256": crypto.SHA256, "SHA512": crypto.SHA512}
}

// c16Verify runs the verifier (single-statement entry point for batches of one).
func c16Verify(p dleq.Params, s c16Stmt, pr *dleq.Proof) (ok, panicked bool, what string) {
	panicked, what = verifmc.Try(func() {
		v := dleq.Verifier{Params: p}
		if len(s.b) == 1 {
			ok = v.Verify(s.a, s.ka, s.b[0], s.kb[0], pr)
			ok2 := v.VerifyBatch(s.a, s.ka, s.b, s.kb, pr)
			if ok != ok2 {
				panic("c16: Verify and VerifyBatch disagree on a batch of one")
			}
		} else {
			ok = v.VerifyBatch(s.a, s.ka, s.b, s.kb, pr)
		}
	})
	return
}

func c16MkProof(g group.Group, c, s group.Scalar) (*dleq.Proof, error) {
	raw := append(append([]byte{}, verifc16.EncS(c)...), verifc16.EncS(s)...)
	p := new(dleq.Proof)
	return p, p.UnmarshalBinary(g, raw)
}

func c16SplitProof(g group.Group, p *dleq.Proof) (c, s group.Scalar) {
	raw, err := p.MarshalBinary()
	if err != nil {
		panic(err)
	}
	l := len(raw) / 2
	c, s = g.NewScalar(), g.NewScalar()
	if err := c.UnmarshalBinary(raw[:l]); err != nil {
		panic(err)
	}
	if err := s.UnmarshalBinary(raw[l:]); err != nil {
		panic(err)
	}
	return
}

// sequences of length 1..maxLen over n symbols
func c16Seqs(n, maxLen int) [][]int {
	var out [][]int
	var rec func(cur []int)
	rec = func(cur []int) {
		if len(cur) > 0 {
			out = append(out, append([]int{}, cur...))
		}
		if len(cur) == maxLen {
			return
		}
		for i := 0; i < n; i++ {
			rec(append(cur, i))
		}
	}
	rec(nil)
	return out
}

// TestVerifC16_dleq: honest proofs verify; every single alteration is rejected.
func TestVerifC16_dleq(t *testing.T) {
	r := verifmc.Start(t, "C16", "dleq")
	defer r.Finish()
	r.Rule("base case = (group, DST, k in {0,1,2,n-1,SEED}, A in {G,2G,H(a)}, sequence of 1..L elements B_j over {G,2G,H(a)}, prover randomness in {1,n-1,SEED}); " +
		"honest proof must verify (Verify/VerifyBatch, and after Marshal/Unmarshal); every single alteration of (c, s, A, kA, B_j, kB_j, batch shape, DST, hash) that changes the encoded input must be rejected; " +
		"non-trivial = distinct (base case, alteration) with an input that differs from the honest one")
	groups := verifc16.Groups()
	dsts := []string{"", "verif-c16-dst"}
	type base struct {
		gi, di, ki, ai, ri int
		seq               []int
		alter             bool
	}
	isSeq := func(seq []int, want ...int) bool { return fmt.Sprint(seq) == fmt.Sprint(want) }
	var bases []base
	nAlter := 0
	for gi := range groups {
		lvl := groups[gi].Level(r.Thorough())
		maxLen := 2
		if lvl >= 3 {
			maxLen = 3
		}
		ks := groups[gi].Scalars("k", true, r.Seed())
		for di := range dsts {
			for ki := range ks {
				for ai := 0; ai < 3; ai++ {
					for si, seq := range c16Seqs(3, maxLen) {
						for ri := 0; ri < 3; ri++ {
							kn := ks[ki].Name
							special := isSeq(seq, 0) || isSeq(seq, 1, 2) // [G] and [2G, H(a)]
							var honest, alter bool
							switch lvl {
							case 0:
								honest = di == 1 && ri == 2 && ((ai == 2 && special) || (kn == "seed" && isSeq(seq, 0)))
								alter = honest && kn == "seed" && ai == 2 && special
							case 1:
								honest = (di == 1 && ri == 2) || si == 0
								alter = di == 1 && ri == 2 && ((kn == "seed" && ai == 2) || ((kn == "0" || kn == "n-1") && ai == 0 && special))
							case 2:
								honest = true
								alter = di == 1 && ri == 2 && (strings.HasPrefix(kn, "seed") || ((kn == "0" || kn == "n-1") && ai == 0))
							default:
								honest = true
								// the full alteration set is applied for one randomness value; the other two only check completeness
								alter = ri == 2
							}
							if honest {
								bases = append(bases, base{gi, di, ki, ai, ri, seq, alter})
								if alter {
									nAlter++
								}
							}
						}
					}
				}
			}
		}
	}
	r.Set("alphabet", map[string]interface{}{"groups": 4, "dst": dsts, "k": "0,1,2,n-1,SEED(+VERIF_SEED)", "A": "G,2G,H(a)", "B_seq_maxlen": r.Pick(2, 3),
		"randomness": "1,n-1,SEED", "alteration_pool": "G,2G,H(a),I,H(b),-orig", "levels": verifc16.LevelNote})
	r.Set("base_cases", len(bases))
	r.Set("base_cases_with_full_alteration_set", nAlter)
	r.NotExhaustive("declared sub-alphabet of the (group, DST, k, A, B-sequence, randomness) product: " + verifc16.LevelNote +
		"; level 0: k x A=H(a) x B in {[G],[2G,H(a)]}, alterations for k=SEED; level 1: all k x A x B-sequences of length 1..2, alterations for (k=SEED,A=H(a)) and (k in {0,n-1},A=G); " +
		"level 2: full product with sequences 1..2, alterations for k=SEED and (k in {0,n-1},A=G) with the non-empty DST; level 3: sequences 1..3, alterations for every (DST,k,A,B)")
	type pre struct {
		ks, rnds []verifc16.NamedScalar
		pool     []c16El
	}
	pres := make([]pre, len(groups))
	for gi, g := range groups {
		pres[gi] = pre{g.Scalars("k", true, r.Seed()),
			[]verifc16.NamedScalar{g.Named("1", big.NewInt(1)), g.Named("n-1", new(big.Int).Sub(g.N, big.NewInt(1))), g.Named("seed", g.SeedInt("rnd", 0))},
			c16Pool(g)}
	}
	verifmc.ParallelFor(len(bases), func(bi int) {
		b := bases[bi]
		g := groups[b.gi]
		ks, rnds, pool := pres[b.gi].ks, pres[b.gi].rnds, pres[b.gi].pool
		seqName := make([]string, len(b.seq))
		for i, x := range b.seq {
			seqName[i] = pool[x].name
		}
		baseID := fmt.Sprintf("%s/dst=%q/k=%s/A=%s/B=%s/r=%s", g.Name, dsts[b.di], ks[b.ki].Name, pool[b.ai].name, strings.Join(seqName, ","), rnds[b.ri].Name)
		if r.Replaying() && !strings.HasPrefix(r.ReplayCase(), baseID) {
			return
		}
		if r.Expired() {
			return
		}
		c16RunBase(r, g, baseID, dsts[b.di], ks[b.ki], pool[b.ai], b.seq, rnds[b.ri], b.alter)
	})
	c16Col.Flush(r)
	if !r.Expired() {
		r.RequireCounter("honest_verified", int64(len(bases)))
	}
	r.RequireCounter("altered_rejected", 1000)
}

func c16RunBase(r *verifmc.Run, g verifc16.Grp, baseID, dst string, k verifc16.NamedScalar, A c16El, seq []int, rnd verifc16.NamedScalar, alter bool) {
	pool := c16Pool(g)
	params := dleq.Params{G: g.G, H: g.Hash, DST: []byte(dst)}
	st := c16Stmt{a: A.e.Copy(), ka: g.G.NewElement().Mul(A.e, k.S)}
	for _, x := range seq {
		st.b = append(st.b, pool[x].e.Copy())
		st.kb = append(st.kb, g.G.NewElement().Mul(pool[x].e, k.S))
	}
	replay := map[string]interface{}{"group": g.Name, "dst": dst, "k": verifc16.Hx(verifc16.EncS(k.S)), "statement": verifc16.Hx(st.enc()), "rnd": verifc16.Hx(verifc16.EncS(rnd.S))}
	var proof *dleq.Proof
	var err error
	if p, what := verifmc.Try(func() {
		pv := dleq.Prover{Params: params}
		if len(st.b) == 1 {
			proof, err = pv.ProveWithRandomness(k.S, st.a, st.ka, st.b[0], st.kb[0], rnd.S)
		} else {
			proof, err = pv.ProveBatchWithRandomness(k.S, st.a, st.ka, st.b, st.kb, rnd.S)
		}
	}); p || err != nil {
		c16Col.Add("C16|dleq.Prove|honest-prover-fails|"+c16KClass(k), baseID, fmt.Sprintf("%s: prover failed: panic=%v %s err=%v", baseID, p, what, err), replay)
		return
	}
	r.Eval(1)
	ok, pan, what := c16Verify(params, st, proof)
	if !ok {
		c16Col.Add("C16|dleq.Verify|honest-proof-rejected|"+c16KClass(k), baseID+"|honest", fmt.Sprintf("%s: honest proof rejected (panic=%v %s)", baseID, pan, what), replay)
		return
	}
	r.Count("honest_verified", 1)
	r.Distinct(baseID, "honest")
	r.Outcome("honest:verifies")
	// the prover must not have modified the statement it was given
	c, s := c16SplitProof(g.G, proof)
	// marshal / unmarshal round trip
	if p2, err := c16MkProof(g.G, c, s); err != nil {
		c16Col.Add("C16|dleq.Proof.UnmarshalBinary|honest-proof-rejected|roundtrip", baseID+"|roundtrip", fmt.Sprintf("%s: %v", baseID, err), replay)
	} else if ok, _, _ := c16Verify(params, st, p2); !ok {
		c16Col.Add("C16|dleq.Verify|honest-proof-rejected|after-marshal-roundtrip", baseID+"|roundtrip", baseID+": proof rejected after Marshal/Unmarshal", replay)
	}
	r.Eval(1)
	if !alter {
		return
	}
	if baseID == "P-256/dst=\"verif-c16-dst\"/k=seed/A=Ha/B=G,2G/r=seed" {
		r.Sample(map[string]interface{}{"case": baseID, "proof": verifc16.Hx(append(verifc16.EncS(c), verifc16.EncS(s)...)), "statement": verifc16.Hx(st.enc())})
	}
	// a second honest proof (other randomness) and a proof for another key, as sources of "other proof's" components
	other, _ := dleq.Prover{Params: params}.ProveBatchWithRandomness(k.S, st.a, st.ka, st.b, st.kb, g.Named("r2", g.SeedInt("rnd2", 0)).S)
	oc, os := c16SplitProof(g.G, other)
	one := g.G.NewScalar().SetUint64(1)
	zero := g.G.NewScalar()
	add := func(x, y group.Scalar) group.Scalar { return g.G.NewScalar().Add(x, y) }
	sub := func(x, y group.Scalar) group.Scalar { return g.G.NewScalar().Sub(x, y) }
	neg := func(x group.Scalar) group.Scalar { return g.G.NewScalar().Neg(x) }

	type alt struct {
		name string
		st   c16Stmt
		c, s group.Scalar
		p    dleq.Params
	}
	var alts []alt
	pa := func(name string, c2, s2 group.Scalar) { alts = append(alts, alt{name, st, c2, s2, params}) }
	pa("c+1", add(c, one), s)
	pa("c-1", sub(c, one), s)
	pa("c=0", zero, s)
	pa("c=1", one, s)
	pa("c=-c", neg(c), s)
	pa("c=other-proof", oc, s)
	pa("s+1", c, add(s, one))
	pa("s-1", c, sub(s, one))
	pa("s=0", c, zero)
	pa("s=1", c, one)
	pa("s=-s", c, neg(s))
	pa("s=other-proof", c, os)
	pa("swap-c-s", s, c)
	pa("c=0,s=0", zero, zero)
	sa := func(name string, f func(x *c16Stmt)) {
		x := st.clone()
		f(&x)
		alts = append(alts, alt{name, x, c, s, params})
	}
	repl := c16AltPool(g)
	for _, e := range repl {
		e := e
		sa("A="+e.name, func(x *c16Stmt) { x.a = e.e.Copy() })
		sa("kA="+e.name, func(x *c16Stmt) { x.ka = e.e.Copy() })
		for j := range st.b {
			j := j
			sa(fmt.Sprintf("B%d=%s", j, e.name), func(x *c16Stmt) { x.b[j] = e.e.Copy() })
			sa(fmt.Sprintf("kB%d=%s", j, e.name), func(x *c16Stmt) { x.kb[j] = e.e.Copy() })
		}
	}
	sa("A=-A", func(x *c16Stmt) { x.a.Neg(x.a) })
	sa("kA=-kA", func(x *c16Stmt) { x.ka.Neg(x.ka) })
	sa("A<->kA", func(x *c16Stmt) { x.a, x.ka = x.ka, x.a })
	sa("(A,kA)<->(B0,kB0)", func(x *c16Stmt) { x.a, x.b[0] = x.b[0], x.a; x.ka, x.kb[0] = x.kb[0], x.ka })
	for j := range st.b {
		j := j
		sa(fmt.Sprintf("B%d=-B%d", j, j), func(x *c16Stmt) { x.b[j].Neg(x.b[j]) })
		sa(fmt.Sprintf("kB%d=-kB%d", j, j), func(x *c16Stmt) { x.kb[j].Neg(x.kb[j]) })
		sa(fmt.Sprintf("B%d<->kB%d", j, j), func(x *c16Stmt) { x.b[j], x.kb[j] = x.kb[j], x.b[j] })
		sa(fmt.Sprintf("kB%d+=G", j), func(x *c16Stmt) { x.kb[j].Add(x.kb[j], g.G.Generator()) })
		for i := 0; i < j; i++ {
			i := i
			sa(fmt.Sprintf("B%d<->B%d", i, j), func(x *c16Stmt) { x.b[i], x.b[j] = x.b[j], x.b[i] })
			sa(fmt.Sprintf("kB%d<->kB%d", i, j), func(x *c16Stmt) { x.kb[i], x.kb[j] = x.kb[j], x.kb[i] })
			sa(fmt.Sprintf("pair%d<->pair%d", i, j), func(x *c16Stmt) {
				x.b[i], x.b[j] = x.b[j], x.b[i]
				x.kb[i], x.kb[j] = x.kb[j], x.kb[i]
			})
		}
	}
	if len(st.b) > 1 {
		sa("drop-last-pair", func(x *c16Stmt) { x.b = x.b[:len(x.b)-1]; x.kb = x.kb[:len(x.kb)-1] })
		sa("drop-first-pair", func(x *c16Stmt) { x.b = x.b[1:]; x.kb = x.kb[1:] })
	}
	hb := repl[len(repl)-1].e
	sa("append-true-pair", func(x *c16Stmt) { x.b = append(x.b, hb.Copy()); x.kb = append(x.kb, g.G.NewElement().Mul(hb, k.S)) })
	sa("repeat-last-pair", func(x *c16Stmt) {
		x.b = append(x.b, x.b[len(x.b)-1].Copy())
		x.kb = append(x.kb, x.kb[len(x.kb)-1].Copy())
	})
	ca := func(name string, p dleq.Params) { alts = append(alts, alt{name, st, c, s, p}) }
	ca("DST+x", dleq.Params{G: g.G, H: g.Hash, DST: []byte(dst + "x")})
	ca("DST=other", dleq.Params{G: g.G, H: g.Hash, DST: []byte("other-" + dst)})
	if len(dst) > 0 {
		ca("DST-lastbyte", dleq.Params{G: g.G, H: g.Hash, DST: []byte(dst[:len(dst)-1])})
		ca("DST-bit0", dleq.Params{G: g.G, H: g.Hash, DST: verifmc.Flip([]byte(dst), 0)})
	}
	for hn, h := range c16Hashes() {
		if h != g.Hash {
			ca("hash="+hn, dleq.Params{G: g.G, H: h, DST: []byte(dst)})
		}
	}
	baseEnc := append(append(st.enc(), verifc16.EncS(c)...), verifc16.EncS(s)...)
	for _, a := range alts {
		id := baseID + "|" + a.name
		if !r.Want(id) {
			continue
		}
		enc := append(append(a.st.enc(), verifc16.EncS(a.c)...), verifc16.EncS(a.s)...)
		if bytes.Equal(enc, baseEnc) && a.p.H == params.H && bytes.Equal(a.p.DST, params.DST) {
			r.Count("alteration_is_identity_skipped", 1)
			continue
		}
		pr, err := c16MkProof(g.G, a.c, a.s)
		if err != nil {
			r.Outcome("altered:unmarshal-error")
			continue
		}
		r.Eval(1)
		ok, pan, what := c16Verify(a.p, a.st, pr)
		cls := a.name
		if strings.HasPrefix(cls, "B") || strings.HasPrefix(cls, "kB") || strings.HasPrefix(cls, "pair") {
			// position-independent class: first index -> i (swaps) or j, second index -> j
			idx := 0
			swap := strings.Contains(cls, "<->")
			cls = strings.Map(func(c rune) rune {
				if c >= '0' && c <= '9' {
					idx++
					if swap && idx == 1 {
						return 'i'
					}
					return 'j'
				}
				return c
			}, cls)
		}
		switch {
		case pan:
			r.Outcome("altered:panic")
			r.Count("altered_panic", 1)
			r.Set("panic_example", id+": "+what)
		case ok:
			r.Outcome("altered:ACCEPTED")
			rp := map[string]interface{}{"group": g.Name, "dst": string(a.p.DST), "hash": fmt.Sprint(a.p.H), "statement": verifc16.Hx(a.st.enc()),
				"honest_statement": verifc16.Hx(st.enc()), "c": verifc16.Hx(verifc16.EncS(a.c)), "s": verifc16.Hx(verifc16.EncS(a.s))}
			c16Col.Add("C16|dleq.Verify|altered-accepted|"+cls, id, id+": proof verifies although "+a.name+" differs from the honest value", rp)
		default:
			r.Outcome("altered:rejected")
			r.Count("altered_rejected", 1)
			r.Distinct(id)
		}
	}
}

func c16KClass(k verifc16.NamedScalar) string {
	if k.V.Sign() == 0 {
		return "k=0"
	}
	return "k!=0"
}

// TestVerifC16_dleq_degenerate: proofs assembled from degenerate values, and the
// real prover run on false statements, never verify for a statement that the
// reference decides to be false.
func TestVerifC16_dleq_degenerate(t *testing.T) {
	r := verifmc.Start(t, "C16", "dleq_degenerate")
	defer r.Finish()
	r.Rule("full product (c, s) in {0,1,n-1}^2 + {(0,SEED),(SEED,0)} x statements (A,kA,B,kB) in {I,G,2G}^4 and batches of two over {I,G}^6, for each group and two DSTs; " +
		"plus the real prover run on false statements (kB_j = k'B_j, k' != k) with witness k and k'; truth decided by c16ref.DLEQTrue; " +
		"non-trivial = distinct (group, DST, FALSE statement, proof); true statements are executed but nothing is demanded of them")
	groups := verifc16.Groups()
	dsts := []string{"", "verif-c16-dst"}
	type job struct {
		gi, di int
		mult   []int64 // multiples of G: a, ka, b0, kb0, [b1, kb1]
		nproof int     // 4: (c,s) in {0,1}^2; 9: {0,1,n-1}^2; 11: plus (0,SEED),(SEED,0)
	}
	var jobs []job
	for gi := range groups {
		lvl := groups[gi].Level(r.Thorough())
		for di := range dsts {
			if lvl < 3 && di == 0 {
				continue
			}
			base, np1, np2 := 3, 11, 11
			switch lvl {
			case 0:
				base, np1, np2 = 2, 9, 0
			case 1:
				np1, np2 = 9, 4
			}
			verifmc.Product([]int{base, base, base, base}, func(idx []int) bool {
				jobs = append(jobs, job{gi, di, []int64{int64(idx[0]), int64(idx[1]), int64(idx[2]), int64(idx[3])}, np1})
				return true
			})
			if np2 > 0 {
				verifmc.Product([]int{2, 2, 2, 2, 2, 2}, func(idx []int) bool {
					m := make([]int64, 6)
					for i := range m {
						m[i] = int64(idx[i])
					}
					jobs = append(jobs, job{gi, di, m, np2})
					return true
				})
			}
		}
	}
	r.NotExhaustive("declared sub-alphabet per group: " + verifc16.LevelNote + "; level 0: statements {I,G}^4 x (c,s) in {0,1,n-1}^2; level 1: {I,G,2G}^4 x {0,1,n-1}^2 and {I,G}^6 x {0,1}^2; " +
		"level 2: both statement sets x 11 proofs with the non-empty DST; level 3: both DSTs")
	r.Set("statements", len(jobs))
	verifmc.ParallelFor(len(jobs), func(ji int) {
		j := jobs[ji]
		g := groups[j.gi]
		params := dleq.Params{G: g.G, H: g.Hash, DST: []byte(dsts[j.di])}
		bigs := make([]*big.Int, len(j.mult))
		els := make([]group.Element, len(j.mult))
		for i, m := range j.mult {
			bigs[i] = big.NewInt(m)
			els[i] = g.Multiple(bigs[i])
		}
		st := c16Stmt{a: els[0], ka: els[1]}
		var rb, rkb []*big.Int
		for i := 2; i < len(els); i += 2 {
			st.b = append(st.b, els[i])
			st.kb = append(st.kb, els[i+1])
			rb = append(rb, bigs[i])
			rkb = append(rkb, bigs[i+1])
		}
		truth := c16ref.DLEQTrue(g.N, bigs[0], bigs[1], rb, rkb)
		stID := fmt.Sprintf("%s/dst=%q/stmt=%v", g.Name, dsts[j.di], j.mult)
		if r.Replaying() && !strings.HasPrefix(r.ReplayCase(), stID) {
			return
		}
		vals := []verifc16.NamedScalar{g.Named("0", big.NewInt(0)), g.Named("1", big.NewInt(1)), g.Named("n-1", big.NewInt(-1))}
		type cs struct{ c, s verifc16.NamedScalar }
		var proofs []cs
		nv := 3
		if j.nproof == 4 {
			nv = 2
		}
		for _, c := range vals[:nv] {
			for _, s := range vals[:nv] {
				proofs = append(proofs, cs{c, s})
			}
		}
		if j.nproof == 11 {
			seed := g.Named("seed", g.SeedInt("deg", 0))
			proofs = append(proofs, cs{vals[0], seed}, cs{seed, vals[0]})
		}
		for _, p := range proofs {
			id := fmt.Sprintf("%s|c=%s,s=%s", stID, p.c.Name, p.s.Name)
			if !r.Want(id) {
				continue
			}
			pr, err := c16MkProof(g.G, p.c.S, p.s.S)
			if err != nil {
				t.Fatalf("cannot build proof: %v", err)
			}
			r.Eval(1)
			ok, pan, what := c16Verify(params, st, pr)
			if truth {
				r.Count("true_statement_cases", 1)
				r.Outcome(fmt.Sprintf("true-statement:verifies=%v", ok))
				continue
			}
			r.Distinct(id)
			r.Count("false_statement_cases", 1)
			switch {
			case pan:
				r.Outcome("false-statement:panic")
				r.Set("panic_example", id+": "+what)
			case ok:
				r.Outcome("false-statement:ACCEPTED")
				c16Col.Add(fmt.Sprintf("C16|dleq.Verify|accepts-false-statement|degenerate-proof-c=%s,s=%s", p.c.Name, p.s.Name), id,
					id+": degenerate proof verifies for a false statement (elements are the listed multiples of G)",
					map[string]interface{}{"group": g.Name, "dst": dsts[j.di], "multiples_of_G": j.mult, "c": p.c.Name, "s": p.s.Name})
			default:
				r.Outcome("false-statement:rejected")
			}
		}
		if ji == 7 {
			r.Sample(map[string]interface{}{"statement_multiples_of_G(a,ka,b,kb)": j.mult, "reference_truth": truth, "group": g.Name})
		}
	})
	// the uninitialised proof (nil c, s): "empty challenge"
	for _, g := range groups {
		st := c16Stmt{a: g.G.Generator(), ka: g.G.Generator(), b: []group.Element{g.G.Generator()}, kb: []group.Element{g.Multiple(big.NewInt(2))}}
		r.Eval(1)
		ok, pan, _ := c16Verify(dleq.Params{G: g.G, H: g.Hash, DST: nil}, st, new(dleq.Proof))
		r.Outcome(fmt.Sprintf("zero-value-proof:verifies=%v,panic=%v", ok, pan))
		if ok {
			c16Col.Add("C16|dleq.Verify|accepts-false-statement|zero-value-proof", g.Name+"|zero-value-proof", g.Name+": the zero-value Proof verifies for (G, G, G, 2G)", nil)
		}
	}
	// real prover on false statements
	type fjob struct {
		gi, ki, k2i, ai, bi, wi int
	}
	var fj []fjob
	for gi := range groups {
		n := len(groups[gi].Scalars("k", true, r.Seed()))
		lvl := groups[gi].Level(r.Thorough())
		for ki := 0; ki < n; ki++ {
			for k2i := 0; k2i < n; k2i++ {
				if ki == k2i || (lvl == 0 && (ki+1)%n != k2i) {
					continue
				}
				for ai := 0; ai < 3; ai++ {
					for bi := 0; bi < 3; bi++ {
						if (lvl <= 1 && ai != 2) || (lvl == 0 && bi != 0) {
							continue
						}
						for wi := 0; wi < 2; wi++ {
							fj = append(fj, fjob{gi, ki, k2i, ai, bi, wi})
						}
					}
				}
			}
		}
	}
	verifmc.ParallelFor(len(fj), func(i int) {
		j := fj[i]
		g := groups[j.gi]
		ks := g.Scalars("k", true, r.Seed())
		pool := c16Pool(g)
		k, k2 := ks[j.ki], ks[j.k2i]
		id := fmt.Sprintf("%s/prover-on-false/k=%s,k'=%s/A=%s/B=%s/witness=%d", g.Name, k.Name, k2.Name, pool[j.ai].name, pool[j.bi].name, j.wi)
		if !r.Want(id) {
			return
		}
		params := dleq.Params{G: g.G, H: g.Hash, DST: []byte("verif-c16-dst")}
		st := c16Stmt{a: pool[j.ai].e.Copy(), ka: g.G.NewElement().Mul(pool[j.ai].e, k.S),
			b: []group.Element{pool[j.bi].e.Copy()}, kb: []group.Element{g.G.NewElement().Mul(pool[j.bi].e, k2.S)}}
		w := k
		if j.wi == 1 {
			w = k2
		}
		var pr *dleq.Proof
		var err error
		if p, _ := verifmc.Try(func() {
			pr, err = dleq.Prover{Params: params}.ProveWithRandomness(w.S, st.a, st.ka, st.b[0], st.kb[0], g.Named("r", g.SeedInt("rnd", 0)).S)
		}); p || err != nil {
			r.Outcome("prover-on-false:prover-refuses")
			return
		}
		r.Eval(1)
		r.Distinct(id)
		ok, _, _ := c16Verify(params, st, pr)
		r.Count("prover_on_false_cases", 1)
		if ok {
			c16Col.Add("C16|dleq.Verify|accepts-false-statement|real-prover-on-false-statement", id, id+": kA = k*A, kB = k'*B with k != k' verifies", nil)
			r.Outcome("prover-on-false:ACCEPTED")
		} else {
			r.Outcome("prover-on-false:rejected")
		}
	})
	c16Col.Flush(r)
	r.RequireCounter("false_statement_cases", 1000)
	r.RequireCounter("true_statement_cases", 100)
	r.RequireCounter("prover_on_false_cases", 100)
}

// TestVerifC16_dleq_refcheck binds c16ref.DLEQTrue to its definition by complete
// enumeration over the groups of order 5 and 7, and the group orders to crypto/elliptic.
func TestVerifC16_dleq_refcheck(t *testing.T) {
	r := verifmc.Start(t, "C16", "dleq_refcheck")
	defer r.Finish()
	r.Rule("c16ref.DLEQTrue against brute force over every k, for every statement (a,ka,b0,kb0[,b1,kb1]) over Z_5 (batch of 1 and 2) and Z_7 (batch of 1)")
	for _, n := range []int64{5, 7} {
		dims := []int{int(n), int(n), int(n), int(n)}
		if n == 5 {
			dims = append(dims, int(n), int(n))
		}
		verifmc.Product(dims, func(idx []int) bool {
			a, ka := int64(idx[0]), int64(idx[1])
			var b, kb []int64
			var bb, bkb []*big.Int
			for i := 2; i < len(idx); i += 2 {
				b = append(b, int64(idx[i]))
				kb = append(kb, int64(idx[i+1]))
				bb = append(bb, big.NewInt(int64(idx[i])))
				bkb = append(bkb, big.NewInt(int64(idx[i+1])))
			}
			r.Eval(1)
			r.Distinct(n, fmt.Sprint(idx))
			if c16ref.DLEQTrue(big.NewInt(n), big.NewInt(a), big.NewInt(ka), bb, bkb) != c16ref.DLEQTrueBrute(n, a, ka, b, kb) {
				t.Fatalf("reference DLEQTrue wrong for n=%d %v", n, idx)
			}
			return true
		})
	}
	// group orders: n*G = identity and (n-1)*G = -G on the real groups (binds the order constants to the groups)
	for _, g := range verifc16.Groups() {
		nm1 := g.G.NewScalar().SetBigInt(new(big.Int).Sub(g.N, big.NewInt(1)))
		e := g.G.NewElement().MulGen(nm1)
		e.Add(e, g.G.Generator())
		if !e.IsIdentity() || !g.N.ProbablyPrime(20) {
			t.Fatalf("reference order of %s is wrong", g.Name)
		}
		r.Eval(1)
	}
}
