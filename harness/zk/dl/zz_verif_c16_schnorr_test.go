//go:build verif

package dl_test

// C16 (zk/dl part): Schnorr proofs of knowledge verify when produced honestly,
// fail when a proof component, statement element or context string is altered,
// and never verify for a false statement / without the witness when assembled
// from degenerate values.

import (
	"bytes"
	"fmt"
	"math/big"
	"strings"
	"testing"

	"github.com/cloudflare/circl/group"
	"github.com/cloudflare/circl/internal/verifc16"
	"github.com/cloudflare/circl/internal/verifmc"
	"github.com/cloudflare/circl/internal/verifref/c16ref"
	"github.com/cloudflare/circl/zk/dl"
)

// c16Col gathers violations from the parallel workers; flushed in sorted order at the end of each unit.
var c16Col verifc16.Collector

type c16El struct {
	name string
	e    group.Element
	m    *big.Int // multiple of the generator when known
}

func c16Pool(g verifc16.Grp) []c16El {
	return []c16El{
		{"G", g.G.Generator(), big.NewInt(1)},
		{"2G", g.Multiple(big.NewInt(2)), big.NewInt(2)},
		{"Ha", g.G.HashToElement([]byte("a"), []byte("verif-c16")), nil},
		{"I", g.G.Identity(), big.NewInt(0)},
		{"Hb", g.G.HashToElement([]byte("b"), []byte("verif-c16")), nil},
	}
}

type c16Ctx struct{ user, other []byte }

func c16Ctxs() []c16Ctx {
	return []c16Ctx{
		{[]byte("Prover"), []byte("zeroknowledge")},
		{nil, nil},
		{[]byte{}, []byte("zk")},
		{[]byte("P"), nil},
	}
}

type c16Case struct {
	g, kg, v group.Element
	r        group.Scalar
	ctx      c16Ctx
}

func (c c16Case) enc() []byte {
	o := append([]byte{}, verifc16.Enc(c.g)...)
	o = append(o, verifc16.Enc(c.kg)...)
	o = append(o, verifc16.Enc(c.v)...)
	o = append(o, verifc16.EncS(c.r)...)
	o = append(o, byte(len(c.ctx.user)), byte(len(c.ctx.other)))
	o = append(o, c.ctx.user...)
	return append(o, c.ctx.other...)
}

func c16Verify(g group.Group, c c16Case) (ok, panicked bool, what string) {
	panicked, what = verifmc.Try(func() {
		ok = dl.Verify(g, c.g, c.kg, dl.Proof{V: c.v, R: c.r}, c.ctx.user, c.ctx.other)
	})
	return
}

func TestVerifC16_schnorr(t *testing.T) {
	r := verifmc.Start(t, "C16", "schnorr")
	defer r.Finish()
	r.Rule("base case = (group, k in {1,2,n-1,SEED}, base G' in {G,2G,H(a)}, context (userID, otherInfo) in 4 pairs, prover randomness stream in 2); honest proof must verify; " +
		"every single alteration of (V, R, kG', G', userID, otherInfo) that changes the input must be rejected; non-trivial = distinct (base case, alteration). " +
		"k = 0 (kG' = identity, which RFC 8235 tells the verifier to refuse as a public key) is executed and recorded as outcome only")
	groups := verifc16.Groups()
	ctxs := c16Ctxs()
	type base struct {
		gi, ki, ai, ci, ri int
		alter              bool
	}
	var bases []base
	for gi, g := range groups {
		lvl := g.Level(r.Thorough())
		ks := g.Scalars("k", true, r.Seed())
		for ki := range ks {
			for ai := 0; ai < 3; ai++ {
				for ci := range ctxs {
					for ri := 0; ri < 2; ri++ {
						alter := ri == 0 && (lvl >= 2 || (ks[ki].Name == "seed" && ai == 2))
						bases = append(bases, base{gi, ki, ai, ci, ri, alter})
					}
				}
			}
		}
	}
	r.Set("base_cases", len(bases))
	r.Set("alphabet", map[string]interface{}{"k": "0(outcome only),1,2,n-1,SEED", "base": "G,2G,H(a)", "contexts": "(Prover,zeroknowledge),(nil,nil),(empty,zk),(P,nil)",
		"alteration_pool": "G,2G,H(a),I,H(b),-orig,orig+G", "levels": verifc16.LevelNote})
	r.NotExhaustive("alterations on P-384 / P-521 in the quick tier only for (k=SEED, base=H(a)); " + verifc16.LevelNote)
	pools := make([][]c16El, len(groups))
	for gi, g := range groups {
		pools[gi] = c16Pool(g)
	}
	verifmc.ParallelFor(len(bases), func(bi int) {
		b := bases[bi]
		g := groups[b.gi]
		pool := pools[b.gi]
		k := g.Scalars("k", true, r.Seed())[b.ki]
		ctx := ctxs[b.ci]
		baseID := fmt.Sprintf("%s/k=%s/base=%s/ctx=%d/rnd=%d", g.Name, k.Name, pool[b.ai].name, b.ci, b.ri)
		if r.Replaying() && !strings.HasPrefix(r.ReplayCase(), baseID) {
			return
		}
		G := pool[b.ai].e.Copy()
		kG := g.G.NewElement().Mul(G, k.S)
		var pr dl.Proof
		if p, what := verifmc.Try(func() {
			pr = dl.Prove(g.G, G, kG, k.S, ctx.user, ctx.other, verifmc.NewDetReader(fmt.Sprintf("c16-dl-%d", b.ri)))
		}); p {
			c16Col.Add("C16|dl.Prove|honest-prover-panics|"+verifmc.PanicClass(what), baseID, baseID+": "+what, nil)
			return
		}
		r.Eval(1)
		hc := c16Case{G, kG, pr.V, pr.R, ctx}
		ok, pan, what := c16Verify(g.G, hc)
		zeroKey := k.V.Sign() == 0
		if zeroKey {
			r.Outcome(fmt.Sprintf("k=0:honest-verifies=%v", ok))
			// with kG' = identity the check V = R*G' + c*kG' does not depend on the challenge: record, demand nothing
			alt := hc
			alt.ctx = c16Ctx{append(append([]byte{}, ctx.user...), 'x'), ctx.other}
			ok2, _, _ := c16Verify(g.G, alt)
			r.Outcome(fmt.Sprintf("k=0:context-altered-verifies=%v", ok2))
			return
		}
		if !ok {
			c16Col.Add("C16|dl.Verify|honest-proof-rejected|-", baseID+"|honest", fmt.Sprintf("%s: honest proof rejected (panic=%v %s)", baseID, pan, what),
				map[string]interface{}{"case": verifc16.Hx(hc.enc())})
			return
		}
		r.Count("honest_verified", 1)
		r.Distinct(baseID, "honest")
		r.Outcome("honest:verifies")
		if !b.alter {
			return
		}
		if bi == 0 {
			r.Sample(map[string]interface{}{"case": baseID, "G'|kG'|V|R|lens|ctx": verifc16.Hx(hc.enc())})
		}
		var other dl.Proof
		verifmc.Try(func() { other = dl.Prove(g.G, G, kG, k.S, ctx.user, ctx.other, verifmc.NewDetReader("c16-dl-other")) })
		one := g.G.NewScalar().SetUint64(1)
		type alt struct {
			name string
			c    c16Case
		}
		var alts []alt
		add := func(name string, f func(c *c16Case)) {
			c := c16Case{hc.g.Copy(), hc.kg.Copy(), hc.v.Copy(), hc.r.Copy(), c16Ctx{append([]byte(nil), hc.ctx.user...), append([]byte(nil), hc.ctx.other...)}}
			f(&c)
			alts = append(alts, alt{name, c})
		}
		for _, e := range pool {
			e := e
			add("V="+e.name, func(c *c16Case) { c.v = e.e.Copy() })
			add("kG="+e.name, func(c *c16Case) { c.kg = e.e.Copy() })
			add("G="+e.name, func(c *c16Case) { c.g = e.e.Copy() })
		}
		add("V=-V", func(c *c16Case) { c.v.Neg(c.v) })
		add("V+=G", func(c *c16Case) { c.v.Add(c.v, g.G.Generator()) })
		add("V=other-proof", func(c *c16Case) { c.v = other.V.Copy() })
		add("V=kG", func(c *c16Case) { c.v = c.kg.Copy() })
		add("kG=-kG", func(c *c16Case) { c.kg.Neg(c.kg) })
		add("kG+=G", func(c *c16Case) { c.kg.Add(c.kg, g.G.Generator()) })
		add("G=-G", func(c *c16Case) { c.g.Neg(c.g) })
		add("G<->kG", func(c *c16Case) { c.g, c.kg = c.kg, c.g })
		add("R+1", func(c *c16Case) { c.r.Add(c.r, one) })
		add("R-1", func(c *c16Case) { c.r.Sub(c.r, one) })
		add("R=0", func(c *c16Case) { c.r = g.G.NewScalar() })
		add("R=1", func(c *c16Case) { c.r = one.Copy() })
		add("R=-R", func(c *c16Case) { c.r.Neg(c.r) })
		add("R=other-proof", func(c *c16Case) { c.r = other.R.Copy() })
		add("userID+x", func(c *c16Case) { c.ctx.user = append(c.ctx.user, 'x') })
		add("otherInfo+x", func(c *c16Case) { c.ctx.other = append(c.ctx.other, 'x') })
		add("userID+00", func(c *c16Case) { c.ctx.user = append(c.ctx.user, 0) })
		add("otherInfo+00", func(c *c16Case) { c.ctx.other = append(c.ctx.other, 0) })
		add("userID<->otherInfo", func(c *c16Case) { c.ctx.user, c.ctx.other = c.ctx.other, c.ctx.user })
		if len(ctx.user) > 0 {
			add("userID-last", func(c *c16Case) { c.ctx.user = c.ctx.user[:len(c.ctx.user)-1] })
			add("userID-bit0", func(c *c16Case) { c.ctx.user = verifmc.Flip(c.ctx.user, 0) })
			add("boundary-shift-right", func(c *c16Case) {
				n := len(c.ctx.user) - 1
				c.ctx.other = append([]byte{c.ctx.user[n]}, c.ctx.other...)
				c.ctx.user = c.ctx.user[:n]
			})
		}
		if len(ctx.other) > 0 {
			add("otherInfo-last", func(c *c16Case) { c.ctx.other = c.ctx.other[:len(c.ctx.other)-1] })
			add("otherInfo-bit0", func(c *c16Case) { c.ctx.other = verifmc.Flip(c.ctx.other, 0) })
			add("boundary-shift-left", func(c *c16Case) {
				c.ctx.user = append(c.ctx.user, c.ctx.other[0])
				c.ctx.other = c.ctx.other[1:]
			})
		}
		baseEnc := hc.enc()
		for _, a := range alts {
			id := baseID + "|" + a.name
			if !r.Want(id) {
				continue
			}
			if bytes.Equal(a.c.enc(), baseEnc) {
				r.Count("alteration_is_identity_skipped", 1)
				continue
			}
			r.Eval(1)
			ok, pan, what := c16Verify(g.G, a.c)
			switch {
			case pan:
				r.Outcome("altered:panic")
				r.Set("panic_example", id+": "+what)
			case ok:
				r.Outcome("altered:ACCEPTED")
				c16Col.Add("C16|dl.Verify|altered-accepted|"+a.name, id, id+": proof verifies although "+a.name+" differs from the honest value",
					map[string]interface{}{"group": g.Name, "honest(G'|kG'|V|R|lens|ctx)": verifc16.Hx(baseEnc), "altered": verifc16.Hx(a.c.enc())})
			default:
				r.Outcome("altered:rejected")
				r.Count("altered_rejected", 1)
				r.Distinct(id)
			}
		}
	})
	c16Col.Flush(r)
	r.RequireCounter("honest_verified", 300)
	r.RequireCounter("altered_rejected", 1000)
}

func TestVerifC16_schnorr_degenerate(t *testing.T) {
	r := verifmc.Start(t, "C16", "schnorr_degenerate")
	defer r.Finish()
	r.Rule("full product statement (G', kG') in {I,G,2G,H(a)}^2 x proof V in {I,G,2G,kG',-kG'} x R in {0,1,2,n-1} x 2 contexts per group; exact oracle: if kG' = I the proof verifies iff V = R*G' " +
		"(the challenge is multiplied by the identity), otherwise a proof built without the witness must be rejected (it would need one particular challenge value); " +
		"a statement with G' = I and kG' != I is false (c16ref.DLTrue); plus the real prover run with the wrong witness; non-trivial = distinct (group, statement, proof, context)")
	groups := verifc16.Groups()
	ctxs := c16Ctxs()[:2]
	type job struct{ gi, si, ki, vi, ri, ci int }
	var jobs []job
	for gi := range groups {
		nctx := 2
		if groups[gi].Level(r.Thorough()) < 2 {
			nctx = 1
		}
		verifmc.Product([]int{4, 4, 5, 4, nctx}, func(x []int) bool {
			jobs = append(jobs, job{gi, x[0], x[1], x[2], x[3], x[4]})
			return true
		})
	}
	verifmc.ParallelFor(len(jobs), func(i int) {
		j := jobs[i]
		g := groups[j.gi]
		els := []c16El{{"I", g.G.Identity(), big.NewInt(0)}, {"G", g.G.Generator(), big.NewInt(1)}, {"2G", g.Multiple(big.NewInt(2)), big.NewInt(2)},
			{"Ha", nil, nil}}
		if j.si == 3 || j.ki == 3 {
			els[3].e = g.G.HashToElement([]byte("a"), []byte("verif-c16"))
		}
		G, kG := els[j.si], els[j.ki]
		var V group.Element
		vn := []string{"I", "G", "2G", "kG", "-kG"}[j.vi]
		switch j.vi {
		case 0, 1, 2:
			V = els[j.vi].e.Copy()
		case 3:
			V = kG.e.Copy()
		case 4:
			V = g.G.NewElement().Neg(kG.e)
		}
		rv := []*big.Int{big.NewInt(0), big.NewInt(1), big.NewInt(2), big.NewInt(-1)}[j.ri]
		R := g.Scalar(rv)
		id := fmt.Sprintf("%s/G'=%s,kG'=%s|V=%s,R=%v|ctx=%d", g.Name, G.name, kG.name, vn, rv, j.ci)
		if !r.Want(id) {
			return
		}
		c := c16Case{G.e.Copy(), kG.e.Copy(), V, R, ctxs[j.ci]}
		r.Eval(1)
		r.Distinct(id)
		ok, pan, what := c16Verify(g.G, c)
		if pan {
			r.Outcome("panic")
			r.Set("panic_example", id+": "+what)
			return
		}
		falseStmt := G.m != nil && kG.m != nil && !c16ref.DLTrue(g.N, G.m, kG.m)
		if G.m != nil && G.m.Sign() == 0 && kG.m == nil {
			falseStmt = true // H(a) is not the identity
		}
		rp := map[string]interface{}{"group": g.Name, "G'": G.name, "kG'": kG.name, "V": vn, "R": rv.String(), "userID": string(ctxs[j.ci].user), "otherInfo": string(ctxs[j.ci].other)}
		if kG.e.IsIdentity() {
			want := g.G.NewElement().Mul(G.e, R).IsEqual(V)
			r.Count("identity_public_key_cases", 1)
			r.Outcome(fmt.Sprintf("kG'=I:verifies=%v", ok))
			if ok != want {
				c16Col.Add("C16|dl.Verify|wrong-verdict|kG=identity", id, fmt.Sprintf("%s: verifies=%v but V == R*G' is %v", id, ok, want), rp)
			}
			return
		}
		if falseStmt {
			r.Count("false_statement_cases", 1)
		} else {
			r.Count("no_witness_cases", 1)
		}
		if ok {
			cls := "accepts-proof-built-without-witness"
			if falseStmt {
				cls = "accepts-false-statement"
			}
			r.Outcome("degenerate:ACCEPTED")
			c16Col.Add(fmt.Sprintf("C16|dl.Verify|%s|degenerate-V=%s,R=%v", cls, vn, rv), id, id+": degenerate proof verifies", rp)
		} else {
			r.Outcome("degenerate:rejected")
		}
	})
	// real prover with a wrong witness
	for _, g := range groups {
		ks := g.Scalars("k", false, r.Seed())
		pool := c16Pool(g)[:3]
		for _, k := range ks {
			for _, k2 := range ks {
				if k.Name == k2.Name {
					continue
				}
				for _, b := range pool {
					id := fmt.Sprintf("%s/prover-wrong-witness/k=%s,k'=%s/base=%s", g.Name, k.Name, k2.Name, b.name)
					if !r.Want(id) || (g.Level(r.Thorough()) < 2 && b.name != "Ha") {
						continue
					}
					kG := g.G.NewElement().Mul(b.e, k.S)
					var pr dl.Proof
					if p, _ := verifmc.Try(func() {
						pr = dl.Prove(g.G, b.e.Copy(), kG, k2.S, []byte("Prover"), []byte("zeroknowledge"), verifmc.NewDetReader("c16-dl-ww"))
					}); p {
						continue
					}
					r.Eval(1)
					r.Distinct(id)
					r.Count("wrong_witness_cases", 1)
					ok, _, _ := c16Verify(g.G, c16Case{b.e.Copy(), kG, pr.V, pr.R, c16Ctxs()[0]})
					if ok {
						c16Col.Add("C16|dl.Verify|accepts-proof-built-without-witness|real-prover-wrong-witness", id, id+": proof made with k' != k verifies for kG' = k*G'", nil)
					}
				}
			}
		}
	}
	c16Col.Flush(r)
	if !r.Thorough() {
		r.NotExhaustive("quick tier: one context instead of two on P-384 / P-521")
	}
	r.RequireCounter("false_statement_cases", 100)
	r.RequireCounter("no_witness_cases", 500)
	r.RequireCounter("identity_public_key_cases", 100)
	r.RequireCounter("wrong_witness_cases", 50)
}
