//go:build verif

package kyber

// C03, PKE level: pke/kyber/kyber{512,768,1024} (Kyber.CPAPKE / K-PKE) through NewKeyFromSeed,
// NewKeyFromSeedMLKEM, EncryptTo, DecryptTo, Pack, Unpack, UnpackMLKEM against Algorithms 13-15 of
// FIPS 203 in /verif/ref/mlkem (round-3 Kyber.CPAPKE = the same algorithms without the domain-separation byte).

import (
	"bytes"
	"fmt"
	"strconv"
	"strings"
	"testing"

	"github.com/cloudflare/circl/internal/verifmc"
	ref "github.com/cloudflare/circl/internal/verifref/mlkem"
	"github.com/cloudflare/circl/pke/kyber/kyber1024"
	"github.com/cloudflare/circl/pke/kyber/kyber512"
	"github.com/cloudflare/circl/pke/kyber/kyber768"
)

type c03PKI[T any] interface {
	*T
	Pack([]byte)
	Unpack([]byte)
	UnpackMLKEM([]byte) error
	EncryptTo(ct, pt, seed []byte)
}

type c03SKI[T any] interface {
	*T
	Pack([]byte)
	Unpack([]byte)
	DecryptTo(pt, ct []byte)
}

// c03PKE is one parameter set behind closures over byte strings.
type c03PKE struct {
	name    string
	p       *ref.Params
	keygen  func(seed []byte, mlkem bool) (pk, sk []byte)
	encrypt func(pk []byte, strict bool, pt, seed []byte) (ct []byte, repacked []byte, err error)
	decrypt func(sk, ct []byte) (pt []byte, repacked []byte)
}

func c03MakePKE[PK, SK any, PPK c03PKI[PK], PSK c03SKI[SK]](name string, p *ref.Params,
	newKey, newKeyML func([]byte) (*PK, *SK)) *c03PKE {
	return &c03PKE{
		name: name, p: p,
		keygen: func(seed []byte, mlkem bool) ([]byte, []byte) {
			var pk *PK
			var sk *SK
			if mlkem {
				pk, sk = newKeyML(seed)
			} else {
				pk, sk = newKey(seed)
			}
			a, b := make([]byte, p.EKSize()), make([]byte, p.DKPKESize())
			PPK(pk).Pack(a)
			PSK(sk).Pack(b)
			return a, b
		},
		encrypt: func(pkb []byte, strict bool, pt, seed []byte) ([]byte, []byte, error) {
			pk := PPK(new(PK))
			if strict {
				if err := pk.UnpackMLKEM(append([]byte{}, pkb...)); err != nil {
					return nil, nil, err
				}
			} else {
				pk.Unpack(append([]byte{}, pkb...))
			}
			ct := make([]byte, p.CTSize())
			pk.EncryptTo(ct, pt, seed)
			re := make([]byte, p.EKSize())
			pk.Pack(re)
			return ct, re, nil
		},
		decrypt: func(skb, ct []byte) ([]byte, []byte) {
			sk := PSK(new(SK))
			sk.Unpack(append([]byte{}, skb...))
			pt := make([]byte, 32)
			sk.DecryptTo(pt, ct)
			re := make([]byte, p.DKPKESize())
			sk.Pack(re)
			return pt, re
		},
	}
}

func c03PKEs() []*c03PKE {
	return []*c03PKE{
		c03MakePKE[kyber512.PublicKey, kyber512.PrivateKey]("pke.kyber512", ref.P512, kyber512.NewKeyFromSeed, kyber512.NewKeyFromSeedMLKEM),
		c03MakePKE[kyber768.PublicKey, kyber768.PrivateKey]("pke.kyber768", ref.P768, kyber768.NewKeyFromSeed, kyber768.NewKeyFromSeedMLKEM),
		c03MakePKE[kyber1024.PublicKey, kyber1024.PrivateKey]("pke.kyber1024", ref.P1024, kyber1024.NewKeyFromSeed, kyber1024.NewKeyFromSeedMLKEM),
	}
}

func c03Set12(b []byte, idx, v int) {
	o := 3 * (idx / 2)
	if idx%2 == 0 {
		b[o] = byte(v)
		b[o+1] = b[o+1]&0xf0 | byte(v>>8)
	} else {
		b[o+1] = b[o+1]&0x0f | byte(v<<4)
		b[o+2] = byte(v >> 4)
	}
}

func c03Digits(name string) string {
	out := make([]byte, 0, len(name))
	for i := 0; i < len(name); i++ {
		if name[i] < '0' || name[i] > '9' {
			out = append(out, name[i])
		}
	}
	return string(out)
}

func TestVerifC03_pke(t *testing.T) {
	r := verifmc.Start(t, "C03", "pke")
	defer r.Finish()
	S := verifmc.Seeds(32, r.Seed())
	small := strconv.IntSize == 32
	r.Rule("per parameter set: key generation for every seed in SEEDS(32) with and without the ML-KEM domain-separation byte; EncryptTo for all (key, pt, coins) in SEEDS(32)^3 x {Kyber, ML-KEM key}; " +
		"DecryptTo on honest ciphertexts, every 7th single-bit flip (thorough: all) and all 2^du / 2^dv rolling compressed-value patterns; public keys with every 12-bit value at coefficient positions {0, 255, last} through " +
		"Unpack (lenient, must encrypt like K-PKE.Encrypt on the raw bytes) and UnpackMLKEM (accept iff < q); secret keys with every 12-bit value at positions {0, 1, 255, last} (must decrypt like K-PKE.Decrypt on the raw bytes); " +
		"non-trivial = each distinct (parameter set, operation, input)")
	r.NotExhaustive("seeds over the fixed alphabet; ciphertext / key deviations over the declared alphabets")
	boundary := map[int]bool{}
	for _, v := range []int{0, 1, 1664, 1665, ref.Q - 1, ref.Q, ref.Q + 1, 2*ref.Q - 1, 2 * ref.Q, 2*ref.Q + 1, 4094, 4095} {
		boundary[v] = true
	}
	for _, s := range c03PKEs() {
		s := s
		p := s.p
		// ---- key generation + encryption + honest decryption
		verifmc.ParallelFor(2*len(S), func(ki int) {
			mlkem, seed := ki%2 == 1, S[ki/2]
			id := fmt.Sprintf("%s/keygen/mlkem=%v/seed%d", s.name, mlkem, ki/2)
			if !r.Want(id) && !strings.HasPrefix(r.ReplayCase(), id+"/") {
				return
			}
			wantPk, wantSk := ref.KPKEKeyGen(p, seed, mlkem)
			var pk, sk []byte
			if pn, what := verifmc.Try(func() { pk, sk = s.keygen(seed, mlkem) }); pn {
				r.Violation("C03|"+s.name+".NewKeyFromSeed|panic", id, what, nil)
				return
			}
			r.Eval(1)
			r.Distinct(id)
			r.Count("keygen", 1)
			rp := map[string]interface{}{"set": s.name, "seed": verifmc.FullHex(seed), "mlkem_domain_separation": mlkem}
			if !bytes.Equal(pk, wantPk) || !bytes.Equal(sk, wantSk) {
				r.Violation(fmt.Sprintf("C03|%s.NewKeyFromSeed|key pair differs from K-PKE.KeyGen|mlkem=%v", s.name, mlkem), id,
					fmt.Sprintf("%s: pk equal %v, sk equal %v", id, bytes.Equal(pk, wantPk), bytes.Equal(sk, wantSk)), rp)
				return
			}
			for pi, pt := range S {
				for ci, coins := range S {
					eid := fmt.Sprintf("%s/enc/pt%d/r%d", id, pi, ci)
					if !r.Want(eid) {
						continue
					}
					want := ref.KPKEEncrypt(p, wantPk, pt, coins)
					var ct, re []byte
					var err error
					if pn, what := verifmc.Try(func() { ct, re, err = s.encrypt(wantPk, mlkem, pt, coins) }); pn || err != nil {
						r.Violation("C03|"+s.name+".EncryptTo|panic or well-formed key refused", eid, fmt.Sprintf("%s %v", what, err), rp)
						continue
					}
					r.Eval(1)
					r.Distinct(eid)
					r.Count("encrypt", 1)
					if !bytes.Equal(ct, want) {
						r.Violation("C03|"+s.name+".EncryptTo|ciphertext differs from K-PKE.Encrypt", eid, fmt.Sprintf("%s: ct %s, reference %s", eid, verifmc.Hex(ct), verifmc.Hex(want)),
							map[string]interface{}{"set": s.name, "pk": verifmc.FullHex(wantPk), "pt": verifmc.FullHex(pt), "coins": verifmc.FullHex(coins)})
					}
					if !bytes.Equal(re, wantPk) {
						r.Violation("C03|"+s.name+".PublicKey.Pack|well-formed key does not re-encode to the same bytes", eid, eid, rp)
					}
					var got, reSk []byte
					if pn, what := verifmc.Try(func() { got, reSk = s.decrypt(wantSk, want) }); pn {
						r.Violation("C03|"+s.name+".DecryptTo|panic", eid, what, rp)
						continue
					}
					r.Eval(1)
					if wantPt := ref.KPKEDecrypt(p, wantSk, want); !bytes.Equal(got, wantPt) || !bytes.Equal(got, pt) {
						r.Violation("C03|"+s.name+".DecryptTo|honest ciphertext: plaintext differs from K-PKE.Decrypt", eid, fmt.Sprintf("%s: pt %x, reference %x, sent %x", eid, got, wantPt, pt), rp)
					}
					if !bytes.Equal(reSk, wantSk) {
						r.Violation("C03|"+s.name+".PrivateKey.Pack|well-formed key does not re-encode to the same bytes", eid, eid, rp)
					}
				}
			}
		})
		// ---- decryption of altered ciphertexts
		pkB, skB := ref.KPKEKeyGen(p, S[3], true)
		honest := ref.KPKEEncrypt(p, pkB, S[2], S[4])
		type alt struct {
			name string
			ct   []byte
		}
		var alts []alt
		step := r.Pick(7, 1)
		if small {
			step = 101 // GOARCH=386 run: narrowed, the compressed-value patterns below stay complete
			r.Cap("x86_32: bit flips every 101st bit; key-coefficient sections skipped")
		}
		for b := 0; b < len(honest)*8; b += step {
			alts = append(alts, alt{fmt.Sprintf("flip%d", b), verifmc.Flip(honest, b)})
		}
		if step == 7 {
			r.Cap("PKE ciphertext bit flips thinned to every 7th bit (quick tier)")
		}
		roll := func(c, poly, m int) *ref.Poly {
			var f ref.Poly
			for i := range f {
				f[i] = (c + i + 37*poly) % m
			}
			return &f
		}
		for c := 0; c < 1<<uint(p.Du); c++ {
			var u []byte
			for i := 0; i < p.K; i++ {
				u = append(u, ref.ByteEncode(p.Du, roll(c, i, 1<<uint(p.Du)))...)
			}
			alts = append(alts, alt{fmt.Sprintf("u=roll%d", c), append(u, honest[p.C1Size():]...)})
		}
		for w := 0; w < 1<<uint(p.Dv); w++ {
			alts = append(alts, alt{fmt.Sprintf("v=roll%d", w), append(append([]byte{}, honest[:p.C1Size()]...), ref.ByteEncode(p.Dv, roll(w, 0, 1<<uint(p.Dv)))...)})
		}
		for _, a := range verifmc.Fills(len(honest)) {
			alts = append(alts, alt{a.Name, a.Data})
		}
		verifmc.ParallelFor(len(alts), func(ai int) {
			a := &alts[ai]
			id := s.name + "/dec/" + a.name
			if !r.Want(id) {
				return
			}
			want := ref.KPKEDecrypt(p, skB, a.ct)
			var got []byte
			if pn, what := verifmc.Try(func() { got, _ = s.decrypt(skB, a.ct) }); pn {
				r.Violation("C03|"+s.name+".DecryptTo|panic|"+c03Digits(a.name), id, what, nil)
				return
			}
			r.Eval(1)
			r.Distinct(id)
			r.Count("decrypt_altered", 1)
			if !bytes.Equal(got, S[2]) {
				r.Count("decrypt_altered_plaintext_changed", 1)
			}
			if !bytes.Equal(got, want) {
				r.Violation("C03|"+s.name+".DecryptTo|plaintext differs from K-PKE.Decrypt|"+c03Digits(a.name), id, fmt.Sprintf("%s: pt %x, reference %x", id, got, want),
					map[string]interface{}{"set": s.name, "sk": verifmc.FullHex(skB), "ct": verifmc.FullHex(a.ct)})
			}
		})
		if small {
			continue
		}
		// ---- public keys with arbitrary 12-bit coefficients
		type kc struct {
			pos, v int
		}
		var pkCases []kc
		for _, pos := range []int{0, 255, 256*p.K - 1} {
			for v := 0; v < 4096; v++ {
				pkCases = append(pkCases, kc{pos, v})
			}
		}
		verifmc.ParallelFor(len(pkCases), func(ci int) {
			c := pkCases[ci]
			key := append([]byte{}, pkB...)
			c03Set12(key, c.pos, c.v)
			id := fmt.Sprintf("%s/pk/coef%d=%d", s.name, c.pos, c.v)
			if !r.Want(id) {
				return
			}
			rp := map[string]interface{}{"set": s.name, "pk": verifmc.FullHex(key)}
			reduced := c.v < ref.Q
			needRef := r.Thorough() || boundary[c.v] || c.v%16 == 0
			var want []byte
			if needRef {
				want = ref.KPKEEncrypt(p, key, S[2], S[4])
			}
			for _, strict := range []bool{false, true} {
				var ct, re []byte
				var err error
				if pn, what := verifmc.Try(func() { ct, re, err = s.encrypt(key, strict, S[2], S[4]) }); pn {
					r.Violation(fmt.Sprintf("C03|%s.PublicKey.Unpack|panic|strict=%v", s.name, strict), id, what, rp)
					continue
				}
				r.Eval(1)
				r.Distinct(id, strict)
				if strict {
					if reduced && err != nil {
						r.Violation("C03|"+s.name+".UnpackMLKEM|well-formed key refused", id, fmt.Sprintf("%s: %v", id, err), rp)
						continue
					}
					if !reduced {
						r.Count("pk_nonreduced_strict", 1)
						if err == nil {
							r.Violation("C03|"+s.name+".UnpackMLKEM|key with a coefficient >= q accepted", id, fmt.Sprintf("%s: coefficient %d >= q accepted", id, c.v), rp)
						}
						continue
					}
				} else if !reduced {
					r.Count("pk_nonreduced_lenient", 1)
				}
				if reduced && !bytes.Equal(re, key) {
					r.Violation("C03|"+s.name+".PublicKey.Pack|well-formed key does not re-encode to the same bytes", id, id, rp)
				}
				if needRef {
					r.Count("pk_encrypt_compared", 1)
					if !bytes.Equal(ct, want) {
						r.Violation(fmt.Sprintf("C03|%s.EncryptTo|parsed key: ciphertext differs from K-PKE.Encrypt on the raw key|reduced=%v", s.name, reduced), id,
							fmt.Sprintf("%s (strict=%v): ciphertext differs from the reference on the raw key bytes", id, strict), rp)
					}
				}
			}
		})
		// ---- secret keys with arbitrary 12-bit coefficients
		var skCases []kc
		for _, pos := range []int{0, 1, 255, 256*p.K - 1} {
			for v := 0; v < 4096; v++ {
				skCases = append(skCases, kc{pos, v})
			}
		}
		verifmc.ParallelFor(len(skCases), func(ci int) {
			c := skCases[ci]
			key := append([]byte{}, skB...)
			c03Set12(key, c.pos, c.v)
			id := fmt.Sprintf("%s/sk/coef%d=%d", s.name, c.pos, c.v)
			if !r.Want(id) {
				return
			}
			rp := map[string]interface{}{"set": s.name, "sk": verifmc.FullHex(key), "ct": verifmc.FullHex(honest)}
			want := ref.KPKEDecrypt(p, key, honest)
			var got, re []byte
			if pn, what := verifmc.Try(func() { got, re = s.decrypt(key, honest) }); pn {
				r.Violation("C03|"+s.name+".PrivateKey.Unpack|panic", id, what, rp)
				return
			}
			r.Eval(1)
			r.Distinct(id)
			r.Count("sk_decrypt_compared", 1)
			if c.v >= ref.Q {
				r.Count("sk_nonreduced", 1)
			}
			if !bytes.Equal(got, want) {
				r.Violation(fmt.Sprintf("C03|%s.DecryptTo|parsed key: plaintext differs from K-PKE.Decrypt on the raw key|reduced=%v", s.name, c.v < ref.Q), id,
					fmt.Sprintf("%s: pt %x, reference %x", id, got, want), rp)
			}
			if c.v < ref.Q && !bytes.Equal(re, key) {
				r.Violation("C03|"+s.name+".PrivateKey.Pack|well-formed key does not re-encode to the same bytes", id, id, rp)
			}
		})
	}
	if !r.Replaying() && small {
		r.RequireCounter("keygen", int64(3*2*len(S)))
		r.RequireCounter("encrypt", int64(3*2*len(S)*len(S)*len(S)))
		r.RequireCounter("decrypt_altered_plaintext_changed", 100)
	}
	if !r.Replaying() && !small {
		r.RequireCounter("keygen", int64(3*2*len(S)))
		r.RequireCounter("encrypt", int64(3*2*len(S)*len(S)*len(S)))
		r.RequireCounter("pk_nonreduced_strict", 3*3*767)
		r.RequireCounter("pk_nonreduced_lenient", 3*3*767)
		r.RequireCounter("sk_nonreduced", 3*4*767)
		r.RequireCounter("decrypt_altered_plaintext_changed", 100)
	}
	r.Sample(map[string]interface{}{"case": "pke.kyber768/pk/coef0=3329", "expect": "UnpackMLKEM refuses; Unpack accepts and encrypts as if the coefficient were 0"})
}
