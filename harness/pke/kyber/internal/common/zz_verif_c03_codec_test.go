//go:build verif

package common

// C03, helper level: Compress_d / Decompress_d (d in {1,4,5,10,11}), ByteEncode_12 / ByteDecode_12
// (Pack / Unpack), CBD_2 / CBD_3 and the uniform rejection samplers (scalar and four-way) against the
// literal FIPS 203 algorithms of /verif/ref/mlkem.

import (
	"bytes"
	"fmt"
	"sync"
	"testing"

	"github.com/cloudflare/circl/internal/verifmc"
	ref "github.com/cloudflare/circl/internal/verifref/mlkem"
)

// c03Patterns calls f with coefficient vectors over [0,m) such that every value of [0,m) occurs at
// every position: rolling patterns v[i] = (c + i*s) mod m for all c and two strides s (1 and an odd
// stride coprime to m), and, for every value x, every position class j mod 8 and both extreme
// backgrounds (0 and m-1), the vector that is x on the class and the background elsewhere.
func c03Patterns(m int, f func(name string, v *[256]int)) {
	for _, s := range []int{1, 1237} {
		for c := 0; c < m; c++ {
			var v [256]int
			for i := range v {
				v[i] = (c + i*s) % m
			}
			f(fmt.Sprintf("roll c=%d s=%d", c, s), &v)
		}
	}
	for x := 0; x < m; x++ {
		for _, bg := range []int{0, m - 1} {
			for j := 0; j < 8; j++ {
				var v [256]int
				for i := range v {
					v[i] = bg
					if i%8 == j {
						v[i] = x
					}
				}
				f(fmt.Sprintf("single x=%d bg=%d class=%d", x, bg, j), &v)
			}
		}
	}
}

type c03Case struct {
	name string
	v    [256]int
}

func c03Collect(m int) []c03Case {
	var out []c03Case
	c03Patterns(m, func(name string, v *[256]int) { out = append(out, c03Case{name, *v}) })
	return out
}

func TestVerifC03_compress(t *testing.T) {
	r := verifmc.Start(t, "C03", "compress")
	defer r.Finish()
	backend := c03Backend()
	r.Set("backend", backend)
	r.Rule("Compress_d on every x in [0,q) and Decompress_d on every y in [0,2^d), d in {1,4,5,10,11}, and ByteEncode_12/ByteDecode_12 on every 12-bit value, " +
		"each value at every coefficient position (rolling patterns with two strides; single value on each position class mod 8 in all-0 and all-max backgrounds), " +
		"every byte value at every byte-position class for the decoders; encoders compared byte-for-byte, decoders coefficient-wise mod q with FIPS 203 Algorithms 5/6 and section 4.2.1; " +
		"non-trivial = each distinct (routine, d, input vector)")

	qCases := c03Collect(c03Q)
	for _, d := range []int{4, 5, 10, 11} {
		d := d
		size := 32 * d
		// Compress_d + ByteEncode_d
		verifmc.ParallelFor(len(qCases), func(k int) {
			c := &qCases[k]
			p := c03FromInts(&c.v)
			f := ref.Poly(c.v)
			got := make([]byte, size)
			p.CompressTo(got, d)
			cf := ref.CompressPoly(d, &f)
			want := ref.ByteEncode(d, &cf)
			r.Eval(1)
			r.Distinct("compress", d, c.name)
			if !bytes.Equal(got, want) {
				i := 0
				for i < size && got[i] == want[i] {
					i++
				}
				x := c.v[i*8/d]
				r.Violation(fmt.Sprintf("C03|common.Poly.CompressTo|d=%d|differs from ByteEncode_d(Compress_d)", d), fmt.Sprintf("compress/%d/%s", d, c.name),
					fmt.Sprintf("CompressTo(d=%d) on %s: byte %d = %02x, reference %02x (first coefficient in that byte: %d -> Compress_%d = %d)", d, c.name, i, got[i], want[i], x, d, ref.Compress(d, x)),
					map[string]interface{}{"d": d, "pattern": c.name})
			}
		})
		// ByteDecode_d + Decompress_d on coefficient patterns
		dCases := c03Collect(1 << uint(d))
		verifmc.ParallelFor(len(dCases), func(k int) {
			c := &dCases[k]
			y := ref.Poly(c.v)
			m := ref.ByteEncode(d, &y)
			var p Poly
			p.Decompress(m, d)
			r.Eval(1)
			r.Distinct("decompress", d, c.name)
			for i := range p {
				if c03Mod(int(p[i])) != ref.Decompress(d, c.v[i]) {
					r.Violation(fmt.Sprintf("C03|common.Poly.Decompress|d=%d|differs from Decompress_d(ByteDecode_d)", d), fmt.Sprintf("decompress/%d/%s", d, c.name),
						fmt.Sprintf("Decompress(d=%d) on %s: coefficient %d (y=%d) = %d, reference %d", d, c.name, i, c.v[i], p[i], ref.Decompress(d, c.v[i])),
						map[string]interface{}{"d": d, "pattern": c.name})
					break
				}
			}
		})
		// every byte value at every byte-position class (a group of 8 coefficients spans d bytes)
		for b := 0; b < 256; b++ {
			for o := 0; o < d; o++ {
				for _, bg := range []byte{0x00, 0xff} {
					m := bytes.Repeat([]byte{bg}, size)
					for i := o; i < size; i += d {
						m[i] = byte(b)
					}
					var p Poly
					p.Decompress(m, d)
					y := ref.ByteDecode(d, m)
					r.Eval(1)
					r.Distinct("decompress-bytes", d, b, o, bg)
					for i := range p {
						if c03Mod(int(p[i])) != ref.Decompress(d, y[i]) {
							r.Violation(fmt.Sprintf("C03|common.Poly.Decompress|d=%d|differs from Decompress_d(ByteDecode_d)", d), fmt.Sprintf("decompress-bytes/%d/%d/%d/%d", d, b, o, bg),
								fmt.Sprintf("Decompress(d=%d), byte %02x at offset class %d in background %02x: coefficient %d = %d, reference %d", d, b, o, bg, i, p[i], ref.Decompress(d, y[i])),
								map[string]interface{}{"d": d, "byte": b, "offset_class": o, "background": bg})
							break
						}
					}
				}
			}
		}
	}

	// d = 1: messages
	verifmc.ParallelFor(len(qCases), func(k int) {
		c := &qCases[k]
		p := c03FromInts(&c.v)
		f := ref.Poly(c.v)
		got := make([]byte, 32)
		p.CompressMessageTo(got)
		cf := ref.CompressPoly(1, &f)
		want := ref.ByteEncode(1, &cf)
		r.Eval(1)
		r.Distinct("compress", 1, c.name)
		if !bytes.Equal(got, want) {
			r.Violation("C03|common.Poly.CompressMessageTo|differs from ByteEncode_1(Compress_1)", "compress/1/"+c.name,
				fmt.Sprintf("CompressMessageTo on %s: %x, reference %x", c.name, got, want), map[string]interface{}{"pattern": c.name})
		}
	})
	for _, s := range []int{1, 37} {
		for c := 0; c < 256; c++ {
			m := make([]byte, 32)
			for i := range m {
				m[i] = byte(c + i*s)
			}
			var p Poly
			p.DecompressMessage(m)
			y := ref.ByteDecode(1, m)
			r.Eval(1)
			r.Distinct("decompress", 1, c, s)
			for i := range p {
				if c03Mod(int(p[i])) != ref.Decompress(1, y[i]) {
					r.Violation("C03|common.Poly.DecompressMessage|differs from Decompress_1(ByteDecode_1)", fmt.Sprintf("decompress/1/%d/%d", c, s),
						fmt.Sprintf("DecompressMessage(%x): coefficient %d = %d, reference %d", m, i, p[i], ref.Decompress(1, y[i])), nil)
					break
				}
			}
		}
	}

	// d = 12: Pack (normalized, tangled input) and Unpack (all 4096 values; output tangled, not normalized)
	verifmc.ParallelFor(len(qCases), func(k int) {
		c := &qCases[k]
		p := c03FromInts(&c.v)
		f := ref.Poly(c.v)
		p.Tangle()
		got := make([]byte, PolySize)
		p.Pack(got)
		want := ref.ByteEncode(12, &f)
		r.Eval(1)
		r.Distinct("pack", c.name)
		if !bytes.Equal(got, want) {
			r.Violation("C03|common.Poly.Pack|differs from ByteEncode_12", "pack/"+c.name,
				fmt.Sprintf("Pack (%s) on %s differs from ByteEncode_12", backend, c.name), map[string]interface{}{"pattern": c.name})
		}
	})
	uCases := c03Collect(4096)
	var exact, inexact int64
	var mu sync.Mutex
	verifmc.ParallelFor(len(uCases), func(k int) {
		c := &uCases[k]
		f := ref.Poly(c.v)
		buf := ref.ByteEncode(12, &f) // 12-bit values up to 4095 are encodable
		var p Poly
		p.Unpack(buf)
		q := p
		q.Detangle()
		r.Eval(1)
		r.Distinct("unpack", c.name)
		ex := true
		for i := range q {
			if int(q[i]) != c.v[i] {
				ex = false
			}
			if c03Mod(int(q[i])) != c.v[i]%c03Q {
				r.Violation("C03|common.Poly.Unpack|differs from ByteDecode_12", "unpack/"+c.name,
					fmt.Sprintf("Unpack (%s) on %s: coefficient %d = %d, encoded value %d", backend, c.name, i, q[i], c.v[i]), map[string]interface{}{"pattern": c.name})
				break
			}
		}
		mu.Lock()
		if ex {
			exact++
		} else {
			inexact++
		}
		mu.Unlock()
		// the modulus-check mechanism: Unpack, Normalize, Pack reproduces the bytes iff all values < q
		p.Normalize()
		re := make([]byte, PolySize)
		p.Pack(re)
		g := ref.ByteDecode(12, buf)
		want := ref.ByteEncode(12, &g)
		r.Eval(1)
		if !bytes.Equal(re, want) {
			r.Violation("C03|common.Poly.Unpack+Normalize+Pack|differs from ByteEncode_12(ByteDecode_12)", "repack/"+c.name,
				fmt.Sprintf("Unpack,Normalize,Pack (%s) on %s differs from ByteEncode_12(ByteDecode_12(.))", backend, c.name), map[string]interface{}{"pattern": c.name})
		}
		if !bytes.Equal(re, buf) {
			r.Count("repack_differs(has value >= q)", 1)
		} else {
			r.Count("repack_identical(all values < q)", 1)
		}
	})
	r.Count("unpack_exact_12bit_values(info)", int(exact))
	r.Count("unpack_reduced_values(info)", int(inexact))
	r.RequireCounter("repack_differs(has value >= q)", 1000)
	r.RequireCounter("repack_identical(all values < q)", 1000)
	r.Sample(map[string]interface{}{"routine": "CompressTo d=4", "pattern": qCases[1].name})
	r.Sample(map[string]interface{}{"routine": "Unpack", "pattern": uCases[len(uCases)-1].name})
	r.Set("patterns_per_domain", map[string]int{"[0,q)": len(qCases), "[0,4096)": len(uCases)})
}

func TestVerifC03_cbd(t *testing.T) {
	r := verifmc.Start(t, "C03", "cbd")
	defer r.Finish()
	r.Rule("DeriveNoise2/DeriveNoise3 (PRF + CBD_eta bit-slicing) against SamplePolyCBD_eta(PRF_eta(seed, nonce)) of FIPS 203 for an enumerated list of (seed, nonce); " +
		"the CBD input bits cannot be chosen (they come from SHAKE-256), so domain coverage is *observed*: the run keeps enumerating seeds until every byte value has been seen at " +
		"every byte offset of the CBD_2 input (256 x 128), every 6-bit pattern at every CBD_3 coefficient (64 x 256), every 12-bit pattern at every CBD_3 coefficient pair (4096 x 128), " +
		"and (thorough) every 24-bit input pattern of a CBD_3 4-coefficient group at some offset (2^24); non-trivial = each distinct (eta, seed, nonce)")

	// coverage bitmaps
	type cov struct {
		b2    [128][256]bool  // CBD_2: byte value per byte offset
		c3    [256][64]bool   // CBD_3: 6-bit pattern per coefficient
		p3    [128][4096]bool // CBD_3: 12-bit pattern per coefficient pair
		g3    []uint64        // CBD_3: 24-bit pattern of a group (any offset), bitset
		n2    int
		n3c   int
		n3p   int
		n3g   int
		calls int
	}
	wantG := r.Thorough() && !c03Small
	newCov := func() *cov {
		c := &cov{}
		if wantG {
			c.g3 = make([]uint64, 1<<24/64)
		}
		return c
	}
	total := newCov()
	var mu sync.Mutex

	seedsPerRound := 64
	round := 0
	full := func() bool {
		return total.n2 == 128*256 && total.n3c == 256*64 && total.n3p == 128*4096 && (!wantG || total.n3g == 1<<24)
	}
	maxRounds := 20000
	for !full() && round < maxRounds && !r.Expired() {
		base := round * seedsPerRound
		needB2, needC3, needP3, needG3 := total.n2 < 128*256, total.n3c < 256*64, total.n3p < 128*4096, wantG && total.n3g < 1<<24
		verifmc.ParallelFor(seedsPerRound, func(si int) {
			var seed []byte
			idx := base + si
			switch idx {
			case 0:
				seed = make([]byte, 32)
			case 1:
				seed = bytes.Repeat([]byte{0xff}, 32)
			default:
				seed = verifmc.Shake(fmt.Sprintf("c03-cbd-%d", idx), 32)
			}
			lc := &cov{}
			var groups []uint32
			for nonce := 0; nonce < 256; nonce++ {
				for _, eta := range []int{2, 3} {
					var p Poly
					p.DeriveNoise(seed, uint8(nonce), eta)
					prf := ref.PRF(eta, seed, byte(nonce))
					want := ref.SamplePolyCBD(eta, prf)
					r.Eval(1)
					for i := range p {
						if c03Mod(int(p[i])) != want[i] {
							r.Violation(fmt.Sprintf("C03|common.Poly.DeriveNoise%d|differs from SamplePolyCBD(PRF(seed,nonce))", eta), fmt.Sprintf("cbd/%d/%d/%d", eta, idx, nonce),
								fmt.Sprintf("DeriveNoise%d(seed #%d = %x, nonce %d): coefficient %d = %d, reference %d (mod q)", eta, idx, seed, nonce, i, p[i], want[i]),
								map[string]interface{}{"eta": eta, "seed": verifmc.FullHex(seed), "nonce": nonce})
							break
						}
					}
					if eta == 2 {
						if needB2 {
							for o := 0; o < 128; o++ {
								lc.b2[o][prf[o]] = true
							}
						}
					} else if needC3 || needP3 || needG3 {
						for g := 0; g < 64; g++ { // 3 bytes = 4 coefficients
							v := uint32(prf[3*g]) | uint32(prf[3*g+1])<<8 | uint32(prf[3*g+2])<<16
							for c := 0; c < 4; c++ {
								lc.c3[4*g+c][(v>>(6*uint(c)))&63] = true
							}
							lc.p3[2*g][v&4095] = true
							lc.p3[2*g+1][v>>12] = true
							if needG3 {
								groups = append(groups, v)
							}
						}
					}
				}
				if idx < 2 && nonce == 0 {
					r.Distinct("cbd", idx, nonce)
				}
			}
			lc.calls = 512
			// merge (only the maps that were still incomplete when the round started)
			mu.Lock()
			for o := range lc.b2 {
				if !needB2 {
					break
				}
				for v := range lc.b2[o] {
					if lc.b2[o][v] && !total.b2[o][v] {
						total.b2[o][v] = true
						total.n2++
					}
				}
			}
			for c := range lc.c3 {
				if !needC3 {
					break
				}
				for v := range lc.c3[c] {
					if lc.c3[c][v] && !total.c3[c][v] {
						total.c3[c][v] = true
						total.n3c++
					}
				}
			}
			for c := range lc.p3 {
				if !needP3 {
					break
				}
				for v := range lc.p3[c] {
					if lc.p3[c][v] && !total.p3[c][v] {
						total.p3[c][v] = true
						total.n3p++
					}
				}
			}
			for _, v := range groups {
				if total.g3[v/64]&(1<<(v%64)) == 0 {
					total.g3[v/64] |= 1 << (v % 64)
					total.n3g++
				}
			}
			total.calls += lc.calls
			mu.Unlock()
		})
		round++
	}
	nSeeds := round * seedsPerRound
	r.Count("derive_noise_calls", total.calls)
	r.Count("seeds", nSeeds)
	r.Count("cbd2_(byte offset, byte value) seen", total.n2)
	r.Count("cbd3_(coefficient, 6-bit pattern) seen", total.n3c)
	r.Count("cbd3_(coefficient pair, 12-bit pattern) seen", total.n3p)
	r.Set("cbd2_domain", 128*256)
	r.Set("cbd3_coefficient_domain", 256*64)
	r.Set("cbd3_pair_domain", 128*4096)
	if wantG {
		r.Count("cbd3_24-bit group pattern seen", total.n3g)
		r.Set("cbd3_group_domain", 1<<24)
	}
	// distinct cases = (eta, seed, nonce): counted arithmetically, they are pairwise different by construction
	for i := 0; i < nSeeds; i++ {
		r.Distinct("cbd-seed", i)
	}
	r.Set("distinct_note", "distinct_nontrivial counts seeds; each seed is used with all 256 nonces and both eta")
	if !full() {
		r.NotExhaustive("observed CBD input coverage incomplete when the seed budget ended")
	}
	r.NotExhaustive("(seed, nonce) pairs come from a fixed enumerated sequence; completeness is claimed only for the observed CBD input-bit pattern classes listed in the rule")
	r.RequireCounter("cbd2_(byte offset, byte value) seen", 128*256)
	r.RequireCounter("cbd3_(coefficient, 6-bit pattern) seen", 256*64)
	r.RequireCounter("cbd3_(coefficient pair, 12-bit pattern) seen", 128*4096)
	r.Sample(map[string]interface{}{"routine": "DeriveNoise3", "seed": "00..00", "nonce": 0})
}

// c03Rhos is the fixed alphabet of matrix seeds.
func c03Rhos(r *verifmc.Run) [][]byte {
	all := verifmc.Seeds(32, r.Seed())
	if r.Thorough() {
		return all
	}
	return append([][]byte{all[3]}, all[5:]...) // quick: SHAKE256("verif0") (+ VERIF_SEED extras)
}

func TestVerifC03_samplers(t *testing.T) {
	r := verifmc.Start(t, "C03", "samplers")
	defer r.Finish()
	backend := c03Backend()
	r.Set("backend", backend)
	r.Set("DeriveX4Available", DeriveX4Available)
	r.Rule("DeriveUniform(rho, x, y) for ALL (x, y) in [0,256)^2 per rho, and PolyDeriveUniformX4 with every (x, y) in every one of the 4 lanes " +
		"(4 rotations of the 16384 quadruples) plus all 15 nil-lane masks, against the literal SampleNTT(rho || x || y) of FIPS 203 (compared through Detangle and through Pack); " +
		"rho in {SHAKE256(verif0)} (quick) / SEEDS(32) (thorough); non-trivial = each distinct (sampler, rho, x, y, lane)")
	rhos := c03Rhos(r)
	r.Set("rhos", len(rhos))
	r.NotExhaustive("rho ranges over a fixed seed alphabet, (x,y) over the complete 2^16")

	type refOut struct {
		enc    []byte
		blocks int
	}
	for ri, rhoB := range rhos {
		var rho [32]byte
		copy(rho[:], rhoB)
		refs := make([]refOut, 65536)
		// scalar
		verifmc.ParallelFor(65536, func(xy int) {
			x, y := uint8(xy>>8), uint8(xy)
			B := append(append([]byte{}, rho[:]...), x, y)
			want, tr := ref.SampleNTTTrace(B)
			refs[xy] = refOut{ref.ByteEncode(12, &want), tr.Blocks}
			var p Poly
			p.DeriveUniform(&rho, x, y)
			got := make([]byte, PolySize)
			p.Pack(got)
			q := p
			q.Detangle()
			r.Eval(1)
			r.Distinct("scalar", ri, xy)
			ok := bytes.Equal(got, refs[xy].enc)
			for i := range q {
				if c03Mod(int(q[i])) != want[i] {
					ok = false
				}
			}
			if !ok {
				r.Violation(fmt.Sprintf("C03|common.Poly.DeriveUniform|differs from SampleNTT|blocks=%d", tr.Blocks), fmt.Sprintf("uniform/%d/%d/%d", ri, x, y),
					fmt.Sprintf("DeriveUniform(rho=%x, x=%d, y=%d) (%s) differs from SampleNTT; the reference consumed %d SHAKE-128 blocks, %d candidates, %d rejected", rho, x, y, backend, tr.Blocks, tr.Candidates, tr.Rejected),
					map[string]interface{}{"rho": verifmc.FullHex(rho[:]), "x": x, "y": y})
			}
			r.Count(fmt.Sprintf("scalar_cases_using_%d_blocks", tr.Blocks), 1)
			if tr.Blocks >= 4 {
				r.Count("scalar_cases_crossing_third_block", 1)
			}
			if tr.LastWasD1 {
				r.Count("scalar_cases_finishing_on_d1", 1)
			}
			if (tr.LastByte+1)%168 == 0 {
				r.Count("scalar_cases_finishing_on_block_end", 1)
			}
			if ri == 0 && xy == 258 {
				r.Sample(map[string]interface{}{"sampler": "DeriveUniform", "rho": verifmc.FullHex(rho[:]), "x": x, "y": y, "blocks": tr.Blocks, "rejected": tr.Rejected})
			}
		})
		if !DeriveX4Available {
			continue
		}
		// four-way: quadruple g of rotation rot puts (x,y) = 4g+((l+rot) mod 4) in lane l
		verifmc.ParallelFor(4*16384, func(k int) {
			rot, g := k/16384, k%16384
			var ps [4]*Poly
			var polys [4]Poly
			var xs, ys [4]uint8
			var xyOf [4]int
			for l := 0; l < 4; l++ {
				xy := (4*g + (l+rot)%4)
				xyOf[l] = xy
				xs[l], ys[l] = uint8(xy>>8), uint8(xy)
				ps[l] = &polys[l]
			}
			PolyDeriveUniformX4(ps, &rho, xs, ys)
			r.Eval(1)
			differ := false
			for l := 0; l < 4; l++ {
				got := make([]byte, PolySize)
				polys[l].Pack(got)
				r.Distinct("x4", ri, xyOf[l], l)
				if !bytes.Equal(got, refs[xyOf[l]].enc) {
					r.Violation(fmt.Sprintf("C03|common.PolyDeriveUniformX4|lane differs from SampleNTT|blocks=%d", refs[xyOf[l]].blocks), fmt.Sprintf("x4/%d/%d/%d", ri, rot, g),
						fmt.Sprintf("PolyDeriveUniformX4(rho=%x, xs=%v, ys=%v): lane %d differs from SampleNTT (reference blocks per lane: %d %d %d %d)", rho, xs, ys, l,
							refs[xyOf[0]].blocks, refs[xyOf[1]].blocks, refs[xyOf[2]].blocks, refs[xyOf[3]].blocks),
						map[string]interface{}{"rho": verifmc.FullHex(rho[:]), "xs": fmt.Sprint(xs), "ys": fmt.Sprint(ys), "lane": l})
				}
				if refs[xyOf[l]].blocks != refs[xyOf[0]].blocks {
					differ = true
				}
				if refs[xyOf[l]].blocks >= 4 {
					r.Count("x4_lanes_crossing_third_block", 1)
				}
			}
			if differ {
				r.Count("x4_calls_lanes_finish_in_different_blocks", 1)
			}
		})
		// nil lanes: all 15 non-empty masks on 256 quadruples
		verifmc.ParallelFor(256*15, func(k int) {
			mask, g := k%15+1, (k/15)*64+17
			var ps [4]*Poly
			var polys [4]Poly
			var xs, ys [4]uint8
			for l := 0; l < 4; l++ {
				xy := 4*g + l
				xs[l], ys[l] = uint8(xy>>8), uint8(xy)
				if mask&(1<<uint(l)) != 0 {
					ps[l] = &polys[l]
				}
			}
			PolyDeriveUniformX4(ps, &rho, xs, ys)
			r.Eval(1)
			r.Count("x4_calls_with_nil_lanes", 1)
			for l := 0; l < 4; l++ {
				if ps[l] == nil {
					if polys[l] != (Poly{}) {
						r.Violation("C03|common.PolyDeriveUniformX4|wrote to a nil lane's neighbour", fmt.Sprintf("x4nil/%d/%d/%d", ri, mask, g), "unexpected write", nil)
					}
					continue
				}
				got := make([]byte, PolySize)
				polys[l].Pack(got)
				r.Distinct("x4nil", ri, g, mask, l)
				if !bytes.Equal(got, refs[4*g+l].enc) {
					r.Violation("C03|common.PolyDeriveUniformX4|lane differs from SampleNTT|nil-mask", fmt.Sprintf("x4nil/%d/%d/%d", ri, mask, g),
						fmt.Sprintf("PolyDeriveUniformX4(rho=%x, xs=%v, ys=%v, lane mask %04b): lane %d differs from SampleNTT", rho, xs, ys, mask, l),
						map[string]interface{}{"rho": verifmc.FullHex(rho[:]), "xs": fmt.Sprint(xs), "ys": fmt.Sprint(ys), "mask": mask})
				}
			}
		})
	}
	r.RequireCounter("scalar_cases_crossing_third_block", 1)
	r.RequireCounter("scalar_cases_finishing_on_d1", 1)
	if DeriveX4Available {
		r.RequireCounter("x4_calls_lanes_finish_in_different_blocks", 1)
		r.RequireCounter("x4_lanes_crossing_third_block", 1)
	}
}
