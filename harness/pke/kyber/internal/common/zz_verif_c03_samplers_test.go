//go:build verif

package common

// C03, helper level: uniform rejection samplers Poly.DeriveUniform and PolyDeriveUniformX4 (exported).

import (
	"bytes"
	"fmt"
	"testing"

	"github.com/cloudflare/circl/internal/verifmc"
	ref "github.com/cloudflare/circl/internal/verifref/mlkem"
)

func TestVerifC03_samplers(t *testing.T) {
	r := verifmc.Start(t, "C03", "samplers")
	defer r.Finish()
	backend := c03Backend()
	r.Set("backend", backend)
	r.Set("DeriveX4Available", DeriveX4Available)
	r.Rule("DeriveUniform(rho, x, y) for ALL (x, y) in [0,256)^2 per rho, and PolyDeriveUniformX4 with every (x, y) in every one of the 4 lanes " +
		"(4 rotations of the 16384 quadruples) plus all 15 nil-lane masks, against the literal SampleNTT(rho || x || y) of FIPS 203 (compared through Detangle and through Pack); " +
		"rho in {SHAKE256(verif0)} (quick) / SEEDS(32) (thorough); non-trivial = each distinct (sampler, rho, x, y, lane)")
	rhos := c03Rhos(r)
	r.Set("rhos", len(rhos))
	r.NotExhaustive("rho ranges over a fixed seed alphabet, (x,y) over the complete 2^16")

	type refOut struct {
		enc    []byte
		blocks int
	}
	for ri, rhoB := range rhos {
		var rho [32]byte
		copy(rho[:], rhoB)
		refs := make([]refOut, 65536)
		// scalar
		verifmc.ParallelFor(65536, func(xy int) {
			x, y := uint8(xy>>8), uint8(xy)
			B := append(append([]byte{}, rho[:]...), x, y)
			want, tr := ref.SampleNTTTrace(B)
			refs[xy] = refOut{ref.ByteEncode(12, &want), tr.Blocks}
			var p Poly
			p.DeriveUniform(&rho, x, y)
			got := make([]byte, PolySize)
			p.Pack(got)
			q := p
			q.Detangle()
			r.Eval(1)
			r.Distinct("scalar", ri, xy)
			ok := bytes.Equal(got, refs[xy].enc)
			for i := range q {
				if c03Mod(int(q[i])) != want[i] {
					ok = false
				}
			}
			if !ok {
				r.Violation(fmt.Sprintf("C03|common.Poly.DeriveUniform|differs from SampleNTT|blocks=%d", tr.Blocks), fmt.Sprintf("uniform/%d/%d/%d", ri, x, y),
					fmt.Sprintf("DeriveUniform(rho=%x, x=%d, y=%d) (%s) differs from SampleNTT; the reference consumed %d SHAKE-128 blocks, %d candidates, %d rejected", rho, x, y, backend, tr.Blocks, tr.Candidates, tr.Rejected),
					map[string]interface{}{"rho": verifmc.FullHex(rho[:]), "x": x, "y": y})
			}
			r.Count(fmt.Sprintf("scalar_cases_using_%d_blocks", tr.Blocks), 1)
			if tr.Blocks >= 4 {
				r.Count("scalar_cases_crossing_third_block", 1)
			}
			if tr.LastWasD1 {
				r.Count("scalar_cases_finishing_on_d1", 1)
			}
			if (tr.LastByte+1)%168 == 0 {
				r.Count("scalar_cases_finishing_on_block_end", 1)
			}
			if ri == 0 && xy == 258 {
				r.Sample(map[string]interface{}{"sampler": "DeriveUniform", "rho": verifmc.FullHex(rho[:]), "x": x, "y": y, "blocks": tr.Blocks, "rejected": tr.Rejected})
			}
		})
		if !DeriveX4Available {
			continue
		}
		// four-way: quadruple g of rotation rot puts (x,y) = 4g+((l+rot) mod 4) in lane l
		verifmc.ParallelFor(4*16384, func(k int) {
			rot, g := k/16384, k%16384
			var ps [4]*Poly
			var polys [4]Poly
			var xs, ys [4]uint8
			var xyOf [4]int
			for l := 0; l < 4; l++ {
				xy := (4*g + (l+rot)%4)
				xyOf[l] = xy
				xs[l], ys[l] = uint8(xy>>8), uint8(xy)
				ps[l] = &polys[l]
			}
			PolyDeriveUniformX4(ps, &rho, xs, ys)
			r.Eval(1)
			differ := false
			for l := 0; l < 4; l++ {
				got := make([]byte, PolySize)
				polys[l].Pack(got)
				r.Distinct("x4", ri, xyOf[l], l)
				if !bytes.Equal(got, refs[xyOf[l]].enc) {
					r.Violation(fmt.Sprintf("C03|common.PolyDeriveUniformX4|lane differs from SampleNTT|blocks=%d", refs[xyOf[l]].blocks), fmt.Sprintf("x4/%d/%d/%d", ri, rot, g),
						fmt.Sprintf("PolyDeriveUniformX4(rho=%x, xs=%v, ys=%v): lane %d differs from SampleNTT (reference blocks per lane: %d %d %d %d)", rho, xs, ys, l,
							refs[xyOf[0]].blocks, refs[xyOf[1]].blocks, refs[xyOf[2]].blocks, refs[xyOf[3]].blocks),
						map[string]interface{}{"rho": verifmc.FullHex(rho[:]), "xs": fmt.Sprint(xs), "ys": fmt.Sprint(ys), "lane": l})
				}
				if refs[xyOf[l]].blocks != refs[xyOf[0]].blocks {
					differ = true
				}
				if refs[xyOf[l]].blocks >= 4 {
					r.Count("x4_lanes_crossing_third_block", 1)
				}
			}
			if differ {
				r.Count("x4_calls_lanes_finish_in_different_blocks", 1)
			}
		})
		// nil lanes: all 15 non-empty masks on 256 quadruples
		verifmc.ParallelFor(256*15, func(k int) {
			mask, g := k%15+1, (k/15)*64+17
			var ps [4]*Poly
			var polys [4]Poly
			var xs, ys [4]uint8
			for l := 0; l < 4; l++ {
				xy := 4*g + l
				xs[l], ys[l] = uint8(xy>>8), uint8(xy)
				if mask&(1<<uint(l)) != 0 {
					ps[l] = &polys[l]
				}
			}
			PolyDeriveUniformX4(ps, &rho, xs, ys)
			r.Eval(1)
			r.Count("x4_calls_with_nil_lanes", 1)
			for l := 0; l < 4; l++ {
				if ps[l] == nil {
					if polys[l] != (Poly{}) {
						r.Violation("C03|common.PolyDeriveUniformX4|wrote to a nil lane's neighbour", fmt.Sprintf("x4nil/%d/%d/%d", ri, mask, g), "unexpected write", nil)
					}
					continue
				}
				got := make([]byte, PolySize)
				polys[l].Pack(got)
				r.Distinct("x4nil", ri, g, mask, l)
				if !bytes.Equal(got, refs[4*g+l].enc) {
					r.Violation("C03|common.PolyDeriveUniformX4|lane differs from SampleNTT|nil-mask", fmt.Sprintf("x4nil/%d/%d/%d", ri, mask, g),
						fmt.Sprintf("PolyDeriveUniformX4(rho=%x, xs=%v, ys=%v, lane mask %04b): lane %d differs from SampleNTT", rho, xs, ys, mask, l),
						map[string]interface{}{"rho": verifmc.FullHex(rho[:]), "xs": fmt.Sprint(xs), "ys": fmt.Sprint(ys), "mask": mask})
				}
			}
		})
	}
	r.RequireCounter("scalar_cases_crossing_third_block", 1)
	r.RequireCounter("scalar_cases_finishing_on_d1", 1)
	if DeriveX4Available {
		r.RequireCounter("x4_calls_lanes_finish_in_different_blocks", 1)
		r.RequireCounter("x4_lanes_crossing_third_block", 1)
	}
}
