//go:build verif

package common

// C03 helpers shared by the units of this directory. This file names NO unexported identifier of
// package common (only Poly, Q and Poly.Tangle), so that renaming an internal helper of the library
// can never take the shared helpers (and with them every unit) out of the build.

import (
	"fmt"
	"strconv"
	"sync/atomic"

	"github.com/cloudflare/circl/internal/verifmc"
	ref "github.com/cloudflare/circl/internal/verifref/mlkem"
)

const c03Q = int(Q)

func c03Mod(a int) int {
	a %= c03Q
	if a < 0 {
		a += c03Q
	}
	return a
}

// c03MulR returns x * 2^16 mod q without leaving 32-bit int range (the harness also runs with GOARCH=386).
func c03MulR(x int) int { return c03Mod(x) * (65536 % c03Q) % c03Q }

// c03Small reports a 32-bit int (GOARCH=386 configuration): the heaviest sweeps are narrowed there.
const c03Small = strconv.IntSize == 32

// c03Backend tells which back-end the Poly methods dispatch to in this process.
func c03Backend() string {
	var p Poly
	for i := range p {
		p[i] = int16(i)
	}
	q := p
	q.Tangle()
	if q != p {
		return "avx2"
	}
	return "generic"
}

func c03ToRef(p *Poly) ref.Poly {
	var f ref.Poly
	for i := range p {
		f[i] = c03Mod(int(p[i]))
	}
	return f
}

func c03FromInts(v *[256]int) Poly {
	var p Poly
	for i := range v {
		p[i] = int16(v[i])
	}
	return p
}

// c03Arrange returns the two lane arrangements used to push all 2^16 int16 values through a
// 256-lane routine: block b of arrangement 0 holds the consecutive values 256b..256b+255, block b
// of arrangement 1 holds the values with low byte b (so every lane sees every high byte).
func c03Arrange(arr, b, lane int) int16 {
	if arr == 0 {
		return int16(uint16(256*b + lane))
	}
	return int16(uint16(256*lane + b))
}

func c03AtomicMaxAbs(m *atomic.Int64, v int64) {
	if v < 0 {
		v = -v
	}
	for {
		old := m.Load()
		if v <= old || m.CompareAndSwap(old, v) {
			return
		}
	}
}

// c03Patterns calls f with coefficient vectors over [0,m) such that every value of [0,m) occurs at
// every position: rolling patterns v[i] = (c + i*s) mod m for all c and two strides s (1 and an odd
// stride coprime to m), and, for every value x, every position class j mod 8 and both extreme
// backgrounds (0 and m-1), the vector that is x on the class and the background elsewhere.
func c03Patterns(m int, f func(name string, v *[256]int)) {
	for _, s := range []int{1, 1237} {
		for c := 0; c < m; c++ {
			var v [256]int
			for i := range v {
				v[i] = (c + i*s) % m
			}
			f(fmt.Sprintf("roll c=%d s=%d", c, s), &v)
		}
	}
	for x := 0; x < m; x++ {
		for _, bg := range []int{0, m - 1} {
			for j := 0; j < 8; j++ {
				var v [256]int
				for i := range v {
					v[i] = bg
					if i%8 == j {
						v[i] = x
					}
				}
				f(fmt.Sprintf("single x=%d bg=%d class=%d", x, bg, j), &v)
			}
		}
	}
}

type c03Case struct {
	name string
	v    [256]int
}

func c03Collect(m int) []c03Case {
	var out []c03Case
	c03Patterns(m, func(name string, v *[256]int) { out = append(out, c03Case{name, *v}) })
	return out
}

// c03Rhos is the fixed alphabet of matrix seeds.
func c03Rhos(r *verifmc.Run) [][]byte {
	all := verifmc.Seeds(32, r.Seed())
	if r.Thorough() {
		return all
	}
	return append([][]byte{all[3]}, all[5:]...) // quick: SHAKE256("verif0") (+ VERIF_SEED extras)
}
