//go:build verif

package common

// C03: complete sweep of the unexported scalar helper montReduce (a file of its own).

import (
	"fmt"
	"sync/atomic"
	"testing"

	"github.com/cloudflare/circl/internal/verifmc"
)

func TestVerifC03_reductions_montReduce(t *testing.T) {
	r := verifmc.Start(t, "C03", "reductions_montReduce")
	defer r.Finish()
	r.Rule("montReduce (unexported scalar helper) on its whole documented domain [-2^15 q, 2^15 q) (quick; 2^16*q values) and on all 2^32 int32 values (thorough; judged inside the documented domain only): " +
		"-q < y < q and y*2^16 = x mod q; non-trivial = one per 2^16-block of inputs")

	// montReduce: documented domain -2^15 q <= x < 2^15 q: -q < y < q, y 2^16 = x (mod q)
	lo, hi := -32768*int64(c03Q), 32768*int64(c03Q)
	firstBlock, lastBlock := int(lo>>16), int((hi-1)>>16)
	if r.Thorough() && !c03Small {
		firstBlock, lastBlock = -32768, 32767
	}
	var inDom, outOK, outBad atomic.Int64
	nBlocks := lastBlock - firstBlock + 1
	verifmc.ParallelFor(nBlocks, func(bi int) {
		blk := int64(firstBlock + bi)
		var in, ok, bad int64
		for l := int64(0); l < 65536; l++ {
			x := blk<<16 | l
			y := int64(montReduce(int32(x)))
			good := y > -int64(c03Q) && y < int64(c03Q) && (y*65536-x)%int64(c03Q) == 0
			if x >= lo && x < hi {
				in++
				if !good {
					sign := "x>=0"
					if x < 0 {
						sign = "x<0"
					}
					r.Violation("C03|common.montReduce|not x*2^-16 mod q in (-q,q) on documented domain|"+sign, fmt.Sprintf("montReduce/%d", x),
						fmt.Sprintf("montReduce(%d) = %d; contract: -q < y < q and y*2^16 = x mod q", x, y), map[string]int64{"x": x})
				}
			} else if good {
				ok++
			} else {
				bad++
			}
		}
		inDom.Add(in)
		outOK.Add(ok)
		outBad.Add(bad)
		r.Eval(65536)
		r.Distinct("montReduce block", blk)
	})
	r.Count("montReduce_domain_points", int(inDom.Load()))
	r.Count("montReduce_outside_domain_contract_holds(info)", int(outOK.Load()))
	r.Count("montReduce_outside_domain_contract_fails(info, not demanded)", int(outBad.Load()))
	r.RequireCounter("montReduce_domain_points", 65536*int64(c03Q))
	r.Set("montReduce_swept", map[string]interface{}{"first_block": firstBlock, "last_block": lastBlock, "values": int64(nBlocks) * 65536})
	if !r.Thorough() || c03Small {
		r.Set("montReduce_note", "quick tier sweeps exactly the documented domain (2^16*q values); thorough sweeps all 2^32")
	}
}
