//go:build verif

package common

// C03, helper level: CBD_2 / CBD_3 through the exported Poly.DeriveNoise.

import (
	"bytes"
	"fmt"
	"sync"
	"testing"

	"github.com/cloudflare/circl/internal/verifmc"
	ref "github.com/cloudflare/circl/internal/verifref/mlkem"
)

func TestVerifC03_cbd(t *testing.T) {
	r := verifmc.Start(t, "C03", "cbd")
	defer r.Finish()
	r.Rule("DeriveNoise2/DeriveNoise3 (PRF + CBD_eta bit-slicing) against SamplePolyCBD_eta(PRF_eta(seed, nonce)) of FIPS 203 for an enumerated list of (seed, nonce); " +
		"the CBD input bits cannot be chosen (they come from SHAKE-256), so domain coverage is *observed*: the run keeps enumerating seeds until every byte value has been seen at " +
		"every byte offset of the CBD_2 input (256 x 128), every 6-bit pattern at every CBD_3 coefficient (64 x 256), every 12-bit pattern at every CBD_3 coefficient pair (4096 x 128), " +
		"and (thorough) every 24-bit input pattern of a CBD_3 4-coefficient group at some offset (2^24); non-trivial = each distinct (eta, seed, nonce)")

	// coverage bitmaps
	type cov struct {
		b2    [128][256]bool  // CBD_2: byte value per byte offset
		c3    [256][64]bool   // CBD_3: 6-bit pattern per coefficient
		p3    [128][4096]bool // CBD_3: 12-bit pattern per coefficient pair
		g3    []uint64        // CBD_3: 24-bit pattern of a group (any offset), bitset
		n2    int
		n3c   int
		n3p   int
		n3g   int
		calls int
	}
	wantG := r.Thorough() && !c03Small
	newCov := func() *cov {
		c := &cov{}
		if wantG {
			c.g3 = make([]uint64, 1<<24/64)
		}
		return c
	}
	total := newCov()
	var mu sync.Mutex

	seedsPerRound := 64
	round := 0
	full := func() bool {
		return total.n2 == 128*256 && total.n3c == 256*64 && total.n3p == 128*4096 && (!wantG || total.n3g == 1<<24)
	}
	maxRounds := 20000
	for !full() && round < maxRounds && !r.Expired() {
		base := round * seedsPerRound
		needB2, needC3, needP3, needG3 := total.n2 < 128*256, total.n3c < 256*64, total.n3p < 128*4096, wantG && total.n3g < 1<<24
		verifmc.ParallelFor(seedsPerRound, func(si int) {
			var seed []byte
			idx := base + si
			switch idx {
			case 0:
				seed = make([]byte, 32)
			case 1:
				seed = bytes.Repeat([]byte{0xff}, 32)
			default:
				seed = verifmc.Shake(fmt.Sprintf("c03-cbd-%d", idx), 32)
			}
			lc := &cov{}
			var groups []uint32
			for nonce := 0; nonce < 256; nonce++ {
				for _, eta := range []int{2, 3} {
					var p Poly
					p.DeriveNoise(seed, uint8(nonce), eta)
					prf := ref.PRF(eta, seed, byte(nonce))
					want := ref.SamplePolyCBD(eta, prf)
					r.Eval(1)
					for i := range p {
						if c03Mod(int(p[i])) != want[i] {
							r.Violation(fmt.Sprintf("C03|common.Poly.DeriveNoise%d|differs from SamplePolyCBD(PRF(seed,nonce))", eta), fmt.Sprintf("cbd/%d/%d/%d", eta, idx, nonce),
								fmt.Sprintf("DeriveNoise%d(seed #%d = %x, nonce %d): coefficient %d = %d, reference %d (mod q)", eta, idx, seed, nonce, i, p[i], want[i]),
								map[string]interface{}{"eta": eta, "seed": verifmc.FullHex(seed), "nonce": nonce})
							break
						}
					}
					if eta == 2 {
						if needB2 {
							for o := 0; o < 128; o++ {
								lc.b2[o][prf[o]] = true
							}
						}
					} else if needC3 || needP3 || needG3 {
						for g := 0; g < 64; g++ { // 3 bytes = 4 coefficients
							v := uint32(prf[3*g]) | uint32(prf[3*g+1])<<8 | uint32(prf[3*g+2])<<16
							for c := 0; c < 4; c++ {
								lc.c3[4*g+c][(v>>(6*uint(c)))&63] = true
							}
							lc.p3[2*g][v&4095] = true
							lc.p3[2*g+1][v>>12] = true
							if needG3 {
								groups = append(groups, v)
							}
						}
					}
				}
				if idx < 2 && nonce == 0 {
					r.Distinct("cbd", idx, nonce)
				}
			}
			lc.calls = 512
			// merge (only the maps that were still incomplete when the round started)
			mu.Lock()
			for o := range lc.b2 {
				if !needB2 {
					break
				}
				for v := range lc.b2[o] {
					if lc.b2[o][v] && !total.b2[o][v] {
						total.b2[o][v] = true
						total.n2++
					}
				}
			}
			for c := range lc.c3 {
				if !needC3 {
					break
				}
				for v := range lc.c3[c] {
					if lc.c3[c][v] && !total.c3[c][v] {
						total.c3[c][v] = true
						total.n3c++
					}
				}
			}
			for c := range lc.p3 {
				if !needP3 {
					break
				}
				for v := range lc.p3[c] {
					if lc.p3[c][v] && !total.p3[c][v] {
						total.p3[c][v] = true
						total.n3p++
					}
				}
			}
			for _, v := range groups {
				if total.g3[v/64]&(1<<(v%64)) == 0 {
					total.g3[v/64] |= 1 << (v % 64)
					total.n3g++
				}
			}
			total.calls += lc.calls
			mu.Unlock()
		})
		round++
	}
	nSeeds := round * seedsPerRound
	r.Count("derive_noise_calls", total.calls)
	r.Count("seeds", nSeeds)
	r.Count("cbd2_(byte offset, byte value) seen", total.n2)
	r.Count("cbd3_(coefficient, 6-bit pattern) seen", total.n3c)
	r.Count("cbd3_(coefficient pair, 12-bit pattern) seen", total.n3p)
	r.Set("cbd2_domain", 128*256)
	r.Set("cbd3_coefficient_domain", 256*64)
	r.Set("cbd3_pair_domain", 128*4096)
	if wantG {
		r.Count("cbd3_24-bit group pattern seen", total.n3g)
		r.Set("cbd3_group_domain", 1<<24)
	}
	// distinct cases = (eta, seed, nonce): counted arithmetically, they are pairwise different by construction
	for i := 0; i < nSeeds; i++ {
		r.Distinct("cbd-seed", i)
	}
	r.Set("distinct_note", "distinct_nontrivial counts seeds; each seed is used with all 256 nonces and both eta")
	if !full() {
		r.NotExhaustive("observed CBD input coverage incomplete when the seed budget ended")
	}
	r.NotExhaustive("(seed, nonce) pairs come from a fixed enumerated sequence; completeness is claimed only for the observed CBD input-bit pattern classes listed in the rule")
	r.RequireCounter("cbd2_(byte offset, byte value) seen", 128*256)
	r.RequireCounter("cbd3_(coefficient, 6-bit pattern) seen", 256*64)
	r.RequireCounter("cbd3_(coefficient pair, 12-bit pattern) seen", 128*4096)
	r.Sample(map[string]interface{}{"routine": "DeriveNoise3", "seed": "00..00", "nonce": 0})
}
