//go:build verif

package common

// C03: complete sweep of the unexported scalar helper csubq and of csubq(barrettReduce(.)) (a file of its own).

import (
	"fmt"
	"testing"

	"github.com/cloudflare/circl/internal/verifmc"
)

func TestVerifC03_reductions_csubq(t *testing.T) {
	r := verifmc.Start(t, "C03", "reductions_csubq")
	defer r.Finish()
	r.Rule("csubq (unexported scalar helper) on its whole documented domain x >= -29439: x if x < q else x - q; and the composition csubq(barrettReduce(x)) on all 2^16 inputs: the canonical residue; non-trivial = one per (routine, input value)")
	for x := -32768; x <= 32767; x++ {
		if x >= -29439 {
			z := int(csubq(int16(x)))
			want := x
			if x >= c03Q {
				want = x - c03Q
			}
			r.Eval(1)
			r.Distinct("csubq", x)
			if z != want {
				r.Violation("C03|common.csubq|wrong value on documented domain", fmt.Sprintf("csubq/%d", x),
					fmt.Sprintf("csubq(%d) = %d, want %d", x, z, want), map[string]int{"x": x})
			}
		}
		// the composition used everywhere before packing
		n := int(csubq(barrettReduce(int16(x))))
		r.Eval(1)
		r.Distinct("csubq(barrettReduce)", x)
		if n != c03Mod(x) {
			r.Violation("C03|common.csubq(barrettReduce)|not the canonical residue", fmt.Sprintf("normalize/%d", x),
				fmt.Sprintf("csubq(barrettReduce(%d)) = %d, want %d", x, n, c03Mod(x)), map[string]int{"x": x})
		}
	}
	r.Sample(map[string]interface{}{"routine": "csubq", "x": 3329, "y": int(csubq(3329))})
}
