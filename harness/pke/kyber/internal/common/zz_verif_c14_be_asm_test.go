//go:build verif && amd64 && !purego

package common

import "golang.org/x/sys/cpu"

// c14Backend reads the bit every Poly method of amd64.go tests on each call.
func c14Backend() string {
	if cpu.X86.HasAVX2 {
		return "avx2"
	}
	return "amd64-generic-fallback"
}
