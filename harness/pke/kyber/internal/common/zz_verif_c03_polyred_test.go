//go:build verif

package common

// C03, helper level: complete sweeps of the reductions through the exported Poly methods (names nothing unexported).

import (
	"fmt"
	"testing"

	"github.com/cloudflare/circl/internal/verifmc"
)

func TestVerifC03_reductions(t *testing.T) {
	r := verifmc.Start(t, "C03", "reductions")
	defer r.Finish()
	backend := c03Backend()
	r.Set("backend", backend)
	r.Rule("complete domain sweeps through the exported Poly methods (generic or AVX2 back-end, whichever is active): Poly.BarrettReduce/Normalize/ToMont on all 2^16 int16 values in two lane arrangements, " +
		"Poly.Add/Sub on all 2^16 x 16 boundary operands; the unexported scalar helpers are swept by the units reductions_barrettReduce, reductions_csubq, reductions_toMont, reductions_montReduce (one file each); " +
		"non-trivial = one per (routine, arrangement, input value)")

	// --- Poly-level: BarrettReduce, Normalize, ToMont on all 2^16 values in two lane arrangements
	for arr := 0; arr < 2; arr++ {
		for b := 0; b < 256; b++ {
			var in, p Poly
			for i := range in {
				in[i] = c03Arrange(arr, b, i)
			}
			p = in
			p.BarrettReduce()
			for i := range p {
				x, y := int(in[i]), int(p[i])
				r.Eval(1)
				r.Distinct("Poly.BarrettReduce", arr, x)
				if y < 0 || y > c03Q || c03Mod(y-x) != 0 {
					r.Violation("C03|common.Poly.BarrettReduce|result not in [0,q] or not congruent", fmt.Sprintf("PolyBarrett/%d/%d/%d", arr, b, i),
						fmt.Sprintf("Poly.BarrettReduce (%s): lane %d: %d -> %d; contract 0 <= y <= q, y = x mod q", backend, i, x, y), map[string]int{"x": x, "lane": i, "arrangement": arr})
				}
			}
			p = in
			p.Normalize()
			for i := range p {
				x, y := int(in[i]), int(p[i])
				r.Eval(1)
				r.Distinct("Poly.Normalize", arr, x)
				if y != c03Mod(x) {
					r.Violation("C03|common.Poly.Normalize|not the canonical residue", fmt.Sprintf("PolyNormalize/%d/%d/%d", arr, b, i),
						fmt.Sprintf("Poly.Normalize (%s): lane %d: %d -> %d, want %d", backend, i, x, y, c03Mod(x)), map[string]int{"x": x, "lane": i, "arrangement": arr})
				}
			}
			p = in
			p.ToMont()
			for i := range p {
				x, y := int(in[i]), int(p[i])
				r.Eval(1)
				r.Distinct("Poly.ToMont", arr, x)
				if y <= -c03Q || y >= c03Q || c03Mod(y-c03MulR(x)) != 0 {
					r.Violation("C03|common.Poly.ToMont|not x*2^16 mod q in (-q,q)", fmt.Sprintf("PolyToMont/%d/%d/%d", arr, b, i),
						fmt.Sprintf("Poly.ToMont: lane %d: %d -> %d", i, x, y), map[string]int{"x": x, "lane": i})
				}
			}
		}
	}

	// --- Poly.Add / Poly.Sub: all 2^16 first operands x 16 boundary second operands; demanded
	// only when the exact sum/difference fits in int16 ("does not normalize" = plain integer add).
	bnd := []int{0, 1, -1, c03Q, -c03Q, 2 * c03Q, 1664, 32767, -32768, 255, 256, -256, 4095, -4096, 16384, -16384}
	verifmc.ParallelFor(256, func(b int) {
		for _, bv := range bnd {
			var a, c, s, d Poly
			for i := range a {
				a[i] = c03Arrange(0, b, i)
				c[i] = int16(bv)
			}
			s.Add(&a, &c)
			d.Sub(&a, &c)
			r.Eval(512)
			for i := range a {
				ws, wd := int(a[i])+bv, int(a[i])-bv
				if ws >= -32768 && ws <= 32767 && int(s[i]) != ws {
					r.Violation("C03|common.Poly.Add|wrong sum", fmt.Sprintf("Add/%d/%d", a[i], bv),
						fmt.Sprintf("Poly.Add (%s): %d + %d = %d", backend, a[i], bv, s[i]), map[string]int{"a": int(a[i]), "b": bv, "lane": i})
				}
				if wd >= -32768 && wd <= 32767 && int(d[i]) != wd {
					r.Violation("C03|common.Poly.Sub|wrong difference", fmt.Sprintf("Sub/%d/%d", a[i], bv),
						fmt.Sprintf("Poly.Sub (%s): %d - %d = %d", backend, a[i], bv, d[i]), map[string]int{"a": int(a[i]), "b": bv, "lane": i})
				}
			}
		}
		r.Distinct("Poly.Add/Sub block", b)
	})
}
