//go:build verif

package common

// C03, helper level: Compress_d / Decompress_d (d in {1,4,5,10,11}) and ByteEncode_12 / ByteDecode_12 through the
// exported Poly methods CompressTo, Decompress, CompressMessageTo, DecompressMessage, Pack, Unpack.

import (
	"bytes"
	"fmt"
	"sync"
	"testing"

	"github.com/cloudflare/circl/internal/verifmc"
	ref "github.com/cloudflare/circl/internal/verifref/mlkem"
)

func TestVerifC03_compress(t *testing.T) {
	r := verifmc.Start(t, "C03", "compress")
	defer r.Finish()
	backend := c03Backend()
	r.Set("backend", backend)
	r.Rule("Compress_d on every x in [0,q) and Decompress_d on every y in [0,2^d), d in {1,4,5,10,11}, and ByteEncode_12/ByteDecode_12 on every 12-bit value, " +
		"each value at every coefficient position (rolling patterns with two strides; single value on each position class mod 8 in all-0 and all-max backgrounds), " +
		"every byte value at every byte-position class for the decoders; encoders compared byte-for-byte, decoders coefficient-wise mod q with FIPS 203 Algorithms 5/6 and section 4.2.1; " +
		"non-trivial = each distinct (routine, d, input vector)")

	qCases := c03Collect(c03Q)
	for _, d := range []int{4, 5, 10, 11} {
		d := d
		size := 32 * d
		// Compress_d + ByteEncode_d
		verifmc.ParallelFor(len(qCases), func(k int) {
			c := &qCases[k]
			p := c03FromInts(&c.v)
			f := ref.Poly(c.v)
			got := make([]byte, size)
			p.CompressTo(got, d)
			cf := ref.CompressPoly(d, &f)
			want := ref.ByteEncode(d, &cf)
			r.Eval(1)
			r.Distinct("compress", d, c.name)
			if !bytes.Equal(got, want) {
				i := 0
				for i < size && got[i] == want[i] {
					i++
				}
				x := c.v[i*8/d]
				r.Violation(fmt.Sprintf("C03|common.Poly.CompressTo|d=%d|differs from ByteEncode_d(Compress_d)", d), fmt.Sprintf("compress/%d/%s", d, c.name),
					fmt.Sprintf("CompressTo(d=%d) on %s: byte %d = %02x, reference %02x (first coefficient in that byte: %d -> Compress_%d = %d)", d, c.name, i, got[i], want[i], x, d, ref.Compress(d, x)),
					map[string]interface{}{"d": d, "pattern": c.name})
			}
		})
		// ByteDecode_d + Decompress_d on coefficient patterns
		dCases := c03Collect(1 << uint(d))
		verifmc.ParallelFor(len(dCases), func(k int) {
			c := &dCases[k]
			y := ref.Poly(c.v)
			m := ref.ByteEncode(d, &y)
			var p Poly
			p.Decompress(m, d)
			r.Eval(1)
			r.Distinct("decompress", d, c.name)
			for i := range p {
				if c03Mod(int(p[i])) != ref.Decompress(d, c.v[i]) {
					r.Violation(fmt.Sprintf("C03|common.Poly.Decompress|d=%d|differs from Decompress_d(ByteDecode_d)", d), fmt.Sprintf("decompress/%d/%s", d, c.name),
						fmt.Sprintf("Decompress(d=%d) on %s: coefficient %d (y=%d) = %d, reference %d", d, c.name, i, c.v[i], p[i], ref.Decompress(d, c.v[i])),
						map[string]interface{}{"d": d, "pattern": c.name})
					break
				}
			}
		})
		// every byte value at every byte-position class (a group of 8 coefficients spans d bytes)
		for b := 0; b < 256; b++ {
			for o := 0; o < d; o++ {
				for _, bg := range []byte{0x00, 0xff} {
					m := bytes.Repeat([]byte{bg}, size)
					for i := o; i < size; i += d {
						m[i] = byte(b)
					}
					var p Poly
					p.Decompress(m, d)
					y := ref.ByteDecode(d, m)
					r.Eval(1)
					r.Distinct("decompress-bytes", d, b, o, bg)
					for i := range p {
						if c03Mod(int(p[i])) != ref.Decompress(d, y[i]) {
							r.Violation(fmt.Sprintf("C03|common.Poly.Decompress|d=%d|differs from Decompress_d(ByteDecode_d)", d), fmt.Sprintf("decompress-bytes/%d/%d/%d/%d", d, b, o, bg),
								fmt.Sprintf("Decompress(d=%d), byte %02x at offset class %d in background %02x: coefficient %d = %d, reference %d", d, b, o, bg, i, p[i], ref.Decompress(d, y[i])),
								map[string]interface{}{"d": d, "byte": b, "offset_class": o, "background": bg})
							break
						}
					}
				}
			}
		}
	}

	// d = 1: messages
	verifmc.ParallelFor(len(qCases), func(k int) {
		c := &qCases[k]
		p := c03FromInts(&c.v)
		f := ref.Poly(c.v)
		got := make([]byte, 32)
		p.CompressMessageTo(got)
		cf := ref.CompressPoly(1, &f)
		want := ref.ByteEncode(1, &cf)
		r.Eval(1)
		r.Distinct("compress", 1, c.name)
		if !bytes.Equal(got, want) {
			r.Violation("C03|common.Poly.CompressMessageTo|differs from ByteEncode_1(Compress_1)", "compress/1/"+c.name,
				fmt.Sprintf("CompressMessageTo on %s: %x, reference %x", c.name, got, want), map[string]interface{}{"pattern": c.name})
		}
	})
	for _, s := range []int{1, 37} {
		for c := 0; c < 256; c++ {
			m := make([]byte, 32)
			for i := range m {
				m[i] = byte(c + i*s)
			}
			var p Poly
			p.DecompressMessage(m)
			y := ref.ByteDecode(1, m)
			r.Eval(1)
			r.Distinct("decompress", 1, c, s)
			for i := range p {
				if c03Mod(int(p[i])) != ref.Decompress(1, y[i]) {
					r.Violation("C03|common.Poly.DecompressMessage|differs from Decompress_1(ByteDecode_1)", fmt.Sprintf("decompress/1/%d/%d", c, s),
						fmt.Sprintf("DecompressMessage(%x): coefficient %d = %d, reference %d", m, i, p[i], ref.Decompress(1, y[i])), nil)
					break
				}
			}
		}
	}

	// d = 12: Pack (normalized, tangled input) and Unpack (all 4096 values; output tangled, not normalized)
	verifmc.ParallelFor(len(qCases), func(k int) {
		c := &qCases[k]
		p := c03FromInts(&c.v)
		f := ref.Poly(c.v)
		p.Tangle()
		got := make([]byte, PolySize)
		p.Pack(got)
		want := ref.ByteEncode(12, &f)
		r.Eval(1)
		r.Distinct("pack", c.name)
		if !bytes.Equal(got, want) {
			r.Violation("C03|common.Poly.Pack|differs from ByteEncode_12", "pack/"+c.name,
				fmt.Sprintf("Pack (%s) on %s differs from ByteEncode_12", backend, c.name), map[string]interface{}{"pattern": c.name})
		}
	})
	uCases := c03Collect(4096)
	var exact, inexact int64
	var mu sync.Mutex
	verifmc.ParallelFor(len(uCases), func(k int) {
		c := &uCases[k]
		f := ref.Poly(c.v)
		buf := ref.ByteEncode(12, &f) // 12-bit values up to 4095 are encodable
		var p Poly
		p.Unpack(buf)
		q := p
		q.Detangle()
		r.Eval(1)
		r.Distinct("unpack", c.name)
		ex := true
		for i := range q {
			if int(q[i]) != c.v[i] {
				ex = false
			}
			if c03Mod(int(q[i])) != c.v[i]%c03Q {
				r.Violation("C03|common.Poly.Unpack|differs from ByteDecode_12", "unpack/"+c.name,
					fmt.Sprintf("Unpack (%s) on %s: coefficient %d = %d, encoded value %d", backend, c.name, i, q[i], c.v[i]), map[string]interface{}{"pattern": c.name})
				break
			}
		}
		mu.Lock()
		if ex {
			exact++
		} else {
			inexact++
		}
		mu.Unlock()
		// the modulus-check mechanism: Unpack, Normalize, Pack reproduces the bytes iff all values < q
		p.Normalize()
		re := make([]byte, PolySize)
		p.Pack(re)
		g := ref.ByteDecode(12, buf)
		want := ref.ByteEncode(12, &g)
		r.Eval(1)
		if !bytes.Equal(re, want) {
			r.Violation("C03|common.Poly.Unpack+Normalize+Pack|differs from ByteEncode_12(ByteDecode_12)", "repack/"+c.name,
				fmt.Sprintf("Unpack,Normalize,Pack (%s) on %s differs from ByteEncode_12(ByteDecode_12(.))", backend, c.name), map[string]interface{}{"pattern": c.name})
		}
		if !bytes.Equal(re, buf) {
			r.Count("repack_differs(has value >= q)", 1)
		} else {
			r.Count("repack_identical(all values < q)", 1)
		}
	})
	r.Count("unpack_exact_12bit_values(info)", int(exact))
	r.Count("unpack_reduced_values(info)", int(inexact))
	r.RequireCounter("repack_differs(has value >= q)", 1000)
	r.RequireCounter("repack_identical(all values < q)", 1000)
	r.Sample(map[string]interface{}{"routine": "CompressTo d=4", "pattern": qCases[1].name})
	r.Sample(map[string]interface{}{"routine": "Unpack", "pattern": uCases[len(uCases)-1].name})
	r.Set("patterns_per_domain", map[string]int{"[0,q)": len(qCases), "[0,4096)": len(uCases)})
}
