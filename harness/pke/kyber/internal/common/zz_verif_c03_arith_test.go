//go:build verif

package common

// C03, helper level: complete sweeps of the field helpers (Barrett / Montgomery reduction,
// conditional subtraction, toMont, Normalize) through the scalar functions and through the
// Poly-level entry points (so that the AVX2 routines are swept when they are active), and the
// NTT / InvNTT / MulHat / Tangle / Detangle routines against the literal FIPS 203 algorithms of
// /verif/ref/mlkem and against schoolbook multiplication in Z_q[X]/(X^256+1).

import (
	"fmt"
	"strconv"
	"sync/atomic"
	"testing"

	"github.com/cloudflare/circl/internal/verifmc"
	ref "github.com/cloudflare/circl/internal/verifref/mlkem"
)

const c03Q = int(Q)

func c03Mod(a int) int {
	a %= c03Q
	if a < 0 {
		a += c03Q
	}
	return a
}

// c03MulR returns x * 2^16 mod q without leaving 32-bit int range (the harness also runs with GOARCH=386).
func c03MulR(x int) int { return c03Mod(x) * (65536 % c03Q) % c03Q }

// c03Small reports a 32-bit int (GOARCH=386 configuration): the heaviest sweeps are narrowed there.
const c03Small = strconv.IntSize == 32

// c03Backend tells which back-end the Poly methods dispatch to in this process.
func c03Backend() string {
	var p Poly
	for i := range p {
		p[i] = int16(i)
	}
	q := p
	q.Tangle()
	if q != p {
		return "avx2"
	}
	return "generic"
}

func c03ToRef(p *Poly) ref.Poly {
	var f ref.Poly
	for i := range p {
		f[i] = c03Mod(int(p[i]))
	}
	return f
}

func c03FromInts(v *[256]int) Poly {
	var p Poly
	for i := range v {
		p[i] = int16(v[i])
	}
	return p
}

// c03Arrange returns the two lane arrangements used to push all 2^16 int16 values through a
// 256-lane routine: block b of arrangement 0 holds the consecutive values 256b..256b+255, block b
// of arrangement 1 holds the values with low byte b (so every lane sees every high byte).
func c03Arrange(arr, b, lane int) int16 {
	if arr == 0 {
		return int16(uint16(256*b + lane))
	}
	return int16(uint16(256*lane + b))
}

func TestVerifC03_reductions(t *testing.T) {
	r := verifmc.Start(t, "C03", "reductions")
	defer r.Finish()
	backend := c03Backend()
	r.Set("backend", backend)
	r.Rule("complete domain sweeps: barrettReduce, csubq, toMont, Poly.BarrettReduce/Normalize/ToMont on all 2^16 int16 values (Poly routines in two lane arrangements), " +
		"montReduce on its whole documented domain [-2^15 q, 2^15 q) (quick) and on all 2^32 int32 values (thorough; judged inside the documented domain only), " +
		"Poly.Add/Sub on all 2^16 x 16 boundary operands; non-trivial = one per (routine, input value) for 16-bit domains, one per (montReduce, 2^16-block) for the 32-bit domain")

	// --- scalar barrettReduce, csubq, toMont: all 2^16 inputs
	for x := -32768; x <= 32767; x++ {
		y := int(barrettReduce(int16(x)))
		r.Eval(1)
		r.Distinct("barrettReduce", x)
		if y < 0 || y > c03Q || c03Mod(y-x) != 0 {
			sign := "x>=0"
			if x < 0 {
				sign = "x<0"
			}
			r.Violation("C03|common.barrettReduce|result not in [0,q] or not congruent|"+sign, fmt.Sprintf("barrettReduce/%d", x),
				fmt.Sprintf("barrettReduce(%d) = %d; contract: 0 <= y <= q and y = x mod q (x mod q = %d)", x, y, c03Mod(x)), map[string]int{"x": x})
		}
		if y == c03Q {
			r.Count("barrettReduce_returns_q", 1)
		}
		if x >= -29439 {
			z := int(csubq(int16(x)))
			want := x
			if x >= c03Q {
				want = x - c03Q
			}
			r.Eval(1)
			r.Distinct("csubq", x)
			if z != want {
				r.Violation("C03|common.csubq|wrong value on documented domain", fmt.Sprintf("csubq/%d", x),
					fmt.Sprintf("csubq(%d) = %d, want %d", x, z, want), map[string]int{"x": x})
			}
		}
		m := int(toMont(int16(x)))
		r.Eval(1)
		r.Distinct("toMont", x)
		if m <= -c03Q || m >= c03Q || c03Mod(m-c03MulR(x)) != 0 {
			r.Violation("C03|common.toMont|not x*2^16 mod q in (-q,q)", fmt.Sprintf("toMont/%d", x),
				fmt.Sprintf("toMont(%d) = %d; want value in (-q,q) congruent to %d", x, m, c03MulR(x)), map[string]int{"x": x})
		}
		// the composition used everywhere before packing
		n := int(csubq(barrettReduce(int16(x))))
		r.Eval(1)
		if n != c03Mod(x) {
			r.Violation("C03|common.csubq(barrettReduce)|not the canonical residue", fmt.Sprintf("normalize/%d", x),
				fmt.Sprintf("csubq(barrettReduce(%d)) = %d, want %d", x, n, c03Mod(x)), map[string]int{"x": x})
		}
	}
	r.Sample(map[string]interface{}{"routine": "barrettReduce", "x": -3329, "y": int(barrettReduce(-3329)), "note": "documented: q is returned for negative multiples of q"})

	// --- Poly-level: BarrettReduce, Normalize, ToMont on all 2^16 values in two lane arrangements
	for arr := 0; arr < 2; arr++ {
		for b := 0; b < 256; b++ {
			var in, p Poly
			for i := range in {
				in[i] = c03Arrange(arr, b, i)
			}
			p = in
			p.BarrettReduce()
			for i := range p {
				x, y := int(in[i]), int(p[i])
				r.Eval(1)
				r.Distinct("Poly.BarrettReduce", arr, x)
				if y < 0 || y > c03Q || c03Mod(y-x) != 0 {
					r.Violation("C03|common.Poly.BarrettReduce|result not in [0,q] or not congruent", fmt.Sprintf("PolyBarrett/%d/%d/%d", arr, b, i),
						fmt.Sprintf("Poly.BarrettReduce (%s): lane %d: %d -> %d; contract 0 <= y <= q, y = x mod q", backend, i, x, y), map[string]int{"x": x, "lane": i, "arrangement": arr})
				}
			}
			p = in
			p.Normalize()
			for i := range p {
				x, y := int(in[i]), int(p[i])
				r.Eval(1)
				r.Distinct("Poly.Normalize", arr, x)
				if y != c03Mod(x) {
					r.Violation("C03|common.Poly.Normalize|not the canonical residue", fmt.Sprintf("PolyNormalize/%d/%d/%d", arr, b, i),
						fmt.Sprintf("Poly.Normalize (%s): lane %d: %d -> %d, want %d", backend, i, x, y, c03Mod(x)), map[string]int{"x": x, "lane": i, "arrangement": arr})
				}
			}
			p = in
			p.ToMont()
			for i := range p {
				x, y := int(in[i]), int(p[i])
				r.Eval(1)
				r.Distinct("Poly.ToMont", arr, x)
				if y <= -c03Q || y >= c03Q || c03Mod(y-c03MulR(x)) != 0 {
					r.Violation("C03|common.Poly.ToMont|not x*2^16 mod q in (-q,q)", fmt.Sprintf("PolyToMont/%d/%d/%d", arr, b, i),
						fmt.Sprintf("Poly.ToMont: lane %d: %d -> %d", i, x, y), map[string]int{"x": x, "lane": i})
				}
			}
		}
	}

	// --- Poly.Add / Poly.Sub: all 2^16 first operands x 16 boundary second operands; demanded
	// only when the exact sum/difference fits in int16 ("does not normalize" = plain integer add).
	bnd := []int{0, 1, -1, c03Q, -c03Q, 2 * c03Q, 1664, 32767, -32768, 255, 256, -256, 4095, -4096, 16384, -16384}
	verifmc.ParallelFor(256, func(b int) {
		for _, bv := range bnd {
			var a, c, s, d Poly
			for i := range a {
				a[i] = c03Arrange(0, b, i)
				c[i] = int16(bv)
			}
			s.Add(&a, &c)
			d.Sub(&a, &c)
			r.Eval(512)
			for i := range a {
				ws, wd := int(a[i])+bv, int(a[i])-bv
				if ws >= -32768 && ws <= 32767 && int(s[i]) != ws {
					r.Violation("C03|common.Poly.Add|wrong sum", fmt.Sprintf("Add/%d/%d", a[i], bv),
						fmt.Sprintf("Poly.Add (%s): %d + %d = %d", backend, a[i], bv, s[i]), map[string]int{"a": int(a[i]), "b": bv, "lane": i})
				}
				if wd >= -32768 && wd <= 32767 && int(d[i]) != wd {
					r.Violation("C03|common.Poly.Sub|wrong difference", fmt.Sprintf("Sub/%d/%d", a[i], bv),
						fmt.Sprintf("Poly.Sub (%s): %d - %d = %d", backend, a[i], bv, d[i]), map[string]int{"a": int(a[i]), "b": bv, "lane": i})
				}
			}
		}
		r.Distinct("Poly.Add/Sub block", b)
	})

	// --- montReduce: documented domain -2^15 q <= x < 2^15 q: -q < y < q, y 2^16 = x (mod q)
	lo, hi := -32768*int64(c03Q), 32768*int64(c03Q)
	firstBlock, lastBlock := int(lo>>16), int((hi-1)>>16)
	if r.Thorough() && !c03Small {
		firstBlock, lastBlock = -32768, 32767
	}
	var inDom, outOK, outBad atomic.Int64
	nBlocks := lastBlock - firstBlock + 1
	verifmc.ParallelFor(nBlocks, func(bi int) {
		blk := int64(firstBlock + bi)
		var in, ok, bad int64
		for l := int64(0); l < 65536; l++ {
			x := blk<<16 | l
			y := int64(montReduce(int32(x)))
			good := y > -int64(c03Q) && y < int64(c03Q) && (y*65536-x)%int64(c03Q) == 0
			if x >= lo && x < hi {
				in++
				if !good {
					sign := "x>=0"
					if x < 0 {
						sign = "x<0"
					}
					r.Violation("C03|common.montReduce|not x*2^-16 mod q in (-q,q) on documented domain|"+sign, fmt.Sprintf("montReduce/%d", x),
						fmt.Sprintf("montReduce(%d) = %d; contract: -q < y < q and y*2^16 = x mod q", x, y), map[string]int64{"x": x})
				}
			} else if good {
				ok++
			} else {
				bad++
			}
		}
		inDom.Add(in)
		outOK.Add(ok)
		outBad.Add(bad)
		r.Eval(65536)
		r.Distinct("montReduce block", blk)
	})
	r.Count("montReduce_domain_points", int(inDom.Load()))
	r.Count("montReduce_outside_domain_contract_holds(info)", int(outOK.Load()))
	r.Count("montReduce_outside_domain_contract_fails(info, not demanded)", int(outBad.Load()))
	r.RequireCounter("montReduce_domain_points", 65536*int64(c03Q))
	r.Set("montReduce_swept", map[string]interface{}{"first_block": firstBlock, "last_block": lastBlock, "values": int64(nBlocks) * 65536})
	if !r.Thorough() || c03Small {
		r.Set("montReduce_note", "quick tier sweeps exactly the documented domain (2^16*q values); thorough sweeps all 2^32")
	}
}

// c03NTTDesc describes one input polynomial of the NTT/InvNTT sweep (materialised on demand).
type c03NTTDesc struct {
	kind uint8 // 0: e_a * b   1: constant a with sign pattern of period 2^b (b = -1: none)   2: SHAKE-derived #a
	a, b int32
}

func (d c03NTTDesc) build() (name string, p [256]int) {
	switch d.kind {
	case 0:
		p[d.a] = int(d.b)
		return fmt.Sprintf("e%d*%d", d.a, d.b), p
	case 1:
		for i := range p {
			p[i] = int(d.a)
			if d.b >= 0 && (i>>uint(d.b))&1 == 1 {
				p[i] = -int(d.a)
			}
		}
		return fmt.Sprintf("dense c=%d period=%d", d.a, d.b), p
	default:
		b := verifmc.Shake(fmt.Sprintf("c03-ntt-%d", d.a), 512)
		for i := range p {
			p[i] = (int(b[2*i])|int(b[2*i+1])<<8)%(2*c03Q+1) - c03Q
		}
		return fmt.Sprintf("shake%d", d.a), p
	}
}

// c03NTTInputs enumerates the polynomials (coefficients |c| <= q, the documented input bound of NTT
// and InvNTT) that are pushed through NTT and InvNTT.
func c03NTTInputs(thorough bool) (out []c03NTTDesc) {
	vals := []int{1, 2, 1664, 1665, c03Q - 1, c03Q, -1, -1664, -c03Q + 1, -c03Q}
	if thorough {
		vals = vals[:0]
		for v := -c03Q; v <= c03Q; v++ {
			if v != 0 {
				vals = append(vals, v)
			}
		}
	}
	for i := 0; i < 256; i++ {
		for _, v := range vals {
			out = append(out, c03NTTDesc{0, int32(i), int32(v)})
		}
	}
	// dense: constant polynomials and sign patterns of every period 2^j
	for c := -c03Q; c <= c03Q; c++ {
		for j := -1; j < 8; j++ {
			if j >= 0 && !thorough && c != c03Q && c != -c03Q && c != c03Q-1 && c != 1664 && c != 1 {
				continue
			}
			out = append(out, c03NTTDesc{1, int32(c), int32(j)})
		}
	}
	// dense pseudo-random (SHAKE256) coefficients in [-q, q]
	n := 512
	if thorough {
		n = 8192
	}
	for k := 0; k < n; k++ {
		out = append(out, c03NTTDesc{2, int32(k), 0})
	}
	return out
}

func c03AtomicMaxAbs(m *atomic.Int64, v int64) {
	if v < 0 {
		v = -v
	}
	for {
		old := m.Load()
		if v <= old || m.CompareAndSwap(old, v) {
			return
		}
	}
}

func TestVerifC03_ntt(t *testing.T) {
	r := verifmc.Start(t, "C03", "ntt")
	defer r.Finish()
	backend := c03Backend()
	r.Set("backend", backend)
	r.Rule("NTT and InvNTT on every basis monomial e_i*v (quick: 10 boundary v, thorough: all v in [-q,q]), all constant polynomials and sign patterns, " +
		"and SHAKE-derived dense polynomials, compared coefficient-wise mod q with FIPS 203 Algorithms 9/10; MulHat on every 4-tuple of a 12-value boundary " +
		"alphabet in every slot against Algorithm 11/12; the product pipeline NTT,MulHat,InvNTT on all basis pairs (e_i*v, e_j*w), i,j<256, v,w in {1,2,(q-1)/2,q-1} " +
		"against the exact product in Z_q[X]/(X^256+1); non-trivial = each distinct input polynomial (pair)")
	r.NotExhaustive("NTT/InvNTT/MulHat inputs are a declared sub-alphabet (basis, constant, sign-pattern, SHAKE-derived), not all of Z_q^256")

	R := 65536 % c03Q
	Rinv := 0
	for x := 1; x < c03Q; x++ {
		if x*R%c03Q == 1 {
			Rinv = x
		}
	}

	inputs := c03NTTInputs(r.Thorough())
	r.Set("ntt_inputs", len(inputs))
	var maxNTT, maxInv atomic.Int64
	verifmc.ParallelFor(len(inputs), func(k int) {
		var x struct {
			name string
			v    [256]int
		}
		x.name, x.v = inputs[k].build()
		p := c03FromInts(&x.v)
		f := c03ToRef(&p)
		// forward: standard order in, tangled out
		q := p
		q.NTT()
		q.Detangle()
		want := ref.NTT(f)
		r.Eval(1)
		for i := range q {
			c03AtomicMaxAbs(&maxNTT, int64(q[i]))
			if c03Mod(int(q[i])) != want[i] {
				r.Violation("C03|common.Poly.NTT|differs from FIPS 203 Algorithm 9", "ntt/"+x.name,
					fmt.Sprintf("Poly.NTT (%s) on %s: coefficient %d = %d (mod q: %d), reference %d", backend, x.name, i, q[i], c03Mod(int(q[i])), want[i]),
					map[string]interface{}{"input": x.name})
				break
			}
		}
		// inverse: the same coefficient vector read as an NTT-domain element in standard order
		q = p
		q.Tangle()
		q.InvNTT()
		wantInv := ref.NTTInv(f)
		r.Eval(1)
		for i := range q {
			c03AtomicMaxAbs(&maxInv, int64(q[i]))
			if c03Mod(int(q[i])) != wantInv[i]*R%c03Q {
				r.Violation("C03|common.Poly.InvNTT|differs from 2^16 * FIPS 203 Algorithm 10", "invntt/"+x.name,
					fmt.Sprintf("Poly.InvNTT (%s) on %s: coefficient %d = %d (mod q: %d), reference %d", backend, x.name, i, q[i], c03Mod(int(q[i])), wantInv[i]*R%c03Q),
					map[string]interface{}{"input": x.name})
				break
			}
		}
		// Tangle / Detangle are mutually inverse
		q = p
		q.Tangle()
		q.Detangle()
		if q != p {
			r.Violation("C03|common.Poly.Detangle|Detangle(Tangle(p)) != p", "tangle/"+x.name, "Detangle(Tangle(p)) != p on "+x.name, nil)
		}
		r.Distinct("ntt-input", x.name)
		if k == 0 {
			r.Sample(map[string]interface{}{"routine": "NTT/InvNTT", "input": x.name})
		}
	})
	r.Set("max_abs_coefficient_after_NTT(info)", maxNTT.Load())
	r.Set("max_abs_coefficient_after_InvNTT(info)", maxInv.Load())
	r.Count("ntt_inputs", len(inputs))

	// --- MulHat: every 4-tuple (a0,a1,b0,b1) of the boundary alphabet in all 128 slots at once,
	// plus each tuple in one slot with a different tuple elsewhere (slot independence).
	V := []int{0, 1, 2, 1664, 1665, c03Q - 1, c03Q, -1, -1664, -c03Q + 1, -c03Q, 2 * c03Q}
	nV := len(V)
	total := nV * nV * nV * nV
	verifmc.ParallelFor(total, func(k int) {
		a0, a1, b0, b1 := V[k%nV], V[k/nV%nV], V[k/nV/nV%nV], V[k/nV/nV/nV]
		k2 := (k*7919 + 13) % total
		c0, c1, d0, d1 := V[k2%nV], V[k2/nV%nV], V[k2/nV/nV%nV], V[k2/nV/nV/nV]
		for variant := 0; variant < 2; variant++ {
			var a, b [256]int
			for s := 0; s < 128; s++ {
				if variant == 0 || s == k%128 {
					a[2*s], a[2*s+1], b[2*s], b[2*s+1] = a0, a1, b0, b1
				} else {
					a[2*s], a[2*s+1], b[2*s], b[2*s+1] = c0, c1, d0, d1
				}
			}
			pa, pb := c03FromInts(&a), c03FromInts(&b)
			fa, fb := c03ToRef(&pa), c03ToRef(&pb)
			pa.Tangle()
			pb.Tangle()
			var p Poly
			p.MulHat(&pa, &pb)
			p.Detangle()
			want := ref.MultiplyNTTs(fa, fb)
			r.Eval(1)
			for i := range p {
				if c03Mod(int(p[i])) != want[i]*Rinv%c03Q {
					r.Violation("C03|common.Poly.MulHat|differs from 2^-16 * FIPS 203 Algorithm 11", fmt.Sprintf("mulhat/%d/%d", k, variant),
						fmt.Sprintf("Poly.MulHat (%s): slot %d operands a=(%d,%d) b=(%d,%d): coefficient %d = %d (mod q %d), reference %d",
							backend, i/2, a[i&^1], a[i|1], b[i&^1], b[i|1], i, p[i], c03Mod(int(p[i])), want[i]*Rinv%c03Q),
						map[string]interface{}{"a0": a0, "a1": a1, "b0": b0, "b1": b1, "variant": variant})
					break
				}
			}
		}
		r.Distinct("mulhat", k)
	})
	r.Count("mulhat_tuples", total)

	// --- product pipeline on all basis pairs, mimicking cpapke: NTT; reduce; MulHat; BarrettReduce; InvNTT; Normalize
	W := []int{1, 2, (c03Q - 1) / 2, c03Q - 1}
	verifmc.ParallelFor(256*256, func(ij int) {
		i, j := ij/256, ij%256
		for _, v := range W {
			for _, w := range W {
				var pa, pb, p Poly
				pa[i] = int16(v)
				pb[j] = int16(w)
				pa.NTT()
				pa.BarrettReduce()
				pb.NTT()
				pb.Normalize()
				p.MulHat(&pa, &pb)
				p.BarrettReduce()
				p.InvNTT()
				p.Normalize()
				var want Poly
				pos, val := i+j, v*w%c03Q
				if pos >= 256 {
					pos -= 256
					val = c03Mod(-val)
				}
				want[pos] = int16(val)
				r.Eval(1)
				if p != want {
					r.Violation("C03|common.Poly.NTT+MulHat+InvNTT|product differs from Z_q[X]/(X^256+1)", fmt.Sprintf("prod/%d/%d/%d/%d", i, j, v, w),
						fmt.Sprintf("(%d X^%d)*(%d X^%d) via NTT,MulHat,InvNTT (%s) != %d X^%d", v, i, w, j, backend, val, pos),
						map[string]int{"i": i, "j": j, "v": v, "w": w})
				}
			}
		}
		r.Distinct("prod", ij)
	})
	r.Count("basis_pair_products", 256*256*len(W)*len(W))
	r.Sample(map[string]interface{}{"routine": "NTT,MulHat,InvNTT", "case": "(3328 X^255)*(3328 X^255)", "expected": "-(3328^2) X^254"})
}
