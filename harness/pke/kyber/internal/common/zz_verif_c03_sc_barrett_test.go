//go:build verif

package common

// C03: complete sweep of the unexported scalar helper barrettReduce (a file of its own: a rename costs exactly this sweep).

import (
	"fmt"
	"testing"

	"github.com/cloudflare/circl/internal/verifmc"
)

func TestVerifC03_reductions_barrettReduce(t *testing.T) {
	r := verifmc.Start(t, "C03", "reductions_barrettReduce")
	defer r.Finish()
	r.Rule("barrettReduce (unexported scalar helper) on all 2^16 int16 inputs: 0 <= y <= q and y = x mod q; non-trivial = one per input value")
	for x := -32768; x <= 32767; x++ {
		y := int(barrettReduce(int16(x)))
		r.Eval(1)
		r.Distinct("barrettReduce", x)
		if y < 0 || y > c03Q || c03Mod(y-x) != 0 {
			sign := "x>=0"
			if x < 0 {
				sign = "x<0"
			}
			r.Violation("C03|common.barrettReduce|result not in [0,q] or not congruent|"+sign, fmt.Sprintf("barrettReduce/%d", x),
				fmt.Sprintf("barrettReduce(%d) = %d; contract: 0 <= y <= q and y = x mod q (x mod q = %d)", x, y, c03Mod(x)), map[string]int{"x": x})
		}
		if y == c03Q {
			r.Count("barrettReduce_returns_q", 1)
		}
	}
	r.Sample(map[string]interface{}{"routine": "barrettReduce", "x": -3329, "y": int(barrettReduce(-3329)), "note": "documented: q is returned for negative multiples of q"})
}
