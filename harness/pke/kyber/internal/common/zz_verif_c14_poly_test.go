//go:build verif

package common

// C14 for the Kyber / ML-KEM polynomial layer: every Poly method that has an AVX2 routine (Add, Sub,
// NTT, InvNTT, MulHat, Tangle, Detangle, BarrettReduce, Normalize) plus Pack/Unpack and the samplers,
// on a fixed alphabet of polynomials, under each configuration. The AVX2 NTT keeps coefficients in a
// private ("tangled") order and both NTTs leave coefficients only partially reduced, so results in
// the NTT domain are observed the way the schemes observe them: Normalize, then Pack (which
// detangles); results in the regular domain are observed as normalized coefficients.
// Documented preconditions (|c| <= q before NTT/InvNTT, Montgomery operands of MulHat) are respected.

import (
	"encoding/binary"
	"fmt"
	"testing"

	"github.com/cloudflare/circl/internal/verifc14"
	"github.com/cloudflare/circl/internal/verifmc"
)

func c14Raw(p *Poly) []byte {
	b := make([]byte, 2*N)
	for i, v := range p {
		binary.LittleEndian.PutUint16(b[2*i:], uint16(v))
	}
	return b
}

// c14Hat observes a polynomial in the NTT domain (tangled order on AVX2).
func c14Hat(p *Poly) []byte {
	q := *p
	q.Normalize()
	buf := make([]byte, PolySize)
	q.Pack(buf)
	return buf
}

// c14Reg observes a polynomial in the regular domain.
func c14Reg(p *Poly) []byte {
	q := *p
	q.Normalize()
	return c14Raw(&q)
}

type c14P struct {
	name string
	p    Poly
}

func c14Polys(thorough bool) []c14P {
	var out []c14P
	add := func(name string, f func(i int) int16) {
		var p Poly
		for i := range p {
			p[i] = f(i)
		}
		out = append(out, c14P{name, p})
	}
	q := int16(Q)
	for _, v := range []int16{0, 1, -1, q, -q, q - 1, 1 - q, q / 2, -q / 2} {
		v := v
		add(fmt.Sprintf("const%d", v), func(int) int16 { return v })
	}
	add("alt+q-q", func(i int) int16 { return q - 2*q*int16(i&1) })
	add("alt-q+q/pairs", func(i int) int16 { return -q + 2*q*int16((i>>1)&1) })
	for _, k := range []int{1, 7, 13, 255, 1665} {
		k := k
		add(fmt.Sprintf("ramp%d", k), func(i int) int16 { return int16((i*k)%(2*int(Q)+1)) - q })
	}
	step := 8
	if thorough {
		step = 1
	}
	for i := 0; i < N; i++ {
		if i%step != 0 && i != N-1 && i != 1 {
			continue
		}
		for _, v := range []int16{1, q, -q} {
			i, v := i, v
			add(fmt.Sprintf("e%d*%d", i, v), func(j int) int16 {
				if j == i {
					return v
				}
				return 0
			})
		}
	}
	for k := 0; k < 8; k++ {
		s := verifmc.Shake(fmt.Sprintf("c14-kyber-poly-%d", k), 2*N)
		add(fmt.Sprintf("pseudo%d", k), func(i int) int16 {
			return int16(int(binary.LittleEndian.Uint16(s[2*i:]))%(2*int(Q)+1)) - q
		})
	}
	return out
}

// hooks installed by zz_verif_c14_x4_test.go (nil when that file does not build against the tree under test)
var (
	c14X4Available func() bool
	c14DeriveX4    func(ps [4]*Poly, seed *[32]byte, xs, ys [4]uint8)
)

func TestVerifC14_kyber_poly(t *testing.T) {
	c := verifc14.Start(t, "kyber_poly")
	c.Backend("pke/kyber/internal/common: cpu.X86.HasAVX2", c14Backend(), verifc14.Avx2Sel)
	// the four-way sampler and its switch are reached through hooks installed by zz_verif_c14_x4_test.go, the only
	// C14 file of this directory that names DeriveX4Available / PolyDeriveUniformX4: if they are renamed, that file
	// is left out, the switch is recorded as not observed and the in-process X4 comparison is skipped.
	x4Available := c14X4Available != nil && c14X4Available()
	var readX4 func() string
	if c14X4Available != nil {
		readX4 = func() string {
			if c14X4Available() {
				return "x4-path"
			}
			return "scalar-path"
		}
	}
	c.BackendOptional("pke/kyber/internal/common.DeriveX4Available", readX4, func(f verifc14.Features) string {
		if f.AVX2 { // keccakf1600.IsEnabledX4() is cpu.X86.HasAVX2 in every build, also purego
			return "x4-path"
		}
		return "scalar-path"
	})
	r := c.R
	polys := c14Polys(r.Thorough())
	key := append(append([]c14P{}, polys[:16]...), polys[len(polys)-8:]...)
	r.Set("polynomials", len(polys))
	r.Set("key_polynomials", len(key))
	r.Rule("polynomials with |c| <= q: constants {0,+-1,+-q,+-(q-1),+-q/2}, alternating +-q, ramps, unit vectors e_i * {1,q,-q} (every 8th i in the quick tier, all 256 in the thorough tier), 8 SHAKE polynomials; " +
		"per polynomial: NTT, InvNTT(Normalize(NTT)), Tangle/Detangle round trips, Pack/Unpack; MulHat / Add / Sub against every key polynomial; " +
		"BarrettReduce and Normalize on every int16 value at every residue of the coefficient index mod 16 (complete per-coefficient domain); Unpack of every 12-bit value; " +
		"DeriveNoise2/3, DeriveUniform and (when available) PolyDeriveUniformX4 on SEEDS(32) x nonce/coordinate alphabets; " +
		"rejection-sampling boundaries of DeriveUniform: 1024 streams (fixed seed, x<64, y<16) are classified by an independent Parse(SHAKE128) scan; every stream that needs a fourth SHAKE block and the first 6 (24 thorough) " +
		"with a 12-bit candidate equal to q, equal to q-1, or with an acceptable second candidate dropped after the 256th coefficient go through DeriveUniform (cross-configuration) and, where the four-way sampler exists, through it in each lane position (in-process)")
	r.NotExhaustive("declared polynomial alphabet; the per-coefficient sweeps of BarrettReduce/Normalize/Unpack are complete")

	hats := make([]Poly, len(key)) // NTT of the key polynomials, normalized: legal MulHat operands
	for i := range key {
		hats[i] = key[i].p
		hats[i].NTT()
		hats[i].Normalize()
	}
	seeds := verifmc.Seeds(32, r.Seed())
	type job struct {
		kind string
		i    int
	}
	var jobs []job
	for i := range polys {
		jobs = append(jobs, job{"poly", i})
	}
	for i := 0; i < 256; i++ {
		jobs = append(jobs, job{"int16", i})
	}
	for i := 0; i < 16; i++ {
		jobs = append(jobs, job{"unpack", i})
	}
	for i := range seeds {
		jobs = append(jobs, job{"sample", i})
	}
	// Rejection-sampling boundaries of Parse: an independent scan (x/crypto SHAKE-128) of the streams (bseed, x, y),
	// x < 64, y < 16, classifies each stream; the first few of every rare class go through the transcript and, where the
	// four-way sampler exists, through it in every lane position next to ordinary streams.
	var bseed [32]byte
	copy(bseed[:], verifmc.Shake("c14-kyber-uniform-boundary", 32))
	type bstream struct {
		x, y  uint8
		class string
	}
	var bounds []bstream
	var ordinary [][2]uint8
	perClass := map[string]int{}
	for x := 0; x < 64; x++ {
		for y := 0; y < 16; y++ {
			_, eq, eqm1, blocks, drop := verifc14.KyberUniform(bseed[:], uint8(x), uint8(y))
			cls := ""
			switch {
			case blocks >= 4:
				cls = "four-blocks"
			case eq > 0 && eqm1 > 0:
				cls = "cand=q+cand=q-1"
			case eq > 0:
				cls = "cand=q"
			case eqm1 > 0:
				cls = "cand=q-1"
			case drop:
				cls = "valid-second-candidate-dropped"
			}
			if cls == "" {
				if len(ordinary) < 3 {
					ordinary = append(ordinary, [2]uint8{uint8(x), uint8(y)})
				}
				continue
			}
			limit := r.Pick(6, 24)
			if cls == "four-blocks" {
				limit = 1 << 20 // all of them
			}
			if perClass[cls] < limit {
				perClass[cls]++
				bounds = append(bounds, bstream{uint8(x), uint8(y), cls})
			}
		}
	}
	r.Set("uniform_boundary_streams", perClass)
	for i := range bounds {
		jobs = append(jobs, job{"boundary", i})
	}
	verifmc.ParallelFor(len(jobs), func(ji int) {
		j := jobs[ji]
		switch j.kind {
		case "poly":
			P := polys[j.i]
			c.Case("NTT#"+P.name, func(d *verifc14.D) {
				a := P.p
				a.NTT()
				d.Bytes("ntt", c14Hat(&a))
				a.Normalize()
				b := a
				b.InvNTT()
				d.Bytes("invntt", c14Reg(&b))
				b = a
				b.BarrettReduce()
				d.Bytes("barrett", c14Hat(&b))
				// Tangle/Detangle are inverse bijections of the coefficient positions in every back-end
				t1 := P.p
				t1.Tangle()
				t1.Detangle()
				d.Bytes("detangle(tangle)", c14Raw(&t1))
				t1 = P.p
				t1.Detangle()
				t1.Tangle()
				d.Bytes("tangle(detangle)", c14Raw(&t1))
				// Pack of the normalized NTT image and Unpack of that string
				buf := make([]byte, PolySize)
				a.Pack(buf)
				var u Poly
				u.Unpack(buf)
				d.Bytes("unpack(pack)", c14Hat(&u))
				d.Exec(9)
			})
			c.Case("MulHat#"+P.name, func(d *verifc14.D) {
				a := P.p
				a.NTT()
				a.Normalize()
				for k := range hats {
					var m Poly
					m.MulHat(&a, &hats[k])
					d.Bytes(key[k].name, c14Hat(&m))
					m.Normalize()
					m.InvNTT()
					d.Bytes(key[k].name+".inv", c14Reg(&m))
					d.Exec(2)
				}
				// in place: p = p * b, p = a * p
				m := a
				m.MulHat(&m, &hats[1])
				d.Bytes("inplace-a", c14Hat(&m))
				m = a
				m.MulHat(&hats[1], &m)
				d.Bytes("inplace-b", c14Hat(&m))
			})
			c.Case("AddSub#"+P.name, func(d *verifc14.D) {
				for k := range key {
					var s, df Poly
					s.Add(&P.p, &key[k].p)
					df.Sub(&P.p, &key[k].p)
					d.Bytes(key[k].name+".add", c14Raw(&s)) // no reduction involved: raw coefficients
					d.Bytes(key[k].name+".sub", c14Raw(&df))
					d.Exec(2)
				}
				s := P.p
				s.Add(&s, &s)
				d.Bytes("add-inplace", c14Raw(&s))
				s = P.p
				s.Sub(&s, &key[3].p)
				d.Bytes("sub-inplace", c14Raw(&s))
			})
		case "int16":
			// coefficient k holds the value base+k; all 65536 values appear, each at index (value mod 256)
			c.Case(fmt.Sprintf("Reduce#int16-block%d", j.i), func(d *verifc14.D) {
				var p Poly
				for k := range p {
					p[k] = int16(uint16(j.i*256 + k))
				}
				a := p
				a.BarrettReduce()
				d.Bytes("barrett", c14Raw(&a))
				a = p
				a.Normalize()
				d.Bytes("normalize", c14Raw(&a))
				// the same values rotated so that each lands on another lane of the vector registers
				for _, rot := range []int{1, 5, 9, 15} {
					var pr Poly
					for k := range pr {
						pr[(k+rot)%N] = p[k]
					}
					a = pr
					a.BarrettReduce()
					d.Bytes(fmt.Sprintf("barrett.rot%d", rot), c14Raw(&a))
					a = pr
					a.Normalize()
					d.Bytes(fmt.Sprintf("normalize.rot%d", rot), c14Raw(&a))
				}
				d.Exec(10)
			})
		case "unpack":
			c.Case(fmt.Sprintf("Unpack#12bit-block%d", j.i), func(d *verifc14.D) {
				buf := make([]byte, PolySize)
				for k := 0; k < 128; k++ {
					t0, t1 := uint16(j.i*256+2*k), uint16(j.i*256+2*k+1)
					buf[3*k] = byte(t0)
					buf[3*k+1] = byte(t0>>8) | byte(t1<<4)
					buf[3*k+2] = byte(t1 >> 4)
				}
				var p Poly
				p.Unpack(buf)
				out := make([]byte, PolySize)
				p.Pack(out) // values < 4096 survive Pack unchanged; Pack detangles
				d.Bytes("pack(unpack)", out)
				d.Bytes("normalized", c14Hat(&p))
				d.Exec(2)
			})
		case "boundary":
			b := bounds[j.i]
			c.Case(fmt.Sprintf("DeriveUniform-boundary#%s/x=%d/y=%d", b.class, b.x, b.y), func(d *verifc14.D) {
				var p Poly
				p.DeriveUniform(&bseed, b.x, b.y)
				d.Bytes("uniform", c14Hat(&p))
				d.Exec(1)
				r.Count("boundary_streams/"+b.class, 1)
				// bind the scanner: Parse transcribed from the specification gives the same polynomial
				coef, _, _, _, _ := verifc14.KyberUniform(bseed[:], b.x, b.y)
				var want Poly
				copy(want[:], coef[:])
				want.Tangle()
				if string(c14Hat(&want)) != string(c14Hat(&p)) {
					r.Violation("C14|kyber.DeriveUniform|differs-from-independent-Parse|"+c14Backend(), fmt.Sprintf("DeriveUniform-boundary#%s/x=%d/y=%d", b.class, b.x, b.y),
						fmt.Sprintf("DeriveUniform(boundary seed, %d, %d) [%s] differs from Parse(SHAKE128) computed with x/crypto", b.x, b.y, b.class), nil)
				}
				if x4Available && len(ordinary) == 3 {
					for lane := 0; lane < 4; lane++ { // the boundary stream in each lane, ordinary streams in the others
						var ps [4]Poly
						var xs, ys [4]uint8
						o := 0
						for k := 0; k < 4; k++ {
							if k == lane {
								xs[k], ys[k] = b.x, b.y
							} else {
								xs[k], ys[k] = ordinary[o][0], ordinary[o][1]
								o++
							}
						}
						c14DeriveX4([4]*Poly{&ps[0], &ps[1], &ps[2], &ps[3]}, &bseed, xs, ys)
						for k := 0; k < 4; k++ {
							var q Poly
							q.DeriveUniform(&bseed, xs[k], ys[k])
							if string(c14Hat(&q)) != string(c14Hat(&ps[k])) {
								r.Violation("C14|kyber.PolyDeriveUniformX4|differs-from-DeriveUniform|"+c14Backend(), fmt.Sprintf("DeriveUniform-boundary#%s/x=%d/y=%d", b.class, b.x, b.y),
									fmt.Sprintf("PolyDeriveUniformX4 lane %d differs from DeriveUniform(boundary seed, %d, %d) with the %s stream in lane %d", k, xs[k], ys[k], b.class, lane), nil)
							}
							r.Count("x4_lanes_compared", 1)
						}
					}
					// and four boundary streams together (consecutive ones of the list)
					var ps [4]Poly
					var xs, ys [4]uint8
					for k := 0; k < 4; k++ {
						bb := bounds[(j.i+k)%len(bounds)]
						xs[k], ys[k] = bb.x, bb.y
					}
					c14DeriveX4([4]*Poly{&ps[0], &ps[1], &ps[2], &ps[3]}, &bseed, xs, ys)
					for k := 0; k < 4; k++ {
						var q Poly
						q.DeriveUniform(&bseed, xs[k], ys[k])
						if string(c14Hat(&q)) != string(c14Hat(&ps[k])) {
							r.Violation("C14|kyber.PolyDeriveUniformX4|differs-from-DeriveUniform|"+c14Backend(), fmt.Sprintf("DeriveUniform-boundary#%s/x=%d/y=%d", b.class, b.x, b.y),
								fmt.Sprintf("PolyDeriveUniformX4 lane %d differs from DeriveUniform(boundary seed, %d, %d) among four boundary streams", k, xs[k], ys[k]), nil)
						}
						r.Count("x4_lanes_compared", 1)
					}
				}
			})
		case "sample":
			seed := seeds[j.i]
			c.Case(fmt.Sprintf("Sample#seed%d", j.i), func(d *verifc14.D) {
				for _, nonce := range []uint8{0, 1, 2, 127, 255} {
					var p Poly
					p.DeriveNoise(seed, nonce, 2)
					d.Bytes(fmt.Sprintf("noise2.%d", nonce), c14Reg(&p))
					p.DeriveNoise(seed, nonce, 3)
					d.Bytes(fmt.Sprintf("noise3.%d", nonce), c14Reg(&p))
					d.Exec(2)
				}
				var s32 [32]byte
				copy(s32[:], seed)
				coords := []uint8{0, 1, 2, 3, 255}
				for _, x := range coords {
					for _, y := range coords {
						var p Poly
						p.DeriveUniform(&s32, x, y)
						d.Bytes(fmt.Sprintf("uniform.%d.%d", x, y), c14Hat(&p))
						d.Exec(1)
					}
				}
				if x4Available {
					// compared inside the process with DeriveUniform (the X4 routine does not exist as a separate public path
					// when AVX2 is off, so its output cannot be part of the cross-configuration digest)
					var ps [4]Poly
					c14DeriveX4([4]*Poly{&ps[0], &ps[1], &ps[2], &ps[3]}, &s32, [4]uint8{0, 1, 2, 255}, [4]uint8{3, 2, 255, 0})
					for k, xy := range [][2]uint8{{0, 3}, {1, 2}, {2, 255}, {255, 0}} {
						var p Poly
						p.DeriveUniform(&s32, xy[0], xy[1])
						if string(c14Hat(&p)) != string(c14Hat(&ps[k])) {
							r.Violation("C14|kyber.PolyDeriveUniformX4|differs-from-DeriveUniform|"+c14Backend(), fmt.Sprintf("Sample#seed%d", j.i),
								fmt.Sprintf("PolyDeriveUniformX4 lane %d differs from DeriveUniform(seed%d, %d, %d)", k, j.i, xy[0], xy[1]), nil)
						}
						r.Count("x4_lanes_compared", 1)
					}
				}
			})
		}
	})
	if x4Available {
		r.RequireCounter("x4_lanes_compared", 4)
	}
	for _, cls := range []string{"four-blocks", "cand=q", "cand=q-1", "valid-second-candidate-dropped"} {
		r.RequireCounter("boundary_streams/"+cls, 3)
	}
	c.Finish(500)
}
