//go:build verif && (!amd64 || purego)

package common

// c14Backend: generic.go is compiled.
func c14Backend() string { return "generic" }
