//go:build verif

package common

// C03, helper level: NTT / InvNTT / MulHat / Tangle / Detangle (exported Poly methods only) against FIPS 203
// Algorithms 9-12 of /verif/ref/mlkem and against schoolbook multiplication in Z_q[X]/(X^256+1).

import (
	"fmt"
	"sync/atomic"
	"testing"

	"github.com/cloudflare/circl/internal/verifmc"
	ref "github.com/cloudflare/circl/internal/verifref/mlkem"
)

// c03NTTDesc describes one input polynomial of the NTT/InvNTT sweep (materialised on demand).
type c03NTTDesc struct {
	kind uint8 // 0: e_a * b   1: constant a with sign pattern of period 2^b (b = -1: none)   2: SHAKE-derived #a
	a, b int32
}

func (d c03NTTDesc) build() (name string, p [256]int) {
	switch d.kind {
	case 0:
		p[d.a] = int(d.b)
		return fmt.Sprintf("e%d*%d", d.a, d.b), p
	case 1:
		for i := range p {
			p[i] = int(d.a)
			if d.b >= 0 && (i>>uint(d.b))&1 == 1 {
				p[i] = -int(d.a)
			}
		}
		return fmt.Sprintf("dense c=%d period=%d", d.a, d.b), p
	default:
		b := verifmc.Shake(fmt.Sprintf("c03-ntt-%d", d.a), 512)
		for i := range p {
			p[i] = (int(b[2*i])|int(b[2*i+1])<<8)%(2*c03Q+1) - c03Q
		}
		return fmt.Sprintf("shake%d", d.a), p
	}
}

// c03NTTInputs enumerates the polynomials (coefficients |c| <= q, the documented input bound of NTT
// and InvNTT) that are pushed through NTT and InvNTT.
func c03NTTInputs(thorough bool) (out []c03NTTDesc) {
	vals := []int{1, 2, 1664, 1665, c03Q - 1, c03Q, -1, -1664, -c03Q + 1, -c03Q}
	if thorough {
		vals = vals[:0]
		for v := -c03Q; v <= c03Q; v++ {
			if v != 0 {
				vals = append(vals, v)
			}
		}
	}
	for i := 0; i < 256; i++ {
		for _, v := range vals {
			out = append(out, c03NTTDesc{0, int32(i), int32(v)})
		}
	}
	// dense: constant polynomials and sign patterns of every period 2^j
	for c := -c03Q; c <= c03Q; c++ {
		for j := -1; j < 8; j++ {
			if j >= 0 && !thorough && c != c03Q && c != -c03Q && c != c03Q-1 && c != 1664 && c != 1 {
				continue
			}
			out = append(out, c03NTTDesc{1, int32(c), int32(j)})
		}
	}
	// dense pseudo-random (SHAKE256) coefficients in [-q, q]
	n := 512
	if thorough {
		n = 8192
	}
	for k := 0; k < n; k++ {
		out = append(out, c03NTTDesc{2, int32(k), 0})
	}
	return out
}

func TestVerifC03_ntt(t *testing.T) {
	r := verifmc.Start(t, "C03", "ntt")
	defer r.Finish()
	backend := c03Backend()
	r.Set("backend", backend)
	r.Rule("NTT and InvNTT on every basis monomial e_i*v (quick: 10 boundary v, thorough: all v in [-q,q]), all constant polynomials and sign patterns, " +
		"and SHAKE-derived dense polynomials, compared coefficient-wise mod q with FIPS 203 Algorithms 9/10; MulHat on every 4-tuple of a 12-value boundary " +
		"alphabet in every slot against Algorithm 11/12; the product pipeline NTT,MulHat,InvNTT on all basis pairs (e_i*v, e_j*w), i,j<256, v,w in {1,2,(q-1)/2,q-1} " +
		"against the exact product in Z_q[X]/(X^256+1); non-trivial = each distinct input polynomial (pair)")
	r.NotExhaustive("NTT/InvNTT/MulHat inputs are a declared sub-alphabet (basis, constant, sign-pattern, SHAKE-derived), not all of Z_q^256")

	R := 65536 % c03Q
	Rinv := 0
	for x := 1; x < c03Q; x++ {
		if x*R%c03Q == 1 {
			Rinv = x
		}
	}

	inputs := c03NTTInputs(r.Thorough())
	r.Set("ntt_inputs", len(inputs))
	var maxNTT, maxInv atomic.Int64
	verifmc.ParallelFor(len(inputs), func(k int) {
		var x struct {
			name string
			v    [256]int
		}
		x.name, x.v = inputs[k].build()
		p := c03FromInts(&x.v)
		f := c03ToRef(&p)
		// forward: standard order in, tangled out
		q := p
		q.NTT()
		q.Detangle()
		want := ref.NTT(f)
		r.Eval(1)
		for i := range q {
			c03AtomicMaxAbs(&maxNTT, int64(q[i]))
			if c03Mod(int(q[i])) != want[i] {
				r.Violation("C03|common.Poly.NTT|differs from FIPS 203 Algorithm 9", "ntt/"+x.name,
					fmt.Sprintf("Poly.NTT (%s) on %s: coefficient %d = %d (mod q: %d), reference %d", backend, x.name, i, q[i], c03Mod(int(q[i])), want[i]),
					map[string]interface{}{"input": x.name})
				break
			}
		}
		// inverse: the same coefficient vector read as an NTT-domain element in standard order
		q = p
		q.Tangle()
		q.InvNTT()
		wantInv := ref.NTTInv(f)
		r.Eval(1)
		for i := range q {
			c03AtomicMaxAbs(&maxInv, int64(q[i]))
			if c03Mod(int(q[i])) != wantInv[i]*R%c03Q {
				r.Violation("C03|common.Poly.InvNTT|differs from 2^16 * FIPS 203 Algorithm 10", "invntt/"+x.name,
					fmt.Sprintf("Poly.InvNTT (%s) on %s: coefficient %d = %d (mod q: %d), reference %d", backend, x.name, i, q[i], c03Mod(int(q[i])), wantInv[i]*R%c03Q),
					map[string]interface{}{"input": x.name})
				break
			}
		}
		// Tangle / Detangle are mutually inverse
		q = p
		q.Tangle()
		q.Detangle()
		if q != p {
			r.Violation("C03|common.Poly.Detangle|Detangle(Tangle(p)) != p", "tangle/"+x.name, "Detangle(Tangle(p)) != p on "+x.name, nil)
		}
		r.Distinct("ntt-input", x.name)
		if k == 0 {
			r.Sample(map[string]interface{}{"routine": "NTT/InvNTT", "input": x.name})
		}
	})
	r.Set("max_abs_coefficient_after_NTT(info)", maxNTT.Load())
	r.Set("max_abs_coefficient_after_InvNTT(info)", maxInv.Load())
	r.Count("ntt_inputs", len(inputs))

	// --- MulHat: every 4-tuple (a0,a1,b0,b1) of the boundary alphabet in all 128 slots at once,
	// plus each tuple in one slot with a different tuple elsewhere (slot independence).
	V := []int{0, 1, 2, 1664, 1665, c03Q - 1, c03Q, -1, -1664, -c03Q + 1, -c03Q, 2 * c03Q}
	nV := len(V)
	total := nV * nV * nV * nV
	verifmc.ParallelFor(total, func(k int) {
		a0, a1, b0, b1 := V[k%nV], V[k/nV%nV], V[k/nV/nV%nV], V[k/nV/nV/nV]
		k2 := (k*7919 + 13) % total
		c0, c1, d0, d1 := V[k2%nV], V[k2/nV%nV], V[k2/nV/nV%nV], V[k2/nV/nV/nV]
		for variant := 0; variant < 2; variant++ {
			var a, b [256]int
			for s := 0; s < 128; s++ {
				if variant == 0 || s == k%128 {
					a[2*s], a[2*s+1], b[2*s], b[2*s+1] = a0, a1, b0, b1
				} else {
					a[2*s], a[2*s+1], b[2*s], b[2*s+1] = c0, c1, d0, d1
				}
			}
			pa, pb := c03FromInts(&a), c03FromInts(&b)
			fa, fb := c03ToRef(&pa), c03ToRef(&pb)
			pa.Tangle()
			pb.Tangle()
			var p Poly
			p.MulHat(&pa, &pb)
			p.Detangle()
			want := ref.MultiplyNTTs(fa, fb)
			r.Eval(1)
			for i := range p {
				if c03Mod(int(p[i])) != want[i]*Rinv%c03Q {
					r.Violation("C03|common.Poly.MulHat|differs from 2^-16 * FIPS 203 Algorithm 11", fmt.Sprintf("mulhat/%d/%d", k, variant),
						fmt.Sprintf("Poly.MulHat (%s): slot %d operands a=(%d,%d) b=(%d,%d): coefficient %d = %d (mod q %d), reference %d",
							backend, i/2, a[i&^1], a[i|1], b[i&^1], b[i|1], i, p[i], c03Mod(int(p[i])), want[i]*Rinv%c03Q),
						map[string]interface{}{"a0": a0, "a1": a1, "b0": b0, "b1": b1, "variant": variant})
					break
				}
			}
		}
		r.Distinct("mulhat", k)
	})
	r.Count("mulhat_tuples", total)

	// --- product pipeline on all basis pairs, mimicking cpapke: NTT; reduce; MulHat; BarrettReduce; InvNTT; Normalize
	W := []int{1, 2, (c03Q - 1) / 2, c03Q - 1}
	verifmc.ParallelFor(256*256, func(ij int) {
		i, j := ij/256, ij%256
		for _, v := range W {
			for _, w := range W {
				var pa, pb, p Poly
				pa[i] = int16(v)
				pb[j] = int16(w)
				pa.NTT()
				pa.BarrettReduce()
				pb.NTT()
				pb.Normalize()
				p.MulHat(&pa, &pb)
				p.BarrettReduce()
				p.InvNTT()
				p.Normalize()
				var want Poly
				pos, val := i+j, v*w%c03Q
				if pos >= 256 {
					pos -= 256
					val = c03Mod(-val)
				}
				want[pos] = int16(val)
				r.Eval(1)
				if p != want {
					r.Violation("C03|common.Poly.NTT+MulHat+InvNTT|product differs from Z_q[X]/(X^256+1)", fmt.Sprintf("prod/%d/%d/%d/%d", i, j, v, w),
						fmt.Sprintf("(%d X^%d)*(%d X^%d) via NTT,MulHat,InvNTT (%s) != %d X^%d", v, i, w, j, backend, val, pos),
						map[string]int{"i": i, "j": j, "v": v, "w": w})
				}
			}
		}
		r.Distinct("prod", ij)
	})
	r.Count("basis_pair_products", 256*256*len(W)*len(W))
	r.Sample(map[string]interface{}{"routine": "NTT,MulHat,InvNTT", "case": "(3328 X^255)*(3328 X^255)", "expected": "-(3328^2) X^254"})
}
