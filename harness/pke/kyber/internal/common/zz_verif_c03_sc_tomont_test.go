//go:build verif

package common

// C03: complete sweep of the unexported scalar helper toMont (a file of its own).

import (
	"fmt"
	"testing"

	"github.com/cloudflare/circl/internal/verifmc"
)

func TestVerifC03_reductions_toMont(t *testing.T) {
	r := verifmc.Start(t, "C03", "reductions_toMont")
	defer r.Finish()
	r.Rule("toMont (unexported scalar helper) on all 2^16 int16 inputs: value in (-q,q) congruent to x*2^16; non-trivial = one per input value")
	for x := -32768; x <= 32767; x++ {
		m := int(toMont(int16(x)))
		r.Eval(1)
		r.Distinct("toMont", x)
		if m <= -c03Q || m >= c03Q || c03Mod(m-c03MulR(x)) != 0 {
			r.Violation("C03|common.toMont|not x*2^16 mod q in (-q,q)", fmt.Sprintf("toMont/%d", x),
				fmt.Sprintf("toMont(%d) = %d; want value in (-q,q) congruent to %d", x, m, c03MulR(x)), map[string]int{"x": x})
		}
	}
	r.Sample(map[string]interface{}{"routine": "toMont", "x": 1, "y": int(toMont(1))})
}
