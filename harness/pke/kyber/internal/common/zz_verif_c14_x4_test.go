//go:build verif

package common

// The only C14 file of this directory that names the four-way sampler and its switch.
func init() {
	c14X4Available = func() bool { return DeriveX4Available }
	c14DeriveX4 = PolyDeriveUniformX4
}
