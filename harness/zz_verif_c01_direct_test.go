//go:build verif

package circl_test

// C01, package-level entry points that do not go through kem.Scheme:
//   mlkem{512,768,1024} / kyber{512,768,1024}: NewKeyFromSeed, PublicKey.EncapsulateTo, PrivateKey.DecapsulateTo, Pack / Unpack
//   frodo640shake: PublicKey.EncapsulateTo, PrivateKey.DecapsulateTo, Pack / Unpack (its constructors are unexported)
//   xwing: DeriveKeyPair, DeriveKeyPairPacked, Encapsulate, Decapsulate, PublicKey.EncapsulateTo, PrivateKey.DecapsulateTo
// They must produce exactly the bytes of the kem.Scheme path, fill the whole output buffer whatever it
// contained, and on altered ciphertexts return the implicit-rejection value of the specification model.

import (
	"bytes"
	"fmt"
	"strings"
	"testing"

	"github.com/cloudflare/circl/internal/verifmc"
	"github.com/cloudflare/circl/internal/verifref/c01kem"
	"github.com/cloudflare/circl/kem"
	"github.com/cloudflare/circl/kem/frodo/frodo640shake"
	"github.com/cloudflare/circl/kem/kyber/kyber1024"
	"github.com/cloudflare/circl/kem/kyber/kyber512"
	"github.com/cloudflare/circl/kem/kyber/kyber768"
	"github.com/cloudflare/circl/kem/mlkem/mlkem1024"
	"github.com/cloudflare/circl/kem/mlkem/mlkem512"
	"github.com/cloudflare/circl/kem/mlkem/mlkem768"
	"github.com/cloudflare/circl/kem/xwing"
)

type c01EncTo interface {
	EncapsulateTo(ct, ss, seed []byte)
	Pack([]byte)
}

type c01DecTo interface {
	DecapsulateTo(ss, ct []byte)
	Pack([]byte)
}

// c01Direct is one package seen through its own API.
type c01Direct struct {
	name   string
	sch    kem.Scheme
	newKey func(seed []byte) (c01EncTo, c01DecTo)     // package-level constructor (nil: none exported)
	unpack func(pkb, skb []byte) (c01EncTo, c01DecTo) // Unpack on zero values
}

func c01Directs() []c01Direct {
	return []c01Direct{
		{"ML-KEM-512", mlkem512.Scheme(),
			func(s []byte) (c01EncTo, c01DecTo) { p, k := mlkem512.NewKeyFromSeed(s); return p, k },
			func(pb, sb []byte) (c01EncTo, c01DecTo) {
				var p mlkem512.PublicKey
				var k mlkem512.PrivateKey
				if p.Unpack(pb) != nil || k.Unpack(sb) != nil {
					return nil, nil
				}
				return &p, &k
			}},
		{"ML-KEM-768", mlkem768.Scheme(),
			func(s []byte) (c01EncTo, c01DecTo) { p, k := mlkem768.NewKeyFromSeed(s); return p, k },
			func(pb, sb []byte) (c01EncTo, c01DecTo) {
				var p mlkem768.PublicKey
				var k mlkem768.PrivateKey
				if p.Unpack(pb) != nil || k.Unpack(sb) != nil {
					return nil, nil
				}
				return &p, &k
			}},
		{"ML-KEM-1024", mlkem1024.Scheme(),
			func(s []byte) (c01EncTo, c01DecTo) { p, k := mlkem1024.NewKeyFromSeed(s); return p, k },
			func(pb, sb []byte) (c01EncTo, c01DecTo) {
				var p mlkem1024.PublicKey
				var k mlkem1024.PrivateKey
				if p.Unpack(pb) != nil || k.Unpack(sb) != nil {
					return nil, nil
				}
				return &p, &k
			}},
		{"Kyber512", kyber512.Scheme(),
			func(s []byte) (c01EncTo, c01DecTo) { p, k := kyber512.NewKeyFromSeed(s); return p, k },
			func(pb, sb []byte) (c01EncTo, c01DecTo) {
				var p kyber512.PublicKey
				var k kyber512.PrivateKey
				p.Unpack(pb)
				k.Unpack(sb)
				return &p, &k
			}},
		{"Kyber768", kyber768.Scheme(),
			func(s []byte) (c01EncTo, c01DecTo) { p, k := kyber768.NewKeyFromSeed(s); return p, k },
			func(pb, sb []byte) (c01EncTo, c01DecTo) {
				var p kyber768.PublicKey
				var k kyber768.PrivateKey
				p.Unpack(pb)
				k.Unpack(sb)
				return &p, &k
			}},
		{"Kyber1024", kyber1024.Scheme(),
			func(s []byte) (c01EncTo, c01DecTo) { p, k := kyber1024.NewKeyFromSeed(s); return p, k },
			func(pb, sb []byte) (c01EncTo, c01DecTo) {
				var p kyber1024.PublicKey
				var k kyber1024.PrivateKey
				p.Unpack(pb)
				k.Unpack(sb)
				return &p, &k
			}},
		{"FrodoKEM-640-SHAKE", frodo640shake.Scheme(), nil,
			func(pb, sb []byte) (c01EncTo, c01DecTo) {
				var p frodo640shake.PublicKey
				var k frodo640shake.PrivateKey
				p.Unpack(pb)
				k.Unpack(sb)
				return &p, &k
			}},
		{"X-Wing", xwing.Scheme(),
			func(s []byte) (c01EncTo, c01DecTo) { k, p := xwing.DeriveKeyPair(s); return p, k },
			func(pb, sb []byte) (c01EncTo, c01DecTo) {
				var p xwing.PublicKey
				var k xwing.PrivateKey
				if p.Unpack(pb) != nil {
					return nil, nil
				}
				k.Unpack(sb)
				return &p, &k
			}},
	}
}

func TestVerifC01_direct(t *testing.T) {
	r := verifmc.Start(t, "C01", "direct")
	defer r.Finish()
	r.Rule("package-level entry points of the 8 packages that have them x key seed x encapsulation seed; every key object obtained three ways " +
		"(scheme, package constructor, Unpack) x {EncapsulateTo, DecapsulateTo} with two different pre-fills of the output buffers; " +
		"every overlapping placement of an output buffer over an input buffer (ss over ct, ct over seed, ss over seed, Pack over the Unpack source, pke EncryptTo/DecryptTo), " +
		"every single-bit flip of the ciphertext through DecapsulateTo (FrodoKEM: bit 0 of every 64th byte) and xwing.Decapsulate; " +
		"non-trivial = distinct (package, key seed, enc seed, object origin) and distinct (package, key seed, flip)")
	ds := c01Directs()
	nk, ne := r.Pick(2, 0), r.Pick(2, 0)
	if nk != 0 {
		r.NotExhaustive(fmt.Sprintf("quick tier: first %d key seeds and %d encapsulation seeds; bit flips for key seed #0 only", nk, ne))
	}
	type job struct {
		d  c01Direct
		ki int
	}
	var jobs []job
	for _, d := range ds {
		for ki := range c01Take(verifmc.Seeds(d.sch.SeedSize(), r.Seed()), nk) {
			jobs = append(jobs, job{d, ki})
		}
	}
	r.Set("packages", len(ds))
	verifmc.ParallelFor(len(jobs), func(ji int) {
		d, ki := jobs[ji].d, jobs[ji].ki
		sch := d.sch
		m := c01kem.Lookup(d.name)
		rep := c01Reporter{r, d.name + "(direct)"}
		kseed := verifmc.Seeds(sch.SeedSize(), r.Seed())[ki]
		kcase := fmt.Sprintf("%s(direct)/k%d", d.name, ki)
		if r.Replaying() && !strings.HasPrefix(r.ReplayCase(), kcase) {
			return
		}
		k, problem := c01Derive(sch, kseed)
		if problem != "" {
			rep.viol("derive-failed", "seed", kcase, nil, "key seed %x: %s", kseed, problem)
			return
		}
		type obj struct {
			origin string
			p      c01EncTo
			s      c01DecTo
		}
		var objs []obj
		if p, ok := k.pk.(c01EncTo); ok {
			if s, ok := k.sk.(c01DecTo); ok {
				objs = append(objs, obj{"scheme", p, s})
			}
		}
		if len(objs) == 0 {
			panic("C01 direct: keys of " + d.name + " do not have EncapsulateTo/DecapsulateTo/Pack (harness out of date)")
		}
		if d.newKey != nil {
			var p c01EncTo
			var s c01DecTo
			if pn, what := verifmc.Try(func() { p, s = d.newKey(c01Clone(kseed)) }); pn {
				rep.viol("panic", "constructor", kcase, nil, "package constructor panics on key seed %x: %s", kseed, what)
			} else {
				objs = append(objs, obj{"constructor", p, s})
			}
		}
		{
			var p c01EncTo
			var s c01DecTo
			if pn, what := verifmc.Try(func() { p, s = d.unpack(c01Clone(k.pkb), c01Clone(k.skb)) }); pn || p == nil || s == nil {
				rep.viol("marshal-roundtrip", "unpack", kcase, nil, "Unpack of the packed keys fails: %s", what)
			} else {
				objs = append(objs, obj{"unpack", p, s})
			}
		}
		if d.name == "X-Wing" {
			var skp, pkp []byte
			if pn, what := verifmc.Try(func() { skp, pkp = xwing.DeriveKeyPairPacked(c01Clone(kseed)) }); pn || !bytes.Equal(skp, k.skb) || !bytes.Equal(pkp, k.pkb) {
				rep.viol("direct-differs", "derive", kcase, nil, "xwing.DeriveKeyPairPacked differs from the scheme path %s", what)
			}
		}
		// class of a mismatch: with zeroed output buffers the direct path simply differs from the scheme path;
		// when only the pre-filled buffers differ, the output depends on what the buffer held before.
		class := func(fill byte) string {
			if fill == 0 {
				return "direct-differs"
			}
			return "stale-buffer"
		}
		for _, o := range objs {
			for _, fill := range []byte{0x00, 0xa5} {
				pb, sb := bytes.Repeat([]byte{fill}, sch.PublicKeySize()), bytes.Repeat([]byte{fill}, sch.PrivateKeySize())
				pn, what := verifmc.Try(func() { o.p.Pack(pb); o.s.Pack(sb) })
				r.Eval(2)
				if pn || !bytes.Equal(pb, k.pkb) || !bytes.Equal(sb, k.skb) {
					rep.viol(class(fill), "Pack", kcase, map[string]interface{}{"key_seed": verifmc.FullHex(kseed), "prefill": fill},
						"Pack of the %s keys into buffers pre-filled with %02x differs from MarshalBinary of the scheme keys (pk equal: %v, sk equal: %v) %s",
						o.origin, fill, bytes.Equal(pb, k.pkb), bytes.Equal(sb, k.skb), what)
				}
			}
		}
		c01AliasPack(c01AliasCtx{r, rep, kcase}, d, k.pkb, k.skb)
		eseeds := c01Take(verifmc.Seeds(sch.EncapsulationSeedSize(), r.Seed()), ne)
		var ct0, ss0 []byte
		for ei, eseed := range eseeds {
			ecase := fmt.Sprintf("%s/e%d", kcase, ei)
			want := c01Encaps(sch, k.pk, eseed)
			if want.failed() {
				rep.viol("encaps-failed", "seed", ecase, nil, "%s", want)
				continue
			}
			if ei == 0 {
				ct0, ss0 = want.ct, want.ss
			}
			for _, o := range objs {
				for _, fill := range []byte{0x00, 0xa5} {
					ct := bytes.Repeat([]byte{fill}, sch.CiphertextSize())
					ss := bytes.Repeat([]byte{fill}, sch.SharedKeySize())
					pn, what := verifmc.Try(func() { o.p.EncapsulateTo(ct, ss, c01Clone(eseed)) })
					r.Eval(1)
					if pn || !bytes.Equal(ct, want.ct) || !bytes.Equal(ss, want.ss) {
						rep.viol(class(fill), "EncapsulateTo", ecase, map[string]interface{}{"key_seed": verifmc.FullHex(kseed), "enc_seed": verifmc.FullHex(eseed), "prefill": fill},
							"%s key, buffers pre-filled with %02x: EncapsulateTo gives ct=%s ss=%x, scheme path ct=%s ss=%x %s",
							o.origin, fill, verifmc.Hex(ct), ss, verifmc.Hex(want.ct), want.ss, what)
					}
					ss2 := bytes.Repeat([]byte{fill ^ 0xff}, sch.SharedKeySize())
					pn, what = verifmc.Try(func() { o.s.DecapsulateTo(ss2, c01Clone(want.ct)) })
					r.Eval(1)
					if pn || !bytes.Equal(ss2, want.ss) {
						rep.viol("roundtrip", "DecapsulateTo", ecase, map[string]interface{}{"key_seed": verifmc.FullHex(kseed), "enc_seed": verifmc.FullHex(eseed)},
							"%s key: DecapsulateTo gives %x, encapsulated %x %s", o.origin, ss2, want.ss, what)
					}
				}
				r.Distinct(d.name, ki, ei, o.origin)
				c01AliasKEM(c01AliasCtx{r, rep, kcase}, o.origin, o.p, o.s, eseed, want.ct, want.ss)
			}
			if d.name == "X-Wing" {
				var ss, ct []byte
				var err error
				pn, what := verifmc.Try(func() { ss, ct, err = xwing.Encapsulate(c01Clone(k.pkb), c01Clone(eseed)) })
				r.Eval(1)
				if pn || err != nil || !bytes.Equal(ct, want.ct) || !bytes.Equal(ss, want.ss) {
					rep.viol("direct-differs", "xwing.Encapsulate", ecase, nil, "xwing.Encapsulate differs from the scheme path: err=%v %s", err, what)
				}
				pn, what = verifmc.Try(func() { ss = xwing.Decapsulate(c01Clone(want.ct), c01Clone(k.skb)) })
				r.Eval(1)
				if pn || !bytes.Equal(ss, want.ss) {
					rep.viol("roundtrip", "xwing.Decapsulate", ecase, nil, "xwing.Decapsulate gives %x, encapsulated %x %s", ss, want.ss, what)
				}
			}
		}
		// ---- altered ciphertexts straight through DecapsulateTo of the unpacked key
		if ct0 == nil || (ki != 0 && !r.Thorough()) {
			return
		}
		o := objs[len(objs)-1]
		n := len(ct0)
		var bits []int
		if d.name == "FrodoKEM-640-SHAKE" && !r.Thorough() {
			for by := 0; by < n; by += 64 {
				bits = append(bits, by*8)
			}
		} else if d.name == "FrodoKEM-640-SHAKE" {
			bits, _ = verifmc.BitPositions(n, 0, 64)
		} else {
			bits, _ = verifmc.BitPositions(n, n, 1)
		}
		buf := c01Clone(ct0)
		for _, bit := range bits {
			caseID := fmt.Sprintf("%s/flip:%d", kcase, bit)
			if r.Replaying() && r.ReplayCase() != caseID {
				continue
			}
			buf[bit/8] ^= 1 << (bit % 8)
			ss := bytes.Repeat([]byte{byte(bit)}, sch.SharedKeySize())
			pn, what := verifmc.Try(func() { o.s.DecapsulateTo(ss, buf) })
			r.Eval(1)
			r.Distinct(d.name, ki, "flip", bit)
			exp, _ := m.Fast(k.skb, buf, ct0)
			if !pn && !bytes.Equal(ss, exp) && d.name != "FrodoKEM-640-SHAKE" {
				exp, _ = m.Full(k.skb, buf)
			}
			switch {
			case pn:
				rep.viol("panic:"+verifmc.PanicClass(what), "flip", caseID, nil, "DecapsulateTo panics on flip %d: %s", bit, what)
			case bytes.Equal(ss, ss0):
				rep.viol("honest-secret", "flip", caseID, map[string]interface{}{"key_seed": verifmc.FullHex(kseed), "bit": bit},
					"DecapsulateTo returns the honest secret %x after flipping ciphertext bit %d", ss0, bit)
			case !bytes.Equal(ss, exp):
				rep.viol("wrong-secret", "flip", caseID, map[string]interface{}{"key_seed": verifmc.FullHex(kseed), "bit": bit},
					"DecapsulateTo returns %x after flipping ciphertext bit %d; the specification gives %x", ss, bit, exp)
			default:
				r.Count("implicit_rejection_value_confirmed", 1)
			}
			if d.name == "X-Wing" {
				var s2 []byte
				pn, what := verifmc.Try(func() { s2 = xwing.Decapsulate(c01Clone(buf), c01Clone(k.skb)) })
				r.Eval(1)
				if pn || !bytes.Equal(s2, ss) {
					rep.viol("direct-differs", "flip", caseID, nil, "xwing.Decapsulate gives %x, PrivateKey.DecapsulateTo %x on flip %d %s", s2, ss, bit, what)
				}
			}
			buf[bit/8] ^= 1 << (bit % 8)
		}
		if ji == 0 {
			r.Sample(map[string]interface{}{"package": d.name, "key_seed": verifmc.Hex(kseed), "objects": len(objs), "bit_flips": len(bits)})
		}
	})
	c01AliasPKE(r, nk)
	r.RequireCounter("overlap_patterns_run", 500)
	r.RequireCounter("implicit_rejection_value_confirmed", 10000)
}
