//go:build verif

package x25519

// C12: mulA24 of dh/x25519 against its field formula on math/big (see the helpers file for
// the operand lists). The only unexported identifier of the package named here is mulA24.

import (
	"math/big"
	"testing"

	fp "github.com/cloudflare/circl/math/fp25519"
)

func TestVerifC12_x25519mula24(t *testing.T) {
	r, l, k := c12Begin(t, "x25519mula24")
	defer r.Finish()
	l.MulA24 = map[string]func(x *big.Int) *big.Int{
		"mulA24":      func(x *big.Int) *big.Int { a, z := c12Elt(x), fp.Elt{}; mulA24(&z, &a); return c12Int(&z) },
		"mulA24[z=x]": func(x *big.Int) *big.Int { a := c12Elt(x); mulA24(&a, &a); return c12Int(&a) },
	}
	l.CheckMulA24(r, k.all, true)
	r.RequireCounter("x25519.mulA24", 500)
}
