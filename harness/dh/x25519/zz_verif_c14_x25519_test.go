//go:build verif

package x25519_test

// C14 for dh/x25519: KeyGen (Joye ladder: diffAdd, double) and Shared (Montgomery ladder: ladderStep,
// mulA24) over a fixed alphabet of secrets x peer values under each configuration.

import (
	"fmt"
	"testing"

	dh "github.com/cloudflare/circl/dh/x25519"
	"github.com/cloudflare/circl/internal/verifc14"
)

func TestVerifC14_x25519(t *testing.T) {
	c := verifc14.Start(t, "x25519")
	c.BackendOptional("dh/x25519.hasBmi2Adx", dh.C14ReadBackend, verifc14.FpSel)
	m1, b63 := ^uint64(0), uint64(1)<<63
	wide := []uint64{2, 9, 18, 19, 20, 38, 1<<32 - 1, 1 << 32, b63 - 1, b63 + 1, m1 - 38, m1 - 19, m1 - 18, m1 - 1}
	p := make([]byte, dh.Size)
	for i := range p {
		p[i] = 0xff
	}
	p[0], p[31] = 0xed, 0x7f
	named := map[string][]byte{"p": p, "2p": verifc14.AddSmall(make([]byte, dh.Size), -38), "9": {9, 31: 0}}
	for i, lo := range verifc14.LowOrder25519() { // public constants (same values and order as the package's table): neighbours and the non-canonical twins
		named[fmt.Sprintf("low%d", i)] = append([]byte{}, lo...)
	}
	all := verifc14.FieldAlphabet(4, wide, named, -2, 19, c.R.Pick(8, 32), "x25519-public")
	secrets := verifc14.DHSecrets(dh.Size, c.R.Thorough(), c.R.Seed())
	shared := append(append([]verifc14.Named{}, secrets[:10]...), secrets[len(secrets)-2:]...)
	if c.R.Thorough() {
		shared = append(shared, verifc14.Thin(secrets[10:len(secrets)-2], 48)...)
	}
	c.R.Rule("peer values: every 32-byte string with limbs in {0,1,2^63,2^64-1}, every string one limb away from 00../FF.. over a 14-value limb list, " +
		"-2..+19 around p, 2p, 9 and the five low-order points of the package table, SHAKE-derived strings; secrets: SEEDS(32), 3 SHAKE strings, 0x55../0xaa.., single-bit secrets " +
		"(all 256 in the thorough tier, byte-boundary bits in the quick tier). KeyGen on every secret; Shared on 12 secrets (quick) / about 60 secrets (thorough: every 8th single-bit secret added) x every peer value; a case = one peer value, digest over all secrets (bytes + ok flag)")
	c.R.NotExhaustive("secrets and peer values are the declared alphabets")
	verifc14.RunDH(c, &verifc14.DH{
		Name: "X25519", Size: dh.Size,
		KeyGen: func(s []byte) []byte {
			var pk, sk dh.Key
			copy(sk[:], s)
			dh.KeyGen(&pk, &sk)
			return pk[:]
		},
		Shared: func(s, u []byte) ([]byte, bool) {
			var ss, sk, pk dh.Key
			copy(sk[:], s)
			copy(pk[:], u)
			ok := dh.Shared(&ss, &sk, &pk)
			return ss[:], ok
		},
	}, secrets, shared, all)
	c.R.RequireCounter("shared_flagged_false", 5)
	c.Finish(300)
}
