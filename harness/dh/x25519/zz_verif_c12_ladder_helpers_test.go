//go:build verif

package x25519

// C12, private ladder field helpers of dh/x25519: glue shared by the per-routine
// units of this directory (element conversion, operand alphabets, unit start).
// This file names NO unexported identifier of package x25519; each routine
// (mulA24, mulA24Generic, double, doubleGeneric, diffAdd, diffAddGeneric,
// ladderStep, ladderStepGeneric) is swept in a file of its own, so renaming
// one of them only takes that one unit out of the build.

import (
	"math/big"
	"testing"

	"github.com/cloudflare/circl/internal/verifmc"
	bf "github.com/cloudflare/circl/internal/verifref/bigfield"
	fp "github.com/cloudflare/circl/math/fp25519"
)

func c12Elt(v *big.Int) (e fp.Elt) { copy(e[:], bf.LE(v, fp.Size)); return }
func c12Int(e *fp.Elt) *big.Int    { return bf.FromLE(e[:]) }

func c12W(in [5]*big.Int) (w [5]fp.Elt) {
	for i := range w {
		w[i] = c12Elt(in[i])
	}
	return
}

func c12WOut(w *[5]fp.Elt) (out [5]*big.Int) {
	for i := range w {
		out[i] = c12Int(&w[i])
	}
	return
}

// c12Ops are the operand lists of the ladder units.
type c12Ops struct {
	all, a24 []bf.Operand
	pts      [][2]*big.Int
	cases    [][5]*big.Int
}

const c12LadderRule = "mulA24 (active and generic, separate and aliased output) on every operand of: the fp25519 limb-product / integer / named-neighbour alphabet plus floor(k*2^256/121666)+d (d=-2..2; k=1..8, a24-8..a24-1, every 997th (quick) / 61st (thorough) k, and the k at which the quotient crosses p), i.e. the operands for which 121666*x is next to a multiple of 2^256; double on all (x,z) pairs of a key list plus (t/4, 1) for the a24-derived t; diffAdd and ladderStep on the product of 5 x1/mu values with all pairs of a point list, both selector values; results compared as projective points (x:z) with the RFC 7748 formulas on math/big; a distinct case is one (function, operand tuple, selector)"

// c12Begin starts one unit and builds the (deterministic) operand lists.
func c12Begin(t *testing.T, unit string) (*verifmc.Run, *bf.Ladder, *c12Ops) {
	r := verifmc.Start(t, "C12", unit)
	if bad := bf.SelfCheck(); len(bad) != 0 {
		t.Fatalf("reference constants not bound: %v", bad)
	}
	l := &bf.Ladder{Prop: "C12", Name: "x25519", P: bf.P25519, Bits: 256, A24: big.NewInt(121666), Hex: 64, Par: verifmc.ParallelFor}
	r.Rule(c12LadderRule)
	r.NotExhaustive("operands are the declared alphabet, not all 2^256 strings")
	const m1 = ^uint64(0)
	lim := bf.Pow2(256)
	wide := []uint64{0, 1, 2, 18, 19, 20, 37, 38, 39, 1<<32 - 1, 1 << 32, 1<<63 - 1, 1 << 63, m1 - 38, m1 - 37, m1 - 19, m1 - 18, m1}
	core := []uint64{0, 1, 1 << 63, m1 - 18, m1}
	lp := bf.LimbProduct(4, bf.Rep(4, core), bf.Rep(4, wide), r.Pick(1, 2))
	ia := bf.IntAlphabet(bf.P25519, 64, 16, "x25519field")
	var sp []bf.Operand
	sp = append(sp, bf.Around(bf.P25519, -2, 40, "p")...)
	sp = append(sp, bf.Around(new(big.Int).Lsh(bf.P25519, 1), -2, 40, "2p")...)
	sp = append(sp, bf.Around(lim, -40, -1, "2^256")...)
	a24 := l.A24Operands(int64(r.Pick(997, 61)))
	all := bf.Append(lim, a24, lp, ia, sp)
	r.Set("mulA24_operands", len(all))
	r.Set("a24_derived_operands", len(a24))
	n := r.Pick(10, 22)
	key := bf.Append(lim, []bf.Operand{{V: new(big.Int), Name: "0"}, {V: big.NewInt(1), Name: "1"}, {V: big.NewInt(9), Name: "9"}, {V: bf.P25519, Name: "p"},
		{V: new(big.Int).Sub(bf.P25519, big.NewInt(1)), Name: "p-1"}, {V: new(big.Int).Sub(lim, big.NewInt(1)), Name: "2^256-1"}, {V: new(big.Int).Sub(lim, big.NewInt(19)), Name: "2^256-19"}},
		bf.Thin(a24, n), bf.Thin(lp, n), bf.Thin(ia, n))
	pts := l.PointsFor(key, a24)
	r.Set("double_points", len(pts))
	// points for diffAdd / ladderStep: pairs of a shorter list plus (t/4, 1)
	pk := bf.Thin(key, r.Pick(6, 9))
	ppts := l.PointsFor(pk, bf.Thin(a24, r.Pick(6, 16)))
	x1s := bf.Thin(key, 5)
	var cases [][5]*big.Int
	for _, x1 := range x1s {
		for _, p2 := range ppts {
			for _, p3 := range ppts {
				cases = append(cases, [5]*big.Int{x1.V, p2[0], p2[1], p3[0], p3[1]})
			}
		}
	}
	r.Set("ladder_points", len(ppts))
	r.Set("ladder_cases", len(cases))
	r.Set("ladder_points", len(ppts))
	r.Set("ladder_cases", len(cases))
	for i := 0; i < 3; i++ {
		k := i*len(a24)/3 + 7
		r.Sample(map[string]string{"operand": a24[k].Name, "value": a24[k].V.Text(16)})
	}
	return r, l, &c12Ops{all: all, a24: a24, pts: pts, cases: cases}
}
