//go:build verif

package x25519

// C12: diffAddGeneric of dh/x25519 against its field formula on math/big (see the helpers file for
// the operand lists). The only unexported identifier of the package named here is diffAddGeneric.

import (
	"math/big"
	"testing"

	fp "github.com/cloudflare/circl/math/fp25519"
)

func TestVerifC12_x25519diffaddgeneric(t *testing.T) {
	r, l, k := c12Begin(t, "x25519diffaddgeneric")
	defer r.Finish()
	l.DiffAdd = map[string]func(w [5]*big.Int, b uint) [5]*big.Int{
		"diffAddGeneric": func(in [5]*big.Int, b uint) [5]*big.Int { w := c12W(in); diffAddGeneric(&w, b); return c12WOut(&w) },
	}
	l.CheckDiffAdd(r, k.cases) // tuples read as (mu, x1, z1, x2, z2)
	r.RequireCounter("x25519.diffAddGeneric", 5000)
	_ = fp.Size
}
