//go:build verif && (!amd64 || purego)

package x25519_test

// Without the assembly the generic Go code is the only back-end (build tags only,
// no package internals are named).

import "github.com/cloudflare/circl/internal/verifc06"

func init() { verifc06.RegisterBackend("x25519", func() string { return "generic" }) }
