//go:build verif && (!amd64 || purego)

package x25519

func c06Backend() string { return "generic" }
