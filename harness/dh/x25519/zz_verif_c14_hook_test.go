//go:build verif

package x25519

// C14ReadBackend is installed by the read-out file that matches the build (zz_verif_c14_be_*_test.go). It stays
// nil when that file does not build against the tree under test (dispatch variable renamed): the C14 transcript
// unit, which lives in the external test package and uses the exported API only, then records
// "dispatch not observed" and still runs. This file names no unexported identifier of the package.
var C14ReadBackend func() string
