//go:build verif

package x25519

// C12: diffAdd of dh/x25519 against its field formula on math/big (see the helpers file for
// the operand lists). The only unexported identifier of the package named here is diffAdd.

import (
	"math/big"
	"testing"

	fp "github.com/cloudflare/circl/math/fp25519"
)

func TestVerifC12_x25519diffadd(t *testing.T) {
	r, l, k := c12Begin(t, "x25519diffadd")
	defer r.Finish()
	l.DiffAdd = map[string]func(w [5]*big.Int, b uint) [5]*big.Int{
		"diffAdd": func(in [5]*big.Int, b uint) [5]*big.Int { w := c12W(in); diffAdd(&w, b); return c12WOut(&w) },
	}
	l.CheckDiffAdd(r, k.cases) // tuples read as (mu, x1, z1, x2, z2)
	r.RequireCounter("x25519.diffAdd", 5000)
	_ = fp.Size
}
