//go:build verif && (!amd64 || purego)

package x25519

// c14Backend: curve_noasm.go is compiled, the ladder steps are the *Generic routines.
func c14Backend() string { return "generic" }
