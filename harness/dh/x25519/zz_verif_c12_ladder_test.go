//go:build verif

package x25519

// C12 for the field-level building blocks that live privately in dh/x25519:
// mulA24 (z = 121666*x in GF(2^255-19)), double, diffAdd and ladderStep, each in
// the ACTIVE back-end (assembly BMI2+ADX / legacy, or Go under purego) and in the
// always-compiled *Generic form, against their field formulas on math/big.
// Operands are 32-byte strings (reduced or not).

import (
	"math/big"
	"testing"

	"github.com/cloudflare/circl/internal/verifmc"
	bf "github.com/cloudflare/circl/internal/verifref/bigfield"
	fp "github.com/cloudflare/circl/math/fp25519"
)

func c12Elt(v *big.Int) (e fp.Elt) { copy(e[:], bf.LE(v, fp.Size)); return }
func c12Int(e *fp.Elt) *big.Int    { return bf.FromLE(e[:]) }

func c12W(in [5]*big.Int) (w [5]fp.Elt) {
	for i := range w {
		w[i] = c12Elt(in[i])
	}
	return
}

func c12WOut(w *[5]fp.Elt) (out [5]*big.Int) {
	for i := range w {
		out[i] = c12Int(&w[i])
	}
	return
}

func TestVerifC12_x25519field(t *testing.T) {
	r := verifmc.Start(t, "C12", "x25519field")
	defer r.Finish()
	if bad := bf.SelfCheck(); len(bad) != 0 {
		t.Fatalf("reference constants not bound: %v", bad)
	}
	l := &bf.Ladder{
		Prop: "C12", Name: "x25519", P: bf.P25519, Bits: 256, A24: big.NewInt(121666), Hex: 64, Par: verifmc.ParallelFor,
		MulA24: map[string]func(x *big.Int) *big.Int{
			"mulA24":             func(x *big.Int) *big.Int { a, z := c12Elt(x), fp.Elt{}; mulA24(&z, &a); return c12Int(&z) },
			"mulA24Generic":      func(x *big.Int) *big.Int { a, z := c12Elt(x), fp.Elt{}; mulA24Generic(&z, &a); return c12Int(&z) },
			"mulA24[z=x]":        func(x *big.Int) *big.Int { a := c12Elt(x); mulA24(&a, &a); return c12Int(&a) },
			"mulA24Generic[z=x]": func(x *big.Int) *big.Int { a := c12Elt(x); mulA24Generic(&a, &a); return c12Int(&a) },
		},
		Double: map[string]func(x, z *big.Int) (*big.Int, *big.Int){
			"double": func(x, z *big.Int) (*big.Int, *big.Int) {
				a, b := c12Elt(x), c12Elt(z)
				double(&a, &b)
				return c12Int(&a), c12Int(&b)
			},
			"doubleGeneric": func(x, z *big.Int) (*big.Int, *big.Int) {
				a, b := c12Elt(x), c12Elt(z)
				doubleGeneric(&a, &b)
				return c12Int(&a), c12Int(&b)
			},
		},
		DiffAdd: map[string]func(w [5]*big.Int, b uint) [5]*big.Int{
			"diffAdd":        func(in [5]*big.Int, b uint) [5]*big.Int { w := c12W(in); diffAdd(&w, b); return c12WOut(&w) },
			"diffAddGeneric": func(in [5]*big.Int, b uint) [5]*big.Int { w := c12W(in); diffAddGeneric(&w, b); return c12WOut(&w) },
		},
		LadderStep: map[string]func(w [5]*big.Int, b uint) [5]*big.Int{
			"ladderStep":        func(in [5]*big.Int, b uint) [5]*big.Int { w := c12W(in); ladderStep(&w, b); return c12WOut(&w) },
			"ladderStepGeneric": func(in [5]*big.Int, b uint) [5]*big.Int { w := c12W(in); ladderStepGeneric(&w, b); return c12WOut(&w) },
		},
	}
	const m1 = ^uint64(0)
	lim := bf.Pow2(256)
	wide := []uint64{0, 1, 2, 18, 19, 20, 37, 38, 39, 1<<32 - 1, 1 << 32, 1<<63 - 1, 1 << 63, m1 - 38, m1 - 37, m1 - 19, m1 - 18, m1}
	core := []uint64{0, 1, 1 << 63, m1 - 18, m1}
	lp := bf.LimbProduct(4, bf.Rep(4, core), bf.Rep(4, wide), r.Pick(1, 2))
	ia := bf.IntAlphabet(bf.P25519, 64, 16, "x25519field")
	var sp []bf.Operand
	sp = append(sp, bf.Around(bf.P25519, -2, 40, "p")...)
	sp = append(sp, bf.Around(new(big.Int).Lsh(bf.P25519, 1), -2, 40, "2p")...)
	sp = append(sp, bf.Around(lim, -40, -1, "2^256")...)
	a24 := l.A24Operands(int64(r.Pick(997, 61)))
	all := bf.Append(lim, a24, lp, ia, sp)
	r.Set("mulA24_operands", len(all))
	r.Set("a24_derived_operands", len(a24))
	r.Rule("mulA24 (active and generic, separate and aliased output) on every operand of: the fp25519 limb-product / integer / named-neighbour alphabet plus floor(k*2^256/121666)+d (d=-2..2; k=1..8, a24-8..a24-1, every 997th (quick) / 61st (thorough) k, and the k at which the quotient crosses p), i.e. the operands for which 121666*x is next to a multiple of 2^256; double on all (x,z) pairs of a key list plus (t/4, 1) for the a24-derived t; diffAdd and ladderStep on the product of 5 x1/mu values with all pairs of a point list, both selector values; results compared as projective points (x:z) with the RFC 7748 formulas on math/big; a distinct case is one (function, operand tuple, selector)")
	r.NotExhaustive("operands are the declared alphabet, not all 2^256 strings")
	l.CheckMulA24(r, all, true)

	n := r.Pick(10, 22)
	key := bf.Append(lim, []bf.Operand{{V: new(big.Int), Name: "0"}, {V: big.NewInt(1), Name: "1"}, {V: big.NewInt(9), Name: "9"}, {V: bf.P25519, Name: "p"},
		{V: new(big.Int).Sub(bf.P25519, big.NewInt(1)), Name: "p-1"}, {V: new(big.Int).Sub(lim, big.NewInt(1)), Name: "2^256-1"}, {V: new(big.Int).Sub(lim, big.NewInt(19)), Name: "2^256-19"}},
		bf.Thin(a24, n), bf.Thin(lp, n), bf.Thin(ia, n))
	pts := l.PointsFor(key, a24)
	r.Set("double_points", len(pts))
	l.CheckDouble(r, pts)

	// points for diffAdd / ladderStep: pairs of a shorter list plus (t/4, 1)
	pk := bf.Thin(key, r.Pick(6, 9))
	ppts := l.PointsFor(pk, bf.Thin(a24, r.Pick(6, 16)))
	x1s := bf.Thin(key, 5)
	var cases [][5]*big.Int
	for _, x1 := range x1s {
		for _, p2 := range ppts {
			for _, p3 := range ppts {
				cases = append(cases, [5]*big.Int{x1.V, p2[0], p2[1], p3[0], p3[1]})
			}
		}
	}
	r.Set("ladder_points", len(ppts))
	r.Set("ladder_cases", len(cases))
	l.CheckLadderStep(r, cases)
	l.CheckDiffAdd(r, cases) // same tuples read as (mu, x1, z1, x2, z2)
	r.RequireCounter("x25519.mulA24Generic", 500)
	for i := 0; i < 3; i++ {
		k := i*len(a24)/3 + 7
		r.Sample(map[string]string{"operand": a24[k].Name, "value": a24[k].V.Text(16)})
	}
}
