//go:build verif

package x25519

// C12: double of dh/x25519 against its field formula on math/big (see the helpers file for
// the operand lists). The only unexported identifier of the package named here is double.

import (
	"math/big"
	"testing"

	fp "github.com/cloudflare/circl/math/fp25519"
)

func TestVerifC12_x25519double(t *testing.T) {
	r, l, k := c12Begin(t, "x25519double")
	defer r.Finish()
	l.Double = map[string]func(x, z *big.Int) (*big.Int, *big.Int){
		"double": func(x, z *big.Int) (*big.Int, *big.Int) {
			a, b := c12Elt(x), c12Elt(z)
			double(&a, &b)
			return c12Int(&a), c12Int(&b)
		},
	}
	l.CheckDouble(r, k.pts)
	r.RequireCounter("x25519.double", 500)
	_ = fp.Size
}
