//go:build verif

package x25519_test

// C06: X25519 equals RFC 7748 on every input of the declared alphabets, the flag
// is false exactly when the output is all zero, KeyGen is the same function on
// the base point, two parties agree. The curve-independent logic lives in
// internal/verifc06; this file binds it to the real code through the exported API
// only (external test package). The read-outs of package internals (dispatch
// switch, tables) are separate in-package files that register themselves with
// verifc06; when one of them does not build against a refactored tree only that
// read-out is lost.

import (
	"testing"

	"github.com/cloudflare/circl/dh/x25519"
	"github.com/cloudflare/circl/internal/verifc06"
	"github.com/cloudflare/circl/internal/verifmc"
)

func c06Impl() *verifc06.Impl {
	return &verifc06.Impl{
		Name: "x25519",
		P:    verifc06.P25519,
		Shared: func(k, u []byte) ([]byte, bool) {
			var s, sk, pk x25519.Key
			copy(sk[:], k)
			copy(pk[:], u)
			ok := x25519.Shared(&s, &sk, &pk)
			copy(k, sk[:]) // lets the driver see a modified input
			copy(u, pk[:])
			return s[:], ok
		},
		KeyGen: func(k []byte) []byte {
			var pk, sk x25519.Key
			copy(sk[:], k)
			x25519.KeyGen(&pk, &sk)
			return pk[:]
		},
		SharedAlias: func(mode string, k, u []byte) ([]byte, bool, []byte, []byte) {
			var out, sk, pk x25519.Key
			copy(sk[:], k)
			copy(pk[:], u)
			switch mode {
			case "out=u":
				ok := x25519.Shared(&pk, &sk, &pk)
				return pk[:], ok, sk[:], nil
			case "out=k":
				ok := x25519.Shared(&sk, &sk, &pk)
				return sk[:], ok, nil, pk[:]
			case "k=u": // one object is both secret and peer value
				ok := x25519.Shared(&out, &sk, &sk)
				return out[:], ok, sk[:], nil
			case "out=k=u":
				ok := x25519.Shared(&sk, &sk, &sk)
				return sk[:], ok, nil, nil
			}
			panic("harness: unknown aliasing mode " + mode)
		},
		KeyGenAlias: func(k []byte) []byte {
			var x x25519.Key
			copy(x[:], k)
			x25519.KeyGen(&x, &x)
			return x[:]
		},
		Backend: verifc06.ObservedBackend("x25519"), // "" when the in-package read-out is not linked in
		Globals: verifc06.TablesDigest("x25519"),
	}
}

func TestVerifC06_refcheck_x25519(t *testing.T) {
	t.Parallel()
	r := verifmc.Start(t, "C06", "refcheck_x25519")
	defer r.Finish()
	verifc06.RunRefcheck(t, r, verifc06.P25519, "testdata")
}

func TestVerifC06_shared_x25519(t *testing.T) {
	t.Parallel()
	r := verifmc.Start(t, "C06", "shared_x25519")
	defer r.Finish()
	verifc06.RunShared(r, c06Impl())
}

func TestVerifC06_keygen_x25519(t *testing.T) {
	t.Parallel()
	r := verifmc.Start(t, "C06", "keygen_x25519")
	defer r.Finish()
	verifc06.RunKeyGen(r, c06Impl())
}

func TestVerifC06_agree_x25519(t *testing.T) {
	t.Parallel()
	r := verifmc.Start(t, "C06", "agree_x25519")
	defer r.Finish()
	verifc06.RunAgree(r, c06Impl())
}
