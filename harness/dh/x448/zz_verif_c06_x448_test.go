//go:build verif

package x448

// C06: X448 equals RFC 7748 on every input of the declared alphabets, the flag
// is false exactly when the output is all zero, KeyGen is the same function on
// the base point, two parties agree. The curve-independent logic lives in
// internal/verifc06; this file binds it to the real code and reports the field
// back-end that was actually selected (c06Backend, build-tag dependent).

import (
	"crypto/sha256"
	"encoding/hex"
	"testing"

	"github.com/cloudflare/circl/internal/verifc06"
	"github.com/cloudflare/circl/internal/verifmc"
)

func c06Impl() *verifc06.Impl {
	return &verifc06.Impl{
		Name: "x448",
		P:    verifc06.P448,
		Shared: func(k, u []byte) ([]byte, bool) {
			var s, sk, pk Key
			copy(sk[:], k)
			copy(pk[:], u)
			ok := Shared(&s, &sk, &pk)
			copy(k, sk[:]) // lets the driver see a modified input
			copy(u, pk[:])
			return s[:], ok
		},
		KeyGen: func(k []byte) []byte {
			var pk, sk Key
			copy(sk[:], k)
			KeyGen(&pk, &sk)
			return pk[:]
		},
		SharedAlias: func(mode string, k, u []byte) ([]byte, bool, []byte, []byte) {
			var out, sk, pk Key
			copy(sk[:], k)
			copy(pk[:], u)
			switch mode {
			case "out=u":
				ok := Shared(&pk, &sk, &pk)
				return pk[:], ok, sk[:], nil
			case "out=k":
				ok := Shared(&sk, &sk, &pk)
				return sk[:], ok, nil, pk[:]
			case "k=u": // one object is both secret and peer value
				ok := Shared(&out, &sk, &sk)
				return out[:], ok, sk[:], nil
			case "out=k=u":
				ok := Shared(&sk, &sk, &sk)
				return sk[:], ok, nil, nil
			}
			panic("harness: unknown aliasing mode " + mode)
		},
		KeyGenAlias: func(k []byte) []byte {
			var x Key
			copy(x[:], k)
			KeyGen(&x, &x)
			return x[:]
		},
		Backend: c06Backend(),
		Globals: func() string {
			h := sha256.New()
			h.Write(tableGenerator[:])
			for i := range lowOrderPoints {
				h.Write(lowOrderPoints[i][:])
			}
			return hex.EncodeToString(h.Sum(nil)[:8])
		},
	}
}

func TestVerifC06_refcheck_x448(t *testing.T) {
	t.Parallel()
	r := verifmc.Start(t, "C06", "refcheck_x448")
	defer r.Finish()
	verifc06.RunRefcheck(t, r, verifc06.P448, "testdata")
}

func TestVerifC06_shared_x448(t *testing.T) {
	t.Parallel()
	r := verifmc.Start(t, "C06", "shared_x448")
	defer r.Finish()
	verifc06.RunShared(r, c06Impl())
}

func TestVerifC06_keygen_x448(t *testing.T) {
	t.Parallel()
	r := verifmc.Start(t, "C06", "keygen_x448")
	defer r.Finish()
	verifc06.RunKeyGen(r, c06Impl())
}

func TestVerifC06_agree_x448(t *testing.T) {
	t.Parallel()
	r := verifmc.Start(t, "C06", "agree_x448")
	defer r.Finish()
	verifc06.RunAgree(r, c06Impl())
}
