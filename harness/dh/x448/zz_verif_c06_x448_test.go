//go:build verif

package x448_test

// C06: X448 equals RFC 7748 on every input of the declared alphabets, the flag
// is false exactly when the output is all zero, KeyGen is the same function on
// the base point, two parties agree. The curve-independent logic lives in
// internal/verifc06; this file binds it to the real code through the exported API
// only (external test package). The read-outs of package internals (dispatch
// switch, tables) are separate in-package files that register themselves with
// verifc06; when one of them does not build against a refactored tree only that
// read-out is lost.

import (
	"testing"

	"github.com/cloudflare/circl/dh/x448"
	"github.com/cloudflare/circl/internal/verifc06"
	"github.com/cloudflare/circl/internal/verifmc"
)

func c06Impl() *verifc06.Impl {
	return &verifc06.Impl{
		Name: "x448",
		P:    verifc06.P448,
		Shared: func(k, u []byte) ([]byte, bool) {
			var s, sk, pk x448.Key
			copy(sk[:], k)
			copy(pk[:], u)
			ok := x448.Shared(&s, &sk, &pk)
			copy(k, sk[:]) // lets the driver see a modified input
			copy(u, pk[:])
			return s[:], ok
		},
		KeyGen: func(k []byte) []byte {
			var pk, sk x448.Key
			copy(sk[:], k)
			x448.KeyGen(&pk, &sk)
			return pk[:]
		},
		SharedAlias: func(mode string, k, u []byte) ([]byte, bool, []byte, []byte) {
			var out, sk, pk x448.Key
			copy(sk[:], k)
			copy(pk[:], u)
			switch mode {
			case "out=u":
				ok := x448.Shared(&pk, &sk, &pk)
				return pk[:], ok, sk[:], nil
			case "out=k":
				ok := x448.Shared(&sk, &sk, &pk)
				return sk[:], ok, nil, pk[:]
			case "k=u": // one object is both secret and peer value
				ok := x448.Shared(&out, &sk, &sk)
				return out[:], ok, sk[:], nil
			case "out=k=u":
				ok := x448.Shared(&sk, &sk, &sk)
				return sk[:], ok, nil, nil
			}
			panic("harness: unknown aliasing mode " + mode)
		},
		KeyGenAlias: func(k []byte) []byte {
			var x x448.Key
			copy(x[:], k)
			x448.KeyGen(&x, &x)
			return x[:]
		},
		Backend: verifc06.ObservedBackend("x448"), // "" when the in-package read-out is not linked in
		Globals: verifc06.TablesDigest("x448"),
	}
}

func TestVerifC06_refcheck_x448(t *testing.T) {
	t.Parallel()
	r := verifmc.Start(t, "C06", "refcheck_x448")
	defer r.Finish()
	verifc06.RunRefcheck(t, r, verifc06.P448, "testdata")
}

func TestVerifC06_shared_x448(t *testing.T) {
	t.Parallel()
	r := verifmc.Start(t, "C06", "shared_x448")
	defer r.Finish()
	verifc06.RunShared(r, c06Impl())
}

func TestVerifC06_keygen_x448(t *testing.T) {
	t.Parallel()
	r := verifmc.Start(t, "C06", "keygen_x448")
	defer r.Finish()
	verifc06.RunKeyGen(r, c06Impl())
}

func TestVerifC06_agree_x448(t *testing.T) {
	t.Parallel()
	r := verifmc.Start(t, "C06", "agree_x448")
	defer r.Finish()
	verifc06.RunAgree(r, c06Impl())
}
