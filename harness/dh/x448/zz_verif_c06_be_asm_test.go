//go:build verif && amd64 && !purego

package x448

// Read-out of the switch the assembly itself tests (CHECK_BMI2ADX). This file
// names the unexported hasBmi2Adx and nothing else depends on it.

import "github.com/cloudflare/circl/internal/verifc06"

func init() {
	verifc06.RegisterBackend("x448", func() string {
		if hasBmi2Adx {
			return "asm-bmi2adx"
		}
		return "asm-legacy"
	})
}
