//go:build verif && (!amd64 || purego)

package x448

func c06Backend() string { return "generic" }
