//go:build verif

package x448

// C12: doubleGeneric of dh/x448 against its field formula on math/big (see the helpers file for
// the operand lists). The only unexported identifier of the package named here is doubleGeneric.

import (
	"math/big"
	"testing"

	fp "github.com/cloudflare/circl/math/fp448"
)

func TestVerifC12_x448doublegeneric(t *testing.T) {
	r, l, k := c12Begin(t, "x448doublegeneric")
	defer r.Finish()
	l.Double = map[string]func(x, z *big.Int) (*big.Int, *big.Int){
		"doubleGeneric": func(x, z *big.Int) (*big.Int, *big.Int) {
			a, b := c12Elt(x), c12Elt(z)
			doubleGeneric(&a, &b)
			return c12Int(&a), c12Int(&b)
		},
	}
	l.CheckDouble(r, k.pts)
	r.RequireCounter("x448.doubleGeneric", 500)
	_ = fp.Size
}
