//go:build verif

package x448

// Digest of the unexported package table tableGenerator, used by the C06 units to attribute
// a corrupted global to the unit that corrupted it. Names tableGenerator only.

import (
	"crypto/sha256"
	"encoding/hex"

	"github.com/cloudflare/circl/internal/verifc06"
)

func init() {
	verifc06.RegisterTable("x448", "tableGenerator", func() string {
		h := sha256.New()
		h.Write(tableGenerator[:])
		return hex.EncodeToString(h.Sum(nil)[:8])
	})
}
