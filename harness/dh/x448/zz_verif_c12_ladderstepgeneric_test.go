//go:build verif

package x448

// C12: ladderStepGeneric of dh/x448 against its field formula on math/big (see the helpers file for
// the operand lists). The only unexported identifier of the package named here is ladderStepGeneric.

import (
	"math/big"
	"testing"

	fp "github.com/cloudflare/circl/math/fp448"
)

func TestVerifC12_x448ladderstepgeneric(t *testing.T) {
	r, l, k := c12Begin(t, "x448ladderstepgeneric")
	defer r.Finish()
	l.LadderStep = map[string]func(w [5]*big.Int, b uint) [5]*big.Int{
		"ladderStepGeneric": func(in [5]*big.Int, b uint) [5]*big.Int { w := c12W(in); ladderStepGeneric(&w, b); return c12WOut(&w) },
	}
	l.CheckLadderStep(r, k.cases)
	r.RequireCounter("x448.ladderStepGeneric", 5000)
	_ = fp.Size
}
