//go:build verif && (!amd64 || purego)

package x448

// curve_noasm.go is compiled: the ladder steps are the *Generic routines.
func init() { C14ReadBackend = func() string { return "generic" } }
