//go:build verif

package x448

// C12: ladderStep of dh/x448 against its field formula on math/big (see the helpers file for
// the operand lists). The only unexported identifier of the package named here is ladderStep.

import (
	"math/big"
	"testing"

	fp "github.com/cloudflare/circl/math/fp448"
)

func TestVerifC12_x448ladderstep(t *testing.T) {
	r, l, k := c12Begin(t, "x448ladderstep")
	defer r.Finish()
	l.LadderStep = map[string]func(w [5]*big.Int, b uint) [5]*big.Int{
		"ladderStep": func(in [5]*big.Int, b uint) [5]*big.Int { w := c12W(in); ladderStep(&w, b); return c12WOut(&w) },
	}
	l.CheckLadderStep(r, k.cases)
	r.RequireCounter("x448.ladderStep", 5000)
	_ = fp.Size
}
