//go:build verif

package x448

// C12: mulA24Generic of dh/x448 against its field formula on math/big (see the helpers file for
// the operand lists). The only unexported identifier of the package named here is mulA24Generic.

import (
	"math/big"
	"testing"

	fp "github.com/cloudflare/circl/math/fp448"
)

func TestVerifC12_x448mula24generic(t *testing.T) {
	r, l, k := c12Begin(t, "x448mula24generic")
	defer r.Finish()
	l.MulA24 = map[string]func(x *big.Int) *big.Int{
		"mulA24Generic":      func(x *big.Int) *big.Int { a, z := c12Elt(x), fp.Elt{}; mulA24Generic(&z, &a); return c12Int(&z) },
		"mulA24Generic[z=x]": func(x *big.Int) *big.Int { a := c12Elt(x); mulA24Generic(&a, &a); return c12Int(&a) },
	}
	l.CheckMulA24(r, k.all, true)
	r.RequireCounter("x448.mulA24Generic", 500)
}
