//go:build verif && amd64 && !purego

package x448

// Read-out of the switch the ladder assembly tests (CHECK_BMI2ADX, curve_amd64.s). Only this file names hasBmi2Adx.
func init() {
	C14ReadBackend = func() string {
		if hasBmi2Adx {
			return "asm-bmi2adx"
		}
		return "asm-legacy"
	}
}
