//go:build verif && amd64 && !purego

package x448

// c14Backend reads the switch the ladder assembly tests (CHECK_BMI2ADX, curve_amd64.s).
func c14Backend() string {
	if hasBmi2Adx {
		return "asm-bmi2adx"
	}
	return "asm-legacy"
}
