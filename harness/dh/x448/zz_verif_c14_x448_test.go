//go:build verif

package x448_test

// C14 for dh/x448: KeyGen (Joye ladder) and Shared (Montgomery ladder) over a fixed alphabet of
// secrets x peer values under each configuration.

import (
	"encoding/hex"
	"fmt"
	"strings"
	"testing"

	dh "github.com/cloudflare/circl/dh/x448"
	"github.com/cloudflare/circl/internal/verifc14"
)

func TestVerifC14_x448(t *testing.T) {
	c := verifc14.Start(t, "x448")
	c.BackendOptional("dh/x448.hasBmi2Adx", dh.C14ReadBackend, verifc14.FpSel)
	m1, b63 := ^uint64(0), uint64(1)<<63
	wide := []uint64{1, 2, 5, 1<<32 - 1, 1 << 32, 1<<32 + 1, b63 - 1, b63, b63 + 1, m1 - 1<<32, m1 - 1<<32 + 1, m1 - 2, m1 - 1}
	p := make([]byte, dh.Size)
	for i := range p {
		p[i] = 0xff
	}
	p[28] = 0xfe
	// 4 * (group order of Curve448), little endian: the clamped secret that maps every point to the identity
	order4L, _ := hex.DecodeString("cc1361ad4a0ae38d543d1637ca09b38540da58bb266d3b11a78f28f3fd" + strings.Repeat("ff", 27))
	if len(order4L) != dh.Size {
		t.Fatal("bad constant")
	}
	five := make([]byte, dh.Size)
	five[0] = 5
	named := map[string][]byte{"p": p, "5": five, "2^448-20": verifc14.AddSmall(make([]byte, dh.Size), -20)}
	for i, lo := range verifc14.LowOrder448() { // public constants, same values and order as the package's table
		named[fmt.Sprintf("low%d", i)] = append([]byte{}, lo...)
	}
	all := verifc14.FieldAlphabet(7, wide, named, -2, 19, c.R.Pick(8, 32), "x448-public")
	secrets := verifc14.DHSecrets(dh.Size, c.R.Thorough(), c.R.Seed())
	secrets = append(secrets, verifc14.Named{Name: "4L", V: order4L}, verifc14.Named{Name: "4L+4", V: verifc14.AddSmall(order4L, 4)})
	shared := append(append([]verifc14.Named{}, secrets[:10]...), secrets[len(secrets)-2:]...)
	if c.R.Thorough() {
		shared = append(shared, verifc14.Thin(secrets[10:len(secrets)-2], 48)...)
	}
	c.R.Rule("peer values: every 56-byte string with limbs in {0,2^64-1}, every string one limb away from 00../FF.. over a 13-value limb list, " +
		"-2..+19 around p, 5, 2^448-20 and the three low-order points of the package table, SHAKE-derived strings; secrets: SEEDS(56), 3 SHAKE strings, 0x55../0xaa.., 4L, 4L+4, single-bit secrets " +
		"(all 448 in the thorough tier, byte-boundary bits in the quick tier). KeyGen on every secret; Shared on 12 secrets (quick) / about 60 secrets (thorough: every 8th single-bit secret added) x every peer value; a case = one peer value, digest over all secrets (bytes + ok flag)")
	c.R.NotExhaustive("secrets and peer values are the declared alphabets")
	verifc14.RunDH(c, &verifc14.DH{
		Name: "X448", Size: dh.Size,
		KeyGen: func(s []byte) []byte {
			var pk, sk dh.Key
			copy(sk[:], s)
			dh.KeyGen(&pk, &sk)
			return pk[:]
		},
		Shared: func(s, u []byte) ([]byte, bool) {
			var ss, sk, pk dh.Key
			copy(sk[:], s)
			copy(pk[:], u)
			ok := dh.Shared(&ss, &sk, &pk)
			return ss[:], ok
		},
	}, secrets, shared, all)
	c.R.RequireCounter("shared_flagged_false", 5)
	c.Finish(300)
}
