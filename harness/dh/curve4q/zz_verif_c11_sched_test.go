//go:build verif

package curve4q_test

// C11 (schedules): two parties computing shared secrets from one shared
// public-key array (FourQ point decoding must not disturb its input).

import (
	"os"
	"testing"

	"github.com/cloudflare/circl/dh/curve4q"
	"github.com/cloudflare/circl/internal/verifmc"
	"github.com/cloudflare/circl/internal/verifmc/sched"
)

type c11C4QShared struct{ pub *curve4q.Key }

func c11C4QScenarios() []sched.Scenario {
	// find a public key whose encoding has the sign bit (bit 255) set
	var pub, sec curve4q.Key
	for i := 0; ; i++ {
		copy(sec[:], verifmc.Shake("c11-4q-peer"+string(rune('a'+i)), 32))
		curve4q.KeyGen(&pub, &sec)
		if pub[31]&0x80 != 0 {
			break
		}
		if i > 64 {
			panic("no public key with the sign bit set found")
		}
	}
	fresh := func() interface{} {
		p := pub
		return &c11C4QShared{&p}
	}
	shared := func(label string) func(interface{}) interface{} {
		return func(sh interface{}) interface{} {
			var sk, out curve4q.Key
			copy(sk[:], verifmc.Shake(label, 32))
			ok := curve4q.Shared(&out, &sk, sh.(*c11C4QShared).pub)
			if !ok {
				return "Shared failed"
			}
			return append([]byte{}, out[:]...)
		}
	}
	return []sched.Scenario{
		{Name: "curve4q/Shared||Shared", Setup: fresh, Threads: []func(interface{}) interface{}{shared("c11-4q-a"), shared("c11-4q-b")}},
		{Name: "curve4q/Shared||Shared||Shared", Setup: fresh, Threads: []func(interface{}) interface{}{shared("c11-4q-a"), shared("c11-4q-b"), shared("c11-4q-c")}},
	}
}

func TestVerifC11_sched_curve4q(t *testing.T) {
	if os.Getenv("VERIF_CONFIG") != "sched" {
		t.Skip("runs only under the instrumented configuration")
	}
	r := verifmc.Start(t, "C11", "sched_curve4q")
	defer r.Finish()
	r.Rule("every schedule up to the completed preemption bound of 2-3 Shared() calls reading one public-key array whose sign bit is set; non-trivial = distinct scenario")
	sched.RunScenarios(r, c11C4QScenarios(), 2)
}

func TestVerifC11_race_curve4q(t *testing.T) {
	if os.Getenv("VERIF_CONFIG") != "race" {
		t.Skip("runs only under -race")
	}
	r := verifmc.Start(t, "C11", "race_curve4q")
	defer r.Finish()
	r.Rule("same scenario bodies on free-running goroutines under the race detector")
	sched.FreeRun(r, c11C4QScenarios(), r.Pick(50, 300))
}
