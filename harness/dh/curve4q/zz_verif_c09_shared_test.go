//go:build verif

package curve4q_test

// C09 / FourQ Diffie-Hellman: Shared parses the peer's public key, clears the
// cofactor 392 and multiplies. For every public-key string of the FourQ
// alphabet: success implies that the string is the canonical encoding of a
// curve point, that the shared value is the encoding of [k]([392]P) computed by
// the reference (so a point with a torsion component gives the value of its
// cofactor-cleared image) and that it is not the identity.

import (
	"bytes"
	"testing"

	"github.com/cloudflare/circl/dh/curve4q"
	"github.com/cloudflare/circl/internal/verifmc"
	"github.com/cloudflare/circl/internal/verifref/c09ref"
	"github.com/cloudflare/circl/internal/verifref/ecurve"
	"github.com/cloudflare/circl/internal/verifref/fpx"
)

func TestVerifC09_curve4q(t *testing.T) {
	r := verifmc.Start(t, "C09", "curve4q")
	defer r.Finish()
	r.Rule("public keys: the FourQ point alphabet of unit fourq (flips of 1 quick / 11 thorough bases) plus the constructed special points (a coordinate 0, +-1, +-j, +-j*i, j<4 quick / 16 thorough; all 392 small-order points) and the library's own public keys; secrets: a SHAKE value (thorough: also N-1, 1, 2^256-1); " +
		"distinct = distinct (secret, public key bytes)")
	c := ecurve.FourQ()
	cases := c09ref.FourQCases(c09ref.EdOptions{FlipBases: r.Pick(1, 11), Special: int64(r.Pick(4, 16))})
	secrets := [][]byte{verifmc.Shake("c09-4q-secret-0", 32)}
	if r.Thorough() {
		secrets = append(secrets, fpx.ToLE(c09ref.Scalars(c.N)[1].V, 32), fpx.ToLE(c09ref.Scalars(c.N)[0].V, 32), bytes.Repeat([]byte{0xff}, 32))
	}
	for i, s := range secrets {
		var sec, pub curve4q.Key
		copy(sec[:], s)
		curve4q.KeyGen(&pub, &sec)
		cases = append(cases, c09ref.Case{Name: "lib/pub" + string(rune('0'+i)), Class: "valid-lib", Data: c09ref.Clone(pub[:])})
	}
	cases = c09ref.Dedup(cases)
	type out struct {
		ran, panicked, ok bool
		shared            curve4q.Key
		v                 c09ref.Verdict
		want              []byte
		nonid             bool
	}
	for si, s := range secrets {
		si, s := si, s
		res := make([]out, len(cases))
		verifmc.ParallelFor(len(cases), func(i int) {
			id := "curve4q.Shared|s" + string(rune('0'+si)) + "|" + cases[i].Name
			if !r.Want(id) {
				return
			}
			o := &res[i]
			o.ran = true
			var sec, pub curve4q.Key
			copy(sec[:], s)
			copy(pub[:], cases[i].Data)
			o.panicked, _ = verifmc.Try(func() { o.ok = curve4q.Shared(&o.shared, &sec, &pub) })
			r.Eval(1)
			var P ecurve.Point
			if P, o.v = c09ref.FourQDecode(cases[i].Data); o.v.Member && (o.ok || cases[i].Class == "torsion" || cases[i].Class == "valid-lib") {
				o.want, o.nonid = c09ref.FourQShared(s, P)
			}
		})
		for i, cs := range cases {
			o := &res[i]
			if !o.ran {
				continue
			}
			id := "curve4q.Shared|s" + string(rune('0'+si)) + "|" + cs.Name
			r.Distinct(si, cs.Data)
			r.Count("in:"+cs.Class, 1)
			replay := map[string]string{"secret": verifmc.FullHex(s), "public": verifmc.FullHex(cs.Data), "case": cs.Name}
			if o.panicked {
				r.Count("panics_left_to_C10", 1)
				continue
			}
			v := o.v
			if !o.ok {
				r.Outcome(cs.Class + ":refused")
				r.Count("refused", 1)
				if v.Member && o.want != nil {
					if o.nonid {
						// refusing a good key is not a C09 matter; own keys are
						if cs.Class == "valid-lib" {
							r.Violation("C09|curve4q.Shared|refuses-own-public-key|valid-lib", id, "Shared fails on a public key made by KeyGen", replay)
						}
						r.Count("refused_good_key", 1)
					} else {
						r.Count("refused_pure_torsion", 1)
					}
				}
				continue
			}
			r.Outcome(cs.Class + ":ok")
			r.Count("ok", 1)
			if !v.Member {
				r.Violation("C09|curve4q.Shared|accepted:"+v.Reason+"|"+cs.Class, id,
					"Shared succeeds on a public key that is not a canonical point encoding ("+v.Reason+"): "+verifmc.Hex(cs.Data), replay)
				continue
			}
			want, nonid := o.want, o.nonid
			replay["shared"] = verifmc.FullHex(o.shared[:])
			replay["expected"] = verifmc.FullHex(want)
			switch {
			case !nonid:
				r.Violation("C09|curve4q.Shared|identity-shared-value|"+cs.Class, id,
					"Shared succeeds although [k][392]P is the identity (public key in the 392-torsion)", replay)
			case !bytes.Equal(want, o.shared[:]):
				r.Violation("C09|curve4q.Shared|wrong-shared-value|"+cs.Class, id,
					"shared value differs from the encoding of [k]([392]P)", replay)
			default:
				if cs.Class == "torsion" {
					r.Count("torsion_cleared_ok", 1)
				}
			}
		}
	}
	r.RequireCounter("in:torsion", 60)
	r.RequireCounter("torsion_cleared_ok", 40)
	r.RequireCounter("refused_pure_torsion", 40)
	r.RequireCounter("ok", 100)
}
