//go:build verif

package sidh_test

import (
	"github.com/cloudflare/circl/dh/sidh/internal/p434"
	"github.com/cloudflare/circl/internal/verifc14"
)

// Read-out of the dispatch variables the p434 assembly tests. Only this file names them.
func init() {
	c14ReadP434 = func() string { return c14Three(verifc14.PuregoTag, false, p434.HasADXandBMI2) }
}
