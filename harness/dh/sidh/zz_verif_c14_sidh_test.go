//go:build verif

package sidh_test

// C14 for dh/sidh: SIDH key generation and secret derivation (both torsion groups) and the SIKE KEM
// for p434, p503, p751 under each configuration. Back-ends: arith_generic.go (purego), arith_amd64.s
// with three multiplication / reduction paths chosen inside the assembly by HasADXandBMI2 / HasBMI2.

import (
	"bytes"
	"fmt"
	"testing"

	"github.com/cloudflare/circl/dh/sidh"
	"github.com/cloudflare/circl/internal/verifc14"
	"github.com/cloudflare/circl/internal/verifmc"
)

// read-out hooks, installed by the zz_verif_c14_be_p*_test.go files
var c14ReadP434, c14ReadP503, c14ReadP751 func() string

func c14Three(purego, bmi2, adxbmi2 bool) string {
	switch {
	case purego:
		return "generic"
	case adxbmi2:
		return "asm-mulx-adx"
	case bmi2:
		return "asm-mulx"
	}
	return "asm-legacy"
}

type c14Prime struct {
	name string
	id   uint8
	kem  func(rng *verifmc.DetReader) *sidh.KEM
}

func c14Primes() []c14Prime {
	return []c14Prime{
		{"p434", sidh.Fp434, func(r *verifmc.DetReader) *sidh.KEM { return sidh.NewSike434(r) }},
		{"p503", sidh.Fp503, func(r *verifmc.DetReader) *sidh.KEM { return sidh.NewSike503(r) }},
		{"p751", sidh.Fp751, func(r *verifmc.DetReader) *sidh.KEM { return sidh.NewSike751(r) }},
	}
}

// c14PubPatterns: public-key strings (three Fp2 x-coordinates) whose field elements are below p but sit
// on limb boundaries; Import documents "no validation", so they are legal inputs of Import/Export/DeriveSecret.
func c14PubPatterns(size int) []verifc14.Named {
	coord := size / 6
	mk := func(f func(i, k int) byte) []byte {
		b := make([]byte, size)
		for e := 0; e < 6; e++ {
			for k := 0; k < coord-2; k++ { // the two top bytes stay 0: every element is far below p
				b[e*coord+k] = f(e, k)
			}
		}
		return b
	}
	return []verifc14.Named{
		{Name: "zero", V: mk(func(i, k int) byte { return 0 })},
		{Name: "one", V: mk(func(i, k int) byte {
			if k == 0 {
				return 1
			}
			return 0
		})},
		{Name: "FF", V: mk(func(i, k int) byte { return 0xff })},
		{Name: "limb-alt", V: mk(func(i, k int) byte {
			if (k/8)%2 == 0 {
				return 0xff
			}
			return 0
		})},
		{Name: "top-of-limb", V: mk(func(i, k int) byte {
			if k%8 == 7 {
				return 0x80
			}
			return 0
		})},
		{Name: "mixed", V: mk(func(i, k int) byte {
			switch i % 3 {
			case 0:
				return 0xff
			case 1:
				if k%8 == 0 {
					return 1
				}
				return 0
			}
			return byte(k*37 + i)
		})},
	}
}

func TestVerifC14_sidh(t *testing.T) {
	c := verifc14.Start(t, "sidh")
	// the dispatch variables are exported names of internal packages: each is read by its own small file
	// (zz_verif_c14_be_p434/p503/p751_test.go) through a hook, so that a rename costs the read-out only
	c.BackendOptional("dh/sidh/internal/p434.HasADXandBMI2", c14ReadP434, func(f verifc14.Features) string {
		return c14Three(f.Purego, false, f.BMI2 && f.ADX)
	})
	c.BackendOptional("dh/sidh/internal/p503.{HasBMI2,HasADXandBMI2}", c14ReadP503, verifc14.ThreeSel)
	c.BackendOptional("dh/sidh/internal/p751.{HasBMI2,HasADXandBMI2}", c14ReadP751, verifc14.ThreeSel)
	r := c.R
	nseed := r.Pick(2, 5)
	r.Set("key_seeds", nseed)
	r.Rule("per prime (p434, p503, p751): SIDH: private keys A and B generated from fixed SHAKE streams plus the smallest and largest key of each key space; " +
		"public keys, the four cross derivations per seed pair; Import/Export and DeriveSecret on six limb-structured (unvalidated) public-key strings (DeriveSecret returns random bytes by design when its validation fails: the pass/fail verdict is compared, the value only when it passed); " +
		"SIKE: key pair, Encapsulate with a fixed random stream, Decapsulate, Decapsulate of the ciphertext with its first / last bit flipped")
	r.NotExhaustive("declared seeds and patterns")

	type job struct {
		p    c14Prime
		kind string
		i    int
	}
	var jobs []job
	for _, p := range c14Primes() {
		for i := 0; i < nseed+2; i++ {
			jobs = append(jobs, job{p, "sidh", i})
		}
		for i := range c14PubPatterns(6) {
			jobs = append(jobs, job{p, "pattern", i})
		}
		for i := 0; i < r.Pick(1, 3); i++ {
			jobs = append(jobs, job{p, "sike", i})
		}
	}
	mkPrv := func(p c14Prime, v sidh.KeyVariant, i int) *sidh.PrivateKey {
		prv := sidh.NewPrivateKey(p.id, v)
		if err := prv.Generate(verifmc.NewDetReader(fmt.Sprintf("c14-sidh-%s-%d-%d", p.name, v, i))); err != nil {
			panic(err)
		}
		switch i {
		case nseed: // smallest key of the key space: only the forced top bit
			top := prv.Scalar[len(prv.Scalar)-1]
			for k := range prv.Scalar {
				prv.Scalar[k] = 0
			}
			msb := byte(0x80)
			for msb != 0 && top&msb == 0 {
				msb >>= 1
			}
			prv.Scalar[len(prv.Scalar)-1] = msb
		case nseed + 1: // largest key: every bit below the top set
			top := prv.Scalar[len(prv.Scalar)-1]
			msb := byte(0x80)
			for msb != 0 && top&msb == 0 {
				msb >>= 1
			}
			for k := range prv.Scalar {
				prv.Scalar[k] = 0xff
			}
			prv.Scalar[len(prv.Scalar)-1] = msb | (msb - 1)
		}
		return prv
	}
	verifmc.ParallelFor(len(jobs), func(ji int) {
		j := jobs[ji]
		p := j.p
		switch j.kind {
		case "sidh":
			c.Case(fmt.Sprintf("%s/SIDH#key%d", p.name, j.i), func(d *verifc14.D) {
				a, b := mkPrv(p, sidh.KeyVariantSidhA, j.i), mkPrv(p, sidh.KeyVariantSidhB, j.i)
				pa, pb := sidh.NewPublicKey(p.id, sidh.KeyVariantSidhA), sidh.NewPublicKey(p.id, sidh.KeyVariantSidhB)
				a.GeneratePublicKey(pa)
				b.GeneratePublicKey(pb)
				ea, eb := make([]byte, pa.Size()), make([]byte, pb.Size())
				pa.Export(ea)
				pb.Export(eb)
				d.Bytes("scalarA", a.Scalar)
				d.Bytes("scalarB", b.Scalar)
				d.Bytes("pubA", ea)
				d.Bytes("pubB", eb)
				s1, s2 := make([]byte, a.SharedSecretSize()), make([]byte, b.SharedSecretSize())
				a.DeriveSecret(s1, pb)
				b.DeriveSecret(s2, pa)
				d.Bytes("ssA", s1)
				d.Bytes("ssB", s2)
				d.Exec(4)
				// re-imported public keys and the other seed's keys
				pb2 := sidh.NewPublicKey(p.id, sidh.KeyVariantSidhB)
				d.Err("import", pb2.Import(eb))
				a.DeriveSecret(s1, pb2)
				d.Bytes("ssA.reimported", s1)
				b0 := mkPrv(p, sidh.KeyVariantSidhB, 0)
				pb0 := sidh.NewPublicKey(p.id, sidh.KeyVariantSidhB)
				b0.GeneratePublicKey(pb0)
				a.DeriveSecret(s1, pb0)
				b0.DeriveSecret(s2, pa)
				d.Bytes("ssA.key0", s1)
				d.Bytes("ssB.key0", s2)
				d.Exec(4)
			})
		case "pattern":
			c.Case(fmt.Sprintf("%s/UnvalidatedPublicKey#pattern%d", p.name, j.i), func(d *verifc14.D) {
				for _, v := range []sidh.KeyVariant{sidh.KeyVariantSidhA, sidh.KeyVariantSidhB} {
					pub := sidh.NewPublicKey(p.id, v)
					pat := c14PubPatterns(pub.Size())[j.i]
					d.Err("import", pub.Import(pat.V))
					out := make([]byte, pub.Size())
					pub.Export(out)
					d.Bytes(fmt.Sprintf("export.%d", v), out)
					other := sidh.KeyVariantSidhA
					if v == sidh.KeyVariantSidhA {
						other = sidh.KeyVariantSidhB
					}
					prv := mkPrv(p, other, 0)
					// DeriveSecret validates the public key and, by design, returns crypto/rand bytes when validation fails:
					// two derivations agree exactly when the key passed validation, and only then is the value an output.
					ss, ss2 := make([]byte, prv.SharedSecretSize()), make([]byte, prv.SharedSecretSize())
					prv.DeriveSecret(ss, pub)
					prv.DeriveSecret(ss2, pub)
					passed := bytes.Equal(ss, ss2)
					d.Bool(fmt.Sprintf("validated.%d", v), passed)
					if passed {
						d.Bytes(fmt.Sprintf("ss.%d", v), ss)
						r.Count("unvalidated_key_passed_validation", 1)
					} else {
						r.Count("unvalidated_key_failed_validation", 1)
					}
					d.Exec(4)
				}
			})
		case "sike":
			c.Case(fmt.Sprintf("%s/SIKE#key%d", p.name, j.i), func(d *verifc14.D) {
				prv := sidh.NewPrivateKey(p.id, sidh.KeyVariantSike)
				if err := prv.Generate(verifmc.NewDetReader(fmt.Sprintf("c14-sike-%s-%d", p.name, j.i))); err != nil {
					panic(err)
				}
				pub := sidh.NewPublicKey(p.id, sidh.KeyVariantSike)
				prv.GeneratePublicKey(pub)
				epk := make([]byte, pub.Size())
				pub.Export(epk)
				d.Bytes("pk", epk)
				kem := p.kem(verifmc.NewDetReader(fmt.Sprintf("c14-sike-enc-%s-%d", p.name, j.i)))
				ct, ss := make([]byte, kem.CiphertextSize()), make([]byte, kem.SharedSecretSize())
				d.Err("encaps", kem.Encapsulate(ct, ss, pub))
				d.Bytes("ct", ct)
				d.Bytes("ss", ss)
				ss2 := make([]byte, kem.SharedSecretSize())
				d.Err("decaps", kem.Decapsulate(ss2, prv, pub, ct))
				d.Bytes("ss.decaps", ss2)
				for _, bit := range []int{0, len(ct)*8 - 1} {
					bad := verifmc.Flip(ct, bit)
					d.Err("decaps.flip", kem.Decapsulate(ss2, prv, pub, bad))
					d.Bytes(fmt.Sprintf("ss.flip%d", bit), ss2)
				}
				d.Exec(5)
			})
		}
	})
	c.Finish(r.Pick(33, 40))
}
