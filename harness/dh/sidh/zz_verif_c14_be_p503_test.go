//go:build verif

package sidh_test

import (
	"github.com/cloudflare/circl/dh/sidh/internal/p503"
	"github.com/cloudflare/circl/internal/verifc14"
)

// Read-out of the dispatch variables the p503 assembly tests. Only this file names them.
func init() {
	c14ReadP503 = func() string { return c14Three(verifc14.PuregoTag, p503.HasBMI2, p503.HasADXandBMI2) }
}
