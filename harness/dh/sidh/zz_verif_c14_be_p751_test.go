//go:build verif

package sidh_test

import (
	"github.com/cloudflare/circl/dh/sidh/internal/p751"
	"github.com/cloudflare/circl/internal/verifc14"
)

// Read-out of the dispatch variables the p751 assembly tests. Only this file names them.
func init() {
	c14ReadP751 = func() string { return c14Three(verifc14.PuregoTag, p751.HasBMI2, p751.HasADXandBMI2) }
}
