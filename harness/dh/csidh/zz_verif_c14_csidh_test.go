//go:build verif

package csidh_test

// C14 for dh/csidh: public-key generation, validation and secret derivation for fixed private keys
// under each configuration. Back-ends: fp511_noasm.go (purego); amd64: mul512 with MULX or MULQ
// (hasBMI2, tested in the assembly) and the Montgomery multiplication mulBmiAsm or Go mulGeneric
// (hasADXandBMI2). The group action draws random points from the caller's rng: every call gets its
// own fixed SHAKE stream, the same in every configuration.

import (
	"fmt"
	"math/big"
	"testing"

	"github.com/cloudflare/circl/dh/csidh"
	"github.com/cloudflare/circl/internal/verifc14"
	"github.com/cloudflare/circl/internal/verifmc"
)

func c14Prv(name string) *csidh.PrivateKey {
	var k csidh.PrivateKey
	fill := func(b byte) {
		raw := make([]byte, csidh.PrivateKeySize)
		for i := range raw {
			raw[i] = b
		}
		if !k.Import(raw) {
			panic("import")
		}
	}
	switch name {
	case "zero":
		fill(0)
	case "all+5":
		fill(0x55)
	case "all-5":
		fill(0xbb)
	case "all+1":
		fill(0x11)
	case "+5/-5":
		fill(0xb5)
	default:
		if err := csidh.GeneratePrivateKey(&k, verifmc.NewDetReader("c14-csidh-prv-"+name)); err != nil {
			panic(err)
		}
	}
	return &k
}

func TestVerifC14_csidh(t *testing.T) {
	c := verifc14.Start(t, "csidh")
	c.BackendOptional("dh/csidh.{hasBMI2,hasADXandBMI2}", csidh.C14ReadBackend, verifc14.ThreeSel)
	r := c.R
	keys := []string{"zero", "seed0", "seed1", "all+1"}
	if r.Thorough() {
		keys = append(keys, "all+5", "all-5", "+5/-5", "seed2", "seed3", "seed4")
	}
	r.Set("private_keys", keys)
	r.Rule("private keys: all exponents 0, all +1 (thorough: all +5, all -5, alternating +5/-5), keys generated from fixed SHAKE streams; per key: exported private key, GeneratePublicKey, Validate, " +
		"DeriveSecret with the public key of the next key (both directions over the cycle); Validate / DeriveSecret on fixed non-key values (0, 1, 2, p-2, p-1, p, FF.., limb patterns, SHAKE strings)")
	r.NotExhaustive("declared private keys and public values")

	pubs := make([][]byte, len(keys))
	verifmc.ParallelFor(len(keys), func(i int) {
		var pub csidh.PublicKey
		csidh.GeneratePublicKey(&pub, c14Prv(keys[i]), verifmc.NewDetReader("c14-csidh-gen-"+keys[i]))
		pubs[i] = make([]byte, csidh.PublicKeySize)
		pub.Export(pubs[i])
	})
	// fixed public values
	// p = 4 * 3 * 5 * ... * 373 * 587 - 1 (CSIDH-512): the 73 smallest odd primes and 587; computed here, not read from the package
	pInt := big.NewInt(4)
	nprimes := 0
	for q := int64(3); nprimes < 73; q += 2 {
		if big.NewInt(q).ProbablyPrime(20) {
			pInt.Mul(pInt, big.NewInt(q))
			nprimes++
		}
	}
	pInt.Mul(pInt, big.NewInt(587))
	pInt.Sub(pInt, big.NewInt(1))
	if pInt.BitLen() != 511 {
		t.Fatalf("CSIDH-512 prime reconstructed with %d bits", pInt.BitLen())
	}
	pbytes := pInt.FillBytes(make([]byte, csidh.PublicKeySize))
	for i, j := 0, len(pbytes)-1; i < j; i, j = i+1, j-1 {
		pbytes[i], pbytes[j] = pbytes[j], pbytes[i]
	}
	vals := []verifc14.Named{}
	for k := -2; k <= 1; k++ {
		vals = append(vals, verifc14.Named{Name: fmt.Sprintf("p%+d", k), V: verifc14.AddSmall(pbytes, k)})
	}
	for k := 0; k <= 3; k++ {
		vals = append(vals, verifc14.Named{Name: fmt.Sprintf("%d", k), V: verifc14.AddSmall(make([]byte, csidh.PublicKeySize), k)})
	}
	vals = append(vals, verifc14.Named{Name: "FF..", V: verifc14.AddSmall(make([]byte, csidh.PublicKeySize), -1)})
	for i, b := range verifc14.Pseudo("csidh-pub", r.Pick(3, 12), csidh.PublicKeySize) {
		b[csidh.PublicKeySize-1] &= 0x3f // below p
		vals = append(vals, verifc14.Named{Name: fmt.Sprintf("pseudo%d", i), V: b})
	}
	for i, b := range verifc14.OneLimbAway(8, []uint64{1, 1 << 63})[:r.Pick(8, 16)] {
		vals = append(vals, verifc14.Named{Name: fmt.Sprintf("away%d", i), V: b})
	}
	r.Set("fixed_public_values", len(vals))

	n := len(keys)
	verifmc.ParallelFor(n+len(vals), func(i int) {
		if i < n {
			name := keys[i]
			c.Case("KeyPair#"+name, func(d *verifc14.D) {
				prv := c14Prv(name)
				raw := make([]byte, csidh.PrivateKeySize)
				d.Bool("export.ok", prv.Export(raw))
				d.Bytes("prv", raw)
				d.Bytes("pub", pubs[i])
				var pub csidh.PublicKey
				d.Bool("import.ok", pub.Import(pubs[i]))
				d.Bool("validate", csidh.Validate(&pub, verifmc.NewDetReader("c14-csidh-val-"+name)))
				// exchange with the next key of the cycle, both directions
				j := (i + 1) % n
				var peer csidh.PublicKey
				peer.Import(pubs[j])
				var ss1, ss2 [64]byte
				ok1 := csidh.DeriveSecret(&ss1, &peer, prv, verifmc.NewDetReader("c14-csidh-ds1-"+name))
				ok2 := csidh.DeriveSecret(&ss2, &pub, c14Prv(keys[j]), verifmc.NewDetReader("c14-csidh-ds2-"+name))
				d.Bool("derive1.ok", ok1)
				d.Bytes("ss1", ss1[:])
				d.Bool("derive2.ok", ok2)
				d.Bytes("ss2", ss2[:])
				if ss1 == ss2 && ok1 && ok2 {
					r.Count("exchanges_agree", 1)
				}
				d.Exec(4)
			})
			return
		}
		v := vals[i-n]
		c.Case("FixedPublicValue#"+v.Name, func(d *verifc14.D) {
			var pub csidh.PublicKey
			d.Bool("import.ok", pub.Import(v.V))
			out := make([]byte, csidh.PublicKeySize)
			pub.Export(out)
			d.Bytes("export", out)
			ok := csidh.Validate(&pub, verifmc.NewDetReader("c14-csidh-valf-"+v.Name))
			d.Bool("validate", ok)
			d.Exec(1)
			if ok {
				r.Count("fixed_values_valid", 1)
				var ss [64]byte
				d.Bool("derive.ok", csidh.DeriveSecret(&ss, &pub, c14Prv("seed0"), verifmc.NewDetReader("c14-csidh-dsf-"+v.Name)))
				d.Bytes("ss", ss[:])
				d.Exec(1)
			} else {
				r.Count("fixed_values_invalid", 1)
			}
		})
	})
	r.RequireCounter("exchanges_agree", int64(n))
	r.RequireCounter("fixed_values_valid", 1)
	r.RequireCounter("fixed_values_invalid", 5)
	c.Finish(n + 10)
}
