//go:build verif

package csidh

// C12: modExpRdc512 / modExpRdc64 / isNonQuadRes of dh/csidh (exponentiation in the Montgomery domain) against math/big.
// Self-contained apart from the internals-free helpers file; unexported identifiers named here: fp, modExpRdc512, modExpRdc64, isNonQuadRes, pMin1By2.

import (
	"math/big"
	"testing"

	"github.com/cloudflare/circl/internal/verifmc"
	bf "github.com/cloudflare/circl/internal/verifref/bigfield"
)

func TestVerifC12_csidhmodexp(t *testing.T) {
	r, red, _ := c12Begin(t, "csidhmodexp")
	defer r.Finish()
	P := bf.PCSIDH
	f := bf.LimbField[fp]("C12", "csidh.fp", bf.PCSIDH, 8, func(e *fp) []uint64 { return e[:] }, bf.Pseudo("csidh-junk", 0, bf.PCSIDH), verifmc.ParallelFor)
	all := f.Prepare("e", red)
	small := f.Prepare("k", bf.Thin(all.Ops, r.Pick(40, 120)))
	// the exponent is not a field operand: output/exponent aliasing is not part of the property (r=b aliasing is covered below)
	f.CheckBin(r, bf.BinOp{Name: "modExpRdc512", Do: func(z, x, y bf.Elem) { modExpRdc512(z.(*fp), x.(*fp), y.(*fp)) }, Ref: c12Mexp, Canon: true, NoAlias: true}, small, small, true)
	f.CheckUn(r, bf.UnOp{Name: "modExpRdc512[(p-1)/2]", Do: func(z, x bf.Elem) { modExpRdc512(z.(*fp), x.(*fp), &pMin1By2) },
		Ref: func(out, x, p *big.Int) bool { return c12Mexp(out, x, new(big.Int).Rsh(p, 1), p) }, Canon: true}, all, true)
	for _, e := range []uint64{0, 1, 2, 3, 587, 1<<32 - 1, 1 << 32, 1<<63 - 1, 1 << 63, ^uint64(0)} {
		e := e
		f.CheckUn(r, bf.UnOp{Name: "modExpRdc64", Do: func(z, x bf.Elem) { modExpRdc64(z.(*fp), x.(*fp), e) },
			Ref: func(out, x, p *big.Int) bool { return c12Mexp(out, x, new(big.Int).SetUint64(e), p) }, Canon: true}, small, e == 587)
	}
	f.CheckPred(r, bf.Pred{Name: "isNonQuadRes", Do: func(x bf.Elem) bool { return x.(*fp).isNonQuadRes() == 1 },
		Ref: func(x, p *big.Int) bool {
			v := new(big.Int).Mul(x, c12Rinv) // value behind the Montgomery residue; 0 counts as "non-residue" (v^((p-1)/2) = 0 != 1)
			v.Mod(v, p)
			return big.Jacobi(v, p) != 1
		}}, all)
	r.RequireCounter("csidh.fp.modExpRdc512", 1000)
	r.RequireCounter("csidh.fp.isNonQuadRes.true", 20)
	_ = P
}
