//go:build verif

package csidh_test

// C11 (histories half), unit hist_csidh: explicit-state search over histories of
// Import / Export on two public-key objects and two private-key objects, against a
// value model (a key object holds the last successfully imported byte string; a fresh
// one holds zeros). After every transition every object is exported and compared, so
// "Import into a used object = Import into a fresh one" and "importing into one object
// never changes another". For every ordered pair of key values the expensive results
// (Validate, DeriveSecret) on a used object are compared with those on a fresh object.

import (
	"bytes"
	"fmt"
	"strings"
	"testing"

	"github.com/cloudflare/circl/dh/csidh"
	"github.com/cloudflare/circl/internal/verifmc"
)

type c11csLetter struct {
	name string
	data []byte
}

func c11csKeys(t testing.TB) (pubs, prvs []c11csLetter) {
	for i := 0; i < 3; i++ {
		var prv csidh.PrivateKey
		var pub csidh.PublicKey
		if err := csidh.GeneratePrivateKey(&prv, verifmc.NewDetReader(fmt.Sprintf("c11-csidh-prv-%d", i))); err != nil {
			t.Fatal(err)
		}
		csidh.GeneratePublicKey(&pub, &prv, verifmc.NewDetReader(fmt.Sprintf("c11-csidh-pub-%d", i)))
		pb := make([]byte, csidh.PublicKeySize)
		sb := make([]byte, csidh.PrivateKeySize)
		if !pub.Export(pb) || !prv.Export(sb) {
			t.Fatal("export failed")
		}
		pubs = append(pubs, c11csLetter{fmt.Sprintf("pk%c", 'A'+i), pb})
		prvs = append(prvs, c11csLetter{fmt.Sprintf("sk%c", 'A'+i), sb})
	}
	return pubs, prvs
}

// c11csObj abstracts the two key types.
type c11csObj interface {
	Import([]byte) bool
	Export([]byte) bool
}

type c11csKind struct {
	name    string
	size    int
	fresh   func() c11csObj
	letters []c11csLetter // valid encodings first, then invalid ones
}

type c11csOp struct {
	slot   int
	letter int // -1: Export only
}

func TestVerifC11_hist_csidh(t *testing.T) {
	r := verifmc.Start(t, "C11", "hist_csidh")
	defer r.Finish()
	depth := r.Pick(4, 6)
	r.Rule(fmt.Sprintf("all histories of length <= %d over {Import(x) into slot 0/1 for x in 3 valid encodings + all-FF + too-short, Export(slot)} on two objects per key type, states merged by model value; "+
		"every slot exported and compared after every transition; plus Validate/DeriveSecret on used-vs-fresh objects for every ordered pair of values; non-trivial = distinct (key type, model state) and each (pair, operation)", depth))
	pubs, prvs := c11csKeys(t)
	kinds := []c11csKind{
		{"csidh.PublicKey", csidh.PublicKeySize, func() c11csObj { return new(csidh.PublicKey) },
			append(append([]c11csLetter{}, pubs...), c11csLetter{"allFF", bytes.Repeat([]byte{0xff}, csidh.PublicKeySize)}, c11csLetter{"short", pubs[0].data[:63]})},
		{"csidh.PrivateKey", csidh.PrivateKeySize, func() c11csObj { return new(csidh.PrivateKey) },
			append(append([]c11csLetter{}, prvs...), c11csLetter{"allFF", bytes.Repeat([]byte{0xff}, csidh.PrivateKeySize)}, c11csLetter{"short", prvs[0].data[:36]})},
	}
	type viol struct {
		key, caseID, what string
		n                 int
	}
	best := map[string]*viol{}
	addViol := func(v *viol) {
		if o := best[v.key]; o == nil || v.n < o.n || (v.n == o.n && v.caseID < o.caseID) {
			best[v.key] = v
		}
	}
	for _, kd := range kinds {
		var ops []c11csOp
		for s := 0; s < 2; s++ {
			for l := range kd.letters {
				ops = append(ops, c11csOp{s, l})
			}
			ops = append(ops, c11csOp{s, -1})
		}
		opName := func(o c11csOp) string {
			if o.letter < 0 {
				return fmt.Sprintf("k%d.Export()", o.slot)
			}
			return fmt.Sprintf("k%d.Import(%s)", o.slot, kd.letters[o.letter].name)
		}
		histName := func(h []int) string {
			p := make([]string, len(h))
			for i, x := range h {
				p[i] = opName(ops[x])
			}
			return strings.Join(p, "; ")
		}
		// run replays h on fresh objects and steps the model; returns the model key and the problems of the LAST step
		run := func(h []int) (string, []string, string) {
			objs := []c11csObj{kd.fresh(), kd.fresh()}
			model := [][]byte{make([]byte, kd.size), make([]byte, kd.size)}
			unknown := []bool{false, false} // content after a failed import is not inspected
			var probs []string
			cls := ""
			for step, x := range h {
				op := ops[x]
				probs, cls = nil, ""
				if op.letter >= 0 {
					in := kd.letters[op.letter]
					buf := append([]byte{}, in.data...)
					var ok bool
					if p, what := verifmc.Try(func() { ok = objs[op.slot].Import(buf) }); p {
						probs, cls = append(probs, "panic: "+what), "panic"
						return "", probs, cls
					}
					wantOK := len(in.data) == kd.size
					if ok != wantOK {
						probs, cls = append(probs, fmt.Sprintf("%s returned %v, on a fresh object it returns %v", opName(op), ok, wantOK)), "used-vs-fresh:outcome"
					}
					if !bytes.Equal(buf, in.data) {
						probs, cls = append(probs, opName(op)+" changed its input slice"), "operand-mutated"
					}
					for i := range buf {
						buf[i] ^= 0xa5
					}
					if wantOK {
						model[op.slot], unknown[op.slot] = in.data, false
					} else {
						unknown[op.slot] = true
					}
				}
				_ = step
				for s := range objs {
					if unknown[s] {
						continue
					}
					out := make([]byte, kd.size)
					if !objs[s].Export(out) || !bytes.Equal(out, model[s]) {
						c := "used-vs-fresh:export"
						if op.letter < 0 || s != op.slot {
							c = "other-object-changed"
						}
						if cls == "" {
							cls = c
						}
						probs = append(probs, fmt.Sprintf("after %s slot k%d exports %x, a fresh object after Import(%x..) exports %x", opName(op), s, out, model[s][:4], model[s]))
					}
				}
			}
			key := ""
			for s := range objs {
				if unknown[s] {
					key += "?|"
				} else {
					key += string(model[s]) + "|"
				}
			}
			return key, probs, cls
		}
		seen := map[string]bool{}
		k0, _, _ := run(nil)
		seen[k0] = true
		r.State(1)
		frontier := [][]int{{}}
		for d := 1; d <= depth; d++ {
			var next [][]int
			for _, h := range frontier {
				for oi := range ops {
					nh := append(append([]int{}, h...), oi)
					key, probs, cls := run(nh)
					r.Transition(1)
					r.Eval(1)
					r.Trace(1)
					if ops[oi].letter >= 0 {
						r.Count("imports_into_used_or_fresh_object", 1)
					}
					if len(probs) > 0 {
						prior := "fresh-object"
						for _, x := range h {
							if ops[x].slot == ops[oi].slot && ops[x].letter >= 0 {
								prior = "used-object"
							}
						}
						addViol(&viol{key: fmt.Sprintf("C11|%s.Import|%s|%s", kd.name, cls, prior), caseID: kd.name + "|" + histName(nh), n: len(nh),
							what: fmt.Sprintf("%s after history [%s]: %s", kd.name, histName(nh), strings.Join(probs, "; "))})
						r.Outcome("diverged")
						continue
					}
					r.Outcome("agree")
					if !seen[key] {
						seen[key] = true
						r.State(1)
						r.Distinct(kd.name, key)
						next = append(next, nh)
						if d == 2 && len(next) == 3 {
							r.Sample(map[string]string{"type": kd.name, "history": histName(nh)})
						}
					}
				}
			}
			frontier = next
		}
	}
	// expensive observations on used vs fresh public keys (and private keys through GeneratePublicKey)
	var prv0 csidh.PrivateKey
	if !prv0.Import(prvs[0].data) {
		t.Fatal("import")
	}
	vals := append(append([]c11csLetter{}, pubs...), c11csLetter{"allFF", bytes.Repeat([]byte{0xff}, csidh.PublicKeySize)})
	type obs struct {
		valid, derived bool
		secret         [64]byte
	}
	observe := func(pk *csidh.PublicKey) obs {
		var o obs
		o.valid = csidh.Validate(pk, verifmc.NewDetReader("c11-csidh-validate"))
		o.derived = csidh.DeriveSecret(&o.secret, pk, &prv0, verifmc.NewDetReader("c11-csidh-derive"))
		return o
	}
	freshObs := make([]obs, len(vals))
	verifmc.ParallelFor(len(vals), func(i int) {
		var pk csidh.PublicKey
		pk.Import(append([]byte{}, vals[i].data...))
		freshObs[i] = observe(&pk)
	})
	type pair struct{ a, b int }
	var pairs []pair
	for a := range vals {
		for b := range vals {
			pairs = append(pairs, pair{a, b})
		}
	}
	res := make([]obs, len(pairs))
	verifmc.ParallelFor(len(pairs), func(i int) {
		var pk csidh.PublicKey
		pk.Import(append([]byte{}, vals[pairs[i].a].data...))
		pk.Import(append([]byte{}, vals[pairs[i].b].data...))
		res[i] = observe(&pk)
	})
	for i, p := range pairs {
		r.Eval(2)
		r.Distinct("pair", p.a, p.b)
		r.Count("validate_derive_on_used_object", 1)
		if res[i] != freshObs[p.b] {
			addViol(&viol{key: "C11|csidh.PublicKey.Import|used-vs-fresh:Validate/DeriveSecret|used-object", n: 2,
				caseID: fmt.Sprintf("pairs|%s,%s", vals[p.a].name, vals[p.b].name),
				what: fmt.Sprintf("pk.Import(%s); pk.Import(%s): Validate=%v DeriveSecret=%v/%x.., with a fresh pk.Import(%s): Validate=%v DeriveSecret=%v/%x..",
					vals[p.a].name, vals[p.b].name, res[i].valid, res[i].derived, res[i].secret[:8], vals[p.b].name, freshObs[p.b].valid, freshObs[p.b].derived, freshObs[p.b].secret[:8])})
		}
	}
	// operand immutability and repeatability of the expensive calls: the key VALUES (as exported)
	// are the same after Validate / DeriveSecret / GeneratePublicKey, and a second identical call
	// on the same objects returns the same result.
	for i, v := range vals[:3] {
		var pk csidh.PublicKey
		var sk csidh.PrivateKey
		pk.Import(append([]byte{}, v.data...))
		sk.Import(append([]byte{}, prvs[i].data...))
		exp := func() (p, s []byte) {
			p, s = make([]byte, csidh.PublicKeySize), make([]byte, csidh.PrivateKeySize)
			pk.Export(p)
			sk.Export(s)
			return
		}
		p0, s0 := exp()
		chk := func(call string) {
			r.Eval(1)
			r.Distinct("operand", call, i)
			r.Count("operand_values_compared", 1)
			p1, s1 := exp()
			if !bytes.Equal(p0, p1) {
				addViol(&viol{key: "C11|csidh." + call + "|operand-mutated|pub", caseID: "operands|" + call + "|" + v.name, n: 1,
					what: fmt.Sprintf("csidh.%s changed the VALUE of its public-key operand: it exported %x.. before the call and %x.. after", call, p0[:12], p1[:12])})
				pk = csidh.PublicKey{} // restore through a fresh object (Import into a used one is itself under test)
				pk.Import(append([]byte{}, v.data...))
			}
			if !bytes.Equal(s0, s1) {
				addViol(&viol{key: "C11|csidh." + call + "|operand-mutated|prv", caseID: "operands|" + call + "|" + v.name, n: 1,
					what: fmt.Sprintf("csidh.%s changed the value of its private-key operand", call)})
			}
		}
		csidh.Validate(&pk, verifmc.NewDetReader("c11-csidh-v2"))
		chk("Validate")
		var out1, out2 [64]byte
		ok1 := csidh.DeriveSecret(&out1, &pk, &sk, verifmc.NewDetReader("c11-csidh-d2"))
		chk("DeriveSecret")
		var q csidh.PublicKey
		csidh.GeneratePublicKey(&q, &sk, verifmc.NewDetReader("c11-csidh-g2"))
		chk("GeneratePublicKey")
		// the same call twice on the same objects
		var pk2 csidh.PublicKey
		pk2.Import(append([]byte{}, v.data...))
		ok1 = csidh.DeriveSecret(&out1, &pk2, &sk, verifmc.NewDetReader("c11-csidh-d3"))
		ok2 := csidh.DeriveSecret(&out2, &pk2, &sk, verifmc.NewDetReader("c11-csidh-d3"))
		r.Eval(2)
		r.Distinct("repeat", i)
		if ok1 != ok2 || out1 != out2 {
			addViol(&viol{key: "C11|csidh.DeriveSecret|same-call-twice-differs|same-objects", caseID: "repeat|" + v.name, n: 2,
				what: fmt.Sprintf("DeriveSecret(out, pub, prv) called twice with the same objects: first %v/%x.., second %v/%x..", ok1, out1[:8], ok2, out2[:8])})
		}
	}
	nValid := 0
	for _, o := range freshObs {
		if o.valid && o.derived {
			nValid++
		}
	}
	r.Count("fresh_keys_that_validate_and_derive", nValid)
	r.RequireCounter("fresh_keys_that_validate_and_derive", 3)
	r.RequireCounter("imports_into_used_or_fresh_object", 500)
	for _, v := range best {
		r.Violation(v.key, v.caseID, v.what, nil)
	}
}
