//go:build verif

package csidh

// C12 for the CSIDH-512 field (Montgomery form, R = 2^512; assembly
// multiplication when BMI2+ADX are present): addRdc, subRdc, mulRdc,
// modExpRdc512/64, isNonQuadRes, isZero, equal, isLess, mul512, cswap512
// against math/big. Operand domain: residues below p as 8 limbs.

import (
	"math/big"
	"testing"

	"github.com/cloudflare/circl/internal/verifmc"
	bf "github.com/cloudflare/circl/internal/verifref/bigfield"
)

func c12Fp511(name string, modulus *big.Int) *bf.Field {
	return &bf.Field{
		Prop: "C12", Name: name, P: modulus, Hex: 128,
		New: func() bf.Elem { return new(fp) },
		Load: func(z bf.Elem, v *big.Int) bool {
			if v.Sign() < 0 || v.BitLen() > 512 {
				return false
			}
			copy(z.(*fp)[:], bf.ToLimbs(v, numWords))
			return true
		},
		Copy: func(d, s bf.Elem) { *d.(*fp) = *s.(*fp) },
		Raw:  func(x bf.Elem) *big.Int { return bf.FromLimbs(x.(*fp)[:]) },
		Same: func(a, b bf.Elem) bool { return *a.(*fp) == *b.(*fp) },
		Junk: bf.Pseudo("csidh-junk", 0, modulus),
		Par:  verifmc.ParallelFor,
	}
}

func TestVerifC12_csidh(t *testing.T) {
	r := verifmc.Start(t, "C12", "csidh")
	defer r.Finish()
	if bad := bf.SelfCheck(); len(bad) != 0 {
		t.Fatalf("reference constants not bound: %v", bad)
	}
	P := bf.PCSIDH
	if bf.FromLimbs(p[:]).Cmp(P) != 0 {
		t.Fatalf("package p differs from 4*l_1*...*l_74-1")
	}
	R := bf.Pow2(512)
	Rinv := new(big.Int).ModInverse(R, P)
	if bf.FromLimbs(one[:]).Cmp(new(big.Int).Mod(R, P)) != 0 {
		t.Fatalf("package constant one is not R mod p")
	}
	r.Set("hasADXandBMI2", c12HasAdxBmi2())
	f := c12Fp511("csidh.fp", P)
	wide := []uint64{0, 1, 2, 1<<32 - 1, 1 << 32, 1<<63 - 1, 1 << 63, ^uint64(0) - 1, ^uint64(0)}
	core := bf.Rep(8, []uint64{0, ^uint64(0)})
	if r.Thorough() {
		for i := 0; i < 4; i++ {
			core[i] = []uint64{0, 1, ^uint64(0)}
		}
	}
	lp := bf.LimbProduct(8, core, bf.Rep(8, wide), 1)
	ia := bf.IntAlphabet(P, 64, 24, "csidh")
	// limb patterns taken from p itself (so that comparisons with p decide late)
	var near []bf.Operand
	pl := bf.ToLimbs(P, 8)
	for i := 0; i < 8; i++ {
		for _, d := range []uint64{1, ^uint64(0)} { // +-1 on limb i
			l := append([]uint64{}, pl...)
			l[i] += d
			near = append(near, bf.Operand{V: bf.FromLimbs(l), Name: "p+-2^64i"})
		}
	}
	all := f.Prepare("e", bf.Append(P, ia, near, lp))
	r.Set("elements", all.Len())
	r.Rule("operands: residues below p as 8 limbs: the integer alphabet around every 64/32-bit limb boundary (and p minus those, R, R^2, 1/R), p with +-1 on each limb, limb products (core^8 plus <=1 limb away from 00../FF.. over 9 limb values) below p, 24 pseudo-random; ALL ordered pairs for addRdc/subRdc/mulRdc with junk-filled output and aliasing z=x, z=y, x=y, z=x=y; mul512 on every 512-bit element (also >= p) x 12 words; pair sweeps above 1.5e6 cases are counted by the ordered_pairs counters instead of being hashed into distinct_nontrivial; a distinct case is one (operation, operand tuple)")
	r.NotExhaustive("operands are the declared alphabet, not all residues")

	mont := func(out, x, y, p *big.Int) bool { out.Mul(x, y).Mul(out, Rinv).Mod(out, p); return true }
	bin := []bf.BinOp{
		{Name: "addRdc", Do: func(z, x, y bf.Elem) { addRdc(z.(*fp), x.(*fp), y.(*fp)) }, Ref: bf.RefAdd, Canon: true},
		{Name: "subRdc", Do: func(z, x, y bf.Elem) { subRdc(z.(*fp), x.(*fp), y.(*fp)) }, Ref: bf.RefSub, Canon: true},
		{Name: "mulRdc", Do: func(z, x, y bf.Elem) { mulRdc(z.(*fp), x.(*fp), y.(*fp)) }, Ref: mont, Canon: true},
	}
	for _, op := range bin {
		f.CheckBin(r, op, all, all, op.Name == "mulRdc" && bf.HashPairs(all.Len()*all.Len()))
	}
	r.Count("ordered_pairs", all.Len()*all.Len())

	// exponentiation in the Montgomery domain: raw result = (x/R)^e * R
	small := f.Prepare("k", bf.Thin(all.Ops, r.Pick(40, 120)))
	mexp := func(out, x, e, p *big.Int) bool {
		b := new(big.Int).Mul(x, Rinv)
		b.Mod(b, p)
		out.Exp(b, e, p).Mul(out, R).Mod(out, p)
		return true
	}
	// the exponent is not a field operand: output/exponent aliasing is not part of the property (r=b aliasing is covered below)
	f.CheckBin(r, bf.BinOp{Name: "modExpRdc512", Do: func(z, x, y bf.Elem) { modExpRdc512(z.(*fp), x.(*fp), y.(*fp)) }, Ref: mexp, Canon: true, NoAlias: true}, small, small, true)
	f.CheckUn(r, bf.UnOp{Name: "modExpRdc512[(p-1)/2]", Do: func(z, x bf.Elem) { modExpRdc512(z.(*fp), x.(*fp), &pMin1By2) },
		Ref: func(out, x, p *big.Int) bool { return mexp(out, x, new(big.Int).Rsh(p, 1), p) }, Canon: true}, all, true)
	e64 := []uint64{0, 1, 2, 3, 587, 1<<32 - 1, 1 << 32, 1<<63 - 1, 1 << 63, ^uint64(0)}
	for _, e := range e64 {
		e := e
		f.CheckUn(r, bf.UnOp{Name: "modExpRdc64", Do: func(z, x bf.Elem) { modExpRdc64(z.(*fp), x.(*fp), e) },
			Ref: func(out, x, p *big.Int) bool { return mexp(out, x, new(big.Int).SetUint64(e), p) }, Canon: true}, small, e == 587)
	}
	f.CheckPred(r, bf.Pred{Name: "isNonQuadRes", Do: func(x bf.Elem) bool { return x.(*fp).isNonQuadRes() == 1 },
		Ref: func(x, p *big.Int) bool {
			v := new(big.Int).Mul(x, Rinv) // value behind the Montgomery residue; 0 counts as "non-residue" (v^((p-1)/2) = 0 != 1)
			v.Mod(v, p)
			return big.Jacobi(v, p) != 1
		}}, all)
	f.CheckPred(r, bf.Pred{Name: "isZero", Do: func(x bf.Elem) bool { return x.(*fp).isZero() }, Ref: bf.RefIsZero}, all)
	f.CheckPred(r, bf.Pred{Name: "isLess(p)", Do: func(x bf.Elem) bool { return isLess(x.(*fp), &p) }, Ref: func(x, p *big.Int) bool { return x.Cmp(p) < 0 }}, all)
	f.CheckBitFlips(r, bf.BitFlip{Coords: 1, Bits: 512, P: P, Limit: P, IsZero: func(x bf.Elem) bool { return x.(*fp).isZero() },
		IsEqual: func(x, y bf.Elem) bool { return x.(*fp).equal(y.(*fp)) }}, []bf.Operand{{V: new(big.Int), Name: "0"}, {V: big.NewInt(1), Name: "1"}, {V: new(big.Int).Sub(P, big.NewInt(1)), Name: "p-1"}, {V: bf.Pseudo("csidh-pred", 0, P), Name: "pseudo0"}, {V: bf.Pseudo("csidh-pred", 1, P), Name: "pseudo1"}})
	r.RequireCounter("csidh.fp.predicates.one-bit-neighbours", 4*510)
	r.RequireCounter("csidh.fp.isZero.true", 1)

	// integer helpers on every 512-bit string (also >= p): mul512, isLess, equal, cswap512
	g := c12Fp511("csidh.u512", R)
	var wideOps []bf.Operand
	wideOps = append(wideOps, all.Ops...)
	wideOps = append(wideOps, bf.LimbProduct(8, core, bf.Rep(8, wide), 1)...)
	wideOps = append(wideOps, bf.Around(P, 0, 2, "p")...)
	wideOps = append(wideOps, bf.Around(R, -3, -1, "2^512")...)
	u512 := g.Prepare("u", bf.Append(R, wideOps))
	r.Set("u512_elements", u512.Len())
	for _, m := range []uint64{0, 1, 2, 3, 587, 1<<32 - 1, 1 << 32, 1<<63 - 1, 1 << 63, ^uint64(0) - 1, ^uint64(0), 0x5555555555555555} {
		m := m
		g.CheckUn(r, bf.UnOp{Name: "mul512", Do: func(z, x bf.Elem) { mul512(z.(*fp), x.(*fp), m) },
			Ref: func(out, x, p *big.Int) bool { out.Mul(x, new(big.Int).SetUint64(m)).Mod(out, p); return true }}, u512, m == 587)
	}
	us := g.Prepare("v", bf.Thin(u512.Ops, r.Pick(60, 150)))
	var cmp int
	for i := 0; i < us.Len(); i++ {
		for j := 0; j < us.Len(); j++ {
			x, y := us.E[i].(*fp), us.E[j].(*fp)
			r.Eval(2)
			cmp++
			if got, want := isLess(x, y), us.Ops[i].V.Cmp(us.Ops[j].V) < 0; got != want {
				r.Violation("C12|csidh.isLess|wrong-flag|-|-", "csidh.isLess#v"+big.NewInt(int64(i)).String()+",v"+big.NewInt(int64(j)).String(),
					"isLess("+us.Ops[i].V.Text(16)+", "+us.Ops[j].V.Text(16)+") wrong", nil)
			}
			if got, want := x.equal(y), us.Ops[i].V.Cmp(us.Ops[j].V) == 0; got != want {
				r.Violation("C12|csidh.equal|wrong-flag|-|-", "csidh.equal#v"+big.NewInt(int64(i)).String()+",v"+big.NewInt(int64(j)).String(),
					"equal("+us.Ops[i].V.Text(16)+", "+us.Ops[j].V.Text(16)+") wrong", nil)
			}
		}
	}
	r.Count("csidh.isLess+equal.pairs", cmp)
	g.CheckCswap(r, "cswap512", func(x, y bf.Elem, b int) { cswap512(x.(*fp), y.(*fp), uint8(b)) }, []int{0, 1}, us, us)
	for i := 0; i < 3; i++ {
		k := i*all.Len()/3 + 5
		r.Sample(map[string]string{"element": all.Ops[k].Name, "value": all.Ops[k].V.Text(16)})
	}
}
