//go:build verif && (!amd64 || purego)

package csidh

func c12HasAdxBmi2() bool { return false }
