//go:build verif

package csidh

// C12: mul512 of dh/csidh (512-bit integer times a word, modulo 2^512) against math/big.
// Self-contained apart from the internals-free helpers file; unexported identifiers named here: fp, mul512.

import (
	"math/big"
	"testing"

	"github.com/cloudflare/circl/internal/verifmc"
	bf "github.com/cloudflare/circl/internal/verifref/bigfield"
)

func TestVerifC12_csidhmul512(t *testing.T) {
	r, _, wide := c12Begin(t, "csidhmul512")
	defer r.Finish()
	g := bf.LimbField[fp]("C12", "csidh.u512", c12R, 8, func(e *fp) []uint64 { return e[:] }, bf.Pseudo("csidh-junk", 0, c12R), verifmc.ParallelFor)
	u512 := g.Prepare("u", wide)
	for _, m := range []uint64{0, 1, 2, 3, 587, 1<<32 - 1, 1 << 32, 1<<63 - 1, 1 << 63, ^uint64(0) - 1, ^uint64(0), 0x5555555555555555} {
		m := m
		g.CheckUn(r, bf.UnOp{Name: "mul512", Do: func(z, x bf.Elem) { mul512(z.(*fp), x.(*fp), m) },
			Ref: func(out, x, p *big.Int) bool { out.Mul(x, new(big.Int).SetUint64(m)).Mod(out, p); return true }}, u512, m == 587)
	}
	r.RequireCounter("csidh.u512.mul512", 3000)
}
