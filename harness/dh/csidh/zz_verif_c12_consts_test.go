//go:build verif

package csidh

// C12: the package constants p and one (R mod p) against their definitions.
// Unexported identifiers named here: p, one.

import (
	"math/big"
	"testing"

	bf "github.com/cloudflare/circl/internal/verifref/bigfield"
)

func TestVerifC12_csidhconsts(t *testing.T) {
	r, _, _ := c12Begin(t, "csidhconsts")
	defer r.Finish()
	r.Eval(2)
	r.Distinct("p")
	r.Distinct("one")
	if got := bf.FromLimbs(p[:]); got.Cmp(bf.PCSIDH) != 0 {
		r.Violation("C12|csidh.p|wrong-constant|-|-", "csidh.p", "package p = "+got.Text(16)+" differs from 4*l_1*...*l_74-1", nil)
	}
	if got := bf.FromLimbs(one[:]); got.Cmp(new(big.Int).Mod(c12R, bf.PCSIDH)) != 0 {
		r.Violation("C12|csidh.one|wrong-constant|-|-", "csidh.one", "package constant one = "+got.Text(16)+" is not 2^512 mod p", nil)
	}
}
