//go:build verif && amd64 && !purego

package csidh

// C12: read-out of the multiplication back-end flag (evidence only). Unexported identifier named here: hasADXandBMI2.
// If it disappears this file drops out and the units report no "backend" entry.

func init() {
	c12Backend = func() string {
		if hasADXandBMI2 {
			return "mulBmiAsm (BMI2+ADX)"
		}
		return "mulGeneric"
	}
}
