//go:build verif

package csidh

// C12: addRdc / subRdc of dh/csidh (modular addition and subtraction, results reduced) against math/big.
// Self-contained apart from the internals-free helpers file; unexported identifiers named here: fp, addRdc, subRdc.

import (
	"math/big"
	"testing"

	"github.com/cloudflare/circl/internal/verifmc"
	bf "github.com/cloudflare/circl/internal/verifref/bigfield"
)

func TestVerifC12_csidh(t *testing.T) {
	r, red, _ := c12Begin(t, "csidh")
	defer r.Finish()
	f := bf.LimbField[fp]("C12", "csidh.fp", bf.PCSIDH, 8, func(e *fp) []uint64 { return e[:] }, bf.Pseudo("csidh-junk", 0, bf.PCSIDH), verifmc.ParallelFor)
	all := f.Prepare("e", red)
	for _, op := range []bf.BinOp{
		{Name: "addRdc", Do: func(z, x, y bf.Elem) { addRdc(z.(*fp), x.(*fp), y.(*fp)) }, Ref: bf.RefAdd, Canon: true},
		{Name: "subRdc", Do: func(z, x, y bf.Elem) { subRdc(z.(*fp), x.(*fp), y.(*fp)) }, Ref: bf.RefSub, Canon: true},
	} {
		f.CheckBin(r, op, all, all, op.Name == "addRdc" && bf.HashPairs(all.Len()*all.Len()))
	}
	r.Count("ordered_pairs", all.Len()*all.Len())
	r.RequireCounter("csidh.fp.addRdc", 50000)
	_ = big.NewInt
}
