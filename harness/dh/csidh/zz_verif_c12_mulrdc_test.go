//go:build verif

package csidh

// C12: mulRdc of dh/csidh (Montgomery multiplication; BMI2+ADX assembly or Go) against math/big.
// Self-contained apart from the internals-free helpers file; unexported identifiers named here: fp, mulRdc.

import (
	"math/big"
	"testing"

	"github.com/cloudflare/circl/internal/verifmc"
	bf "github.com/cloudflare/circl/internal/verifref/bigfield"
)

func TestVerifC12_csidhmulrdc(t *testing.T) {
	r, red, _ := c12Begin(t, "csidhmulrdc")
	defer r.Finish()
	f := bf.LimbField[fp]("C12", "csidh.fp", bf.PCSIDH, 8, func(e *fp) []uint64 { return e[:] }, bf.Pseudo("csidh-junk", 0, bf.PCSIDH), verifmc.ParallelFor)
	all := f.Prepare("e", red)
	f.CheckBin(r, bf.BinOp{Name: "mulRdc", Do: func(z, x, y bf.Elem) { mulRdc(z.(*fp), x.(*fp), y.(*fp)) }, Ref: c12Mont, Canon: true}, all, all, bf.HashPairs(all.Len()*all.Len()))
	r.Count("ordered_pairs", all.Len()*all.Len())
	r.RequireCounter("csidh.fp.mulRdc", 50000)
	_ = big.NewInt
}
