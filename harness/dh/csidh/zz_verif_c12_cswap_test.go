//go:build verif

package csidh

// C12: cswap512 of dh/csidh (conditional swap, both selector values) on 512-bit strings.
// Self-contained apart from the internals-free helpers file; unexported identifiers named here: fp, cswap512.

import (
	"math/big"
	"testing"

	"github.com/cloudflare/circl/internal/verifmc"
	bf "github.com/cloudflare/circl/internal/verifref/bigfield"
)

func TestVerifC12_csidhcswap(t *testing.T) {
	r, _, wide := c12Begin(t, "csidhcswap")
	defer r.Finish()
	g := bf.LimbField[fp]("C12", "csidh.u512", c12R, 8, func(e *fp) []uint64 { return e[:] }, bf.Pseudo("csidh-junk", 0, c12R), verifmc.ParallelFor)
	us := g.Prepare("v", bf.Thin(wide, r.Pick(60, 150)))
	g.CheckCswap(r, "cswap512", func(x, y bf.Elem, b int) { cswap512(x.(*fp), y.(*fp), uint8(b)) }, []int{0, 1}, us, us)
	for i := 0; i < us.Len(); i++ {
		r.Distinct("cswap", i)
	}
	r.RequireCounter("csidh.u512.cswap512", 5000)
	_ = big.NewInt
}
