//go:build verif && amd64 && !purego

package csidh

// Read-out of the two switches: hasBMI2 is tested inside fp511_amd64.s (mul512, MULX or MULQ),
// hasADXandBMI2 in mulRdcAmd64 (mulBmiAsm or the Go mulGeneric). Only this file names them.
func init() {
	C14ReadBackend = func() string {
		switch {
		case hasADXandBMI2 && hasBMI2:
			return "asm-mulx-adx"
		case hasBMI2:
			return "asm-mulx"
		case hasADXandBMI2:
			return "inconsistent"
		}
		return "asm-legacy"
	}
}
