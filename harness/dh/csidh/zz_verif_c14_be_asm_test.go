//go:build verif && amd64 && !purego

package csidh

// c14Backend reads the two switches: hasBMI2 is tested inside fp511_amd64.s (mul512, MULX or MULQ),
// hasADXandBMI2 in mulRdcAmd64 (mulBmiAsm or the Go mulGeneric).
func c14Backend() string {
	switch {
	case hasADXandBMI2 && hasBMI2:
		return "asm-mulx-adx"
	case hasBMI2:
		return "asm-mulx"
	case hasADXandBMI2:
		return "inconsistent"
	}
	return "asm-legacy"
}
