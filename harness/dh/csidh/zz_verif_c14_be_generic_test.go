//go:build verif && (!amd64 || purego)

package csidh

// fp511_noasm.go is compiled.
func init() { C14ReadBackend = func() string { return "generic" } }
