//go:build verif && (!amd64 || purego)

package csidh

// c14Backend: fp511_noasm.go is compiled.
func c14Backend() string { return "generic" }
