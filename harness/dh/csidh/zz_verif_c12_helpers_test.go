//go:build verif

package csidh

// C12, CSIDH-512 field (Montgomery form, R = 2^512): glue shared by the
// per-routine units of this directory (operand alphabets, Montgomery reference
// functions, unit start). This file names NO identifier of package csidh; the
// element adapter is instantiated inside each unit file with bf.LimbField[fp].

import (
	"math/big"
	"testing"

	"github.com/cloudflare/circl/internal/verifmc"
	bf "github.com/cloudflare/circl/internal/verifref/bigfield"
)

// c12Backend is set by an internals-only file when it can read the dispatch flag.
var c12Backend func() string

var (
	c12R    = bf.Pow2(512)
	c12Rinv = new(big.Int).ModInverse(c12R, bf.PCSIDH)
)

func c12Mont(out, x, y, p *big.Int) bool { out.Mul(x, y).Mul(out, c12Rinv).Mod(out, p); return true }

// exponentiation in the Montgomery domain: raw result = (x/R)^e * R
func c12Mexp(out, x, e, p *big.Int) bool {
	b := new(big.Int).Mul(x, c12Rinv)
	b.Mod(b, p)
	out.Exp(b, e, p).Mul(out, c12R).Mod(out, p)
	return true
}

const c12Rule = "operands: residues below p as 8 limbs: the integer alphabet around every 64/32-bit limb boundary (and p minus those, R, R^2, 1/R), p with +-1 on each limb, limb products (core^8 plus <=1 limb away from 00../FF.. over 9 limb values) below p, 24 pseudo-random; binary field operations on ALL ordered pairs with junk-filled output and aliasing z=x, z=y, x=y, z=x=y; integer helpers on every 512-bit element (also >= p); pair sweeps above 1.5e6 cases are counted by the ordered_pairs counters instead of being hashed into distinct_nontrivial; a distinct case is one (operation, operand tuple)"

// c12Begin starts a unit; reduced = residues below p, u512 = all 512-bit strings of the alphabet.
func c12Begin(t *testing.T, unit string) (r *verifmc.Run, reduced, u512 []bf.Operand) {
	r = verifmc.Start(t, "C12", unit)
	if bad := bf.SelfCheck(); len(bad) != 0 {
		t.Fatalf("reference constants not bound: %v", bad)
	}
	if c12Backend != nil {
		r.Set("backend", c12Backend())
	}
	r.Rule(c12Rule)
	r.NotExhaustive("operands are the declared alphabet, not all residues")
	P := bf.PCSIDH
	wide := []uint64{0, 1, 2, 1<<32 - 1, 1 << 32, 1<<63 - 1, 1 << 63, ^uint64(0) - 1, ^uint64(0)}
	core := bf.Rep(8, []uint64{0, ^uint64(0)})
	if r.Thorough() {
		for i := 0; i < 4; i++ {
			core[i] = []uint64{0, 1, ^uint64(0)}
		}
	}
	lp := bf.LimbProduct(8, core, bf.Rep(8, wide), 1)
	ia := bf.IntAlphabet(P, 64, 24, "csidh")
	// limb patterns taken from p itself (so that comparisons with p decide late)
	var near []bf.Operand
	pl := bf.ToLimbs(P, 8)
	for i := 0; i < 8; i++ {
		for _, d := range []uint64{1, ^uint64(0)} { // +-1 on limb i
			l := append([]uint64{}, pl...)
			l[i] += d
			near = append(near, bf.Operand{V: bf.FromLimbs(l), Name: "p+-2^64i"})
		}
	}
	reduced = bf.Append(P, ia, near, lp)
	var w []bf.Operand
	w = append(w, reduced...)
	w = append(w, lp...)
	w = append(w, bf.Around(P, 0, 2, "p")...)
	w = append(w, bf.Around(c12R, -3, -1, "2^512")...)
	u512 = bf.Append(c12R, w)
	r.Set("elements", len(reduced))
	r.Set("u512_elements", len(u512))
	for i := 0; i < 3; i++ {
		k := i*len(reduced)/3 + 5
		r.Sample(map[string]string{"element": reduced[k].Name, "value": reduced[k].V.Text(16)})
	}
	return
}

func c12PredBases() []bf.Operand {
	P := bf.PCSIDH
	return []bf.Operand{{V: new(big.Int), Name: "0"}, {V: big.NewInt(1), Name: "1"}, {V: new(big.Int).Sub(P, big.NewInt(1)), Name: "p-1"}, {V: bf.Pseudo("csidh-pred", 0, P), Name: "pseudo0"}, {V: bf.Pseudo("csidh-pred", 1, P), Name: "pseudo1"}}
}
