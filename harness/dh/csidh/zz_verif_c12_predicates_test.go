//go:build verif

package csidh

// C12: the predicates isZero / equal / isLess of dh/csidh against math/big, including every one-bit neighbour of the limbs.
// Self-contained apart from the internals-free helpers file; unexported identifiers named here: fp, isZero, equal, isLess.

import (
	"math/big"
	"testing"

	"github.com/cloudflare/circl/internal/verifmc"
	bf "github.com/cloudflare/circl/internal/verifref/bigfield"
)

func TestVerifC12_csidhpredicates(t *testing.T) {
	r, red, wide := c12Begin(t, "csidhpredicates")
	defer r.Finish()
	P := bf.PCSIDH
	f := bf.LimbField[fp]("C12", "csidh.fp", bf.PCSIDH, 8, func(e *fp) []uint64 { return e[:] }, bf.Pseudo("csidh-junk", 0, bf.PCSIDH), verifmc.ParallelFor)
	all := f.Prepare("e", red)
	var pe fp
	copy(pe[:], bf.ToLimbs(P, 8))
	f.CheckPred(r, bf.Pred{Name: "isZero", Do: func(x bf.Elem) bool { return x.(*fp).isZero() }, Ref: bf.RefIsZero}, all)
	f.CheckPred(r, bf.Pred{Name: "isLess(p)", Do: func(x bf.Elem) bool { return isLess(x.(*fp), &pe) }, Ref: func(x, p *big.Int) bool { return x.Cmp(p) < 0 }}, all)
	r.RequireCounter("csidh.fp.isZero.true", 1)
	f.CheckBitFlips(r, bf.BitFlip{Coords: 1, Bits: 512, P: P, Limit: P, IsZero: func(x bf.Elem) bool { return x.(*fp).isZero() },
		IsEqual: func(x, y bf.Elem) bool { return x.(*fp).equal(y.(*fp)) }}, c12PredBases())
	r.RequireCounter("csidh.fp.predicates.one-bit-neighbours", 4*510)
	g := bf.LimbField[fp]("C12", "csidh.u512", c12R, 8, func(e *fp) []uint64 { return e[:] }, bf.Pseudo("csidh-junk", 0, c12R), verifmc.ParallelFor)
	us := g.Prepare("v", bf.Thin(wide, r.Pick(60, 150)))
	var cmp int
	for i := 0; i < us.Len(); i++ {
		for j := 0; j < us.Len(); j++ {
			x, y := us.E[i].(*fp), us.E[j].(*fp)
			r.Eval(2)
			cmp++
			r.Distinct("cmp", i, j)
			if got, want := isLess(x, y), us.Ops[i].V.Cmp(us.Ops[j].V) < 0; got != want {
				r.Violation("C12|csidh.isLess|wrong-flag|-|-", "csidh.isLess#v"+big.NewInt(int64(i)).String()+",v"+big.NewInt(int64(j)).String(),
					"isLess("+us.Ops[i].V.Text(16)+", "+us.Ops[j].V.Text(16)+") wrong", nil)
			}
			if got, want := x.equal(y), us.Ops[i].V.Cmp(us.Ops[j].V) == 0; got != want {
				r.Violation("C12|csidh.equal|wrong-flag|-|-", "csidh.equal#v"+big.NewInt(int64(i)).String()+",v"+big.NewInt(int64(j)).String(),
					"equal("+us.Ops[i].V.Text(16)+", "+us.Ops[j].V.Text(16)+") wrong", nil)
			}
		}
	}
	r.Count("csidh.isLess+equal.pairs", cmp)
	r.RequireCounter("csidh.isLess+equal.pairs", 3000)
}
