//go:build verif

package partiallyblindrsa_test

import "math/big"

func pssBig(x int64) *big.Int       { return big.NewInt(x) }
func pssInv(x, n *big.Int) *big.Int { return new(big.Int).ModInverse(x, n) }
